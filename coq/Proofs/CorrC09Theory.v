(* C09, algebraic part (abstract *-field): the call-level models of Model/CorrC09.v return what the
   definition says (four normalisations, zero padding, lags -maxlags..maxlags, conj(r_yx[k]) at -k),
   raise exactly where the code raises, the Gram matrix of the 'autocorrelation' data matrix is N times
   the Hermitian Toeplitz matrix of the biased autocorrelation (all (i,j)), and the shape / entry
   formulas of the five corrmtx methods. *)
Require Import Spectrum.Theory.Ops Spectrum.Theory.Sum Spectrum.Theory.Vec Spectrum.Model.Corr
               Spectrum.Model.CorrC09 Spectrum.Proofs.CorrTheory Spectrum.Proofs.LevinsonTheory.

Section CorrC09T.
Context {F : Type} {OF : Ops F} {L : Laws OF}.
Local Open Scope F_scope.
Add Field FFc9 : (fth (O:=OF)).

(* the raw lag sum of the zero-padded sequences: nthF reads 0 beyond the end of a list *)
Definition lagsum (N : nat) (x y : list F) (k : nat) : F :=
  sumf (N - k) (fun j => nthF x (j + k) * conj (nthF y j)).
(* the same on explicitly padded copies: this is what the code computes after x.resize(N) *)
Lemma nthF_pad n (x : list F) j : nthF (pad n x) j = if (j <? n)%nat then nthF x j else 0.
Proof.
  unfold pad. destruct (Nat.ltb_spec j n); [apply nth_mk; assumption|apply nth_mk_ge; assumption].
Qed.
Lemma lagsum_pad N (x y : list F) k : (length x <= N)%nat -> (length y <= N)%nat ->
  lagsum N x y k = sumf (N - k) (fun j => nthF (pad N x) (j + k) * conj (nthF (pad N y) j)).
Proof.
  intros Hx Hy. unfold lagsum. apply sumf_ext; intros j Hj. rewrite !nthF_pad.
  destruct (Nat.ltb_spec (j + k) N); [|lia]. destruct (Nat.ltb_spec j N); [|lia]. reflexivity.
Qed.

(* the four normalisations, written out *)
Definition normalised (rp : F) (N k : nat) (nm : cnorm) (s : F) : F :=
  match nm with
  | Biased => s / ofnat N
  | Unbiased => s / ofnat (N - k)
  | NoNorm => s
  | Coeff => if (k =? 0)%nat then 1 else s / rp / ofnat N
  end.
Lemma norm_factor_normalised rp N k nm s : norm_factor rp N k nm s = normalised rp N k nm s.
Proof. unfold norm_factor, normalised. destruct k, nm; try reflexivity. rewrite Nat.sub_0_r. reflexivity. Qed.

Definition the_y (x : list F) (oy : option (list F)) : list F := match oy with Some y => y | None => x end.
Definition the_ml (N : nat) (oml : option nat) : nat := match oml with Some m => m | None => (N - 1)%nat end.

Theorem correlation_c_def_thm rp (x : list F) oy oml nm r :
  correlation_c rp x oy oml nm = inr r ->
  let y := the_y x oy in
  let N := Nat.max (length x) (length y) in
  let ml := the_ml N oml in
  (ml < N)%nat /\ length r = S ml /\
  forall k, (k <= ml)%nat -> nthF r k = normalised rp N k nm (lagsum N x y k).
Proof.
  unfold correlation_c. fold (the_y x oy). cbv zeta.
  set (y := the_y x oy). set (N := Nat.max (length x) (length y)). fold (the_ml N oml). set (ml := the_ml N oml).
  destruct (correlation rp x y ml nm) as [r'|] eqn:E; [|discriminate]. intros H; injection H as <-.
  destruct (correlation_def_thm _ _ _ _ _ _ E) as (H1 & H2 & H3). fold N in H1, H3.
  split; [exact H1|]. split; [exact H2|]. intros k Hk. rewrite (H3 k Hk). apply norm_factor_normalised.
Qed.

Theorem correlation_c_raises_thm rp (x : list F) oy oml nm :
  let y := the_y x oy in
  let N := Nat.max (length x) (length y) in
  (correlation_c rp x oy oml nm = inl EAssert <-> (N <= the_ml N oml)%nat)
  /\ correlation_c rp x oy oml nm <> inl EIndex.
Proof.
  unfold correlation_c. fold (the_y x oy). cbv zeta.
  set (y := the_y x oy). set (N := Nat.max (length x) (length y)). fold (the_ml N oml). set (ml := the_ml N oml).
  pose proof (correlation_raises_thm rp x y ml nm) as HR. fold N in HR.
  destruct (correlation rp x y ml nm) as [r'|] eqn:E.
  - split; [|discriminate]. split; [discriminate|]. intros H. apply HR in H. discriminate.
  - split; [|discriminate]. split; [intros _; apply HR; reflexivity|reflexivity].
Qed.

(* maxlags = None serves every lag 0..N-1 and never raises on a non-empty input *)
Theorem correlation_c_default_thm rp (x : list F) oy nm : (1 <= length x)%nat ->
  exists r, correlation_c rp x oy None nm = inr r /\ length r = Nat.max (length x) (length (the_y x oy)).
Proof.
  intros Hx. destruct (correlation_c rp x oy None nm) as [e|r] eqn:E.
  - exfalso. destruct (correlation_c_raises_thm rp x oy None nm) as [H1 H2]. destruct e; [|exact (H2 E)].
    apply H1 in E. cbn [the_ml] in E. lia.
  - exists r. split; [reflexivity|]. destruct (correlation_c_def_thm _ _ _ _ _ _ E) as (H1 & H2 & _).
    cbn [the_ml] in *. rewrite H2. lia.
Qed.

(* mean power = rms(x)^2 *)
Lemma mean_pow_sumf (x : list F) : mean_pow x = sumf (length x) (fun j => nrm2 (nthF x j)) / ofnat (length x).
Proof. unfold mean_pow. rewrite sumL_map_nrm2'. reflexivity. Qed.

(* the autocorrelation: r[0] is the mean power (biased, unbiased), the raw energy (None), 1 (coeff);
   the coeff-normalised value at lag k >= 1 is lagsum / (N * rms(x)^2) *)
Theorem acorr_c_def_thm (x : list F) oml nm r :
  acorr_c x oml nm = inr r ->
  let N := length x in
  let ml := the_ml N oml in
  (ml < N)%nat /\ length r = S ml /\
  (forall k, (k <= ml)%nat -> nthF r k = normalised (mean_pow x) N k nm (lagsum N x x k)) /\
  nthF r O = match nm with Biased | Unbiased => mean_pow x | NoNorm => sumf N (fun j => nrm2 (nthF x j)) | Coeff => 1 end.
Proof.
  unfold acorr_c. intros H. destruct (correlation_c_def_thm _ _ _ _ _ _ H) as (H1 & H2 & H3).
  cbn [the_y] in *. rewrite Nat.max_id in *. cbv zeta.
  split; [exact H1|]. split; [exact H2|]. split; [exact H3|].
  rewrite (H3 O) by lia. unfold lagsum. rewrite Nat.sub_0_r.
  assert (E : sumf (length x) (fun j => nthF x (j + 0) * conj (nthF x j)) = sumf (length x) (fun j => nrm2 (nthF x j))).
  { apply sumf_ext; intros j _. rewrite Nat.add_0_r. reflexivity. }
  rewrite E. destruct nm; cbn [normalised Nat.eqb]; rewrite ?Nat.sub_0_r, ?mean_pow_sumf; reflexivity.
Qed.
Theorem acorr_c_coeff_thm (x : list F) oml r k :
  acorr_c x oml Coeff = inr r -> (1 <= k <= the_ml (length x) oml)%nat ->
  mean_pow x <> 0 -> ofnat (length x) <> 0 ->
  nthF r k = lagsum (length x) x x k / (ofnat (length x) * mean_pow x).
Proof.
  intros H Hk Hp HN. destruct (acorr_c_def_thm _ _ _ _ H) as (_ & _ & H3 & _).
  rewrite (H3 k) by lia. unfold normalised. destruct (Nat.eqb_spec k 0); [lia|]. field. split; assumption.
Qed.

(* ---------- xcorr ---------- *)
Lemma xcorr_lags_length ml : length (xcorr_lags ml) = (2 * ml + 1)%nat.
Proof. unfold xcorr_lags. rewrite map_length, seq_length. reflexivity. Qed.
Lemma xcorr_lags_nth ml i : (i < 2 * ml + 1)%nat -> nth i (xcorr_lags ml) 0%Z = (Z.of_nat i - Z.of_nat ml)%Z.
Proof.
  intros Hi. unfold xcorr_lags. set (f := fun i : nat => (Z.of_nat i - Z.of_nat ml)%Z).
  rewrite (nth_indep _ 0%Z (f O)) by (rewrite map_length, seq_length; exact Hi).
  rewrite map_nth, seq_nth by exact Hi. reflexivity.
Qed.

(* the lag sum at a negative lag -k, straight from the definition r_xy[-k] = sum_n x[n] conj(y[n+k]) *)
Definition lagsum_neg (N : nat) (x y : list F) (k : nat) : F :=
  sumf (N - k) (fun j => nthF x j * conj (nthF y (j + k))).
Lemma lagsum_neg_conj N (x y : list F) k : lagsum_neg N x y k = conj (lagsum N y x k).
Proof.
  unfold lagsum_neg, lagsum. rewrite sumf_conj. apply sumf_ext; intros j _. rewrite conj_mul, conj_conj. ring.
Qed.

Definition xnormalised (rp : F) (N k : nat) (nm : cnorm) (s : F) : F :=
  match nm with
  | Biased => s / ofnat N
  | Unbiased => s / ofnat (N - k)
  | NoNorm => s
  | Coeff => s / rp / ofnat N
  end.

Lemma xcorr_c_inv rp (x : list F) oy oml nm rx lags :
  xcorr_c rp x oy oml nm = inr (rx, lags) ->
  let y := the_y x oy in let N := length x in let ml := the_ml N oml in
  length y = N /\ (ml < N)%nat /\ xcorr rp x y ml nm = Some rx /\ lags = xcorr_lags ml.
Proof.
  unfold xcorr_c. fold (the_y x oy). cbv zeta. set (y := the_y x oy). fold (the_ml (length x) oml).
  set (ml := the_ml (length x) oml).
  destruct (Nat.eqb_spec (length y) (length x)) as [Ey|Ey]; cbn [negb]; [|discriminate].
  destruct (Nat.ltb_spec (length x) ml); [discriminate|].
  destruct (Nat.eqb_spec ml (length x)); [discriminate|].
  destruct (xcorr rp x y ml nm) as [r'|]; [|discriminate]. intros Hinj; injection Hinj as <- <-.
  repeat split; try assumption; try reflexivity. lia.
Qed.

Theorem xcorr_c_def_thm rp (x : list F) oy oml nm rx lags :
  xcorr_c rp x oy oml nm = inr (rx, lags) ->
  let y := the_y x oy in let N := length x in let ml := the_ml N oml in
  length y = N /\ (ml < N)%nat /\ length rx = (2 * ml + 1)%nat /\ length lags = (2 * ml + 1)%nat /\
  (forall i, (i < 2 * ml + 1)%nat -> nth i lags 0%Z = (Z.of_nat i - Z.of_nat ml)%Z) /\
  (forall k, (k <= ml)%nat -> nthF rx (ml + k) = xnormalised rp N k nm (lagsum N x y k)) /\
  (forall k, (k <= ml)%nat -> nthF rx (ml - k) = xnormalised rp N k nm (lagsum_neg N x y k)).
Proof.
  intros H. destruct (xcorr_c_inv _ _ _ _ _ _ _ H) as (Hy & Hml & Hx & ->). cbv zeta.
  set (y := the_y x oy) in *. set (ml := the_ml (length x) oml) in *.
  split; [exact Hy|]. split; [exact Hml|].
  unfold xcorr in Hx. rewrite Hy, Nat.eqb_refl in Hx. cbn [negb orb] in Hx.
  destruct (Nat.ltb_spec (length x) ml); [lia|]. injection Hx as <-.
  split; [apply mk_length|]. split; [apply xcorr_lags_length|]. split; [apply xcorr_lags_nth|]. split.
  - intros k Hk. rewrite nth_mk by lia. unfold xlag.
    replace (Z.of_nat (ml + k) - Z.of_nat ml)%Z with (Z.of_nat k) by lia.
    destruct (Z.leb_spec 0 (Z.of_nat k)); [|lia]. rewrite Nat2Z.id, lag_sum_sumf, Z.abs_eq, Nat2Z.id by lia.
    destruct nm; reflexivity.
  - intros k Hk. destruct (Nat.eq_dec k 0) as [->|Hk0].
    + rewrite Nat.sub_0_r. rewrite nth_mk by lia. unfold xlag.
      replace (Z.of_nat ml - Z.of_nat ml)%Z with 0%Z by lia. cbn [Z.leb Z.compare Z.to_nat Z.abs Z.opp].
      rewrite lag_sum_sumf. unfold lagsum_neg.
      assert (E : sumf (length x - 0) (fun j => nthF x (j + 0) * conj (nthF y j))
                  = sumf (length x - 0) (fun j => nthF x j * conj (nthF y (j + 0)))).
      { apply sumf_ext; intros j _. rewrite !Nat.add_0_r. reflexivity. }
      rewrite E. destruct nm; reflexivity.
    + rewrite nth_mk by lia. unfold xlag.
      replace (Z.of_nat (ml - k) - Z.of_nat ml)%Z with (- Z.of_nat k)%Z by lia.
      destruct (Z.leb_spec 0 (- Z.of_nat k)); [lia|].
      rewrite Z.opp_involutive, Nat2Z.id, sumL_mk, Z.abs_neq, Z.opp_involutive, Nat2Z.id by lia.
      destruct nm; reflexivity.
Qed.

(* the code raises exactly here *)
Theorem xcorr_c_raises_thm rp (x : list F) oy oml nm :
  let y := the_y x oy in let N := length x in let ml := the_ml N oml in
  (xcorr_c rp x oy oml nm = inl EAssert <-> (length y <> N \/ N < ml)%nat) /\
  (xcorr_c rp x oy oml nm = inl EIndex <-> (length y = N /\ ml = N)%nat).
Proof.
  unfold xcorr_c. fold (the_y x oy). cbv zeta. set (y := the_y x oy). fold (the_ml (length x) oml).
  set (ml := the_ml (length x) oml).
  destruct (Nat.eqb_spec (length y) (length x)) as [Ey|Ey]; cbn [negb].
  2:{ split; split; try discriminate; try tauto. }
  destruct (Nat.ltb_spec (length x) ml) as [Hl|Hl].
  { split; split; try discriminate; try tauto; try lia. }
  destruct (Nat.eqb_spec ml (length x)) as [Em|Em].
  { split; split; try discriminate; try tauto; try lia. }
  assert (Hs : exists r, xcorr rp x y ml nm = Some r).
  { unfold xcorr. rewrite Ey, Nat.eqb_refl. cbn [negb orb]. destruct (Nat.ltb_spec (length x) ml); [lia|]. eexists; reflexivity. }
  destruct Hs as [r ->]. split; split; try discriminate; try lia.
Qed.

(* non-negative lags of xcorr = CORRELATION (every norm; 'coeff' from lag 1 on: CORRELATION sets r[0] = 1) *)
Theorem xcorr_c_nonneg_thm rp (x : list F) oy oml nm rx lags r k :
  xcorr_c rp x oy oml nm = inr (rx, lags) -> correlation_c rp x oy oml nm = inr r ->
  (k <= the_ml (length x) oml)%nat -> (nm <> Coeff \/ (1 <= k)%nat) ->
  nthF rx (the_ml (length x) oml + k) = nthF r k.
Proof.
  intros Hx Hr Hk Hc. destruct (xcorr_c_def_thm _ _ _ _ _ _ _ Hx) as (Hy & Hml & _ & _ & _ & Hp & _).
  destruct (correlation_c_def_thm _ _ _ _ _ _ Hr) as (_ & _ & Hq). cbv zeta in *.
  rewrite Hy, Nat.max_id in Hq. rewrite (Hp k Hk), (Hq k Hk).
  unfold xnormalised, normalised. destruct nm; try reflexivity.
  destruct (Nat.eqb_spec k 0); [|reflexivity]. destruct Hc as [Hc|Hc]; [congruence|lia].
Qed.

(* value at lag -k is the conjugate of r_yx[k] *)
Theorem xcorr_c_neg_thm rp (x y : list F) oml nm rxy lxy ryx lyx k :
  xcorr_c rp x (Some y) oml nm = inr (rxy, lxy) -> xcorr_c rp y (Some x) oml nm = inr (ryx, lyx) ->
  (k <= the_ml (length x) oml)%nat ->
  isreal rp -> rp <> 0 -> (forall n, (1 <= n <= length x)%nat -> ofnat n <> 0) ->
  nthF rxy (the_ml (length x) oml - k) = conj (nthF ryx (the_ml (length x) oml + k)).
Proof.
  intros Hxy Hyx Hk Hrp Hrp0 Hchar.
  destruct (xcorr_c_def_thm _ _ _ _ _ _ _ Hxy) as (Hy & Hml & _ & _ & _ & _ & Hn).
  destruct (xcorr_c_def_thm _ _ _ _ _ _ _ Hyx) as (_ & _ & _ & _ & _ & Hp & _).
  cbn [the_y] in *. cbv zeta in *. rewrite Hy in Hp. rewrite (Hn k Hk), (Hp k Hk), lagsum_neg_conj.
  set (s := lagsum _ _ _ _).
  assert (HN : ofnat (length x) <> 0) by (apply Hchar; lia).
  assert (HNk : ofnat (length x - k) <> 0) by (apply Hchar; lia).
  unfold xnormalised. destruct nm.
  - rewrite conj_div, conj_ofnat by exact HN. reflexivity.
  - rewrite conj_div, conj_ofnat by exact HNk. reflexivity.
  - rewrite conj_div, conj_ofnat by exact HN. rewrite conj_div by exact Hrp0. rewrite Hrp. reflexivity.
  - reflexivity.
Qed.

(* the coeff-normalised two-sided autocorrelation is 1 at lag 0 *)
Theorem xcorr_c_coeff_lag0_thm (x : list F) oml rx lags :
  xcorr_c (mean_pow x) x None oml Coeff = inr (rx, lags) ->
  mean_pow x <> 0 -> ofnat (length x) <> 0 ->
  nthF rx (the_ml (length x) oml) = 1.
Proof.
  intros H Hp HN. destruct (xcorr_c_def_thm _ _ _ _ _ _ _ H) as (_ & _ & _ & _ & _ & Hq & _).
  cbn [the_y] in Hq. cbv zeta in Hq. specialize (Hq O (Nat.le_0_l _)). rewrite Nat.add_0_r in Hq. rewrite Hq.
  unfold xnormalised, lagsum. rewrite Nat.sub_0_r.
  assert (E : sumf (length x) (fun j => nthF x (j + 0) * conj (nthF x j)) = mean_pow x * ofnat (length x)).
  { rewrite mean_pow_sumf. transitivity (sumf (length x) (fun j => nrm2 (nthF x j))).
    - apply sumf_ext; intros j _. rewrite Nat.add_0_r. reflexivity.
    - field. exact HN. }
  rewrite E. field. split; assumption.
Qed.

(* ---------- Gram matrix = N * Hermitian Toeplitz matrix, every (i, j) ---------- *)
Theorem corrmtx_gram_full_thm (x : list F) m i j r : (i <= m)%nat -> (j <= m)%nat ->
  ofnat (length x) <> 0 -> acorr_c x (Some m) Biased = inr r ->
  gram x m i j = ofnat (length x) * rz r (Z.of_nat i - Z.of_nat j).
Proof.
  intros Hi Hj HN Hr.
  assert (Hr' : acorr x m Biased = Some r).
  { unfold acorr_c, correlation_c in Hr. cbn [the_ml] in Hr. unfold acorr.
    destruct (correlation (mean_pow x) x x m Biased); [injection Hr as ->; reflexivity|discriminate]. }
  assert (Hm : (m < length x)%nat).
  { destruct (acorr_c_def_thm _ _ _ _ Hr) as (H1 & _). exact H1. }
  unfold rz. destruct (Z.leb_spec 0 (Z.of_nat i - Z.of_nat j)) as [Hd|Hd].
  - rewrite (corrmtx_gram_thm x m i j r) by (try lia; assumption). do 2 f_equal. lia.
  - rewrite gram_hermitian_thm, (corrmtx_gram_thm x m j i r) by (try lia; assumption).
    rewrite conj_mul, conj_ofnat. do 3 f_equal. lia.
Qed.

(* ---------- the five data matrices: shape and entries ---------- *)
Definition cm_at (x : list F) (m : nat) (meth : cmethod) (n j : nat) : F := nthF (nth n (corrmtx x m meth) []) j.

Lemma nth_map_seq (g : nat -> list F) a len n : (n < len)%nat -> nth n (map g (seq a len)) [] = g (a + n)%nat.
Proof.
  intros Hn. rewrite (nth_indep _ [] (g O)) by (rewrite map_length, seq_length; exact Hn).
  rewrite map_nth, seq_nth by exact Hn. reflexivity.
Qed.
Lemma nth_xrow (x : list F) m n j : (j <= m)%nat -> nthF (xrow x m n) j = if (j <=? n)%nat then nthF x (n - j) else 0.
Proof. intros Hj. unfold xrow. rewrite nth_mk by lia. reflexivity. Qed.

Theorem corrmtx_shape_thm (x : list F) m meth : (m < length x)%nat ->
  length (corrmtx x m meth) = corrmtx_rows (length x) m meth /\
  forall n, (n < corrmtx_rows (length x) m meth)%nat ->
    length (nth n (corrmtx x m meth) []) = S m /\
    forall j, (j <= m)%nat -> cm_at x m meth n j = corrmtx_entry x m meth n j.
Proof.
  intros Hm. unfold cm_at, corrmtx, corrmtx_rows, corrmtx_entry. destruct meth.
  - split; [rewrite map_length, seq_length; reflexivity|]. intros n Hn. rewrite nth_map_seq by exact Hn.
    split; [apply mk_length|]. intros j Hj. rewrite nth_xrow by exact Hj. reflexivity.
  - split; [rewrite map_length, seq_length; reflexivity|]. intros n Hn. rewrite nth_map_seq by exact Hn.
    split; [apply mk_length|]. intros j Hj. rewrite nth_xrow by exact Hj. reflexivity.
  - split; [rewrite map_length, seq_length; reflexivity|]. intros n Hn. rewrite nth_map_seq by exact Hn.
    split; [apply mk_length|]. intros j Hj. rewrite nth_xrow by exact Hj. rewrite (Nat.add_comm m n). reflexivity.
  - split; [rewrite map_length, seq_length; reflexivity|]. intros n Hn. rewrite nth_map_seq by exact Hn.
    split; [apply mk_length|]. intros j Hj. rewrite nth_xrow by exact Hj. rewrite (Nat.add_comm m n). reflexivity.
  - split; [rewrite app_length, !map_length, !seq_length; lia|]. intros n Hn.
    destruct (Nat.ltb_spec n (length x - m)) as [Hlt|Hge].
    + rewrite app_nth1 by (rewrite map_length, seq_length; exact Hlt). rewrite nth_map_seq by exact Hlt.
      split; [apply mk_length|]. intros j Hj. rewrite nth_xrow by exact Hj. rewrite (Nat.add_comm m n). reflexivity.
    + rewrite app_nth2 by (rewrite map_length, seq_length; exact Hge). rewrite map_length, seq_length.
      rewrite nth_map_seq by lia.
      split; [apply mk_length|]. intros j Hj. rewrite nth_mk by lia. do 3 f_equal. lia.
Qed.

(* in the domain m < N, j <= m every entry the three windowless reads touch is inside the data:
   covariance / the first half of modified read x[n+m-j], the second half conj(x[n'+j]) *)
Theorem corrmtx_covariance_entry_thm (x : list F) m n j : (m < length x)%nat -> (n < length x - m)%nat -> (j <= m)%nat ->
  cm_at x m MCovariance n j = nthF x (n + m - j) /\ (n + m - j < length x)%nat /\
  cm_at x m MModified n j = nthF x (n + m - j) /\
  cm_at x m MModified (length x - m + n) j = conj (nthF x (n + j)) /\ (n + j < length x)%nat.
Proof.
  intros Hm Hn Hj.
  destruct (corrmtx_shape_thm x m MCovariance Hm) as [_ Hc]. destruct (corrmtx_shape_thm x m MModified Hm) as [_ Hd].
  cbn [corrmtx_rows] in *.
  destruct (Hc n Hn) as [_ Hc1]. rewrite (Hc1 j Hj).
  destruct (Hd n ltac:(lia)) as [_ Hd1]. rewrite (Hd1 j Hj).
  destruct (Hd (length x - m + n)%nat ltac:(lia)) as [_ Hd2]. rewrite (Hd2 j Hj).
  unfold corrmtx_entry.
  destruct (Nat.leb_spec j (n + m)); [|lia].
  destruct (Nat.ltb_spec n (length x - m)); [|lia].
  destruct (Nat.ltb_spec (length x - m + n) (length x - m)); [lia|].
  repeat split; try lia. do 2 f_equal. lia.
Qed.
End CorrC09T.
