(* TOEPLITZ solves its general (non-Hermitian) Toeplitz system M x = z, M[i][j] = t(i-j) with
   t(0) = T0, t(d) = TC[d-1], t(-d) = TR[d-1] (d > 0): two predictors (for M and for its transpose)
   share one error power P; the partial solution is carried along.  Abstract field, no conjugation. *)
Require Import Spectrum.Theory.Ops Spectrum.Theory.Sum Spectrum.Theory.Vec Spectrum.Model.Levinson
               Spectrum.Proofs.LevinsonTheory.

Section Toep.
Context {F : Type} {OF : Ops F} {L : Laws OF}.
Local Open Scope F_scope.
Add Field FFt : (fth (O:=OF)).

Variables (T0 : F) (TC TR Zv : list F).
Definition tz (d : Z) : F :=
  if (d =? 0)%Z then T0 else if (0 <? d)%Z then nthF TC (Z.to_nat (d - 1)) else nthF TR (Z.to_nat (- d - 1)).
Definition tt (i j : nat) : F := tz (Z.of_nat i - Z.of_nat j).

(* a solves M a = P e0 on rows 0..m; b solves M^T b = P e0 *)
Definition arow (m : nat) (a : nat -> F) (i : nat) : F := sumf (S m) (fun j => a j * tt i j).
Definition brow (m : nat) (b : nat -> F) (i : nat) : F := sumf (S m) (fun j => b j * tt j i).
Definition xrowt (m : nat) (X : nat -> F) (i : nat) : F := sumf (S m) (fun j => X j * tt i j).

Definition TInv (m : nat) (st : list F * list F * F * list F) : Prop :=
  let '(A, B, P, X) := st in
  length A = m /\ length B = m /\ length X = S m /\ P <> 0
  /\ (forall i, (i <= m)%nat -> arow m (afun A) i = if (i =? 0)%nat then P else 0)
  /\ (forall i, (i <= m)%nat -> brow m (afun B) i = if (i =? 0)%nat then P else 0)
  /\ (forall i, (i <= m)%nat -> xrowt m (nthF X) i = nthF Zv i).

Lemma afun_over (A : list F) j : (length A < j)%nat -> afun A j = 0.
Proof. intros H. destruct j; [lia|]. cbn. apply nthF_overflow. lia. Qed.

Lemma delta_arow m A : length A = m -> lev_delta TC A m = arow m (afun A) (S m).
Proof.
  intros HA. unfold lev_delta, arow. rewrite sumL_mk, sumf_shift. cbn [afun].
  unfold tt at 1, tz. replace (Z.of_nat (S m) - Z.of_nat 0)%Z with (Z.of_nat (S m)) by lia.
  destruct (Z.eqb_spec (Z.of_nat (S m)) 0); [lia|]. destruct (Z.ltb_spec 0 (Z.of_nat (S m))); [|lia].
  replace (Z.to_nat (Z.of_nat (S m) - 1)) with m by lia.
  transitivity (1 * nthF TC m + sumf m (fun j => nthF A j * nthF TC (m - j - 1))); [ring|].
  f_equal. apply sumf_ext; intros j Hj. f_equal. unfold tt, tz.
  destruct (Z.eqb_spec (Z.of_nat (S m) - Z.of_nat (S j)) 0); [lia|].
  destruct (Z.ltb_spec 0 (Z.of_nat (S m) - Z.of_nat (S j))); [|lia]. f_equal. lia.
Qed.
Lemma delta_brow m B : length B = m -> lev_delta TR B m = brow m (afun B) (S m).
Proof.
  intros HB. unfold lev_delta, brow. rewrite sumL_mk, sumf_shift. cbn [afun].
  unfold tt at 1, tz. replace (Z.of_nat 0 - Z.of_nat (S m))%Z with (- Z.of_nat (S m))%Z by lia.
  destruct (Z.eqb_spec (- Z.of_nat (S m)) 0); [lia|]. destruct (Z.ltb_spec 0 (- Z.of_nat (S m))); [lia|].
  replace (Z.to_nat (- - Z.of_nat (S m) - 1)) with m by lia.
  transitivity (1 * nthF TR m + sumf m (fun j => nthF B j * nthF TR (m - j - 1))); [ring|].
  f_equal. apply sumf_ext; intros j Hj. f_equal. unfold tt, tz.
  destruct (Z.eqb_spec (Z.of_nat (S j) - Z.of_nat (S m)) 0); [lia|].
  destruct (Z.ltb_spec 0 (Z.of_nat (S j) - Z.of_nat (S m))); [lia|]. f_equal. lia.
Qed.
Lemma beta_xrowt m (X : list F) :
  sumL (mk (S m) (fun j => nthF X j * nthF TC (m - j))) = xrowt m (nthF X) (S m).
Proof.
  rewrite sumL_mk. unfold xrowt. apply sumf_ext; intros j Hj. f_equal. unfold tt, tz.
  destruct (Z.eqb_spec (Z.of_nat (S m) - Z.of_nat j) 0); [lia|].
  destruct (Z.ltb_spec 0 (Z.of_nat (S m) - Z.of_nat j)); [|lia]. f_equal. lia.
Qed.

(* the cross terms: reversing one predictor turns its transposed rows into plain rows *)
Lemma rev_b_rows m (b : nat -> F) i : (i <= S m)%nat ->
  sumf (S (S m)) (fun j => b (S m - j)%nat * tt i j) = sumf (S (S m)) (fun l => b l * tt l (S m - i)%nat).
Proof.
  intros Hi. rewrite (sumf_rev (S (S m))). apply sumf_ext; intros l Hl.
  replace (S m - (S (S m) - 1 - l))%nat with l by lia. f_equal. unfold tt. f_equal. lia.
Qed.
Lemma rev_a_rows m (a : nat -> F) i : (i <= S m)%nat ->
  sumf (S (S m)) (fun j => a (S m - j)%nat * tt j i) = sumf (S (S m)) (fun l => a l * tt (S m - i)%nat l).
Proof.
  intros Hi. rewrite (sumf_rev (S (S m))). apply sumf_ext; intros l Hl.
  replace (S m - (S (S m) - 1 - l))%nat with l by lia. f_equal. unfold tt. f_equal. lia.
Qed.
Lemma arow_ext_len m A i : length A = m -> arow (S m) (afun A) i = arow m (afun A) i.
Proof. intros HA. unfold arow. rewrite (sumf_S (S m)). rewrite afun_over by lia. ring. Qed.
Lemma brow_ext_len m B i : length B = m -> brow (S m) (afun B) i = brow m (afun B) i.
Proof. intros HB. unfold brow. rewrite (sumf_S (S m)). rewrite afun_over by lia. ring. Qed.

Lemma afun_pred_step m (A B : list F) t1 j : length A = m -> length B = m -> (j <= S m)%nat ->
  afun (mk m (fun j => nthF A j + t1 * nthF B (m - 1 - j)) ++ [t1]) j = afun A j + t1 * afun B (S m - j).
Proof.
  intros HA HB Hj. destruct j as [|j'].
  - cbn [afun]. rewrite afun_over by lia. ring.
  - cbn [afun]. destruct (Nat.eq_dec j' m) as [->|Hne].
    + rewrite nthF_app_last' by apply mk_length. rewrite (nthF_overflow A) by lia. replace (S m - S m)%nat with O by lia. cbn. ring.
    + rewrite nthF_app_l by (rewrite mk_length; lia). rewrite nth_mk by lia.
      replace (S m - S j')%nat with (S (m - 1 - j')) by lia. reflexivity.
Qed.

Lemma toep_step_inv m st st' : TInv m st -> toep_step TC TR Zv st m = Some st' -> TInv (S m) st'.
Proof.
  destruct st as [[[A B] P] X]. intros (HA & HB & HX & HP0 & Ha & Hb & Hz) Hs.
  unfold toep_step in Hs. cbv zeta in Hs.
  set (t1 := - lev_delta TC A m / P) in Hs. set (t2 := - lev_delta TR B m / P) in Hs.
  set (P' := P * (1 - t1 * t2)) in Hs.
  destruct (le0 P') eqn:Hle; [discriminate|]. injection Hs as <-.
  assert (HP' : P' <> 0) by (apply le0_false_neq; exact Hle).
  assert (S1 : arow m (afun A) (S m) = - (t1 * P)). { unfold t1. rewrite delta_arow by exact HA. field. exact HP0. }
  assert (S2 : brow m (afun B) (S m) = - (t2 * P)). { unfold t2. rewrite delta_brow by exact HB. field. exact HP0. }
  set (A' := mk m (fun j => nthF A j + t1 * nthF B (m - 1 - j)) ++ [t1]).
  set (B' := mk m (fun j => nthF B j + t2 * nthF A (m - 1 - j)) ++ [t2]).
  assert (HA'l : length A' = S m) by (unfold A'; rewrite app_length, mk_length; cbn; lia).
  assert (HB'l : length B' = S m) by (unfold B'; rewrite app_length, mk_length; cbn; lia).
  assert (Harow : forall i, (i <= S m)%nat ->
            arow (S m) (afun A') i = arow m (afun A) i + t1 * brow m (afun B) (S m - i)).
  { intros i Hi. rewrite <- (arow_ext_len m A i HA), <- (brow_ext_len m B _ HB). unfold arow, brow.
    rewrite <- (rev_b_rows m (afun B) i Hi). rewrite <- sumf_scale, <- sumf_add.
    apply sumf_ext; intros j Hj. unfold A'. rewrite afun_pred_step by (auto; lia). ring. }
  assert (Hbrow : forall i, (i <= S m)%nat ->
            brow (S m) (afun B') i = brow m (afun B) i + t2 * arow m (afun A) (S m - i)).
  { intros i Hi. rewrite <- (arow_ext_len m A _ HA), <- (brow_ext_len m B i HB). unfold arow, brow.
    rewrite <- (rev_a_rows m (afun A) i Hi). rewrite <- sumf_scale, <- sumf_add.
    apply sumf_ext; intros j Hj. unfold B'. rewrite afun_pred_step by (auto; lia). ring. }
  assert (HA' : forall i, (i <= S m)%nat -> arow (S m) (afun A') i = if (i =? 0)%nat then P' else 0).
  { intros i Hi. rewrite Harow by exact Hi. destruct (Nat.eqb_spec i 0) as [->|Hne].
    - rewrite Ha by lia. cbn [Nat.eqb]. replace (S m - 0)%nat with (S m) by lia. rewrite S2. unfold P'. ring.
    - destruct (Nat.eq_dec i (S m)) as [->|Hne2].
      + rewrite S1, Nat.sub_diag, Hb by lia. cbn. ring.
      + rewrite Ha, Hb by lia. destruct (Nat.eqb_spec i 0); [lia|]. destruct (Nat.eqb_spec (S m - i) 0); [lia|]. ring. }
  assert (HB' : forall i, (i <= S m)%nat -> brow (S m) (afun B') i = if (i =? 0)%nat then P' else 0).
  { intros i Hi. rewrite Hbrow by exact Hi. destruct (Nat.eqb_spec i 0) as [->|Hne].
    - rewrite Hb by lia. cbn [Nat.eqb]. replace (S m - 0)%nat with (S m) by lia. rewrite S1. unfold P'. ring.
    - destruct (Nat.eq_dec i (S m)) as [->|Hne2].
      + rewrite S2, Nat.sub_diag, Ha by lia. cbn. ring.
      + rewrite Ha, Hb by lia. destruct (Nat.eqb_spec i 0); [lia|]. destruct (Nat.eqb_spec (S m - i) 0); [lia|]. ring. }
  set (alpha := (nthF Zv (S m) - sumL (mk (S m) (fun j => nthF X j * nthF TC (m - j)))) / P').
  set (X' := mk (S m) (fun j => nthF X j + alpha * nthF B' (m - j)) ++ [alpha]).
  assert (HX'l : length X' = S (S m)) by (unfold X'; rewrite app_length, mk_length; cbn; lia).
  assert (HX' : forall j, (j <= S m)%nat ->
            nthF X' j = (if (j <=? m)%nat then nthF X j else 0) + alpha * afun B' (S m - j)).
  { intros j Hj. unfold X'. destruct (Nat.leb_spec j m) as [Jm|Jm].
    - rewrite nthF_app_l by (rewrite mk_length; lia). rewrite nth_mk by lia.
      replace (S m - j)%nat with (S (m - j)) by lia. reflexivity.
    - assert (j = S m) as -> by lia. rewrite nthF_app_last' by apply mk_length. replace (S m - S m)%nat with O by lia. cbn [afun]. ring. }
  assert (Hxrow : forall i, (i <= S m)%nat ->
            xrowt (S m) (nthF X') i = xrowt m (nthF X) i + alpha * (if (i =? S m)%nat then P' else 0)).
  { intros i Hi.
    assert (E : (if (i =? S m)%nat then P' else 0) = brow (S m) (afun B') (S m - i)).
    { rewrite HB' by lia. destruct (Nat.eqb_spec i (S m)) as [->|Hne].
      - rewrite Nat.sub_diag. reflexivity.
      - destruct (Nat.eqb_spec (S m - i) 0); [lia|reflexivity]. }
    rewrite E. unfold brow. rewrite <- (rev_b_rows m (afun B') i Hi). unfold xrowt.
    rewrite <- sumf_scale. rewrite (sumf_S (S m) (fun j => nthF X' j * tt i j)).
    rewrite (sumf_S (S m) (fun j => alpha * (afun B' (S m - j) * tt i j))).
    rewrite HX' by lia. destruct (Nat.leb_spec (S m) m); [lia|].
    rewrite (sumf_ext (S m) (fun j => nthF X' j * tt i j)
               (fun j => nthF X j * tt i j + alpha * (afun B' (S m - j) * tt i j))).
    2:{ intros j Hj. rewrite HX' by lia. destruct (Nat.leb_spec j m); [ring|lia]. }
    rewrite sumf_add. ring. }
  unfold TInv. split; [exact HA'l|]. split; [exact HB'l|]. split; [exact HX'l|]. split; [exact HP'|].
  split; [exact HA'|]. split; [exact HB'|]. intros i Hi. rewrite Hxrow by exact Hi.
  destruct (Nat.eqb_spec i (S m)) as [->|Hne].
  - unfold alpha. rewrite beta_xrowt. field. exact HP'.
  - rewrite Hz by lia. ring.
Qed.

Lemma toep_iter_inv m st : T0 <> 0 -> toep_iter TC TR Zv T0 m = Some st -> TInv m st.
Proof.
  intros H0. revert st. induction m; intros st H.
  - cbn in H. injection H as <-. unfold TInv. repeat split; auto.
    + intros i Hi. replace i with O by lia. unfold arow, tt, tz. cbn. ring.
    + intros i Hi. replace i with O by lia. unfold brow, tt, tz. cbn. ring.
    + intros i Hi. replace i with O by lia. unfold xrowt, tt, tz. cbn. field. exact H0.
  - cbn [toep_iter] in H. destruct (toep_iter TC TR Zv T0 m) as [st0|] eqn:E; [|discriminate].
    eapply toep_step_inv; [apply IHm; reflexivity|exact H].
Qed.
End Toep.

Section FinalT.
Context {F : Type} {OF : Ops F} {L : Laws OF}.
Local Open Scope F_scope.
Theorem toeplitz_solves_thm (T0 : F) (TC TR Z X : list F) :
  T0 <> 0 -> toeplitz T0 TC TR Z = Some X ->
  length X = S (length TC) /\
  forall i, (i <= length TC)%nat ->
    sumf (S (length TC)) (fun j => nthF X j * tz T0 TC TR (Z.of_nat i - Z.of_nat j)) = nthF Z i.
Proof.
  intros H0 H. unfold toeplitz in H.
  destruct (toep_iter TC TR Z T0 (length TC)) as [[[[A B] P] X0]|] eqn:E; [|discriminate]. injection H as <-.
  pose proof (toep_iter_inv T0 TC TR Z (length TC) _ H0 E) as (_ & _ & HX & _ & _ & _ & HZ).
  split; [exact HX|]. intros i Hi. apply (HZ i Hi).
Qed.
End FinalT.
