(* Stability of the Yule-Walker polynomial for ALL complex roots: instance of the abstract theorems at
   Coquelicot's complex numbers.  Depends on the standard-library axioms of the reals (through
   Instances/Cplx_C12.v); nothing else in the development does. *)
From Coq Require Import Reals Lra QArith Qcanon Qreals.
From Coquelicot Require Import Complex.
Require Import Spectrum.Theory.Ops Spectrum.Theory.Sum Spectrum.Theory.Vec Spectrum.Theory.Order
               Spectrum.Model.Levinson Spectrum.Model.Corr Spectrum.Model.Yule
               Spectrum.Proofs.LevinsonTheory Spectrum.Proofs.YulePD Spectrum.Proofs.YuleTheory Spectrum.Proofs.YuleExt
               Spectrum.Instances.QcC Spectrum.Instances.QcCOrd Spectrum.Instances.Cplx_C12.

Lemma qcc_to_c_hom : StarHom (OF:=qcc_ops) (OK:=c_ops) qcc_to_c.
Proof.
  constructor.
  - apply c_eq; apply Q2R_Qc_0.
  - apply c_eq; [apply Q2R_Qc_1|apply Q2R_Qc_0].
  - intros [a b] [c d]. apply c_eq; cbn [fst snd mul add conj qcc_ops c_ops qcc_mul qcc_to_c Cmult Cplus Cconj]; apply Q2R_Qc_add.
  - intros [a b] [c d]. apply c_eq; cbn [fst snd mul add conj qcc_ops c_ops qcc_mul qcc_to_c Cmult Cplus Cconj].
    + rewrite Q2R_Qc_sub, !Q2R_Qc_mul. reflexivity.
    + rewrite Q2R_Qc_add, !Q2R_Qc_mul. reflexivity.
  - intros [a b]. apply c_eq; cbn [fst snd mul add conj qcc_ops c_ops qcc_mul qcc_to_c Cmult Cplus Cconj]; [reflexivity|apply Q2R_Qc_opp].
Qed.

(* data in the Gaussian rationals (the executed instance), roots anywhere in C *)
Theorem aryule_stable_complex_thm (x : list QcC) (p : nat) (allow : bool) (a : list QcC) (P : QcC) (k : list QcC) (z : C) :
  (exists n, nthF (OF:=qcc_ops) x n <> zero (Ops:=qcc_ops)) ->
  aryule (OF:=qcc_ops) x p Biased allow = inr (a, P, k) ->
  sumf (OF:=c_ops) (S p) (fun j => Cmult (qcc_to_c (afun (OF:=qcc_ops) a j)) (fpow (OF:=c_ops) z (p - j))) = RtoC 0 ->
  (Cmod z < 1)%R.
Proof.
  intros Hx Hy Hz. apply c_lt_nrm2_1.
  exact (aryule_stable_ext_thm (L:=qcc_laws) (OL:=qcc_ord) (LK:=c_laws) (OLK:=c_ord) qcc_to_c qcc_to_c_hom x p allow a P k z Hx Hy Hz).
Qed.

(* data in C *)
Theorem aryule_stable_C_thm (x : list C) (p : nat) (allow : bool) (a : list C) (P : C) (k : list C) (z : C) :
  (exists n, nthF (OF:=c_ops) x n <> RtoC 0) ->
  aryule (OF:=c_ops) x p Biased allow = inr (a, P, k) ->
  sumf (OF:=c_ops) (S p) (fun j => Cmult (afun (OF:=c_ops) a j) (fpow (OF:=c_ops) z (p - j))) = RtoC 0 ->
  (Cmod z < 1)%R.
Proof.
  intros Hx Hy Hz. apply c_lt_nrm2_1.
  exact (aryule_stable_thm (L:=c_laws) (OL:=c_ord) x p allow a P k z Hx Hy Hz).
Qed.
