(* What the six AR/MA/ARMA classes store: psd = c * (rho/sampling) * |B|^2 / |A|^2 of the stored
   ar / ma / rho, bin by bin, with c = (2 for real data) * (2 pi / df when scale_by_freq). *)
Require Import Spectrum.Theory.Ops Spectrum.Theory.Sum Spectrum.Theory.Vec Spectrum.Theory.Dft
               Spectrum.Model.Levinson Spectrum.Model.ArmaEst Spectrum.Proofs.LevinsonTheory.

Section PsdT.
Context {F : Type} {OF : Ops F} {L : Laws OF}.
Local Open Scope F_scope.
Add Field FFap : (fth (O:=OF)).

(* A(w^k) = 1 + sum_j c_j w^{(j+1) k}; an absent polynomial is the constant 1 *)
Definition polyval (tw : Z -> F) (c : option (list F)) (k : nat) : F :=
  match c with None => 1 | Some c => dftN tw (S (length c)) (afun c) (Z.of_nat k) end.
Definition class_const (real sbf : bool) (twopi sampling : F) (NFFT : nat) : F :=
  (if real then two else 1) * (if sbf then twopi / (sampling / ofnat NFFT) else 1).

Lemma polyfft_polyval tw NFFT c k : (k < NFFT)%nat -> fits NFFT c = true -> polyfft tw NFFT c k = polyval tw c k.
Proof.
  intros Hk Hf. destruct c as [c|]; [|reflexivity]. cbn [polyfft polyval fits] in *.
  apply Nat.ltb_lt in Hf. rewrite nth_dft by (cbn [length]; lia). cbn [length].
  unfold dftN. apply sumf_ext. intros m _. reflexivity.
Qed.

Lemma dft_polyval tw NFFT c k : (k < NFFT)%nat -> fits NFFT (Some c) = true ->
  nthF (dft tw NFFT (1 :: c)) k = polyval tw (Some c) k.
Proof. exact (polyfft_polyval tw NFFT (Some c) k). Qed.

Lemma nbins_le real NFFT : (1 <= NFFT)%nat -> (nbins real NFFT <= NFFT)%nat.
Proof.
  intros H. unfold nbins. destruct real; [|lia].
  destruct (Nat.eqb_spec (NFFT mod 2) 0) as [E|E].
  - assert (NFFT = 2 * (NFFT / 2))%nat by (rewrite (Nat.div_mod NFFT 2) at 1 by lia; lia). lia.
  - pose proof (Nat.div_mod (NFFT + 1) 2 ltac:(lia)). pose proof (Nat.mod_upper_bound (NFFT + 1) 2 ltac:(lia)). lia.
Qed.

Lemma nthF_map_mul (c : F) (l : list F) j : nthF (map (fun v => v * c) l) j = nthF l j * c.
Proof. apply (nthF_map (fun v => v * c)). ring. Qed.

Lemma nrm2_1 : nrm2 (1 : F) = 1.
Proof. unfold nrm2. rewrite conj_1. ring. Qed.
(* division is multiplication by the (total) inverse: lets [ring] close identities between the
   code's expression and the normal form without any non-zero side condition *)
Lemma div_as_mul (a b : F) : a / b = a * inv b.
Proof. apply (Fdiv_def (fth (O:=OF))). Qed.
Lemma inv_1 : inv (1 : F) = 1.
Proof. field. apply (F_1_neq_0 (fth (O:=OF))). Qed.

Theorem class_psd_thm tw (c : pclass) (ar ma : list F) (v : F) (N order : nat) (twopi sampling : F)
        (NFFT : nat) (real sbf : bool) (e : exposed) : (1 <= NFFT)%nat ->
  class_call tw c ar ma v N order twopi sampling NFFT real sbf = inr e ->
  let rho := class_rho c v N order in
  x_ar e = class_A c ar /\ x_ma e = class_B c ma
  /\ x_rho e = (if class_rho_exposed c then Some rho else None)
  /\ length (x_psd e) = nbins real NFFT
  /\ forall k, (k < nbins real NFFT)%nat ->
       nthF (x_psd e) k = class_const real sbf twopi sampling NFFT * (rho / sampling)
                          * nrm2 (polyval tw (x_ma e) k) / nrm2 (polyval tw (x_ar e) k).
Proof.
  intros HN H rho. unfold class_call in H. fold rho in H.
  destruct (arma2psd tw (class_A c ar) (class_B c ma) rho sampling NFFT) as [er|psd] eqn:Ep; [discriminate|].
  injection H as <-. cbn [x_ar x_ma x_rho x_psd].
  split; [reflexivity|]. split; [reflexivity|]. split; [reflexivity|].
  pose proof (nbins_le real NFFT HN) as Hnb.
  (* the two-sided array *)
  assert (Hp : length psd = NFFT /\ fits NFFT (class_A c ar) = true /\ fits NFFT (class_B c ma) = true /\
               forall k, (k < NFFT)%nat -> nthF psd k = rho / sampling * nrm2 (polyval tw (class_B c ma) k) / nrm2 (polyval tw (class_A c ar) k)).
  { unfold arma2psd in Ep.
    assert (Hnn : (class_A c ar = None /\ class_B c ma = None) -> False) by (destruct c; cbn; intros [? ?]; discriminate).
    destruct (class_A c ar) as [a|] eqn:EA; destruct (class_B c ma) as [b|] eqn:EB; try (exfalso; apply Hnn; split; reflexivity);
      (destruct (fits NFFT _ && fits NFFT _) eqn:Ef; [|discriminate]); apply Bool.andb_true_iff in Ef; destruct Ef as [Ef1 Ef2];
      injection Ep as <-; (split; [apply mk_length|]); (split; [exact Ef1|]); (split; [exact Ef2|]);
      intros k Hk; rewrite nth_mk by exact Hk; cbn [polyfft]; rewrite ?dft_polyval by assumption.
    - rewrite !div_as_mul. ring.
    - cbn [polyval]. rewrite nrm2_1, !div_as_mul. ring.
    - cbn [polyval]. rewrite nrm2_1, !div_as_mul, inv_1. ring. }
  destruct Hp as (Hlen & _ & _ & Hpk).
  split.
  - unfold class_finish. destruct real, sbf; rewrite ?map_length, ?firstn_length, Hlen; try reflexivity; lia.
  - intros k Hk. unfold class_finish, class_const.
    destruct real, sbf; rewrite ?nthF_map_mul, ?nthF_firstn by exact Hk; rewrite Hpk by lia; rewrite !div_as_mul; ring.
Qed.
End PsdT.
