(* The Vandermonde argument: the data matrix of p distinct exponentials with non-zero
   amplitudes and N - p >= p has full column rank; hence exact recovery without a rank
   hypothesis.  Pure field reasoning (no order needed for the rank statement). *)
Require Import Spectrum.Theory.Ops Spectrum.Theory.Sum Spectrum.Theory.Vec Spectrum.Theory.Order
               Spectrum.Model.Corr Spectrum.Model.Ls Spectrum.Proofs.LsTheory Spectrum.Proofs.CovarTheory
               Spectrum.Proofs.CovarOpt Spectrum.Proofs.CovarExp.

Section Vdm.
Context {F : Type} {OF : Ops F} {L : Laws OF}.
Local Open Scope F_scope.
Add Field FFvd : (fth (O:=OF)).

Definition distinct (p : nat) (z : nat -> F) : Prop := forall i j, (i < j < p)%nat -> z i <> z j.

Lemma sub_neq_0 a b : a <> b -> a - b <> 0.
Proof. intros H E. apply H. transitivity (a - b + b); [ring|rewrite E; ring]. Qed.

(* transposed Vandermonde system: sum_i u_i z_i^n = 0 for n < p  =>  u = 0 *)
Lemma vdm_transposed p : forall (z u : nat -> F), distinct p z ->
  (forall n, (n < p)%nat -> sumf p (fun i => u i * powF (z i) n) = 0) -> forall i, (i < p)%nat -> u i = 0.
Proof.
  induction p as [|p IH]; intros z u Hd H i Hi; [lia|].
  assert (Hlow : forall i, (i < p)%nat -> u i = 0).
  { intros k Hk.
    assert (E : u k * (z k - z p) = 0).
    { apply (IH z (fun i => u i * (z i - z p))); [intros a b Hab; apply Hd; lia| |exact Hk].
      intros n Hn.
      pose proof (H (S n) ltac:(lia)) as H1. pose proof (H n ltac:(lia)) as H0.
      cbn [sumf powF] in H1, H0.
      transitivity (sumf p (fun i => u i * (z i * powF (z i) n)) - z p * sumf p (fun i => u i * powF (z i) n)).
      { rewrite <- sumf_scale, <- sumf_sub. apply sumf_ext; intros; ring. }
      transitivity ((sumf p (fun i => u i * (z i * powF (z i) n)) + u p * (z p * powF (z p) n))
                    - z p * (sumf p (fun i => u i * powF (z i) n) + u p * powF (z p) n)); [ring|rewrite H1, H0; ring]. }
    apply (mul_cancel_l (z k - z p) (u k)); [rewrite <- E; ring|apply sub_neq_0, Hd; lia]. }
  destruct (Nat.eq_dec i p) as [->|Hne]; [|apply Hlow; lia].
  pose proof (H O ltac:(lia)) as H0. cbn [sumf powF] in H0.
  rewrite (sumf_zero_ext p) in H0 by (intros k Hk; rewrite (Hlow k Hk); ring).
  rewrite <- H0. ring.
Qed.

(* ---------- polynomials as coefficient lists (lowest degree first), synthetic division ---------- *)
Fixpoint horner (l : list F) (z : F) : F := match l with [] => 0 | a :: t => a + z * horner t z end.
Fixpoint sdiv (l : list F) (w : F) : list F :=
  match l with
  | [] => []
  | _ :: t => match t with [] => [] | _ :: _ => horner t w :: sdiv t w end
  end.

Lemma sdiv_length l w : length (sdiv l w) = (length l - 1)%nat.
Proof.
  induction l as [|a t IH]; [reflexivity|]. destruct t as [|b t']; [reflexivity|].
  change (sdiv (a :: b :: t') w) with (horner (b :: t') w :: sdiv (b :: t') w).
  cbn [length] in *. rewrite IH. lia.
Qed.
Lemma sdiv_spec l z w : horner l z - horner l w = (z - w) * horner (sdiv l w) z.
Proof.
  induction l as [|a t IH]; [cbn; ring|]. destruct t as [|b t'].
  - cbn. ring.
  - change (sdiv (a :: b :: t') w) with (horner (b :: t') w :: sdiv (b :: t') w).
    cbn [horner] in *.
    transitivity (z * ((b + z * horner t' z) - (b + w * horner t' w)) + (z - w) * (b + w * horner t' w)); [ring|].
    rewrite IH. ring.
Qed.
Lemma horner_zero l z : (forall k, nthF l k = 0) -> horner l z = 0.
Proof.
  induction l as [|a t IH]; intros H; [reflexivity|]. cbn [horner].
  rewrite (H O : a = 0), IH; [ring|]. intros k. exact (H (S k)).
Qed.
Lemma sdiv_zero l w : (forall k, nthF (sdiv l w) k = 0) -> forall k, nthF l (S k) = 0.
Proof.
  induction l as [|a t IH]; intros H k; [destruct k; reflexivity|].
  destruct t as [|b t']; [destruct k; reflexivity|].
  change (sdiv (a :: b :: t') w) with (horner (b :: t') w :: sdiv (b :: t') w) in H.
  assert (Ht : forall k, nthF (b :: t') (S k) = 0) by (apply IH; intros j; exact (H (S j))).
  rewrite nthF_consS. destruct k as [|k]; [|apply Ht].
  pose proof (H O) as H0. rewrite nthF_cons0 in H0. cbn [horner] in H0.
  rewrite (horner_zero t' w) in H0 by (intros j; exact (Ht j)).
  rewrite nthF_cons0, <- H0. ring.
Qed.

(* a polynomial with p coefficients and p distinct roots is the zero polynomial *)
Lemma poly_roots_zero p : forall (l : list F) (z : nat -> F), length l = p -> distinct p z ->
  (forall i, (i < p)%nat -> horner l (z i) = 0) -> forall k, nthF l k = 0.
Proof.
  induction p as [|p IH]; intros l z Hl Hd H k.
  - destruct l; [destruct k; reflexivity|discriminate].
  - assert (HQ : forall k, nthF (sdiv l (z p)) k = 0).
    { apply (IH (sdiv l (z p)) z); [rewrite sdiv_length, Hl; lia|intros a b Hab; apply Hd; lia|].
      intros i Hi. pose proof (sdiv_spec l (z i) (z p)) as E.
      rewrite (H i), (H p) in E by lia.
      apply (mul_cancel_l (z i - z p)); [rewrite <- E; ring|apply sub_neq_0, Hd; lia]. }
    pose proof (sdiv_zero l (z p) HQ) as Hhi.
    destruct k as [|k]; [|apply Hhi].
    destruct l as [|a t]; [reflexivity|]. rewrite nthF_cons0.
    pose proof (H p ltac:(lia)) as Hp. cbn [horner] in Hp.
    rewrite (horner_zero t (z p)) in Hp by (intros j; exact (Hhi j)).
    rewrite <- Hp. ring.
Qed.

Lemma horner_sumf l z : horner l z = sumf (length l) (fun k => nthF l k * powF z k).
Proof.
  induction l as [|a t IH]; [reflexivity|]. cbn [horner length]. rewrite sumf_shift, IH, <- sumf_scale.
  rewrite nthF_cons0. cbn [powF]. f_equal; [ring|]. apply sumf_ext; intros k _. rewrite nthF_consS. cbn [powF]. ring.
Qed.

(* ---------- full column rank of the covariance data matrix of p exponentials ---------- *)
Theorem exp_full_rank_thm (x : list F) p (amp z : nat -> F) :
  (forall t, (t < length x)%nat -> nthF x t = expsum p amp z t) ->
  distinct p z -> (forall i, (i < p)%nat -> amp i <> 0) -> (2 * p <= length x)%nat ->
  cov_full_rank x p.
Proof.
  intros Hx Hd Ha HN c Hc j Hj.
  set (D := fun i => sumf p (fun j => c j * powF (z i) (p - 1 - j))).
  assert (HS : forall n, (n < p)%nat -> sumf p (fun i => (amp i * D i) * powF (z i) n) = 0).
  { intros n Hn. rewrite <- (Hc n) by lia.
    rewrite (sumf_ext p (fun j => nthF x (p + n - 1 - j) * c j)
               (fun j => sumf p (fun i => amp i * powF (z i) n * (c j * powF (z i) (p - 1 - j))))).
    2:{ intros k Hk. rewrite Hx by lia. unfold expsum. rewrite <- sumf_scale_r. apply sumf_ext; intros i _.
        replace (p + n - 1 - k)%nat with (n + (p - 1 - k))%nat by lia. rewrite powF_add. ring. }
    rewrite sumf_exch. apply sumf_ext; intros i _. rewrite sumf_scale. unfold D. ring. }
  assert (HD : forall i, (i < p)%nat -> D i = 0).
  { intros i Hi. apply (mul_cancel_l (amp i)); [|apply Ha; exact Hi].
    exact (vdm_transposed p z (fun i => amp i * D i) Hd HS i Hi). }
  set (l := mk p (fun k => c (p - 1 - k)%nat)).
  assert (Hl : forall k, nthF l k = 0).
  { apply (poly_roots_zero p l z); [apply mk_length|exact Hd|].
    intros i Hi. rewrite horner_sumf. unfold l. rewrite mk_length. rewrite <- (HD i Hi). unfold D.
    rewrite (sumf_rev p (fun j => c j * powF (z i) (p - 1 - j))).
    apply sumf_ext; intros k Hk. rewrite nth_mk by exact Hk. do 2 f_equal. lia. }
  specialize (Hl (p - 1 - j)%nat). unfold l in Hl. rewrite nth_mk in Hl by lia.
  rewrite <- Hl. f_equal. lia.
Qed.

Lemma cov_mod_full_rank (x : list F) p : cov_full_rank x p -> mod_full_rank x p.
Proof. intros H c H1 _. exact (H c H1). Qed.

(* a monic polynomial of degree p has no root besides p given distinct ones *)
Lemma monic_no_extra_root p (c z : nat -> F) w : distinct p z ->
  (forall i, (i < p)%nat -> monic_eval p c (z i) = 0) -> monic_eval p c w = 0 ->
  (forall i, (i < p)%nat -> z i <> w) -> False.
Proof.
  intros Hd Hr Hw Hne.
  set (l := mk (S p) (fun k => if (k =? p)%nat then 1 else c (p - 1 - k)%nat)).
  set (z' := fun i => if (i =? p)%nat then w else z i).
  assert (Hev : forall v, horner l v = monic_eval p c v).
  { intros v. rewrite horner_sumf. unfold l. rewrite mk_length. cbn [sumf]. unfold monic_eval.
    rewrite nth_mk, Nat.eqb_refl by lia.
    rewrite (Radd_comm (F_R (fth (O:=OF)))). f_equal; [ring|].
    rewrite (sumf_rev p (fun j => c j * powF v (p - 1 - j))).
    apply sumf_ext; intros k Hk. rewrite nth_mk by lia.
    destruct (Nat.eqb_spec k p); [lia|]. do 2 f_equal. lia. }
  assert (Z : forall k, nthF l k = 0).
  { apply (poly_roots_zero (S p) l z'); [apply mk_length| |].
    - intros i j Hij. unfold z'. destruct (Nat.eqb_spec i p); [lia|].
      destruct (Nat.eqb_spec j p); [apply Hne; lia|apply Hd; lia].
    - intros i Hi. rewrite Hev. unfold z'. destruct (Nat.eqb_spec i p); [exact Hw|apply Hr; lia]. }
  specialize (Z p). unfold l in Z. rewrite nth_mk, Nat.eqb_refl in Z by lia.
  exact (F_1_neq_0 (fth (O:=OF)) Z).
Qed.
End Vdm.

Section Recovery.
Context {F : Type} {OF : Ops F} {L : Laws OF} {OL : OrdLaws OF}.
Local Open Scope F_scope.

(* exact recovery, no rank hypothesis: p distinct exponentials, non-zero amplitudes, N >= 2p *)
Theorem covar_exact_recovery_thm lstsq tol (x : list F) p amp z c a e : lstsq_spec lstsq ->
  (forall t, (t < length x)%nat -> nthF x t = expsum p amp z t) ->
  distinct p z -> (forall i, (i < p)%nat -> amp i <> 0) -> (2 * p <= length x)%nat ->
  (forall i, (i < p)%nat -> monic_eval p c (z i) = 0) ->
  arcovar_with lstsq tol x p = Some (a, e) ->
  e = 0 /\ (forall j, (j < p)%nat -> nthF a j = c j)
  /\ (forall i, (i < p)%nat -> monic_eval p (nthF a) (z i) = 0)
  /\ (forall w, monic_eval p (nthF a) w = 0 -> ~ (forall i, (i < p)%nat -> z i <> w)).
Proof.
  intros Hs Hx Hd Ha HN Hr H.
  destruct (covar_exponentials_thm lstsq tol x p p amp z c a e Hs Hx Hr H) as (E0 & _ & Hu).
  pose proof (Hu (exp_full_rank_thm x p amp z Hx Hd Ha HN)) as Hac.
  assert (Hra : forall i, (i < p)%nat -> monic_eval p (nthF a) (z i) = 0).
  { intros i Hi. rewrite <- (Hr i Hi). unfold monic_eval. f_equal. apply sumf_ext; intros j Hj. rewrite (Hac j Hj). reflexivity. }
  split; [exact E0|]. split; [exact Hac|]. split; [exact Hra|].
  intros w Hw Hne. exact (monic_no_extra_root p (nthF a) z w Hd Hra Hw Hne).
Qed.

Theorem modcovar_exact_recovery_thm lstsq tol (x : list F) p amp z c a e : lstsq_spec lstsq ->
  (forall t, (t < length x)%nat -> nthF x t = expsum p amp z t) ->
  distinct p z -> (forall i, (i < p)%nat -> amp i <> 0) -> (2 * p <= length x)%nat ->
  (forall i, (i < p)%nat -> monic_eval p c (z i) = 0) ->
  (forall i, (i < p)%nat -> z i * conj (z i) = 1) ->
  modcovar_with lstsq tol x p = Some (a, e) ->
  e = 0 /\ (forall j, (j < p)%nat -> nthF a j = c j)
  /\ (forall i, (i < p)%nat -> monic_eval p (nthF a) (z i) = 0)
  /\ (forall w, monic_eval p (nthF a) w = 0 -> ~ (forall i, (i < p)%nat -> z i <> w)).
Proof.
  intros Hs Hx Hd Ha HN Hr Hun H.
  destruct (modcovar_exponentials_thm lstsq tol x p p amp z c a e Hs Hx Hr Hun H) as (E0 & _ & Hu).
  pose proof (Hu (cov_mod_full_rank x p (exp_full_rank_thm x p amp z Hx Hd Ha HN))) as Hac.
  assert (Hra : forall i, (i < p)%nat -> monic_eval p (nthF a) (z i) = 0).
  { intros i Hi. rewrite <- (Hr i Hi). unfold monic_eval. f_equal. apply sumf_ext; intros j Hj. rewrite (Hac j Hj). reflexivity. }
  split; [exact E0|]. split; [exact Hac|]. split; [exact Hra|].
  intros w Hw Hne. exact (monic_no_extra_root p (nthF a) z w Hd Hra Hw Hne).
Qed.
End Recovery.
