(* C17, part 4: a matrix that factors through K rows has at most K non-zero singular values.
   Homogeneous systems with more unknowns than equations have a non-trivial solution (Gaussian elimination by induction
   on the number of unknowns); orthonormal vectors are independent; hence S_K = 0 for any (S, Vh) meeting [svd_spec].
   Abstract ordered *-field. *)
Require Import Spectrum.Theory.Ops Spectrum.Theory.Sum Spectrum.Theory.Vec Spectrum.Theory.Order Spectrum.Theory.Dft
               Spectrum.Model.Eigen Spectrum.Proofs.EigenFB Spectrum.Proofs.EigenAxis Spectrum.Proofs.EigenTheory.

Section Rank.
Context {F : Type} {OF : Ops F} {L : Laws OF} {OL : OrdLaws OF}.
Local Open Scope F_scope.
Add Field FFrk : (fth (O:=OF)).

Lemma all_zero_or_not n (f : nat -> F) : (forall j, (j < n)%nat -> f j = 0) \/ (exists j, (j < n)%nat /\ f j <> 0).
Proof.
  induction n as [|n IH]; [left; intros; lia|].
  destruct IH as [Hz|[j [Hj Hne]]]; [|right; exists j; split; [lia|exact Hne]].
  destruct (eq0_dec (f n)) as [E|E]; [|right; exists n; split; [lia|exact E]].
  left. intros j Hj. destruct (Nat.eq_dec j n) as [->|Hn]; [exact E|apply Hz; lia].
Qed.

(* K homogeneous equations in n > K unknowns: sum_j a_j c[j][i] = 0 (i < K) has a non-trivial solution *)
Theorem homogeneous_nontrivial n : forall K (c : nat -> nat -> F), (K < n)%nat ->
  exists a : nat -> F, (exists j, (j < n)%nat /\ a j <> 0) /\ forall i, (i < K)%nat -> sumf n (fun j => a j * c j i) = 0.
Proof.
  induction n as [|n IH]; intros K c HK; [lia|].
  destruct (all_zero_or_not K (fun i => c n i)) as [Hz|[i0 [Hi0 Hp]]].
  - (* the last unknown is free *)
    exists (fun j => if (j =? n)%nat then 1 else 0). split.
    + exists n. split; [lia|]. rewrite Nat.eqb_refl. exact (F_1_neq_0 (fth (O:=OF))).
    + intros i Hi. rewrite (sumf_single (S n) n) by first [lia | intros j Hj Hne; destruct (Nat.eqb_spec j n); [contradiction|ring]].
      rewrite Nat.eqb_refl, (Hz i Hi). ring.
  - (* eliminate the last unknown with equation i0 *)
    set (p := c n i0) in *.
    set (skip := fun i => if (i <? i0)%nat then i else S i).
    set (c' := fun j i' => c j (skip i') - c j i0 * c n (skip i') / p).
    destruct (IH (K - 1)%nat c' ltac:(lia)) as (a' & (j0 & Hj0 & Hne0) & Heq).
    set (T := sumf n (fun j => a' j * c j i0)).
    exists (fun j => if (j <? n)%nat then a' j else - T / p). split.
    + exists j0. split; [lia|]. destruct (Nat.ltb_spec j0 n); [exact Hne0|lia].
    + intros i Hi. rewrite sumf_S. destruct (Nat.ltb_spec n n) as [Hbad|_]; [lia|].
      rewrite (sumf_ext n _ (fun j => a' j * c j i)) by (intros j Hj; destruct (Nat.ltb_spec j n); [reflexivity|lia]).
      destruct (Nat.eq_dec i i0) as [->|Hne].
      * fold T. fold p. field. exact Hp.
      * assert (Hs : exists i', (i' < K - 1)%nat /\ skip i' = i).
        { destruct (Nat.lt_ge_cases i i0) as [Hlt|Hge].
          - exists i. split; [lia|]. unfold skip. destruct (Nat.ltb_spec i i0); [reflexivity|lia].
          - exists (i - 1)%nat. split; [lia|]. unfold skip. destruct (Nat.ltb_spec (i - 1) i0); lia. }
        destruct Hs as (i' & Hi' & Hsk). specialize (Heq i' Hi'). unfold c' in Heq. rewrite Hsk in Heq.
        transitivity (sumf n (fun j => a' j * (c j i - c j i0 * c n i / p))); [|exact Heq].
        transitivity (sumf n (fun j => a' j * c j i) - (c n i / p) * T).
        { field. exact Hp. }
        unfold T. rewrite <- sumf_scale, <- sumf_sub. apply sumf_ext; intros j _. field. exact Hp.
Qed.

(* K+1 vectors in the span of K vectors are linearly dependent *)
Lemma span_dependent K P (u : nat -> nat -> F) (g : nat -> nat -> F) (b : nat -> nat -> F) :
  (forall j k, (j <= K)%nat -> (k < P)%nat -> u j k = sumf K (fun i => g j i * b i k)) ->
  exists a : nat -> F, (exists j, (j <= K)%nat /\ a j <> 0) /\ forall k, (k < P)%nat -> sumf (S K) (fun j => a j * u j k) = 0.
Proof.
  intros Hu. destruct (homogeneous_nontrivial (S K) K g ltac:(lia)) as (a & (j & Hj & Hne) & Heq).
  exists a. split; [exists j; split; [lia|exact Hne]|]. intros k Hk.
  transitivity (sumf K (fun i => b i k * sumf (S K) (fun j => a j * g j i))).
  - transitivity (sumf (S K) (fun j => sumf K (fun i => b i k * (a j * g j i)))).
    + apply sumf_ext; intros j' Hj'. rewrite Hu by lia. rewrite <- sumf_scale. apply sumf_ext; intros; ring.
    + rewrite sumf_exch. apply sumf_ext; intros i _. rewrite sumf_scale. reflexivity.
  - apply sumf_zero_ext; intros i Hi. rewrite (Heq i Hi). ring.
Qed.
(* orthonormal vectors are linearly independent *)
Lemma orthonormal_independent n P (v : nat -> nat -> F) (a : nat -> F) :
  (forall I J, (I < n)%nat -> (J < n)%nat -> sumf P (fun m => conj (v I m) * v J m) = if (I =? J)%nat then 1 else 0) ->
  (forall k, (k < P)%nat -> sumf n (fun j => a j * v j k) = 0) ->
  forall j, (j < n)%nat -> a j = 0.
Proof.
  intros Ho Hz j Hj.
  transitivity (sumf P (fun k => conj (v j k) * sumf n (fun j' => a j' * v j' k))).
  - transitivity (sumf n (fun j' => a j' * sumf P (fun k => conj (v j k) * v j' k))).
    + rewrite (sumf_single n j); [|exact Hj|].
      * rewrite Ho by assumption. rewrite Nat.eqb_refl. ring.
      * intros j' Hj' Hne. rewrite Ho by assumption. destruct (Nat.eqb_spec j j'); [congruence|ring].
    + transitivity (sumf n (fun j' => sumf P (fun k => conj (v j k) * (a j' * v j' k)))).
      * apply sumf_ext; intros j' _. rewrite <- sumf_scale. apply sumf_ext; intros; ring.
      * rewrite sumf_exch. apply sumf_ext; intros k _. rewrite sumf_scale. reflexivity.
  - apply sumf_zero_ext; intros k Hk. rewrite (Hz k Hk). ring.
Qed.

(* FB = L * B with K rows in B and an SVD meeting its specification: the (K+1)-th singular value is 0 *)
Theorem factor_singular_value_zero (FB : list (list F)) (rows P K : nat) (S : list F) (Vh : list (list F))
        (Lf : nat -> nat -> F) (B : nat -> nat -> F) :
  svd_spec FB rows P S Vh -> (K < P)%nat ->
  (forall r k, (r < rows)%nat -> (k < P)%nat -> mat FB r k = sumf K (fun i => Lf r i * B i k)) ->
  nthF S K = 0.
Proof.
  intros Hs HK Hfac. destruct (eq0_dec (nthF S K)) as [E|HneK]; [exact E|exfalso].
  assert (HposK : pos (nthF S K)) by (split; [apply (svd_nonneg _ _ _ _ _ Hs); exact HK|exact HneK]).
  assert (Hne : forall j, (j <= K)%nat -> nthF S j <> 0).
  { intros j Hj. pose proof (svd_sorted _ _ _ _ _ Hs j K Hj HK) as Hle. unfold le in Hle.
    destruct (pos_add_nonneg _ _ HposK Hle) as [_ Hn]. intros E0. apply Hn. rewrite E0. ring. }
  set (g := fun j i => inv (nthF S j * nthF S j) * sumf rows (fun r => conj (Lf r i) * mv FB P (rsv Vh j) r)).
  destruct (span_dependent K P (fun j k => rsv Vh j k) g (fun i k => conj (B i k))) as (a & (j & Hj & Haj) & Hdep).
  - intros j k Hj Hk.
    assert (Hs2 : nthF S j * nthF S j <> 0).
    { intros E0. apply (Hne j Hj). apply (mul_cancel_l (nthF S j)); [exact E0|apply Hne; exact Hj]. }
    pose proof (svd_gram _ _ _ _ _ Hs j ltac:(lia) k Hk) as Hg.
    transitivity (inv (nthF S j * nthF S j) * (nthF S j * nthF S j * rsv Vh j k)); [field; apply Hne; exact Hj|].
    rewrite <- Hg. unfold g.
    transitivity (inv (nthF S j * nthF S j) * sumf K (fun i => conj (B i k) * sumf rows (fun r => conj (Lf r i) * mv FB P (rsv Vh j) r))).
    + f_equal.
      transitivity (sumf rows (fun r => sumf K (fun i => conj (B i k) * (conj (Lf r i) * mv FB P (rsv Vh j) r)))).
      * apply sumf_ext; intros r Hr. rewrite Hfac by assumption. rewrite sumf_conj, <- sumf_scale_r.
        apply sumf_ext; intros i _. rewrite conj_mul. ring.
      * rewrite sumf_exch. apply sumf_ext; intros i _. rewrite sumf_scale. reflexivity.
    + rewrite <- sumf_scale. apply sumf_ext; intros i _. ring.
  - apply Haj. apply (orthonormal_independent (Datatypes.S K) P (fun j k => rsv Vh j k) a); [|exact Hdep|lia].
    intros I J HI HJ. apply (svd_unitary _ _ _ _ _ Hs); lia.
Qed.
End Rank.

Section NoiselessRank.
Context {F : Type} {OF : Ops F} {L : Laws OF} {OL : OrdLaws OF}.
Local Open Scope F_scope.
(* noiseless unit-modulus exponentials: at most K singular values are non-zero *)
Theorem noiseless_rank_thm (x : list F) (P K : nat) (A z : nat -> F) (S : list F) (Vh : list (list F)) :
  (forall n, (n < length x)%nat -> nthF x n = expsig K A z n) ->
  (forall i, (i < K)%nat -> z i * conj (z i) = 1) ->
  svd_spec (fb_matrix x P) (2 * np_of (length x) P) P S Vh ->
  forall I, (K <= I)%nat -> (I < P)%nat -> nthF S I = 0.
Proof.
  intros Hx Hu Hs I HKI HI.
  apply (zero_tail _ _ _ _ _ K Hs); [|exact HKI|exact HI].
  apply (factor_singular_value_zero (fb_matrix x P) (2 * np_of (length x) P) P K S Vh (lfac x P A z) (fun i k => pow (inv (z i)) k) Hs ltac:(lia)).
  intros r k Hr Hk. apply (fb_rank_factor x P K A z Hx r k Hu Hr Hk).
Qed.

End NoiselessRank.

(* ---------------- on eigen(): no hypothesis on the singular values is needed ---------------- *)
Section ResolveRank.
Context {F : Type} {OF : Ops F} {L : Laws OF} {OL : OrdLaws OF}.
Local Open Scope F_scope.
Variables (tw : Z -> F) (NFFT : nat).
Context {T : Twiddle NFFT tw}.
Hypothesis Hpos : (0 < NFFT)%nat.

Theorem eigen_resolves_rank_thm meth eps crit amin (x : list F) (P K : nat) (A z : nat -> F) (bin : nat -> Z)
        (S : list F) (Vh : list (list F)) psd ev :
  (forall n, (n < length x)%nat -> nthF x n = expsig K A z n) ->
  (forall i, (i < K)%nat -> z i = tw (- bin i)%Z) ->
  (K <= np_of (length x) P)%nat -> distinct K z -> (forall i, (i < K)%nat -> A i <> 0) ->
  svd_spec (fb_matrix x P) (2 * np_of (length x) P) P S Vh ->
  eigen meth eps (Some (NInt (Z.of_nat K))) None crit amin tw NFFT x P S Vh = inr (psd, ev) ->
  ev = S /\ length psd = NFFT /\ (K < P)%nat /\ (forall I, (K <= I)%nat -> (I < P)%nat -> nthF S I = 0) /\
  forall i j (c : Z), (i < K)%nat -> (j < NFFT)%nat -> centerdc_bin NFFT j = (bin i + c * Z.of_nat NFFT)%Z ->
    nthF psd j = 1 / dform meth eps tw P S Vh K (centerdc_bin NFFT j) /\ dform meth eps tw P S Vh K (centerdc_bin NFFT j) = 0.
Proof.
  intros Hx Hgrid HK Hd HA Hs He.
  assert (Hu : forall i, (i < K)%nat -> z i * conj (z i) = 1).
  { intros i Hi. rewrite (Hgrid i Hi). exact (tw_nrm2 NFFT tw Hpos (- bin i)%Z). }
  assert (HKP : (K < P)%nat).
  { unfold eigen in He. destruct (eigen_nsig meth (Some (NInt (Z.of_nat K))) None crit amin (length x) P NFFT S) as [e|ns] eqn:E; [discriminate|].
    destruct (signal_space_choice_thm _ _ _ _ _ _ _ _ _ _ E) as (_ & _ & _ & Hc). cbn [choice_spec] in Hc.
    destruct Hc as (z0 & Hz0 & Hr & _). injection Hz0 as <-. lia. }
  pose proof (noiseless_rank_thm x P K A z S Vh Hx Hu Hs) as Hzero.
  destruct (eigen_resolves_thm tw NFFT Hpos meth eps crit amin x P K A z bin S Vh psd ev Hx Hgrid HK Hd HA Hs (Hzero K ltac:(lia) HKP) He)
    as (H1 & H2 & H3 & H4).
  split; [exact H1|]. split; [exact H2|]. split; [exact H3|]. split; [exact Hzero|exact H4].
Qed.
End ResolveRank.
