(* The psi loop of minvar: the IR program generated from the region of minvar.py computes the hand-written model.

   [prog_minvar_psi_ref] is the loop-IR program that tools/props/_loopir.py generates from the psi region of
   spectrum.minvar.minvar at the commit this file was written for (kept verbatim below, between the BEGIN/END markers,
   as [prog_minvar_psi_gen0]; the two are equal by reflexivity).  The check regenerates the program on every run and
   instantiates the theorems below only when the text is identical.

   PROVED (abstract field with conjugation [Laws]; any order, NFFT (natural numbers), any array a (the AR parameters
   without the leading 1, any dtype tag) with order <= len(a) + 1, any P):
     minvar_psi_ir_run   run prog_minvar_psi_ref [order; NFFT; a; P] =
                            NFFT < order -> IndexError                       (psi[K] at K = NFFT)
                            otherwise    -> ORet [complex array psi_loop order NFFT (1 :: a) P]
                         (the aliased grids NFFT < 2*order-1 included: the two stores are sequential in both)
     minvar_psi_ir_tie   for a reflexive [feq]: tie_minvar_psi = true whenever order <= len(a) + 1
   NOT PROVED: an array a shorter than order-1 (A[I+K] raises IndexError in the code; the model reads 0): outside the
   domain (minvar passes the arburg result of order-1), exact evaluation only. *)
From Coq Require Import String ZArith List Lia Bool.
Require Import Spectrum.Theory.Ops Spectrum.Theory.Sum Spectrum.Theory.Vec Spectrum.Model.LoopIR Spectrum.Model.Minvar
               Spectrum.Model.LoopIRTie Spectrum.Proofs.LoopIRLevinson.
Import ListNotations.

(* slots 0=order 1=NFFT 2=A 3=P 4=psi 5=K 6=SUM 7=MK 8=I *)
Definition mv_inner : stmt :=
  SFor 8 (EInt 0) (EBin BSub (EVar 0) (EVar 5)) (EInt 1)
    (SAssign 6 (EBin BAdd (EVar 6) (EBin BMul (EBin BMul (EFloat (EBin BSub (EVar 7) (EBin BMul (EInt 2) (EVar 8)))) (EConj (EIndex (EVar 2) (EVar 8))))
                                              (EIndex (EVar 2) (EBin BAdd (EVar 8) (EVar 5)))))).
Definition mv_stores : stmt :=
  SSeq (SIf (ECmp CNe (EVar 5) (EInt 0)) (SStore 4 (EBin BSub (EVar 1) (EVar 5)) (EConj (EVar 6))) SSkip)
       (SStore 4 (EVar 5) (EVar 6)).
Definition mv_body : stmt :=
  SSeq (SAssign 6 (ELit 0 0))
  (SSeq (SAssign 7 (EBin BSub (EVar 0) (EVar 5)))
  (SSeq mv_inner
  (SSeq (SAssign 6 (EBin BDiv (EVar 6) (EVar 3)))
        mv_stores))).
Definition mv_region : stmt :=
  SSeq (SAssign 4 (EZeros (EVar 1) false))
  (SSeq (SAssign 2 (EInsert (EVar 2) (EInt 0) (EBin BAdd (ELit 1 0) (ELit 0 0))))
        (SFor 5 (EInt 0) (EVar 0) (EInt 1) mv_body)).
Definition mv_main : stmt := SSeq mv_region (SReturn [EVar 4]).
Local Open Scope string_scope.
Definition prog_minvar_psi_ref : program := mkProgram "minvar" 4 [None; None; None; None] 9 mv_main.

Section Mv.
Context {F : Type} {OF : Ops F} {L : Laws OF}.
Variable feq : F -> F -> bool.
Variable stop : Z -> F -> F -> bool.
Local Open Scope F_scope.
Local Open Scope list_scope.
Add Field FFirmv : (fth (O:=OF)).
Notation value := (@value F).
Notation store := (@store F).
Notation exec := (@exec F OF feq stop).

Definition mst (order nfft A P psi K sm mk' i : value) : store := [order; nfft; A; P; psi; K; sm; mk'; i].
Ltac ev := cbn [LoopIR.exec LoopIR.eval get set nth mst bind try asZ asArr asF ok err fst snd arith arithZ fop compare cmpF cmpZ eqne truthy eval_list].

Lemma ofZ_nat n : @ofZ F OF (Z.of_nat n) = ofnat n.
Proof. destruct n; [reflexivity|]. cbn [Z.of_nat ofZ]. rewrite SuccNat2Pos.id_succ. reflexivity. Qed.
Lemma ofZ_opp_nat n : @ofZ F OF (- Z.of_nat n) = - ofnat n.
Proof.
  destruct n; [cbn [Z.of_nat Z.opp ofZ ofnat]; ring|]. cbn [Z.of_nat Z.opp ofZ]. rewrite SuccNat2Pos.id_succ. try reflexivity.
Qed.
Lemma ofZ_diff (a b : nat) : @ofZ F OF (Z.of_nat a - Z.of_nat b) = ofdiff a b.
Proof.
  unfold ofdiff. destruct (Nat.leb_spec b a) as [H|H].
  - replace (Z.of_nat a - Z.of_nat b)%Z with (Z.of_nat (a - b)) by lia. apply ofZ_nat.
  - replace (Z.of_nat a - Z.of_nat b)%Z with (- Z.of_nat (b - a))%Z by lia. apply ofZ_opp_nat.
Qed.

Lemma updF_upd (l : list F) i v : updF l i v = upd l i v.
Proof. reflexivity. Qed.
Lemma upd_length (l : list F) i v : length (upd l i v) = length l.
Proof. rewrite <- updF_upd. apply updF_length. Qed.

Lemma mv_inner_ok m vnfft tA A vP vpsi K s0 vi :
  (K < m)%nat -> (m <= length A)%nat ->
  exists vi',
    exec mv_inner (mst (VI (Z.of_nat m)) vnfft (VArr tA A) vP vpsi (VI (Z.of_nat K)) (VF s0) (VI (Z.of_nat m - Z.of_nat K)) vi)
    = (mst (VI (Z.of_nat m)) vnfft (VArr tA A) vP vpsi (VI (Z.of_nat K))
           (VF (lsum (m - K) (fun I => ofdiff (m - K) (2 * I) * conj (nthF A I) * nthF A (I + K)) s0)) (VI (Z.of_nat m - Z.of_nat K)) vi', CNormal).
Proof.
  intros HK HA. unfold mv_inner.
  cbn [LoopIR.exec LoopIR.eval get nth mst bind try asZ ok arith arithZ].
  replace (Z.of_nat m - Z.of_nat K)%Z with (Z.of_nat (m - K)) by lia. rewrite range_vals_nat. cbn [try].
  match goal with |- exists vi', (let (st', c) := for_loop ?f ?x _ ?st in _) = _ =>
    destruct (for_loop_inv f x
      (fun i s => exists vi', s = mst (VI (Z.of_nat m)) vnfft (VArr tA A) vP vpsi (VI (Z.of_nat K))
                                  (VF (lsum i (fun I => ofdiff (m - K) (2 * I) * conj (nthF A I) * nthF A (I + K)) s0))
                                  (VI (Z.of_nat (m - K))) vi') (m - K)%nat st)
      as [s' [E [vi' I']]]
  end.
  - exists vi. reflexivity.
  - intros i s Hi [vi' ->].
    cbn [mst set]. cbn [LoopIR.exec LoopIR.eval get nth bind try asZ asArr asF ok arith arithZ fop fst snd].
    rewrite norm_index_nat by lia. cbn [bind ok arith arithZ asF fop].
    rewrite <- Nat2Z.inj_add, norm_index_nat by lia. cbn [bind ok arith asF fop try set].
    eexists. split; [reflexivity|]. exists (VI (Z.of_nat i)). cbn [lsum].
    replace (2 * Z.of_nat i)%Z with (Z.of_nat (2 * i)) by lia. rewrite ofZ_diff. reflexivity.
  - exists vi'. rewrite E, I'. reflexivity.
Qed.

Lemma mv_sum_eq m (A : list F) K :
  lsum (m - K) (fun I => ofdiff (m - K) (2 * I) * conj (nthF A I) * nthF A (I + K)) (lit 0 0) = mv_sum m A K.
Proof. rewrite lsum_sumf. unfold mv_sum. rewrite sumL_mk. change (@lit F OF 0 0) with (@zero F OF). ring. Qed.

(* one pass of the K loop: the model's [psi_step] while K < NFFT, IndexError at K = NFFT *)
Lemma mv_body_ok m nfft tA A P tP psi K vK vsm vmk vi :
  (K < m)%nat -> (m <= length A)%nat -> length psi = nfft -> (K <= nfft)%nat ->
  exists s' ,
    exec mv_body (set (mst (VI (Z.of_nat m)) (VI (Z.of_nat nfft)) (VArr tA A) (VF P) (VArr tP psi) vK vsm vmk vi) 5 (VI (Z.of_nat K)))
    = (s', if (K <? nfft)%nat then CNormal else CErr IndexError)
    /\ ((K < nfft)%nat -> exists vsm' vmk' vi',
          s' = mst (VI (Z.of_nat m)) (VI (Z.of_nat nfft)) (VArr tA A) (VF P) (VArr tP (psi_step m nfft A P psi K)) (VI (Z.of_nat K)) vsm' vmk' vi').
Proof.
  intros HK HA Hpsi HKn. unfold mv_body. cbn [mst set].
  erewrite exec_seq; [|ev; reflexivity].
  erewrite exec_seq; [|ev; reflexivity].
  destruct (mv_inner_ok m (VI (Z.of_nat nfft)) tA A (VF P) (VArr tP psi) K (lit 0 0) vi HK HA) as [vi' E].
  unfold mst in E. erewrite exec_seq by exact E. clear E. rewrite mv_sum_eq.
  erewrite exec_seq; [|ev; reflexivity].
  set (s := mv_sum m A K / P).
  unfold mv_stores, psi_step. fold s.
  destruct (Nat.eq_dec K 0) as [E0|N0].
  - (* K = 0: only psi[0] = SUM *)
    subst K. cbn [Nat.eqb].
    erewrite exec_seq; [|ev; reflexivity].
    destruct (Nat.ltb_spec 0 nfft) as [Hn|Hn].
    + eexists. split.
      * ev. rewrite norm_index_nat by lia. ev. rewrite updF_upd. reflexivity.
      * intros _. do 3 eexists. reflexivity.
    + eexists. split; [|lia].
      ev. unfold norm_index. cbn [Z.of_nat Z.ltb Z.compare].
      replace ((0 <=? 0)%Z && (0 <? Z.of_nat (length psi))%Z) with false
        by (symmetry; apply andb_false_iff; right; apply Z.ltb_ge; lia). reflexivity.
  - replace (K =? 0)%nat with false by (symmetry; apply Nat.eqb_neq; exact N0).
    erewrite exec_seq.
    2:{ ev. replace (Z.of_nat K =? 0)%Z with false by (symmetry; apply Z.eqb_neq; lia). cbn [negb]. ev.
        rewrite norm_index_ok by lia. ev. rewrite updF_upd. replace (Z.to_nat (Z.of_nat nfft - Z.of_nat K)) with (nfft - K)%nat by lia.
        reflexivity. }
    destruct (Nat.ltb_spec K nfft) as [Hn|Hn].
    + eexists. split.
      * ev. rewrite norm_index_nat by (rewrite upd_length; lia). ev. rewrite updF_upd. reflexivity.
      * intros _. do 3 eexists. reflexivity.
    + eexists. split; [|lia].
      ev. unfold norm_index. replace (Z.of_nat K <? 0)%Z with false by (symmetry; apply Z.ltb_ge; lia).
      replace ((0 <=? Z.of_nat K)%Z && (Z.of_nat K <? Z.of_nat (length (upd psi (nfft - K) (conj s))))%Z) with false
        by (symmetry; apply andb_false_iff; right; apply Z.ltb_ge; rewrite upd_length; lia). reflexivity.
Qed.

Definition psi_upto (m nfft : nat) (A : list F) (P : F) (i : nat) : list F :=
  fold_left (psi_step m nfft A P) (seq 0 i) (mk nfft (fun _ => 0)).
Lemma psi_upto_S m nfft A P i : psi_upto m nfft A P (S i) = psi_step m nfft A P (psi_upto m nfft A P i) i.
Proof. unfold psi_upto. rewrite seq_S, fold_left_app. reflexivity. Qed.
Lemma psi_upto_length m nfft A P i : length (psi_upto m nfft A P i) = nfft.
Proof.
  induction i; [apply mk_length|]. rewrite psi_upto_S. unfold psi_step.
  destruct (i =? 0)%nat; rewrite ?upd_length; exact IHi.
Qed.

Lemma mv_loop_ok m nfft tA A P tP vK vsm vmk vi n :
  (m <= length A)%nat -> (n <= m)%nat -> (n <= nfft)%nat ->
  exists vK' vsm' vmk' vi',
    for_loop (exec mv_body) 5 (range_from 0 1 n)
      (mst (VI (Z.of_nat m)) (VI (Z.of_nat nfft)) (VArr tA A) (VF P) (VArr tP (zeros nfft)) vK vsm vmk vi)
    = (mst (VI (Z.of_nat m)) (VI (Z.of_nat nfft)) (VArr tA A) (VF P) (VArr tP (psi_upto m nfft A P n)) vK' vsm' vmk' vi', CNormal).
Proof.
  intros HA Hn Hnf.
  destruct (for_loop_inv (exec mv_body) 5
    (fun i s => exists vK' vsm' vmk' vi',
       s = mst (VI (Z.of_nat m)) (VI (Z.of_nat nfft)) (VArr tA A) (VF P) (VArr tP (psi_upto m nfft A P i)) vK' vsm' vmk' vi') n
    (mst (VI (Z.of_nat m)) (VI (Z.of_nat nfft)) (VArr tA A) (VF P) (VArr tP (zeros nfft)) vK vsm vmk vi))
    as [s' [E [vK' [vsm' [vmk' [vi' I']]]]]].
  - exists vK, vsm, vmk, vi. reflexivity.
  - intros i s Hi [vK' [vsm' [vmk' [vi' ->]]]].
    destruct (mv_body_ok m nfft tA A P tP (psi_upto m nfft A P i) i vK' vsm' vmk' vi' ltac:(lia) HA (psi_upto_length _ _ _ _ _) ltac:(lia))
      as [s2 [E2 H2]].
    replace (i <? nfft)%nat with true in E2 by (symmetry; apply Nat.ltb_lt; lia).
    exists s2. split; [exact E2|]. destruct (H2 ltac:(lia)) as [a [b [c ->]]].
    exists (VI (Z.of_nat i)), a, b, c. rewrite psi_upto_S. reflexivity.
  - exists vK', vsm', vmk', vi'. rewrite E, I'. reflexivity.
Qed.

Lemma lit_one_zero : @lit F OF 1 0 + @lit F OF 0 0 = 1.
Proof. rewrite lit_1. change (@lit F OF 0 0) with (@zero F OF). ring. Qed.

Lemma mv_main_ok (m nfft : nat) ta (a : list F) (P : F) :
  (m <= length a + 1)%nat ->
  exists s',
    exec mv_main [VI (Z.of_nat m); VI (Z.of_nat nfft); VArr ta a; VF P; VUnbound; VUnbound; VUnbound; VUnbound; VUnbound]
    = (s', if (nfft <? m)%nat then CErr IndexError else CRet [VArr false (psi_loop m nfft (1 :: a) P)]).
Proof.
  intros Ha. unfold mv_main, mv_region.
  assert (Epre : forall rest, exec (SSeq (SAssign 4 (EZeros (EVar 1) false)) (SSeq (SAssign 2 (EInsert (EVar 2) (EInt 0) (EBin BAdd (ELit 1 0) (ELit 0 0)))) rest))
                   [VI (Z.of_nat m); VI (Z.of_nat nfft); VArr ta a; VF P; VUnbound; VUnbound; VUnbound; VUnbound; VUnbound]
                 = exec rest (mst (VI (Z.of_nat m)) (VI (Z.of_nat nfft)) (VArr ta (1 :: a)) (VF P) (VArr false (zeros nfft)) VUnbound VUnbound VUnbound VUnbound)).
  { intros rest.
    erewrite exec_seq.
    2:{ ev. replace (Z.of_nat nfft <? 0)%Z with false by (symmetry; apply Z.ltb_ge; lia). rewrite Nat2Z.id. reflexivity. }
    erewrite exec_seq; [reflexivity|].
    ev. change (0 <? 0)%Z with false. cbv iota. change (0 <=? 0)%Z with true. cbn [andb].
    replace (0 <=? Z.of_nat (length a))%Z with true by (symmetry; apply Z.leb_le; lia).
    change (Z.to_nat 0) with 0%nat. cbn [firstn skipn app]. rewrite lit_one_zero. reflexivity. }
  assert (HA : (m <= length (1%F :: a))%nat) by (cbn [length]; lia).
  destruct (Nat.ltb_spec nfft m) as [Hlt|Hge].
  - (* the loop reaches K = NFFT: IndexError *)
    destruct (mv_loop_ok m nfft ta (1 :: a) P false VUnbound VUnbound VUnbound VUnbound nfft HA ltac:(lia) (le_n _))
      as [vK' [vsm' [vmk' [vi' E]]]].
    destruct (mv_body_ok m nfft ta (1 :: a) P false (psi_upto m nfft (1 :: a) P nfft) nfft vK' vsm' vmk' vi' Hlt HA (psi_upto_length _ _ _ _ _) (le_n _))
      as [s2 [E2 _]].
    replace (nfft <? nfft)%nat with false in E2 by (symmetry; apply Nat.ltb_irrefl).
    exists s2. apply exec_seq_stop; [|discriminate]. rewrite Epre.
    ev. rewrite range_vals_nat. cbn [try].
    assert (Er : range_from 0 1 m = range_from 0 1 nfft ++ range_from (0 + Z.of_nat nfft) 1 (m - nfft)).
    { rewrite <- range_from_app. f_equal. lia. }
    rewrite Er, for_loop_app. rewrite E.
    destruct (m - nfft)%nat as [|d] eqn:Ed; [lia|]. cbn [range_from for_loop]. rewrite Z.add_0_l. rewrite E2. reflexivity.
  - destruct (mv_loop_ok m nfft ta (1 :: a) P false VUnbound VUnbound VUnbound VUnbound m HA (le_n _) Hge)
      as [vK' [vsm' [vmk' [vi' E]]]].
    eexists. erewrite exec_seq.
    2:{ rewrite Epre. ev. rewrite range_vals_nat. cbn [try]. rewrite E. reflexivity. }
    ev. reflexivity.
Qed.

Theorem minvar_psi_ir_run (m nfft : nat) ta (a : list F) (P : F) :
  (m <= length a + 1)%nat ->
  run feq stop prog_minvar_psi_ref [Some (VI (Z.of_nat m)); Some (VI (Z.of_nat nfft)); Some (VArr ta a); Some (VF P)] =
  if (nfft <? m)%nat then OErr IndexError else ORet [VArr false (psi_loop m nfft (1 :: a) P)].
Proof.
  intros Ha. destruct (mv_main_ok m nfft ta a P Ha) as [s' E].
  unfold run, prog_minvar_psi_ref. cbn [p_defaults p_body p_nslots p_nparams Nat.sub bind_args bind ok app repeat].
  rewrite E. destruct (nfft <? m)%nat; reflexivity.
Qed.
End Mv.

Section MvTie.
Context {F : Type} {OF : Ops F} {L : Laws OF}.
Variable feq : F -> F -> bool.
Hypothesis feq_refl : forall a, feq a a = true.
Local Open Scope F_scope.
Local Open Scope list_scope.

Lemma leq_refl_mv (l : list F) : leq feq l l = true.
Proof.
  unfold leq. rewrite Nat.eqb_refl. cbn [andb]. induction l as [|a l IH]; [reflexivity|].
  cbn [combine forallb fst snd]. rewrite feq_refl, IH. reflexivity.
Qed.

Theorem minvar_psi_ir_tie (m nfft : nat) (a : list F) (P : F) :
  (m <= length a + 1)%nat -> tie_minvar_psi feq prog_minvar_psi_ref m nfft a P = true.
Proof.
  intros Ha. unfold tie_minvar_psi, vint. rewrite (minvar_psi_ir_run feq (@nostop F) m nfft false a P Ha).
  destruct (nfft <? m)%nat; [reflexivity|apply leq_refl_mv].
Qed.
End MvTie.

(* BEGIN GENERATED minvar_psi (verbatim output of tools/props/_loopir.py for the psi region of spectrum.minvar.minvar) *)
(* minvar: slots 0=order 1=NFFT 2=A 3=P 4=psi 5=K 6=SUM 7=MK 8=I *)
Definition prog_minvar_psi_gen0 : program := mkProgram "minvar" 4 [None; None; None; None] 9
(SSeq (SSeq (SAssign 4 (EZeros (EVar 1) false))
(SSeq (SAssign 2 (EInsert (EVar 2) (EInt 0) (EBin BAdd (ELit 1 0) (ELit 0 0))))
(SFor 5 (EInt 0) (EVar 0) (EInt 1)
(SSeq (SAssign 6 (ELit 0 0))
(SSeq (SAssign 7 (EBin BSub (EVar 0) (EVar 5)))
(SSeq (SFor 8 (EInt 0) (EBin BSub (EVar 0) (EVar 5)) (EInt 1)
(SAssign 6 (EBin BAdd (EVar 6) (EBin BMul (EBin BMul (EFloat (EBin BSub (EVar 7) (EBin BMul (EInt 2) (EVar 8)))) (EConj (EIndex (EVar 2) (EVar 8)))) (EIndex (EVar 2) (EBin BAdd (EVar 8) (EVar 5)))))))
(SSeq (SAssign 6 (EBin BDiv (EVar 6) (EVar 3)))
(SSeq (SIf (ECmp CNe (EVar 5) (EInt 0))
(SStore 4 (EBin BSub (EVar 1) (EVar 5)) (EConj (EVar 6)))
(SSkip))
(SStore 4 (EVar 5) (EVar 6))))))))))
(SReturn [EVar 4])).

(* END GENERATED minvar_psi *)
Example prog_minvar_psi_ref_is_generated : prog_minvar_psi_ref = prog_minvar_psi_gen0.
Proof. reflexivity. Qed.
