(* C17, part 1: the forward-backward data matrix of eigen() — shape, entries, and what its null space is on a
   noiseless sum of K exponentials (Vandermonde elimination).  Abstract *-field, every P, N, K. *)
Require Import Spectrum.Theory.Ops Spectrum.Theory.Sum Spectrum.Theory.Vec Spectrum.Model.Eigen.

Section Pow.
Context {F : Type} {OF : Ops F}.
Local Open Scope F_scope.
Fixpoint pow (z : F) (n : nat) : F := match n with O => 1 | S k => z * pow z k end.
(* x_n = sum_{i<K} A_i z_i^n *)
Definition expsig (K : nat) (A z : nat -> F) (n : nat) : F := sumf K (fun i => A i * pow (z i) n).
(* (M v)_r for the first P columns *)
Definition mv (M : list (list F)) (P : nat) (v : nat -> F) (r : nat) : F := sumf P (fun k => mat M r k * v k).
Definition distinct (K : nat) (z : nat -> F) : Prop := forall i j, (i < K)%nat -> (j < K)%nat -> i <> j -> z i <> z j.
End Pow.

Section FB.
Context {F : Type} {OF : Ops F} {L : Laws OF}.
Local Open Scope F_scope.
Add Field FFfb : (fth (O:=OF)).

(* ---------------- powers ---------------- *)
Lemma pow_add z a b : pow z (a + b) = pow z a * pow z b.
Proof. induction a; cbn [pow Nat.add]; [ring|]. rewrite IHa. ring. Qed.
Lemma pow_S_r z a : pow z (S a) = pow z a * z.
Proof. cbn [pow]. ring. Qed.
Lemma conj_pow z a : conj (pow z a) = pow (conj z) a.
Proof. induction a; cbn [pow]; [apply conj_1|]. rewrite conj_mul, IHa. reflexivity. Qed.
Lemma pow_inv_cancel z a b : z <> 0 -> pow (inv z) (a + b) * pow z a = pow (inv z) b.
Proof.
  intros Hz. induction a; cbn [pow Nat.add]; [ring|].
  transitivity (inv z * z * (pow (inv z) (a + b) * pow z a)); [ring|]. rewrite IHa. field. exact Hz.
Qed.
Lemma pow_neq_0 z a : z <> 0 -> pow z a <> 0.
Proof.
  intros Hz. induction a; cbn [pow]; [exact (F_1_neq_0 (fth (O:=OF)))|].
  intros E. apply IHa. apply (mul_cancel_l z); assumption.
Qed.
Lemma unit_inv z : z * conj z = 1 -> conj z = inv z /\ z <> 0.
Proof.
  intros H. assert (Hz : z <> 0).
  { intros E. apply (F_1_neq_0 (fth (O:=OF))). rewrite <- H, E. ring. }
  split; [|exact Hz]. transitivity (inv z * (z * conj z)); [field; exact Hz|rewrite H; ring].
Qed.

(* ---------------- Vandermonde elimination ---------------- *)
Theorem vandermonde K : forall (z c : nat -> F), distinct K z ->
  (forall r, (r < K)%nat -> sumf K (fun i => c i * pow (z i) r) = 0) ->
  forall i, (i < K)%nat -> c i = 0.
Proof.
  induction K as [|K IH]; intros z c Hd Hs i Hi; [lia|].
  assert (Hlow : forall j, (j < K)%nat -> c j = 0).
  { intros j Hj.
    assert (E : c j * (z j - z K) = 0).
    { apply (IH z (fun i => c i * (z i - z K))).
      - intros a b Ha Hb Hab. apply Hd; lia.
      - intros r Hr.
        pose proof (Hs (S r) ltac:(lia)) as H1. pose proof (Hs r ltac:(lia)) as H0.
        rewrite sumf_S in H1, H0.
        transitivity (sumf K (fun i => c i * pow (z i) (S r)) - z K * sumf K (fun i => c i * pow (z i) r)).
        + rewrite <- sumf_scale, <- sumf_sub. apply sumf_ext; intros; cbn [pow]; ring.
        + assert (E1 : sumf K (fun i => c i * pow (z i) (S r)) = 0 - c K * pow (z K) (S r)) by (rewrite <- H1; ring).
          assert (E0 : sumf K (fun i => c i * pow (z i) r) = 0 - c K * pow (z K) r) by (rewrite <- H0; ring).
          rewrite E1, E0. cbn [pow]. ring.
      - exact Hj. }
    assert (Hne : z j - z K <> 0).
    { intros E0. apply (Hd j K); [lia|lia|lia|]. transitivity (z j - z K + z K); [ring|rewrite E0; ring]. }
    apply (mul_cancel_l (z j - z K)); [rewrite <- E; ring|exact Hne]. }
  destruct (Nat.eq_dec i K) as [->|Hne]; [|apply Hlow; lia].
  pose proof (Hs O ltac:(lia)) as H0. rewrite sumf_S in H0. cbn [pow] in H0.
  rewrite (sumf_zero_ext K) in H0. { rewrite <- H0. ring. }
  intros j Hj. rewrite (Hlow j Hj). ring.
Qed.

(* ---------------- shape and entries of FB ---------------- *)
Lemma np_of_spec N P :
  (np_of N P <= 100 /\ np_of N P <= N - P
   /\ (N - P <= 100 -> np_of N P = N - P) /\ (100 < N - P -> np_of N P = 100))%nat.
Proof. unfold np_of. destruct (Nat.ltb_spec 100 (N - P)); lia. Qed.
Lemma assert_ok_spec N P : assert_ok N P = true <-> (P <= N /\ P - 1 < 2 * (N - P) \/ P = 0 /\ 0 <= N)%nat.
Proof.
  unfold assert_ok. rewrite andb_true_iff, Nat.leb_le, Nat.ltb_lt. lia.
Qed.
Lemma nth_map_seq {A} (f : nat -> A) n r d : (r < n)%nat -> nth r (map f (seq 0 n)) d = f r.
Proof.
  intros H. rewrite (nth_indep _ d (f O)) by (rewrite map_length, seq_length; exact H).
  rewrite map_nth, seq_nth by exact H. reflexivity.
Qed.
Theorem fb_rows (x : list F) P : length (fb_matrix x P) = (2 * np_of (length x) P)%nat.
Proof. unfold fb_matrix. rewrite app_length, !map_length, !seq_length. lia. Qed.
Lemma fb_row_fwd (x : list F) P r : (r < np_of (length x) P)%nat -> mrow (fb_matrix x P) r = fb_fwd x P r.
Proof.
  intros H. unfold mrow, fb_matrix. rewrite app_nth1 by (rewrite map_length, seq_length; exact H).
  apply nth_map_seq. exact H.
Qed.
Lemma fb_row_bwd (x : list F) P r : (r < np_of (length x) P)%nat ->
  mrow (fb_matrix x P) (np_of (length x) P + r) = fb_bwd x P r.
Proof.
  intros H. unfold mrow, fb_matrix. rewrite app_nth2 by (rewrite map_length, seq_length; lia).
  rewrite map_length, seq_length. replace (np_of (length x) P + r - np_of (length x) P)%nat with r by lia.
  apply nth_map_seq. exact H.
Qed.
Theorem fb_cols (x : list F) P r : (r < 2 * np_of (length x) P)%nat -> length (mrow (fb_matrix x P) r) = P.
Proof.
  intros H. destruct (Nat.lt_ge_cases r (np_of (length x) P)) as [Hr|Hr].
  - rewrite fb_row_fwd by exact Hr. apply mk_length.
  - replace r with (np_of (length x) P + (r - np_of (length x) P))%nat by lia.
    rewrite fb_row_bwd by lia. apply mk_length.
Qed.
(* FB[I, K] = X[I-K+P-1], an index inside the data *)
Theorem fb_entry_fwd (x : list F) P r k : (r < np_of (length x) P)%nat -> (k < P)%nat ->
  mat (fb_matrix x P) r k = nthF x (r + P - 1 - k) /\ (r + P - 1 - k < length x)%nat.
Proof.
  intros Hr Hk. unfold mat. rewrite fb_row_fwd by exact Hr. unfold fb_fwd. rewrite nth_mk by exact Hk.
  split; [reflexivity|]. pose proof (np_of_spec (length x) P). lia.
Qed.
(* FB[I+NP, K] = conj X[I+K+1], an index inside the data *)
Theorem fb_entry_bwd (x : list F) P r k : (r < np_of (length x) P)%nat -> (k < P)%nat ->
  mat (fb_matrix x P) (np_of (length x) P + r) k = conj (nthF x (r + k + 1)) /\ (r + k + 1 < length x)%nat.
Proof.
  intros Hr Hk. unfold mat. rewrite fb_row_bwd by exact Hr. unfold fb_bwd. rewrite nth_mk by exact Hk.
  split; [reflexivity|]. pose proof (np_of_spec (length x) P). lia.
Qed.

(* ---------------- noiseless data: the two blocks applied to a vector ---------------- *)
Section Noiseless.
Variables (x : list F) (P K : nat) (A z : nat -> F).
Hypothesis Hx : forall n, (n < length x)%nat -> nthF x n = expsig K A z n.
Let NP := np_of (length x) P.

(* the "reversed" noise polynomial  q_i(v) = sum_k v_k z_i^(P-1-k)  and the conjugate-node polynomial  sum_k v_k conj(z_i)^k *)
Definition qpoly (v : nat -> F) (i : nat) : F := sumf P (fun k => v k * pow (z i) (P - 1 - k)).
Definition bpoly (v : nat -> F) (i : nat) : F := sumf P (fun k => v k * pow (conj (z i)) k).
(* the noise polynomial in z^-1 *)
Definition npoly (v : nat -> F) (i : nat) : F := sumf P (fun k => v k * pow (inv (z i)) k).

Lemma fwd_row_apply v r : (r < NP)%nat ->
  mv (fb_matrix x P) P v r = sumf K (fun i => (A i * qpoly v i) * pow (z i) r).
Proof.
  intros Hr. unfold mv.
  transitivity (sumf P (fun k => sumf K (fun i => A i * pow (z i) r * (v k * pow (z i) (P - 1 - k))))).
  - apply sumf_ext; intros k Hk. destruct (fb_entry_fwd x P r k Hr Hk) as [-> Hin].
    rewrite Hx by exact Hin. unfold expsig. rewrite <- sumf_scale_r. apply sumf_ext; intros i _.
    replace (r + P - 1 - k)%nat with (r + (P - 1 - k))%nat by lia. rewrite pow_add. ring.
  - rewrite sumf_exch. apply sumf_ext; intros i _. unfold qpoly. rewrite sumf_scale. ring.
Qed.
Lemma bwd_row_apply v r : (r < NP)%nat ->
  mv (fb_matrix x P) P v (NP + r) = sumf K (fun i => (conj (A i) * conj (z i) * bpoly v i) * pow (conj (z i)) r).
Proof.
  intros Hr. unfold mv, NP in *.
  transitivity (sumf P (fun k => sumf K (fun i => conj (A i) * conj (z i) * pow (conj (z i)) r * (v k * pow (conj (z i)) k)))).
  - apply sumf_ext; intros k Hk. destruct (fb_entry_bwd x P r k Hr Hk) as [-> Hin].
    rewrite Hx by exact Hin. unfold expsig. rewrite sumf_conj, <- sumf_scale_r. apply sumf_ext; intros i _.
    rewrite conj_mul, conj_pow. replace (r + k + 1)%nat with (S (r + k)) by lia. cbn [pow]. rewrite pow_add. ring.
  - rewrite sumf_exch. apply sumf_ext; intros i _. unfold bpoly. rewrite sumf_scale. ring.
Qed.

Lemma npoly_of_qpoly v i : z i <> 0 -> npoly v i = pow (inv (z i)) (P - 1) * qpoly v i.
Proof.
  intros Hz. unfold npoly, qpoly. rewrite <- sumf_scale. apply sumf_ext; intros k Hk.
  rewrite <- (pow_inv_cancel (z i) (P - 1 - k) k Hz). replace (P - 1 - k + k)%nat with (P - 1)%nat by lia. ring.
Qed.
Lemma qpoly_of_npoly v i : z i <> 0 -> qpoly v i = pow (z i) (P - 1) * npoly v i.
Proof.
  intros Hz. rewrite npoly_of_qpoly by exact Hz.
  assert (E : pow (inv (z i)) (P - 1 + 0) * pow (z i) (P - 1) = pow (inv (z i)) 0) by (apply pow_inv_cancel; exact Hz).
  rewrite Nat.add_0_r in E. cbn [pow] in E.
  transitivity (pow (inv (z i)) (P - 1) * pow (z i) (P - 1) * qpoly v i); [rewrite E; ring|ring].
Qed.
Lemma bpoly_unit v i : z i * conj (z i) = 1 -> bpoly v i = npoly v i.
Proof. intros H. unfold bpoly, npoly. destruct (unit_inv (z i) H) as [-> _]. reflexivity. Qed.

(* forward block alone: only the exponential structure is needed *)
Theorem fwd_null_roots v : (K <= NP)%nat -> distinct K z -> (forall i, (i < K)%nat -> A i <> 0) ->
  (forall r, (r < NP)%nat -> mv (fb_matrix x P) P v r = 0) ->
  forall i, (i < K)%nat -> qpoly v i = 0 /\ (z i <> 0 -> npoly v i = 0).
Proof.
  intros HK Hd HA H0 i Hi.
  assert (E : A i * qpoly v i = 0).
  { apply (vandermonde K z (fun i => A i * qpoly v i) Hd); [|exact Hi].
    intros r Hr. rewrite <- fwd_row_apply by lia. apply H0. lia. }
  assert (Q : qpoly v i = 0) by (apply (mul_cancel_l (A i)); [exact E|apply HA; exact Hi]).
  split; [exact Q|]. intros Hz. rewrite npoly_of_qpoly by exact Hz. rewrite Q. ring.
Qed.
(* backward block alone: the nodes are conj z_i; they coincide with 1/z_i exactly when |z_i| = 1 *)
Theorem bwd_null_roots v : (K <= NP)%nat -> distinct K z -> (forall i, (i < K)%nat -> A i <> 0) ->
  (forall i, (i < K)%nat -> z i <> 0) ->
  (forall r, (r < NP)%nat -> mv (fb_matrix x P) P v (NP + r) = 0) ->
  forall i, (i < K)%nat -> bpoly v i = 0 /\ (z i * conj (z i) = 1 -> npoly v i = 0).
Proof.
  intros HK Hd HA Hz H0 i Hi.
  assert (Hcz : forall a, a <> 0 -> conj a <> 0).
  { intros a Ha E. apply Ha. rewrite <- (conj_conj a), E. apply conj_0. }
  assert (Hdc : distinct K (fun i => conj (z i))).
  { intros a b Ha Hb Hab E. apply (Hd a b Ha Hb Hab). rewrite <- (conj_conj (z a)), E. apply conj_conj. }
  assert (E : conj (A i) * conj (z i) * bpoly v i = 0).
  { apply (vandermonde K (fun i => conj (z i)) (fun i => conj (A i) * conj (z i) * bpoly v i) Hdc); [|exact Hi].
    intros r Hr. rewrite <- bwd_row_apply by lia. apply H0. lia. }
  assert (Q : bpoly v i = 0).
  { apply (mul_cancel_l (conj (A i) * conj (z i))); [exact E|].
    intros E0. apply (Hcz (z i) (Hz i Hi)). apply (mul_cancel_l (conj (A i))); [exact E0|apply Hcz, HA; exact Hi]. }
  split; [exact Q|]. intros Hu. rewrite <- bpoly_unit by exact Hu. exact Q.
Qed.
(* converse: a vector whose noise polynomial vanishes at every pole is annihilated by both blocks (unit-modulus poles) *)
Theorem roots_null v : (forall i, (i < K)%nat -> z i * conj (z i) = 1) ->
  (forall i, (i < K)%nat -> npoly v i = 0) ->
  forall r, (r < 2 * NP)%nat -> mv (fb_matrix x P) P v r = 0.
Proof.
  intros Hu Hn r Hr. destruct (Nat.lt_ge_cases r NP) as [Hlt|Hge].
  - rewrite fwd_row_apply by exact Hlt. apply sumf_zero_ext; intros i Hi.
    destruct (unit_inv (z i) (Hu i Hi)) as [_ Hz]. rewrite qpoly_of_npoly by exact Hz. rewrite (Hn i Hi). ring.
  - replace r with (NP + (r - NP))%nat by lia. rewrite bwd_row_apply by lia. apply sumf_zero_ext; intros i Hi.
    rewrite bpoly_unit by (apply Hu; exact Hi). rewrite (Hn i Hi). ring.
Qed.
(* FB = L * B with B[i][k] = z_i^-k, a K-row matrix: rank FB <= K *)
Definition lfac (r i : nat) : F :=
  if (r <? NP)%nat then A i * pow (z i) (r + P - 1) else conj (A i) * pow (conj (z i)) (r - NP + 1).
Theorem fb_rank_factor r k : (forall i, (i < K)%nat -> z i * conj (z i) = 1) -> (r < 2 * NP)%nat -> (k < P)%nat ->
  mat (fb_matrix x P) r k = sumf K (fun i => lfac r i * pow (inv (z i)) k).
Proof.
  intros Hu Hr Hk. unfold lfac. unfold NP in *. destruct (Nat.ltb_spec r (np_of (length x) P)) as [Hlt|Hge].
  - destruct (fb_entry_fwd x P r k Hlt Hk) as [-> Hin]. rewrite Hx by exact Hin. unfold expsig.
    apply sumf_ext; intros i Hi. destruct (unit_inv (z i) (Hu i Hi)) as [_ Hz].
    remember (r + P - 1 - k)%nat as e eqn:He. replace (r + P - 1)%nat with (e + k)%nat by lia.
    rewrite pow_add.
    pose proof (pow_inv_cancel (z i) k 0 Hz) as E. rewrite Nat.add_0_r in E. cbn [pow] in E.
    transitivity (A i * pow (z i) e * (pow (inv (z i)) k * pow (z i) k)); [rewrite E; ring|ring].
  - remember (r - np_of (length x) P)%nat as r' eqn:Hr'.
    replace r with (np_of (length x) P + r')%nat by lia.
    destruct (fb_entry_bwd x P r' k ltac:(lia) Hk) as [-> Hin]. rewrite Hx by exact Hin. unfold expsig.
    rewrite sumf_conj. apply sumf_ext; intros i Hi. destruct (unit_inv (z i) (Hu i Hi)) as [Hc _].
    rewrite conj_mul, conj_pow. replace (r' + k + 1)%nat with (r' + 1 + k)%nat by lia. rewrite pow_add, Hc. ring.
Qed.
End Noiseless.
End FB.
