(* C11, order clauses and the converse direction: in an ordered *-field, reflection coefficients of
   modulus < 1 and r0 > 0 are inside the domain of every conversion, the final error is positive,
   and LEVINSON inverts rlevinson (ac2rc (rc2ac k r0) = (k, r0), ac2poly (poly2ac a e) = (a, e)). *)
Require Import Spectrum.Theory.Ops Spectrum.Theory.Sum Spectrum.Theory.Vec Spectrum.Theory.Order
               Spectrum.Model.Levinson Spectrum.Model.LinPred
               Spectrum.Proofs.LevinsonTheory Spectrum.Proofs.BurgTheory Spectrum.Proofs.LinPredTheory.

Section Corollaries.
Context {F : Type} {OF : Ops F} {L : Laws OF} {EF : Eqb F} {EL : EqbLaws EF}.
Local Open Scope F_scope.
Add Field FFlo0 : (fth (O:=OF)).

Lemma levinson_cons (x : F) r' : levinson (x :: r') (length (x :: r') - 1) false
  = lev_iter r' false (re x) (length r').
Proof. unfold levinson. cbn [length tl]. replace (S (length r') - 1)%nat with (length r') by lia. rewrite Nat.leb_refl. reflexivity. Qed.

(* ac2rc followed by rc2ac is the identity: rc2ac (ac2rc r) = r *)
Theorem rc2ac_ac2rc_thm (r : list F) (ks : list F) (r0 : F) :
  isreal (nthF r 0) -> (2 <= length r)%nat -> ac2rc r = Some (ks, r0) -> rc2ac ks r0 = Some r.
Proof.
  intros Hr Hlen Hc.
  assert (Hp : exists a e, ac2poly r = Some (a, e)).
  { unfold ac2rc, ac2poly in *. destruct r as [|x r']; [discriminate|].
    destruct (levinson (x :: r') (length (x :: r') - 1) false) as [[[A P] k']|]; [|discriminate]. eauto. }
  destruct Hp as (a & e & Hp).
  unfold rc2ac. rewrite (ac2poly_commutes_thm r a e ks r0 Hr Hlen Hp Hc).
  exact (poly2ac_ac2poly_thm r a e Hr Hlen Hp).
Qed.

(* poly2rc o ac2poly = ac2rc *)
Theorem poly2rc_ac2poly_thm (r : list F) (a : list F) (e ef : F) (ks : list F) (r0 : F) :
  isreal (nthF r 0) -> (2 <= length r)%nat ->
  ac2poly r = Some (a, e) -> ac2rc r = Some (ks, r0) -> poly2rc a ef = Some ks.
Proof.
  intros Hr Hlen Hp Hc.
  apply (poly2rc_rc2poly_thm ks r0 ef a e); [|exact (ac2poly_commutes_thm r a e ks r0 Hr Hlen Hp Hc)].
  unfold ac2rc in Hc. destruct r as [|x r']; [discriminate|]. rewrite levinson_cons in Hc.
  destruct (lev_iter r' false (re x) (length r')) as [[[A P] k']|] eqn:E; [|discriminate].
  injection Hc as <- _. destruct (lev_iter_dom _ _ _ _ _ _ E) as (Hd & _).
  intros j Hj. apply Hd. lia.
Qed.

(* the zero lag returned by rlevinson: efinal / prod(1 - |k_i|^2); for rc2ac it is r0 again *)
Theorem poly2ac_zero_lag_thm (a : list F) (ef : F) (R ks : list F) :
  poly2ac a ef = Some R -> poly2rc a ef = Some ks -> dom ks -> nthF R 0 = ef / prodk ks.
Proof.
  intros HR Hk Hd.
  assert (Hdt : dom_tail ks) by (intros j Hj; apply Hd; lia).
  pose proof (rc2poly_poly2rc_thm a ef (ef / prodk ks) ks Hk Hdt) as Hup.
  destruct ks as [|k0 t]; [discriminate|]. unfold rc2poly in Hup. apply Some_inj in Hup.
  assert (Hdt' : dom t) by (apply dom_tail_cons with k0; exact Hdt).
  assert (Hk0 : nrm2 k0 <> 1) by (apply (Hd O); cbn [length]; lia).
  set (e1 := ef / prodk (k0 :: t) * (1 - conj (conj k0 * k0))) in *.
  assert (Ea : a = fst (rc2poly_iter t [1; k0] e1)) by (rewrite Hup; reflexivity).
  assert (Ee : ef = snd (rc2poly_iter t [1; k0] e1)).
  { rewrite Hup. cbn [snd]. field. apply prodk_neq0. exact Hd. }
  unfold poly2ac in HR. rewrite Ea, Ee in HR at 1. rewrite rlevinson_stepup in HR by exact Hdt'. cbv zeta in HR.
  apply Some_inj in HR. rewrite <- HR.
  assert (E0 : forall n, nthF (rlev_R (upstages [k0] e1 t) (e1 / (1 - nrm2 k0)) n) 0 = e1 / (1 - nrm2 k0)).
  { induction n as [|n IH]; [reflexivity|]. cbn [rlev_R]. rewrite nthF_app_l by (rewrite rlev_R_length; lia). exact IH. }
  rewrite E0. unfold e1. rewrite conj_mul, conj_conj. cbn [prodk]. unfold nrm2. field.
  split; [apply prodk_neq0; exact Hdt'|exact (nrm2_neq1_sub k0 Hk0)].
Qed.
End Corollaries.

Section Ordered.
Context {F : Type} {OF : Ops F} {L : Laws OF} {OL : OrdLaws OF} {EF : Eqb F} {EL : EqbLaws EF}.
Local Open Scope F_scope.
Add Field FFlo1 : (fth (O:=OF)).

(* |k_j| < 1 for every coefficient *)
Definition stable (ks : list F) : Prop := forall j, (j < length ks)%nat -> lt (nrm2 (nthF ks j)) 1.

Lemma lt1_neq1 k : lt (nrm2 k) 1 -> nrm2 k <> 1.
Proof. intros [_ Hne] E. apply Hne. rewrite E. ring. Qed.
Lemma stable_dom ks : stable ks -> dom ks.
Proof. intros H j Hj. apply lt1_neq1. apply H. exact Hj. Qed.
Lemma stable_dom_tail ks : stable ks -> dom_tail ks.
Proof. intros H j Hj. apply lt1_neq1. apply H. lia. Qed.
Lemma stable_firstn ks m : stable ks -> stable (firstn m ks).
Proof.
  intros H j Hj. rewrite firstn_length in Hj. rewrite nthF_firstn by lia. apply H. lia.
Qed.
Lemma pos_prodk ks : stable ks -> pos (prodk ks).
Proof.
  induction ks as [|k t IH]; intros H; cbn [prodk]; [apply pos_1|].
  apply pos_mul.
  - apply (H O). cbn [length]. lia.
  - apply IH. intros j Hj. apply (H (S j)). cbn [length]. lia.
Qed.

(* the final error of rc2poly is positive *)
Theorem rc2poly_error_pos_thm (ks : list F) (r0 : F) (a : list F) (e : F) :
  pos r0 -> stable ks -> rc2poly ks r0 = Some (a, e) -> pos e /\ e = r0 * prodk ks.
Proof.
  intros H0 Hs H. destruct ks as [|k0 t]; [discriminate|].
  rewrite rc2poly_form_thm in H by discriminate. injection H as _ <-.
  split; [|reflexivity]. apply pos_mul; [exact H0|exact (pos_prodk (k0 :: t) Hs)].
Qed.

(* ---------- LEVINSON inverts rlevinson ---------- *)
Lemma rlev_R_prefix st e0 n : forall n' j, (n' <= n)%nat -> (j <= S n')%nat ->
  nthF (rlev_R (F:=F) st e0 n) j = nthF (rlev_R st e0 n') j.
Proof.
  induction n as [|n IH]; intros n' j Hn Hj.
  - replace n' with O by lia. reflexivity.
  - destruct (Nat.eq_dec n' (S n)) as [->|Hne]; [reflexivity|].
    cbn [rlev_R]. rewrite nthF_app_l by (rewrite rlev_R_length; lia). apply IH; lia.
Qed.
Lemma rlev_R_last st e0 n :
  nthF (rlev_R (F:=F) st e0 (S n)) (S (S n)) = rlev_next st (rlev_R st e0 n) (S n).
Proof.
  cbn [rlev_R]. pose proof (rlev_R_length st e0 n) as Hl.
  replace (S (S n)) with (length (rlev_R st e0 n)) at 1 by lia. apply nthF_app_last.
Qed.

Lemma rlev_next_form k0 e1 t (R : list F) m : (1 <= m <= length t)%nat ->
  rlev_next (upstages [k0] e1 t) R m
  = - sumf m (fun i => nthF (stepup_all (firstn m (k0 :: t))) i * nthF R (m - i))
    - nthF (k0 :: t) m * (e1 * prodk (firstn (m - 1) t)).
Proof.
  intros Hm. destruct (stage_up k0 e1 t m ltac:(lia)) as (Ha & He).
  unfold rlev_next. rewrite rlev_kr_upstages, He, sumL_mk. f_equal. f_equal.
  apply sumf_ext. intros i Hi. unfold Umat. destruct (Nat.eqb_spec m 0); [lia|].
  destruct (Nat.leb_spec (m - 1 - i) m); [|lia].
  rewrite conj_conj, Ha. replace (m - (m - 1 - i))%nat with (S i) by lia. rewrite nthF_consS. reflexivity.
Qed.

Lemma firstn_snoc (l : list F) m : (m < length l)%nat -> firstn (S m) l = firstn m l ++ [nthF l m].
Proof.
  revert m. induction l as [|x l IH]; intros m Hm; [cbn in Hm; lia|].
  destruct m as [|m]; [reflexivity|]. rewrite (firstn_cons (S m)), (firstn_cons m), IH by (cbn in Hm; lia). reflexivity.
Qed.

Lemma lev_iter_of_rlev k0 t r0 : let ks := k0 :: t in
  let e1 := r0 * (1 - k0 * conj k0) in
  let R := rlev_R (upstages [k0] e1 t) r0 (length t) in
  pos r0 -> stable ks ->
  forall m, (m <= length ks)%nat ->
  lev_iter (tl R) false r0 m = Some (stepup_all (firstn m ks), r0 * prodk (firstn m ks), firstn m ks).
Proof.
  intros ks e1 R H0 Hs. assert (Hlks : length ks = S (length t)) by reflexivity.
  induction m as [|m IH]; intros Hm.
  - cbn. f_equal. f_equal. f_equal. ring.
  - cbn [lev_iter]. rewrite IH by lia. unfold lev_step.
    set (A := stepup_all (firstn m ks)). set (P := r0 * prodk (firstn m ks)).
    assert (HP : pos P) by (apply pos_mul; [exact H0|apply pos_prodk, stable_firstn; exact Hs]).
    assert (Hk : - lev_delta (tl R) A m / P = nthF ks m).
    { assert (Hd : lev_delta (tl R) A m = - (nthF ks m * P)).
      { unfold lev_delta. rewrite sumL_mk, nth_tl.
        rewrite (sumf_ext m _ (fun i => nthF A i * nthF R (m - i))).
        2:{ intros i Hi. rewrite nth_tl. do 2 f_equal. lia. }
        destruct m as [|m'].
        - cbn [sumf]. unfold R. rewrite (rlev_R_prefix _ _ (length t) O 1) by lia. cbn [rlev_R].
          change (nthF [r0; - conj (Umat (upstages [k0] e1 t) 0 1) * r0] 1) with (- conj (Umat (upstages [k0] e1 t) 0 1) * r0).
          unfold Umat. cbn [Nat.eqb Nat.leb]. rewrite conj_conj.
          destruct (stage_up k0 e1 t 1 ltac:(lia)) as (Ha & _). rewrite Ha.
          unfold P, ks. cbn [firstn prodk]. unfold stepup_all. cbn [fold_left].
          change (nthF (1 :: stepup [] k0) (1 - 0)) with k0. change (nthF (k0 :: t) 0) with k0. ring.
        - unfold R at 1.
          rewrite (rlev_R_prefix _ _ (length t) (S m') (S (S m'))) by lia. rewrite rlev_R_last.
          rewrite rlev_next_form by lia. fold ks. fold A.
          rewrite (sumf_ext (S m') (fun i => nthF A i * nthF (rlev_R (upstages [k0] e1 t) r0 m') (S m' - i))
                                   (fun i => nthF A i * nthF R (S m' - i))).
          2:{ intros i Hi. f_equal. unfold R. symmetry. apply rlev_R_prefix; lia. }
          assert (EP : e1 * prodk (firstn (S m' - 1) t) = P).
          { unfold P, e1, ks. cbn [firstn prodk]. replace (S m' - 1)%nat with m' by lia. ring. }
          rewrite EP. ring. }
      rewrite Hd. field. apply HP. }
    rewrite Hk.
    assert (Hf : firstn (S m) ks = firstn m ks ++ [nthF ks m]) by (apply firstn_snoc; lia).
    assert (HP' : pos (P * (1 - nthF ks m * conj (nthF ks m)))).
    { apply pos_mul; [exact HP|]. apply (Hs m). lia. }
    rewrite (pos_not_le0 _ HP'). cbn [andb negb].
    rewrite Hf, stepup_all_app, prodk_app. unfold A, P. f_equal. f_equal. f_equal. ring.
Qed.

Theorem ac2_rc2ac_thm (ks : list F) (r0 : F) (R : list F) :
  pos r0 -> stable ks -> rc2ac ks r0 = Some R ->
  ac2rc R = Some (ks, r0) /\ ac2poly R = rc2poly ks r0 /\ length R = S (length ks).
Proof.
  intros H0 Hs H. unfold rc2ac in H. destruct ks as [|k0 t]; [discriminate|].
  assert (Hup : rc2poly (k0 :: t) r0 = Some (rc2poly_iter t [1; k0] (r0 * (1 - k0 * conj k0)))).
  { unfold rc2poly. do 2 f_equal. rewrite conj_mul, conj_conj. ring. }
  rewrite Hup in H. set (e1 := r0 * (1 - k0 * conj k0)) in *.
  rewrite (surjective_pairing (rc2poly_iter t [1; k0] e1)) in H.
  assert (Hdt : dom t) by (apply dom_tail_cons with k0, stable_dom_tail; exact Hs).
  assert (Hk0 : nrm2 k0 <> 1) by (apply lt1_neq1, (Hs O); cbn [length]; lia).
  unfold poly2ac in H. rewrite rlevinson_stepup in H by exact Hdt. cbv zeta in H. apply Some_inj in H.
  assert (E0 : e1 / (1 - nrm2 k0) = r0) by (unfold e1, nrm2; field; exact (nrm2_neq1_sub k0 Hk0)).
  rewrite E0 in H.
  pose proof (lev_iter_of_rlev k0 t r0 H0 Hs (S (length t)) ltac:(cbn [length]; lia)) as Hlev. cbv zeta in Hlev.
  fold e1 in Hlev. rewrite H in Hlev. change (S (length t)) with (length (k0 :: t)) in Hlev at 2 3 4.
  rewrite firstn_all in Hlev.
  assert (HlenR : length R = S (S (length t))) by (rewrite <- H, rlev_R_length; lia).
  assert (HR0 : nthF R 0 = r0).
  { rewrite <- H. rewrite (rlev_R_prefix _ _ (length t) O O) by lia. reflexivity. }
  assert (Hre : re r0 = r0) by (apply re_real, pos_real; exact H0).
  destruct R as [|x R']; [cbn in HlenR; lia|].
  unfold ac2rc, ac2poly. rewrite levinson_cons.
  change (nthF (x :: R') 0) with x in *. subst x. rewrite Hre.
  cbn [length] in HlenR. replace (length R') with (S (length t)) by lia.
  cbn [tl] in Hlev. rewrite Hlev. rewrite rc2poly_form_thm by discriminate.
  cbn [length]. repeat split; lia.
Qed.

(* every conversion from an admissible parameter set returns (no exception) *)
Theorem rc2ac_returns_thm (ks : list F) (r0 : F) : ks <> [] -> stable ks -> exists R, rc2ac ks r0 = Some R.
Proof.
  intros Hne Hs. destruct ks as [|k0 t]; [exfalso; apply Hne; reflexivity|].
  unfold rc2ac, rc2poly. rewrite (surjective_pairing (rc2poly_iter t [1; k0] _)).
  unfold poly2ac. rewrite rlevinson_stepup by (apply dom_tail_cons with k0, stable_dom_tail; exact Hs).
  cbv zeta. eauto.
Qed.

(* ac2poly o poly2ac = id on the domain *)
Theorem ac2poly_poly2ac_thm (a : list F) (e : F) (R ks : list F) :
  pos e -> poly2rc a e = Some ks -> stable ks -> poly2ac a e = Some R -> ac2poly R = Some (a, e).
Proof.
  intros He Hk Hs HR.
  pose proof (pos_prodk ks Hs) as Hpp.
  set (r0 := e / prodk ks).
  assert (H0 : pos r0) by (apply pos_div; assumption).
  pose proof (rc2poly_poly2rc_thm a e r0 ks Hk (stable_dom_tail ks Hs)) as Hup.
  assert (Ee : r0 * prodk ks = e) by (unfold r0; field; apply Hpp). rewrite Ee in Hup.
  assert (Hac : rc2ac ks r0 = Some R) by (unfold rc2ac; rewrite Hup; exact HR).
  destruct (ac2_rc2ac_thm ks r0 R H0 Hs Hac) as (_ & H2 & _). rewrite H2. exact Hup.
Qed.
End Ordered.
