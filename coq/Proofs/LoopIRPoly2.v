(* poly2ac, poly2rc, rc2ac: the IR programs generated from linear_prediction.py - thin wrappers over the embedded rlevinson (levinson.py, with its
   callee levdown) and, for rc2ac, over the embedded rc2poly (with its callee levup) - compute the hand-written models Model.LinPred.poly2ac,
   poly2rc, rc2ac for ALL inputs: [rlevinson_ir_run] (Proofs/LoopIRRlevinsonAll.v) and [rc2poly_ir_run] (Proofs/LoopIRRc2poly.v) composed through the
   call lemma [scall_run] (Proofs/LoopIRAryule.v).

   [prog_<w>_ref] is the decomposed program whose embedded callee bodies ARE [p_body prog_rlevinson_ref] / [p_body prog_rc2poly_ref]; it equals the
   verbatim translator output [prog_<w>_gen0] (between the BEGIN/END GENERATED markers below) by reflexivity.  The texts contain the texts of
   rlevinson, levdown (and rc2poly, levup): an edit of any of them makes the theorems inapplicable (reported as broken obligations).

   PROVED (abstract field with conjugation [Laws]; every [feq] - the models' [Eqb] instance -, every [stop]; any array with either dtype tag, any efinal / R0):
     poly2ac_ir_run   run = [] -> IndexError; feq a[0] 1 = false -> AssertionError; Model.LinPred.poly2ac a efinal = None -> ValueError;
                            = Some R -> ORet [VArr false R]      (complex dtype)
     poly2rc_ir_run   the same with Model.LinPred.poly2rc: ORet [VArr t kr]   (the dtype of a)
     rc2ac_ir_run     for feq 1 1 = true (levup and rlevinson test the leading 1 of the polynomial rc2poly builds with the code's ==):
                      run = IndexError for the empty sequence (kr[0] inside rc2poly); Model.LinPred.rc2ac k R0 = None -> ValueError (a reflection
                      coefficient equal to one met by the embedded levdown); = Some R -> ORet [VArr false R]
     poly2ac_ir_tie, poly2rc_ir_tie, rc2ac_ir_tie   for every reflexive [feq] the booleans of the exact evaluation tie are true for EVERY input
   NOT PROVED: nothing within the IR semantics. *)
From Coq Require Import String ZArith List Lia Bool.
Require Import Spectrum.Theory.Ops Spectrum.Theory.Sum Spectrum.Theory.Vec Spectrum.Model.LoopIR Spectrum.Model.Levinson Spectrum.Model.LinPred
               Spectrum.Model.LoopIRTie Spectrum.Model.LoopIRRlev Spectrum.Model.LoopIRWrap Spectrum.Proofs.LoopIRLevinson Spectrum.Proofs.LoopIRLevup
               Spectrum.Proofs.LoopIRAryule Spectrum.Proofs.LoopIRRc2poly Spectrum.Proofs.LoopIRRlevinsonAll.
Import ListNotations.
Local Open Scope string_scope.

(* ---------------------------------------------------------------- the programs, decomposed *)
(* poly2ac / poly2rc: slots 0=poly 1=efinal 2..5=results@0..3 *)
Definition p2_call : stmt :=
  SCall [2%nat; 3%nat; 4%nat; 5%nat] (p_nparams prog_rlevinson_ref) (p_defaults prog_rlevinson_ref) (p_nslots prog_rlevinson_ref) (p_body prog_rlevinson_ref)
        [(Some (EVar 0)); (Some (EVar 1))].
Definition prog_poly2ac_ref : program := mkProgram "poly2ac" 2 [None; None] 6 (SSeq p2_call (SReturn [(EVar 2)])).
Definition prog_poly2rc_ref : program := mkProgram "poly2rc" 2 [None; None] 6 (SSeq p2_call (SReturn [(EVar 4)])).
(* rc2ac: slots 0=k 1=R0 2,3=rc2poly@ret 4=a 5=efinal 6..9=rlevinson@ret 10=R 11=u 12=kr 13=e *)
Definition r2a_call1 : stmt :=
  SCall [2%nat; 3%nat] (p_nparams prog_rc2poly_ref) (p_defaults prog_rc2poly_ref) (p_nslots prog_rc2poly_ref) (p_body prog_rc2poly_ref)
        [(Some (EVar 0)); (Some (EVar 1))].
Definition r2a_bind1 : stmt := SSeq (SAssign 4 (EVar 2)) (SAssign 5 (EVar 3)).
Definition r2a_call2 : stmt :=
  SCall [6%nat; 7%nat; 8%nat; 9%nat] (p_nparams prog_rlevinson_ref) (p_defaults prog_rlevinson_ref) (p_nslots prog_rlevinson_ref) (p_body prog_rlevinson_ref)
        [(Some (EVar 4)); (Some (EVar 5))].
Definition r2a_bind2 : stmt := SSeq (SAssign 10 (EVar 6)) (SSeq (SAssign 11 (EVar 7)) (SSeq (SAssign 12 (EVar 8)) (SAssign 13 (EVar 9)))).
Definition r2a_main : stmt := SSeq (SSeq r2a_call1 r2a_bind1) (SSeq (SSeq r2a_call2 r2a_bind2) (SReturn [(EVar 10)])).
Definition prog_rc2ac_ref : program := mkProgram "rc2ac" 2 [None; None] 14 r2a_main.

Section Main.
Context {F : Type} {OF : Ops F} {L : Laws OF}.
Variable feq : F -> F -> bool.
Variable stop : Z -> F -> F -> bool.
Local Open Scope F_scope.
Local Open Scope list_scope.
Notation value := (@value F).
Notation store := (@store F).
Notation exec := (@exec F OF feq stop).

(* the class rlevinson raises where its model returns None, else the component [sel] of its results *)
Definition wrap_outcome {A : Type} (model : option A) (ret : A -> value) (a : list F) : @outcome F :=
  match a with
  | [] => OErr IndexError
  | a0 :: _ =>
      if negb (feq a0 1) then OErr AssertionError
      else match model with None => OErr ValueError | Some r => ORet [ret r] end
  end.

(* the call of rlevinson on a store whose slots x0, x1 hold the arguments *)
Lemma rlev_call_ok dsts (st : store) x0 x1 t a ef : length dsts = 4%nat ->
  nth x0 st VUnbound = VArr t a -> nth x1 st VUnbound = VF ef ->
  exec (SCall dsts (p_nparams prog_rlevinson_ref) (p_defaults prog_rlevinson_ref) (p_nslots prog_rlevinson_ref) (p_body prog_rlevinson_ref)
              [Some (EVar x0); Some (EVar x1)]) st =
  match rlev_outcome feq t a ef with
  | ORet rs => (set_all st dsts rs, CNormal)
  | OErr e => (st, CErr e)
  end.
Proof.
  intros Hd H0 H1.
  assert (Ea : eval_oargs feq st [Some (EVar x0); Some (EVar x1)] = inl [Some (VArr t a); Some (VF ef)]).
  { cbn [eval_oargs eval]. unfold get. rewrite H0, H1. reflexivity. }
  pose proof (scall_run feq stop dsts prog_rlevinson_ref _ _ _ Ea) as H. rewrite rlevinson_ir_run in H.
  specialize (H ltac:(lia)).
  destruct (rlev_outcome feq t a ef) as [rs|e] eqn:E; [|exact H].
  apply H. rewrite Hd. unfold rlev_outcome in E. destruct a as [|a0 r]; [discriminate|].
  destruct (negb (feq a0 1)); [discriminate|].
  destruct (@rlevinson F OF feq (a0 :: r) ef) as [[[[R stg] kr] es]|]; [|discriminate]. inversion E. reflexivity.
Qed.

Theorem poly2ac_ir_run t (a : list F) (ef : F) :
  run feq stop prog_poly2ac_ref [Some (VArr t a); Some (VF ef)] = wrap_outcome (@poly2ac F OF feq a ef) (VArr false) a.
Proof.
  unfold run, prog_poly2ac_ref. cbn [p_defaults p_body p_nslots p_nparams Nat.sub bind_args bind ok app repeat].
  cbn [LoopIR.exec]. fold p2_call. unfold p2_call.
  rewrite (rlev_call_ok [2%nat; 3%nat; 4%nat; 5%nat] _ 0 1 t a ef) by reflexivity.
  unfold wrap_outcome, poly2ac, rlev_outcome. destruct a as [|a0 r]; [reflexivity|].
  destruct (negb (feq a0 1)); [reflexivity|].
  destruct (@rlevinson F OF feq (a0 :: r) ef) as [[[[R stg] kr] es]|]; reflexivity.
Qed.

Theorem poly2rc_ir_run t (a : list F) (ef : F) :
  run feq stop prog_poly2rc_ref [Some (VArr t a); Some (VF ef)] = wrap_outcome (@poly2rc F OF feq a ef) (VArr t) a.
Proof.
  unfold run, prog_poly2rc_ref. cbn [p_defaults p_body p_nslots p_nparams Nat.sub bind_args bind ok app repeat].
  cbn [LoopIR.exec]. fold p2_call. unfold p2_call.
  rewrite (rlev_call_ok [2%nat; 3%nat; 4%nat; 5%nat] _ 0 1 t a ef) by reflexivity.
  unfold wrap_outcome, poly2rc, rlev_outcome. destruct a as [|a0 r]; [reflexivity|].
  destruct (negb (feq a0 1)); [reflexivity|].
  destruct (@rlevinson F OF feq (a0 :: r) ef) as [[[[R stg] kr] es]|]; reflexivity.
Qed.

(* rc2poly returns a polynomial headed by the literal 1 *)
Lemma rc2poly_head (k : list F) (r0 : F) a e : rc2poly k r0 = Some (a, e) -> exists tl', a = 1 :: tl'.
Proof.
  unfold rc2poly. destruct k as [|k0 t]; [discriminate|]. intros H. inversion H as [H'].
  destruct (stage_head k0 t (r0 * (1 - conj (conj k0 * k0))) (length t) (le_n _)) as [tl' Ht].
  unfold stage in Ht. rewrite firstn_all in Ht. rewrite H' in Ht. cbn [fst] in Ht. exists tl'. exact Ht.
Qed.

Hypothesis feq_11 : feq 1 1 = true.

Theorem rc2ac_ir_run tk (k : list F) (r0 : F) :
  run feq stop prog_rc2ac_ref [Some (VArr tk k); Some (VF r0)] =
  match @rc2ac F OF feq k r0 with
  | Some R => ORet [VArr false R]
  | None => match k with [] => OErr IndexError | _ => OErr ValueError end
  end.
Proof.
  unfold run, prog_rc2ac_ref. cbn [p_defaults p_body p_nslots p_nparams Nat.sub bind_args bind ok app repeat]. unfold r2a_main.
  assert (Ea : eval_oargs feq [VArr tk k; VF r0; VUnbound; VUnbound; VUnbound; VUnbound; VUnbound; VUnbound; VUnbound; VUnbound; VUnbound; VUnbound; VUnbound; VUnbound]
                 [Some (EVar 0); Some (EVar 1)] = inl [Some (VArr tk k); Some (VF r0)]) by reflexivity.
  pose proof (scall_run feq stop [2%nat; 3%nat] prog_rc2poly_ref _ _ _ Ea (le_n 2)) as H. fold r2a_call1 in H.
  pose proof (rc2poly_ir_run feq stop feq_11 tk k (Some r0)) as HR. cbn [option_map r0_of] in HR. rewrite HR in H. clear HR.
  unfold rc2ac.
  destruct (rc2poly k r0) as [[a e]|] eqn:E.
  - specialize (H eq_refl).
    destruct (rc2poly_head k r0 a e E) as [tl' ->].
    erewrite exec_seq; [|erewrite exec_seq; [|exact H]; cbn [set_all set]; unfold r2a_bind1; cbn [LoopIR.exec eval get set nth try ok]; reflexivity].
    assert (H2 := rlev_call_ok [6%nat; 7%nat; 8%nat; 9%nat]
                    [VArr tk k; VF r0; VArr false (1 :: tl'); VF e; VArr false (1 :: tl'); VF e; VUnbound; VUnbound; VUnbound; VUnbound; VUnbound; VUnbound; VUnbound; VUnbound]
                    4 5 false (1 :: tl') e eq_refl eq_refl eq_refl).
    fold r2a_call2 in H2. unfold rlev_outcome in H2. rewrite feq_11 in H2. cbn [negb] in H2.
    unfold poly2ac.
    destruct (@rlevinson F OF feq (1 :: tl') e) as [[[[R stg] kr] es]|].
    + erewrite exec_seq; [|erewrite exec_seq; [|exact H2]; cbn [set_all set]; unfold r2a_bind2; cbn [LoopIR.exec eval get set nth try ok]; reflexivity].
      cbn [LoopIR.exec eval_list eval get nth bind try ok]. reflexivity.
    + pose proof (exec_seq_stop feq stop _ r2a_bind2 _ _ _ H2 ltac:(discriminate)) as H3.
      rewrite (exec_seq_stop feq stop _ _ _ _ _ H3) by discriminate.
      destruct k; [discriminate E|reflexivity].
  - pose proof (exec_seq_stop feq stop _ r2a_bind1 _ _ _ H ltac:(discriminate)) as H3.
    rewrite (exec_seq_stop feq stop _ _ _ _ _ H3) by discriminate.
    destruct k as [|k0 t]; [reflexivity|discriminate E].
Qed.
End Main.

Section TieTrue.
Context {F : Type} {OF : Ops F} {L : Laws OF}.
Variable feq : F -> F -> bool.
Hypothesis feq_refl : forall a, feq a a = true.

Theorem poly2ac_ir_tie t (a : list F) (ef : F) : tie_poly2ac feq prog_poly2ac_ref t a ef = true.
Proof.
  unfold tie_poly2ac, rlev_raises. rewrite (poly2ac_ir_run feq (@nostop F)). unfold wrap_outcome.
  destruct a as [|a0 r].
  - unfold poly2ac, rlevinson. destruct (negb (eqb (nthF [] 0) 1%F)); reflexivity.
  - destruct (feq a0 1%F) eqn:H1; cbn [negb].
    + destruct (@poly2ac F OF feq (a0 :: r) ef) as [R|]; [apply (leq_refl' feq feq_refl)|reflexivity].
    + unfold poly2ac, rlevinson. change (eqb (nthF (a0 :: r) 0) 1%F) with (feq a0 1%F). rewrite H1. reflexivity.
Qed.

Theorem poly2rc_ir_tie t (a : list F) (ef : F) : tie_poly2rc feq prog_poly2rc_ref t a ef = true.
Proof.
  unfold tie_poly2rc, rlev_raises. rewrite (poly2rc_ir_run feq (@nostop F)). unfold wrap_outcome.
  destruct a as [|a0 r].
  - unfold poly2rc, rlevinson. destruct (negb (eqb (nthF [] 0) 1%F)); reflexivity.
  - destruct (feq a0 1%F) eqn:H1; cbn [negb].
    + destruct (@poly2rc F OF feq (a0 :: r) ef) as [kr|]; [|reflexivity].
      rewrite (leq_refl' feq feq_refl). destruct t; reflexivity.
    + unfold poly2rc, rlevinson. change (eqb (nthF (a0 :: r) 0) 1%F) with (feq a0 1%F). rewrite H1. reflexivity.
Qed.

Theorem rc2ac_ir_tie tk (k : list F) (r0 : F) : tie_rc2ac feq prog_rc2ac_ref tk k r0 = true.
Proof.
  unfold tie_rc2ac. rewrite (rc2ac_ir_run feq (@nostop F) (feq_refl 1%F)).
  destruct (@rc2ac F OF feq k r0) as [R|]; [apply (leq_refl' feq feq_refl)|]. destruct k; reflexivity.
Qed.
End TieTrue.

(* BEGIN GENERATED poly2ac (verbatim output of tools/props/_loopir.py for spectrum.linear_prediction.poly2ac) *)
(* poly2ac: slots 0=poly 1=efinal 2=results@0 3=results@1 4=results@2 5=results@3 *)
Definition prog_poly2ac_gen0 : program := mkProgram "poly2ac" 2 [None; None] 6
(SSeq (SCall [2%nat; 3%nat; 4%nat; 5%nat] 2 [None; None] 14
(SSeq (SAssign 0 (ECopy (EVar 0)))
(SSeq (SAssign 2 (EIsRealObj (EVar 0)))
(SSeq (SAssert (ECmp CEq (EIndex (EVar 0) (EInt 0)) (EInt 1)))
(SSeq (SAssign 3 (ELen (EVar 0)))
(SSeq (SIf (ECmp CLt (EVar 3) (EInt 2))
(SRaise ValueError)
(SSkip))
(SSeq (SIf (EIsBool true (EVar 2))
(SAssign 4 (EZeros2 (EVar 3) (EVar 3) true))
(SAssign 4 (EZeros2 (EVar 3) (EVar 3) false)))
(SSeq (SStoreCol 4 (EBin BSub (EVar 3) (EInt 1)) (EConj (ESlice (EVar 0) (Some (ENeg (EInt 1))) None (Some (ENeg (EInt 1))))))
(SSeq (SAssign 3 (EBin BSub (EVar 3) (EInt 1)))
(SSeq (SAssign 5 (EZeros (EVar 3) true))
(SSeq (SStore 5 (ENeg (EInt 1)) (EVar 1))
(SSeq (SFor 6 (EBin BSub (EVar 3) (EInt 1)) (EInt 0) (ENeg (EInt 1))
(SSeq (SSeq (SCall [7%nat; 8%nat] 2 [None; (Some ENone)] 5
(SSeq (SIf (ECmp CNe (EIndex (EVar 0) (EInt 0)) (EInt 1))
(SRaise ValueError)
(SSkip))
(SSeq (SAssign 0 (ESlice (EVar 0) (Some (EInt 1)) None None))
(SSeq (SAssign 2 (EIndex (EVar 0) (ENeg (EInt 1))))
(SSeq (SIf (ECmp CEq (EVar 2) (ELit 1 0))
(SRaise ValueError)
(SSkip))
(SSeq (SAssign 3 (EBin BDiv (EBin BSub (ESlice (EVar 0) (Some (EInt 0)) (Some (ENeg (EInt 1))) None) (EBin BMul (EVar 2) (EConj (ESlice (EVar 0) (Some (ENeg (EInt 2))) None (Some (ENeg (EInt 1))))))) (EBin BSub (ELit 1 0) (ENrm2 (EVar 2)))))
(SSeq (SAssign 4 ENone)
(SSeq (SIf (ENot (EIsNone (EVar 1)))
(SAssign 4 (EBin BDiv (EVar 1) (EBin BSub (ELit 1 0) (EDot (EConj (EVar 2)) (EVar 2)))))
(SSkip))
(SSeq (SAssign 3 (EInsert (EVar 3) (EInt 0) (EInt 1)))
(SReturn [(EVar 3); (EVar 4)])))))))))
[(Some (EVar 0)); (Some (EIndex (EVar 5) (EVar 6)))])
(SSeq (SAssign 0 (EVar 7))
(SStore 5 (EBin BSub (EVar 6) (EInt 1)) (EVar 8))))
(SStoreCol 4 (EVar 6) (EConcat (EConj (ESlice (EVar 0) (Some (ENeg (EInt 1))) None (Some (ENeg (EInt 1))))) (EZeros (EMax (EInt 0) (EBin BSub (EVar 3) (EVar 6))) true)))))
(SSeq (SAssign 9 (EBin BDiv (EIndex (EVar 5) (EInt 0)) (EBin BSub (ELit 1 0) (ENrm2 (EIndex (EVar 0) (EInt 1))))))
(SSeq (SStore2 4 (EInt 0) (EInt 0) (EInt 1))
(SSeq (SAssign 10 (EConj (ERowSlice (EVar 4) (EInt 0) (Some (EInt 1)) None None)))
(SSeq (SAssign 10 (EVar 10))
(SSeq (SAssign 11 (EZeros (EInt 1) false))
(SSeq (SAssign 6 (EInt 1))
(SSeq (SAssign 12 (EVar 9))
(SSeq (SStore 11 (EInt 0) (EBin BMul (ENeg (EConj (EIndex2 (EVar 4) (EInt 0) (EInt 1)))) (EVar 12)))
(SSeq (SFor 6 (EInt 1) (EVar 3) (EInt 1)
(SSeq (SAssign 13 (EBin BSub (ENeg (ESum (EBin BMul (EConj (EColSlice (EVar 4) (Some (EBin BSub (EVar 6) (EInt 1))) None (Some (ENeg (EInt 1))) (EVar 6))) (ESlice (EVar 11) (Some (ENeg (EInt 1))) None (Some (ENeg (EInt 1))))))) (EBin BMul (EIndex (EVar 10) (EVar 6)) (EIndex (EVar 5) (EBin BSub (EVar 6) (EInt 1))))))
(SAssign 11 (EInsert (EVar 11) (ELen (EVar 11)) (EVar 13)))))
(SSeq (SAssign 11 (EInsert (EVar 11) (EInt 0) (EVar 9)))
(SReturn [(EVar 11); (EVar 4); (EVar 10); (EVar 5)]))))))))))))))))))))))
[(Some (EVar 0)); (Some (EVar 1))])
(SReturn [(EVar 2)])).
(* END GENERATED poly2ac *)

(* BEGIN GENERATED poly2rc (verbatim output of tools/props/_loopir.py for spectrum.linear_prediction.poly2rc) *)
(* poly2rc: slots 0=a 1=efinal 2=results@0 3=results@1 4=results@2 5=results@3 *)
Definition prog_poly2rc_gen0 : program := mkProgram "poly2rc" 2 [None; None] 6
(SSeq (SCall [2%nat; 3%nat; 4%nat; 5%nat] 2 [None; None] 14
(SSeq (SAssign 0 (ECopy (EVar 0)))
(SSeq (SAssign 2 (EIsRealObj (EVar 0)))
(SSeq (SAssert (ECmp CEq (EIndex (EVar 0) (EInt 0)) (EInt 1)))
(SSeq (SAssign 3 (ELen (EVar 0)))
(SSeq (SIf (ECmp CLt (EVar 3) (EInt 2))
(SRaise ValueError)
(SSkip))
(SSeq (SIf (EIsBool true (EVar 2))
(SAssign 4 (EZeros2 (EVar 3) (EVar 3) true))
(SAssign 4 (EZeros2 (EVar 3) (EVar 3) false)))
(SSeq (SStoreCol 4 (EBin BSub (EVar 3) (EInt 1)) (EConj (ESlice (EVar 0) (Some (ENeg (EInt 1))) None (Some (ENeg (EInt 1))))))
(SSeq (SAssign 3 (EBin BSub (EVar 3) (EInt 1)))
(SSeq (SAssign 5 (EZeros (EVar 3) true))
(SSeq (SStore 5 (ENeg (EInt 1)) (EVar 1))
(SSeq (SFor 6 (EBin BSub (EVar 3) (EInt 1)) (EInt 0) (ENeg (EInt 1))
(SSeq (SSeq (SCall [7%nat; 8%nat] 2 [None; (Some ENone)] 5
(SSeq (SIf (ECmp CNe (EIndex (EVar 0) (EInt 0)) (EInt 1))
(SRaise ValueError)
(SSkip))
(SSeq (SAssign 0 (ESlice (EVar 0) (Some (EInt 1)) None None))
(SSeq (SAssign 2 (EIndex (EVar 0) (ENeg (EInt 1))))
(SSeq (SIf (ECmp CEq (EVar 2) (ELit 1 0))
(SRaise ValueError)
(SSkip))
(SSeq (SAssign 3 (EBin BDiv (EBin BSub (ESlice (EVar 0) (Some (EInt 0)) (Some (ENeg (EInt 1))) None) (EBin BMul (EVar 2) (EConj (ESlice (EVar 0) (Some (ENeg (EInt 2))) None (Some (ENeg (EInt 1))))))) (EBin BSub (ELit 1 0) (ENrm2 (EVar 2)))))
(SSeq (SAssign 4 ENone)
(SSeq (SIf (ENot (EIsNone (EVar 1)))
(SAssign 4 (EBin BDiv (EVar 1) (EBin BSub (ELit 1 0) (EDot (EConj (EVar 2)) (EVar 2)))))
(SSkip))
(SSeq (SAssign 3 (EInsert (EVar 3) (EInt 0) (EInt 1)))
(SReturn [(EVar 3); (EVar 4)])))))))))
[(Some (EVar 0)); (Some (EIndex (EVar 5) (EVar 6)))])
(SSeq (SAssign 0 (EVar 7))
(SStore 5 (EBin BSub (EVar 6) (EInt 1)) (EVar 8))))
(SStoreCol 4 (EVar 6) (EConcat (EConj (ESlice (EVar 0) (Some (ENeg (EInt 1))) None (Some (ENeg (EInt 1))))) (EZeros (EMax (EInt 0) (EBin BSub (EVar 3) (EVar 6))) true)))))
(SSeq (SAssign 9 (EBin BDiv (EIndex (EVar 5) (EInt 0)) (EBin BSub (ELit 1 0) (ENrm2 (EIndex (EVar 0) (EInt 1))))))
(SSeq (SStore2 4 (EInt 0) (EInt 0) (EInt 1))
(SSeq (SAssign 10 (EConj (ERowSlice (EVar 4) (EInt 0) (Some (EInt 1)) None None)))
(SSeq (SAssign 10 (EVar 10))
(SSeq (SAssign 11 (EZeros (EInt 1) false))
(SSeq (SAssign 6 (EInt 1))
(SSeq (SAssign 12 (EVar 9))
(SSeq (SStore 11 (EInt 0) (EBin BMul (ENeg (EConj (EIndex2 (EVar 4) (EInt 0) (EInt 1)))) (EVar 12)))
(SSeq (SFor 6 (EInt 1) (EVar 3) (EInt 1)
(SSeq (SAssign 13 (EBin BSub (ENeg (ESum (EBin BMul (EConj (EColSlice (EVar 4) (Some (EBin BSub (EVar 6) (EInt 1))) None (Some (ENeg (EInt 1))) (EVar 6))) (ESlice (EVar 11) (Some (ENeg (EInt 1))) None (Some (ENeg (EInt 1))))))) (EBin BMul (EIndex (EVar 10) (EVar 6)) (EIndex (EVar 5) (EBin BSub (EVar 6) (EInt 1))))))
(SAssign 11 (EInsert (EVar 11) (ELen (EVar 11)) (EVar 13)))))
(SSeq (SAssign 11 (EInsert (EVar 11) (EInt 0) (EVar 9)))
(SReturn [(EVar 11); (EVar 4); (EVar 10); (EVar 5)]))))))))))))))))))))))
[(Some (EVar 0)); (Some (EVar 1))])
(SReturn [(EVar 4)])).
(* END GENERATED poly2rc *)

(* BEGIN GENERATED rc2ac (verbatim output of tools/props/_loopir.py for spectrum.linear_prediction.rc2ac) *)
(* rc2ac: slots 0=k 1=R0 2=rc2poly@ret0#2 3=rc2poly@ret1#3 4=a 5=efinal 6=rlevinson@ret0#6 7=rlevinson@ret1#7 8=rlevinson@ret2#8 9=rlevinson@ret3#9 10=R 11=u 12=kr 13=e *)
Definition prog_rc2ac_gen0 : program := mkProgram "rc2ac" 2 [None; None] 14
(SSeq (SSeq (SCall [2%nat; 3%nat] 2 [None; (Some ENone)] 10
(SSeq (SAssign 2 (ELen (EVar 0)))
(SSeq (SAssign 3 (ECopy (EArrCons (EInt 1) (EArrCons (EIndex (EVar 0) (EInt 0)) EArrNil))))
(SSeq (SAssign 4 (EZeros (ELen (EVar 0)) true))
(SSeq (SIf (EIsNone (EVar 1))
(SAssign 5 (EInt 0))
(SAssign 5 (EVar 1)))
(SSeq (SStore 4 (EInt 0) (EBin BMul (EVar 5) (EBin BSub (ELit 1 0) (EConj (EBin BMul (EConj (EIndex (EVar 0) (EInt 0))) (EIndex (EVar 0) (EInt 0)))))))
(SSeq (SFor 6 (EInt 1) (EVar 2) (EInt 1)
(SSeq (SCall [7%nat; 8%nat] 3 [None; None; (Some ENone)] 5
(SSeq (SIf (ECmp CNe (EIndex (EVar 0) (EInt 0)) (EInt 1))
(SRaise ValueError)
(SSkip))
(SSeq (SAssign 0 (ESlice (EVar 0) (Some (EInt 1)) None None))
(SSeq (SAssign 3 (EBin BAdd (EConcat (EVar 0) (EArrCons (EInt 0) EArrNil)) (EBin BMul (EVar 1) (EConcat (EConj (ESlice (EVar 0) (Some (ENeg (EInt 1))) None (Some (ENeg (EInt 1))))) (EArrCons (EInt 1) EArrNil)))))
(SSeq (SAssign 4 ENone)
(SSeq (SIf (ENot (EIsNone (EVar 2)))
(SAssign 4 (EBin BMul (EBin BSub (ELit 1 0) (EDot (EConj (EVar 1)) (EVar 1))) (EVar 2)))
(SSkip))
(SSeq (SAssign 3 (EInsert (EVar 3) (EInt 0) (EInt 1)))
(SReturn [(EVar 3); (EVar 4)])))))))
[(Some (EVar 3)); (Some (EIndex (EVar 0) (EVar 6))); (Some (EIndex (EVar 4) (EBin BSub (EVar 6) (EInt 1))))])
(SSeq (SAssign 3 (EVar 7))
(SStore 4 (EVar 6) (EVar 8)))))
(SSeq (SAssign 9 (EIndex (EVar 4) (ENeg (EInt 1))))
(SReturn [(EVar 3); (EVar 9)]))))))))
[(Some (EVar 0)); (Some (EVar 1))])
(SSeq (SAssign 4 (EVar 2))
(SAssign 5 (EVar 3))))
(SSeq (SSeq (SCall [6%nat; 7%nat; 8%nat; 9%nat] 2 [None; None] 14
(SSeq (SAssign 0 (ECopy (EVar 0)))
(SSeq (SAssign 2 (EIsRealObj (EVar 0)))
(SSeq (SAssert (ECmp CEq (EIndex (EVar 0) (EInt 0)) (EInt 1)))
(SSeq (SAssign 3 (ELen (EVar 0)))
(SSeq (SIf (ECmp CLt (EVar 3) (EInt 2))
(SRaise ValueError)
(SSkip))
(SSeq (SIf (EIsBool true (EVar 2))
(SAssign 4 (EZeros2 (EVar 3) (EVar 3) true))
(SAssign 4 (EZeros2 (EVar 3) (EVar 3) false)))
(SSeq (SStoreCol 4 (EBin BSub (EVar 3) (EInt 1)) (EConj (ESlice (EVar 0) (Some (ENeg (EInt 1))) None (Some (ENeg (EInt 1))))))
(SSeq (SAssign 3 (EBin BSub (EVar 3) (EInt 1)))
(SSeq (SAssign 5 (EZeros (EVar 3) true))
(SSeq (SStore 5 (ENeg (EInt 1)) (EVar 1))
(SSeq (SFor 6 (EBin BSub (EVar 3) (EInt 1)) (EInt 0) (ENeg (EInt 1))
(SSeq (SSeq (SCall [7%nat; 8%nat] 2 [None; (Some ENone)] 5
(SSeq (SIf (ECmp CNe (EIndex (EVar 0) (EInt 0)) (EInt 1))
(SRaise ValueError)
(SSkip))
(SSeq (SAssign 0 (ESlice (EVar 0) (Some (EInt 1)) None None))
(SSeq (SAssign 2 (EIndex (EVar 0) (ENeg (EInt 1))))
(SSeq (SIf (ECmp CEq (EVar 2) (ELit 1 0))
(SRaise ValueError)
(SSkip))
(SSeq (SAssign 3 (EBin BDiv (EBin BSub (ESlice (EVar 0) (Some (EInt 0)) (Some (ENeg (EInt 1))) None) (EBin BMul (EVar 2) (EConj (ESlice (EVar 0) (Some (ENeg (EInt 2))) None (Some (ENeg (EInt 1))))))) (EBin BSub (ELit 1 0) (ENrm2 (EVar 2)))))
(SSeq (SAssign 4 ENone)
(SSeq (SIf (ENot (EIsNone (EVar 1)))
(SAssign 4 (EBin BDiv (EVar 1) (EBin BSub (ELit 1 0) (EDot (EConj (EVar 2)) (EVar 2)))))
(SSkip))
(SSeq (SAssign 3 (EInsert (EVar 3) (EInt 0) (EInt 1)))
(SReturn [(EVar 3); (EVar 4)])))))))))
[(Some (EVar 0)); (Some (EIndex (EVar 5) (EVar 6)))])
(SSeq (SAssign 0 (EVar 7))
(SStore 5 (EBin BSub (EVar 6) (EInt 1)) (EVar 8))))
(SStoreCol 4 (EVar 6) (EConcat (EConj (ESlice (EVar 0) (Some (ENeg (EInt 1))) None (Some (ENeg (EInt 1))))) (EZeros (EMax (EInt 0) (EBin BSub (EVar 3) (EVar 6))) true)))))
(SSeq (SAssign 9 (EBin BDiv (EIndex (EVar 5) (EInt 0)) (EBin BSub (ELit 1 0) (ENrm2 (EIndex (EVar 0) (EInt 1))))))
(SSeq (SStore2 4 (EInt 0) (EInt 0) (EInt 1))
(SSeq (SAssign 10 (EConj (ERowSlice (EVar 4) (EInt 0) (Some (EInt 1)) None None)))
(SSeq (SAssign 10 (EVar 10))
(SSeq (SAssign 11 (EZeros (EInt 1) false))
(SSeq (SAssign 6 (EInt 1))
(SSeq (SAssign 12 (EVar 9))
(SSeq (SStore 11 (EInt 0) (EBin BMul (ENeg (EConj (EIndex2 (EVar 4) (EInt 0) (EInt 1)))) (EVar 12)))
(SSeq (SFor 6 (EInt 1) (EVar 3) (EInt 1)
(SSeq (SAssign 13 (EBin BSub (ENeg (ESum (EBin BMul (EConj (EColSlice (EVar 4) (Some (EBin BSub (EVar 6) (EInt 1))) None (Some (ENeg (EInt 1))) (EVar 6))) (ESlice (EVar 11) (Some (ENeg (EInt 1))) None (Some (ENeg (EInt 1))))))) (EBin BMul (EIndex (EVar 10) (EVar 6)) (EIndex (EVar 5) (EBin BSub (EVar 6) (EInt 1))))))
(SAssign 11 (EInsert (EVar 11) (ELen (EVar 11)) (EVar 13)))))
(SSeq (SAssign 11 (EInsert (EVar 11) (EInt 0) (EVar 9)))
(SReturn [(EVar 11); (EVar 4); (EVar 10); (EVar 5)]))))))))))))))))))))))
[(Some (EVar 4)); (Some (EVar 5))])
(SSeq (SAssign 10 (EVar 6))
(SSeq (SAssign 11 (EVar 7))
(SSeq (SAssign 12 (EVar 8))
(SAssign 13 (EVar 9))))))
(SReturn [(EVar 10)]))).
(* END GENERATED rc2ac *)

Example prog_poly2ac_ref_is_generated : prog_poly2ac_ref = prog_poly2ac_gen0.
Proof. reflexivity. Qed.
Example prog_poly2rc_ref_is_generated : prog_poly2rc_ref = prog_poly2rc_gen0.
Proof. reflexivity. Qed.
Example prog_rc2ac_ref_is_generated : prog_rc2ac_ref = prog_rc2ac_gen0.
Proof. reflexivity. Qed.

Print Assumptions poly2ac_ir_run.
Print Assumptions poly2rc_ir_run.
Print Assumptions rc2ac_ir_run.
Print Assumptions poly2ac_ir_tie.
Print Assumptions poly2rc_ir_tie.
Print Assumptions rc2ac_ir_tie.
