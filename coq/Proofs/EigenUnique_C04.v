(* C04 / C17 — what numpy.linalg.svd's freedom in choosing singular vectors can and cannot change.
   Two pairs (S, Vh), (S2, Vh2) meeting [svd_spec] for the SAME matrix:
   * the singular values coincide (S_t = S2_t for every t < P)                                         [svd_values_unique_thm]
     (if S_t^2 > S2_t^2 then v_0..v_t are orthogonal to w_t..w_{P-1}, so t+1 orthonormal vectors lie in the span of t vectors);
   * if the noise subspace is determined — NSIG = 0, NSIG >= P, or S_(NSIG-1) > S_NSIG — the noise-subspace form
     D(b) = sum_{I >= NSIG} w_I |e(b)^H v_I|^2 is the same for both pairs, for the MUSIC weights (1) and for the EV weights
     1/max(S_I, eps S_0) (they are a function of the singular value, so the form is a sum over eigenspaces)      [dform_unique_thm]
   * hence eigen() / pmusic / pev return the same vector for both pairs                                  [eigen_unique_thm, pclass_unique_thm]
   Abstract ordered *-field; no hypothesis on the data. *)
Require Import Spectrum.Theory.Ops Spectrum.Theory.Sum Spectrum.Theory.Vec Spectrum.Theory.Dft Spectrum.Theory.Order
               Spectrum.Model.Eigen Spectrum.Proofs.EigenFB Spectrum.Proofs.EigenAxis Spectrum.Proofs.EigenTheory
               Spectrum.Proofs.EigenRank.

Section TwoBases.
Context {F : Type} {OF : Ops F} {L : Laws OF} {OL : OrdLaws OF}.
Local Open Scope F_scope.
Add Field FFeu : (fth (O:=OF)).

Lemma sumf_mul n m (f g : nat -> F) : sumf n f * sumf m g = sumf n (fun i => sumf m (fun j => f i * g j)).
Proof. rewrite <- sumf_scale_r. apply sumf_ext; intros i _. rewrite <- sumf_scale. reflexivity. Qed.
Lemma delta_conj (a b : nat) : conj (if (a =? b)%nat then (1 : F) else 0) = if (a =? b)%nat then 1 else 0.
Proof. destruct (a =? b)%nat; [apply conj_1|apply conj_0]. Qed.

(* two orthonormal, complete families of P vectors (the columns of two unitary matrices) *)
Variables (P : nat) (v w : nat -> nat -> F).
Hypothesis Hvc : forall m m', (m < P)%nat -> (m' < P)%nat -> sumf P (fun I => v I m * conj (v I m')) = if (m =? m')%nat then 1 else 0.
Hypothesis Hwo : forall I J, (I < P)%nat -> (J < P)%nat -> sumf P (fun m => conj (w I m) * w J m) = if (I =? J)%nat then 1 else 0.
Hypothesis Hwc : forall m m', (m < P)%nat -> (m' < P)%nat -> sumf P (fun I => w I m * conj (w I m')) = if (m =? m')%nat then 1 else 0.

(* C = W^H V *)
Definition cmat (J I : nat) : F := sumf P (fun k => conj (w J k) * v I k).

Lemma expand_v I k : (k < P)%nat -> v I k = sumf P (fun J => cmat J I * w J k).
Proof.
  intros Hk. unfold cmat.
  transitivity (sumf P (fun m => v I m * sumf P (fun J => w J k * conj (w J m)))).
  - rewrite (sumf_single P k); [|exact Hk|].
    + rewrite (Hwc k k Hk Hk), Nat.eqb_refl. ring.
    + intros m Hm Hne. rewrite (Hwc k m Hk Hm). destruct (Nat.eqb_spec k m); [congruence|ring].
  - transitivity (sumf P (fun m => sumf P (fun J => conj (w J m) * v I m * w J k))).
    + apply sumf_ext; intros m _. rewrite <- sumf_scale. apply sumf_ext; intros J _. ring.
    + rewrite sumf_exch. apply sumf_ext; intros J _. rewrite sumf_scale_r. reflexivity.
Qed.
Lemma expand_w J k : (k < P)%nat -> w J k = sumf P (fun I => conj (cmat J I) * v I k).
Proof.
  intros Hk. unfold cmat.
  transitivity (sumf P (fun m => w J m * sumf P (fun I => v I k * conj (v I m)))).
  - rewrite (sumf_single P k); [|exact Hk|].
    + rewrite (Hvc k k Hk Hk), Nat.eqb_refl. ring.
    + intros m Hm Hne. rewrite (Hvc k m Hk Hm). destruct (Nat.eqb_spec k m); [congruence|ring].
  - transitivity (sumf P (fun m => sumf P (fun I => conj (conj (w J m) * v I m) * v I k))).
    + apply sumf_ext; intros m _. rewrite <- sumf_scale. apply sumf_ext; intros I _. rewrite conj_mul, conj_conj. ring.
    + rewrite sumf_exch. apply sumf_ext; intros I _. rewrite sumf_scale_r, sumf_conj. reflexivity.
Qed.

(* weights attached to the two families that agree wherever the families are not orthogonal *)
Variables (g1 g2 : nat -> F).
Hypothesis Hg : forall I J, (I < P)%nat -> (J < P)%nat -> g1 I * cmat J I = g2 J * cmat J I.

(* sum_I g1_I v_I v_I^H = sum_J g2_J w_J w_J^H *)
Lemma weighted_entries m m' : (m < P)%nat -> (m' < P)%nat ->
  sumf P (fun I => g1 I * (v I m * conj (v I m'))) = sumf P (fun J => g2 J * (w J m * conj (w J m'))).
Proof.
  intros Hm Hm'.
  transitivity (sumf P (fun I => sumf P (fun J => g2 J * w J m * (cmat J I * conj (v I m'))))).
  - apply sumf_ext; intros I HI. rewrite (expand_v I m Hm).
    transitivity (sumf P (fun J => (g1 I * conj (v I m')) * (cmat J I * w J m))).
    + rewrite sumf_scale. ring.
    + apply sumf_ext; intros J HJ. transitivity (g1 I * cmat J I * (w J m * conj (v I m'))); [ring|].
      rewrite (Hg I J HI HJ). ring.
  - rewrite sumf_exch. apply sumf_ext; intros J _. rewrite sumf_scale.
    rewrite (expand_w J m' Hm'), sumf_conj.
    transitivity (g2 J * w J m * sumf P (fun I => cmat J I * conj (v I m'))); [reflexivity|].
    rewrite <- (Rmul_assoc (F_R (fth (O:=OF)))). do 2 f_equal.
    apply sumf_ext; intros I _. rewrite conj_mul, conj_conj. reflexivity.
Qed.
(* the weighted quadratic forms agree on every test vector t *)
Lemma qform_entries (u : nat -> nat -> F) (g t : nat -> F) :
  sumf P (fun I => g I * nrm2 (sumf P (fun m => u I m * t m)))
  = sumf P (fun m => sumf P (fun m' => (t m * conj (t m')) * sumf P (fun I => g I * (u I m * conj (u I m'))))).
Proof.
  transitivity (sumf P (fun I => sumf P (fun m => sumf P (fun m' => (t m * conj (t m')) * (g I * (u I m * conj (u I m'))))))).
  - apply sumf_ext; intros I _. unfold nrm2. rewrite sumf_conj, sumf_mul, <- sumf_scale.
    apply sumf_ext; intros m _. rewrite <- sumf_scale. apply sumf_ext; intros m' _. rewrite conj_mul. ring.
  - rewrite sumf_exch. apply sumf_ext; intros m _. rewrite sumf_exch. apply sumf_ext; intros m' _.
    rewrite sumf_scale. reflexivity.
Qed.
Theorem weighted_form_unique (t : nat -> F) :
  sumf P (fun I => g1 I * nrm2 (sumf P (fun m => v I m * t m))) = sumf P (fun J => g2 J * nrm2 (sumf P (fun m => w J m * t m))).
Proof.
  rewrite !qform_entries. apply sumf_ext; intros m Hm. apply sumf_ext; intros m' Hm'.
  rewrite (weighted_entries m m' Hm Hm'). reflexivity.
Qed.
End TwoBases.

Section SvdUnique.
Context {F : Type} {OF : Ops F} {L : Laws OF} {OL : OrdLaws OF}.
Local Open Scope F_scope.
Add Field FFeu2 : (fth (O:=OF)).

(* ---------- order helpers ---------- *)
Lemma sq_mono a b : nonneg b -> le b a -> le (b * b) (a * a).
Proof.
  intros Hb Hab. unfold le in *. apply (nonneg_eq ((a - b) * ((a - b) + (b + b)))); [ring|].
  apply nn_mul; [exact Hab|]. apply nn_add; [exact Hab|apply nn_add; exact Hb].
Qed.
Lemma sq_inj a b : nonneg a -> nonneg b -> a * a = b * b -> a = b.
Proof.
  intros Ha Hb E. destruct (eq0_dec (a + b)) as [E0|Hne].
  - destruct (nonneg_sum_zero a b Ha Hb E0) as [-> ->]. reflexivity.
  - assert (E1 : (a + b) * (a - b) = 0) by (transitivity (a * a - b * b); [ring|rewrite E; ring]).
    pose proof (mul_cancel_l (a + b) (a - b) E1 Hne) as E2. transitivity (a - b + b); [ring|rewrite E2; ring].
Qed.
Lemma pos_neq a b : lt a b -> b <> a.
Proof. intros [_ Hne] E. apply Hne. rewrite E. ring. Qed.
Lemma lt_le_trans a b c : lt a b -> le b c -> lt a c.
Proof.
  unfold lt, le. intros H1 H2. destruct (pos_add_nonneg _ _ H1 H2) as [Hn Hz].
  split; [apply (nonneg_eq (b - a + (c - b))); [ring|exact Hn]|]. intros E. apply Hz. rewrite <- E. ring.
Qed.
Lemma le_lt_trans a b c : le a b -> lt b c -> lt a c.
Proof.
  unfold lt, le. intros H1 H2. destruct (pos_add_nonneg _ _ H2 H1) as [Hn Hz].
  split; [apply (nonneg_eq (c - b + (b - a))); [ring|exact Hn]|]. intros E. apply Hz. rewrite <- E. ring.
Qed.

Variables (FB : list (list F)) (rows P : nat).

(* <FB u, FB v_I> = S_I^2 <u, v_I> *)
Lemma gram_form S Vh I (u : nat -> F) : gram_eq FB rows P S Vh I ->
  sumf rows (fun r => conj (mv FB P u r) * mv FB P (rsv Vh I) r)
  = nthF S I * nthF S I * sumf P (fun k => conj (u k) * rsv Vh I k).
Proof.
  intros Hg.
  transitivity (sumf P (fun k => conj (u k) * sumf rows (fun r => conj (mat FB r k) * mv FB P (rsv Vh I) r))).
  - transitivity (sumf rows (fun r => sumf P (fun k => conj (u k) * (conj (mat FB r k) * mv FB P (rsv Vh I) r)))).
    + apply sumf_ext; intros r _. unfold mv at 1. rewrite sumf_conj, <- sumf_scale_r.
      apply sumf_ext; intros k _. rewrite conj_mul. ring.
    + rewrite sumf_exch. apply sumf_ext; intros k _. rewrite sumf_scale. reflexivity.
  - rewrite <- sumf_scale. apply sumf_ext; intros k Hk. rewrite (Hg k Hk). ring.
Qed.

Variables (S S2 : list F) (Vh Vh2 : list (list F)).
Hypothesis H1 : svd_spec FB rows P S Vh.
Hypothesis H2 : svd_spec FB rows P S2 Vh2.

Let cm := cmat P (rsv Vh) (rsv Vh2).
Lemma S_real I : (I < P)%nat -> conj (nthF S I) = nthF S I.
Proof. intros HI. apply nn_real, (svd_nonneg _ _ _ _ _ H1). exact HI. Qed.
Lemma S2_real J : (J < P)%nat -> conj (nthF S2 J) = nthF S2 J.
Proof. intros HJ. apply nn_real, (svd_nonneg _ _ _ _ _ H2). exact HJ. Qed.

(* FB^H FB is Hermitian: vectors belonging to different singular values are orthogonal *)
Lemma cross_eig I J : (I < P)%nat -> (J < P)%nat ->
  nthF S I * nthF S I * cm J I = nthF S2 J * nthF S2 J * cm J I.
Proof.
  intros HI HJ.
  pose proof (gram_form S Vh I (rsv Vh2 J) (svd_gram _ _ _ _ _ H1 I HI)) as EA.
  pose proof (gram_form S2 Vh2 J (rsv Vh I) (svd_gram _ _ _ _ _ H2 J HJ)) as EB.
  fold (cmat P (rsv Vh) (rsv Vh2) J I) in EA. fold cm in EA.
  assert (EC : sumf P (fun k => conj (rsv Vh I k) * rsv Vh2 J k) = conj (cm J I)).
  { unfold cm, cmat. rewrite sumf_conj. apply sumf_ext; intros k _. rewrite conj_mul, conj_conj. ring. }
  rewrite EC in EB.
  assert (ED : sumf rows (fun r => conj (mv FB P (rsv Vh I) r) * mv FB P (rsv Vh2 J) r)
               = conj (sumf rows (fun r => conj (mv FB P (rsv Vh2 J) r) * mv FB P (rsv Vh I) r))).
  { rewrite sumf_conj. apply sumf_ext; intros r _. rewrite conj_mul, conj_conj. ring. }
  rewrite ED, EA in EB.
  rewrite <- (conj_conj (nthF S I * nthF S I * cm J I)), EB, !conj_mul, conj_conj, (S2_real J HJ).
  reflexivity.
Qed.
Lemma cross_zero I J : (I < P)%nat -> (J < P)%nat -> nthF S I * nthF S I <> nthF S2 J * nthF S2 J -> cm J I = 0.
Proof.
  intros HI HJ Hne. apply (mul_cancel_l (nthF S I * nthF S I - nthF S2 J * nthF S2 J)).
  - transitivity (nthF S I * nthF S I * cm J I - nthF S2 J * nthF S2 J * cm J I); [ring|]. rewrite (cross_eig I J HI HJ). ring.
  - intros E. apply Hne. transitivity (nthF S I * nthF S I - nthF S2 J * nthF S2 J + nthF S2 J * nthF S2 J); [ring|rewrite E; ring].
Qed.
End SvdUnique.

Section Values.
Context {F : Type} {OF : Ops F} {L : Laws OF} {OL : OrdLaws OF}.
Local Open Scope F_scope.
Add Field FFeu3 : (fth (O:=OF)).

(* S_t^2 > S2_t^2 is impossible: v_0 .. v_t would be t+1 orthonormal vectors in the span of w_0 .. w_{t-1} *)
Lemma no_excess (FB : list (list F)) rows P S S2 Vh Vh2 t :
  svd_spec FB rows P S Vh -> svd_spec FB rows P S2 Vh2 -> (t < P)%nat ->
  ~ lt (nthF S2 t * nthF S2 t) (nthF S t * nthF S t).
Proof.
  intros H1 H2 Ht Hlt.
  assert (Hz : forall I J, (I <= t)%nat -> (t <= J)%nat -> (J < P)%nat -> cmat P (rsv Vh) (rsv Vh2) J I = 0).
  { intros I J HI HJ HJP. apply (cross_zero FB rows P S S2 Vh Vh2 H1 H2 I J); [lia|exact HJP|].
    apply pos_neq. apply (le_lt_trans _ (nthF S2 t * nthF S2 t)).
    - apply sq_mono; [apply (svd_nonneg _ _ _ _ _ H2); exact HJP|apply (svd_sorted _ _ _ _ _ H2 t J HJ HJP)].
    - apply (lt_le_trans _ (nthF S t * nthF S t)); [exact Hlt|].
      apply sq_mono; [apply (svd_nonneg _ _ _ _ _ H1); exact Ht|apply (svd_sorted _ _ _ _ _ H1 I t HI Ht)]. }
  destruct (span_dependent t P (fun j k => rsv Vh j k) (fun j i => cmat P (rsv Vh) (rsv Vh2) i j) (fun i k => rsv Vh2 i k))
    as (a & (j & Hj & Haj) & Hdep).
  - intros j k Hj Hk. rewrite (expand_v P (rsv Vh) (rsv Vh2) (svd_complete _ _ _ _ _ H2) j k Hk) at 1.
    apply sumf_le_ext; [lia|]. intros i Hi. rewrite (Hz j i Hj) by lia. ring.
  - apply Haj. apply (orthonormal_independent (Datatypes.S t) P (fun j k => rsv Vh j k) a); [|exact Hdep|lia].
    intros I J HI HJ. apply (svd_unitary _ _ _ _ _ H1); lia.
Qed.

(* the singular values are determined by the matrix *)
Theorem svd_values_unique_thm (FB : list (list F)) rows P S S2 Vh Vh2 :
  svd_spec FB rows P S Vh -> svd_spec FB rows P S2 Vh2 -> forall t, (t < P)%nat -> nthF S t = nthF S2 t.
Proof.
  intros H1 H2 t Ht.
  assert (Hr : conj (nthF S t) = nthF S t) by (apply nn_real, (svd_nonneg _ _ _ _ _ H1); exact Ht).
  assert (Hr2 : conj (nthF S2 t) = nthF S2 t) by (apply nn_real, (svd_nonneg _ _ _ _ _ H2); exact Ht).
  apply sq_inj; [apply (svd_nonneg _ _ _ _ _ H1); exact Ht|apply (svd_nonneg _ _ _ _ _ H2); exact Ht|].
  set (la := nthF S t * nthF S t). set (mu := nthF S2 t * nthF S2 t).
  assert (Hd : conj (la - mu) = la - mu) by (unfold la, mu; rewrite conj_sub, !conj_mul, Hr, Hr2; reflexivity).
  assert (Hd2 : conj (mu - la) = mu - la) by (unfold la, mu; rewrite conj_sub, !conj_mul, Hr, Hr2; reflexivity).
  destruct (real_cases (la - mu) Hd) as [Hp|Hn]; [exfalso; apply (no_excess FB rows P S S2 Vh Vh2 t H1 H2 Ht); exact Hp|].
  destruct (real_cases (mu - la) Hd2) as [Hp|Hn2]; [exfalso; apply (no_excess FB rows P S2 S Vh2 Vh t H2 H1 Ht); exact Hp|].
  assert (E : la - mu = 0).
  { apply nn_antisym; [apply (nonneg_eq (- (mu - la))); [ring|exact Hn2]|exact Hn]. }
  transitivity (la - mu + mu); [ring|rewrite E; ring].
Qed.
Theorem svd_values_list_unique_thm (FB : list (list F)) rows P S S2 Vh Vh2 :
  svd_spec FB rows P S Vh -> svd_spec FB rows P S2 Vh2 -> S = S2.
Proof.
  intros H1 H2. apply list_eq_nth; [rewrite (svd_len _ _ _ _ _ H1), (svd_len _ _ _ _ _ H2); reflexivity|].
  intros t Ht. rewrite (svd_len _ _ _ _ _ H1) in Ht. apply (svd_values_unique_thm FB rows P S S2 Vh Vh2 H1 H2 t Ht).
Qed.
End Values.

Section FormUnique.
Context {F : Type} {OF : Ops F} {L : Laws OF} {OL : OrdLaws OF}.
Local Open Scope F_scope.
Add Field FFeu4 : (fth (O:=OF)).

(* the noise subspace is determined by the matrix: the last signal singular value is strictly larger than the first noise one
   (nothing to require when every vector (NSIG = 0) or none (NSIG >= P) is a noise vector) *)
Definition noise_gap (S : list F) (P ns : nat) : Prop := (0 < ns < P)%nat -> lt (nthF S ns) (nthF S (ns - 1)).

(* weight of vector I in the form: 0 outside the noise subspace *)
Definition gw (meth : method_arg) (eps : F) (S : list F) (ns I : nat) : F :=
  if (ns <=? I)%nat then weight meth eps S I else 0.

Lemma dform_as_weighted meth eps (tw : Z -> F) P S Vh ns b :
  dform meth eps tw P S Vh ns b
  = sumf P (fun I => gw meth eps S ns I * nrm2 (sumf P (fun m => rsv Vh I m * tw (Z.of_nat m * b)%Z))).
Proof.
  unfold dform. destruct (Nat.le_gt_cases ns P) as [Hle|Hgt].
  - assert (E : forall f : nat -> F, sumf P f = sumf ns f + sumf (P - ns) (fun t => f (ns + t)%nat)).
    { intros f. replace P with (ns + (P - ns))%nat at 1 by lia. apply sumf_split. }
    rewrite E. rewrite (sumf_zero_ext ns).
    2:{ intros I HI. unfold gw. destruct (Nat.leb_spec ns I); [lia|ring]. }
    transitivity (sumf (P - ns) (fun t => gw meth eps S ns (ns + t) * nrm2 (sumf P (fun m => rsv Vh (ns + t) m * tw (Z.of_nat m * b)%Z)))); [|ring].
    apply sumf_ext; intros t _. unfold gw. destruct (Nat.leb_spec ns (ns + t)); [|lia]. unfold dftN. ring.
  - replace (P - ns)%nat with O by lia. cbn [sumf]. symmetry. apply sumf_zero_ext; intros I HI.
    unfold gw. destruct (Nat.leb_spec ns I); [lia|ring].
Qed.

Variables (FB : list (list F)) (rows P : nat) (S : list F) (Vh Vh2 : list (list F)).
Hypothesis H1 : svd_spec FB rows P S Vh.
Hypothesis H2 : svd_spec FB rows P S Vh2.

Lemma gw_agree meth eps ns I J : noise_gap S P ns -> (I < P)%nat -> (J < P)%nat ->
  gw meth eps S ns I * cmat P (rsv Vh) (rsv Vh2) J I = gw meth eps S ns J * cmat P (rsv Vh) (rsv Vh2) J I.
Proof.
  intros Hgap HI HJ. destruct (eq0_dec (cmat P (rsv Vh) (rsv Vh2) J I)) as [E|Hne]; [rewrite E; ring|].
  assert (Esq : nthF S I * nthF S I = nthF S J * nthF S J).
  { destruct (eq0_dec (nthF S I * nthF S I - nthF S J * nthF S J)) as [E|Hd].
    - transitivity (nthF S I * nthF S I - nthF S J * nthF S J + nthF S J * nthF S J); [ring|rewrite E; ring].
    - exfalso. apply Hne. apply (cross_zero FB rows P S S Vh Vh2 H1 H2 I J HI HJ). intros E. apply Hd. rewrite E. ring. }
  assert (ES : nthF S I = nthF S J).
  { apply sq_inj; [apply (svd_nonneg _ _ _ _ _ H1); exact HI|apply (svd_nonneg _ _ _ _ _ H1); exact HJ|exact Esq]. }
  f_equal. unfold gw.
  assert (Ew : weight meth eps S I = weight meth eps S J) by (unfold weight, sfloor; rewrite ES; reflexivity).
  assert (Hmix : forall A B, (A < P)%nat -> (B < P)%nat -> (ns <= A)%nat -> (B < ns)%nat -> nthF S A = nthF S B -> False).
  { intros A B HA HB HnA HBn EAB.
    assert (Hlt : lt (nthF S A) (nthF S B)).
    { apply (le_lt_trans _ (nthF S ns)); [apply (svd_sorted _ _ _ _ _ H1 ns A HnA HA)|].
      apply (lt_le_trans _ (nthF S (ns - 1))); [apply Hgap; lia|apply (svd_sorted _ _ _ _ _ H1 B (ns - 1)); lia]. }
    apply (pos_neq _ _ Hlt). symmetry. exact EAB. }
  destruct (Nat.leb_spec ns I) as [HnI|HIn]; destruct (Nat.leb_spec ns J) as [HnJ|HJn]; try reflexivity; try exact Ew.
  - exfalso. apply (Hmix I J HI HJ HnI HJn ES).
  - exfalso. apply (Hmix J I HJ HI HnJ HIn). symmetry. exact ES.
Qed.
End FormUnique.

Section FormUnique2.
Context {F : Type} {OF : Ops F} {L : Laws OF} {OL : OrdLaws OF}.
Local Open Scope F_scope.

(* the MUSIC / EV denominators do not depend on which pair meeting the specification is used *)
Theorem dform_unique_thm (FB : list (list F)) rows P S S2 Vh Vh2 meth eps (tw : Z -> F) ns b :
  svd_spec FB rows P S Vh -> svd_spec FB rows P S2 Vh2 -> noise_gap S P ns ->
  dform meth eps tw P S Vh ns b = dform meth eps tw P S2 Vh2 ns b.
Proof.
  intros H1 H2 Hgap. pose proof (svd_values_list_unique_thm FB rows P S S2 Vh Vh2 H1 H2) as ES. subst S2.
  rewrite !dform_as_weighted.
  apply (weighted_form_unique P (rsv Vh) (rsv Vh2) (svd_complete _ _ _ _ _ H1) (svd_complete _ _ _ _ _ H2)
           (gw meth eps S ns) (gw meth eps S ns)).
  intros I J HI HJ. apply (gw_agree FB rows P S Vh Vh2 H1 H2 meth eps ns I J Hgap HI HJ).
Qed.
End FormUnique2.

(* ====================== on the model functions ====================== *)
Section EigenUnique.
Context {F : Type} {OF : Ops F} {L : Laws OF} {OL : OrdLaws OF}.
Local Open Scope F_scope.
Variables (tw : Z -> F) (NFFT : nat).
Context {T : Twiddle NFFT tw}.
Hypothesis Hpos : (0 < NFFT)%nat.

Theorem pseudo_unique_thm (FB : list (list F)) rows P S S2 Vh Vh2 meth eps ns :
  svd_spec FB rows P S Vh -> svd_spec FB rows P S2 Vh2 -> noise_gap S P ns -> (ns < P -> P <= NFFT)%nat ->
  pseudo meth eps tw NFFT P S Vh ns = pseudo meth eps tw NFFT P S2 Vh2 ns.
Proof.
  intros H1 H2 Hgap HP. apply list_eq_nth; [rewrite !(pseudo_length tw NFFT); reflexivity|].
  intros k Hk. rewrite (pseudo_length tw NFFT) in Hk.
  rewrite (nth_pseudo tw NFFT Hpos meth eps P S Vh (svd_shape _ _ _ _ _ H1) ns k Hk HP).
  rewrite (nth_pseudo tw NFFT Hpos meth eps P S2 Vh2 (svd_shape _ _ _ _ _ H2) ns k Hk HP).
  f_equal. apply (dform_unique_thm FB rows P S S2 Vh Vh2 meth eps tw ns _ H1 H2 Hgap).
Qed.

(* the gap condition at the subspace dimension the call decides on (explicit NSIG, threshold rule or AIC/MDL index) *)
Definition gap_at_choice (meth : method_arg) nsig (thr : option F) crit amin (N P : nat) (S : list F) : Prop :=
  forall ns, eigen_nsig meth nsig thr crit amin N P NFFT S = inr ns -> noise_gap S P ns.

(* eigen() / music() / ev() return the same pseudo-spectrum and singular values whichever factorisation svd returned *)
Theorem eigen_unique_thm (FB : list (list F)) rows meth eps nsig thr crit amin (x : list F) P S S2 Vh Vh2 :
  svd_spec FB rows P S Vh -> svd_spec FB rows P S2 Vh2 ->
  gap_at_choice meth nsig thr crit amin (length x) P S ->
  eigen meth eps nsig thr crit amin tw NFFT x P S Vh = eigen meth eps nsig thr crit amin tw NFFT x P S2 Vh2.
Proof.
  intros H1 H2 Hgap. pose proof (svd_values_list_unique_thm FB rows P S S2 Vh Vh2 H1 H2) as ES.
  unfold eigen. rewrite <- ES.
  destruct (eigen_nsig meth nsig thr crit amin (length x) P NFFT S) as [e|ns] eqn:E; [reflexivity|].
  destruct (signal_space_choice_thm _ _ _ _ _ _ _ _ _ _ E) as (_ & _ & HP & _).
  do 3 f_equal. rewrite ES at 2. apply (pseudo_unique_thm FB rows P S S2 Vh Vh2 meth eps ns H1 H2 (Hgap ns E) HP).
Qed.
Theorem pclass_unique_thm (FB : list (list F)) rows meth eps isr scale nsig thr crit amin (x : list F) P S S2 Vh Vh2 :
  svd_spec FB rows P S Vh -> svd_spec FB rows P S2 Vh2 ->
  gap_at_choice meth nsig thr crit amin (length x) P S ->
  pclass meth eps isr scale nsig thr crit amin tw NFFT x P S Vh = pclass meth eps isr scale nsig thr crit amin tw NFFT x P S2 Vh2.
Proof.
  intros H1 H2 Hgap. unfold pclass. rewrite (eigen_unique_thm FB rows meth eps nsig thr crit amin x P S S2 Vh Vh2 H1 H2 Hgap). reflexivity.
Qed.
End EigenUnique.
