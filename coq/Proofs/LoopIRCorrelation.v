(* CORRELATION: the IR program generated from correlation.py computes the hand-written model, for ALL inputs.

   [prog_CORRELATION_ref] is the loop-IR program that tools/props/_loopir.py generates from the source of
   spectrum.correlation.CORRELATION at the commit this file was written for (kept verbatim below as
   [prog_CORRELATION_gen0], between the BEGIN/END markers, and proved equal to the decomposed definition by
   reflexivity).  On every run the check regenerates the program; if its text is the one below, the generated file
   proves [prog_CORRELATION = prog_CORRELATION_ref] by reflexivity and instantiates the theorems of this file.

   Arguments as the tie passes them (Model/LoopIRTie.tie_correlation): x with its dtype tag, y omitted or an array
   with its tag, maxlags omitted or an int (ANY integer, negative ones included), norm omitted / None / any string,
   the two oracle slots for pylab_rms_flat (any field values).

   PROVED (abstract field with conjugation [Laws], any x, y -- empty ones and unequal lengths included):
     correlation_ir_run      run prog_CORRELATION_ref = [corr_outcome (negb (rx && ry))]:
                               norm not in {'unbiased','biased','coeff',None}  -> AssertionError
                               else maxlags >= N = max(len x, len y)            -> AssertionError
                               else maxlags < 0 (given so, or omitted with N=0) -> ValueError   (numpy.zeros(negative))
                               else ORet [array tagged (rx && ry) = gcorrelation c (rmsx*rmsy) x y maxlags norm]
                             where [gcorrelation c] is the model with [conj] replaced by [cj c] (c = true: conj itself;
                             c = false: identity = what the realdata branch, which does not conjugate, computes)
     correlation_ir_complex  one of the two arrays declared complex: run = Model.Corr.correlation (unconditionally)
     correlation_ir_real     both arrays declared float: run = Model.Corr.correlation provided the second array (x itself
                             when y is omitted) is real-valued (conj y_j = y_j)
     correlation_ir          the two together: (rx && ry = true -> y real-valued) -> run = the model's outcome
     correlation_ir_tie      for every reflexive [feq]: the boolean [tie_correlation] of the exact evaluation tie is
                             true for ALL inputs of its domain (so a sampled exact case can never fail for this text)
   NOT PROVED: nothing is left out within the IR semantics.  A float-tagged array holding non-real entries is not a
   numpy value (the IR would not conjugate it, the model does): excluded by hypothesis in correlation_ir_real. *)
From Coq Require Import String ZArith List Lia Bool.
Require Import Spectrum.Theory.Ops Spectrum.Theory.Sum Spectrum.Theory.Vec Spectrum.Model.LoopIR Spectrum.Model.Corr
               Spectrum.Model.LoopIRTie Spectrum.Proofs.LoopIRLevinson.
Import ListNotations.
Local Open Scope string_scope.

(* ---------------------------------------------------------------- the program, decomposed *)
Definition cor_inner (c : bool) : stmt :=
  SFor 14 (EInt 0) (EBin BAdd (EVar 12) (EInt 1)) (EInt 1)
    (SAssign 13 (EBin BAdd (EVar 13) (EBin BMul (EIndex (EVar 0) (EBin BAdd (EVar 14) (EVar 11))) (cjw c (EIndex (EVar 1) (EVar 14)))))).

Definition cor_sum : stmt :=
  SIf (EIsBool true (EVar 7))
    (SSeq (SAssign 13 (EInt 0)) (cor_inner false))
    (SSeq (SAssign 13 (EBin BAdd (ELit 0 0) (ELit 0 0))) (cor_inner true)).

Definition cor_norm : stmt :=
  SIf (ECmp CEq (EVar 11) (EInt 0))
    (SIf (EOr (ECmp CEq (EVar 3) (EStr "biased")) (ECmp CEq (EVar 3) (EStr "unbiased")))
       (SAssign 15 (EBin BDiv (EVar 13) (EFloat (EVar 6))))
       (SIf (EIsNone (EVar 3))
          (SAssign 15 (EVar 13))
          (SAssign 15 (ELit 1 0))))
    (SIf (ECmp CEq (EVar 3) (EStr "unbiased"))
       (SStore 8 (EBin BSub (EVar 11) (EInt 1)) (EBin BDiv (EVar 13) (EFloat (EBin BSub (EVar 6) (EVar 11)))))
       (SIf (ECmp CEq (EVar 3) (EStr "biased"))
          (SStore 8 (EBin BSub (EVar 11) (EInt 1)) (EBin BDiv (EVar 13) (EFloat (EVar 6))))
          (SIf (EIsNone (EVar 3))
             (SStore 8 (EBin BSub (EVar 11) (EInt 1)) (EVar 13))
             (SIf (ECmp CEq (EVar 3) (EStr "coeff"))
                (SStore 8 (EBin BSub (EVar 11) (EInt 1)) (EBin BDiv (EBin BDiv (EVar 13) (EBin BMul (EVar 9) (EVar 10))) (EFloat (EVar 6))))
                SSkip)))).

Definition cor_body : stmt :=
  SSeq (SAssign 12 (EBin BSub (EBin BSub (EVar 6) (EVar 11)) (EInt 1)))
  (SSeq cor_sum cor_norm).

Definition cor_assert_norm : stmt :=
  SAssert (EOr (ECmp CEq (EVar 3) (EStr "unbiased")) (EOr (ECmp CEq (EVar 3) (EStr "biased")) (EOr (ECmp CEq (EVar 3) (EStr "coeff")) (ECmp CEq (EVar 3) ENone)))).
Definition cor_sety : stmt := SIf (EIsNone (EVar 1)) (SAssign 1 (EVar 0)) (SAssign 1 (ECopy (EVar 1))).
Definition cor_pad (v : nat) : stmt :=
  SIf (ECmp CLt (ELen (EVar v)) (EVar 6)) (SSeq (SAssign v (ECopy (EVar v))) (SResize v (EVar 6))) SSkip.
Definition cor_maxlags : stmt := SIf (EIsNone (EVar 2)) (SAssign 2 (EBin BSub (EVar 6) (EInt 1))) SSkip.
Definition cor_alloc : stmt := SIf (EIsBool true (EVar 7)) (SAssign 8 (EZeros (EVar 2) true)) (SAssign 8 (EZeros (EVar 2) false)).
Definition cor_rms : stmt := SIf (ECmp CEq (EVar 3) (EStr "coeff")) (SSeq (SAssign 9 (EVar 4)) (SAssign 10 (EVar 5))) SSkip.
Definition cor_loop : stmt := SFor 11 (EInt 0) (EBin BAdd (EVar 2) (EInt 1)) (EInt 1) cor_body.

Definition cor_main : stmt :=
  SSeq cor_assert_norm
  (SSeq (SAssign 0 (ECopy (EVar 0)))
  (SSeq cor_sety
  (SSeq (SAssign 6 (EMax (ELen (EVar 0)) (ELen (EVar 1))))
  (SSeq (cor_pad 0)
  (SSeq (cor_pad 1)
  (SSeq cor_maxlags
  (SSeq (SAssert (ECmp CLt (EVar 2) (EVar 6)))
  (SSeq (SAssign 7 (EAnd (EIsRealObj (EVar 0)) (EIsRealObj (EVar 1))))
  (SSeq cor_alloc
  (SSeq cor_rms
  (SSeq cor_loop
  (SSeq (SAssign 8 (EInsert (EVar 8) (EInt 0) (EVar 15)))
        (SReturn [(EVar 8)]))))))))))))).

Definition prog_CORRELATION_ref : program :=
  mkProgram "CORRELATION" 6 [None; (Some ENone); (Some ENone); (Some (EStr "unbiased")); None; None] 16 cor_main.

(* ---------------------------------------------------------------- the model with [cj c] in place of [conj] *)
Section GModel.
Context {F : Type} {OF : Ops F}.
Local Open Scope F_scope.

Definition glag_sum (c : bool) (N : nat) (x y : list F) (k : nat) : F :=
  sumL (mk (N - k) (fun j => nthF x (j + k) * cj c (nthF y j))).
(* the normalisation of the lag sum [s] at lag [k] *)
Definition nentry (nm : cnorm) (rmsprod : F) (N : nat) (s : F) (k : nat) : F :=
  match k, nm with
  | O, Biased | O, Unbiased => s / ofnat N
  | O, NoNorm => s
  | O, Coeff => 1
  | S _, Unbiased => s / ofnat (N - k)
  | S _, Biased => s / ofnat N
  | S _, NoNorm => s
  | S _, Coeff => s / rmsprod / ofnat N
  end.
Definition gentry (c : bool) (rmsprod : F) (N : nat) (x y : list F) (nm : cnorm) (k : nat) : F :=
  nentry nm rmsprod N (glag_sum c N x y k) k.
Definition gcorrelation (c : bool) (rmsprod : F) (x y : list F) (maxlags : nat) (nm : cnorm) : option (list F) :=
  let N := Nat.max (length x) (length y) in
  if (maxlags <? N)%nat then Some (mk (S maxlags) (gentry c rmsprod N x y nm)) else None.

Lemma gcorrelation_true rp x y ml nm : gcorrelation true rp x y ml nm = correlation rp x y ml nm.
Proof.
  unfold gcorrelation, correlation. destruct (ml <? Nat.max (length x) (length y))%nat; reflexivity.
Qed.

(* the outcome of the call: what the code does with its arguments, in terms of the (generalised) model.
   [None] from the model (maxlags >= N) is the AssertionError of the code; a negative maxlags (given so, or N - 1 = -1
   for two empty arrays) passes the assertion and fails in numpy.zeros(maxlags): ValueError. *)
Definition corr_outcome (c : bool) (rr : bool) (x yl : list F) (maxlags : option Z) (nm : option (option string)) (rmsx rmsy : F)
  : @outcome F :=
  let N := Nat.max (length x) (length yl) in
  let ml := match maxlags with Some m => m | None => (Z.of_nat N - 1)%Z end in
  match norm_of nm with
  | None => OErr AssertionError
  | Some cn =>
      if (ml <? 0)%Z then OErr ValueError
      else match gcorrelation c (rmsx * rmsy) x yl (Z.to_nat ml) cn with
           | Some r => ORet [VArr rr r]
           | None => OErr AssertionError
           end
  end.
(* the same with the hand-written model itself *)
Definition corr_model_outcome (rr : bool) (x yl : list F) (maxlags : option Z) (nm : option (option string)) (rmsx rmsy : F)
  : @outcome F :=
  let N := Nat.max (length x) (length yl) in
  let ml := match maxlags with Some m => m | None => (Z.of_nat N - 1)%Z end in
  match norm_of nm with
  | None => OErr AssertionError
  | Some cn =>
      if (ml <? 0)%Z then OErr ValueError
      else match correlation (rmsx * rmsy) x yl (Z.to_nat ml) cn with
           | Some r => ORet [VArr rr r]
           | None => OErr AssertionError
           end
  end.
End GModel.

(* ---------------------------------------------------------------- symbolic execution *)
Section Exec.
Context {F : Type} {OF : Ops F} {L : Laws OF}.
Variable feq : F -> F -> bool.
Variable stop : Z -> F -> F -> bool.
Local Open Scope F_scope.
Add Field FFirc : (fth (O:=OF)).
Notation value := (@value F).
Notation store := (@store F).
Notation exec := (@exec F OF feq stop).
Notation eval := (@eval F OF feq).

Definition cst (x y ml nm ox oy N rd r rx ry k nk sm j r0 : value) : store :=
  [x; y; ml; nm; ox; oy; N; rd; r; rx; ry; k; nk; sm; j; r0].

Ltac ev := cbn [LoopIR.exec LoopIR.eval get set nth cst bind try asZ asArr asF ok err fst snd arith arithZ fop compare cmpF cmpZ eqne truthy eval_list cjw].

Lemma ofZ_of_nat n : @ofZ F OF (Z.of_nat n) = ofnat n.
Proof. destruct n; [reflexivity|]. cbn [Z.of_nat ofZ]. rewrite SuccNat2Pos.id_succ. reflexivity. Qed.
Lemma lit_0 : @lit F OF 0 0 = 0.
Proof. reflexivity. Qed.

Lemma resize_length (l : list F) n : length (resize l n) = n.
Proof. apply mk_length. Qed.
Lemma resize_id (l : list F) : resize l (length l) = l.
Proof. unfold resize. symmetry. apply list_eq_mk. Qed.
Lemma nthF_resize (l : list F) n j : (j < n)%nat -> nthF (resize l n) j = nthF l j.
Proof. intros H. unfold resize. apply nth_mk. exact H. Qed.

(* the accumulator of the inner loop: the initial value (an int 0 in the realdata branch) until the first product is added *)
Definition acc (v0 : value) (s0 : F) (g : nat -> F) (i : nat) : value :=
  match i with O => v0 | S _ => VF (lsum i g s0) end.

Lemma cor_inner_ok c tx X ty Y vml vnm vox voy vN vrd vr vrx vry k nk n v0 s0 vj vr0 :
  (n + k <= length X)%nat -> (n <= length Y)%nat -> (nk + 1 = Z.of_nat n)%Z ->
  (v0 = VI 0 /\ s0 = 0 \/ v0 = VF s0) ->
  let g := fun j => nthF X (j + k) * cj c (nthF Y j) in
  exists vj',
    exec (cor_inner c) (cst (VArr tx X) (VArr ty Y) vml vnm vox voy vN vrd vr vrx vry (VI (Z.of_nat k)) (VI nk) v0 vj vr0)
    = (cst (VArr tx X) (VArr ty Y) vml vnm vox voy vN vrd vr vrx vry (VI (Z.of_nat k)) (VI nk) (acc v0 s0 g n) vj' vr0, CNormal).
Proof.
  intros HX HY Hnk Hv0 g. unfold cor_inner.
  cbn [LoopIR.exec LoopIR.eval get nth cst bind try asZ ok arith arithZ].
  rewrite Hnk, range_vals_nat. cbn [try].
  match goal with |- exists vj', (let (st', c) := for_loop ?f ?x _ ?st in _) = _ =>
    destruct (for_loop_inv f x
      (fun i s => exists vj', s = cst (VArr tx X) (VArr ty Y) vml vnm vox voy vN vrd vr vrx vry (VI (Z.of_nat k)) (VI nk) (acc v0 s0 g i) vj' vr0) n st)
      as [s' [E [vj' I']]]
  end.
  - exists vj. reflexivity.
  - intros i s Hi [vj' ->].
    destruct i as [|i']; [destruct Hv0 as [[-> ->]| ->]|]; destruct c; cbn [acc cst set cjw];
      cbn [LoopIR.exec LoopIR.eval try bind get nth ok asArr asZ arith arithZ fst snd];
      rewrite <- Nat2Z.inj_add, norm_index_nat by lia; cbn [bind ok];
      rewrite norm_index_nat by lia; cbn [bind ok arith asF fop try];
      (eexists; split; [reflexivity|]); eexists; cbn [cst set acc lsum ofZ]; unfold g, cj; reflexivity.
  - exists vj'. rewrite E, I'. reflexivity.
Qed.

Lemma cor_sum_ok c tx X ty Y vml vnm vox voy N vr vrx vry k vsm vj vr0 :
  length X = N -> length Y = N -> (k < N)%nat ->
  exists vj',
    exec cor_sum (cst (VArr tx X) (VArr ty Y) vml vnm vox voy (VI (Z.of_nat N)) (VB (negb c)) vr vrx vry (VI (Z.of_nat k))
                      (VI (Z.of_nat N - Z.of_nat k - 1)) vsm vj vr0)
    = (cst (VArr tx X) (VArr ty Y) vml vnm vox voy (VI (Z.of_nat N)) (VB (negb c)) vr vrx vry (VI (Z.of_nat k))
           (VI (Z.of_nat N - Z.of_nat k - 1)) (VF (glag_sum c N X Y k)) vj' vr0, CNormal).
Proof.
  intros HX HY Hk. unfold cor_sum.
  assert (Hn : (Z.of_nat N - Z.of_nat k - 1 + 1 = Z.of_nat (N - k))%Z) by lia.
  assert (Hres : forall z, z = 0 \/ z = 0 + 0 ->
            acc (VF z) z (fun j => nthF X (j + k) * cj c (nthF Y j)) (N - k) = VF (glag_sum c N X Y k)).
  { intros z Hz. destruct (N - k)%nat as [|n'] eqn:En; [lia|]. cbn [acc]. rewrite lsum_sumf. unfold glag_sum.
    rewrite sumL_mk, En. f_equal. destruct Hz as [-> | ->]; ring. }
  destruct c; cbn [negb].
  - (* complex branch *)
    ev. cbn [Bool.eqb].
    destruct (cor_inner_ok true tx X ty Y vml vnm vox voy (VI (Z.of_nat N)) (VB false) vr vrx vry k (Z.of_nat N - Z.of_nat k - 1) (N - k)
                (VF (lit 0 0 + lit 0 0)) (lit 0 0 + lit 0 0) vj vr0) as [vj' E]; try lia.
    { right. reflexivity. }
    cbv zeta in E. unfold cst in E |- *. rewrite E. exists vj'. rewrite Hres; [reflexivity|]. right. reflexivity.
  - (* realdata branch: no conjugate, the accumulator starts as the int 0 *)
    ev. cbn [Bool.eqb].
    destruct (cor_inner_ok false tx X ty Y vml vnm vox voy (VI (Z.of_nat N)) (VB true) vr vrx vry k (Z.of_nat N - Z.of_nat k - 1) (N - k)
                (VI 0) 0 vj vr0) as [vj' E]; try lia.
    { left. split; reflexivity. }
    cbv zeta in E. unfold cst in E |- *. rewrite E. exists vj'.
    rewrite <- (Hres 0) by (left; reflexivity).
    destruct (N - k)%nat as [|n'] eqn:En; [lia|]. reflexivity.
Qed.

(* ---- the norm argument *)
Definition vnorm (cn : cnorm) : value :=
  match cn with Unbiased => VStr "unbiased" | Biased => VStr "biased" | Coeff => VStr "coeff" | NoNorm => VNone end.
(* the slots rmsx, rmsy are bound only when norm == 'coeff' *)
Definition v9 (cn : cnorm) (z : F) : value := match cn with Coeff => VF z | _ => VUnbound end.

Ltac evs := cbn [LoopIR.exec LoopIR.eval get set nth cst bind try asZ asArr asF ok err fst snd arith arithZ fop compare cmpZ eqne truthy eval_list
                 vnorm v9 String.eqb Ascii.eqb Bool.eqb andb negb].

Lemma cor_norm_ok cn vx vy vml vox voy N rd tR R rmsx rmsy k vnk s vj vr0 :
  (k <= length R)%nat -> (k <= N)%nat ->
  exec cor_norm (cst vx vy vml (vnorm cn) vox voy (VI (Z.of_nat N)) rd (VArr tR R) (v9 cn rmsx) (v9 cn rmsy) (VI (Z.of_nat k)) vnk (VF s) vj vr0)
  = (cst vx vy vml (vnorm cn) vox voy (VI (Z.of_nat N)) rd
         (VArr tR (match k with O => R | S k' => updF R k' (nentry cn (rmsx * rmsy) N s k) end))
         (v9 cn rmsx) (v9 cn rmsy) (VI (Z.of_nat k)) vnk (VF s) vj
         (match k with O => VF (nentry cn (rmsx * rmsy) N s 0) | S _ => vr0 end), CNormal).
Proof.
  intros HR HN. unfold cor_norm. destruct k as [|k'].
  - destruct cn; evs; rewrite ?ofZ_of_nat, ?lit_1; reflexivity.
  - assert (E0 : (Z.of_nat (S k') =? 0)%Z = false) by (apply Z.eqb_neq; lia).
    assert (E1 : (Z.of_nat (S k') - 1)%Z = Z.of_nat k') by lia.
    assert (E2 : (Z.of_nat N - Z.of_nat (S k'))%Z = Z.of_nat (N - S k')) by lia.
    destruct cn; evs; rewrite E0; evs; rewrite E1, norm_index_nat by lia; evs; rewrite ?E2, ?ofZ_of_nat; reflexivity.
Qed.

Lemma cor_body_ok c cn tx X ty Y vml vox voy N tR R rmsx rmsy k vk vnk vsm vj vr0 :
  length X = N -> length Y = N -> (k < N)%nat -> (k <= length R)%nat ->
  exists vj',
    exec cor_body (set (cst (VArr tx X) (VArr ty Y) vml (vnorm cn) vox voy (VI (Z.of_nat N)) (VB (negb c)) (VArr tR R)
                            (v9 cn rmsx) (v9 cn rmsy) vk vnk vsm vj vr0) 11 (VI (Z.of_nat k)))
    = (cst (VArr tx X) (VArr ty Y) vml (vnorm cn) vox voy (VI (Z.of_nat N)) (VB (negb c))
           (VArr tR (match k with O => R | S k' => updF R k' (gentry c (rmsx * rmsy) N X Y cn k) end))
           (v9 cn rmsx) (v9 cn rmsy) (VI (Z.of_nat k)) (VI (Z.of_nat N - Z.of_nat k - 1)) (VF (glag_sum c N X Y k)) vj'
           (match k with O => VF (gentry c (rmsx * rmsy) N X Y cn 0) | S _ => vr0 end), CNormal).
Proof.
  intros HX HY Hk HR. unfold cor_body. cbn [cst set].
  erewrite exec_seq; [|ev; reflexivity].
  destruct (cor_sum_ok c tx X ty Y vml (vnorm cn) vox voy N (VArr tR R) (v9 cn rmsx) (v9 cn rmsy) k vsm vj vr0 HX HY Hk) as [vj' E].
  unfold cst in E. erewrite exec_seq by exact E. clear E.
  exists vj'.
  pose proof (cor_norm_ok cn (VArr tx X) (VArr ty Y) vml vox voy N (VB (negb c)) tR R rmsx rmsy k
                (VI (Z.of_nat N - Z.of_nat k - 1)) (glag_sum c N X Y k) vj' vr0 HR ltac:(lia)) as E.
  unfold cst in E. rewrite E. unfold gentry. destruct k; reflexivity.
Qed.

(* the main loop: after i passes r0 and r[0..i-2] hold the model's entries, the rest of r is still zero *)
Lemma cor_loop_ok c cn tx X ty Y vox voy N tR ml rmsx rmsy vk vnk vsm vj vr0 :
  length X = N -> length Y = N -> (ml < N)%nat ->
  exists R vk' vnk' vsm' vj',
    exec cor_loop (cst (VArr tx X) (VArr ty Y) (VI (Z.of_nat ml)) (vnorm cn) vox voy (VI (Z.of_nat N)) (VB (negb c)) (VArr tR (zeros ml))
                       (v9 cn rmsx) (v9 cn rmsy) vk vnk vsm vj vr0)
    = (cst (VArr tx X) (VArr ty Y) (VI (Z.of_nat ml)) (vnorm cn) vox voy (VI (Z.of_nat N)) (VB (negb c)) (VArr tR R)
           (v9 cn rmsx) (v9 cn rmsy) vk' vnk' vsm' vj' (VF (gentry c (rmsx * rmsy) N X Y cn 0)), CNormal)
    /\ gentry c (rmsx * rmsy) N X Y cn 0 :: R = mk (S ml) (gentry c (rmsx * rmsy) N X Y cn).
Proof.
  intros HX HY Hml. unfold cor_loop.
  cbn [LoopIR.exec LoopIR.eval get nth cst bind try asZ ok arith arithZ].
  replace (Z.of_nat ml + 1)%Z with (Z.of_nat (S ml)) by lia. rewrite range_vals_nat. cbn [try].
  set (e := gentry c (rmsx * rmsy) N X Y cn).
  match goal with |- exists R vk' vnk' vsm' vj', (let (st', c) := for_loop ?f ?x _ ?st in _) = _ /\ _ =>
    destruct (for_loop_inv f x
      (fun i s => exists R vk' vnk' vsm' vj' vr0',
           s = cst (VArr tx X) (VArr ty Y) (VI (Z.of_nat ml)) (vnorm cn) vox voy (VI (Z.of_nat N)) (VB (negb c)) (VArr tR R)
                   (v9 cn rmsx) (v9 cn rmsy) vk' vnk' vsm' vj' vr0'
           /\ length R = ml
           /\ (forall q, nthF R q = if (q <? i - 1)%nat then e (S q) else 0)
           /\ ((1 <= i)%nat -> vr0' = VF (e O))) (S ml) st)
      as [s' [E [R [vk' [vnk' [vsm' [vj' [vr0' [I1 [I2 [I3 I4]]]]]]]]]]]
  end.
  - exists (zeros ml), vk, vnk, vsm, vj, vr0. split; [reflexivity|]. split; [apply zeros_length|]. split; [|lia].
    intros q. rewrite nthF_zeros. reflexivity.
  - intros i s Hi [R [vk' [vnk' [vsm' [vj' [vr0' [-> [Hl [Hn H0]]]]]]]]].
    destruct (cor_body_ok c cn tx X ty Y (VI (Z.of_nat ml)) vox voy N tR R rmsx rmsy i vk' vnk' vsm' vj' vr0' HX HY ltac:(lia) ltac:(lia))
      as [vj2 E2].
    eexists. split; [exact E2|]. fold e.
    do 6 eexists. split; [reflexivity|].
    destruct i as [|i'].
    + split; [exact Hl|]. split; [|reflexivity]. intros q. rewrite Hn. reflexivity.
    + split; [rewrite updF_length; exact Hl|]. split; [|intros _; apply H0; lia].
      intros q. rewrite nthF_updF by lia. rewrite Hn.
      replace (S (S i') - 1)%nat with (S i') by lia. replace (S i' - 1)%nat with i' by lia.
      destruct (Nat.eqb_spec q i') as [->|Nq].
      * replace (i' <? S i')%nat with true by (symmetry; apply Nat.ltb_lt; lia). reflexivity.
      * destruct (Nat.ltb_spec q i'); destruct (Nat.ltb_spec q (S i')); try lia; reflexivity.
  - exists R, vk', vnk', vsm', vj'. rewrite E, I1, (I4 ltac:(lia)). split; [reflexivity|].
    apply list_eq_nth.
    + cbn [length]. rewrite mk_length, I2. reflexivity.
    + intros q Hq. cbn [length] in Hq. rewrite nth_mk by lia. destruct q as [|q]; [reflexivity|].
      rewrite nthF_consS, I3. replace (S ml - 1)%nat with ml by lia.
      replace (q <? ml)%nat with true by (symmetry; apply Nat.ltb_lt; lia). reflexivity.
Qed.

(* the model reads the padded arrays exactly as it reads the originals *)
Lemma glag_sum_resize c N (x y : list F) k : glag_sum c N (resize x N) (resize y N) k = glag_sum c N x y k.
Proof.
  unfold glag_sum. f_equal. apply mk_ext. intros j Hj. rewrite !nthF_resize by lia. reflexivity.
Qed.
Lemma gentry_resize c rp N (x y : list F) cn k : gentry c rp N (resize x N) (resize y N) cn k = gentry c rp N x y cn k.
Proof. unfold gentry. rewrite glag_sum_resize. reflexivity. Qed.

(* ---- the statements before the loop *)
Lemma cor_assert_norm_ok cn (st : store) : nth 3 st VUnbound = vnorm cn -> exec cor_assert_norm st = (st, CNormal).
Proof.
  intros H. unfold cor_assert_norm. cbn [LoopIR.exec LoopIR.eval]. unfold get. rewrite H.
  destruct cn; evs; reflexivity.
Qed.
Lemma cor_assert_norm_bad s (st : store) : nth 3 st VUnbound = VStr s ->
  String.eqb s "unbiased" = false -> String.eqb s "biased" = false -> String.eqb s "coeff" = false ->
  exec cor_assert_norm st = (st, CErr AssertionError).
Proof.
  intros H H1 H2 H3. unfold cor_assert_norm. cbn [LoopIR.exec LoopIR.eval]. unfold get. rewrite H.
  ev. rewrite H1. ev. rewrite H2. ev. rewrite H3. ev. reflexivity.
Qed.

Lemma cor_pad0_ok tx (x : list F) vy vml vnm vox voy N v7 v8 v9' v10 v11 v12 v13 v14 v15 :
  (length x <= N)%nat ->
  exec (cor_pad 0) (cst (VArr tx x) vy vml vnm vox voy (VI (Z.of_nat N)) v7 v8 v9' v10 v11 v12 v13 v14 v15)
  = (cst (VArr tx (resize x N)) vy vml vnm vox voy (VI (Z.of_nat N)) v7 v8 v9' v10 v11 v12 v13 v14 v15, CNormal).
Proof.
  intros H. unfold cor_pad. ev.
  destruct (Z.ltb_spec (Z.of_nat (length x)) (Z.of_nat N)) as [Hl|Hl]; ev.
  - replace (Z.of_nat N <? 0)%Z with false by (symmetry; apply Z.ltb_ge; lia). rewrite Nat2Z.id. reflexivity.
  - replace N with (length x) at 2 by lia. rewrite resize_id. reflexivity.
Qed.
Lemma cor_pad1_ok vx ty (y : list F) vml vnm vox voy N v7 v8 v9' v10 v11 v12 v13 v14 v15 :
  (length y <= N)%nat ->
  exec (cor_pad 1) (cst vx (VArr ty y) vml vnm vox voy (VI (Z.of_nat N)) v7 v8 v9' v10 v11 v12 v13 v14 v15)
  = (cst vx (VArr ty (resize y N)) vml vnm vox voy (VI (Z.of_nat N)) v7 v8 v9' v10 v11 v12 v13 v14 v15, CNormal).
Proof.
  intros H. unfold cor_pad. ev.
  destruct (Z.ltb_spec (Z.of_nat (length y)) (Z.of_nat N)) as [Hl|Hl]; ev.
  - replace (Z.of_nat N <? 0)%Z with false by (symmetry; apply Z.ltb_ge; lia). rewrite Nat2Z.id. reflexivity.
  - replace N with (length y) at 2 by lia. rewrite resize_id. reflexivity.
Qed.

Lemma cor_rms_ok cn vx vy vml rmsx rmsy vN v7 v8 v11 v12 v13 v14 v15 :
  exec cor_rms (cst vx vy vml (vnorm cn) (VF rmsx) (VF rmsy) vN v7 v8 VUnbound VUnbound v11 v12 v13 v14 v15)
  = (cst vx vy vml (vnorm cn) (VF rmsx) (VF rmsy) vN v7 v8 (v9 cn rmsx) (v9 cn rmsy) v11 v12 v13 v14 v15, CNormal).
Proof. unfold cor_rms. destruct cn; evs; reflexivity. Qed.

Definition vy_arg (y : option (bool * list F)) : value := match y with Some q => VArr (fst q) (snd q) | None => VNone end.
Definition vml_arg (m : option Z) : value := match m with Some z => VI z | None => VNone end.

Lemma cor_main_ok rx (x : list F) (y : option (bool * list F)) (maxlags : option Z) cn rmsx rmsy :
  let ry := match y with None => rx | Some q => fst q end in
  let yl := match y with None => x | Some q => snd q end in
  let N := Nat.max (length x) (length yl) in
  let ml := match maxlags with Some m => m | None => (Z.of_nat N - 1)%Z end in
  let c := negb (rx && ry) in
  exists s',
    exec cor_main (VArr rx x :: vy_arg y :: vml_arg maxlags :: vnorm cn :: VF rmsx :: VF rmsy :: repeat VUnbound 10)
    = (s', if (Z.of_nat N <=? ml)%Z then CErr AssertionError
           else if (ml <? 0)%Z then CErr ValueError
           else CRet [VArr (rx && ry) (mk (S (Z.to_nat ml)) (gentry c (rmsx * rmsy) N x yl cn))]).
Proof.
  intros ry yl N ml c. cbn [repeat]. unfold cor_main.
  erewrite exec_seq; [|apply (cor_assert_norm_ok cn); reflexivity].
  erewrite exec_seq; [|ev; reflexivity].
  erewrite exec_seq.
  2:{ instantiate (1 := cst (VArr rx x) (VArr ry yl) (vml_arg maxlags) (vnorm cn) (VF rmsx) (VF rmsy)
                            VUnbound VUnbound VUnbound VUnbound VUnbound VUnbound VUnbound VUnbound VUnbound VUnbound).
      unfold cor_sety, ry, yl. destruct y as [[ty y]|]; ev; reflexivity. }
  erewrite exec_seq; [|ev; rewrite <- Nat2Z.inj_max; fold N; reflexivity].
  erewrite exec_seq; [|apply (cor_pad0_ok rx x); unfold N; lia].
  erewrite exec_seq; [|apply (cor_pad1_ok _ ry yl); unfold N; lia].
  erewrite exec_seq.
  2:{ instantiate (1 := cst (VArr rx (resize x N)) (VArr ry (resize yl N)) (VI ml) (vnorm cn) (VF rmsx) (VF rmsy)
                            (VI (Z.of_nat N)) VUnbound VUnbound VUnbound VUnbound VUnbound VUnbound VUnbound VUnbound VUnbound).
      unfold cor_maxlags, ml. destruct maxlags as [m|]; ev; reflexivity. }
  unfold cst at 1.
  destruct (Z.leb_spec (Z.of_nat N) ml) as [Hge|Hlt].
  { eexists. apply exec_seq_stop; [|discriminate].
    ev. replace (ml <? Z.of_nat N)%Z with false by (symmetry; apply Z.ltb_ge; lia). reflexivity. }
  erewrite exec_seq; [|ev; replace (ml <? Z.of_nat N)%Z with true by (symmetry; apply Z.ltb_lt; lia); reflexivity].
  erewrite exec_seq.
  2:{ instantiate (1 := cst (VArr rx (resize x N)) (VArr ry (resize yl N)) (VI ml) (vnorm cn) (VF rmsx) (VF rmsy)
                            (VI (Z.of_nat N)) (VB (rx && ry)) VUnbound VUnbound VUnbound VUnbound VUnbound VUnbound VUnbound VUnbound).
      ev. destruct rx; ev; reflexivity. }
  unfold cst at 1.
  destruct (Z.ltb_spec ml 0) as [Hneg|Hnn].
  { unfold cor_alloc. destruct (rx && ry); (eexists; apply exec_seq_stop; [|discriminate]); ev; cbn [Bool.eqb]; ev;
      replace (ml <? 0)%Z with true by (symmetry; apply Z.ltb_lt; lia); reflexivity. }
  assert (Eml : ml = Z.of_nat (Z.to_nat ml)) by lia.
  set (mln := Z.to_nat ml) in *.
  erewrite exec_seq.
  2:{ instantiate (1 := cst (VArr rx (resize x N)) (VArr ry (resize yl N)) (VI (Z.of_nat mln)) (vnorm cn) (VF rmsx) (VF rmsy)
                            (VI (Z.of_nat N)) (VB (rx && ry)) (VArr (rx && ry) (zeros mln)) VUnbound VUnbound VUnbound VUnbound VUnbound VUnbound VUnbound).
      unfold cor_alloc. ev. rewrite Eml.
      destruct (rx && ry); cbn [Bool.eqb]; ev;
        replace (Z.of_nat mln <? 0)%Z with false by (symmetry; apply Z.ltb_ge; lia); rewrite Nat2Z.id; reflexivity. }
  erewrite exec_seq; [|apply cor_rms_ok].
  destruct (cor_loop_ok c cn rx (resize x N) ry (resize yl N) (VF rmsx) (VF rmsy) N (rx && ry) mln rmsx rmsy
              VUnbound VUnbound VUnbound VUnbound VUnbound (resize_length _ _) (resize_length _ _) ltac:(lia))
    as [R [vk' [vnk' [vsm' [vj' [E HR]]]]]].
  unfold c in E at 1 2. rewrite negb_involutive in E.
  erewrite exec_seq by exact E.
  eexists.
  erewrite exec_seq.
  2:{ ev. change (0 <? 0)%Z with false. cbv iota. change (0 <=? 0)%Z with true. cbn [andb].
      replace (0 <=? Z.of_nat (length R))%Z with true by (symmetry; apply Z.leb_le; lia).
      change (Z.to_nat 0) with 0%nat. cbn [firstn skipn app]. reflexivity. }
  ev. fold c. rewrite HR. do 4 f_equal. apply mk_ext. intros k _. apply gentry_resize.
Qed.
End Exec.

(* ---------------------------------------------------------------- the theorems *)
Section Main.
Context {F : Type} {OF : Ops F} {L : Laws OF}.
Variable feq : F -> F -> bool.
Variable stop : Z -> F -> F -> bool.
Local Open Scope F_scope.
Notation value := (@value F).
Notation exec := (@exec F OF feq stop).

Definition nm_value (nm : option (option string)) : value :=
  match nm with None => VStr "unbiased" | Some None => VNone | Some (Some s) => VStr s end.

Lemma norm_cases nm :
  (exists cn, norm_of nm = Some cn /\ nm_value nm = vnorm cn) \/
  (exists s, norm_of nm = None /\ nm_value nm = VStr s /\
             String.eqb s "unbiased" = false /\ String.eqb s "biased" = false /\ String.eqb s "coeff" = false).
Proof.
  destruct nm as [[s|]|]; cbn [norm_of nm_value].
  - destruct (String.eqb_spec s "unbiased") as [->|N1]; [left; exists Unbiased; split; reflexivity|].
    destruct (String.eqb_spec s "biased") as [->|N2]; [left; exists Biased; split; reflexivity|].
    destruct (String.eqb_spec s "coeff") as [->|N3]; [left; exists Coeff; split; reflexivity|].
    right. exists s. repeat split; apply String.eqb_neq; assumption.
  - left. exists NoNorm. split; reflexivity.
  - left. exists Unbiased. split; reflexivity.
Qed.

Theorem correlation_ir_run rx (x : list F) (y : option (bool * list F)) (maxlags : option Z) (nm : option (option string)) (rmsx rmsy : F) :
  let ry := match y with None => rx | Some q => fst q end in
  let yl := match y with None => x | Some q => snd q end in
  run feq stop prog_CORRELATION_ref
      [Some (VArr rx x); option_map (fun q => VArr (fst q) (snd q)) y; option_map VI maxlags;
       option_map (fun s => match s with None => VNone | Some t => VStr t end) nm; Some (VF rmsx); Some (VF rmsy)]
  = corr_outcome (negb (rx && ry)) (rx && ry) x yl maxlags nm rmsx rmsy.
Proof.
  intros ry yl.
  unfold run, prog_CORRELATION_ref. cbn [p_defaults p_body p_nslots p_nparams Nat.sub].
  assert (B : bind_args feq [None; Some ENone; Some ENone; Some (EStr "unbiased"); None; None]
                [Some (VArr rx x); option_map (fun q => VArr (fst q) (snd q)) y; option_map VI maxlags;
                 option_map (fun s => match s with None => VNone | Some t => VStr t end) nm; Some (VF rmsx); Some (VF rmsy)]
              = inl [VArr rx x; vy_arg y; vml_arg maxlags; nm_value nm; VF rmsx; VF rmsy]).
  { destruct y, maxlags, nm as [[s|]|]; reflexivity. }
  rewrite B. cbn [app]. unfold corr_outcome.
  destruct (norm_cases nm) as [[cn [-> Ev]]|[s [-> [Ev [H1 [H2 H3]]]]]]; rewrite Ev.
  - destruct (cor_main_ok feq stop rx x y maxlags cn rmsx rmsy) as [s' E]. cbv zeta in E. fold ry yl in E.
    rewrite E. clear E. unfold gcorrelation. fold yl.
    set (N := Nat.max (length x) (length yl)).
    set (ml := match maxlags with Some m => m | None => (Z.of_nat N - 1)%Z end).
    destruct (Z.ltb_spec ml 0) as [Hneg|Hnn].
    + replace (Z.of_nat N <=? ml)%Z with false by (symmetry; apply Z.leb_gt; lia). reflexivity.
    + destruct (Z.leb_spec (Z.of_nat N) ml) as [Hge|Hlt].
      * replace (Z.to_nat ml <? N)%nat with false by (symmetry; apply Nat.ltb_ge; lia). reflexivity.
      * replace (Z.to_nat ml <? N)%nat with true by (symmetry; apply Nat.ltb_lt; lia). reflexivity.
  - unfold cor_main. cbn [repeat].
    match goal with |- context [LoopIR.exec feq stop (SSeq cor_assert_norm ?b) ?st] =>
      rewrite (exec_seq_stop feq stop cor_assert_norm b st st (CErr AssertionError)
                 (cor_assert_norm_bad feq stop s st eq_refl H1 H2 H3)) by discriminate
    end.
    reflexivity.
Qed.

Lemma gcorrelation_false rp (x y : list F) ml cn : isrealL y -> gcorrelation false rp x y ml cn = correlation rp x y ml cn.
Proof.
  intros Hy. rewrite <- gcorrelation_true. unfold gcorrelation. destruct (ml <? Nat.max (length x) (length y))%nat; [|reflexivity].
  f_equal. apply mk_ext. intros k _. unfold gentry, glag_sum. do 2 f_equal. apply mk_ext. intros j _. cbn [cj]. rewrite Hy. reflexivity.
Qed.

(* one of the arrays is declared complex: the hand-written model itself, unconditionally *)
Theorem correlation_ir_complex rx (x : list F) (y : option (bool * list F)) (maxlags : option Z) (nm : option (option string)) (rmsx rmsy : F) :
  let ry := match y with None => rx | Some q => fst q end in
  let yl := match y with None => x | Some q => snd q end in
  rx && ry = false ->
  run feq stop prog_CORRELATION_ref
      [Some (VArr rx x); option_map (fun q => VArr (fst q) (snd q)) y; option_map VI maxlags;
       option_map (fun s => match s with None => VNone | Some t => VStr t end) nm; Some (VF rmsx); Some (VF rmsy)]
  = corr_model_outcome false x yl maxlags nm rmsx rmsy.
Proof.
  intros ry yl Hc. pose proof (correlation_ir_run rx x y maxlags nm rmsx rmsy) as H. cbv zeta in H. fold ry yl in H.
  rewrite H, Hc. cbn [negb]. unfold corr_outcome, corr_model_outcome. destruct (norm_of nm); [|reflexivity].
  rewrite gcorrelation_true. reflexivity.
Qed.

(* both arrays are declared float (the branch without conjugates): the model, for a real-valued second array *)
Theorem correlation_ir_real rx (x : list F) (y : option (bool * list F)) (maxlags : option Z) (nm : option (option string)) (rmsx rmsy : F) :
  let ry := match y with None => rx | Some q => fst q end in
  let yl := match y with None => x | Some q => snd q end in
  rx && ry = true -> isrealL yl ->
  run feq stop prog_CORRELATION_ref
      [Some (VArr rx x); option_map (fun q => VArr (fst q) (snd q)) y; option_map VI maxlags;
       option_map (fun s => match s with None => VNone | Some t => VStr t end) nm; Some (VF rmsx); Some (VF rmsy)]
  = corr_model_outcome true x yl maxlags nm rmsx rmsy.
Proof.
  intros ry yl Hc Hy. pose proof (correlation_ir_run rx x y maxlags nm rmsx rmsy) as H. cbv zeta in H. fold ry yl in H.
  rewrite H, Hc. cbn [negb]. unfold corr_outcome, corr_model_outcome. destruct (norm_of nm); [|reflexivity].
  rewrite gcorrelation_false by exact Hy. reflexivity.
Qed.

Theorem correlation_ir rx (x : list F) (y : option (bool * list F)) (maxlags : option Z) (nm : option (option string)) (rmsx rmsy : F) :
  let ry := match y with None => rx | Some q => fst q end in
  let yl := match y with None => x | Some q => snd q end in
  (rx && ry = true -> isrealL yl) ->
  run feq stop prog_CORRELATION_ref
      [Some (VArr rx x); option_map (fun q => VArr (fst q) (snd q)) y; option_map VI maxlags;
       option_map (fun s => match s with None => VNone | Some t => VStr t end) nm; Some (VF rmsx); Some (VF rmsy)]
  = corr_model_outcome (rx && ry) x yl maxlags nm rmsx rmsy.
Proof.
  intros ry yl Hy. destruct (rx && ry) eqn:Hc.
  - apply correlation_ir_real; [exact Hc|exact (Hy eq_refl)].
  - apply correlation_ir_complex. exact Hc.
Qed.
End Main.

(* the boolean of the exact evaluation tie (Model/LoopIRTie.v) is true on its whole domain: maxlags a natural number or
   omitted, in which case the arrays are not both empty (for two empty arrays and maxlags omitted the code computes
   numpy.zeros(-1): ValueError, while the model, whose maxlags is a nat, answers None = AssertionError) *)
Section TieTrue.
Context {F : Type} {OF : Ops F} {L : Laws OF}.
Variable feq : F -> F -> bool.
Hypothesis feq_refl : forall a, feq a a = true.
Local Open Scope F_scope.

Lemma leq_refl (l : list F) : leq feq l l = true.
Proof.
  unfold leq. rewrite Nat.eqb_refl. cbn [andb]. induction l as [|a l IH]; [reflexivity|].
  cbn [combine forallb fst snd]. rewrite feq_refl, IH. reflexivity.
Qed.

Theorem correlation_ir_tie rx (x : list F) (y : option (bool * list F)) (maxlags : option nat) (nm : option (option string)) (rmsx rmsy : F) :
  let ry := match y with None => rx | Some q => fst q end in
  let yl := match y with None => x | Some q => snd q end in
  (rx && ry = true -> isrealL yl) ->
  (maxlags = None -> (0 < Nat.max (length x) (length yl))%nat) ->
  tie_correlation feq prog_CORRELATION_ref rx x y maxlags nm rmsx rmsy = true.
Proof.
  intros ry yl Hy Hne. unfold tie_correlation.
  replace (option_map vint maxlags) with (option_map (@VI F) (option_map Z.of_nat maxlags)) by (destruct maxlags; reflexivity).
  pose proof (correlation_ir feq (@nostop F) rx x y (option_map Z.of_nat maxlags) nm rmsx rmsy) as H. cbv zeta in H.
  fold ry yl in H. rewrite (H Hy). clear H. fold ry yl.
  unfold corr_model_outcome.
  set (N := Nat.max (length x) (length yl)) in *.
  destruct (norm_of nm) as [cn|]; [|reflexivity].
  set (mlz := match option_map Z.of_nat maxlags with Some m => m | None => (Z.of_nat N - 1)%Z end).
  set (mln := match maxlags with Some m => m | None => (N - 1)%nat end).
  assert (E : mlz = Z.of_nat mln).
  { unfold mlz, mln. destruct maxlags as [m|]; cbn [option_map]; [reflexivity|]. specialize (Hne eq_refl). lia. }
  rewrite E. replace (Z.of_nat mln <? 0)%Z with false by (symmetry; apply Z.ltb_ge; lia). rewrite Nat2Z.id.
  destruct (correlation (rmsx * rmsy) x yl mln cn) as [r|]; [|reflexivity].
  rewrite eqb_reflx, leq_refl. reflexivity.
Qed.
End TieTrue.

(* BEGIN GENERATED CORRELATION (verbatim output of tools/props/_loopir.py for spectrum.correlation.CORRELATION) *)
(* CORRELATION: slots 0=x 1=y 2=maxlags 3=norm 4=pylab_rms_flat(x)@0 5=pylab_rms_flat(y)@1 6=N 7=realdata 8=r 9=rmsx 10=rmsy 11=k 12=nk 13=sum 14=j 15=r0 *)
Definition prog_CORRELATION_gen0 : program := mkProgram "CORRELATION" 6 [None; (Some ENone); (Some ENone); (Some (EStr "unbiased")); None; None] 16
(SSeq (SAssert (EOr (ECmp CEq (EVar 3) (EStr "unbiased")) (EOr (ECmp CEq (EVar 3) (EStr "biased")) (EOr (ECmp CEq (EVar 3) (EStr "coeff")) (ECmp CEq (EVar 3) ENone)))))
(SSeq (SAssign 0 (ECopy (EVar 0)))
(SSeq (SIf (EIsNone (EVar 1))
(SAssign 1 (EVar 0))
(SAssign 1 (ECopy (EVar 1))))
(SSeq (SAssign 6 (EMax (ELen (EVar 0)) (ELen (EVar 1))))
(SSeq (SIf (ECmp CLt (ELen (EVar 0)) (EVar 6))
(SSeq (SAssign 0 (ECopy (EVar 0)))
(SResize 0 (EVar 6)))
(SSkip))
(SSeq (SIf (ECmp CLt (ELen (EVar 1)) (EVar 6))
(SSeq (SAssign 1 (ECopy (EVar 1)))
(SResize 1 (EVar 6)))
(SSkip))
(SSeq (SIf (EIsNone (EVar 2))
(SAssign 2 (EBin BSub (EVar 6) (EInt 1)))
(SSkip))
(SSeq (SAssert (ECmp CLt (EVar 2) (EVar 6)))
(SSeq (SAssign 7 (EAnd (EIsRealObj (EVar 0)) (EIsRealObj (EVar 1))))
(SSeq (SIf (EIsBool true (EVar 7))
(SAssign 8 (EZeros (EVar 2) true))
(SAssign 8 (EZeros (EVar 2) false)))
(SSeq (SIf (ECmp CEq (EVar 3) (EStr "coeff"))
(SSeq (SAssign 9 (EVar 4))
(SAssign 10 (EVar 5)))
(SSkip))
(SSeq (SFor 11 (EInt 0) (EBin BAdd (EVar 2) (EInt 1)) (EInt 1)
(SSeq (SAssign 12 (EBin BSub (EBin BSub (EVar 6) (EVar 11)) (EInt 1)))
(SSeq (SIf (EIsBool true (EVar 7))
(SSeq (SAssign 13 (EInt 0))
(SFor 14 (EInt 0) (EBin BAdd (EVar 12) (EInt 1)) (EInt 1)
(SAssign 13 (EBin BAdd (EVar 13) (EBin BMul (EIndex (EVar 0) (EBin BAdd (EVar 14) (EVar 11))) (EIndex (EVar 1) (EVar 14)))))))
(SSeq (SAssign 13 (EBin BAdd (ELit 0 0) (ELit 0 0)))
(SFor 14 (EInt 0) (EBin BAdd (EVar 12) (EInt 1)) (EInt 1)
(SAssign 13 (EBin BAdd (EVar 13) (EBin BMul (EIndex (EVar 0) (EBin BAdd (EVar 14) (EVar 11))) (EConj (EIndex (EVar 1) (EVar 14)))))))))
(SIf (ECmp CEq (EVar 11) (EInt 0))
(SIf (EOr (ECmp CEq (EVar 3) (EStr "biased")) (ECmp CEq (EVar 3) (EStr "unbiased")))
(SAssign 15 (EBin BDiv (EVar 13) (EFloat (EVar 6))))
(SIf (EIsNone (EVar 3))
(SAssign 15 (EVar 13))
(SAssign 15 (ELit 1 0))))
(SIf (ECmp CEq (EVar 3) (EStr "unbiased"))
(SStore 8 (EBin BSub (EVar 11) (EInt 1)) (EBin BDiv (EVar 13) (EFloat (EBin BSub (EVar 6) (EVar 11)))))
(SIf (ECmp CEq (EVar 3) (EStr "biased"))
(SStore 8 (EBin BSub (EVar 11) (EInt 1)) (EBin BDiv (EVar 13) (EFloat (EVar 6))))
(SIf (EIsNone (EVar 3))
(SStore 8 (EBin BSub (EVar 11) (EInt 1)) (EVar 13))
(SIf (ECmp CEq (EVar 3) (EStr "coeff"))
(SStore 8 (EBin BSub (EVar 11) (EInt 1)) (EBin BDiv (EBin BDiv (EVar 13) (EBin BMul (EVar 9) (EVar 10))) (EFloat (EVar 6))))
(SSkip)))))))))
(SSeq (SAssign 8 (EInsert (EVar 8) (EInt 0) (EVar 15)))
(SReturn [(EVar 8)])))))))))))))).

(* END GENERATED CORRELATION *)
Example prog_CORRELATION_ref_is_generated : prog_CORRELATION_ref = prog_CORRELATION_gen0.
Proof. reflexivity. Qed.
