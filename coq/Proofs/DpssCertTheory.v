(* Certificate checker for the C half of dpss: soundness, "small residual => theta is near an
   eigenvalue" under the spectral decomposition as a hypothesis, and the structure of Slepian's
   tridiagonal matrix (symmetric, centrosymmetric, simple eigenvalues => eigenvectors have a parity). *)
Require Import Spectrum.Theory.Ops Spectrum.Theory.Sum Spectrum.Theory.Vec Spectrum.Theory.Order
               Spectrum.Model.Dpss Spectrum.Proofs.DpssTheory.

Section Tri.
Context {F : Type} {OF : Ops F} {L : Laws OF}.
Local Open Scope F_scope.
Add Field FFct : (fth (O:=OF)).

(* ---------------- the tridiagonal operator ---------------- *)
Definition hh (N i : nat) : F := (ofnat (N - 1) - two * ofnat i) / two.
Lemma sl_diag_hh N c i : sl_diag N c i = hh N i * hh N i * c. Proof. reflexivity. Qed.

Lemma tmul_lin N c (x y : nat -> F) a i :
  tmul N c (fun m => x m - a * y m) i = tmul N c x i - a * tmul N c y i.
Proof. unfold tmul. destruct (0 <? i)%nat, (i + 1 <? N)%nat; ring. Qed.
Lemma tmul_ext N c (x y : nat -> F) i : (i < N)%nat -> (forall m, (m < N)%nat -> x m = y m) -> tmul N c x i = tmul N c y i.
Proof.
  intros Hi H. unfold tmul.
  destruct (Nat.ltb_spec 0 i), (Nat.ltb_spec (i + 1) N); rewrite ?(H i), ?(H (i - 1)%nat), ?(H (i + 1)%nat) by lia; reflexivity.
Qed.
Lemma resid_affine N c c' (v : nat -> F) th i :
  resid N c v th i = resid N c' v th i + (c - c') * (hh N i * hh N i * v i).
Proof. unfold resid, tmul. rewrite !sl_diag_hh. ring. Qed.

Lemma shift_guard N (a : nat -> F) :
  sumf N (fun i => if (0 <? i)%nat then a i else 0) = sumf N (fun i => if (i + 1 <? N)%nat then a (i + 1)%nat else 0).
Proof.
  destruct N as [|N]; [reflexivity|].
  rewrite (sumf_shift N (fun i => if (0 <? i)%nat then a i else 0)).
  rewrite (sumf_S N (fun i => if (i + 1 <? S N)%nat then a (i + 1)%nat else 0)).
  replace (N + 1 <? S N)%nat with false by (symmetry; apply Nat.ltb_ge; lia).
  change (0 <? 0)%nat with false. cbv iota.
  rewrite (sumf_ext N (fun i => if (0 <? S i)%nat then a (S i) else 0)
                      (fun i => if (i + 1 <? S N)%nat then a (i + 1)%nat else 0)).
  - ring.
  - intros i Hi. replace (i + 1 <? S N)%nat with true by (symmetry; apply Nat.ltb_lt; lia).
    change (0 <? S i)%nat with true. cbv iota. f_equal. lia.
Qed.
(* T is symmetric:  u . (T v) = (T u) . v *)
Lemma tmul_sym N c (u v : nat -> F) : dot N u (tmul N c v) = dot N (tmul N c u) v.
Proof.
  unfold dot.
  transitivity (sumf N (fun i => if (0 <? i)%nat then u i * sl_off N i * v (i - 1)%nat else 0)
                + sumf N (fun i => u i * sl_diag N c i * v i)
                + sumf N (fun i => if (i + 1 <? N)%nat then u i * sl_off N (i + 1) * v (i + 1)%nat else 0)).
  { rewrite <- !sumf_add. apply sumf_ext; intros i _. unfold tmul. destruct (0 <? i)%nat, (i + 1 <? N)%nat; ring. }
  transitivity (sumf N (fun i => if (i + 1 <? N)%nat then u (i + 1)%nat * sl_off N (i + 1) * v i else 0)
                + sumf N (fun i => u i * sl_diag N c i * v i)
                + sumf N (fun i => if (0 <? i)%nat then u (i - 1)%nat * sl_off N i * v i else 0)).
  2:{ rewrite <- !sumf_add. apply sumf_ext; intros i _. unfold tmul. destruct (0 <? i)%nat, (i + 1 <? N)%nat; ring. }
  rewrite (shift_guard N (fun i => u i * sl_off N i * v (i - 1)%nat)).
  rewrite (shift_guard N (fun i => u (i - 1)%nat * sl_off N i * v i)).
  match goal with |- ?a + ?b + ?c = ?a' + ?b + ?c' => assert (Ea : a = a'); [|assert (Ec : c = c'); [|rewrite Ea, Ec; ring]] end.
  - apply sumf_ext; intros i _. destruct (i + 1 <? N)%nat; [|reflexivity]. replace (i + 1 - 1)%nat with i by lia. ring.
  - apply sumf_ext; intros i _. destruct (i + 1 <? N)%nat; [|reflexivity]. replace (i + 1 - 1)%nat with i by lia. ring.
Qed.

(* ---------------- centrosymmetry ---------------- *)
Lemma hh_rev N i : (i < N)%nat -> hh N (N - 1 - i) = - hh N i.
Proof.
  intros Hi. unfold hh.
  assert (E : ofnat (N - 1) = ofnat (N - 1 - i) + ofnat i) by (rewrite <- ofnat_add; f_equal; lia).
  rewrite E. unfold two. field. apply two_neq_0.
Qed.
Lemma sl_diag_rev N c i : (i < N)%nat -> sl_diag N c (N - 1 - i) = sl_diag N c i.
Proof. intros Hi. rewrite !sl_diag_hh, hh_rev by exact Hi. ring. Qed.
Lemma sl_off_rev N i : (i <= N)%nat -> sl_off N (N - i) = sl_off N i.
Proof. intros Hi. unfold sl_off. replace (N - (N - i))%nat with i by lia. field. apply two_neq_0. Qed.

Theorem tmul_rev_thm N c (v : nat -> F) i : (i < N)%nat ->
  tmul N c (fun m => v (N - 1 - m)%nat) i = tmul N c v (N - 1 - i)%nat.
Proof.
  intros Hi. unfold tmul. rewrite sl_diag_rev by exact Hi.
  assert (E1 : (i + 1 <= N)%nat -> sl_off N (N - 1 - i) = sl_off N (i + 1)).
  { intros H. rewrite <- (sl_off_rev N (i + 1)) by lia. f_equal. lia. }
  assert (E2 : sl_off N (N - 1 - i + 1) = sl_off N i).
  { rewrite <- (sl_off_rev N i) by lia. f_equal. lia. }
  destruct (Nat.ltb_spec 0 i) as [H0|H0]; destruct (Nat.ltb_spec (i + 1) N) as [H1|H1];
    destruct (Nat.ltb_spec 0 (N - 1 - i)) as [H2|H2]; try lia;
    destruct (Nat.ltb_spec (N - 1 - i + 1) N) as [H3|H3]; try lia;
    rewrite ?E2, ?E1 by lia;
    try (replace (N - 1 - (i - 1))%nat with (N - 1 - i + 1)%nat by lia);
    try (replace (N - 1 - (i + 1))%nat with (N - 1 - i - 1)%nat by lia); ring.
Qed.
End Tri.

Section Cert.
Context {F : Type} {OF : Ops F} {L : Laws OF} {OL : OrdLaws OF}.
Local Open Scope F_scope.
Add Field FFce : (fth (O:=OF)).

(* ---------------- simple eigenvalues, parity of eigenvectors ---------------- *)
Lemma two_pos : pos (two (F:=F)).
Proof. unfold two. apply pos_add_nonneg; [apply pos_1|apply nonneg_1]. Qed.
Lemma sl_off_neq_0 N i : (1 <= i)%nat -> (i < N)%nat -> sl_off N i <> 0.
Proof.
  intros H1 H2. unfold sl_off.
  apply (pos_div (ofnat i * ofnat (N - i)) two); [apply pos_mul; apply pos_ofnat; lia|apply two_pos].
Qed.

(* an eigenvector of an unreduced tridiagonal matrix is determined by its first entry *)
Lemma tmul_row N c (v : nat -> F) i : (i + 1 < N)%nat ->
  tmul N c v i = (if (0 <? i)%nat then sl_off N i * v (i - 1)%nat else 0) + sl_diag N c i * v i + sl_off N (i + 1) * v (i + 1)%nat.
Proof. intros H. unfold tmul. replace (i + 1 <? N)%nat with true by (symmetry; apply Nat.ltb_lt; lia). reflexivity. Qed.
Lemma eigvec_first_zero N c theta (v : nat -> F) :
  (forall i, (i < N)%nat -> tmul N c v i = theta * v i) -> v O = 0 -> forall i, (i < N)%nat -> v i = 0.
Proof.
  intros He H0.
  assert (P : forall i, (i < N)%nat -> v i = 0 /\ ((i + 1 < N)%nat -> v (i + 1)%nat = 0)).
  { induction i as [|i IH]; intros Hi.
    - split; [exact H0|]. intros H1. pose proof (He O Hi) as E. rewrite tmul_row in E by exact H1.
      change (0 <? 0)%nat with false in E. cbv iota in E.
      rewrite H0 in E. apply (mul_cancel_l (sl_off N (0 + 1))); [|apply sl_off_neq_0; lia].
      transitivity (0 + sl_diag N c 0 * 0 + sl_off N (0 + 1) * v (0 + 1)%nat - theta * 0); [ring|]. rewrite E. ring.
    - destruct (IH ltac:(lia)) as [Ha Hb]. replace (i + 1)%nat with (S i) in Hb by lia. specialize (Hb Hi).
      split; [exact Hb|]. intros H1. pose proof (He (S i) Hi) as E. rewrite tmul_row in E by exact H1.
      change (0 <? S i)%nat with true in E. cbv iota in E.
      replace (S i - 1)%nat with i in E by lia. rewrite Ha, Hb in E.
      apply (mul_cancel_l (sl_off N (S i + 1))); [|apply sl_off_neq_0; lia].
      transitivity (sl_off N (S i) * 0 + sl_diag N c (S i) * 0 + sl_off N (S i + 1) * v (S i + 1)%nat - theta * 0); [ring|].
      rewrite E. ring. }
  intros i Hi. apply (P i Hi).
Qed.

Theorem slepian_eigvec_parity_thm N (c theta : F) (v : nat -> F) : (1 <= N)%nat ->
  (forall i, (i < N)%nat -> tmul N c v i = theta * v i) ->
  (forall i, (i < N)%nat -> v (N - 1 - i)%nat = v i) \/ (forall i, (i < N)%nat -> v (N - 1 - i)%nat = - v i).
Proof.
  intros HN He.
  set (w := fun m => v (N - 1 - m)%nat).
  assert (Hw : forall i, (i < N)%nat -> tmul N c w i = theta * w i).
  { intros i Hi. unfold w. rewrite tmul_rev_thm by exact Hi. apply He. lia. }
  destruct (eq0_dec (v O)) as [E0|E0].
  - left. intros i Hi. rewrite (eigvec_first_zero N c theta v He E0 i Hi).
    apply (eigvec_first_zero N c theta v He E0). lia.
  - set (a := w O / v O).
    assert (Hu : forall i, (i < N)%nat -> w i - a * v i = 0).
    { apply (eigvec_first_zero N c theta (fun m => w m - a * v m)).
      - intros i Hi. rewrite tmul_lin, (Hw i Hi), (He i Hi). ring.
      - unfold a. field. exact E0. }
    assert (Hwa : forall i, (i < N)%nat -> w i = a * v i).
    { intros i Hi. transitivity (w i - a * v i + a * v i); [ring|]. rewrite (Hu i Hi). ring. }
    assert (Ha2 : (a - 1) * (a + 1) = 0).
    { assert (E1 : w (N - 1)%nat = a * v (N - 1)%nat) by (apply Hwa; lia).
      assert (E2 : w O = a * v O) by (apply Hwa; lia).
      unfold w in E1 at 1. replace (N - 1 - (N - 1))%nat with O in E1 by lia.
      unfold w in E2 at 1. replace (N - 1 - 0)%nat with (N - 1)%nat in E2 by lia.
      rewrite E2 in E1.
      apply (mul_cancel_l (v O)); [|exact E0].
      transitivity (a * (a * v O) - v O); [ring|]. rewrite <- E1. ring. }
    destruct (eq0_dec (a - 1)) as [E1|E1].
    + left. intros i Hi. fold (w i). rewrite (Hwa i Hi). replace a with (a - 1 + 1) by ring. rewrite E1. ring.
    + right. intros i Hi. fold (w i). rewrite (Hwa i Hi).
      assert (E2 : a + 1 = 0) by (apply (mul_cancel_l (a - 1)); assumption).
      replace a with (a + 1 - 1) by ring. rewrite E2. ring.
Qed.

(* ---------------- checker soundness ---------------- *)
Hypothesis real_field : forall a : F, conj a = a.

Lemma leb_le (a b : F) : leb a b = true -> le a b.
Proof.
  unfold leb, le. intros H. apply le0_true_nonpos in H; [|apply real_field].
  apply (nonneg_eq (- (a - b))); [ring|exact H].
Qed.
Lemma absle_spec (x e : F) : absle x e = true -> le x e /\ le (- x) e.
Proof. unfold absle. intros H. apply andb_prop in H. destruct H as [H1 H2]. split; apply leb_le; assumption. Qed.
Lemma allb_spec n p : allb n p = true -> forall i, (i < n)%nat -> p i = true.
Proof. unfold allb. rewrite forallb_forall. intros H i Hi. apply H. apply in_seq. lia. Qed.
Lemma sq_nonneg (a : F) : nonneg (a * a).
Proof. apply (nonneg_eq (nrm2 a)); [unfold nrm2; rewrite real_field; reflexivity|apply nn_nrm2]. Qed.

(* an affine function that is <= e at both ends of an interval is <= e inside *)
Lemma affine_between (clo chi c A g e : F) : le clo c -> le c chi ->
  le A e -> le (A + (chi - clo) * g) e -> le (A + (c - clo) * g) e.
Proof.
  unfold le. intros H1 H2 HA HB.
  destruct (eq0_dec (chi - clo)) as [E|E].
  - assert (Ec : c = clo).
    { apply le_antisym; unfold le; [|exact H1]. apply (nonneg_eq (chi - c)); [|exact H2].
      transitivity (chi - clo + (clo - c)); [ring|]. rewrite E. ring. }
    rewrite Ec. apply (nonneg_eq (e - A)); [ring|exact HA].
  - assert (Hp : pos (chi - clo)).
    { split; [|exact E]. apply (nonneg_eq ((chi - c) + (c - clo))); [ring|apply nn_add; assumption]. }
    apply (nonneg_cancel _ (chi - clo) Hp).
    apply (nonneg_eq ((chi - c) * (e - A) + (c - clo) * (e - (A + (chi - clo) * g)))); [ring|].
    apply nn_add; apply nn_mul; assumption.
Qed.

(* what the boolean says, clause by clause (bounds at the two ends of the enclosure) *)
Lemma cert_check_parts N k (clo chi : F) Vl thetal eo er :
  cert_check N k clo chi Vl thetal eo er = true ->
  let V := fun j => nthF (nth j Vl []) in
  le clo chi /\ le 0 eo /\ le 0 er
  /\ (forall j l, (j < k)%nat -> (l < k)%nat ->
      le (dot N (V j) (V l) - delta j l) eo /\ le (- (dot N (V j) (V l) - delta j l)) eo)
  /\ (forall j i, (j < k)%nat -> (i < N)%nat ->
      (le (resid N clo (V j) (nthF thetal j) i) er /\ le (- resid N clo (V j) (nthF thetal j) i) er)
      /\ (le (resid N chi (V j) (nthF thetal j) i) er /\ le (- resid N chi (V j) (nthF thetal j) i) er)).
Proof.
  unfold cert_check. intros H. cbv zeta.
  repeat (apply andb_prop in H; destruct H as [H ?]).
  match goal with Hg : gram_ok _ _ _ _ = true |- _ => rename Hg into HG end.
  match goal with Hr : resid_ok _ _ _ _ _ _ _ = true |- _ => rename Hr into HR end.
  match goal with Hr : leb clo chi = true |- _ => apply leb_le in Hr; rename Hr into Hcc end.
  match goal with Hr : leb 0 eo = true |- _ => apply leb_le in Hr; rename Hr into Heo end.
  match goal with Hr : leb 0 er = true |- _ => apply leb_le in Hr; rename Hr into Her end.
  split; [exact Hcc|]. split; [exact Heo|]. split; [exact Her|]. split.
  - intros j l Hj Hl. unfold gram_ok in HG.
    apply absle_spec. apply (allb_spec _ _ (allb_spec _ _ HG j Hj) l Hl).
  - intros j i Hj Hi. unfold resid_ok in HR.
    pose proof (allb_spec _ _ (allb_spec _ _ HR j Hj) i Hi) as Hji. cbv beta in Hji.
    apply andb_prop in Hji. destruct Hji as [Hlo Hhi].
    apply absle_spec in Hlo. apply absle_spec in Hhi. split; assumption.
Qed.

(* residual bounds at both ends of [clo, chi] hold at every c in between (the residual is affine in c) *)
Lemma bounds_between N (clo chi c er : F) (v : nat -> F) th i : le clo c -> le c chi ->
  le (resid N clo v th i) er /\ le (- resid N clo v th i) er ->
  le (resid N chi v th i) er /\ le (- resid N chi v th i) er ->
  le (resid N c v th i) er /\ le (- resid N c v th i) er.
Proof.
  intros Hc1 Hc2 [Hlo1 Hlo2] [Hhi1 Hhi2]. split.
  - rewrite (resid_affine N c clo v th i).
    apply (affine_between clo chi c); try assumption.
    rewrite <- (resid_affine N chi clo v th i). exact Hhi1.
  - rewrite (resid_affine N c clo v th i).
    apply (nonneg_eq (er - (- resid N clo v th i + (c - clo) * (- (hh N i * hh N i * v i))))); [unfold le; ring|].
    apply (affine_between clo chi c (- resid N clo v th i) (- (hh N i * hh N i * v i)) er); try assumption.
    unfold le. apply (nonneg_eq (er - - resid N chi v th i)); [|exact Hhi2].
    rewrite (resid_affine N chi clo v th i). ring.
Qed.

Theorem cert_sound_thm N k (clo chi : F) Vl thetal eo er :
  cert_check N k clo chi Vl thetal eo er = true ->
  let V := fun j => nthF (nth j Vl []) in
  (forall j l, (j < k)%nat -> (l < k)%nat ->
      le (dot N (V j) (V l) - delta j l) eo /\ le (- (dot N (V j) (V l) - delta j l)) eo)
  /\ (forall c, le clo c -> le c chi -> forall j i, (j < k)%nat -> (i < N)%nat ->
      le (resid N c (V j) (nthF thetal j) i) er /\ le (- resid N c (V j) (nthF thetal j) i) er).
Proof.
  intros H. destruct (cert_check_parts N k clo chi Vl thetal eo er H) as [_ [_ [_ [HG HR]]]]. cbv zeta in *.
  split; [exact HG|].
  intros c Hc1 Hc2 j i Hj Hi. destruct (HR j i Hj Hi) as [Hlo Hhi].
  apply (bounds_between N clo chi c); assumption.
Qed.

(* ---------------- small residual => near an eigenvalue (spectral decomposition as hypothesis) ---------------- *)
Lemma abs_bound_sq (x e : F) : le x e -> le (- x) e -> le (x * x) (e * e).
Proof.
  unfold le. intros H1 H2. apply (nonneg_eq ((e - x) * (e - - x))); [ring|apply nn_mul; assumption].
Qed.
Lemma sum_sq_bound N (r : nat -> F) (e : F) : (forall i, (i < N)%nat -> le (r i) e /\ le (- r i) e) ->
  le (dot N r r) (ofnat N * (e * e)).
Proof.
  intros H. unfold le, dot. rewrite <- sumf_const, <- sumf_sub. apply nonneg_sumf. intros i Hi.
  destruct (H i Hi) as [H1 H2]. apply (abs_bound_sq _ _ H1 H2).
Qed.

Lemma exists_or_all N (P Q : nat -> Prop) : (forall m, (m < N)%nat -> P m \/ Q m) ->
  (exists m, (m < N)%nat /\ P m) \/ (forall m, (m < N)%nat -> Q m).
Proof.
  induction N as [|N IH]; intros H.
  - right. intros m Hm. lia.
  - destruct IH as [[m [Hm Pm]]|HQ].
    + intros m Hm. apply H. lia.
    + left. exists m. split; [lia|exact Pm].
    + destruct (H N ltac:(lia)) as [PN|QN].
      * left. exists N. split; [lia|exact PN].
      * right. intros m Hm. destruct (Nat.eq_dec m N) as [->|Hne]; [exact QN|apply HQ; lia].
Qed.

(* U m: eigenvectors of T(c) with eigenvalues mu m, complete (Parseval for every vector).
   If |T v - theta v|^2 <= R and |v|^2 >= n0 > 0 then some (mu m - theta)^2 * n0 <= R. *)
Theorem residual_eigenvalue_thm N (c theta : F) (v : nat -> F) (U : nat -> nat -> F) (mu : nat -> F) (R n0 : F) :
  (forall m i, (m < N)%nat -> (i < N)%nat -> tmul N c (U m) i = mu m * U m i) ->
  (forall x : nat -> F, dot N x x = sumf N (fun m => dot N (U m) x * dot N (U m) x)) ->
  le (dot N (fun i => resid N c v theta i) (fun i => resid N c v theta i)) R -> le n0 (dot N v v) -> pos n0 -> nonneg R ->
  exists m, (m < N)%nat /\ le ((mu m - theta) * (mu m - theta) * n0) R.
Proof.
  intros HU HP Hres Hn0 Hpos HR.
  set (w := fun i => resid N c v theta i) in *.
  set (cm := fun m => dot N (U m) v).
  assert (Hcoef : forall m, (m < N)%nat -> dot N (U m) w = (mu m - theta) * cm m).
  { intros m Hm. unfold w, resid.
    transitivity (dot N (U m) (tmul N c v) - theta * dot N (U m) v).
    { unfold dot. rewrite <- sumf_scale, <- sumf_sub. apply sumf_ext; intros i _. ring. }
    rewrite tmul_sym. unfold cm.
    replace (dot N (tmul N c (U m)) v) with (mu m * dot N (U m) v); [ring|].
    unfold dot. rewrite <- sumf_scale. apply sumf_ext; intros i Hi. rewrite (HU m i Hm Hi). ring. }
  assert (Eww : dot N w w = sumf N (fun m => (mu m - theta) * (mu m - theta) * (cm m * cm m))).
  { rewrite (HP w). apply sumf_ext; intros m Hm. rewrite (Hcoef m Hm). ring. }
  assert (Evv : dot N v v = sumf N (fun m => cm m * cm m)) by apply HP.
  destruct (exists_or_all N (fun m => le ((mu m - theta) * (mu m - theta) * n0) R)
                            (fun m => pos ((mu m - theta) * (mu m - theta) * n0 - R))) as [Hex|Hall].
  { intros m _. destruct (real_cases ((mu m - theta) * (mu m - theta) * n0 - R) (real_field _)) as [Hp|Hn]; [right; exact Hp|left].
    unfold le. apply (nonneg_eq (- ((mu m - theta) * (mu m - theta) * n0 - R))); [ring|exact Hn]. }
  { exact Hex. }
  exfalso.
  set (S := sumf N (fun m => ((mu m - theta) * (mu m - theta) * n0 - R) * (cm m * cm m))).
  assert (ES : S = n0 * dot N w w - R * dot N v v).
  { rewrite Eww, Evv, <- !sumf_scale, <- sumf_sub. apply sumf_ext; intros m _. ring. }
  assert (Hterm : forall m, (m < N)%nat -> nonneg (((mu m - theta) * (mu m - theta) * n0 - R) * (cm m * cm m))).
  { intros m Hm. apply nn_mul; [apply (Hall m Hm)|apply sq_nonneg]. }
  assert (HS1 : nonneg S) by (apply nonneg_sumf; exact Hterm).
  assert (HS2 : nonneg (- S)).
  { rewrite ES. apply (nonneg_eq (n0 * (R - dot N w w) + R * (dot N v v - n0))); [ring|].
    apply nn_add; apply nn_mul; try assumption. apply Hpos. }
  assert (S0 : S = 0) by (apply nn_antisym; assumption).
  assert (Hz : forall m, (m < N)%nat -> cm m * cm m = 0).
  { intros m Hm. pose proof (sumf_nonneg_zero N _ Hterm S0 m Hm) as E.
    apply (mul_cancel_l _ _ E). apply (Hall m Hm). }
  assert (Ev0 : dot N v v = 0) by (rewrite Evv; apply sumf_zero_ext; exact Hz).
  destruct Hpos as [Hnn Hne]. apply Hne. apply nn_antisym; [exact Hnn|].
  unfold le in Hn0. rewrite Ev0 in Hn0. apply (nonneg_eq (0 - n0)); [ring|exact Hn0].
Qed.

(* from the bounds (however obtained) to the eigenvalue statement *)
Theorem eigenvalue_from_bounds_thm N (c theta eo er : F) (v : nat -> F) (U : nat -> nat -> F) (mu : nat -> F) :
  le (- (dot N v v - 1)) eo -> lt eo 1 ->
  (forall i, (i < N)%nat -> le (resid N c v theta i) er /\ le (- resid N c v theta i) er) ->
  (forall m i, (m < N)%nat -> (i < N)%nat -> tmul N c (U m) i = mu m * U m i) ->
  (forall x : nat -> F, dot N x x = sumf N (fun m => dot N (U m) x * dot N (U m) x)) ->
  exists m, (m < N)%nat /\ le ((mu m - theta) * (mu m - theta) * (1 - eo)) (ofnat N * (er * er)).
Proof.
  intros HG Heo HR HU HP.
  apply (residual_eigenvalue_thm N c theta v U mu); try assumption.
  - apply sum_sq_bound. exact HR.
  - unfold le in *. apply (nonneg_eq (eo - - (dot N v v - 1))); [ring|exact HG].
  - apply nn_mul; [apply nonneg_ofnat|apply sq_nonneg].
Qed.

Theorem cert_eigenvalue_thm N k (clo chi c : F) Vl thetal eo er (U : nat -> nat -> F) (mu : nat -> F) :
  cert_check N k clo chi Vl thetal eo er = true -> le clo c -> le c chi -> lt eo 1 ->
  (forall m i, (m < N)%nat -> (i < N)%nat -> tmul N c (U m) i = mu m * U m i) ->
  (forall x : nat -> F, dot N x x = sumf N (fun m => dot N (U m) x * dot N (U m) x)) ->
  forall j, (j < k)%nat -> exists m, (m < N)%nat /\
    le ((mu m - nthF thetal j) * (mu m - nthF thetal j) * (1 - eo)) (ofnat N * (er * er)).
Proof.
  intros Hc Hc1 Hc2 Heo HU HP j Hj.
  destruct (cert_sound_thm N k clo chi Vl thetal eo er Hc) as [HG HR]. cbv zeta in HG, HR.
  apply (eigenvalue_from_bounds_thm N c (nthF thetal j) eo er (nthF (nth j Vl [])) U mu); try assumption.
  - destruct (HG j j Hj Hj) as [_ H2]. unfold delta in H2. rewrite Nat.eqb_refl in H2. exact H2.
  - intros i Hi. apply (HR c Hc1 Hc2 j i Hj Hi).
Qed.
End Cert.
