(* C05 — NFFT only chooses the sampling grid: arma2psd (every parametric class goes through it) and minvar.
   Fine grid c*n with character tw', coarse grid n with character [coarsen c tw']. *)
Require Import Spectrum.Theory.Ops Spectrum.Theory.Sum Spectrum.Theory.Vec Spectrum.Theory.Dft
               Spectrum.Model.Levinson Spectrum.Model.Burg Spectrum.Model.Corr Spectrum.Model.Periodogram
               Spectrum.Model.Arma2psd Spectrum.Model.Minvar
               Spectrum.Proofs.GridTheory Spectrum.Proofs.Arma2psdTheory Spectrum.Proofs.CorrelogramTheory
               Spectrum.Proofs.MinvarTheory Spectrum.Proofs.MinvarFinal Spectrum.Proofs.GridFourier_C05.

Section GridParam.
Context {F : Type} {OF : Ops F} {L : Laws OF}.
Local Open Scope F_scope.
Add Field FFgp : (fth (O:=OF)).

(* ---------------- arma2psd: NFFT > max(len A, len B) ---------------- *)
Lemma polyz_grid (c : nat) (tw' : Z -> F) (a : list F) (k : nat) :
  polyz tw' a (Z.of_nat (c * k)) = polyz (coarsen c tw') a (Z.of_nat k).
Proof. unfold polyz, coarsen. f_equal. apply sumf_ext; intros j _. do 2 f_equal. lia. Qed.

Lemma admissible_grid (A B : option (list F)) (n c : nat) : (0 < c)%nat -> admissible A B n -> admissible A B (c * n).
Proof. intros Hc (H1 & H2 & H3). split; [exact H1|]. split; nia. Qed.

Lemma rawbin_grid (n c : nat) (tw' : Z -> F) {T' : Twiddle (c * n) tw'} A B rho T (k : nat) :
  (0 < c)%nat -> (0 < n)%nat -> admissible A B n -> (k < n)%nat ->
  rawbin tw' A B rho T (c * n) (c * k) = rawbin (coarsen c tw') A B rho T n k.
Proof.
  intros Hc Hn (Hab & HA & HB) Hk.
  pose proof (twiddle_coarsen n c tw' Hc Hn T') as Tc.
  assert (Hk' : (c * k < c * n)%nat) by nia.
  unfold rawbin. destruct A as [a|], B as [b|]; cbn [olen] in HA, HB;
    rewrite ?(dft_coeffs (c * n) tw') by (try exact Hk'; nia);
    rewrite ?(dft_coeffs n (coarsen c tw')) by (try exact Hk; lia);
    rewrite ?polyz_grid; reflexivity.
Qed.

(* default sides, no normalisation (what every class passes): same IndexError/ValueError behaviour on both grids is
   [admissible]; the two spectra agree at common frequencies, whatever rho and T are *)
Theorem arma2psd_grid_thm (n c : nat) (tw' : Z -> F) {T' : Twiddle (c * n) tw'} (A B : option (list F)) (rho T : F) :
  (0 < c)%nat -> admissible A B n ->
  exists pc pf, arma2psd (coarsen c tw') A B rho T n SidesDefault false = Some pc
             /\ arma2psd tw' A B rho T (c * n) SidesDefault false = Some pf
             /\ length pc = n /\ length pf = (c * n)%nat
             /\ forall k, (k < n)%nat -> nthF pf (c * k)%nat = nthF pc k.
Proof.
  intros Hc Hadm.
  assert (Hn : (0 < n)%nat).
  { destruct Hadm as (Hab & HA & HB). destruct A as [a|]; [cbn [olen] in HA; lia|].
    destruct B as [b|]; [cbn [olen] in HB; lia|]. destruct Hab; congruence. }
  eexists; eexists. split; [apply arma2psd_unfold; exact Hadm|].
  split; [apply arma2psd_unfold; apply admissible_grid; assumption|].
  cbn [arma_post]. split; [apply mk_length|]. split; [apply mk_length|].
  intros k Hk. rewrite !nth_mk by nia. f_equal. apply rawbin_grid; assumption.
Qed.

(* ---------------- minvar: NFFT >= 2*order-1 ---------------- *)
(* the psi buffer is the Hermitian layout of the lags 0..m-1 *)
Lemma psi_is_layout m nfft (A : list F) P j : (1 <= m)%nat -> (2 * m - 1 <= nfft)%nat -> (j < nfft)%nat ->
  nthF (psi_loop m nfft A P) j = layout nfft (m - 1) (psiK m A P) (fun d => conj (psiK m A P d)) j.
Proof.
  intros Hm Hn Hj. rewrite psi_loop_nth by exact Hn. unfold psi_fun, layout.
  destruct (Nat.ltb_spec j m) as [H1|H1].
  - destruct (Nat.leb_spec (nfft - (m - 1)) j); [lia|]. destruct (Nat.leb_spec j (m - 1)); [reflexivity|lia].
  - destruct (Nat.ltb_spec (nfft - m) j) as [H2|H2]; destruct (Nat.ltb_spec j nfft); try lia; cbn [andb].
    + destruct (Nat.leb_spec (nfft - (m - 1)) j); [reflexivity|lia].
    + destruct (Nat.leb_spec (nfft - (m - 1)) j); [lia|]. destruct (Nat.leb_spec j (m - 1)); [lia|reflexivity].
Qed.

(* fft(psi, NFFT)[k] = sum over the lags of the fixed Hermitian sequence: NFFT enters only through the character *)
Lemma psi_dft_lags nfft (tw : Z -> F) {T : Twiddle nfft tw} m (A : list F) P (k : nat) :
  (1 <= m)%nat -> (2 * m - 1 <= nfft)%nat -> (k < nfft)%nat ->
  nthF (dft tw nfft (psi_loop m nfft A P)) k
  = sumf (m - 1 + 1) (fun d => psiK m A P d * tw (Z.of_nat d * Z.of_nat k)%Z)
    + sumf (m - 1) (fun d => conj (psiK m A P (d + 1)) * tw (- (Z.of_nat (d + 1) * Z.of_nat k))%Z).
Proof.
  intros Hm Hn Hk. rewrite nth_dft_crop by exact Hk. unfold dftN.
  rewrite <- (layout_dft nfft tw (m - 1) (psiK m A P) (fun d => conj (psiK m A P d)) (Z.of_nat k)) by lia.
  apply sumf_ext; intros i Hi. f_equal. apply psi_is_layout; assumption.
Qed.

Lemma minvar_bin_grid (n c : nat) (tw' : Z -> F) {T' : Twiddle (c * n) tw'} m (A : list F) P (k : nat) :
  (0 < c)%nat -> (1 <= m)%nat -> (2 * m - 1 <= n)%nat -> (k < n)%nat ->
  nthF (dft tw' (c * n) (psi_loop m (c * n) A P)) (c * k) = nthF (dft (coarsen c tw') n (psi_loop m n A P)) k.
Proof.
  intros Hc Hm Hn Hk.
  pose proof (twiddle_coarsen n c tw' Hc ltac:(lia) T') as Tc.
  rewrite (psi_dft_lags (c * n) tw') by nia.
  rewrite (psi_dft_lags n (coarsen c tw')) by assumption.
  apply (bt_grid c tw' (psiK m A P) (fun d => conj (psiK m A P d)) (m - 1) k).
Qed.

(* minvar(X, order, sampling, NFFT): same exceptions, same AR vector and reflection coefficients, same PSD at common frequencies *)
Theorem minvar_grid_thm (n c : nat) (tw' : Z -> F) {T' : Twiddle (c * n) tw'} (x : list F) (m : nat) (s : F) :
  (0 < c)%nat -> (2 * m - 1 <= n)%nat ->
  match minvar (coarsen c tw') x m s n, minvar tw' x m s (c * n) with
  | Some (pc, Ac, kc), Some (pf, Af, kf) =>
      Ac = Af /\ kc = kf /\ length pc = n /\ length pf = (c * n)%nat /\ forall k, (k < n)%nat -> nthF pf (c * k)%nat = nthF pc k
  | None, None => True
  | _, _ => False
  end.
Proof.
  intros Hc Hn. unfold minvar.
  destruct (arburg x (m - 1) no_stop) as [[[a P] ks]|] eqn:E; [|exact I].
  pose proof (arburg_some_order _ _ _ _ E) as Ho.
  destruct (Nat.ltb_spec n m); [lia|]. destruct (Nat.ltb_spec (c * n) m); [nia|].
  split; [reflexivity|]. split; [reflexivity|].
  split; [rewrite map_length; apply dft_length|]. split; [rewrite map_length; apply dft_length|].
  intros k Hk. rewrite !nthF_map_lt by (rewrite dft_length; nia).
  do 2 f_equal. apply minvar_bin_grid; try assumption; lia.
Qed.
End GridParam.
