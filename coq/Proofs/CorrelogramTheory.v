(* CORRELOGRAMPSD: the layout of the lag sequence in the FFT buffer, the Blackman-Tukey form of every
   bin, and Wiener-Khinchin (rectangular window, lag N-1, biased, NFFT >= 2N-1 => the periodogram). *)
Require Import Spectrum.Theory.Ops Spectrum.Theory.Sum Spectrum.Theory.Vec Spectrum.Theory.Dft Spectrum.Theory.Order
               Spectrum.Model.Corr Spectrum.Proofs.CorrTheory Spectrum.Model.Periodogram Spectrum.Proofs.PeriodogramTheory.

Section CorT.
Context {F : Type} {OF : Ops F} {L : Laws OF}.
Local Open Scope F_scope.
Add Field FFcg : (fth (O:=OF)).

(* ---------- slice assignment ---------- *)
Lemma set_nth_length i v (l : list F) : length (set_nth i v l) = length l.
Proof. revert i; induction l; intros i; [destruct i; reflexivity|]. destruct i; cbn; [reflexivity|]. rewrite IHl. reflexivity. Qed.
Lemma nth_set_nth i v (l : list F) j : (i < length l)%nat ->
  nthF (set_nth i v l) j = if (j =? i)%nat then v else nthF l j.
Proof.
  revert i j; induction l; intros i j H; [cbn in H; lia|].
  destruct i; destruct j; cbn [set_nth]; try reflexivity.
  rewrite !nthF_consS. cbn [Nat.eqb]. apply IHl. cbn in H. lia.
Qed.
Lemma writes_length n idx v (l : list F) : length (writes n idx v l) = length l.
Proof. induction n; cbn [writes]; [reflexivity|]. rewrite set_nth_length. exact IHn. Qed.
(* psd[1:n+1] = v *)
Lemma nth_writes_up n (v : nat -> F) (l : list F) j : (n + 1 <= length l)%nat ->
  nthF (writes n (fun t => (1 + t)%nat) v l) j = if ((1 <=? j) && (j <=? n))%nat then v (j - 1)%nat else nthF l j.
Proof.
  induction n; intros H.
  - cbn [writes]. destruct (Nat.leb_spec 1 j), (Nat.leb_spec j 0); cbn [andb]; try reflexivity; lia.
  - cbn [writes]. rewrite nth_set_nth by (rewrite writes_length; lia). rewrite IHn by lia.
    destruct (Nat.eqb_spec j (1 + n)), (Nat.leb_spec 1 j), (Nat.leb_spec j n), (Nat.leb_spec j (S n)); cbn [andb]; try lia; try reflexivity.
    subst j. f_equal. lia.
Qed.
(* psd[-1:m-n-1:-1] = v  (m = len(psd)) *)
Lemma nth_writes_down m n (v : nat -> F) (l : list F) j : length l = m -> (n + 1 <= m)%nat ->
  nthF (writes n (fun t => (m - 1 - t)%nat) v l) j = if ((m - n <=? j) && (j <? m))%nat then v (m - 1 - j)%nat else nthF l j.
Proof.
  intros Hl. induction n; intros H.
  - cbn [writes]. destruct (Nat.leb_spec (m - 0) j), (Nat.ltb_spec j m); cbn [andb]; try reflexivity; lia.
  - cbn [writes]. rewrite nth_set_nth by (rewrite writes_length; lia). rewrite IHn by lia.
    destruct (Nat.eqb_spec j (m - 1 - n)), (Nat.leb_spec (m - n) j), (Nat.leb_spec (m - S n) j), (Nat.ltb_spec j m); cbn [andb]; try lia; try reflexivity.
    subst j. f_equal. lia.
Qed.
Lemma nthF_skipn m (l : list F) t : nthF (skipn m l) t = nthF l (m + t).
Proof.
  revert l; induction m; intros l; [reflexivity|]. destruct l.
  - unfold nthF. cbn. destruct t; reflexivity.
  - cbn [skipn]. rewrite IHm. reflexivity.
Qed.

(* ---------- the buffer as a function of the index ---------- *)
(* values at the positive lags d = 0..lag, and at the negative lags -d, d = 1..lag *)
Definition bt_a (rxy w : list F) (d : nat) : F := match d with O => nthF rxy 0 | S t => nthF rxy (1 + t) * nthF w t end.
Definition bt_b (ryx w : list F) (d : nat) : F := match d with O => 0 | S t => conj (nthF ryx (1 + t)) * nthF w t end.
Definition layout (n lag : nat) (a b : nat -> F) (i : nat) : F :=
  if (n - lag <=? i)%nat then b (n - i)%nat else if (i <=? lag)%nat then a i else 0.

Lemma psd_layout n lag (rxy ryx w : list F) i : (lag + 1 <= n)%nat -> (i < n)%nat ->
  nthF (writes lag (fun t => (n - 1 - t)%nat) (fun t => conj (nthF ryx (1 + t)) * nthF w t)
         (writes lag (fun t => (1 + t)%nat) (fun t => nthF rxy (1 + t) * nthF w t)
           (set_nth 0 (nthF rxy 0) (mk n (fun _ => 0))))) i
  = layout n lag (bt_a rxy w) (bt_b ryx w) i.
Proof.
  intros Hn Hi. rewrite (nth_writes_down n) by (rewrite ?writes_length, ?set_nth_length, ?mk_length; lia).
  unfold layout. destruct (Nat.leb_spec (n - lag) i) as [H1|H1].
  - destruct (Nat.ltb_spec i n); [|lia]. cbn [andb]. replace (n - i)%nat with (S (n - 1 - i)) by lia. reflexivity.
  - cbn [andb]. rewrite nth_writes_up by (rewrite set_nth_length, mk_length; lia).
    destruct (Nat.leb_spec i lag) as [H2|H2].
    + destruct (Nat.leb_spec 1 i) as [H3|H3]; cbn [andb].
      * destruct i; [lia|]. cbn [bt_a]. replace (S i - 1)%nat with i by lia. reflexivity.
      * replace i with O by lia. rewrite nth_set_nth by (rewrite mk_length; lia). reflexivity.
    + destruct (Nat.leb_spec 1 i); cbn [andb]; [|lia]. rewrite nth_set_nth by (rewrite mk_length; lia).
      destruct (Nat.eqb_spec i 0); [lia|]. rewrite nth_mk by exact Hi. reflexivity.
Qed.

(* ---------- the DFT of the buffer when the two halves do not overlap ---------- *)
Section Layout.
Context (n : nat) (tw : Z -> F) {T : Twiddle n tw}.
Lemma layout_dft lag (a b : nat -> F) (k : Z) : (2 * lag + 1 <= n)%nat ->
  sumf n (fun i => layout n lag a b i * tw (Z.of_nat i * k)%Z)
  = sumf (lag + 1) (fun d => a d * tw (Z.of_nat d * k)%Z)
    + sumf lag (fun d => b (d + 1)%nat * tw (- (Z.of_nat (d + 1) * k))%Z).
Proof.
  intros H.
  transitivity (sumf ((lag + 1) + ((n - 2 * lag - 1) + lag)) (fun i => layout n lag a b i * tw (Z.of_nat i * k)%Z)).
  { f_equal. lia. }
  rewrite (sumf_split (lag + 1) (n - 2 * lag - 1 + lag)), (sumf_split (n - 2 * lag - 1) lag). cbv beta.
  rewrite (sumf_ext (lag + 1) (fun i => layout n lag a b i * tw (Z.of_nat i * k)%Z) (fun d => a d * tw (Z.of_nat d * k)%Z)).
  2:{ intros i Hi. unfold layout. destruct (Nat.leb_spec (n - lag) i); [lia|]. destruct (Nat.leb_spec i lag); [reflexivity|lia]. }
  rewrite (sumf_zero_ext (n - 2 * lag - 1) (fun i => layout n lag a b (lag + 1 + i) * tw (Z.of_nat (lag + 1 + i) * k)%Z)).
  2:{ intros i Hi. unfold layout. destruct (Nat.leb_spec (n - lag) (lag + 1 + i)); [lia|].
      destruct (Nat.leb_spec (lag + 1 + i) lag); [lia|]. ring. }
  rewrite (sumf_rev lag (fun d => b (d + 1)%nat * tw (- (Z.of_nat (d + 1) * k))%Z)).
  rewrite (sumf_ext lag (fun i => layout n lag a b (lag + 1 + (n - 2 * lag - 1 + i)) * tw (Z.of_nat (lag + 1 + (n - 2 * lag - 1 + i)) * k)%Z)
                        (fun i => b (lag - 1 - i + 1)%nat * tw (- (Z.of_nat (lag - 1 - i + 1) * k))%Z)).
  2:{ intros i Hi. unfold layout. destruct (Nat.leb_spec (n - lag) (lag + 1 + (n - 2 * lag - 1 + i))); [|lia].
      f_equal; [f_equal; lia|].
      assert (E : Z.of_nat (lag + 1 + (n - 2 * lag - 1 + i)) = (Z.of_nat n - Z.of_nat (lag - 1 - i + 1))%Z) by lia.
      rewrite E.
      replace ((Z.of_nat n - Z.of_nat (lag - 1 - i + 1)) * k)%Z with (- (Z.of_nat (lag - 1 - i + 1) * k) + k * Z.of_nat n)%Z by ring.
      apply (tw_period n tw). lia. }
  ring.
Qed.
End Layout.

(* ---------- every bin of the correlogram (Blackman-Tukey form), NFFT >= 2*lag+1 ---------- *)
Theorem correlogram_bins_thm n tw {T : Twiddle n tw} rp (x : list F) y lag wfull NFFT nm be rxy ryx :
  resolve NFFT (length x) = n -> (lag < length x)%nat -> (2 * lag + 1 <= n)%nat ->
  corr_pos be rp x (match y with None => x | Some v => v end) lag nm = Some rxy ->
  (match y with None => Some rxy | Some v => corr_pos be rp v x lag nm end) = Some ryx ->
  exists l, correlogram tw rp x y lag wfull NFFT nm be = Some l /\ length l = n /\
    forall k, (k < n)%nat ->
      nthF l k = re (sumf (lag + 1) (fun d => bt_a rxy (skipn (lag + 1) wfull) d * tw (Z.of_nat d * Z.of_nat k)%Z)
                     + sumf lag (fun d => bt_b ryx (skipn (lag + 1) wfull) (d + 1) * tw (- (Z.of_nat (d + 1) * Z.of_nat k))%Z)).
Proof.
  intros Hres Hlag Hn Hxy Hyx. unfold correlogram. rewrite Hres.
  destruct (Nat.ltb_spec lag (length x)) as [_|]; [|lia]. cbn [negb].
  destruct (Nat.eqb_spec n 0); [lia|].
  destruct (Nat.ltb_spec n (lag + 1)); [lia|]. cbn [andb].
  rewrite Hxy. rewrite Hyx.
  eexists. split; [reflexivity|]. split; [rewrite map_length; apply dft_length|].
  intros k Hk. rewrite nthF_map0 by (rewrite dft_length; exact Hk). f_equal.
  rewrite nth_dft_crop by exact Hk. unfold dftN.
  rewrite <- (layout_dft n tw) by exact Hn.
  apply sumf_ext; intros i Hi. f_equal. apply psd_layout; lia.
Qed.

(* ---------- the biased autocorrelation delivered by either back end ---------- *)
Lemma corr_pos_auto_biased be rp (x : list F) lag : (lag < length x)%nat ->
  exists r, corr_pos be rp x x lag Biased = Some r /\
    forall d, (d <= lag)%nat -> nthF r d = lagsum (length x) (nthF x) d / ofnat (length x).
Proof.
  intros Hlag. destruct be; unfold corr_pos.
  - unfold xcorr. cbv zeta. rewrite Nat.eqb_refl. cbn [negb orb].
    destruct (Nat.ltb_spec (length x) lag); [lia|].
    eexists. split; [reflexivity|]. intros d Hd. rewrite nthF_skipn. rewrite nth_mk by lia.
    unfold xlag. replace (Z.of_nat (lag + d) - Z.of_nat lag)%Z with (Z.of_nat d) by lia.
    destruct (Z.leb_spec 0 (Z.of_nat d)); [|lia]. rewrite Nat2Z.id, lag_sum_sumf. reflexivity.
  - unfold correlation. cbv zeta. rewrite Nat.max_id.
    destruct (Nat.ltb_spec lag (length x)); [|lia].
    eexists. split; [reflexivity|]. intros d Hd. rewrite nth_mk by lia. rewrite lag_sum_sumf.
    destruct d; reflexivity.
Qed.

(* ---------- Wiener-Khinchin ---------- *)
Theorem wiener_khinchin_thm n tw {T : Twiddle n tw} rp twopi fs (x wfull : list F) be :
  (1 <= length x)%nat -> (2 * length x - 1 <= n)%nat -> ofnat (length x) <> 0 ->
  (forall d, (d < length x - 1)%nat -> nthF wfull (length x + d) = 1) ->
  correlogram tw rp x None (length x - 1) wfull (Some n) Biased be
  = Some (speriodogram tw twopi x (mk (length x) (fun _ => 1)) (Some n) false PyFalse PyFalse fs).
Proof.
  intros HN Hn HN0 Hw. assert (Hnpos : (0 < n)%nat) by lia. set (N := length x) in *. set (lag := (N - 1)%nat).
  destruct (corr_pos_auto_biased be rp x lag) as (r & Hr & Hrd); [unfold lag; fold N; lia|]. fold N in Hrd.
  destruct (correlogram_bins_thm n tw rp x None lag wfull (Some n) Biased be r r) as (l & Hl & Hlen & Hk);
    try reflexivity; try exact Hr; try (unfold lag; fold N; lia).
  rewrite Hl. f_equal. apply list_eq_nth.
  - rewrite Hlen. rewrite periodogram_length_thm by (cbn [resolve]; lia). reflexivity.
  - intros k Hk'. rewrite Hlen in Hk'. rewrite (Hk k Hk').
    rewrite periodogram_def_thm by (try reflexivity; cbn [resolve nbins]; fold N; lia). fold N.
    replace (dftN tw N (fun i => nthF x i * nthF (mk N (fun _ => 1)) i) (Z.of_nat k)) with (dftN tw N (nthF x) (Z.of_nat k)).
    2:{ unfold dftN. apply sumf_ext; intros i Hi. rewrite nth_mk by exact Hi. ring. }
    rewrite (wk_core n tw Hnpos N (nthF x) (Z.of_nat k)).
    assert (Hcj : forall a : F, conj (a / ofnat N) = conj a / ofnat N).
    { intros a. rewrite conj_div by exact HN0. rewrite conj_ofnat. reflexivity. }
    replace (lag + 1)%nat with N by (unfold lag; lia). replace (N - 1)%nat with lag by reflexivity.
    rewrite (sumf_ext N _ (fun d => tw (Z.of_nat d * Z.of_nat k)%Z * lagsum N (nthF x) d * inv (ofnat N))).
    2:{ intros d Hd. destruct d.
        - cbn [bt_a]. rewrite Hrd by lia. rewrite div_as_mul. ring.
        - cbn [bt_a]. rewrite nthF_skipn. replace (lag + 1 + d)%nat with (N + d)%nat by (unfold lag; lia).
          rewrite Hw by (unfold lag in *; lia). rewrite Hrd by (unfold lag; lia). rewrite div_as_mul. cbn [Nat.add]. ring. }
    rewrite (sumf_ext lag _ (fun d => tw (- (Z.of_nat (d + 1) * Z.of_nat k))%Z * conj (lagsum N (nthF x) (d + 1)) * inv (ofnat N))).
    2:{ intros d Hd. replace (d + 1)%nat with (S d) by lia. cbn [bt_b]. rewrite nthF_skipn.
        replace (lag + 1 + d)%nat with (N + d)%nat by (unfold lag; lia).
        rewrite Hw by (unfold lag in *; lia). rewrite Hrd by (unfold lag; lia). rewrite Hcj. rewrite div_as_mul. cbn [Nat.add]. ring. }
    rewrite !sumf_scale_r.
    set (A := sumf N _). set (B := sumf lag _).
    replace (A * inv (ofnat N) + B * inv (ofnat N)) with ((A + B) / ofnat N) by (rewrite div_as_mul; ring).
    apply re_real. unfold isreal. rewrite Hcj. f_equal.
    unfold A, B. rewrite <- (wk_core n tw Hnpos N (nthF x) (Z.of_nat k)). apply nrm2_real.
Qed.
(* ---------- the buffer that is transformed, overlapping layouts included (NFFT >= lag+1) ---------- *)
Theorem correlogram_buffer_thm tw rp (x : list F) y lag wfull NFFT nm be rxy ryx :
  let n := resolve NFFT (length x) in
  (lag < length x)%nat -> (lag + 1 <= n)%nat ->
  corr_pos be rp x (match y with None => x | Some v => v end) lag nm = Some rxy ->
  (match y with None => Some rxy | Some v => corr_pos be rp v x lag nm end) = Some ryx ->
  correlogram tw rp x y lag wfull NFFT nm be
  = Some (map re (dft tw n (mk n (layout n lag (bt_a rxy (skipn (lag + 1) wfull)) (bt_b ryx (skipn (lag + 1) wfull)))))).
Proof.
  intros n Hlag Hn Hxy Hyx. unfold correlogram. fold n.
  destruct (Nat.ltb_spec lag (length x)) as [_|]; [|lia]. cbn [negb].
  destruct (Nat.eqb_spec n 0); [lia|].
  destruct (Nat.ltb_spec n (lag + 1)); [lia|]. cbn [andb].
  rewrite Hxy. rewrite Hyx. f_equal. f_equal. f_equal.
  apply list_eq_nth.
  - rewrite !writes_length, set_nth_length, !mk_length. reflexivity.
  - intros i Hi. rewrite !writes_length, set_nth_length, mk_length in Hi.
    rewrite psd_layout by lia. rewrite nth_mk by exact Hi. reflexivity.
Qed.

(* ---------- the error branch of the auto-correlogram, exactly ---------- *)
Lemma corr_pos_auto_some be rp (x : list F) lag nm : (lag < length x)%nat -> exists r, corr_pos be rp x x lag nm = Some r.
Proof.
  intros Hlag. destruct be; unfold corr_pos.
  - unfold xcorr. cbv zeta. rewrite Nat.eqb_refl. cbn [negb orb].
    destruct (Nat.ltb_spec (length x) lag); [lia|]. eexists; reflexivity.
  - unfold correlation. cbv zeta. rewrite Nat.max_id.
    destruct (Nat.ltb_spec lag (length x)); [|lia]. eexists; reflexivity.
Qed.
Theorem correlogram_auto_raises_thm tw rp (x : list F) lag wfull NFFT nm be :
  let n := resolve NFFT (length x) in
  correlogram tw rp x None lag wfull NFFT nm be = None <->
  (length x <= lag \/ n = 0 \/ (n < lag + 1 /\ lag <> 1))%nat.
Proof.
  intros n. unfold correlogram. fold n.
  destruct (Nat.ltb_spec lag (length x)) as [Hl|Hl]; cbn [negb]; [|split; [intros _; left; exact Hl|reflexivity]].
  destruct (Nat.eqb_spec n 0) as [Hn|Hn]; [split; [intros _; right; left; exact Hn|reflexivity]|].
  destruct (Nat.ltb_spec n (lag + 1)) as [H1|H1]; destruct (Nat.eqb_spec lag 1) as [H2|H2]; cbn [andb negb];
    try (split; [intros _; right; right; split; assumption|reflexivity]);
    destruct (corr_pos_auto_some be rp x lag nm Hl) as (r & ->); (split; [discriminate|intros [H|[H|[H H']]]; lia]).
Qed.
End CorT.

(* in a formally real *-field N >= 1 is invertible: no side condition *)
Section CorOrd.
Context {F : Type} {OF : Ops F} {L : Laws OF} {OL : OrdLaws OF}.
Local Open Scope F_scope.
Theorem wiener_khinchin_ord_thm n tw {T : Twiddle n tw} rp twopi fs (x wfull : list F) be :
  (1 <= length x)%nat -> (2 * length x - 1 <= n)%nat ->
  (forall d, (d < length x - 1)%nat -> nthF wfull (length x + d) = 1) ->
  correlogram tw rp x None (length x - 1) wfull (Some n) Biased be
  = Some (speriodogram tw twopi x (mk (length x) (fun _ => 1)) (Some n) false PyFalse PyFalse fs).
Proof.
  intros HN Hn Hw. apply (wiener_khinchin_thm n tw); try assumption.
  destruct (pos_ofnat (length x) HN) as [_ H]. exact H.
Qed.
End CorOrd.
