(* The create_window factory over ANY tables (names, routes, signatures): a boolean check
   [table_ok] of the tables against the documentation side of Model/Window.v, and the three
   statements it implies for every keyword-argument list and every length.  The tables the source
   actually contains are regenerated on every run (tools/props/_c20_translate.py) and
   [table_ok gen_names gen_routes gen_sigs = true] is re-established by vm_compute in the generated
   file; the domain is finite (29 names), so that is a complete check. *)
Require Import Spectrum.Theory.Ops Spectrum.Theory.Vec Spectrum.Model.Window.
From Coq Require Import String Ascii List Bool.
Import ListNotations.
Local Open Scope string_scope.
Notation length := List.length.

Definition str_incl (a b : list string) : bool := forallb (fun x => mem x b) a.
Definition str_seteq (a b : list string) : bool := str_incl a b && str_incl b a.
Fixpoint nodupb (l : list string) : bool := match l with [] => true | x :: t => negb (mem x t) && nodupb t end.
Fixpoint strl_eqb (a b : list string) : bool :=
  match a, b with [], [] => true | x :: s, y :: t => String.eqb x y && strl_eqb s t | _, _ => false end.
Definition opt_eqb (a b : option string) : bool :=
  match a, b with Some x, Some y => String.eqb x y | _, _ => false end.
Definition optl_eqb (a b : option (list string)) : bool :=
  match a, b with None, None => true | Some x, Some y => strl_eqb x y | _, _ => false end.

Definition known_gens : list string :=
  ["window_rectangle"; "window_kaiser"; "window_blackman"; "window_bartlett"; "window_hamming"; "window_hann";
   "window_gaussian"; "window_chebwin"; "window_cosine"; "window_lanczos"; "window_bartlett_hann"; "window_nuttall";
   "window_blackman_nuttall"; "window_blackman_harris"; "window_bohman"; "window_tukey"; "window_parzen";
   "window_flattop"; "window_taylor"; "window_riesz"; "window_riemann"; "window_poisson"; "window_poisson_hanning";
   "window_cauchy"].

(* generated coefficient table = the model's, as rationals *)
Definition q_eqb (a b : Z * positive) : bool := (fst a * Zpos (snd b) =? fst b * Zpos (snd a))%Z.
Fixpoint coefl_eqb (a b : list (string * (Z * positive))) : bool :=
  match a, b with
  | [], [] => true
  | (x, p) :: s, (y, q) :: t => String.eqb x y && q_eqb p q && coefl_eqb s t
  | _, _ => false
  end.
Definition coeffs_ok (gen : list (string * list (string * (Z * positive)))) : bool :=
  (length gen =? length model_coeffs)%nat &&
  forallb (fun gl => match lookup (fst gl) gen with Some l => coefl_eqb (snd gl) l | None => false end) model_coeffs.

Section Tables.
Variable names : list (string * string).
Variable routes : list (string * list string).
Variable sigs : list (string * list (string * lit_t)).

Definition allowed_of (name : string) : list string :=
  match lookup name routes with Some l => l | None => [] end.
Definition name_ok (name : string) : bool :=
  String.eqb (lower name) name &&
  match lookup name names with
  | Some g => match lookup g sigs with
              | Some sig => str_seteq (allowed_of name) (documented_params name)
                            && str_incl (allowed_of name) (keys sig) && mem g known_gens
              | None => false
              end
  | None => false
  end.
Definition alias_ok (ab : string * string) : bool :=
  opt_eqb (lookup (fst ab) names) (lookup (snd ab) names)
  && optl_eqb (lookup (fst ab) routes) (lookup (snd ab) routes)
  && mem (fst ab) documented_names && mem (snd ab) documented_names.
Definition table_ok : bool :=
  str_seteq (keys names) documented_names && nodupb (keys names)
  && (length names =? 29)%nat
  && forallb name_ok documented_names && forallb alias_ok documented_aliases
  && str_incl (keys routes) (keys names).
End Tables.

Lemma mem_In k l : mem k l = true <-> In k l.
Proof.
  unfold mem. rewrite existsb_exists. split.
  - intros [x [Hx E]]. apply String.eqb_eq in E. subst; exact Hx.
  - intros H. exists k. split; [exact H|apply String.eqb_refl].
Qed.
Lemma str_incl_In a b : str_incl a b = true -> forall x, In x a -> In x b.
Proof. unfold str_incl. rewrite forallb_forall. intros H x Hx. apply mem_In. apply H. exact Hx. Qed.
Lemma strl_eqb_eq a b : strl_eqb a b = true -> a = b.
Proof.
  revert b; induction a as [|x s IH]; intros [|y t]; cbn; try discriminate; [reflexivity|].
  intros H. apply andb_prop in H. destruct H as [E H]. apply String.eqb_eq in E. subst. f_equal. apply IH. exact H.
Qed.
Lemma lookup_In {A} k (l : list (string * A)) v : lookup k l = Some v -> In k (keys l).
Proof.
  induction l as [|[k' v'] t IH]; cbn; [discriminate|].
  destruct (String.eqb_spec k k') as [->|Hne]; [intros _; left; reflexivity|intros H; right; apply IH; exact H].
Qed.

(* whatever create_window returns was produced by the dispatcher run_gen (no assumption on the tables) *)
Lemma create_window_ok_run_gen {F : Type} {OF : Ops F} {TF : TOps F}
      (names : list (string * string)) (routes : list (string * list string))
      (sigs : list (string * list (string * lit_t))) (N : nat) (name : option string) (kw : list (string * pval)) (w : list F) :
  create_window names routes sigs N name kw = WOk w -> exists g env, run_gen g env N = WOk w.
Proof.
  unfold create_window.
  destruct (lookup (lower match name with Some s => s | None => "rectangle" end) names) as [g|]; [|discriminate].
  assert (C : forall kw', call_gen sigs g kw' N = WOk w -> exists g env, run_gen g env N = WOk w).
  { intros kw'. unfold call_gen. destruct (lookup g sigs) as [sig|]; [|discriminate].
    destruct (bind sig kw') as [env|]; [|discriminate]. intros H. exists g, env. exact H. }
  destruct (lookup (lower match name with Some s => s | None => "rectangle" end) routes) as [allowed|].
  - destruct (forallb (fun a => mem (fst a) allowed) kw); [apply C|discriminate].
  - destruct kw; [apply C|discriminate].
Qed.

Section Factory.
Context {F : Type} {OF : Ops F} {TF : TOps F}.
Variable names : list (string * string).
Variable routes : list (string * list string).
Variable sigs : list (string * list (string * lit_t)).
Hypothesis OK : table_ok names routes sigs = true.

Let defaults (sig : list (string * lit_t)) : list (string * pval) :=
  map (fun p => (fst p, pval_of_lit (snd p))) sig.

Lemma ok_parts :
  str_seteq (keys names) documented_names = true /\
  forallb (name_ok names routes sigs) documented_names = true /\
  forallb (alias_ok names routes) documented_aliases = true.
Proof.
  pose proof OK as H. unfold table_ok in H.
  apply andb_prop in H. destruct H as [H _]. apply andb_prop in H. destruct H as [H H5].
  apply andb_prop in H. destruct H as [H H4]. apply andb_prop in H. destruct H as [H _].
  apply andb_prop in H. destruct H as [H1 _]. repeat split; assumption.
Qed.

Lemma name_facts name : In name documented_names ->
  lower name = name /\ exists g sig, lookup name names = Some g /\ lookup g sigs = Some sig
  /\ (forall x, In x (allowed_of routes name) -> In x (documented_params name))
  /\ (forall x, In x (documented_params name) -> In x (allowed_of routes name))
  /\ (forall x, In x (allowed_of routes name) -> In x (keys sig)).
Proof.
  intros Hn. destruct ok_parts as [_ [H _]]. rewrite forallb_forall in H. specialize (H name Hn).
  unfold name_ok in H. apply andb_prop in H. destruct H as [Hl H]. apply String.eqb_eq in Hl.
  split; [exact Hl|].
  destruct (lookup name names) as [g|] eqn:Eg; [|discriminate]. destruct (lookup g sigs) as [sig|] eqn:Es; [|discriminate].
  apply andb_prop in H. destruct H as [H _]. apply andb_prop in H. destruct H as [Hs Hi].
  unfold str_seteq in Hs. apply andb_prop in Hs. destruct Hs as [H1 H2].
  exists g, sig. split; [reflexivity|]. split; [exact Es|]. repeat split.
  - apply str_incl_In; exact H1.
  - apply str_incl_In; exact H2.
  - apply str_incl_In; exact Hi.
Qed.

(* accepted keywords are forwarded verbatim: f(N, **kargs) on the generator the name maps to *)
Theorem factory_routes_thm (name : string) (N : nat) (kw : list (string * pval)) :
  In name documented_names ->
  (forall a, In a kw -> In (fst a) (documented_params name)) ->
  exists g sig, lookup name names = Some g /\ lookup g sigs = Some sig /\
    create_window names routes sigs N (Some name) kw = run_gen g (kw ++ defaults sig) N.
Proof.
  intros Hn Hkw. destruct (name_facts name Hn) as [Hl [g [sig [Hg [Hs [Had [Hda Hak]]]]]]].
  exists g, sig. split; [exact Hg|]. split; [exact Hs|].
  unfold create_window. rewrite Hl, Hg. unfold allowed_of in *.
  destruct (lookup name routes) as [allowed|].
  - assert (E1 : forallb (fun a => mem (fst a) allowed) kw = true).
    { apply forallb_forall. intros a Ha. apply mem_In. apply Hda. apply Hkw. exact Ha. }
    rewrite E1. unfold call_gen. rewrite Hs. unfold bind.
    assert (E2 : forallb (fun a => mem (fst a) (keys sig)) kw = true).
    { apply forallb_forall. intros a Ha. apply mem_In. apply Hak. apply Hda. apply Hkw. exact Ha. }
    rewrite E2. reflexivity.
  - destruct kw as [|a t].
    + unfold call_gen. rewrite Hs. reflexivity.
    + exfalso. apply (Hda (fst a)). apply Hkw. left; reflexivity.
Qed.

(* any keyword outside the documented shape parameters of that name is rejected with ValueError *)
Theorem factory_rejects_thm (name : string) (N : nat) (kw : list (string * pval)) :
  In name documented_names ->
  (exists a, In a kw /\ ~ In (fst a) (documented_params name)) ->
  create_window names routes sigs N (Some name) kw = WErr EValue.
Proof.
  intros Hn [a [Ha Hna]]. destruct (name_facts name Hn) as [Hl [g [sig [Hg [Hs [Had [Hda Hak]]]]]]].
  unfold create_window. rewrite Hl, Hg. unfold allowed_of in *.
  destruct (lookup name routes) as [allowed|].
  - assert (E1 : forallb (fun a => mem (fst a) allowed) kw = false).
    { destruct (forallb (fun a0 => mem (fst a0) allowed) kw) eqn:E; [|reflexivity]. exfalso.
      rewrite forallb_forall in E. apply Hna. apply Had. apply mem_In. apply E. exact Ha. }
    rewrite E1. reflexivity.
  - destruct kw; [destruct Ha|reflexivity].
Qed.

Theorem factory_unknown_name_thm (name : string) (N : nat) (kw : list (string * pval)) :
  ~ In (lower name) documented_names ->
  create_window names routes sigs N (Some name) kw = WErr EAssert.
Proof.
  intros Hn. destruct ok_parts as [H _]. unfold str_seteq in H. apply andb_prop in H. destruct H as [H _].
  unfold create_window. destruct (lookup (lower name) names) as [g|] eqn:E; [|reflexivity].
  exfalso. apply Hn. apply (str_incl_In _ _ H). apply (lookup_In _ _ _ E).
Qed.

(* alias names give the same window for every length and every keyword list *)
Theorem aliases_identical_thm (a b : string) (N : nat) (kw : list (string * pval)) :
  In (a, b) documented_aliases ->
  create_window names routes sigs N (Some a) kw = create_window names routes sigs N (Some b) kw.
Proof.
  intros Hab. destruct ok_parts as [_ [_ H]]. rewrite forallb_forall in H. specialize (H (a, b) Hab).
  unfold alias_ok in H. cbn [fst snd] in H.
  apply andb_prop in H. destruct H as [H Hb]. apply andb_prop in H. destruct H as [H Ha].
  apply andb_prop in H. destruct H as [Hn Hr].
  apply mem_In in Ha. apply mem_In in Hb.
  destruct (name_facts a Ha) as [Hla _]. destruct (name_facts b Hb) as [Hlb _].
  unfold create_window. rewrite Hla, Hlb.
  destruct (lookup a names) as [ga|]; [|discriminate]. destruct (lookup b names) as [gb|]; [|destruct ga; discriminate].
  cbn in Hn. apply String.eqb_eq in Hn. subst gb.
  destruct (lookup a routes) as [ra|], (lookup b routes) as [rb|]; cbn in Hr; try discriminate; [|reflexivity].
  apply strl_eqb_eq in Hr. subst rb. reflexivity.
Qed.

(* the Window object reports the factory's samples, the requested length and enbw() of those samples *)
Theorem window_object_reports_thm (N : nat) (name : option string) (kw : list (string * pval)) w n e :
  window_object names routes sigs N name kw = WOk (w, n, e) ->
  create_window names routes sigs N name kw = WOk w /\ n = N /\ e = enbw w /\ N <> O.
Proof.
  unfold window_object. destruct (Nat.eqb_spec N 0) as [->|HN]; [discriminate|].
  destruct name as [s|]; [|discriminate]. destruct (mem s (keys names)); [|discriminate].
  destruct (create_window names routes sigs N (Some s) kw) as [w'|]; [|discriminate].
  intros H. injection H as -> -> ->. repeat split; try reflexivity; exact HN.
Qed.
End Factory.
