(* ma: the IR program generated from arma.py - with the program of aryule (yulewalker.py; itself with CORRELATION and LEVINSON embedded) embedded
   twice - computes the hand-written model Model.MaEst.ma_est: a theorem obtained by composing [aryule_ir_run] (Proofs/LoopIRAryule.v) with itself
   through the semantics of [SCall].

   [prog_ma_ref] is the loop-IR program that tools/props/_loopir.py generates from the source of spectrum.arma.ma at the commit this file was
   written for (kept verbatim below as [prog_ma_gen0], between the BEGIN/END markers, and proved equal to the decomposed definition by
   reflexivity: both embedded callee bodies ARE [p_body prog_aryule_ref]).  The text contains the texts of aryule, CORRELATION and LEVINSON: an
   edit of any of them makes the theorems inapplicable (reported as broken obligations).

   PROVED (abstract field with conjugation [Laws]; any X, ANY integers Q, M, any values in the four hidden oracle slots):
     ma_ir_run c      run prog_ma_ref (X tagged [negb c]) = ValueError if Q <= 0 or Q >= M; else the outcome of [gma c]: AssertionError if
                      M >= len(X) (the assertion of CORRELATION inside the first aryule), else ORet [b; rho] tagged [negb c] where [gma c] is
                      the model with [conj] replaced by [cj c] (no ValueError from LEVINSON: aryule's default allow_singularity=True applies)
     ma_ir_complex    complex dtype: run = Model.MaEst.ma_est (unconditionally)
     ma_ir_tie        for every reflexive [feq]: the boolean [tie_ma] of the exact evaluation tie is true for every complex-tagged input
   NOT PROVED: float dtype = Model.MaEst.ma_est (allow_singularity is True inside ma, see LoopIRAryule.v): exact evaluation only; the statement
   [ma_ir_run false] says what the float branches compute. *)
From Coq Require Import String ZArith List Lia Bool.
Require Import Spectrum.Theory.Ops Spectrum.Theory.Sum Spectrum.Theory.Vec Spectrum.Model.LoopIR Spectrum.Model.Levinson Spectrum.Model.Corr
               Spectrum.Model.Yule Spectrum.Model.MaEst Spectrum.Model.LoopIRTie Spectrum.Model.LoopIRWrap
               Spectrum.Proofs.LoopIRLevinson Spectrum.Proofs.LoopIRCorrelation Spectrum.Proofs.LoopIRAryule.
Import ListNotations.
Local Open Scope string_scope.

(* ---------------------------------------------------------------- the program, decomposed *)
Definition ma_guard : stmt := SIf (EOr (ELe0 (EVar 1)) (ECmp CGe (EVar 1) (EVar 2))) (SRaise ValueError) SSkip.
Definition ma_call (dsts : list nat) (args : list (option expr)) : stmt :=
  SCall dsts (p_nparams prog_aryule_ref) (p_defaults prog_aryule_ref) (p_nslots prog_aryule_ref) (p_body prog_aryule_ref) args.
Definition ma_fit1 : stmt :=
  SSeq (ma_call [7%nat; 8%nat; 9%nat] [Some (EVar 0); Some (EVar 2); Some (EStr "biased"); None; Some (EVar 3); Some (EVar 4)])
       (SSeq (SAssign 10 (EVar 7)) (SSeq (SAssign 11 (EVar 8)) (SAssign 12 (EVar 9)))).
Definition ma_insert : stmt := SAssign 10 (EInsert (EVar 10) (EInt 0) (EInt 1)).
Definition ma_fit2 : stmt :=
  SSeq (ma_call [13%nat; 14%nat; 15%nat] [Some (EVar 10); Some (EVar 1); Some (EStr "biased"); None; Some (EVar 5); Some (EVar 6)])
       (SSeq (SAssign 16 (EVar 13)) (SSeq (SAssign 17 (EVar 14)) (SAssign 12 (EVar 15)))).
Definition ma_ret : stmt := SReturn [EVar 16; EVar 11].
Definition ma_main : stmt := SSeq ma_guard (SSeq ma_fit1 (SSeq ma_insert (SSeq ma_fit2 ma_ret))).
Definition prog_ma_ref : program := mkProgram "ma" 7 [None; None; None; None; None; None; None] 18 ma_main.

(* ---------------------------------------------------------------- the model with [cj c] in place of [conj] *)
Section GModel.
Context {F : Type} {OF : Ops F}.
Local Open Scope F_scope.

Definition gma (c : bool) (rp1 rp2 : F) (x : list F) (Q M : nat) : ma_err + (list F * F) :=
  if (Q =? 0)%nat || (M <=? Q)%nat then inl MaValue
  else match garyule c rp1 x M Biased true with
       | inl e => inl (ma_of_yw e)
       | inr (a, rho, _) =>
           match garyule c rp2 (1 :: a) Q Biased true with
           | inl e => inl (ma_of_yw e)
           | inr (b, _, _) => inr (b, rho)
           end
       end.
Definition ma_outcome (t : bool) (res : ma_err + (list F * F)) : @outcome F :=
  match res with
  | inr (b, rho) => ORet [VArr t b; VF rho]
  | inl MaValue => OErr ValueError
  | inl MaAssert => OErr AssertionError
  | inl MaSingular => OErr ValueError
  end.
Lemma gma_true rp1 rp2 x Q M : gma true rp1 rp2 x Q M = ma_est x Q M.
Proof.
  unfold gma, ma_est. destruct ((Q =? 0)%nat || (M <=? Q)%nat); [reflexivity|].
  rewrite garyule_true. destruct (aryule x M Biased true) as [e|[[a rho] k]]; [reflexivity|].
  rewrite garyule_true. reflexivity.
Qed.
End GModel.

(* ---------------------------------------------------------------- the composition *)
Section Main.
Context {F : Type} {OF : Ops F} {L : Laws OF}.
Variable feq : F -> F -> bool.
Variable stop : Z -> F -> F -> bool.
Local Open Scope F_scope.
Add Field FFma : (fth (O:=OF)).
Notation value := (@value F).
Notation store := (@store F).
Notation exec := (@exec F OF feq stop).

Lemma ofZ_one : @ofZ F OF 1 = 1.
Proof. unfold ofZ. change (Pos.to_nat 1) with 1%nat. cbn [ofnat]. ring. Qed.

(* the store: X, Q, M, four oracle slots; three results, a, rho, _c; three results, ma_params, _p *)
Definition mst (t : bool) (x : list F) (Q M : Z) (o1 o2 o3 o4 : F) (v7 v8 v9 v10 v11 v12 v13 v14 v15 v16 v17 : value) : store :=
  [VArr t x; VI Q; VI M; VF o1; VF o2; VF o3; VF o4; v7; v8; v9; v10; v11; v12; v13; v14; v15; v16; v17].

Lemma ma_guard_ok t x Q M o1 o2 o3 o4 :
  exec ma_guard (mst t x Q M o1 o2 o3 o4 VUnbound VUnbound VUnbound VUnbound VUnbound VUnbound VUnbound VUnbound VUnbound VUnbound VUnbound) =
  (mst t x Q M o1 o2 o3 o4 VUnbound VUnbound VUnbound VUnbound VUnbound VUnbound VUnbound VUnbound VUnbound VUnbound VUnbound,
   if ((Q <=? 0) || (M <=? Q))%Z then CErr ValueError else CNormal).
Proof.
  unfold ma_guard, mst. cbn [LoopIR.exec eval get nth bind try compare cmpZ truthy ok].
  destruct (Q <=? 0)%Z; cbn [truthy bind ok try orb]; [reflexivity|].
  destruct (M <=? Q)%Z; reflexivity.
Qed.

(* one Yule-Walker fit through the embedded aryule: the outcome of the call statement *)
Lemma ma_call_ok c dsts args (st : store) (y : list F) (m : nat) (p1 p2 : F) :
  (length dsts = 3)%nat ->
  eval_oargs feq st args = inl [Some (VArr (negb c) y); Some (VI (Z.of_nat m)); Some (VStr "biased"); None; Some (VF p1); Some (VF p2)] ->
  exec (ma_call dsts args) st =
  match garyule c (p1 * p2) y m Biased true with
  | inr (a, rho, k) => (set_all st dsts [VArr (negb c) a; VF rho; VArr (negb c) k], CNormal)
  | inl YAssert => (st, CErr AssertionError)
  | inl YSingular => (st, CErr ValueError)
  end.
Proof.
  intros Hd He.
  assert (H2 : (2 <= length dsts)%nat) by lia.
  pose proof (scall_run feq stop dsts prog_aryule_ref args st _ He H2) as H. fold (ma_call dsts args) in H.
  pose proof (aryule_ir_run feq stop c y m (Some "biased") None p1 p2) as HA. cbv zeta in HA.
  unfold aryule_args, vint in HA. cbn [option_map] in HA. rewrite HA in H. clear HA.
  change (yw_norm (Some "biased")) with (Some Biased) in H. cbv beta iota in H.
  revert H. destruct (garyule c (p1 * p2) y m Biased true) as [[|]|[[a rho] k]]; intros H; cbn [yw_outcome] in H.
  - exact H.
  - exact H.
  - apply H. cbn [length]. symmetry. exact Hd.
Qed.

Theorem ma_ir_run c (x : list F) (Q M : Z) (o1 o2 o3 o4 : F) :
  run feq stop prog_ma_ref [Some (VArr (negb c) x); Some (VI Q); Some (VI M); Some (VF o1); Some (VF o2); Some (VF o3); Some (VF o4)] =
  if ((Q <=? 0) || (M <=? Q))%Z then OErr ValueError
  else ma_outcome (negb c) (gma c (o1 * o2) (o3 * o4) x (Z.to_nat Q) (Z.to_nat M)).
Proof.
  unfold run, prog_ma_ref. cbn [p_defaults p_body p_nslots p_nparams Nat.sub bind_args bind ok app repeat].
  change ([VArr (negb c) x; VI Q; VI M; VF o1; VF o2; VF o3; VF o4; VUnbound; VUnbound; VUnbound; VUnbound; VUnbound; VUnbound;
           VUnbound; VUnbound; VUnbound; VUnbound; VUnbound])
    with (mst (negb c) x Q M o1 o2 o3 o4 VUnbound VUnbound VUnbound VUnbound VUnbound VUnbound VUnbound VUnbound VUnbound VUnbound VUnbound).
  unfold ma_main. pose proof (ma_guard_ok (negb c) x Q M o1 o2 o3 o4) as HG.
  destruct ((Q <=? 0) || (M <=? Q))%Z eqn:Eg.
  - rewrite (exec_seq_stop feq stop ma_guard _ _ _ _ HG) by discriminate. reflexivity.
  - rewrite (exec_seq feq stop ma_guard _ _ _ HG). clear HG.
    apply orb_false_elim in Eg. destruct Eg as [EQ EM]. apply Z.leb_gt in EQ. apply Z.leb_gt in EM.
    unfold gma.
    replace ((Z.to_nat Q =? 0)%nat || (Z.to_nat M <=? Z.to_nat Q)%nat) with false
      by (symmetry; apply orb_false_intro; [apply Nat.eqb_neq; lia|apply Nat.leb_gt; lia]).
    (* first fit *)
    assert (H1 : exec ma_fit1 (mst (negb c) x Q M o1 o2 o3 o4 VUnbound VUnbound VUnbound VUnbound VUnbound VUnbound VUnbound VUnbound VUnbound VUnbound VUnbound) =
                 match garyule c (o1 * o2) x (Z.to_nat M) Biased true with
                 | inr (a, rho, k) =>
                     (mst (negb c) x Q M o1 o2 o3 o4 (VArr (negb c) a) (VF rho) (VArr (negb c) k) (VArr (negb c) a) (VF rho) (VArr (negb c) k)
                          VUnbound VUnbound VUnbound VUnbound VUnbound, CNormal)
                 | inl YAssert => (mst (negb c) x Q M o1 o2 o3 o4 VUnbound VUnbound VUnbound VUnbound VUnbound VUnbound VUnbound VUnbound VUnbound VUnbound VUnbound,
                                   CErr AssertionError)
                 | inl YSingular => (mst (negb c) x Q M o1 o2 o3 o4 VUnbound VUnbound VUnbound VUnbound VUnbound VUnbound VUnbound VUnbound VUnbound VUnbound VUnbound,
                                     CErr ValueError)
                 end).
    { unfold ma_fit1.
      pose proof (ma_call_ok c [7%nat; 8%nat; 9%nat] [Some (EVar 0); Some (EVar 2); Some (EStr "biased"); None; Some (EVar 3); Some (EVar 4)]
                    (mst (negb c) x Q M o1 o2 o3 o4 VUnbound VUnbound VUnbound VUnbound VUnbound VUnbound VUnbound VUnbound VUnbound VUnbound VUnbound)
                    x (Z.to_nat M) o1 o2 eq_refl) as HC.
      rewrite Z2Nat.id in HC by lia. specialize (HC eq_refl).
      destruct (garyule c (o1 * o2) x (Z.to_nat M) Biased true) as [[|]|[[a rho] k]].
      - rewrite (exec_seq_stop feq stop _ _ _ _ _ HC) by discriminate. reflexivity.
      - rewrite (exec_seq_stop feq stop _ _ _ _ _ HC) by discriminate. reflexivity.
      - rewrite (exec_seq feq stop _ _ _ _ HC). reflexivity. }
    destruct (garyule c (o1 * o2) x (Z.to_nat M) Biased true) as [[|]|[[a rho] k]].
    + rewrite (exec_seq_stop feq stop ma_fit1 _ _ _ _ H1) by discriminate. reflexivity.
    + rewrite (exec_seq_stop feq stop ma_fit1 _ _ _ _ H1) by discriminate. reflexivity.
    + rewrite (exec_seq feq stop ma_fit1 _ _ _ H1). clear H1.
      (* a = numpy.insert(a, 0, 1) *)
      assert (HI : exec ma_insert (mst (negb c) x Q M o1 o2 o3 o4 (VArr (negb c) a) (VF rho) (VArr (negb c) k) (VArr (negb c) a) (VF rho) (VArr (negb c) k)
                                       VUnbound VUnbound VUnbound VUnbound VUnbound) =
                   (mst (negb c) x Q M o1 o2 o3 o4 (VArr (negb c) a) (VF rho) (VArr (negb c) k) (VArr (negb c) (1 :: a)) (VF rho) (VArr (negb c) k)
                        VUnbound VUnbound VUnbound VUnbound VUnbound, CNormal)).
      { unfold ma_insert, mst. cbn [LoopIR.exec eval get set nth bind try asArr asZ asF ok fst snd length Z.ltb Z.leb Z.compare andb Z.of_nat Z.to_nat firstn skipn app].
        rewrite ofZ_one.
        destruct (0 <=? Z.of_nat (length a))%Z eqn:E0; [reflexivity|]. apply Z.leb_gt in E0. lia. }
      rewrite (exec_seq feq stop ma_insert _ _ _ HI). clear HI.
      (* second fit *)
      pose proof (ma_call_ok c [13%nat; 14%nat; 15%nat] [Some (EVar 10); Some (EVar 1); Some (EStr "biased"); None; Some (EVar 5); Some (EVar 6)]
                    (mst (negb c) x Q M o1 o2 o3 o4 (VArr (negb c) a) (VF rho) (VArr (negb c) k) (VArr (negb c) (1 :: a)) (VF rho) (VArr (negb c) k)
                         VUnbound VUnbound VUnbound VUnbound VUnbound)
                    (1 :: a) (Z.to_nat Q) o3 o4 eq_refl) as HC.
      rewrite Z2Nat.id in HC by lia. specialize (HC eq_refl).
      assert (H2 : exec ma_fit2 (mst (negb c) x Q M o1 o2 o3 o4 (VArr (negb c) a) (VF rho) (VArr (negb c) k) (VArr (negb c) (1 :: a)) (VF rho) (VArr (negb c) k)
                                     VUnbound VUnbound VUnbound VUnbound VUnbound) =
                   match garyule c (o3 * o4) (1 :: a) (Z.to_nat Q) Biased true with
                   | inr (b, rho2, k2) =>
                       (mst (negb c) x Q M o1 o2 o3 o4 (VArr (negb c) a) (VF rho) (VArr (negb c) k) (VArr (negb c) (1 :: a)) (VF rho) (VArr (negb c) k2)
                            (VArr (negb c) b) (VF rho2) (VArr (negb c) k2) (VArr (negb c) b) (VF rho2), CNormal)
                   | inl YAssert =>
                       (mst (negb c) x Q M o1 o2 o3 o4 (VArr (negb c) a) (VF rho) (VArr (negb c) k) (VArr (negb c) (1 :: a)) (VF rho) (VArr (negb c) k)
                            VUnbound VUnbound VUnbound VUnbound VUnbound, CErr AssertionError)
                   | inl YSingular =>
                       (mst (negb c) x Q M o1 o2 o3 o4 (VArr (negb c) a) (VF rho) (VArr (negb c) k) (VArr (negb c) (1 :: a)) (VF rho) (VArr (negb c) k)
                            VUnbound VUnbound VUnbound VUnbound VUnbound, CErr ValueError)
                   end).
      { unfold ma_fit2.
        destruct (garyule c (o3 * o4) (1 :: a) (Z.to_nat Q) Biased true) as [[|]|[[b rho2] k2]].
        - rewrite (exec_seq_stop feq stop _ _ _ _ _ HC) by discriminate. reflexivity.
        - rewrite (exec_seq_stop feq stop _ _ _ _ _ HC) by discriminate. reflexivity.
        - rewrite (exec_seq feq stop _ _ _ _ HC). reflexivity. }
      clear HC.
      destruct (garyule c (o3 * o4) (1 :: a) (Z.to_nat Q) Biased true) as [[|]|[[b rho2] k2]].
      * rewrite (exec_seq_stop feq stop ma_fit2 _ _ _ _ H2) by discriminate. reflexivity.
      * rewrite (exec_seq_stop feq stop ma_fit2 _ _ _ _ H2) by discriminate. reflexivity.
      * rewrite (exec_seq feq stop ma_fit2 _ _ _ H2). reflexivity.
Qed.

Theorem ma_ir_complex (x : list F) (Q M : Z) (o1 o2 o3 o4 : F) :
  run feq stop prog_ma_ref [Some (VArr false x); Some (VI Q); Some (VI M); Some (VF o1); Some (VF o2); Some (VF o3); Some (VF o4)] =
  if ((Q <=? 0) || (M <=? Q))%Z then OErr ValueError else ma_outcome false (ma_est x (Z.to_nat Q) (Z.to_nat M)).
Proof.
  pose proof (ma_ir_run true x Q M o1 o2 o3 o4) as H. cbn [negb] in H. rewrite H. rewrite gma_true. reflexivity.
Qed.
End Main.

Section TieTrue.
Context {F : Type} {OF : Ops F} {L : Laws OF}.
Variable feq : F -> F -> bool.
Hypothesis feq_refl : forall a, feq a a = true.

Theorem ma_ir_tie (x : list F) (Q M : Z) (o1 o2 o3 o4 : F) : tie_ma feq prog_ma_ref false x Q M o1 o2 o3 o4 = true.
Proof.
  unfold tie_ma. rewrite (ma_ir_complex feq (@nostop F) x Q M o1 o2 o3 o4).
  destruct ((Q <=? 0) || (M <=? Q))%Z; [reflexivity|].
  destruct (ma_est x (Z.to_nat Q) (Z.to_nat M)) as [[| |]|[b rho]]; try reflexivity.
  cbn [ma_outcome Bool.eqb andb]. rewrite (leq_refl feq feq_refl), feq_refl. reflexivity.
Qed.
End TieTrue.

(* BEGIN GENERATED ma (verbatim output of tools/props/_loopir.py for spectrum.arma.ma) *)
(* ma: slots 0=X 1=Q 2=M 3=aryule.CORRELATION.pylab_rms_flat(x)@0#0#0 4=aryule.CORRELATION.pylab_rms_flat(y)@1#1#1 5=aryule.CORRELATION.pylab_rms_flat(x)@0#0#2 6=aryule.CORRELATION.pylab_rms_flat(y)@1#1#3 7=aryule@ret0#7 8=aryule@ret1#8 9=aryule@ret2#9 10=a 11=rho 12=_c 13=aryule@ret0#13 14=aryule@ret1#14 15=aryule@ret2#15 16=ma_params 17=_p *)
Definition prog_ma_gen0 : program := mkProgram "ma" 7 [None; None; None; None; None; None; None] 18
(SSeq (SIf (EOr (ELe0 (EVar 1)) (ECmp CGe (EVar 1) (EVar 2)))
(SRaise ValueError)
(SSkip))
(SSeq (SSeq (SCall [7%nat; 8%nat; 9%nat] 6 [None; None; (Some (EStr "biased")); (Some (EBool true)); None; None] 13
(SSeq (SAssert (EOr (ECmp CEq (EVar 2) (EStr "biased")) (ECmp CEq (EVar 2) (EStr "unbiased"))))
(SSeq (SCall1 6 6 [None; (Some ENone); (Some ENone); (Some (EStr "unbiased")); None; None] 16
(SSeq (SAssert (EOr (ECmp CEq (EVar 3) (EStr "unbiased")) (EOr (ECmp CEq (EVar 3) (EStr "biased")) (EOr (ECmp CEq (EVar 3) (EStr "coeff")) (ECmp CEq (EVar 3) ENone)))))
(SSeq (SAssign 0 (ECopy (EVar 0)))
(SSeq (SIf (EIsNone (EVar 1))
(SAssign 1 (EVar 0))
(SAssign 1 (ECopy (EVar 1))))
(SSeq (SAssign 6 (EMax (ELen (EVar 0)) (ELen (EVar 1))))
(SSeq (SIf (ECmp CLt (ELen (EVar 0)) (EVar 6))
(SSeq (SAssign 0 (ECopy (EVar 0)))
(SResize 0 (EVar 6)))
(SSkip))
(SSeq (SIf (ECmp CLt (ELen (EVar 1)) (EVar 6))
(SSeq (SAssign 1 (ECopy (EVar 1)))
(SResize 1 (EVar 6)))
(SSkip))
(SSeq (SIf (EIsNone (EVar 2))
(SAssign 2 (EBin BSub (EVar 6) (EInt 1)))
(SSkip))
(SSeq (SAssert (ECmp CLt (EVar 2) (EVar 6)))
(SSeq (SAssign 7 (EAnd (EIsRealObj (EVar 0)) (EIsRealObj (EVar 1))))
(SSeq (SIf (EIsBool true (EVar 7))
(SAssign 8 (EZeros (EVar 2) true))
(SAssign 8 (EZeros (EVar 2) false)))
(SSeq (SIf (ECmp CEq (EVar 3) (EStr "coeff"))
(SSeq (SAssign 9 (EVar 4))
(SAssign 10 (EVar 5)))
(SSkip))
(SSeq (SFor 11 (EInt 0) (EBin BAdd (EVar 2) (EInt 1)) (EInt 1)
(SSeq (SAssign 12 (EBin BSub (EBin BSub (EVar 6) (EVar 11)) (EInt 1)))
(SSeq (SIf (EIsBool true (EVar 7))
(SSeq (SAssign 13 (EInt 0))
(SFor 14 (EInt 0) (EBin BAdd (EVar 12) (EInt 1)) (EInt 1)
(SAssign 13 (EBin BAdd (EVar 13) (EBin BMul (EIndex (EVar 0) (EBin BAdd (EVar 14) (EVar 11))) (EIndex (EVar 1) (EVar 14)))))))
(SSeq (SAssign 13 (EBin BAdd (ELit 0 0) (ELit 0 0)))
(SFor 14 (EInt 0) (EBin BAdd (EVar 12) (EInt 1)) (EInt 1)
(SAssign 13 (EBin BAdd (EVar 13) (EBin BMul (EIndex (EVar 0) (EBin BAdd (EVar 14) (EVar 11))) (EConj (EIndex (EVar 1) (EVar 14)))))))))
(SIf (ECmp CEq (EVar 11) (EInt 0))
(SIf (EOr (ECmp CEq (EVar 3) (EStr "biased")) (ECmp CEq (EVar 3) (EStr "unbiased")))
(SAssign 15 (EBin BDiv (EVar 13) (EFloat (EVar 6))))
(SIf (EIsNone (EVar 3))
(SAssign 15 (EVar 13))
(SAssign 15 (ELit 1 0))))
(SIf (ECmp CEq (EVar 3) (EStr "unbiased"))
(SStore 8 (EBin BSub (EVar 11) (EInt 1)) (EBin BDiv (EVar 13) (EFloat (EBin BSub (EVar 6) (EVar 11)))))
(SIf (ECmp CEq (EVar 3) (EStr "biased"))
(SStore 8 (EBin BSub (EVar 11) (EInt 1)) (EBin BDiv (EVar 13) (EFloat (EVar 6))))
(SIf (EIsNone (EVar 3))
(SStore 8 (EBin BSub (EVar 11) (EInt 1)) (EVar 13))
(SIf (ECmp CEq (EVar 3) (EStr "coeff"))
(SStore 8 (EBin BSub (EVar 11) (EInt 1)) (EBin BDiv (EBin BDiv (EVar 13) (EBin BMul (EVar 9) (EVar 10))) (EFloat (EVar 6))))
(SSkip)))))))))
(SSeq (SAssign 8 (EInsert (EVar 8) (EInt 0) (EVar 15)))
(SReturn [(EVar 8)]))))))))))))))
[(Some (EVar 0)); None; (Some (EVar 1)); (Some (EVar 2)); (Some (EVar 4)); (Some (EVar 5))])
(SSeq (SSeq (SCall [7%nat; 8%nat; 9%nat] 3 [None; (Some ENone); (Some (EBool false))] 16
(SSeq (SAssign 3 (EReal (EIndex (EVar 0) (EInt 0))))
(SSeq (SAssign 4 (ESlice (EVar 0) (Some (EInt 1)) None None))
(SSeq (SAssign 5 (ELen (EVar 4)))
(SSeq (SIf (EIsNone (EVar 1))
(SAssign 5 (ELen (EVar 4)))
(SSeq (SAssert (ECmp CLe (EVar 1) (EVar 5)))
(SAssign 5 (EVar 1))))
(SSeq (SAssign 6 (EIsRealObj (EVar 0)))
(SSeq (SIf (EIsBool true (EVar 6))
(SSeq (SAssign 7 (EZeros (EVar 5) true))
(SAssign 8 (EZeros (EVar 5) true)))
(SSeq (SAssign 7 (EZeros (EVar 5) false))
(SAssign 8 (EZeros (EVar 5) false))))
(SSeq (SAssign 9 (EVar 3))
(SSeq (SFor 10 (EInt 0) (EVar 5) (EInt 1)
(SSeq (SAssign 11 (EIndex (EVar 4) (EVar 10)))
(SSeq (SIf (ECmp CEq (EVar 10) (EInt 0))
(SAssign 12 (EBin BDiv (ENeg (EVar 11)) (EVar 9)))
(SSeq (SFor 13 (EInt 0) (EVar 10) (EInt 1)
(SAssign 11 (EBin BAdd (EVar 11) (EBin BMul (EIndex (EVar 7) (EVar 13)) (EIndex (EVar 4) (EBin BSub (EBin BSub (EVar 10) (EVar 13)) (EInt 1)))))))
(SAssign 12 (EBin BDiv (ENeg (EVar 11)) (EVar 9)))))
(SSeq (SIf (EVar 6)
(SAssign 9 (EBin BMul (EVar 9) (EBin BSub (ELit 1 0) (EBin BMul (EVar 12) (EVar 12)))))
(SAssign 9 (EBin BMul (EVar 9) (EBin BSub (ELit 1 0) (EBin BAdd (EBin BMul (EReal (EVar 12)) (EReal (EVar 12))) (EImagSq (EVar 12)))))))
(SSeq (SIf (EAnd (ELe0 (EVar 9)) (EIsBool false (EVar 2)))
(SRaise ValueError)
(SSkip))
(SSeq (SStore 7 (EVar 10) (EVar 12))
(SSeq (SStore 8 (EVar 10) (EVar 12))
(SSeq (SIf (ECmp CEq (EVar 10) (EInt 0))
(SContinue)
(SSkip))
(SSeq (SAssign 14 (EBin BFloorDiv (EBin BAdd (EVar 10) (EInt 1)) (EInt 2)))
(SIf (EIsBool true (EVar 6))
(SFor 13 (EInt 0) (EVar 14) (EInt 1)
(SSeq (SAssign 15 (EBin BSub (EBin BSub (EVar 10) (EVar 13)) (EInt 1)))
(SSeq (SAssign 11 (EIndex (EVar 7) (EVar 13)))
(SSeq (SStore 7 (EVar 13) (EBin BAdd (EVar 11) (EBin BMul (EVar 12) (EIndex (EVar 7) (EVar 15)))))
(SIf (ECmp CNe (EVar 13) (EVar 15))
(SStore 7 (EVar 15) (EBin BAdd (EIndex (EVar 7) (EVar 15)) (EBin BMul (EVar 12) (EVar 11))))
(SSkip))))))
(SFor 13 (EInt 0) (EVar 14) (EInt 1)
(SSeq (SAssign 15 (EBin BSub (EBin BSub (EVar 10) (EVar 13)) (EInt 1)))
(SSeq (SAssign 11 (EIndex (EVar 7) (EVar 13)))
(SSeq (SStore 7 (EVar 13) (EBin BAdd (EVar 11) (EBin BMul (EVar 12) (EConj (EIndex (EVar 7) (EVar 15))))))
(SIf (ECmp CNe (EVar 13) (EVar 15))
(SStore 7 (EVar 15) (EBin BAdd (EIndex (EVar 7) (EVar 15)) (EBin BMul (EVar 12) (EConj (EVar 11)))))
(SSkip))))))))))))))))
(SReturn [(EVar 7); (EVar 9); (EVar 8)])))))))))
[(Some (EVar 6)); None; (Some (EVar 3))])
(SSeq (SAssign 10 (EVar 7))
(SSeq (SAssign 11 (EVar 8))
(SAssign 12 (EVar 9)))))
(SReturn [(EVar 10); (EVar 11); (EVar 12)]))))
[(Some (EVar 0)); (Some (EVar 2)); (Some (EStr "biased")); None; (Some (EVar 3)); (Some (EVar 4))])
(SSeq (SAssign 10 (EVar 7))
(SSeq (SAssign 11 (EVar 8))
(SAssign 12 (EVar 9)))))
(SSeq (SAssign 10 (EInsert (EVar 10) (EInt 0) (EInt 1)))
(SSeq (SSeq (SCall [13%nat; 14%nat; 15%nat] 6 [None; None; (Some (EStr "biased")); (Some (EBool true)); None; None] 13
(SSeq (SAssert (EOr (ECmp CEq (EVar 2) (EStr "biased")) (ECmp CEq (EVar 2) (EStr "unbiased"))))
(SSeq (SCall1 6 6 [None; (Some ENone); (Some ENone); (Some (EStr "unbiased")); None; None] 16
(SSeq (SAssert (EOr (ECmp CEq (EVar 3) (EStr "unbiased")) (EOr (ECmp CEq (EVar 3) (EStr "biased")) (EOr (ECmp CEq (EVar 3) (EStr "coeff")) (ECmp CEq (EVar 3) ENone)))))
(SSeq (SAssign 0 (ECopy (EVar 0)))
(SSeq (SIf (EIsNone (EVar 1))
(SAssign 1 (EVar 0))
(SAssign 1 (ECopy (EVar 1))))
(SSeq (SAssign 6 (EMax (ELen (EVar 0)) (ELen (EVar 1))))
(SSeq (SIf (ECmp CLt (ELen (EVar 0)) (EVar 6))
(SSeq (SAssign 0 (ECopy (EVar 0)))
(SResize 0 (EVar 6)))
(SSkip))
(SSeq (SIf (ECmp CLt (ELen (EVar 1)) (EVar 6))
(SSeq (SAssign 1 (ECopy (EVar 1)))
(SResize 1 (EVar 6)))
(SSkip))
(SSeq (SIf (EIsNone (EVar 2))
(SAssign 2 (EBin BSub (EVar 6) (EInt 1)))
(SSkip))
(SSeq (SAssert (ECmp CLt (EVar 2) (EVar 6)))
(SSeq (SAssign 7 (EAnd (EIsRealObj (EVar 0)) (EIsRealObj (EVar 1))))
(SSeq (SIf (EIsBool true (EVar 7))
(SAssign 8 (EZeros (EVar 2) true))
(SAssign 8 (EZeros (EVar 2) false)))
(SSeq (SIf (ECmp CEq (EVar 3) (EStr "coeff"))
(SSeq (SAssign 9 (EVar 4))
(SAssign 10 (EVar 5)))
(SSkip))
(SSeq (SFor 11 (EInt 0) (EBin BAdd (EVar 2) (EInt 1)) (EInt 1)
(SSeq (SAssign 12 (EBin BSub (EBin BSub (EVar 6) (EVar 11)) (EInt 1)))
(SSeq (SIf (EIsBool true (EVar 7))
(SSeq (SAssign 13 (EInt 0))
(SFor 14 (EInt 0) (EBin BAdd (EVar 12) (EInt 1)) (EInt 1)
(SAssign 13 (EBin BAdd (EVar 13) (EBin BMul (EIndex (EVar 0) (EBin BAdd (EVar 14) (EVar 11))) (EIndex (EVar 1) (EVar 14)))))))
(SSeq (SAssign 13 (EBin BAdd (ELit 0 0) (ELit 0 0)))
(SFor 14 (EInt 0) (EBin BAdd (EVar 12) (EInt 1)) (EInt 1)
(SAssign 13 (EBin BAdd (EVar 13) (EBin BMul (EIndex (EVar 0) (EBin BAdd (EVar 14) (EVar 11))) (EConj (EIndex (EVar 1) (EVar 14)))))))))
(SIf (ECmp CEq (EVar 11) (EInt 0))
(SIf (EOr (ECmp CEq (EVar 3) (EStr "biased")) (ECmp CEq (EVar 3) (EStr "unbiased")))
(SAssign 15 (EBin BDiv (EVar 13) (EFloat (EVar 6))))
(SIf (EIsNone (EVar 3))
(SAssign 15 (EVar 13))
(SAssign 15 (ELit 1 0))))
(SIf (ECmp CEq (EVar 3) (EStr "unbiased"))
(SStore 8 (EBin BSub (EVar 11) (EInt 1)) (EBin BDiv (EVar 13) (EFloat (EBin BSub (EVar 6) (EVar 11)))))
(SIf (ECmp CEq (EVar 3) (EStr "biased"))
(SStore 8 (EBin BSub (EVar 11) (EInt 1)) (EBin BDiv (EVar 13) (EFloat (EVar 6))))
(SIf (EIsNone (EVar 3))
(SStore 8 (EBin BSub (EVar 11) (EInt 1)) (EVar 13))
(SIf (ECmp CEq (EVar 3) (EStr "coeff"))
(SStore 8 (EBin BSub (EVar 11) (EInt 1)) (EBin BDiv (EBin BDiv (EVar 13) (EBin BMul (EVar 9) (EVar 10))) (EFloat (EVar 6))))
(SSkip)))))))))
(SSeq (SAssign 8 (EInsert (EVar 8) (EInt 0) (EVar 15)))
(SReturn [(EVar 8)]))))))))))))))
[(Some (EVar 0)); None; (Some (EVar 1)); (Some (EVar 2)); (Some (EVar 4)); (Some (EVar 5))])
(SSeq (SSeq (SCall [7%nat; 8%nat; 9%nat] 3 [None; (Some ENone); (Some (EBool false))] 16
(SSeq (SAssign 3 (EReal (EIndex (EVar 0) (EInt 0))))
(SSeq (SAssign 4 (ESlice (EVar 0) (Some (EInt 1)) None None))
(SSeq (SAssign 5 (ELen (EVar 4)))
(SSeq (SIf (EIsNone (EVar 1))
(SAssign 5 (ELen (EVar 4)))
(SSeq (SAssert (ECmp CLe (EVar 1) (EVar 5)))
(SAssign 5 (EVar 1))))
(SSeq (SAssign 6 (EIsRealObj (EVar 0)))
(SSeq (SIf (EIsBool true (EVar 6))
(SSeq (SAssign 7 (EZeros (EVar 5) true))
(SAssign 8 (EZeros (EVar 5) true)))
(SSeq (SAssign 7 (EZeros (EVar 5) false))
(SAssign 8 (EZeros (EVar 5) false))))
(SSeq (SAssign 9 (EVar 3))
(SSeq (SFor 10 (EInt 0) (EVar 5) (EInt 1)
(SSeq (SAssign 11 (EIndex (EVar 4) (EVar 10)))
(SSeq (SIf (ECmp CEq (EVar 10) (EInt 0))
(SAssign 12 (EBin BDiv (ENeg (EVar 11)) (EVar 9)))
(SSeq (SFor 13 (EInt 0) (EVar 10) (EInt 1)
(SAssign 11 (EBin BAdd (EVar 11) (EBin BMul (EIndex (EVar 7) (EVar 13)) (EIndex (EVar 4) (EBin BSub (EBin BSub (EVar 10) (EVar 13)) (EInt 1)))))))
(SAssign 12 (EBin BDiv (ENeg (EVar 11)) (EVar 9)))))
(SSeq (SIf (EVar 6)
(SAssign 9 (EBin BMul (EVar 9) (EBin BSub (ELit 1 0) (EBin BMul (EVar 12) (EVar 12)))))
(SAssign 9 (EBin BMul (EVar 9) (EBin BSub (ELit 1 0) (EBin BAdd (EBin BMul (EReal (EVar 12)) (EReal (EVar 12))) (EImagSq (EVar 12)))))))
(SSeq (SIf (EAnd (ELe0 (EVar 9)) (EIsBool false (EVar 2)))
(SRaise ValueError)
(SSkip))
(SSeq (SStore 7 (EVar 10) (EVar 12))
(SSeq (SStore 8 (EVar 10) (EVar 12))
(SSeq (SIf (ECmp CEq (EVar 10) (EInt 0))
(SContinue)
(SSkip))
(SSeq (SAssign 14 (EBin BFloorDiv (EBin BAdd (EVar 10) (EInt 1)) (EInt 2)))
(SIf (EIsBool true (EVar 6))
(SFor 13 (EInt 0) (EVar 14) (EInt 1)
(SSeq (SAssign 15 (EBin BSub (EBin BSub (EVar 10) (EVar 13)) (EInt 1)))
(SSeq (SAssign 11 (EIndex (EVar 7) (EVar 13)))
(SSeq (SStore 7 (EVar 13) (EBin BAdd (EVar 11) (EBin BMul (EVar 12) (EIndex (EVar 7) (EVar 15)))))
(SIf (ECmp CNe (EVar 13) (EVar 15))
(SStore 7 (EVar 15) (EBin BAdd (EIndex (EVar 7) (EVar 15)) (EBin BMul (EVar 12) (EVar 11))))
(SSkip))))))
(SFor 13 (EInt 0) (EVar 14) (EInt 1)
(SSeq (SAssign 15 (EBin BSub (EBin BSub (EVar 10) (EVar 13)) (EInt 1)))
(SSeq (SAssign 11 (EIndex (EVar 7) (EVar 13)))
(SSeq (SStore 7 (EVar 13) (EBin BAdd (EVar 11) (EBin BMul (EVar 12) (EConj (EIndex (EVar 7) (EVar 15))))))
(SIf (ECmp CNe (EVar 13) (EVar 15))
(SStore 7 (EVar 15) (EBin BAdd (EIndex (EVar 7) (EVar 15)) (EBin BMul (EVar 12) (EConj (EVar 11)))))
(SSkip))))))))))))))))
(SReturn [(EVar 7); (EVar 9); (EVar 8)])))))))))
[(Some (EVar 6)); None; (Some (EVar 3))])
(SSeq (SAssign 10 (EVar 7))
(SSeq (SAssign 11 (EVar 8))
(SAssign 12 (EVar 9)))))
(SReturn [(EVar 10); (EVar 11); (EVar 12)]))))
[(Some (EVar 10)); (Some (EVar 1)); (Some (EStr "biased")); None; (Some (EVar 5)); (Some (EVar 6))])
(SSeq (SAssign 16 (EVar 13))
(SSeq (SAssign 17 (EVar 14))
(SAssign 12 (EVar 15)))))
(SReturn [(EVar 16); (EVar 11)]))))).
(* END GENERATED ma *)

Example prog_ma_ref_is_generated : prog_ma_ref = prog_ma_gen0.
Proof. reflexivity. Qed.

Print Assumptions ma_ir_run.
Print Assumptions ma_ir_complex.
Print Assumptions ma_ir_tie.
