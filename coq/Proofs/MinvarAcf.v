(* The lag sequence implied by (r0, reflection coefficients): inverse Levinson [acf_of_refl] (Model/Minvar.v),
   and the fact that LEVINSON run on it reproduces the reflection coefficients, the step-up polynomial and the
   error powers.  With it "the m x m Hermitian Toeplitz autocorrelation matrix implied by the order m-1 Burg model"
   is a defined object and minvar_capon_thm needs no hypothesis about r. *)
Require Import Spectrum.Theory.Ops Spectrum.Theory.Sum Spectrum.Theory.Vec Spectrum.Theory.Dft
               Spectrum.Model.Levinson Spectrum.Model.Burg Spectrum.Model.Minvar
               Spectrum.Proofs.LevinsonTheory Spectrum.Proofs.BurgTheory
               Spectrum.Proofs.MinvarTheory Spectrum.Proofs.MinvarMusicus Spectrum.Proofs.MinvarCapon Spectrum.Proofs.MinvarFinal.

Section Acf.
Context {F : Type} {OF : Ops F} {L : Laws OF}.
Local Open Scope F_scope.
Add Field FFac : (fth (O:=OF)).

Definition acf_state (r0 : F) (ks : list F) : list F * list F * F := fold_left acf_step ks ([r0], [], r0).
Lemma acf_state_app r0 ks k : acf_state r0 (ks ++ [k]) = acf_step (acf_state r0 ks) k.
Proof. unfold acf_state. rewrite fold_left_app. reflexivity. Qed.
Lemma acf_of_refl_state r0 ks : acf_of_refl r0 ks = fst (fst (acf_state r0 ks)).
Proof. unfold acf_of_refl, acf_state. destruct (fold_left acf_step ks ([r0], [], r0)) as [[r a] P]. reflexivity. Qed.

Lemma acf_state_inv r0 ks r a P : acf_state r0 ks = (r, a, P) ->
  length r = S (length ks) /\ a = stepup_all ks /\ P = r0 * prodk ks /\ nthF r O = r0.
Proof.
  revert r a P. induction ks as [|k ks IH] using rev_ind; intros r a P H.
  - cbn in H. injection H as <- <- <-. cbn. repeat split; auto. ring.
  - rewrite acf_state_app in H. destruct (acf_state r0 ks) as [[r1 a1] P1].
    destruct (IH r1 a1 P1 eq_refl) as (Hl & Ha & HP & H0).
    cbn [acf_step] in H. injection H as <- <- <-.
    rewrite !app_length. cbn [length]. repeat split.
    + lia.
    + rewrite stepup_all_app, Ha. reflexivity.
    + rewrite prodk_app, HP. ring.
    + rewrite nthF_app_l by lia. exact H0.
Qed.

Lemma firstn_app_le (ks : list F) k j : (j <= length ks)%nat -> firstn j (ks ++ [k]) = firstn j ks.
Proof.
  intros H. rewrite firstn_app. replace (j - length ks)%nat with O by lia. cbn. apply app_nil_r.
Qed.
Lemma firstn_S_snoc (l : list F) m : (m < length l)%nat -> firstn (S m) l = firstn m l ++ [nthF l m].
Proof.
  revert m; induction l as [|x l IH]; intros m Hm; [cbn in Hm; lia|].
  destruct m as [|m]; [reflexivity|]. cbn [firstn app]. rewrite nthF_consS. f_equal. apply IH. cbn in Hm. lia.
Qed.

(* every lag beyond the first is the inverse-Levinson value *)
Lemma acf_entries r0 ks r a P : acf_state r0 ks = (r, a, P) ->
  forall m, (m < length ks)%nat ->
    nthF r (S m) = - (nthF ks m * (r0 * prodk (firstn m ks)))
                   - sumf m (fun i => nthF (stepup_all (firstn m ks)) i * nthF r (m - i)).
Proof.
  revert r a P. induction ks as [|k ks IH] using rev_ind; intros r a P H m Hm; [cbn in Hm; lia|].
  rewrite acf_state_app in H. destruct (acf_state r0 ks) as [[r1 a1] P1] eqn:E1.
  destruct (acf_state_inv r0 ks r1 a1 P1 E1) as (Hl & Ha & HP & H0).
  cbn [acf_step] in H. injection H as <- _ _.
  rewrite app_length in Hm. cbn [length] in Hm.
  rewrite firstn_app_le by lia.
  destruct (Nat.eq_dec m (length ks)) as [->|Hne].
  - rewrite nthF_app_last' by exact Hl. rewrite nthF_app_last. rewrite sumL_mk.
    rewrite firstn_all. rewrite Ha, stepup_all_length, <- HP.
    f_equal. apply sumf_ext; intros i Hi. rewrite nthF_app_l by lia. reflexivity.
  - rewrite !nthF_app_l by lia. rewrite (IH r1 a1 P1 eq_refl m) by lia.
    f_equal. apply sumf_ext; intros i Hi. rewrite nthF_app_l by lia. reflexivity.
Qed.

(* LEVINSON on the implied lags gives back the reflection coefficients *)
Lemma lev_run_acf r0 ks :
  (forall q, (1 <= q <= length ks)%nat -> le0 (r0 * prodk (firstn q ks)) = false) ->
  forall m, (m <= length ks)%nat ->
    exists P, lev_iter (tl (acf_of_refl r0 ks)) false r0 m = Some (stepup_all (firstn m ks), P, firstn m ks)
              /\ P = r0 * prodk (firstn m ks).
Proof.
  intros Hle. rewrite acf_of_refl_state. destruct (acf_state r0 ks) as [[r a] P0] eqn:E. cbn [fst].
  destruct (acf_state_inv r0 ks r a P0 E) as (Hl & _ & _ & H0).
  induction m as [|m IH]; intros Hm.
  - exists r0. split; [reflexivity|]. cbn. ring.
  - destruct (IH ltac:(lia)) as (P & HI & HP). exists (r0 * prodk (firstn (S m) ks)). split; [|reflexivity].
    cbn [lev_iter]. rewrite HI. unfold lev_step.
    assert (HPne : P <> 0).
    { destruct m as [|m'].
      - rewrite HP. cbn [firstn prodk]. intros E0.
        pose proof (Hle 1%nat ltac:(lia)) as H1.
        assert (Er : r0 = 0) by (transitivity (r0 * 1); [ring|exact E0]).
        rewrite Er in H1. replace (0 * prodk (firstn 1 ks)) with 0 in H1 by ring. rewrite le0_zero in H1. discriminate.
      - rewrite HP. apply le0_false_neq. apply Hle. lia. }
    assert (Hd : lev_delta (tl r) (stepup_all (firstn m ks)) m = - (nthF ks m * P)).
    { unfold lev_delta. rewrite nth_tl, sumL_mk. rewrite (acf_entries r0 ks r a P0 E m) by lia. rewrite <- HP.
      transitivity (- (nthF ks m * P) - sumf m (fun i => nthF (stepup_all (firstn m ks)) i * nthF r (m - i))
                    + sumf m (fun i => nthF (stepup_all (firstn m ks)) i * nthF r (m - i))); [|ring].
      f_equal. apply sumf_ext; intros j Hj. rewrite nth_tl. do 2 f_equal. lia. }
    assert (Hk : - lev_delta (tl r) (stepup_all (firstn m ks)) m / P = nthF ks m).
    { rewrite Hd. field. exact HPne. }
    rewrite Hk. rewrite (firstn_S_snoc ks m) by lia. rewrite prodk_app, stepup_all_app.
    assert (EP : P * (1 - nthF ks m * conj (nthF ks m)) = r0 * (prodk (firstn m ks) * (1 - nthF ks m * conj (nthF ks m))))
      by (rewrite HP; ring).
    rewrite EP.
    pose proof (Hle (S m) ltac:(lia)) as HS. rewrite (firstn_S_snoc ks m), prodk_app in HS by lia.
    rewrite HS. cbn [andb]. reflexivity.
Qed.

Theorem levinson_acf_thm r0 ks : conj r0 = r0 ->
  (forall q, (1 <= q <= length ks)%nat -> le0 (r0 * prodk (firstn q ks)) = false) ->
  let r := acf_of_refl r0 ks in
  length r = S (length ks) /\ nthF r O = r0 /\
  exists P, levinson r (length ks) false = Some (stepup_all ks, P, ks) /\ P = r0 * prodk ks.
Proof.
  intros Hr Hle. cbn zeta.
  assert (Hst : length (acf_of_refl r0 ks) = S (length ks) /\ nthF (acf_of_refl r0 ks) O = r0).
  { rewrite acf_of_refl_state. destruct (acf_state r0 ks) as [[r a] P0] eqn:E. cbn [fst].
    destruct (acf_state_inv r0 ks r a P0 E) as (Hl & _ & _ & H0). split; assumption. }
  destruct Hst as [Hl H0]. split; [exact Hl|]. split; [exact H0|].
  destruct (lev_run_acf r0 ks Hle (length ks) (Nat.le_refl _)) as (P & HI & HP).
  rewrite firstn_all in HI, HP. exists P. split; [|exact HP].
  unfold levinson. rewrite Hl. destruct (Nat.leb_spec (length ks) (S (length ks) - 1)); [|lia].
  rewrite H0. rewrite (re_real r0 Hr). exact HI.
Qed.

(* ---------------- the property statement: PSD_f = sampling / (e^H R^-1 e), R implied by the Burg model ---------------- *)
Theorem minvar_capon_implied_thm nfft (tw : Z -> F) {T : Twiddle nfft tw} (x : list F) m s psd A ks :
  ofnat (length x) <> 0 -> (2 * m - 1 <= nfft)%nat ->
  minvar tw x m s nfft = Some (psd, A, ks) ->
  let r := acf_of_refl (mean_power x) ks in
  length r = m /\ nthF r O = mean_power x /\
  (exists a' P', levinson r (m - 1) false = Some (a', P', ks)) /\
  forall f (y : nat -> F), (f < nfft)%nat ->
    (forall i, (i < m)%nat -> sumf m (fun j => rr r i j * y j) = tw (- (Z.of_nat i * Z.of_nat f))%Z) ->
    nthF psd f = s / sumf m (fun i => tw (Z.of_nat i * Z.of_nat f)%Z * y i).
Proof.
  intros HN Hn H. cbn zeta.
  destruct (minvar_returns_burg_thm _ _ _ _ _ _ _ _ H) as (a & rho & E & HA & Ha & Hl & Hrho & Hle & _ & Hm).
  assert (Hmr : conj (mean_power x) = mean_power x) by (apply mean_power_real; exact HN).
  assert (Hq : forall q, (1 <= q <= length ks)%nat -> le0 (mean_power x * prodk (firstn q ks)) = false).
  { intros q Hq. destruct (arburg_nested_thm x (m - 1) q a rho ks ltac:(lia) E) as (a' & rho' & E').
    destruct (arburg_shape_thm x q a' rho' _ E') as (_ & _ & Hr' & Hle'). rewrite <- Hr'. exact Hle'. }
  destruct (levinson_acf_thm (mean_power x) ks Hmr Hq) as (Hlen & H0 & P & HL & HP).
  rewrite Hl in HL.
  split; [rewrite Hlen; lia|]. split; [exact H0|]. split; [eauto|].
  intros f y Hf Hy.
  apply (minvar_capon_thm nfft tw x m s psd A ks (acf_of_refl (mean_power x) ks) (stepup_all ks) P HN Hn H);
    try assumption.
  unfold isreal. rewrite H0. exact Hmr.
Qed.
End Acf.
