(* The 24 generators as one family over R, and the link to the factory's dispatcher [run_gen]:
   whatever run_gen returns is one of them (with the parameter guards the code has). *)
From Coq Require Import Reals Lra Lia String.
Require Import Spectrum.Theory.Ops Spectrum.Theory.Vec Spectrum.Model.Window Spectrum.Instances.RWin
               Spectrum.Proofs.WindowBridge Spectrum.Proofs.WindowReal.
Local Open Scope R_scope.
Notation length := List.length.

Inductive wgen : Type :=
| GRect | GBartlett | GHamming | GHann | GKaiser (beta : R) | GBlackman (alpha : R) | GGaussian (alpha : R)
| GCheb (att : R) | GCosine | GLanczos | GBartlettHann | GNuttall | GBlackmanNuttall | GBlackmanHarris | GBohman
| GTukey (r : R) | GParzen | GFlattop (periodic : bool) | GTaylor (nbar : nat) (sll : R) | GRiesz | GRiemann
| GPoisson (alpha : R) | GPoissonHanning (alpha : R) | GCauchy (alpha : R).

Section Gen.
Variables (I0 : R -> R) (cheb : nat -> R -> list R).
#[local] Hint Extern 0 (TOps R) => exact (rT I0 cheb) : typeclass_instances.

Definition gen_window (g : wgen) (N : nat) : list R :=
  match g with
  | GRect => window_rectangle N | GBartlett => window_bartlett N | GHamming => window_hamming N
  | GHann => window_hann N | GKaiser b => window_kaiser N b | GBlackman a => window_blackman N a
  | GGaussian a => window_gaussian N a | GCheb a => window_chebwin N a | GCosine => window_cosine N
  | GLanczos => window_lanczos N | GBartlettHann => window_bartlett_hann N | GNuttall => window_nuttall N
  | GBlackmanNuttall => window_blackman_nuttall N | GBlackmanHarris => window_blackman_harris N
  | GBohman => window_bohman N | GTukey r => window_tukey N r | GParzen => window_parzen N
  | GFlattop p => window_flattop N p | GTaylor nb s => window_taylor N nb s | GRiesz => window_riesz N
  | GRiemann => window_riemann N | GPoisson a => window_poisson N a
  | GPoissonHanning a => window_poisson_hanning N a | GCauchy a => window_cauchy N a
  end.

(* the guard the code has on the parameters (tukey's assert) *)
Definition gen_guard (g : wgen) : Prop := match g with GTukey r => 0 <= r <= 1 | _ => True end.

Theorem run_gen_cases (g : string) (env : list (string * pval)) (N : nat) (w : list R) :
  run_gen g env N = WOk w -> exists wg, w = gen_window wg N /\ gen_guard wg.
Proof.
  unfold run_gen.
  Ltac rg_done wg := let H := fresh "H" in intros H; inversion H; subst; exists wg; split; [reflexivity|exact I].
  Ltac rg_if := lazymatch goal with |- (if ?c then _ else _) = _ -> _ => destruct c eqn:?E end.
  Ltac rg_step wg := rg_if; [rg_done wg|].
  Ltac rg_no := let H := fresh "H" in intros H; inversion H.
  rg_step GRect.
  rg_if. { rg_if; [rg_done (GKaiser (getF env "beta"))|rg_no]. }
  rg_step (GBlackman (getF env "alpha")). rg_step GBartlett. rg_step GHamming. rg_step GHann.
  rg_step (GGaussian (getF env "alpha")). rg_step (GCheb (getF env "attenuation")). rg_step GCosine. rg_step GLanczos.
  rg_step GBartlettHann. rg_step GNuttall. rg_step GBlackmanNuttall. rg_step GBlackmanHarris. rg_step GBohman.
  rg_if.
  { cbv zeta. rg_if; [|rg_no].
    intros H; inversion H; subst. exists (GTukey (getF env "r")). split; [reflexivity|].
    match goal with HE : (_ && _)%bool = true |- _ => apply andb_prop in HE; destruct HE as [Ea Eb] end.
    cbn in Ea, Eb. apply Rleb_true in Ea. apply Rleb_true in Eb. split; assumption. }
  rg_step GParzen.
  rg_if. { cbv zeta. rg_if; [rg_done (GFlattop true)|]. rg_if; [rg_done (GFlattop false)|rg_no]. }
  rg_step (GTaylor (getN env "nbar") (getF env "sll")). rg_step GRiesz. rg_step GRiemann.
  rg_step (GPoisson (getF env "alpha")). rg_step (GPoissonHanning (getF env "alpha")). rg_step (GCauchy (getF env "alpha")).
  rg_no.
Qed.
End Gen.
