(* C11, line spectral frequencies: the algebraic part of poly2lsf / lsf2poly.
   a1 = [a, 0]; P1 = a1 - reverse(a1) is antipalindromic, Q1 = a1 + reverse(a1) is palindromic,
   a1 = (P1 + Q1)/2; P1 vanishes at z = 1 (always) and at z = -1 (odd order), Q1 vanishes at z = -1
   (even order): the roots the code divides out; lsf2poly's averaging step returns a. *)
Require Import Spectrum.Theory.Ops Spectrum.Theory.Sum Spectrum.Theory.Vec
               Spectrum.Model.Levinson Spectrum.Model.LinPred.

Section Lsf.
Context {F : Type} {OF : Ops F} {L : Laws OF}.
Local Open Scope F_scope.
Add Field FFlsf : (fth (O:=OF)).

Lemma lsf_a1_length (a : list F) : length (lsf_a1 a) = S (length a).
Proof. unfold lsf_a1. rewrite app_length. cbn. lia. Qed.
Lemma lsf_P1_length (a : list F) : length (lsf_P1 a) = S (length a).
Proof. unfold lsf_P1. rewrite mk_length. apply lsf_a1_length. Qed.
Lemma lsf_Q1_length (a : list F) : length (lsf_Q1 a) = S (length a).
Proof. unfold lsf_Q1. rewrite mk_length. apply lsf_a1_length. Qed.
Lemma nth_P1 (a : list F) j : (j <= length a)%nat ->
  nthF (lsf_P1 a) j = nthF (lsf_a1 a) j - nthF (lsf_a1 a) (length a - j).
Proof. intros H. unfold lsf_P1. rewrite lsf_a1_length, nth_mk by lia. do 2 f_equal. lia. Qed.
Lemma nth_Q1 (a : list F) j : (j <= length a)%nat ->
  nthF (lsf_Q1 a) j = nthF (lsf_a1 a) j + nthF (lsf_a1 a) (length a - j).
Proof. intros H. unfold lsf_Q1. rewrite lsf_a1_length, nth_mk by lia. do 2 f_equal. lia. Qed.

Lemma half_sum (x y : F) : ((x - y) + (x + y)) / two = x.
Proof. unfold two. field. apply two_neq_0. Qed.

(* a = (P1 + Q1)/2 *)
Theorem lsf_reconstruct_thm (a : list F) :
  mk (S (length a)) (fun j => (nthF (lsf_P1 a) j + nthF (lsf_Q1 a) j) / two) = lsf_a1 a.
Proof.
  apply list_eq_nth; [rewrite mk_length, lsf_a1_length; reflexivity|].
  intros j Hj. rewrite mk_length in Hj. rewrite nth_mk, nth_P1, nth_Q1 by lia. apply half_sum.
Qed.

(* Q1 is palindromic, P1 antipalindromic *)
Theorem lsf_Q1_palindromic_thm (a : list F) j : (j <= length a)%nat ->
  nthF (lsf_Q1 a) (length a - j) = nthF (lsf_Q1 a) j.
Proof.
  intros H. rewrite !nth_Q1 by lia. replace (length a - (length a - j))%nat with j by lia. ring.
Qed.
Theorem lsf_P1_antipalindromic_thm (a : list F) j : (j <= length a)%nat ->
  nthF (lsf_P1 a) (length a - j) = - nthF (lsf_P1 a) j.
Proof.
  intros H. rewrite !nth_P1 by lia. replace (length a - (length a - j))%nat with j by lia. ring.
Qed.

(* evaluation at z = 1 and z = -1 (coefficient sums with signs) *)
Definition sgn (j : nat) : F := if Nat.even j then 1 else - (1).
Definition eval_p1 (l : list F) : F := sumf (length l) (fun j => nthF l j).
Definition eval_m1 (l : list F) : F := sumf (length l) (fun j => sgn j * nthF l j).

Lemma self_opp_zero (x : F) : x = - x -> x = 0.
Proof.
  intros H. assert (E : (1 + 1) * x = 0) by (transitivity (x + x); [ring|rewrite H at 1; ring]).
  apply (mul_cancel_l (1 + 1)); [exact E|apply two_neq_0].
Qed.
Lemma sgn_flip_even n j : (j < n)%nat -> Nat.even n = true -> sgn (n - 1 - j) = - sgn j.
Proof.
  intros Hj Hn. unfold sgn.
  assert (E : Nat.even (n - 1 - j) = negb (Nat.even j)).
  { replace n with ((n - 1 - j) + (j + 1))%nat in Hn by lia. rewrite Nat.even_add in Hn.
    rewrite Nat.add_1_r, Nat.even_succ, <- Nat.negb_even in Hn.
    destruct (Nat.even (n - 1 - j)), (Nat.even j); cbn in *; congruence. }
  rewrite E. destruct (Nat.even j); cbn; ring.
Qed.
Lemma sgn_flip_odd n j : (j < n)%nat -> Nat.even n = false -> sgn (n - 1 - j) = sgn j.
Proof.
  intros Hj Hn. unfold sgn.
  assert (E : Nat.even (n - 1 - j) = Nat.even j).
  { replace n with ((n - 1 - j) + (j + 1))%nat in Hn by lia. rewrite Nat.even_add in Hn.
    rewrite Nat.add_1_r, Nat.even_succ, <- Nat.negb_even in Hn.
    destruct (Nat.even (n - 1 - j)), (Nat.even j); cbn in *; congruence. }
  rewrite E. reflexivity.
Qed.

(* z = 1 is a root of the difference polynomial, whatever the order *)
Theorem lsf_P1_root_p1_thm (a : list F) : eval_p1 (lsf_P1 a) = 0.
Proof.
  apply self_opp_zero. unfold eval_p1. rewrite lsf_P1_length.
  rewrite (sumf_rev (S (length a))) at 1. rewrite <- sumf_opp. apply sumf_ext. intros j Hj.
  replace (S (length a) - 1 - j)%nat with (length a - j)%nat by lia. apply lsf_P1_antipalindromic_thm. lia.
Qed.
(* odd order: z = -1 is a root of the difference polynomial too *)
Theorem lsf_P1_root_m1_thm (a : list F) : Nat.odd (length a - 1) = true -> (1 <= length a)%nat ->
  eval_m1 (lsf_P1 a) = 0.
Proof.
  intros Hodd Hlen. apply self_opp_zero. unfold eval_m1. rewrite lsf_P1_length.
  assert (Hn : Nat.even (S (length a)) = false).
  { replace (S (length a)) with (S (S (length a - 1))) by lia. rewrite Nat.even_succ_succ, <- Nat.negb_odd, Hodd. reflexivity. }
  rewrite (sumf_rev (S (length a))) at 1. rewrite <- sumf_opp. apply sumf_ext. intros j Hj.
  rewrite sgn_flip_odd by assumption.
  replace (S (length a) - 1 - j)%nat with (length a - j)%nat by lia. rewrite lsf_P1_antipalindromic_thm by lia. ring.
Qed.
(* even order: z = -1 is a root of the sum polynomial *)
Theorem lsf_Q1_root_m1_thm (a : list F) : Nat.odd (length a - 1) = false -> (1 <= length a)%nat ->
  eval_m1 (lsf_Q1 a) = 0.
Proof.
  intros Hodd Hlen. apply self_opp_zero. unfold eval_m1. rewrite lsf_Q1_length.
  assert (Hn : Nat.even (S (length a)) = true).
  { replace (S (length a)) with (S (S (length a - 1))) by lia. rewrite Nat.even_succ_succ, <- Nat.negb_odd, Hodd. reflexivity. }
  rewrite (sumf_rev (S (length a))) at 1. rewrite <- sumf_opp. apply sumf_ext. intros j Hj.
  rewrite sgn_flip_even by assumption.
  replace (S (length a) - 1 - j)%nat with (length a - j)%nat by lia. rewrite lsf_Q1_palindromic_thm by lia. ring.
Qed.

(* lsf2poly's last step undoes poly2lsf's first step: if P, Q are the quotients of the exact divisions
   (P1 = P * d, Q1 = Q * d'), averaging P1 and Q1 and dropping the last element returns a *)
Theorem lsf_combine_sumdiff_thm (a P Q : list F) : let p := (length a - 1)%nat in
  (if Nat.odd p then conv P d_pm else conv P d_m1) = lsf_P1 a ->
  (if Nat.odd p then Q else conv Q d_p1) = lsf_Q1 a ->
  lsf_combine p P Q = a.
Proof.
  intros p HP HQ. unfold lsf_combine. fold p. rewrite HP, HQ, lsf_P1_length, lsf_reconstruct_thm.
  rewrite lsf_a1_length. replace (S (length a) - 1)%nat with (length a) by lia.
  unfold lsf_a1. rewrite firstn_app, Nat.sub_diag, firstn_all. cbn [firstn]. apply app_nil_r.
Qed.
End Lsf.
