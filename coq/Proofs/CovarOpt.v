(* arcovar / modcovar return the least-squares optimum: orthogonality, Pythagoras, minimum,
   e = the minimal energy; sums of exponentials are annihilated by their root polynomial. *)
Require Import Spectrum.Theory.Ops Spectrum.Theory.Sum Spectrum.Theory.Vec Spectrum.Theory.Order
               Spectrum.Model.Corr Spectrum.Model.Ls Spectrum.Proofs.LsTheory Spectrum.Proofs.CovarTheory.

Section CovarOpt.
Context {F : Type} {OF : Ops F} {L : Laws OF}.
Local Open Scope F_scope.
Add Field FFco : (fth (O:=OF)).

(* ---------- the two regression problems as nat-indexed families ---------- *)
Definition cov_A (x : list F) (p : nat) (n j : nat) : F := nthF x (p + n - 1 - j).
Definition cov_b (x : list F) (p : nat) (n : nat) : F := nthF x (p + n).
Definition mod_A (x : list F) (p : nat) (n j : nat) : F :=
  let K := (length x - p)%nat in if (n <? K)%nat then nthF x (p + n - 1 - j) else conj (nthF x (n - K + 1 + j)).
Definition mod_b (x : list F) (p : nat) (n : nat) : F :=
  let K := (length x - p)%nat in if (n <? K)%nat then nthF x (p + n) else conj (nthF x (n - K)).

Lemma cov_res x p c n : res p (cov_A x p) (cov_b x p) c n = fwd_res x p c n.
Proof. reflexivity. Qed.
Lemma cov_energy x p c : energy (length x - p) p (cov_A x p) (cov_b x p) c = fwd_energy x p c.
Proof. reflexivity. Qed.

Lemma mod_res_fwd x p c n : (n < length x - p)%nat -> res p (mod_A x p) (mod_b x p) c n = fwd_res x p c n.
Proof.
  intros H. unfold res, lin, mod_A, mod_b, fwd_res. cbv zeta.
  destruct (Nat.ltb_spec n (length x - p)); [reflexivity|lia].
Qed.
Lemma mod_res_bwd x p c n : res p (mod_A x p) (mod_b x p) c (length x - p + n) = bwd_res x p c n.
Proof.
  unfold res, lin, mod_A, mod_b, bwd_res. cbv zeta. set (K := (length x - p)%nat).
  destruct (Nat.ltb_spec (K + n) K); [lia|]. replace (K + n - K)%nat with n by lia. reflexivity.
Qed.
Lemma mod_energy x p c :
  energy (2 * (length x - p)) p (mod_A x p) (mod_b x p) c = fwd_energy x p c + bwd_energy x p c.
Proof.
  unfold energy, fwd_energy, bwd_energy. set (K := (length x - p)%nat).
  replace (2 * K)%nat with (K + K)%nat by lia. rewrite sumf_split. f_equal.
  - apply sumf_ext; intros n Hn. rewrite mod_res_fwd by exact Hn. reflexivity.
  - apply sumf_ext; intros n _. unfold K. rewrite mod_res_bwd. reflexivity.
Qed.
(* column i of the stacked matrix against the stacked residual *)
Lemma mod_orth_split x p c i :
  sumf (2 * (length x - p)) (fun n => conj (mod_A x p n i) * res p (mod_A x p) (mod_b x p) c n)
  = sumf (length x - p) (fun n => conj (nthF x (p + n - 1 - i)) * fwd_res x p c n)
    + sumf (length x - p) (fun n => nthF x (n + 1 + i) * bwd_res x p c n).
Proof.
  set (K := (length x - p)%nat). replace (2 * K)%nat with (K + K)%nat by lia. rewrite sumf_split. f_equal.
  - apply sumf_ext; intros n Hn. unfold K in Hn. rewrite mod_res_fwd by exact Hn. f_equal.
    unfold mod_A. cbv zeta. destruct (Nat.ltb_spec n (length x - p)); [reflexivity|lia].
  - apply sumf_ext; intros n _. unfold K. rewrite mod_res_bwd. f_equal.
    unfold mod_A. cbv zeta. fold K. destruct (Nat.ltb_spec (K + n) K); [lia|].
    rewrite conj_conj. f_equal. lia.
Qed.

Context {OL : OrdLaws OF}.

(* ---------- arcovar ---------- *)
Lemma arcovar_sound lstsq tol (x : list F) p a e : lstsq_spec lstsq ->
  arcovar_with lstsq tol x p = Some (a, e) ->
  length a = p /\ orth (length x - p) p (cov_A x p) (cov_b x p) (nthF a) /\ e = fwd_energy x p (nthF a).
Proof.
  intros Hs H. unfold arcovar_with in H.
  destruct (corrmtx_covariance_shape_thm x p) as [HM Hrow].
  apply (ar_ls_sound (corrmtx x p MCovariance) (length x - p) p (cov_A x p) (cov_b x p) HM) with (lstsq := lstsq) (tol := tol).
  - intros n j Hn Hj. destruct (Hrow n Hn) as [_ He]. rewrite He by lia. unfold cov_A. f_equal. lia.
  - intros n Hn. destruct (Hrow n Hn) as [_ He]. rewrite He by lia. unfold cov_b. f_equal. lia.
  - exact Hs.
  - exact H.
Qed.

Theorem covar_residual_orthogonal_thm lstsq tol (x : list F) p a e : lstsq_spec lstsq ->
  arcovar_with lstsq tol x p = Some (a, e) ->
  length a = p /\
  forall i, (i < p)%nat ->
    sumf (length x - p) (fun n => conj (nthF x (p + n - 1 - i)) * fwd_res x p (nthF a) n) = 0.
Proof.
  intros Hs H. destruct (arcovar_sound lstsq tol x p a e Hs H) as (Hl & Ho & _).
  split; [exact Hl|]. intros i Hi. exact (Ho i Hi).
Qed.

Theorem covar_pythagoras_thm lstsq tol (x : list F) p a e (c : nat -> F) : lstsq_spec lstsq ->
  arcovar_with lstsq tol x p = Some (a, e) ->
  fwd_energy x p c - e
  = sumf (length x - p) (fun n => nrm2 (sumf p (fun j => nthF x (p + n - 1 - j) * (c j - nthF a j)))).
Proof.
  intros Hs H. destruct (arcovar_sound lstsq tol x p a e Hs H) as (_ & Ho & ->).
  exact (ls_pythagoras_f _ _ _ _ (nthF a) c Ho).
Qed.

Theorem covar_e_is_min_thm lstsq tol (x : list F) p a e : lstsq_spec lstsq ->
  arcovar_with lstsq tol x p = Some (a, e) ->
  e = fwd_energy x p (nthF a) /\ nonneg e /\ forall c : nat -> F, le e (fwd_energy x p c).
Proof.
  intros Hs H. destruct (arcovar_sound lstsq tol x p a e Hs H) as (_ & Ho & ->).
  split; [reflexivity|]. split; [apply nonneg_sum_nrm2|].
  intros c. exact (ls_minimum_f _ _ _ _ (nthF a) c Ho).
Qed.

Theorem arcovar_raises_thm lstsq tol (x : list F) p : lstsq_spec lstsq ->
  arcovar_with lstsq tol x p = None <->
  lstsq p (mneg (cols1 (corrmtx x p MCovariance))) (col0 (corrmtx x p MCovariance)) = None.
Proof.
  intros Hs. unfold arcovar_with.
  destruct (corrmtx_covariance_shape_thm x p) as [HM Hrow].
  apply (ar_ls_no_assert (corrmtx x p MCovariance) (length x - p) p (cov_A x p) (cov_b x p) HM).
  - intros n j Hn Hj. destruct (Hrow n Hn) as [_ He]. rewrite He by lia. unfold cov_A. f_equal. lia.
  - intros n Hn. destruct (Hrow n Hn) as [_ He]. rewrite He by lia. unfold cov_b. f_equal. lia.
  - exact Hs.
Qed.

(* uniqueness: with full column rank the returned vector is THE minimiser *)
Definition cov_full_rank (x : list F) (p : nat) : Prop :=
  forall c : nat -> F,
    (forall n, (n < length x - p)%nat -> sumf p (fun j => nthF x (p + n - 1 - j) * c j) = 0) ->
    forall j, (j < p)%nat -> c j = 0.

Theorem covar_unique_thm lstsq tol (x : list F) p a e (c : nat -> F) : lstsq_spec lstsq -> cov_full_rank x p ->
  arcovar_with lstsq tol x p = Some (a, e) ->
  fwd_energy x p c = e -> forall j, (j < p)%nat -> c j = nthF a j.
Proof.
  intros Hs Hr H E. destruct (arcovar_sound lstsq tol x p a e Hs H) as (_ & Ho & He).
  apply (ls_unique_min_f (length x - p) p (cov_A x p) (cov_b x p) (nthF a) c Hr Ho).
  rewrite cov_energy, E, He. reflexivity.
Qed.

(* ---------- modcovar ---------- *)
Lemma modcovar_sound lstsq tol (x : list F) p a e : lstsq_spec lstsq ->
  modcovar_with lstsq tol x p = Some (a, e) ->
  length a = p /\ orth (2 * (length x - p)) p (mod_A x p) (mod_b x p) (nthF a)
  /\ e = fwd_energy x p (nthF a) + bwd_energy x p (nthF a).
Proof.
  intros Hs H. unfold modcovar_with in H. rewrite <- mod_energy.
  destruct (corrmtx_modified_shape_thm x p) as [HM Hrow].
  apply (ar_ls_sound (corrmtx x p MModified) (2 * (length x - p)) p (mod_A x p) (mod_b x p) HM) with (lstsq := lstsq) (tol := tol).
  - intros n j Hn Hj. unfold mod_A. cbv zeta. destruct (Nat.ltb_spec n (length x - p)) as [Hlt|Hge].
    + destruct (Hrow n Hlt) as (_ & _ & He). destruct (He (S j)) as [E _]; [lia|]. rewrite E. f_equal. lia.
    + destruct (Hrow (n - (length x - p))%nat) as (_ & _ & He); [lia|]. destruct (He (S j)) as [_ E]; [lia|].
      replace (length x - p + (n - (length x - p)))%nat with n in E by lia. rewrite E. do 2 f_equal. lia.
  - intros n Hn. unfold mod_b. cbv zeta. destruct (Nat.ltb_spec n (length x - p)) as [Hlt|Hge].
    + destruct (Hrow n Hlt) as (_ & _ & He). destruct (He O) as [E _]; [lia|]. rewrite E. f_equal. lia.
    + destruct (Hrow (n - (length x - p))%nat) as (_ & _ & He); [lia|]. destruct (He O) as [_ E]; [lia|].
      replace (length x - p + (n - (length x - p)))%nat with n in E by lia. rewrite E. do 2 f_equal. lia.
  - exact Hs.
  - exact H.
Qed.

Theorem modcovar_residual_orthogonal_thm lstsq tol (x : list F) p a e : lstsq_spec lstsq ->
  modcovar_with lstsq tol x p = Some (a, e) ->
  length a = p /\
  forall i, (i < p)%nat ->
    sumf (length x - p) (fun n => conj (nthF x (p + n - 1 - i)) * fwd_res x p (nthF a) n)
    + sumf (length x - p) (fun n => nthF x (n + 1 + i) * bwd_res x p (nthF a) n) = 0.
Proof.
  intros Hs H. destruct (modcovar_sound lstsq tol x p a e Hs H) as (Hl & Ho & _).
  split; [exact Hl|]. intros i Hi. rewrite <- mod_orth_split. exact (Ho i Hi).
Qed.

Theorem modcovar_pythagoras_thm lstsq tol (x : list F) p a e (c : nat -> F) : lstsq_spec lstsq ->
  modcovar_with lstsq tol x p = Some (a, e) ->
  fwd_energy x p c + bwd_energy x p c - e
  = sumf (length x - p) (fun n => nrm2 (sumf p (fun j => nthF x (p + n - 1 - j) * (c j - nthF a j))))
    + sumf (length x - p) (fun n => nrm2 (sumf p (fun j => conj (nthF x (n + 1 + j)) * (c j - nthF a j)))).
Proof.
  intros Hs H. destruct (modcovar_sound lstsq tol x p a e Hs H) as (_ & Ho & ->).
  rewrite <- !mod_energy. rewrite (ls_pythagoras_f _ _ _ _ (nthF a) c Ho).
  set (K := (length x - p)%nat). replace (2 * K)%nat with (K + K)%nat by lia. rewrite sumf_split. f_equal.
  - apply sumf_ext; intros n Hn. f_equal. unfold lin. apply sumf_ext; intros j _. f_equal.
    unfold mod_A. cbv zeta. fold K. destruct (Nat.ltb_spec n K); [reflexivity|lia].
  - apply sumf_ext; intros n _. f_equal. unfold lin. apply sumf_ext; intros j _. f_equal.
    unfold mod_A. cbv zeta. fold K. destruct (Nat.ltb_spec (K + n) K); [lia|]. do 2 f_equal. lia.
Qed.

Theorem modcovar_e_is_min_thm lstsq tol (x : list F) p a e : lstsq_spec lstsq ->
  modcovar_with lstsq tol x p = Some (a, e) ->
  e = fwd_energy x p (nthF a) + bwd_energy x p (nthF a) /\ nonneg e /\
  forall c : nat -> F, le e (fwd_energy x p c + bwd_energy x p c).
Proof.
  intros Hs H. destruct (modcovar_sound lstsq tol x p a e Hs H) as (_ & Ho & ->).
  split; [reflexivity|]. split; [apply nn_add; apply nonneg_sum_nrm2|].
  intros c. rewrite <- !mod_energy. exact (ls_minimum_f _ _ _ _ (nthF a) c Ho).
Qed.

Theorem modcovar_raises_thm lstsq tol (x : list F) p : lstsq_spec lstsq ->
  modcovar_with lstsq tol x p = None <->
  lstsq p (mneg (cols1 (corrmtx x p MModified))) (col0 (corrmtx x p MModified)) = None.
Proof.
  intros Hs. unfold modcovar_with.
  destruct (corrmtx_modified_shape_thm x p) as [HM Hrow].
  apply (ar_ls_no_assert (corrmtx x p MModified) (2 * (length x - p)) p (mod_A x p) (mod_b x p) HM).
  - intros n j Hn Hj. unfold mod_A. cbv zeta. destruct (Nat.ltb_spec n (length x - p)) as [Hlt|Hge].
    + destruct (Hrow n Hlt) as (_ & _ & He). destruct (He (S j)) as [E _]; [lia|]. rewrite E. f_equal. lia.
    + destruct (Hrow (n - (length x - p))%nat) as (_ & _ & He); [lia|]. destruct (He (S j)) as [_ E]; [lia|].
      replace (length x - p + (n - (length x - p)))%nat with n in E by lia. rewrite E. do 2 f_equal. lia.
  - intros n Hn. unfold mod_b. cbv zeta. destruct (Nat.ltb_spec n (length x - p)) as [Hlt|Hge].
    + destruct (Hrow n Hlt) as (_ & _ & He). destruct (He O) as [E _]; [lia|]. rewrite E. f_equal. lia.
    + destruct (Hrow (n - (length x - p))%nat) as (_ & _ & He); [lia|]. destruct (He O) as [_ E]; [lia|].
      replace (length x - p + (n - (length x - p)))%nat with n in E by lia. rewrite E. do 2 f_equal. lia.
  - exact Hs.
Qed.

Definition mod_full_rank (x : list F) (p : nat) : Prop :=
  forall c : nat -> F,
    (forall n, (n < length x - p)%nat -> sumf p (fun j => nthF x (p + n - 1 - j) * c j) = 0) ->
    (forall n, (n < length x - p)%nat -> sumf p (fun j => conj (nthF x (n + 1 + j)) * c j) = 0) ->
    forall j, (j < p)%nat -> c j = 0.

Theorem modcovar_unique_thm lstsq tol (x : list F) p a e (c : nat -> F) : lstsq_spec lstsq -> mod_full_rank x p ->
  modcovar_with lstsq tol x p = Some (a, e) ->
  fwd_energy x p c + bwd_energy x p c = e -> forall j, (j < p)%nat -> c j = nthF a j.
Proof.
  intros Hs Hr H E. destruct (modcovar_sound lstsq tol x p a e Hs H) as (_ & Ho & He).
  apply (ls_unique_min_f (2 * (length x - p)) p (mod_A x p) (mod_b x p) (nthF a) c); [|exact Ho|].
  - intros d Hd. apply Hr.
    + intros n Hn. specialize (Hd n). unfold lin in Hd. rewrite <- Hd by lia.
      apply sumf_ext; intros j _. f_equal. unfold mod_A. cbv zeta.
      destruct (Nat.ltb_spec n (length x - p)); [reflexivity|lia].
    + intros n Hn. specialize (Hd (length x - p + n)%nat). unfold lin in Hd. rewrite <- Hd by lia.
      apply sumf_ext; intros j _. f_equal. unfold mod_A. cbv zeta.
      destruct (Nat.ltb_spec (length x - p + n) (length x - p)); [lia|]. do 2 f_equal. lia.
  - rewrite !mod_energy, E, He. reflexivity.
Qed.
End CovarOpt.
