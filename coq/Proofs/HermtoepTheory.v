(* HERMTOEP solves its Hermitian Toeplitz system T x = z (T[i][j] = r(i-j), r = T0 :: T,
   r(-d) = conj r(d)): the Levinson invariant carried together with the partial solution. *)
Require Import Spectrum.Theory.Ops Spectrum.Theory.Sum Spectrum.Theory.Vec Spectrum.Model.Levinson
               Spectrum.Proofs.LevinsonTheory.

Section Herm.
Context {F : Type} {OF : Ops F} {L : Laws OF}.
Local Open Scope F_scope.
Add Field FFh : (fth (O:=OF)).

Variable r : list F.
Hypothesis r0_real : isreal (nthF r O).
Variable Z : list F.

Definition xrow (m : nat) (X : nat -> F) (i : nat) : F := sumf (S m) (fun j => X j * rr r i j).

(* the backward predictor: reversing and conjugating the forward one *)
Lemma backward_row m a P i : Inv r m a P -> (i <= m)%nat ->
  sumf (S m) (fun j => conj (a (m - j)%nat) * rr r i j) = if (i =? m)%nat then P else 0.
Proof.
  intros (Ha0 & HP & H0 & Hi) Him.
  assert (E : sumf (S m) (fun j => conj (a (m - j)%nat) * rr r i j) = conj (row r m a (m - i))).
  { unfold row. rewrite (sumf_rev (S m)), sumf_conj. apply sumf_ext; intros j Hj.
    rewrite conj_mul. f_equal. { do 2 f_equal. lia. }
    unfold rr. rewrite (rz_conj r r0_real). f_equal. lia. }
  rewrite E. destruct (Nat.eqb_spec i m) as [->|Hne].
  - rewrite Nat.sub_diag, H0. exact HP.
  - rewrite (Hi (m - i)%nat) by lia. apply conj_0.
Qed.

Definition HInv (m : nat) (st : list F * F * list F) : Prop :=
  let '(A, P, X) := st in
  length A = m /\ length X = S m /\ P <> 0 /\ Inv r m (afun A) P
  /\ forall i, (i <= m)%nat -> xrow m (nthF X) i = nthF Z i.

Lemma beta_is_xrow m (X : list F) :
  sumL (mk (S m) (fun j => nthF X j * nthF (tl r) (m - j))) = xrow m (nthF X) (S m).
Proof.
  rewrite sumL_mk. unfold xrow. apply sumf_ext; intros j Hj. f_equal.
  rewrite nth_tl. unfold rr, rz. destruct (Z.leb_spec 0 (Z.of_nat (S m) - Z.of_nat j)); [|lia]. f_equal. lia.
Qed.

Lemma herm_step_inv m st st' : HInv m st -> herm_step (tl r) Z st m = Some st' -> HInv (S m) st'.
Proof.
  destruct st as [[A P] X]. intros (HA & HX & HP0 & HI & HZ) Hs. unfold herm_step in Hs. cbv zeta in Hs.
  set (k := - lev_delta (tl r) A m / P) in Hs.
  set (P' := P * (1 - k * conj k)) in Hs.
  destruct (le0 P') eqn:Hle; [discriminate|]. injection Hs as <-.
  assert (HP' : P' <> 0) by (apply le0_false_neq; exact Hle).
  assert (Hk : k * P = - row r m (afun A) (S m)).
  { unfold k. rewrite (delta_is_row r) by exact HA. field. exact HP0. }
  pose proof (levinson_step r r0_real m (afun A) P k HI Hk) as HI'.
  assert (HIA : Inv r (S m) (afun (stepup A k)) P').
  { destruct HI' as (Ha & Hc & Hr & Hz). unfold P'. unfold Inv. split; [reflexivity|]. split; [exact Hc|]. split.
    - rewrite <- Hr. apply row_ext. intros j Hj. apply afun_stepup; [exact HA|lia].
    - intros i Hi. rewrite <- (Hz i Hi). apply row_ext. intros j Hj. apply afun_stepup; [exact HA|lia]. }
  set (A' := stepup A k) in *.
  set (alpha := (nthF Z (S m) - sumL (mk (S m) (fun j => nthF X j * nthF (tl r) (m - j)))) / P').
  set (X' := mk (S m) (fun j => nthF X j + alpha * conj (nthF A' (m - j))) ++ [alpha]).
  assert (HX'l : length X' = S (S m)) by (unfold X'; rewrite app_length, mk_length; cbn; lia).
  assert (HX' : forall j, (j <= S m)%nat ->
            nthF X' j = (if (j <=? m)%nat then nthF X j else 0) + alpha * conj (afun A' (S m - j))).
  { intros j Hj. unfold X'. destruct (Nat.leb_spec j m) as [Jm|Jm].
    - rewrite nthF_app_l by (rewrite mk_length; lia). rewrite nth_mk by lia.
      replace (S m - j)%nat with (S (m - j)) by lia. reflexivity.
    - replace j with (length (mk (S m) (fun j => nthF X j + alpha * conj (nthF A' (m - j))))) at 1 by (rewrite mk_length; lia).
      rewrite nthF_app_last. replace (S m - j)%nat with O by lia. cbn [afun]. rewrite conj_1. ring. }
  assert (Hrow : forall i, (i <= S m)%nat ->
            xrow (S m) (nthF X') i = xrow m (nthF X) i + alpha * (if (i =? S m)%nat then P' else 0)).
  { intros i Hi. rewrite <- (backward_row (S m) (afun A') P' i HIA Hi). unfold xrow.
    rewrite <- sumf_scale. rewrite (sumf_S (S m) (fun j => nthF X' j * rr r i j)).
    rewrite (sumf_S (S m) (fun j => alpha * (conj (afun A' (S m - j)) * rr r i j))).
    rewrite HX' by lia. destruct (Nat.leb_spec (S m) m); [lia|].
    rewrite (sumf_ext (S m) (fun j => nthF X' j * rr r i j)
               (fun j => nthF X j * rr r i j + alpha * (conj (afun A' (S m - j)) * rr r i j))).
    2:{ intros j Hj. rewrite HX' by lia. destruct (Nat.leb_spec j m); [ring|lia]. }
    rewrite sumf_add. ring. }
  unfold HInv. split; [unfold A'; rewrite stepup_length; lia|]. split; [exact HX'l|]. split; [exact HP'|].
  split; [exact HIA|]. intros i Hi. rewrite Hrow by exact Hi.
  destruct (Nat.eqb_spec i (S m)) as [->|Hne].
  - unfold alpha. rewrite beta_is_xrow. field. exact HP'.
  - rewrite HZ by lia. ring.
Qed.

Lemma herm_iter_inv m st : nthF r O <> 0 ->
  herm_iter (tl r) Z (nthF r O) m = Some st -> HInv m st.
Proof.
  intros H0. revert st. induction m; intros st H.
  - cbn in H. injection H as <-. unfold HInv. split; [reflexivity|]. split; [reflexivity|]. split; [exact H0|].
    split. { destruct (Inv_0 r r0_real H0) as (_ & _ & _ & HI & _). exact HI. }
    intros i Hi. replace i with O by lia. unfold xrow. cbn. unfold rr, rz. cbn. field. exact H0.
  - cbn [herm_iter] in H. destruct (herm_iter (tl r) Z (nthF r O) m) as [st0|] eqn:E; [|discriminate].
    eapply herm_step_inv; [apply IHm; reflexivity|exact H].
Qed.
End Herm.

Section Final.
Context {F : Type} {OF : Ops F} {L : Laws OF}.
Local Open Scope F_scope.

(* HERMTOEP(T0, T, Z) = X  ==>  for every row i: sum_j r(i-j) X_j = Z_i  with r = T0 :: T *)
Theorem hermtoep_solves_thm (T0 : F) (T Z X : list F) :
  isreal T0 -> T0 <> 0 -> hermtoep T0 T Z = Some X ->
  length X = S (length T) /\
  forall i, (i <= length T)%nat ->
    sumf (S (length T)) (fun j => nthF X j * rz (T0 :: T) (Z.of_nat i - Z.of_nat j)) = nthF Z i.
Proof.
  intros Hr H0 H. unfold hermtoep in H.
  destruct (herm_iter T Z T0 (length T)) as [[[A P] X0]|] eqn:E; [|discriminate]. injection H as <-.
  pose proof (herm_iter_inv (T0 :: T) Hr Z (length T) (A, P, X0) H0 E) as (_ & HX & _ & _ & HZ).
  split; [exact HX|]. intros i Hi. apply (HZ i Hi).
Qed.
(* it fails only at a stage whose error power tests "<= 0" (positive definite systems never do) *)
Theorem hermtoep_raises_thm (T0 : F) (T Z : list F) :
  hermtoep T0 T Z = None ->
  exists m A P X, (m < length T)%nat /\ herm_iter T Z T0 m = Some (A, P, X) /\
    let k := (- lev_delta T A m) / P in le0 (P * (1 - k * conj k)) = true.
Proof.
  unfold hermtoep. generalize (length T) as n. induction n; intros H.
  - cbn in H. discriminate.
  - cbn [herm_iter] in H. destruct (herm_iter T Z T0 n) as [[[A P] X]|] eqn:E.
    + exists n, A, P, X. split; [lia|]. split; [exact E|]. cbv zeta.
      unfold herm_step in H. cbv zeta in H. destruct (le0 _) eqn:Hle; [reflexivity|discriminate].
    + destruct IHn as (m & A & P & X & Hm & Hi & Hk). { reflexivity. }
      exists m, A, P, X. split; [lia|]. split; assumption.
Qed.
End Final.
