(* List-level facts about the index families of Model/Window.v, for any carrier:
   mkz = mk o Z.of_nat, lengths, nth, the generic symmetry lemma, palindromes. *)
Require Import Spectrum.Theory.Ops Spectrum.Theory.Vec Spectrum.Model.Window.

Section Bridge.
Context {F : Type} {OF : Ops F} {TF : TOps F}.
Local Open Scope F_scope.

Lemma zseq_map s n : zseq s n = map (fun i => (s + Z.of_nat i)%Z) (seq 0 n).
Proof.
  revert s; induction n; intros s; [reflexivity|].
  cbn [zseq seq map]. f_equal; [lia|]. rewrite IHn, <- seq_shift, map_map. apply map_ext. intros a. lia.
Qed.
Lemma mkz_mk n (f : Z -> F) : mkz n f = mk n (fun i => f (Z.of_nat i)).
Proof. unfold mkz, mk. rewrite zseq_map, map_map. reflexivity. Qed.
Lemma mkz_length n (f : Z -> F) : length (mkz n f) = n.
Proof. rewrite mkz_mk. apply mk_length. Qed.
Lemma nth_mkz n (f : Z -> F) j : (j < n)%nat -> nthF (mkz n f) j = f (Z.of_nat j).
Proof. intros H. rewrite mkz_mk. exact (nth_mk n (fun i => f (Z.of_nat i)) j H). Qed.
Lemma mkz_ext n (f g : Z -> F) : (forall i, (0 <= i < Z.of_nat n)%Z -> f i = g i) -> mkz n f = mkz n g.
Proof. intros H. rewrite !mkz_mk. apply mk_ext. intros i Hi. apply H. lia. Qed.
Lemma ones_length N : length (ones N) = N. Proof. apply mkz_length. Qed.
Lemma nth_ones N j : (j < N)%nat -> nthF (ones N) j = 1. Proof. intros; unfold ones; rewrite nth_mkz; auto. Qed.

Lemma unless1_length N (f : Z -> F) : length (unless1 N f) = N.
Proof. unfold unless1. destruct (Nat.eqb_spec N 1) as [->|_]; [reflexivity|apply mkz_length]. Qed.
Lemma nth_unless1 N (f : Z -> F) j : N <> 1%nat -> (j < N)%nat -> nthF (unless1 N f) j = f (Z.of_nat j).
Proof. intros H1 Hj. unfold unless1. destruct (Nat.eqb_spec N 1); [contradiction|apply nth_mkz; exact Hj]. Qed.
Lemma unless1_1 (f : Z -> F) : unless1 1 f = [1]. Proof. reflexivity. Qed.

(* the property's symmetry clause, on lists *)
Definition symmetric (l : list F) : Prop := forall n, (n < length l)%nat -> nthF l n = nthF l (length l - 1 - n).

Lemma symmetric_mkz N (f : Z -> F) :
  (forall i, (0 <= i < Z.of_nat N)%Z -> f (Z.of_nat N - 1 - i)%Z = f i) -> symmetric (mkz N f).
Proof.
  intros H n Hn. rewrite mkz_length in *. rewrite !nth_mkz by lia.
  rewrite <- (H (Z.of_nat n)) by lia. f_equal. lia.
Qed.
Lemma symmetric_unless1 N (f : Z -> F) :
  (forall i, (0 <= i < Z.of_nat N)%Z -> f (Z.of_nat N - 1 - i)%Z = f i) -> symmetric (unless1 N f).
Proof.
  intros H. unfold unless1. destruct (Nat.eqb_spec N 1) as [->|_].
  - intros n Hn. cbn in Hn. assert (n = 0)%nat by lia. subst. reflexivity.
  - apply symmetric_mkz. exact H.
Qed.
Lemma symmetric_rev (l : list F) : rev l = l -> symmetric l.
Proof.
  intros E n Hn. unfold nthF. rewrite <- E at 1. rewrite rev_nth by exact Hn. f_equal. lia.
Qed.
Lemma rev_symmetric (l : list F) : symmetric l -> rev l = l.
Proof.
  intros H. apply (nth_ext _ _ 0 0); [apply rev_length|].
  intros n Hn. rewrite rev_length in Hn. rewrite rev_nth by exact Hn.
  symmetry. replace (length l - S n)%nat with (length l - 1 - n)%nat by lia. apply H. exact Hn.
Qed.
Lemma palindrome_sandwich (h m : list F) : rev m = m -> rev (h ++ m ++ rev h) = h ++ m ++ rev h.
Proof. intros E. rewrite !rev_app_distr, rev_involutive, E, app_assoc. reflexivity. Qed.
Lemma rev_ones N : rev (ones N) = ones N.
Proof. apply rev_symmetric. apply symmetric_mkz. reflexivity. Qed.

(* elementwise product of two lists of the same length *)
Lemma nth_map_mul_combine (a b : list F) j : (j < length a)%nat -> length a = length b ->
  nthF (map (fun p => fst p * snd p) (combine a b)) j = nthF a j * nthF b j.
Proof.
  revert b j; induction a as [|x a IH]; intros [|y b] j Hj Hl; cbn [length] in *; try lia.
  destruct j; [reflexivity|]. cbn [combine map]. rewrite !nthF_consS. apply IH; lia.
Qed.
End Bridge.
