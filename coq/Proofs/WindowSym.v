(* length = N and symmetry w[n] = w[N-1-n] of every generator, over R.
   One generic lemma (Proofs/WindowBridge.v: symmetric_mkz) reduces symmetry to
   "body (N-1-i) = body i", i.e. to evenness of cos / |.| / sinc / squares and of the argument map. *)
From Coq Require Import Reals Lra Lia.
Require Import Spectrum.Theory.Ops Spectrum.Theory.Vec Spectrum.Model.Window Spectrum.Instances.RWin
               Spectrum.Proofs.WindowBridge Spectrum.Proofs.WindowReal Spectrum.Proofs.WindowGen.
Local Open Scope R_scope.
Notation length := List.length.

Section Sym.
Variables (I0 : R -> R) (cheb : nat -> R -> list R).
#[local] Hint Extern 0 (TOps R) => exact (rT I0 cheb) : typeclass_instances.
Ltac tsimp := cbn [tcos tsin texp tln tsqrt tabs tpi tI0 tltb tleb teqb tcheb r_tops rT] in *; rsimp.

Lemma symmetric_single (x : R) : symmetric [x].
Proof. intros n Hn. cbn in Hn. assert (n = 0)%nat by lia. subst. reflexivity. Qed.
Lemma symmetric_mkz' N (f : Z -> R) :
  ((2 <= N)%nat -> forall i, (0 <= i < Z.of_nat N)%Z -> f (Z.of_nat N - 1 - i)%Z = f i) -> symmetric (mkz N f).
Proof.
  intros H. destruct (Nat.lt_ge_cases N 2) as [Hs|Hl]; [|apply symmetric_mkz; apply H; exact Hl].
  intros n Hn. rewrite mkz_length in *. assert (n = 0 /\ N = 1)%nat as [-> ->] by lia. reflexivity.
Qed.
Lemma symmetric_unless1' N (f : Z -> R) :
  ((2 <= N)%nat -> forall i, (0 <= i < Z.of_nat N)%Z -> f (Z.of_nat N - 1 - i)%Z = f i) -> symmetric (unless1 N f).
Proof.
  intros H. unfold unless1. destruct (Nat.eqb_spec N 1) as [->|_]; [apply symmetric_single|apply symmetric_mkz'; exact H].
Qed.

(* m = N-1 as a real, x = i as a real, and the reflected index is m - x *)
Ltac refl_setup N HN i Hi m x Hm :=
  pose proof (IZR_pred_pos N HN) as Hm;
  rewrite ?ofZ_IZR, ?two_R, ?half_R, ?lit_IZR;
  rewrite ?(minus_IZR (Z.of_nat N - 1) i);
  set (m := IZR (Z.of_nat N - 1)) in *; set (x := IZR i) in *; tsimp.

Lemma np_n_refl N i : np_n (Z.of_nat N) (Z.of_nat N - 1 - i) = - np_n (Z.of_nat N) i.
Proof. unfold np_n. rewrite !ofZ_IZR, <- opp_IZR. f_equal. lia. Qed.

Lemma hann_sym N : symmetric (window_hann N).
Proof.
  unfold window_hann. apply symmetric_unless1'. intros HN i Hi. cbv zeta.
  rewrite np_n_refl. generalize (np_n (Z.of_nat N) i). intros y.
  refl_setup N HN i Hi m x Hm. replace (PI * - y / m) with (- (PI * y / m)) by (field; lra). rewrite cos_neg. reflexivity.
Qed.

Lemma hamming_sym N : symmetric (window_hamming N).
Proof.
  unfold window_hamming. apply symmetric_unless1'. intros HN i Hi. cbv zeta.
  rewrite np_n_refl. generalize (np_n (Z.of_nat N) i). intros y.
  refl_setup N HN i Hi m x Hm. replace (PI * - y / m) with (- (PI * y / m)) by (field; lra). rewrite cos_neg. reflexivity.
Qed.
Lemma bartlett_sym N : symmetric (window_bartlett N).
Proof.
  unfold window_bartlett. apply symmetric_unless1'. intros HN i Hi. cbv zeta.
  rewrite np_n_refl. generalize (np_n (Z.of_nat N) i). intros y.
  refl_setup N HN i Hi m x Hm. unfold Rleb.
  destruct (Rle_dec (- y) 0), (Rle_dec y 0); try (field; lra).
  - assert (y = 0) by lra. subst y. field; lra.
  - exfalso; lra.
Qed.
Lemma kaiser_sym N beta : symmetric (window_kaiser N beta).
Proof.
  unfold window_kaiser. apply symmetric_unless1'. intros HN i Hi. cbv zeta.
  refl_setup N HN i Hi m x Hm. rewrite !sq_R.
  replace ((m - x - m / 2) / (m / 2) * ((m - x - m / 2) / (m / 2))) with ((x - m / 2) / (m / 2) * ((x - m / 2) / (m / 2))) by (field; lra).
  reflexivity.
Qed.
Lemma blackman_sym N alpha : symmetric (window_blackman N alpha).
Proof.
  unfold window_blackman. apply symmetric_unless1'. intros HN i Hi. cbv zeta.
  refl_setup N HN i Hi m x Hm.
  replace (2 * PI * ((m - x) / m)) with (2 * PI - 2 * PI * (x / m)) by (field; lra).
  replace (4 * PI * ((m - x) / m)) with (4 * PI - 4 * PI * (x / m)) by (field; lra).
  rewrite cos_2PI_minus, cos_4PI_minus. reflexivity.
Qed.
Lemma cosine_sym N : symmetric (window_cosine N).
Proof.
  unfold window_cosine. apply symmetric_unless1'. intros HN i Hi. cbv zeta.
  refl_setup N HN i Hi m x Hm.
  replace (PI * (m - x) / m) with (PI - PI * x / m) by (field; lra). apply sin_PI_x.
Qed.
Lemma lanczos_sym N : symmetric (window_lanczos N).
Proof.
  unfold window_lanczos. apply symmetric_unless1'. intros HN i Hi. cbv zeta.
  refl_setup N HN i Hi m x Hm.
  replace (2 * (m - x) / m - 1) with (- (2 * x / m - 1)) by (field; lra). apply sinc_even.
Qed.
Lemma bartlett_hann_sym N : symmetric (window_bartlett_hann N).
Proof.
  unfold window_bartlett_hann. apply symmetric_unless1'. intros HN i Hi. cbv zeta.
  refl_setup N HN i Hi m x Hm.
  replace ((m - x) / m - / 2) with (- (x / m - / 2)) by (field; lra). rewrite Rabs_Ropp.
  replace (2 * PI * (m - x) / m) with (2 * PI - 2 * PI * x / m) by (field; lra).
  rewrite cos_2PI_minus. reflexivity.
Qed.
Lemma coeff4_sym N a0 a1 a2 a3 : symmetric (coeff4 N a0 a1 a2 a3).
Proof.
  unfold coeff4. apply symmetric_unless1'. intros HN i Hi. cbv zeta.
  refl_setup N HN i Hi m x Hm.
  replace (2 * PI * (m - x) / m) with (2 * PI - 2 * PI * x / m) by (field; lra).
  replace (4 * PI * (m - x) / m) with (4 * PI - 4 * PI * x / m) by (field; lra).
  replace (6 * PI * (m - x) / m) with (6 * PI - 6 * PI * x / m) by (field; lra).
  rewrite cos_2PI_minus, cos_4PI_minus, cos_6PI_minus. reflexivity.
Qed.
Lemma flattop_f_refl y : flattop_f (2 * PI - y) = flattop_f y.
Proof.
  unfold flattop_f. rewrite ?ofZ_IZR, ?two_R. tsimp.
  replace (2 * (2 * PI - y)) with (4 * PI - 2 * y) by ring.
  replace (3 * (2 * PI - y)) with (6 * PI - 3 * y) by ring.
  replace (4 * (2 * PI - y)) with (8 * PI - 4 * y) by ring.
  rewrite cos_2PI_minus, cos_4PI_minus, cos_6PI_minus, cos_8PI_minus. reflexivity.
Qed.
Lemma flattop_sym N : symmetric (window_flattop N false).
Proof.
  unfold window_flattop. apply symmetric_unless1'. intros HN i Hi. cbv zeta.
  refl_setup N HN i Hi m x Hm.
  replace (2 * PI * (m - x) / m) with (2 * PI - 2 * PI * x / m) by (field; lra). apply flattop_f_refl.
Qed.
(* periodic mode: w[n] = w[N-n] for 1 <= n < N *)
Lemma flattop_periodic_sym N n : (1 <= n < N)%nat ->
  nthF (window_flattop N true) n = nthF (window_flattop N true) (N - n).
Proof.
  intros Hn. unfold window_flattop. cbv zeta. rewrite !nth_mkz by lia.
  rewrite !ofZ_IZR, two_R. tsimp. rewrite Nat2Z.inj_sub by lia. rewrite minus_IZR.
  assert (HN : 0 < IZR (Z.of_nat N)) by (apply IZR_lt; lia).
  set (m := IZR (Z.of_nat N)) in *. set (x := IZR (Z.of_nat n)).
  replace (2 * PI * (m - x) / m) with (2 * PI - 2 * PI * x / m) by (field; lra). symmetry. apply flattop_f_refl.
Qed.

(* ---- linspace(-b, b, N) family: the abscissa changes sign under reflection *)
Lemma gaussian_sym N alpha : symmetric (window_gaussian N alpha).
Proof.
  unfold window_gaussian. cbv zeta. apply symmetric_mkz'. intros HN i Hi.
  rewrite linspace_refl by assumption. generalize (linspace (- (ofZ (Z.of_nat N - 1) / two)) (ofZ (Z.of_nat N - 1) / two) (Z.of_nat N) i).
  intros t. tsimp. rewrite !sq_R. f_equal. field. rewrite ofZ_IZR, two_R.
  assert (0 < IZR (Z.of_nat N)) by (apply IZR_lt; lia). split; lra.
Qed.
Lemma bohman_sym N : symmetric (window_bohman N).
Proof.
  unfold window_bohman. cbv zeta. apply symmetric_mkz'. intros HN i Hi.
  rewrite linspace_refl by assumption. unfold bohman_f. tsimp. rewrite Rabs_Ropp. reflexivity.
Qed.
Lemma nhalf_refl N i : (2 <= N)%nat -> (0 <= i < Z.of_nat N)%Z ->
  nhalf (Z.of_nat N) (Z.of_nat N - 1 - i) = - nhalf (Z.of_nat N) i.
Proof. intros. unfold nhalf. apply linspace_refl; assumption. Qed.
Lemma riesz_sym N : symmetric (window_riesz N).
Proof.
  unfold window_riesz. cbv zeta. apply symmetric_mkz'. intros HN i Hi.
  rewrite nhalf_refl by assumption. generalize (nhalf (Z.of_nat N) i). intros t. tsimp.
  replace (- t / (ofZ (Z.of_nat N) / two)) with (- (t / (ofZ (Z.of_nat N) / two))).
  - rewrite Rabs_Ropp. reflexivity.
  - rewrite ofZ_IZR, two_R. assert (0 < IZR (Z.of_nat N)) by (apply IZR_lt; lia). field. lra.
Qed.
Lemma riemann_sym N : symmetric (window_riemann N).
Proof.
  unfold window_riemann. cbv zeta. apply symmetric_mkz'. intros HN i Hi.
  rewrite nhalf_refl by assumption. generalize (nhalf (Z.of_nat N) i). intros t. tsimp.
  replace (two * - t / ofZ (Z.of_nat N)) with (- (two * t / ofZ (Z.of_nat N))).
  - apply sinc_even.
  - rewrite ofZ_IZR, two_R. assert (0 < IZR (Z.of_nat N)) by (apply IZR_lt; lia). field. lra.
Qed.
Lemma poisson_sym N alpha : symmetric (window_poisson N alpha).
Proof.
  unfold window_poisson. cbv zeta. apply symmetric_mkz'. intros HN i Hi.
  rewrite nhalf_refl by assumption. tsimp. rewrite Rabs_Ropp. reflexivity.
Qed.
Lemma cauchy_sym N alpha : symmetric (window_cauchy N alpha).
Proof.
  unfold window_cauchy. cbv zeta. apply symmetric_mkz'. intros HN i Hi.
  rewrite nhalf_refl by assumption. generalize (nhalf (Z.of_nat N) i). intros t. tsimp. rewrite !sq_R.
  f_equal. f_equal. rewrite ofZ_IZR, two_R. assert (0 < IZR (Z.of_nat N)) by (apply IZR_lt; lia). field. lra.
Qed.
Lemma rectangle_sym N : symmetric (window_rectangle N).
Proof. unfold window_rectangle, ones. apply symmetric_mkz. reflexivity. Qed.

(* ---- lengths of the pointwise generators *)
Lemma hann_length N : length (window_hann N) = N. Proof. apply unless1_length. Qed.
Lemma poisson_length N a : length (window_poisson N a) = N. Proof. apply mkz_length. Qed.

(* ---- products, palindromes *)
Lemma poisson_hanning_length N a : length (window_poisson_hanning N a) = N.
Proof.
  unfold window_poisson_hanning. rewrite map_length, combine_length, hann_length, poisson_length. lia.
Qed.
Lemma poisson_hanning_nth N a j : (j < N)%nat ->
  nthF (window_poisson_hanning N a) j = nthF (window_hann N) j * nthF (window_poisson N a) j.
Proof.
  intros Hj. unfold window_poisson_hanning.
  assert (H1 : (j < length (window_hann N))%nat) by (rewrite hann_length; exact Hj).
  assert (H2 : length (window_hann N) = length (window_poisson N a)) by (rewrite hann_length, poisson_length; reflexivity).
  exact (nth_map_mul_combine (window_hann N) (window_poisson N a) j H1 H2).
Qed.
Lemma poisson_hanning_sym N a : symmetric (window_poisson_hanning N a).
Proof.
  intros n Hn. rewrite poisson_hanning_length in *. rewrite !poisson_hanning_nth by lia.
  pose proof (hann_sym N n) as H1. pose proof (poisson_sym N a n) as H2.
  rewrite hann_length in H1. rewrite poisson_length in H2. rewrite H1, H2 by lia. reflexivity.
Qed.
Lemma tukey_sym N r : symmetric (window_tukey N r).
Proof.
  unfold window_tukey. destruct (N =? 1)%nat; [apply symmetric_single|].
  match goal with |- symmetric (if ?c then _ else _) => destruct c end; [apply rectangle_sym|].
  match goal with |- symmetric (if ?c then _ else _) => destruct c end; [apply hann_sym|].
  cbv zeta. apply symmetric_rev. apply palindrome_sandwich. apply rev_ones.
Qed.
Lemma taylor_sym N nbar sll : symmetric (window_taylor N nbar sll).
Proof.
  unfold window_taylor. cbv zeta. apply symmetric_mkz'. intros HN i Hi.
  f_equal. unfold taylor_W. f_equal. f_equal. f_equal. apply map_ext. intros [mm fm]. cbn [fst snd]. f_equal.
  rewrite !ofZ_IZR, two_R, half_R. tsimp. rewrite !minus_IZR.
  assert (0 < IZR (Z.of_nat N)) by (apply IZR_lt; lia).
  set (n := IZR (Z.of_nat N)) in *. set (x := IZR i).
  replace (2 * PI * mm * (n - 1 - x - n / 2 + / 2) / n) with (- (2 * PI * mm * (x - n / 2 + / 2) / n)) by (field; lra).
  apply cos_neg.
Qed.
End Sym.
