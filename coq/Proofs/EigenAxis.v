(* C17, part 2: what each entry of the vectors returned by eigen() / pmusic / pev is — the noise-subspace form
   [dform] at the bin that frequencies() reports for that entry.  Abstract *-field, every P, NFFT (both parities). *)
Require Import Spectrum.Theory.Ops Spectrum.Theory.Sum Spectrum.Theory.Vec Spectrum.Theory.Dft Spectrum.Model.Eigen.

Section Lists.
Context {F : Type} {OF : Ops F}.
Local Open Scope F_scope.
Lemma nthF_map_lt (g : F -> F) (l : list F) j : (j < length l)%nat -> nthF (map g l) j = g (nthF l j).
Proof.
  intros H. unfold nthF. rewrite (nth_indep _ 0 (g 0)) by (rewrite map_length; exact H). apply map_nth.
Qed.
Lemma nthF_skipn (l : list F) n i : nthF (skipn n l) i = nthF l (n + i).
Proof.
  revert l; induction n; intros l; [reflexivity|]. destruct l; [destruct i; reflexivity|]. cbn [skipn Nat.add].
  rewrite nthF_consS. apply IHn.
Qed.
Lemma nthF_rev (l : list F) i : (i < length l)%nat -> nthF (rev l) i = nthF l (length l - 1 - i).
Proof. intros H. unfold nthF. rewrite rev_nth by exact H. f_equal. lia. Qed.
(* newpsd[j] = PSD[nby2 - j] for j <= nby2 and PSD[NFFT + nby2 - j] after *)
Lemma nth_reorder (NFFT : nat) (PSD : list F) j : length PSD = NFFT -> (j < NFFT)%nat ->
  nthF (eigen_reorder NFFT PSD) j
  = if (j <=? NFFT / 2)%nat then nthF PSD (NFFT / 2 - j) else nthF PSD (NFFT + NFFT / 2 - j).
Proof.
  intros Hl Hj. unfold eigen_reorder.
  assert (Hh : (NFFT / 2 + 1 <= NFFT)%nat).
  { pose proof (Nat.div_lt NFFT 2 ltac:(lia) ltac:(lia)). lia. }
  assert (L1 : length (rev (firstn (NFFT / 2 + 1) PSD)) = (NFFT / 2 + 1)%nat).
  { rewrite rev_length, firstn_length. lia. }
  destruct (Nat.leb_spec j (NFFT / 2)) as [Hle|Hgt].
  - rewrite nthF_app_l by lia. rewrite nthF_rev by (rewrite rev_length in L1; lia).
    rewrite rev_length in L1. rewrite L1. rewrite nthF_firstn by lia. f_equal. lia.
  - rewrite nthF_app_r by lia. rewrite L1.
    assert (L2 : length (skipn (NFFT / 2 + 1) PSD) = (NFFT - (NFFT / 2 + 1))%nat) by (rewrite skipn_length; lia).
    rewrite nthF_rev by lia. rewrite L2, nthF_skipn. f_equal. lia.
Qed.
Lemma reorder_length (NFFT : nat) (PSD : list F) : length PSD = NFFT -> length (eigen_reorder NFFT PSD) = NFFT.
Proof.
  intros Hl. unfold eigen_reorder. rewrite app_length, !rev_length, firstn_length, skipn_length. lia.
Qed.
(* numpy.fft.ifftshift: out[i] = in[(i + n//2) mod n] *)
Lemma nth_ifftshift (l : list F) i : (i < length l)%nat ->
  nthF (ifftshift l) i
  = if (i <? length l - length l / 2)%nat then nthF l (length l / 2 + i) else nthF l (i - (length l - length l / 2)).
Proof.
  intros Hi. unfold ifftshift.
  assert (Hh : (length l / 2 <= length l)%nat).
  { destruct (length l) as [|n] eqn:E; [reflexivity|]. pose proof (Nat.div_lt (S n) 2 ltac:(lia) ltac:(lia)). lia. }
  assert (L1 : length (skipn (length l / 2) l) = (length l - length l / 2)%nat) by apply skipn_length.
  destruct (Nat.ltb_spec i (length l - length l / 2)) as [Hlt|Hge].
  - rewrite nthF_app_l by lia. apply nthF_skipn.
  - rewrite nthF_app_r by lia. rewrite L1. apply nthF_firstn. lia.
Qed.
Lemma ifftshift_length (l : list F) : length (ifftshift l) = length l.
Proof.
  unfold ifftshift. rewrite app_length, skipn_length, firstn_length.
  assert (Hh : (length l / 2 <= length l)%nat).
  { destruct (length l) as [|n] eqn:E; [reflexivity|]. pose proof (Nat.div_lt (S n) 2 ltac:(lia) ltac:(lia)). lia. }
  lia.
Qed.
(* both branches of the real-data slice have NFFT/2 + 1 entries *)
Lemma onesided_len NFFT : (if Nat.even NFFT then NFFT / 2 + 1 else (NFFT + 1) / 2)%nat = (NFFT / 2 + 1)%nat.
Proof.
  destruct (Nat.even NFFT) eqn:E; [reflexivity|].
  replace (NFFT + 1)%nat with (NFFT + 1 * 2 - 1)%nat by lia.
  assert (Ho : Nat.odd NFFT = true) by (unfold Nat.odd; rewrite E; reflexivity).
  apply Nat.odd_spec in Ho. destruct Ho as [m ->].
  replace (2 * m + 1 + 1 * 2 - 1)%nat with ((m + 1) * 2)%nat by lia. rewrite Nat.div_mul by lia.
  replace (2 * m + 1)%nat with (1 + m * 2)%nat by lia. rewrite Nat.div_add by lia. cbn. lia.
Qed.
End Lists.

Section Axis.
Context {F : Type} {OF : Ops F} {L : Laws OF}.
Local Open Scope F_scope.
Add Field FFax : (fth (O:=OF)).

Lemma nrm2_opp (a : F) : nrm2 (- a) = nrm2 a.
Proof. unfold nrm2. rewrite conj_opp. ring. Qed.
Lemma nrm2_conj (a : F) : nrm2 (conj a) = nrm2 a.
Proof. unfold nrm2. rewrite conj_conj. ring. Qed.
Lemma div_as_mul (a b : F) : a / b = a * (1 / b).
Proof. rewrite !(Fdiv_def (fth (O:=OF))). ring. Qed.

Section WithTw.
Variables (tw : Z -> F) (NFFT : nat).
Context {T : Twiddle NFFT tw}.
Hypothesis Hpos : (0 < NFFT)%nat.

(* abs(fft(-Vh[I, :], NFFT))**2 at bin k  =  |e(-k)^H v_I|^2 *)
Lemma nth_noise_fft (vrow : list F) k : (k < NFFT)%nat -> (length vrow <= NFFT)%nat ->
  nthF (noise_fft tw NFFT vrow) k
  = nrm2 (dftN tw (length vrow) (fun m => conj (nthF vrow m)) (- Z.of_nat k)%Z).
Proof.
  intros Hk Hl. unfold noise_fft.
  rewrite nthF_map by (unfold nrm2; ring).
  rewrite nth_dft by (rewrite ?map_length; assumption). rewrite map_length.
  transitivity (nrm2 (- dftN tw (length vrow) (nthF vrow) (Z.of_nat k))).
  { f_equal. unfold dftN. rewrite <- sumf_opp. apply sumf_ext; intros m _.
    rewrite nthF_map by ring. ring. }
  rewrite nrm2_opp.
  pose proof (dft_conj NFFT tw Hpos (length vrow) (fun m => conj (nthF vrow m)) (Z.of_nat k)) as E.
  rewrite <- (nrm2_conj (dftN tw (length vrow) (fun m => conj (nthF vrow m)) (- Z.of_nat k)%Z)). rewrite <- E.
  f_equal. unfold dftN. apply sumf_ext; intros m _. rewrite conj_conj. reflexivity.
Qed.

Variables (meth : method_arg) (eps : F) (P : nat) (S : list F) (Vh : list (list F)).
Hypothesis Hrows : forall I, (I < P)%nat -> length (mrow Vh I) = P.

Definition term (I k : nat) : F := nrm2 (dftN tw P (rsv Vh I) (- Z.of_nat k)%Z) * weight meth eps S I.

Lemma acc_step_nth acc I k : (k < NFFT)%nat -> (I < P)%nat -> (P <= NFFT)%nat ->
  nthF (acc_step meth eps tw NFFT S Vh acc I) k = nthF acc k + term I k.
Proof.
  intros Hk HI HP. unfold acc_step. cbv zeta. rewrite nth_mk by exact Hk. f_equal.
  rewrite nth_noise_fft by (rewrite ?Hrows; assumption). rewrite Hrows by exact HI.
  unfold term, weight, rsv, mat. destruct meth; [ring|apply div_as_mul|ring].
Qed.
Lemma fold_acc_nth n : forall a acc k, (k < NFFT)%nat -> (a + n <= P)%nat -> (P <= NFFT)%nat ->
  nthF (fold_left (acc_step meth eps tw NFFT S Vh) (seq a n) acc) k = nthF acc k + sumf n (fun t => term (a + t) k).
Proof.
  induction n; intros a acc k Hk Ha HP; [cbn [seq fold_left sumf]; ring|].
  cbn [seq fold_left]. rewrite IHn by lia. rewrite acc_step_nth by lia.
  rewrite (sumf_shift n (fun t => term (a + t) k)). rewrite Nat.add_0_r.
  rewrite <- (Radd_assoc (F_R (fth (O:=OF)))). f_equal. f_equal. apply sumf_ext; intros t _. f_equal. lia.
Qed.
Lemma fold_acc_length l : forall acc, length acc = NFFT -> length (fold_left (acc_step meth eps tw NFFT S Vh) l acc) = NFFT.
Proof. induction l; intros acc H; [exact H|]. cbn [fold_left]. apply IHl. unfold acc_step. apply mk_length. Qed.

Lemma pseudo_den_length ns : length (pseudo_den meth eps tw NFFT P S Vh ns) = NFFT.
Proof. unfold pseudo_den. apply fold_acc_length. apply mk_length. Qed.
(* PSD[k] before the inversion: the noise-subspace form at bin -k *)
Lemma nth_pseudo_den ns k : (k < NFFT)%nat -> (ns < P -> P <= NFFT)%nat ->
  nthF (pseudo_den meth eps tw NFFT P S Vh ns) k = dform meth eps tw P S Vh ns (- Z.of_nat k)%Z.
Proof.
  intros Hk HP. unfold pseudo_den, dform. destruct (Nat.lt_ge_cases ns P) as [Hlt|Hge].
  - rewrite fold_acc_nth by lia. rewrite nth_mk by exact Hk. unfold term. ring.
  - replace (P - ns)%nat with O by lia. cbn [seq fold_left sumf]. exact (nth_mk NFFT (fun _ => 0) k Hk).
Qed.
Lemma pseudo_length ns : length (pseudo meth eps tw NFFT P S Vh ns) = NFFT.
Proof. unfold pseudo. rewrite map_length. apply pseudo_den_length. Qed.
Lemma nth_pseudo ns k : (k < NFFT)%nat -> (ns < P -> P <= NFFT)%nat ->
  nthF (pseudo meth eps tw NFFT P S Vh ns) k = 1 / dform meth eps tw P S Vh ns (- Z.of_nat k)%Z.
Proof.
  intros Hk HP. unfold pseudo. rewrite nthF_map_lt by (rewrite pseudo_den_length; exact Hk).
  rewrite nth_pseudo_den by assumption. reflexivity.
Qed.

(* the form is NFFT-periodic in the bin, and even in the bin when the singular vectors are real *)
Lemma dform_periodic ns (b c : Z) : dform meth eps tw P S Vh ns (b + c * Z.of_nat NFFT)%Z = dform meth eps tw P S Vh ns b.
Proof. unfold dform. apply sumf_ext; intros t _. rewrite (dft_periodic NFFT tw Hpos). reflexivity. Qed.
Lemma dform_even ns (b : Z) : (forall I m, conj (mat Vh I m) = mat Vh I m) ->
  dform meth eps tw P S Vh ns (- b)%Z = dform meth eps tw P S Vh ns b.
Proof.
  intros Hr. unfold dform. apply sumf_ext; intros t _. f_equal.
  pose proof (dft_conj NFFT tw Hpos P (rsv Vh (ns + t)) b) as E.
  rewrite <- (nrm2_conj (dftN tw P (rsv Vh (ns + t)) (- b)%Z)). rewrite <- E. f_equal.
  unfold dftN. apply sumf_ext; intros m _. unfold rsv. rewrite conj_conj, Hr. reflexivity.
Qed.

(* ---- eigen(): entry j is the pseudo-spectrum at the centred bin j - NFFT//2 ---- *)
Lemma nth_eigen_vector ns j : (j < NFFT)%nat -> (ns < P -> P <= NFFT)%nat ->
  nthF (eigen_reorder NFFT (pseudo meth eps tw NFFT P S Vh ns)) j = 1 / dform meth eps tw P S Vh ns (centerdc_bin NFFT j).
Proof.
  intros Hj HP. rewrite nth_reorder by (try apply pseudo_length; exact Hj).
  assert (Hh : (NFFT / 2 < NFFT)%nat) by (apply Nat.div_lt; lia).
  unfold centerdc_bin. destruct (Nat.leb_spec j (NFFT / 2)) as [Hle|Hgt].
  - rewrite nth_pseudo by (try assumption; lia). do 2 f_equal. lia.
  - rewrite nth_pseudo by (try assumption; lia).
    rewrite <- (dform_periodic ns (Z.of_nat j - Z.of_nat (NFFT / 2)) (-1)). do 2 f_equal. lia.
Qed.
(* ---- complex data: centerdc_2_twosided puts bin j at entry j ---- *)
Lemma nth_class_complex ns j : (j < NFFT)%nat -> (ns < P -> P <= NFFT)%nat ->
  nthF (ifftshift (eigen_reorder NFFT (pseudo meth eps tw NFFT P S Vh ns))) j = 1 / dform meth eps tw P S Vh ns (Z.of_nat j).
Proof.
  intros Hj HP.
  assert (Hl : length (eigen_reorder NFFT (pseudo meth eps tw NFFT P S Vh ns)) = NFFT) by (apply reorder_length, pseudo_length).
  assert (Hh : (NFFT / 2 < NFFT)%nat) by (apply Nat.div_lt; lia).
  rewrite nth_ifftshift by (rewrite Hl; exact Hj). rewrite Hl.
  destruct (Nat.ltb_spec j (NFFT - NFFT / 2)) as [Hlt|Hge].
  - rewrite nth_eigen_vector by (try assumption; lia). unfold centerdc_bin. do 2 f_equal. lia.
  - rewrite nth_eigen_vector by (try assumption; lia). unfold centerdc_bin.
    rewrite <- (dform_periodic ns (Z.of_nat j) (-1)). do 2 f_equal. lia.
Qed.
(* ---- real data: the first NFFT/2+1 centred entries, doubled and flipped: entry j is twice the value at bin -j ---- *)
Lemma nth_class_real ns j : (j <= NFFT / 2)%nat -> (ns < P -> P <= NFFT)%nat ->
  nthF (rev (map (fun a => a * two)
        (firstn (if Nat.even NFFT then NFFT / 2 + 1 else (NFFT + 1) / 2)%nat (eigen_reorder NFFT (pseudo meth eps tw NFFT P S Vh ns))))) j
  = 1 / dform meth eps tw P S Vh ns (- Z.of_nat j)%Z * two.
Proof.
  intros Hj HP. rewrite onesided_len.
  assert (Hl : length (eigen_reorder NFFT (pseudo meth eps tw NFFT P S Vh ns)) = NFFT) by (apply reorder_length, pseudo_length).
  assert (Hh : (NFFT / 2 < NFFT)%nat) by (apply Nat.div_lt; lia).
  assert (Lf : length (map (fun a => a * two) (firstn (NFFT / 2 + 1) (eigen_reorder NFFT (pseudo meth eps tw NFFT P S Vh ns)))) = (NFFT / 2 + 1)%nat).
  { rewrite map_length, firstn_length, Hl. lia. }
  rewrite nthF_rev by lia. rewrite Lf.
  rewrite nthF_map_lt by (rewrite map_length in Lf; lia).
  rewrite nthF_firstn by lia. rewrite nth_eigen_vector by (try assumption; lia).
  unfold centerdc_bin. do 3 f_equal. lia.
Qed.
End WithTw.
End Axis.
