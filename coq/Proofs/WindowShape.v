(* length = N and symmetry for the whole family of generators (collects WindowSym / WindowPiecewise). *)
From Coq Require Import Reals Lra Lia.
Require Import Spectrum.Theory.Ops Spectrum.Theory.Vec Spectrum.Model.Window Spectrum.Instances.RWin
               Spectrum.Proofs.WindowBridge Spectrum.Proofs.WindowReal Spectrum.Proofs.WindowGen
               Spectrum.Proofs.WindowSym Spectrum.Proofs.WindowPiecewise.
Local Open Scope R_scope.
Notation length := List.length.

Section Shape.
Variables (I0 : R -> R) (cheb : nat -> R -> list R).
#[local] Hint Extern 0 (TOps R) => exact (rT I0 cheb) : typeclass_instances.
Ltac tsimp := cbn [tcos tsin texp tln tsqrt tabs tpi tI0 tltb tleb teqb tcheb r_tops rT] in *; rsimp.

Lemma parzen_length N : length (window_parzen N) = N.
Proof. rewrite parzen_pointwise. apply mkz_length. Qed.
Lemma parzen_sym N : symmetric (window_parzen N).
Proof.
  rewrite parzen_pointwise. apply symmetric_mkz'. intros HN i Hi. unfold parzen_pw. cbv zeta.
  unfold pz_t. rewrite linspace_refl by assumption.
  generalize (linspace (- (ofZ (Z.of_nat N - 1) / two)) (ofZ (Z.of_nat N - 1) / two) (Z.of_nat N) i). intros y.
  rewrite Rabs_Ropp. unfold parzen_in, parzen_out. tsimp. rewrite Rabs_Ropp. reflexivity.
Qed.

(* the oracle for scipy's chebwin: what the theorems assume of it *)
Definition cheb_length_ok : Prop := forall N a, length (cheb N a) = N.
Definition cheb_sym_ok : Prop := forall N a, symmetric (cheb N a).

Theorem gen_length_thm (g : wgen) (N : nat) : cheb_length_ok -> gen_guard g -> length (gen_window I0 cheb g N) = N.
Proof.
  intros Hc Hg. destruct g; cbn [gen_window].
  - apply mkz_length. - apply unless1_length. - apply unless1_length. - apply unless1_length. - apply unless1_length.
  - apply unless1_length. - apply mkz_length. - apply Hc. - apply unless1_length. - apply unless1_length.
  - apply unless1_length. - apply unless1_length. - apply unless1_length. - apply unless1_length. - apply mkz_length.
  - apply tukey_length. exact Hg. - apply parzen_length.
  - unfold window_flattop. destruct periodic; [apply mkz_length|apply unless1_length].
  - apply mkz_length. - apply mkz_length. - apply mkz_length. - apply mkz_length. - apply poisson_hanning_length.
  - apply mkz_length.
Qed.

Theorem gen_symmetric_thm (g : wgen) (N : nat) : cheb_sym_ok -> g <> GFlattop true ->
  symmetric (gen_window I0 cheb g N).
Proof.
  intros Hc Hg. destruct g; cbn [gen_window].
  - apply rectangle_sym. - apply bartlett_sym. - apply hamming_sym. - apply hann_sym. - apply kaiser_sym.
  - apply blackman_sym. - apply gaussian_sym. - apply Hc. - apply cosine_sym. - apply lanczos_sym.
  - apply bartlett_hann_sym. - apply coeff4_sym. - apply coeff4_sym. - apply coeff4_sym. - apply bohman_sym.
  - apply tukey_sym. - apply parzen_sym.
  - destruct periodic; [exfalso; apply Hg; reflexivity|apply flattop_sym].
  - apply taylor_sym. - apply riesz_sym. - apply riemann_sym. - apply poisson_sym. - apply poisson_hanning_sym.
  - apply cauchy_sym.
Qed.

(* in the form of the property statement: w[n] = w[N-1-n] *)
Theorem gen_symmetric_nth_thm (g : wgen) (N n : nat) : cheb_length_ok -> cheb_sym_ok -> gen_guard g ->
  g <> GFlattop true -> (n < N)%nat ->
  nthF (gen_window I0 cheb g N) n = nthF (gen_window I0 cheb g N) (N - 1 - n).
Proof.
  intros Hl Hs Hg Hp Hn. pose proof (gen_symmetric_thm g N Hs Hp n) as H.
  rewrite (gen_length_thm g N Hl Hg) in H. apply H. exact Hn.
Qed.
End Shape.
