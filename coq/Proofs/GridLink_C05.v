(* C05 — the per-estimator grid theorems restated as the hypothesis [grid_rel] of the class-level theorem
   (Proofs/GridClass_C05.v stored_grid and the generated class_grid): what each functional estimator returns on the
   coarse and on the fine grid agrees at common frequencies in the layout that estimator uses. *)
Require Import Spectrum.Theory.Ops Spectrum.Theory.Sum Spectrum.Theory.Vec Spectrum.Theory.Dft
               Spectrum.Model.Corr Spectrum.Model.Periodogram Spectrum.Model.Arma2psd Spectrum.Model.Minvar Spectrum.Model.Mtm
               Spectrum.Model.Eigen Spectrum.Model.PipelineLib
               Spectrum.Proofs.GridTheory Spectrum.Proofs.Arma2psdTheory Spectrum.Proofs.MtmTheory
               Spectrum.Proofs.GridFourier_C05 Spectrum.Proofs.GridParam_C05 Spectrum.Proofs.GridMtm_C05
               Spectrum.Proofs.GridEigen_C05 Spectrum.Proofs.GridClass_C05.

Section GridLink.
Context {F : Type} {OF : Ops F} {L : Laws OF}.
Local Open Scope F_scope.
Variables (n c : nat) (tw' : Z -> F).
Hypothesis Hc : (0 < c)%nat.

Lemma periodogram_grid_rel twopi (x w : list F) isreal dt sbf fs :
  (1 <= n)%nat -> (length x <= n)%nat -> py_is_true sbf = false ->
  grid_rel (lay_of FSperiodogram isreal) n c
    (speriodogram (coarsen c tw') twopi x w (Some n) isreal dt sbf fs)
    (speriodogram tw' twopi x w (Some (c * n)%nat) isreal dt sbf fs).
Proof.
  intros Hn HN Hsbf.
  destruct (periodogram_grid_lengths n c (coarsen c tw') tw' twopi x w isreal dt sbf fs Hc Hn) as [L1 L2].
  destruct isreal; cbn [lay_of grid_rel]; (split; [exact L1|]); (split; [exact L2|]); intros k Hk;
    apply periodogram_grid_thm; try assumption; cbn [nbins]; lia.
Qed.

Context {T' : Twiddle (c * n) tw'}.

Lemma correlogram_grid_rel rp (x : list F) y lag wfull nm be lc lf : (2 * lag + 1 <= n)%nat ->
  correlogram (coarsen c tw') rp x y lag wfull (Some n) nm be = Some lc ->
  correlogram tw' rp x y lag wfull (Some (c * n)%nat) nm be = Some lf ->
  grid_rel (lay_of FCorrelogrampsd true) n c lc lf /\ grid_rel (lay_of FCorrelogrampsd false) n c lc lf.
Proof.
  intros Hn EC EF. pose proof (correlogram_grid_thm n c tw' rp x y lag wfull nm be Hc Hn) as H.
  rewrite EC, EF in H. split; exact H.
Qed.

Lemma arma2psd_grid_rel (A B : option (list F)) (rho T : F) real : admissible A B n ->
  exists pc pf, arma2psd (coarsen c tw') A B rho T n SidesDefault false = Some pc
             /\ arma2psd tw' A B rho T (c * n) SidesDefault false = Some pf
             /\ grid_rel (lay_of FArma2psd real) n c pc pf.
Proof.
  intros Hadm. destruct (arma2psd_grid_thm n c tw' A B rho T Hc Hadm) as (pc & pf & E1 & E2 & H).
  exists pc, pf. split; [exact E1|]. split; [exact E2|exact H].
Qed.

Lemma minvar_grid_rel (x : list F) m s real pc Ac kc pf Af kf : (2 * m - 1 <= n)%nat ->
  minvar (coarsen c tw') x m s n = Some (pc, Ac, kc) -> minvar tw' x m s (c * n) = Some (pf, Af, kf) ->
  grid_rel (lay_of FMinvar real) n c pc pf.
Proof.
  intros Hn EC EF. pose proof (minvar_grid_thm n c tw' x m s Hc Hn) as H. rewrite EC, EF in H.
  destruct H as (_ & _ & H). exact H.
Qed.

(* the array MultiTapering stores is the weighted mean over the tapers (class_is_weighted_mean_thm) *)
Lemma mtm_grid_rel {NWT : Type} (dpss : nat -> NWT -> option nat -> list (list F) * list F) fuel (x : list F) NW k e v m real
  SC wC evC SF wF evF : (length x <= n)%nat -> m <> Adapt ->
  pmtm dpss fuel (coarsen c tw') x NW k (Some n) e v m = Some (SC, wC, evC) ->
  pmtm dpss fuel tw' x NW k (Some (c * n)%nat) e v m = Some (SF, wF, evF) ->
  grid_rel (lay_of FPmtm real) n c (mt_mean m SC wC (length evC) n) (mt_mean m SF wF (length evF) (c * n)).
Proof.
  intros HN Hm EC EF. pose proof (pmtm_grid_thm dpss fuel n c tw' x NW k e v m Hc HN) as H. rewrite EC, EF in H.
  destruct H as (-> & Hw & _ & HS & _). rewrite <- (Hw Hm).
  cbn [lay_of grid_rel]. split; [apply mt_mean_length|]. split; [apply mt_mean_length|].
  intros b Hb. apply mt_mean_grid; try assumption. intros j Hj. destruct m; try congruence; reflexivity.
Qed.

Lemma eigen_grid_rel meth eps nsig thr crit amin (x : list F) P S Vh real pc evc pf evf :
  (0 < n)%nat -> (forall I, (I < P)%nat -> length (mrow Vh I) = P) -> (P <= n)%nat ->
  eigen meth eps nsig thr crit amin (coarsen c tw') n x P S Vh = inr (pc, evc) ->
  eigen meth eps nsig thr crit amin tw' (c * n) x P S Vh = inr (pf, evf) ->
  grid_rel (lay_of FEigen real) n c pc pf.
Proof.
  intros Hn Hrows HP EC EF.
  pose proof (eigen_grid_thm n c tw' Hc Hn meth eps nsig thr crit amin x P S Vh Hrows HP) as H. rewrite EC, EF in H.
  destruct H as (_ & _ & L1 & L2 & H). cbn [lay_of grid_rel]. split; [exact L1|]. split; [exact L2|].
  intros j Hj. apply H. exact Hj.
Qed.
End GridLink.
