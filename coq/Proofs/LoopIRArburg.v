(* arburg: the IR program generated from burg.py computes the hand-written model, for ALL inputs.

   [prog_arburg_ref] is the loop-IR program that tools/props/_loopir.py generates from the source of
   spectrum.burg.arburg at the commit this file was written for (kept verbatim below, between the BEGIN/END
   markers, as [prog_arburg_gen0]; the two are equal by reflexivity).  The check regenerates the program on every
   run and instantiates the theorems below only when the text is identical.

   PROVED (abstract field with conjugation [Laws]; any data x with any dtype tag, ANY integer order, the criteria argument
   omitted / None / any string, any [feq], any abstract order-selection rule [stop] of the interpreter):
     arburg_ir_run_arg   run feq stop prog_arburg_ref [X; order; criteria] =
                            match Model.Burg.arburg x (Z.to_nat order) (crit_rule crit) with
                            | Some (a, rho, ref) => ORet [complex array a; rho; complex array ref]
                            | None               => OErr ValueError
                            end
                         where crit_rule = no_stop when the criteria argument is falsy (omitted, None, the empty string: the
                         code tests [if criteria:]) and crit_rule k = stop (Z.of_nat k) when it is a non-empty string (the
                         Criteria object of the code is the abstract rule [stop] of the interpreter; its first call, whose result the
                         code discards, only records rho).  This covers: order <= 0 and order > len(X) (ValueError, the two argument
                         checks; the model takes Z.to_nat order, 0 for a negative order), the "rho <= 0 -> ValueError" branch at any
                         stage, the early stop (break: the a, rho, ref of the previous stage are returned although den, temp, the
                         criterion object have already been overwritten), and the full recursion: the comprehension sum, the
                         recursive denominator, the in-place symmetric update of a, the descending in-place update of ef / eb,
                         the arrays a / ref growing by resize.
     arburg_ir_run       the same with the third argument as the tie passes it (omitted or a string)
     arburg_ir_nocrit    criteria omitted or None: run = the outcome of arburg x order no_stop
     arburg_ir_crit      criteria a non-empty string: run = the outcome of arburg x order (fun k => stop (Z.of_nat k))
     arburg_ir_tie       for a reflexive [feq]: tie_arburg feq stop prog_arburg_ref isreal x order crit = true for every x, every
                         integer order and every crit other than [Some ""] (for the empty string the code runs without a
                         criterion whereas tie_arburg hands [stop] to the model; the tie's generator never produces it).
   NOT PROVED: nothing within the IR semantics for the arguments the tie passes (array, Python int, None / string).
   Arguments of other Python types (order a float, criteria a bool ...) are not quantified over.
   x / 0 is the field's total division on both sides (IR semantics and model), as everywhere in the loop-IR tie. *)
From Coq Require Import String ZArith List Lia Bool.
Require Import Spectrum.Theory.Ops Spectrum.Theory.Sum Spectrum.Theory.Vec Spectrum.Model.LoopIR Spectrum.Model.Levinson
               Spectrum.Model.Burg Spectrum.Model.LoopIRTie Spectrum.Proofs.LoopIRLevinson.
Import ListNotations.

(* slots 0=X 1=order 2=criteria 3=x 4=N 5=rho 6=den 7=crit 8=a 9=ref 10=ef 11=eb 12=temp 13=k 14=j@comp14 15=num 16=kp
   17=new_rho 18=status 19=j 20=save2 21=khalf 22=ap *)
Definition bg_num : stmt :=
  SAssign 15 (ESum (EComp 14 (EBin BAdd (EVar 13) (EInt 1)) (EVar 4)
                      (EBin BMul (EIndex (EVar 10) (EVar 14)) (EConj (EIndex (EVar 11) (EBin BSub (EVar 14) (EInt 1))))))).
Definition bg_den : stmt :=
  SAssign 6 (EBin BSub (EBin BSub (EBin BMul (EVar 12) (EVar 6)) (ENrm2 (EIndex (EVar 10) (EVar 13))))
                       (ENrm2 (EIndex (EVar 11) (EBin BSub (EVar 4) (EInt 1))))).
Definition bg_kp : stmt := SAssign 16 (EBin BDiv (EBin BMul (ENeg (ELit 2 0)) (EVar 15)) (EVar 6)).
Definition bg_temp : stmt := SAssign 12 (EBin BSub (ELit 1 0) (ENrm2 (EVar 16))).
Definition bg_newrho : stmt := SAssign 17 (EBin BMul (EVar 12) (EVar 5)).
Definition bg_crit : stmt :=
  SIf (EVar 2)
    (SSeq (SCritCall (Some 18%nat) 7 (EBin BMul (EVar 12) (EVar 5)) (EBin BAdd (EVar 13) (EInt 1)))
          (SIf (EIsBool false (EVar 18)) SBreak SSkip))
    SSkip.
Definition bg_err : stmt :=
  SFor 19 (EBin BSub (EVar 4) (EInt 1)) (EVar 13) (ENeg (EInt 1))
    (SSeq (SAssign 20 (EIndex (EVar 10) (EVar 19)))
    (SSeq (SStore 10 (EVar 19) (EBin BAdd (EVar 20) (EBin BMul (EVar 16) (EIndex (EVar 11) (EBin BSub (EVar 19) (EInt 1))))))
          (SStore 11 (EVar 19) (EBin BAdd (EIndex (EVar 11) (EBin BSub (EVar 19) (EInt 1))) (EBin BMul (EConj (EVar 16)) (EVar 20)))))).
Definition bg_sym : stmt :=
  SFor 19 (EInt 0) (EVar 21) (EInt 1)
    (SSeq (SAssign 22 (EIndex (EVar 8) (EVar 19)))
    (SSeq (SStore 8 (EVar 19) (EBin BAdd (EVar 22) (EBin BMul (EVar 16) (EConj (EIndex (EVar 8) (EBin BSub (EBin BSub (EVar 13) (EVar 19)) (EInt 1)))))))
          (SIf (ECmp CNe (EVar 19) (EBin BSub (EBin BSub (EVar 13) (EVar 19)) (EInt 1)))
             (SStore 8 (EBin BSub (EBin BSub (EVar 13) (EVar 19)) (EInt 1))
                       (EBin BAdd (EIndex (EVar 8) (EBin BSub (EBin BSub (EVar 13) (EVar 19)) (EInt 1))) (EBin BMul (EVar 16) (EConj (EVar 22)))))
             SSkip))).
Definition bg_upd : stmt :=
  SIf (ECmp CEq (EVar 13) (EInt 0))
    bg_err
    (SSeq (SAssign 21 (EBin BFloorDiv (EBin BAdd (EVar 13) (EInt 1)) (EInt 2)))
    (SSeq bg_sym bg_err)).
Definition bg_body : stmt :=
  SSeq bg_num
  (SSeq bg_den
  (SSeq bg_kp
  (SSeq bg_temp
  (SSeq bg_newrho
  (SSeq bg_crit
  (SSeq (SAssign 5 (EVar 17))
  (SSeq (SIf (ELe0 (EVar 5)) (SRaise ValueError) SSkip)
  (SSeq (SResize 8 (EBin BAdd (ELen (EVar 8)) (EInt 1)))
  (SSeq (SStore 8 (EVar 13) (EVar 16))
  (SSeq bg_upd
  (SSeq (SResize 9 (EBin BAdd (ELen (EVar 9)) (EInt 1)))
        (SStore 9 (EVar 13) (EVar 16))))))))))))).

Local Open Scope string_scope.
Definition bg_loop : stmt := SFor 13 (EInt 0) (EVar 1) (EInt 1) bg_body.
Definition bg_crit0 : stmt :=
  SIf (EVar 2) (SSeq (SAssign 7 ENewCrit) (SCritCall None 7 (EVar 5) (EInt 0))) SSkip.
Definition bg_main : stmt :=
  SSeq (SIf (ELe0 (EVar 1)) (SRaise ValueError) SSkip)
  (SSeq (SIf (ECmp CGt (EVar 1) (ELen (EVar 0))) (SRaise ValueError) SSkip)
  (SSeq (SAssign 3 (ECopy (EVar 0)))
  (SSeq (SAssign 4 (ELen (EVar 3)))
  (SSeq (SAssign 5 (EBin BDiv (ESum (ENrm2 (EVar 3))) (EFloat (EVar 4))))
  (SSeq (SAssign 6 (EBin BMul (EBin BMul (EVar 5) (ELit 2 0)) (EVar 4)))
  (SSeq bg_crit0
  (SSeq (SAssign 8 (EZeros (EInt 0) false))
  (SSeq (SAssign 9 (EZeros (EInt 0) false))
  (SSeq (SAssign 10 (EAsComplex (EVar 3)))
  (SSeq (SAssign 11 (EAsComplex (EVar 3)))
  (SSeq (SAssign 12 (ELit 1 0))
  (SSeq bg_loop
        (SReturn [(EVar 8); (EVar 5); (EVar 9)]))))))))))))).
Definition prog_arburg_ref : program := mkProgram "arburg" 3 [None; None; (Some ENone)] 23 bg_main.
Local Close Scope string_scope.

(* BEGIN GENERATED arburg *)
(* arburg: slots 0=X 1=order 2=criteria 3=x 4=N 5=rho 6=den 7=crit 8=a 9=ref 10=ef 11=eb 12=temp 13=k 14=j@comp14 15=num 16=kp 17=new_rho 18=status 19=j 20=save2 21=khalf 22=ap *)
Definition prog_arburg_gen0 : program := mkProgram "arburg" 3 [None; None; (Some ENone)] 23
(SSeq (SIf (ELe0 (EVar 1))
(SRaise ValueError)
(SSkip))
(SSeq (SIf (ECmp CGt (EVar 1) (ELen (EVar 0)))
(SRaise ValueError)
(SSkip))
(SSeq (SAssign 3 (ECopy (EVar 0)))
(SSeq (SAssign 4 (ELen (EVar 3)))
(SSeq (SAssign 5 (EBin BDiv (ESum (ENrm2 (EVar 3))) (EFloat (EVar 4))))
(SSeq (SAssign 6 (EBin BMul (EBin BMul (EVar 5) (ELit 2 0)) (EVar 4)))
(SSeq (SIf (EVar 2)
(SSeq (SAssign 7 ENewCrit)
(SCritCall None 7 (EVar 5) (EInt 0)))
(SSkip))
(SSeq (SAssign 8 (EZeros (EInt 0) false))
(SSeq (SAssign 9 (EZeros (EInt 0) false))
(SSeq (SAssign 10 (EAsComplex (EVar 3)))
(SSeq (SAssign 11 (EAsComplex (EVar 3)))
(SSeq (SAssign 12 (ELit 1 0))
(SSeq (SFor 13 (EInt 0) (EVar 1) (EInt 1)
(SSeq (SAssign 15 (ESum (EComp 14 (EBin BAdd (EVar 13) (EInt 1)) (EVar 4) (EBin BMul (EIndex (EVar 10) (EVar 14)) (EConj (EIndex (EVar 11) (EBin BSub (EVar 14) (EInt 1))))))))
(SSeq (SAssign 6 (EBin BSub (EBin BSub (EBin BMul (EVar 12) (EVar 6)) (ENrm2 (EIndex (EVar 10) (EVar 13)))) (ENrm2 (EIndex (EVar 11) (EBin BSub (EVar 4) (EInt 1))))))
(SSeq (SAssign 16 (EBin BDiv (EBin BMul (ENeg (ELit 2 0)) (EVar 15)) (EVar 6)))
(SSeq (SAssign 12 (EBin BSub (ELit 1 0) (ENrm2 (EVar 16))))
(SSeq (SAssign 17 (EBin BMul (EVar 12) (EVar 5)))
(SSeq (SIf (EVar 2)
(SSeq (SCritCall (Some 18%nat) 7 (EBin BMul (EVar 12) (EVar 5)) (EBin BAdd (EVar 13) (EInt 1)))
(SIf (EIsBool false (EVar 18))
(SBreak)
(SSkip)))
(SSkip))
(SSeq (SAssign 5 (EVar 17))
(SSeq (SIf (ELe0 (EVar 5))
(SRaise ValueError)
(SSkip))
(SSeq (SResize 8 (EBin BAdd (ELen (EVar 8)) (EInt 1)))
(SSeq (SStore 8 (EVar 13) (EVar 16))
(SSeq (SIf (ECmp CEq (EVar 13) (EInt 0))
(SFor 19 (EBin BSub (EVar 4) (EInt 1)) (EVar 13) (ENeg (EInt 1))
(SSeq (SAssign 20 (EIndex (EVar 10) (EVar 19)))
(SSeq (SStore 10 (EVar 19) (EBin BAdd (EVar 20) (EBin BMul (EVar 16) (EIndex (EVar 11) (EBin BSub (EVar 19) (EInt 1))))))
(SStore 11 (EVar 19) (EBin BAdd (EIndex (EVar 11) (EBin BSub (EVar 19) (EInt 1))) (EBin BMul (EConj (EVar 16)) (EVar 20)))))))
(SSeq (SAssign 21 (EBin BFloorDiv (EBin BAdd (EVar 13) (EInt 1)) (EInt 2)))
(SSeq (SFor 19 (EInt 0) (EVar 21) (EInt 1)
(SSeq (SAssign 22 (EIndex (EVar 8) (EVar 19)))
(SSeq (SStore 8 (EVar 19) (EBin BAdd (EVar 22) (EBin BMul (EVar 16) (EConj (EIndex (EVar 8) (EBin BSub (EBin BSub (EVar 13) (EVar 19)) (EInt 1)))))))
(SIf (ECmp CNe (EVar 19) (EBin BSub (EBin BSub (EVar 13) (EVar 19)) (EInt 1)))
(SStore 8 (EBin BSub (EBin BSub (EVar 13) (EVar 19)) (EInt 1)) (EBin BAdd (EIndex (EVar 8) (EBin BSub (EBin BSub (EVar 13) (EVar 19)) (EInt 1))) (EBin BMul (EVar 16) (EConj (EVar 22)))))
(SSkip)))))
(SFor 19 (EBin BSub (EVar 4) (EInt 1)) (EVar 13) (ENeg (EInt 1))
(SSeq (SAssign 20 (EIndex (EVar 10) (EVar 19)))
(SSeq (SStore 10 (EVar 19) (EBin BAdd (EVar 20) (EBin BMul (EVar 16) (EIndex (EVar 11) (EBin BSub (EVar 19) (EInt 1))))))
(SStore 11 (EVar 19) (EBin BAdd (EIndex (EVar 11) (EBin BSub (EVar 19) (EInt 1))) (EBin BMul (EConj (EVar 16)) (EVar 20))))))))))
(SSeq (SResize 9 (EBin BAdd (ELen (EVar 9)) (EInt 1)))
(SStore 9 (EVar 13) (EVar 16)))))))))))))))
(SReturn [(EVar 8); (EVar 5); (EVar 9)])))))))))))))).

(* END GENERATED arburg *)
Example prog_arburg_ref_is_generated : prog_arburg_ref = prog_arburg_gen0.
Proof. reflexivity. Qed.

(* ---------------------------------------------------------------- generic lemmas *)
Section BgGeneric.
Context {F : Type} {OF : Ops F} {L : Laws OF}.
Variable feq : F -> F -> bool.
Variable stop : Z -> F -> F -> bool.
Local Open Scope F_scope.
Add Field FFbg0 : (fth (O:=OF)).
Notation value := (@value F).
Notation store := (@store F).
Notation eval := (@eval F OF feq).

(* invariant rule over an arbitrary list of loop values (used for the descending range) *)
Lemma for_loop_inv_list (f : store -> store * ctl) x vs : forall (I : nat -> store -> Prop) st,
  I O st ->
  (forall i s, (i < length vs)%nat -> I i s -> exists s', f (set s x (VI (nth i vs 0%Z))) = (s', CNormal) /\ I (S i) s') ->
  exists s', for_loop f x vs st = (s', CNormal) /\ I (length vs) s'.
Proof.
  induction vs as [|v t IH]; intros I st H0 Hs.
  - exists st. split; [reflexivity|exact H0].
  - destruct (Hs O st ltac:(cbn [length]; lia) H0) as [s1 [E1 I1]]. cbn [nth] in E1.
    destruct (IH (fun i s => I (S i) s) s1 I1) as [s2 [E2 I2]].
    { intros i s Hi Hi'. apply (Hs (S i) s); [cbn [length]; lia|exact Hi']. }
    exists s2. split; [|exact I2]. cbn [for_loop]. rewrite E1. exact E2.
Qed.

Lemma range_from_length lo step n : length (range_from lo step n) = n.
Proof. revert lo; induction n; intros lo; cbn [range_from length]; [reflexivity|]. rewrite IHn. reflexivity. Qed.
Lemma nth_range_from lo step n i : (i < n)%nat -> nth i (range_from lo step n) 0%Z = (lo + Z.of_nat i * step)%Z.
Proof.
  revert lo i; induction n; intros lo i H; [lia|]. destruct i; cbn [range_from nth]; [lia|].
  rewrite IHn by lia. lia.
Qed.
Lemma range_vals_down (N k : nat) : (k < N)%nat ->
  range_vals (Z.of_nat N - 1) (Z.of_nat k) (-1) = inl (range_from (Z.of_nat N - 1) (-1) (N - 1 - k)).
Proof.
  intros H. unfold range_vals. change (-1 =? 0)%Z with false. cbv iota. unfold range_len.
  change (0 <? -1)%Z with false. cbv iota. change (- -1)%Z with 1%Z. rewrite Z.div_1_r.
  replace (Z.to_nat (Z.of_nat N - 1 - Z.of_nat k - -1 - 1)) with (N - 1 - k)%nat by lia. reflexivity.
Qed.

Lemma sum_left_sumL (l : list F) : sum_left l = sumL l.
Proof.
  unfold sum_left. assert (G : forall a, fold_left add l a = a + sumL l).
  { induction l as [|b l IH]; intros a; cbn [fold_left sumL]; [ring|]. rewrite IH. ring. }
  rewrite G. ring.
Qed.
Lemma bg_ofZ_of_nat n : @ofZ F OF (Z.of_nat n) = ofnat n.
Proof. destruct n; [reflexivity|]. cbn [Z.of_nat ofZ]. rewrite SuccNat2Pos.id_succ. reflexivity. Qed.
Lemma lit_2 : @lit F OF 2 0 = two.
Proof. unfold lit, ofZ, two. change (Pos.to_nat 2) with 2%nat. cbn [ofnat]. ring. Qed.

Lemma resize_S (l : list F) : resize l (S (length l)) = l ++ [0].
Proof.
  apply list_eq_nth.
  - unfold resize. rewrite mk_length, app_length. cbn [length]. lia.
  - intros q Hq. unfold resize in *. rewrite mk_length in Hq. rewrite nth_mk by exact Hq.
    destruct (Nat.lt_ge_cases q (length l)) as [H|H].
    + rewrite nthF_app_l by exact H. reflexivity.
    + replace q with (length l) by lia. rewrite nthF_app_last. apply nthF_overflow. lia.
Qed.
Lemma updF_app_last (l : list F) v w : updF (l ++ [w]) (length l) v = l ++ [v].
Proof. rewrite updF_app by lia. rewrite Nat.sub_diag. reflexivity. Qed.

(* [body for j in range(lo, hi)] with a body that evaluates to a scalar g(i) at j = lo + i *)
Lemma eval_comp (st : store) j elo ehi body lo hi (g : nat -> F) :
  eval st elo = inl (VI lo) -> eval st ehi = inl (VI hi) -> (lo <= hi)%Z ->
  (forall i, (i < Z.to_nat (hi - lo))%nat -> eval (set st j (VI (lo + Z.of_nat i))) body = inl (VF (g i))) ->
  eval st (EComp j elo ehi body) = inl (VArr false (mk (Z.to_nat (hi - lo)) g)).
Proof.
  intros Hlo Hhi Hle Hb. cbn [LoopIR.eval]. rewrite Hlo, Hhi. cbn [bind asZ ok].
  rewrite range_len_up by exact Hle.
  match goal with |- bind (?G _) _ = _ =>
    assert (E : forall n lo' (g' : nat -> F),
               (forall i, (i < n)%nat -> eval (set st j (VI (lo' + Z.of_nat i))) body = inl (VF (g' i))) ->
               G (range_from lo' 1 n) = inl (mk n g'))
  end.
  { induction n as [|n IH]; intros lo' g' Hg; [reflexivity|].
    cbn [range_from]. pose proof (Hg O ltac:(lia)) as H0. rewrite Z.add_0_r in H0. rewrite H0. cbn [bind asF ok].
    rewrite (IH (lo' + 1)%Z (fun i => g' (S i))).
    - cbn [bind ok]. rewrite mk_S. reflexivity.
    - intros i Hi. replace (lo' + 1 + Z.of_nat i)%Z with (lo' + Z.of_nat (S i))%Z by lia. apply Hg. lia. }
  rewrite (E _ lo g Hb). reflexivity.
Qed.
End BgGeneric.

(* ---------------------------------------------------------------- the inner loops *)
Section BgLoops.
Context {F : Type} {OF : Ops F} {L : Laws OF}.
Variable feq : F -> F -> bool.
Variable stop : Z -> F -> F -> bool.
Local Open Scope F_scope.
Add Field FFbg1 : (fth (O:=OF)).
Notation value := (@value F).
Notation store := (@store F).
Notation exec := (@exec F OF feq stop).
Notation eval := (@eval F OF feq).

Definition bst (vX vo vc vx vN vrho vden vcrit : value) (a ref ef eb : list F)
               (vtemp vk v14 vnum vkp vnr vstat vj vsave vkh vap : value) : store :=
  [vX; vo; vc; vx; vN; vrho; vden; vcrit; VArr false a; VArr false ref; VArr false ef; VArr false eb;
   vtemp; vk; v14; vnum; vkp; vnr; vstat; vj; vsave; vkh; vap].

Ltac ev := cbn [LoopIR.exec LoopIR.eval get set nth bst bind try asZ asArr asF ok err fst snd arith arithZ fop compare cmpF cmpZ eqne truthy eval_list].

(* the model's new error arrays *)
Definition ef_new (N k : nat) (kp : F) (ef eb : list F) : list F :=
  mk N (fun j => if (k <? j)%nat then nthF ef j + kp * nthF eb (j - 1) else nthF ef j).
Definition eb_new (N k : nat) (kp : F) (ef eb : list F) : list F :=
  mk N (fun j => if (k <? j)%nat then nthF eb (j - 1) + conj kp * nthF ef j else nthF eb j).

(* for j in range(N-1, k, -1): save2 = ef[j]; ef[j] = save2 + kp*eb[j-1]; eb[j] = eb[j-1] + conj(kp)*save2 *)
Lemma bg_err_ok vX vo vc vx N vrho vden vcrit a ref ef eb vtemp k v14 vnum kp vnr vstat vj vsave vkh vap :
  (k < N)%nat -> length ef = N -> length eb = N ->
  exists vj' vsave',
    exec bg_err (bst vX vo vc vx (VI (Z.of_nat N)) vrho vden vcrit a ref ef eb vtemp (VI (Z.of_nat k)) v14 vnum (VF kp) vnr vstat vj vsave vkh vap)
    = (bst vX vo vc vx (VI (Z.of_nat N)) vrho vden vcrit a ref (ef_new N k kp ef eb) (eb_new N k kp ef eb) vtemp (VI (Z.of_nat k)) v14 vnum (VF kp) vnr vstat vj' vsave' vkh vap, CNormal).
Proof.
  intros Hk Hef Heb. unfold bg_err.
  cbn [LoopIR.exec LoopIR.eval get nth bst bind try asZ ok arith arithZ].
  change (- (1))%Z with (-1)%Z.
  rewrite range_vals_down by exact Hk. cbn [try].
  set (n := (N - 1 - k)%nat).
  match goal with |- exists vj' vsave', (let (st', c) := for_loop ?f ?x ?vs ?st in _) = _ =>
    destruct (for_loop_inv_list f x vs
      (fun i s => exists ef' eb' vj' vsave',
           s = bst vX vo vc vx (VI (Z.of_nat N)) vrho vden vcrit a ref ef' eb' vtemp (VI (Z.of_nat k)) v14 vnum (VF kp) vnr vstat vj' vsave' vkh vap
           /\ length ef' = N /\ length eb' = N
           /\ (forall q, nthF ef' q = if (N - i <=? q)%nat && (q <? N)%nat then nthF ef q + kp * nthF eb (q - 1) else nthF ef q)
           /\ (forall q, nthF eb' q = if (N - i <=? q)%nat && (q <? N)%nat then nthF eb (q - 1) + conj kp * nthF ef q else nthF eb q)) st)
      as [s' [E [ef' [eb' [vj' [vsave' [I1 [I2 [I3 [I4 I5]]]]]]]]]]
  end.
  - exists ef, eb, vj, vsave. split; [reflexivity|]. split; [exact Hef|]. split; [exact Heb|].
    split; intros q; rewrite Nat.sub_0_r;
      destruct (Nat.leb_spec N q); destruct (Nat.ltb_spec q N); cbn [andb]; try reflexivity; lia.
  - rewrite range_from_length. intros i s Hi [ef' [eb' [vj' [vsave' [-> [Hlf [Hlb [Hnf Hnb]]]]]]]].
    rewrite nth_range_from by exact Hi. unfold n in Hi.
    replace (Z.of_nat N - 1 + Z.of_nat i * -1)%Z with (Z.of_nat (N - 1 - i)) by lia.
    set (j := (N - 1 - i)%nat).
    assert (Hj : (k < j < N)%nat) by (unfold j; lia).
    assert (Eef : nthF ef' j = nthF ef j).
    { rewrite Hnf. destruct (Nat.leb_spec (N - i) j); [unfold j in *; lia|]. reflexivity. }
    assert (Eeb : nthF eb' (j - 1) = nthF eb (j - 1)).
    { rewrite Hnb. destruct (Nat.leb_spec (N - i) (j - 1)); [unfold j in *; lia|]. reflexivity. }
    cbn [bst set]. cbn [LoopIR.exec LoopIR.eval get nth bind try asZ asArr asF ok arith arithZ fop fst snd set].
    rewrite Hlf. rewrite norm_index_nat by lia.
    cbn [bind try ok set get nth asArr asZ asF fst snd LoopIR.exec LoopIR.eval arith arithZ fop].
    rewrite Hlf. rewrite norm_index_nat by lia. cbn [bind]. rewrite Hlb.
    rewrite (norm_index_ok N (Z.of_nat j - 1)) by lia.
    replace (Z.to_nat (Z.of_nat j - 1)) with (j - 1)%nat by lia.
    cbn [bind try ok set get nth asArr asZ asF fst snd LoopIR.exec LoopIR.eval arith arithZ fop].
    rewrite Hlb. rewrite norm_index_nat by lia. cbn [bind]. rewrite (norm_index_ok N (Z.of_nat j - 1)) by lia.
    replace (Z.to_nat (Z.of_nat j - 1)) with (j - 1)%nat by lia.
    cbn [bind try ok set get nth asArr asZ asF fst snd LoopIR.exec LoopIR.eval arith arithZ fop].
    eexists. split; [reflexivity|]. do 4 eexists. split; [reflexivity|].
    split; [rewrite updF_length; exact Hlf|]. split; [rewrite updF_length; exact Hlb|].
    rewrite Eef, Eeb.
    split; intros q; rewrite nthF_updF by lia; [rewrite Hnf|rewrite Hnb];
      (destruct (Nat.eqb_spec q j) as [->|Nq];
       [ replace ((N - S i <=? j)%nat && (j <? N)%nat) with true; [reflexivity|];
         symmetry; apply andb_true_iff; split; [apply Nat.leb_le|apply Nat.ltb_lt]; unfold j; lia
       | destruct (Nat.leb_spec (N - i) q); destruct (Nat.leb_spec (N - S i) q); destruct (Nat.ltb_spec q N); cbn [andb];
         try reflexivity; unfold j in *; lia ]).
  - rewrite range_from_length in I4, I5. exists vj', vsave'. rewrite E, I1.
    replace ef' with (ef_new N k kp ef eb); [replace eb' with (eb_new N k kp ef eb); [reflexivity|]|].
    + apply list_eq_nth; [unfold eb_new; rewrite mk_length; symmetry; exact I3|].
      intros q Hq. unfold eb_new in *. rewrite mk_length in Hq. rewrite nth_mk by exact Hq. rewrite I5.
      unfold n. destruct (Nat.ltb_spec k q); destruct (Nat.leb_spec (N - (N - 1 - k)) q); destruct (Nat.ltb_spec q N); cbn [andb]; try reflexivity; lia.
    + apply list_eq_nth; [unfold ef_new; rewrite mk_length; symmetry; exact I2|].
      intros q Hq. unfold ef_new in *. rewrite mk_length in Hq. rewrite nth_mk by exact Hq. rewrite I4.
      unfold n. destruct (Nat.ltb_spec k q); destruct (Nat.leb_spec (N - (N - 1 - k)) q); destruct (Nat.ltb_spec q N); cbn [andb]; try reflexivity; lia.
Qed.

(* the in-place symmetric update of a (Eq. 8.2): as LEVINSON's, complex branch, for arburg's slots *)
Lemma bg_sym_ok vX vo vc vx vN vrho vden vcrit B ref ef eb vtemp m v14 vnum t vnr vstat vj vsave h vap :
  (m <= length B)%nat -> (2 * h <= m + 1)%nat ->
  exists arr vj' vap',
    exec bg_sym (bst vX vo vc vx vN vrho vden vcrit B ref ef eb vtemp (VI (Z.of_nat m)) v14 vnum (VF t) vnr vstat vj vsave (VI (Z.of_nat h)) vap)
    = (bst vX vo vc vx vN vrho vden vcrit arr ref ef eb vtemp (VI (Z.of_nat m)) v14 vnum (VF t) vnr vstat vj' vsave (VI (Z.of_nat h)) vap', CNormal)
    /\ length arr = length B
    /\ forall q, nthF arr q = if done2 m h q then upd2 true B t m q else nthF B q.
Proof.
  intros HB Hh. unfold bg_sym.
  cbn [LoopIR.exec LoopIR.eval get nth bst bind try asZ ok].
  rewrite range_vals_nat. cbn [try].
  match goal with |- exists arr vj' vap', (let (st', c) := for_loop ?f ?x _ ?st in _) = _ /\ _ =>
    destruct (for_loop_inv f x
      (fun i s => exists arr vj' vap',
           s = bst vX vo vc vx vN vrho vden vcrit arr ref ef eb vtemp (VI (Z.of_nat m)) v14 vnum (VF t) vnr vstat vj' vsave (VI (Z.of_nat h)) vap'
           /\ length arr = length B
           /\ forall q, nthF arr q = if done2 m i q then upd2 true B t m q else nthF B q) h st)
      as [s' [E [arr [vj' [vap' [I1 [I2 I3]]]]]]]
  end.
  - exists B, vj, vap. split; [reflexivity|]. split; [reflexivity|].
    intros q. unfold done2. replace (q <? 0)%nat with false by reflexivity. cbn [orb].
    destruct (Nat.ltb_spec (m - 1 - 0) q); destruct (Nat.ltb_spec q m); cbn [andb]; try reflexivity. lia.
  - intros i s Hi [arr [vj' [vap' [-> [Hl Hn]]]]].
    assert (Hi2 : (2 * i + 1 <= m)%nat) by lia.
    assert (Eold : forall q, (i <= q <= m - 1 - i)%nat -> nthF arr q = nthF B q).
    { intros q Hq. rewrite Hn. unfold done2.
      destruct (Nat.ltb_spec q i); [lia|]. destruct (Nat.ltb_spec (m - 1 - i) q); [lia|]. reflexivity. }
    assert (Ekj : (Z.of_nat m - Z.of_nat i - 1)%Z = Z.of_nat (m - 1 - i)) by lia.
    cbn [bst set]. cbn [LoopIR.exec LoopIR.eval get nth bind try asZ asArr asF ok arith arithZ fop fst snd set].
    rewrite norm_index_nat by lia. cbn [bind try ok set get nth asArr asZ asF fst snd LoopIR.exec LoopIR.eval arith arithZ fop].
    rewrite norm_index_nat by lia. cbn [bind]. rewrite !Ekj.
    rewrite norm_index_nat by lia. cbn [bind ok arith asF fop try set get nth compare cmpZ truthy LoopIR.exec LoopIR.eval asArr asZ fst snd arithZ].
    rewrite !Ekj. rewrite !Eold by lia.
    destruct (Z.eqb_spec (Z.of_nat i) (Z.of_nat (m - 1 - i))) as [Eq|Ne]; cbn [negb LoopIR.exec try bind LoopIR.eval get nth set asArr asZ ok fst snd arith arithZ].
    all: rewrite ?Ekj; rewrite ?updF_length; rewrite ?norm_index_nat by lia;
         cbn [bind ok arith asF fop try set get nth asArr asZ fst snd LoopIR.eval]; rewrite ?updF_length; rewrite ?norm_index_nat by lia;
         cbn [bind ok arith asF fop try set get nth asArr asZ fst snd LoopIR.eval]; rewrite ?updF_length.
    all: eexists; (split; [reflexivity|]); do 3 eexists; (split; [reflexivity|]); (split; [rewrite ?updF_length; exact Hl|]).
    all: intros q; rewrite ?nthF_updF by (rewrite ?updF_length; lia).
    all: rewrite ?Hn; unfold done2, upd2, cj.
    all: repeat match goal with
           | |- context [Nat.eqb ?a ?b] => destruct (Nat.eqb_spec a b)
           | |- context [Nat.ltb ?a ?b] => destruct (Nat.ltb_spec a b)
           end; cbn [orb andb]; try lia; subst; try reflexivity.
    all: repeat (f_equal; try lia).
  - exists arr, vj', vap'. rewrite E, I1. split; [reflexivity|]. split; assumption.
Qed.

Lemma exec_assign x e (st : store) v : eval st e = inl v -> exec (SAssign x e) st = (set st x v, CNormal).
Proof. intros H. cbn [LoopIR.exec]. rewrite H. reflexivity. Qed.
Lemma eval_sum (st : store) e t l : eval st e = inl (VArr t l) -> eval st (ESum e) = inl (VF (sum_left l)).
Proof. intros H. cbn [LoopIR.eval]. rewrite H. reflexivity. Qed.

(* num = sum([ef[j]*eb[j-1].conjugate() for j in range(k+1, N)]) *)
Lemma bg_num_ok vX vo vc vx N vrho vden vcrit a ref ef eb vtemp k v14 vnum vkp vnr vstat vj vsave vkh vap :
  (k < N)%nat -> length ef = N -> length eb = N ->
  exec bg_num (bst vX vo vc vx (VI (Z.of_nat N)) vrho vden vcrit a ref ef eb vtemp (VI (Z.of_nat k)) v14 vnum vkp vnr vstat vj vsave vkh vap)
  = (bst vX vo vc vx (VI (Z.of_nat N)) vrho vden vcrit a ref ef eb vtemp (VI (Z.of_nat k)) v14 (VF (burg_num N ef eb k)) vkp vnr vstat vj vsave vkh vap, CNormal).
Proof.
  intros Hk Hef Heb. unfold bg_num.
  rewrite (exec_assign _ _ _ (VF (burg_num N ef eb k))); [reflexivity|].
  unfold burg_num. rewrite <- sum_left_sumL. apply eval_sum with (t := false).
  replace (N - k - 1)%nat with (Z.to_nat (Z.of_nat N - (Z.of_nat k + 1))) by lia.
  apply eval_comp; [reflexivity|reflexivity|lia|].
  intros i Hi. cbn [bst set]. cbn [LoopIR.eval get nth bind asZ asArr ok fst snd arith arithZ].
  rewrite Hef, Heb. rewrite norm_index_ok by lia. cbn [bind]. rewrite norm_index_ok by lia.
  cbn [bind ok arith fop asF].
  replace (Z.to_nat (Z.of_nat k + 1 + Z.of_nat i)) with (i + k + 1)%nat by lia.
  replace (Z.to_nat (Z.of_nat k + 1 + Z.of_nat i - 1)) with (i + k)%nat by lia. reflexivity.
Qed.

(* the arguments / objects of the criterion *)
Definition vcrit (crit : option string) : value := match crit with Some s => VStr s | None => VNone end.
Definition usecrit (crit : option string) : bool := match crit with Some s => negb (String.eqb s "") | None => false end.
Definition critv (uc : bool) (rho : F) : value := if uc then VCrit (Some rho) else VUnbound.
Definition mstop (uc : bool) : nat -> F -> F -> bool := if uc then (fun k a b => stop (Z.of_nat k) a b) else no_stop.

Lemma bg_crit_ok crit vX vo vx vN rho vden a ref ef eb temp k v14 vnum vkp vnr vstat vj vsave vkh vap :
  exists vstat',
  exec bg_crit (bst vX vo (vcrit crit) vx vN (VF rho) vden (critv (usecrit crit) rho) a ref ef eb (VF temp) (VI (Z.of_nat k)) v14 vnum vkp vnr vstat vj vsave vkh vap)
  = (bst vX vo (vcrit crit) vx vN (VF rho) vden (critv (usecrit crit) (temp * rho)) a ref ef eb (VF temp) (VI (Z.of_nat k)) v14 vnum vkp vnr vstat' vj vsave vkh vap,
     if mstop (usecrit crit) (S k) rho (temp * rho) then CBreak else CNormal).
Proof.
  unfold bg_crit. destruct crit as [s|]; cbn [usecrit vcrit].
  - ev. destruct (String.eqb s "") eqn:Es; cbn [negb critv mstop].
    + exists vstat. reflexivity.
    + ev. replace (Z.of_nat k + 1)%Z with (Z.of_nat (S k)) by lia.
      destruct (stop (Z.of_nat (S k)) rho (temp * rho)); eexists; reflexivity.
  - exists vstat. reflexivity.
Qed.

(* the update of a (for k > 0) and of the error arrays *)
Lemma bg_upd_ok vX vo vc vx N vrho vden vcrit a ref ef eb vtemp k v14 vnum kp vnr vstat vj vsave vkh vap :
  (k < N)%nat -> length a = k -> length ef = N -> length eb = N ->
  exists vj' vsave' vkh' vap',
    exec bg_upd (bst vX vo vc vx (VI (Z.of_nat N)) vrho vden vcrit (a ++ [kp]) ref ef eb vtemp (VI (Z.of_nat k)) v14 vnum (VF kp) vnr vstat vj vsave vkh vap)
    = (bst vX vo vc vx (VI (Z.of_nat N)) vrho vden vcrit (stepup a kp) ref (ef_new N k kp ef eb) (eb_new N k kp ef eb) vtemp (VI (Z.of_nat k)) v14 vnum (VF kp) vnr vstat vj' vsave' vkh' vap', CNormal).
Proof.
  intros Hk Ha Hef Heb. unfold bg_upd. destruct (Nat.eq_dec k 0) as [E0|N0].
  - ev. replace (Z.of_nat k =? 0)%Z with true by (symmetry; apply Z.eqb_eq; lia). ev.
    destruct (bg_err_ok vX vo vc vx N vrho vden vcrit (a ++ [kp]) ref ef eb vtemp k v14 vnum kp vnr vstat vj vsave vkh vap Hk Hef Heb)
      as [vj' [vs' E]].
    unfold bst in E |- *. rewrite E. exists vj', vs', vkh, vap.
    destruct a; [reflexivity|cbn [length] in Ha; lia].
  - ev. replace (Z.of_nat k =? 0)%Z with false by (symmetry; apply Z.eqb_neq; lia). ev.
    change (2 =? 0)%Z with false. cbv iota.
    replace ((Z.of_nat k + 1) / 2)%Z with (Z.of_nat ((k + 1) / 2)) by (rewrite Nat2Z.inj_div, Nat2Z.inj_add; reflexivity).
    ev.
    destruct (bg_sym_ok vX vo vc vx (VI (Z.of_nat N)) vrho vden vcrit (a ++ [kp]) ref ef eb vtemp k v14 vnum kp vnr vstat vj vsave ((k + 1) / 2) vap)
      as [arr [vj1 [vap1 [E [Hl Hn]]]]].
    { rewrite app_length. lia. }
    { pose proof (Nat.mul_div_le (k + 1) 2). lia. }
    unfold bst in E |- *. rewrite E. clear E.
    assert (EZ : @zeros F OF (S k - S k) = []) by (rewrite Nat.sub_diag; reflexivity).
    pose proof (inner2_result true a kp (S k) k arr ((k + 1) / 2) Ha (Nat.lt_succ_diag_r k) eq_refl) as R.
    rewrite EZ, !app_nil_r in R. specialize (R Hl Hn). change (gstepup true a kp) with (stepup a kp) in R. rewrite R.
    destruct (bg_err_ok vX vo vc vx N vrho vden vcrit (stepup a kp) ref ef eb vtemp k v14 vnum kp vnr vstat vj1 vsave (VI (Z.of_nat ((k + 1) / 2))) vap1 Hk Hef Heb)
      as [vj' [vs' E]].
    unfold bst in E |- *. rewrite E. exists vj', vs', (VI (Z.of_nat ((k + 1) / 2))), vap1. reflexivity.
Qed.

(* what the return statement reads *)
Definition rets (s : store) : value * value * value := (nth 8 s VUnbound, nth 5 s VUnbound, nth 9 s VUnbound).

Lemma grow_ok (l : list F) k v : length l = k -> updF (l ++ [0]) k v = l ++ [v].
Proof. intros <-. apply updF_app_last. Qed.

(* one pass of the main loop *)
Lemma bg_body_ok crit vX vo vx N (st : burg_st) k vk v14 vnum vkp vnr vstat vj vsave vkh vap :
  (k < N)%nat -> length (b_a st) = k -> length (b_ref st) = k -> length (b_ef st) = N -> length (b_eb st) = N ->
  let uc := usecrit crit in
  let S0 := set (bst vX vo (vcrit crit) vx (VI (Z.of_nat N)) (VF (b_rho st)) (VF (b_den st)) (critv uc (b_rho st))
                     (b_a st) (b_ref st) (b_ef st) (b_eb st) (VF (b_temp st)) vk v14 vnum vkp vnr vstat vj vsave vkh vap) 13 (VI (Z.of_nat k)) in
  match burg_step (mstop uc) N st k with
  | BCont st' => exists vnum' vkp' vnr' vstat' vj' vsave' vkh' vap',
      exec bg_body S0
      = (bst vX vo (vcrit crit) vx (VI (Z.of_nat N)) (VF (b_rho st')) (VF (b_den st')) (critv uc (b_rho st'))
             (b_a st') (b_ref st') (b_ef st') (b_eb st') (VF (b_temp st')) (VI (Z.of_nat k)) v14 vnum' vkp' vnr' vstat' vj' vsave' vkh' vap', CNormal)
  | BStop st' => exists s', exec bg_body S0 = (s', CBreak) /\ rets s' = (VArr false (b_a st'), VF (b_rho st'), VArr false (b_ref st'))
  | BRaise => exists s', exec bg_body S0 = (s', CErr ValueError)
  end.
Proof.
  intros Hk Ha Hr Hef Heb uc S0. subst uc S0.
  unfold burg_step.
  set (num := burg_num N (b_ef st) (b_eb st) k).
  set (den := burg_den N st k). set (kp := burg_kp N st k). set (temp := 1 - nrm2 kp). set (nr := temp * b_rho st).
  unfold bg_body. cbn [bst set].
  (* num *)
  erewrite exec_seq; [|apply (bg_num_ok vX vo (vcrit crit) vx N (VF (b_rho st)) (VF (b_den st)) (critv (usecrit crit) (b_rho st)) (b_a st) (b_ref st) (b_ef st) (b_eb st)
                                (VF (b_temp st)) k v14 vnum vkp vnr vstat vj vsave vkh vap Hk Hef Heb)].
  unfold bst. fold num.
  (* den *)
  erewrite exec_seq.
  2:{ unfold bg_den. ev. rewrite Hef, Heb. rewrite norm_index_nat by lia. ev. rewrite norm_index_ok by lia. ev.
      replace (Z.to_nat (Z.of_nat N - 1)) with (N - 1)%nat by lia.
      change (b_temp st * b_den st - nrm2 (nthF (b_ef st) k) - nrm2 (nthF (b_eb st) (N - 1))) with den. reflexivity. }
  (* kp *)
  erewrite exec_seq.
  2:{ unfold bg_kp. ev. rewrite lit_2. replace (- two * num) with (- (two * num)) by ring.
      change (- (two * num) / den) with kp. reflexivity. }
  (* temp, new_rho *)
  erewrite exec_seq; [|unfold bg_temp; ev; rewrite lit_1; change (1 - nrm2 kp) with temp; reflexivity].
  erewrite exec_seq; [|unfold bg_newrho; ev; change (temp * b_rho st) with nr; reflexivity].
  (* the criterion *)
  destruct (bg_crit_ok crit vX vo vx (VI (Z.of_nat N)) (b_rho st) (VF den) (b_a st) (b_ref st) (b_ef st) (b_eb st) temp k v14
              (VF num) (VF kp) (VF nr) vstat vj vsave vkh vap) as [vstat' Ec].
  unfold bst in Ec. change (temp * b_rho st) with nr in Ec.
  destruct (mstop (usecrit crit) (S k) (b_rho st) nr) eqn:Hs.
  { eexists. split; [apply exec_seq_stop; [exact Ec|discriminate]|reflexivity]. }
  erewrite exec_seq by exact Ec. clear Ec.
  (* rho = new_rho; the sign test *)
  erewrite exec_seq; [|ev; reflexivity].
  destruct (le0 nr) eqn:Hle.
  { eexists. apply exec_seq_stop; [ev; rewrite Hle; ev; reflexivity|discriminate]. }
  erewrite exec_seq; [|ev; rewrite Hle; ev; reflexivity].
  (* a.resize(a.size+1); a[k] = kp *)
  erewrite exec_seq.
  2:{ ev. replace (Z.of_nat (length (b_a st)) + 1 <? 0)%Z with false by (symmetry; apply Z.ltb_ge; lia).
      replace (Z.to_nat (Z.of_nat (length (b_a st)) + 1)) with (S (length (b_a st))) by lia. rewrite resize_S. reflexivity. }
  erewrite exec_seq.
  2:{ ev. rewrite norm_index_nat by (rewrite app_length; cbn [length]; lia). ev. rewrite (grow_ok _ _ _ Ha). reflexivity. }
  (* a, ef, eb *)
  destruct (bg_upd_ok vX vo (vcrit crit) vx N (VF nr) (VF den) (critv (usecrit crit) nr) (b_a st) (b_ref st) (b_ef st) (b_eb st) (VF temp) k v14
              (VF num) kp (VF nr) vstat' vj vsave vkh vap Hk Ha Hef Heb) as [vj' [vs' [vkh' [vap' Eu]]]].
  unfold bst in Eu. erewrite exec_seq by exact Eu. clear Eu.
  (* ref.resize(ref.size+1); ref[k] = kp *)
  erewrite exec_seq.
  2:{ ev. replace (Z.of_nat (length (b_ref st)) + 1 <? 0)%Z with false by (symmetry; apply Z.ltb_ge; lia).
      replace (Z.to_nat (Z.of_nat (length (b_ref st)) + 1)) with (S (length (b_ref st))) by lia. rewrite resize_S. reflexivity. }
  ev. rewrite norm_index_nat by (rewrite app_length; cbn [length]; lia). ev. rewrite (grow_ok _ _ _ Hr).
  cbn [b_a b_rho b_ref b_ef b_eb b_den b_temp].
  exists (VF num), (VF kp), (VF nr), vstat', vj', vs', vkh', vap'. reflexivity.
Qed.
End BgLoops.

(* ---------------------------------------------------------------- the main loop, the whole function *)
Section BgMain.
Context {F : Type} {OF : Ops F} {L : Laws OF}.
Variable feq : F -> F -> bool.
Variable stop : Z -> F -> F -> bool.
Local Open Scope F_scope.
Add Field FFbg2 : (fth (O:=OF)).
Notation value := (@value F).
Notation store := (@store F).
Notation exec := (@exec F OF feq stop).
Notation eval := (@eval F OF feq).
Notation mstop := (@mstop F stop).
Ltac ev := cbn [LoopIR.exec LoopIR.eval get set nth bst bind try asZ asArr asF ok err fst snd arith arithZ fop compare cmpF cmpZ eqne truthy eval_list].

Lemma burg_step_length st0 N (st : burg_st) k st' :
  burg_step st0 N st k = BCont st' ->
  length (b_a st') = S (length (b_a st)) /\ length (b_ref st') = S (length (b_ref st)) /\ length (b_ef st') = N /\ length (b_eb st') = N.
Proof.
  unfold burg_step. destruct (st0 (S k) _ _); [discriminate|]. destruct (le0 _); [discriminate|].
  intros H. inversion H; subst; clear H. cbn [b_a b_ref b_ef b_eb].
  unfold stepup. rewrite !app_length, !mk_length. cbn [length]. repeat split; lia.
Qed.
Lemma burg_step_stop st0 N (st : burg_st) k st' : burg_step st0 N st k = BStop st' -> st' = st.
Proof.
  unfold burg_step. destruct (st0 (S k) _ _); [intros H; inversion H; reflexivity|]. destruct (le0 _); discriminate.
Qed.

Lemma bg_outer_ok crit vX vo vx (x : list F) vk v14 vnum vkp vnr vstat vj vsave vkh vap :
  forall m, (m <= length x)%nat ->
  let S0 := bst vX vo (vcrit crit) vx (VI (Z.of_nat (length x))) (VF (b_rho (burg_init x))) (VF (b_den (burg_init x)))
                (critv (usecrit crit) (b_rho (burg_init x))) [] [] x x (VF 1) vk v14 vnum vkp vnr vstat vj vsave vkh vap in
  match burg_iter (mstop (usecrit crit)) x m with
  | BCont st => exists vk' vnum' vkp' vnr' vstat' vj' vsave' vkh' vap',
      for_loop (exec bg_body) 13 (range_from 0 1 m) S0
      = (bst vX vo (vcrit crit) vx (VI (Z.of_nat (length x))) (VF (b_rho st)) (VF (b_den st)) (critv (usecrit crit) (b_rho st))
             (b_a st) (b_ref st) (b_ef st) (b_eb st) (VF (b_temp st)) vk' v14 vnum' vkp' vnr' vstat' vj' vsave' vkh' vap', CNormal)
      /\ length (b_a st) = m /\ length (b_ref st) = m /\ length (b_ef st) = length x /\ length (b_eb st) = length x
  | BStop st => exists s', for_loop (exec bg_body) 13 (range_from 0 1 m) S0 = (s', CBreak)
                           /\ rets s' = (VArr false (b_a st), VF (b_rho st), VArr false (b_ref st))
  | BRaise => exists s', for_loop (exec bg_body) 13 (range_from 0 1 m) S0 = (s', CErr ValueError)
  end.
Proof.
  intros m. induction m as [|m IH]; intros Hm S0.
  - cbn [burg_iter range_from for_loop]. exists vk, vnum, vkp, vnr, vstat, vj, vsave, vkh, vap. repeat split.
  - rewrite range_from_S, for_loop_app. cbn [burg_iter].
    specialize (IH ltac:(lia)). cbv zeta in IH. fold S0 in IH.
    destruct (burg_iter (mstop (usecrit crit)) x m) as [st|st|].
    + destruct IH as [vk' [vnum' [vkp' [vnr' [vstat' [vj' [vsave' [vkh' [vap' [E [Ha [Hr [Hef Heb]]]]]]]]]]]]]. rewrite E. cbn [for_loop].
      pose proof (bg_body_ok feq stop crit vX vo vx (length x) st m vk' v14 vnum' vkp' vnr' vstat' vj' vsave' vkh' vap'
                    ltac:(lia) Ha Hr Hef Heb) as B. cbv zeta in B.
      destruct (burg_step (mstop (usecrit crit)) (length x) st m) as [st'|st'|] eqn:Es.
      * destruct B as [vnum2 [vkp2 [vnr2 [vstat2 [vj2 [vsave2 [vkh2 [vap2 E2]]]]]]]]. rewrite E2.
        destruct (burg_step_length _ _ _ _ _ Es) as [La [Lr [Lf Lb]]].
        exists (VI (Z.of_nat m)), vnum2, vkp2, vnr2, vstat2, vj2, vsave2, vkh2, vap2.
        split; [reflexivity|]. repeat split; lia.
      * destruct B as [s' [E2 R2]]. rewrite E2. exists s'. split; [reflexivity|exact R2].
      * destruct B as [s' E2]. rewrite E2. exists s'. reflexivity.
    + destruct IH as [s' [E R]]. rewrite E. exists s'. split; [reflexivity|exact R].
    + destruct IH as [s' E]. rewrite E. exists s'. reflexivity.
Qed.

Lemma bg_main_ok t (x : list F) (order : Z) crit :
  exists s',
  exec bg_main (VArr t x :: VI order :: vcrit crit :: repeat VUnbound 20) =
  (s', match arburg x (Z.to_nat order) (mstop (usecrit crit)) with
       | Some (a, rho, ref) => CRet [VArr false a; VF rho; VArr false ref]
       | None => CErr ValueError
       end).
Proof.
  cbn [repeat]. unfold bg_main, arburg.
  (* order <= 0 *)
  destruct (Z.leb_spec order 0) as [Ho|Ho].
  { replace (Z.to_nat order) with 0%nat by lia. cbn [Nat.eqb orb].
    eexists. apply exec_seq_stop; [|discriminate]. ev. replace (order <=? 0)%Z with true by (symmetry; apply Z.leb_le; lia). ev. reflexivity. }
  erewrite exec_seq; [|ev; replace (order <=? 0)%Z with false by (symmetry; apply Z.leb_gt; lia); ev; reflexivity].
  remember (Z.to_nat order) as ord eqn:Eord. assert (Eo : order = Z.of_nat ord) by lia. subst order. clear Eord.
  replace (ord =? 0)%nat with false by (symmetry; apply Nat.eqb_neq; lia). cbn [orb].
  (* order > len(X) *)
  destruct (Nat.ltb_spec (length x) ord) as [Hl|Hl].
  { eexists. apply exec_seq_stop; [|discriminate]. ev.
    replace (Z.of_nat (length x) <? Z.of_nat ord)%Z with true by (symmetry; apply Z.ltb_lt; lia). ev. reflexivity. }
  erewrite exec_seq; [|ev; replace (Z.of_nat (length x) <? Z.of_nat ord)%Z with false by (symmetry; apply Z.ltb_ge; lia); ev; reflexivity].
  (* x, N, rho, den *)
  erewrite exec_seq; [|ev; reflexivity].
  erewrite exec_seq; [|ev; reflexivity].
  erewrite exec_seq; [|ev; rewrite sum_left_sumL, bg_ofZ_of_nat; change (sumL (map nrm2 x) / ofnat (length x)) with (b_rho (burg_init x)); reflexivity].
  erewrite exec_seq; [|ev; rewrite lit_2, bg_ofZ_of_nat; change (b_rho (burg_init x) * two * ofnat (length x)) with (b_den (burg_init x)); reflexivity].
  (* the criteria object *)
  erewrite exec_seq.
  2:{ instantiate (1 := [VArr t x; VI (Z.of_nat ord); vcrit crit; VArr t x; VI (Z.of_nat (length x)); VF (b_rho (burg_init x)); VF (b_den (burg_init x));
                          critv (usecrit crit) (b_rho (burg_init x));
                          VUnbound; VUnbound; VUnbound; VUnbound; VUnbound; VUnbound; VUnbound; VUnbound; VUnbound; VUnbound; VUnbound; VUnbound; VUnbound;
                          VUnbound; VUnbound]).
      unfold bg_crit0. destruct crit as [s|]; cbn [vcrit usecrit]; ev; [|reflexivity].
      destruct (String.eqb s ""); cbn [negb critv]; ev; reflexivity. }
  (* a, ref, ef, eb, temp *)
  erewrite exec_seq; [|ev; change (0 <? 0)%Z with false; cbv iota; change (Z.to_nat 0) with 0%nat; cbn [mk seq map]; reflexivity].
  erewrite exec_seq; [|ev; change (0 <? 0)%Z with false; cbv iota; change (Z.to_nat 0) with 0%nat; cbn [mk seq map]; reflexivity].
  erewrite exec_seq; [|ev; reflexivity].
  erewrite exec_seq; [|ev; reflexivity].
  erewrite exec_seq; [|ev; rewrite lit_1; reflexivity].
  (* the main loop *)
  pose proof (bg_outer_ok crit (VArr t x) (VI (Z.of_nat ord)) (VArr t x) x VUnbound VUnbound VUnbound VUnbound VUnbound VUnbound VUnbound VUnbound VUnbound VUnbound
                ord Hl) as O. cbv zeta in O. unfold bst in O.
  destruct (burg_iter (mstop (usecrit crit)) x ord) as [st|st|].
  - destruct O as [vk' [vnum' [vkp' [vnr' [vstat' [vj' [vsave' [vkh' [vap' [E _]]]]]]]]]].
    erewrite exec_seq; [|unfold bg_loop; ev; rewrite range_vals_nat; cbn [try]; rewrite E; reflexivity].
    eexists. ev. reflexivity.
  - destruct O as [s' [E R]]. unfold rets in R. injection R as R8 R5 R9.
    erewrite exec_seq; [|unfold bg_loop; ev; rewrite range_vals_nat; cbn [try]; rewrite E; reflexivity].
    exists s'. cbn [LoopIR.exec eval_list LoopIR.eval]. unfold get. rewrite R8, R5, R9. reflexivity.
  - destruct O as [s' E]. exists s'. apply exec_seq_stop; [|discriminate].
    unfold bg_loop. ev. rewrite range_vals_nat. cbn [try]. rewrite E. reflexivity.
Qed.

(* the order-selection rule the model is run with: none when the criteria argument is falsy ([if criteria:] - omitted, None,
   the empty string), the interpreter's abstract rule [stop] otherwise *)
Definition crit_rule (crit : option string) : nat -> F -> F -> bool :=
  match crit with
  | Some s => if String.eqb s "" then no_stop else (fun k a b => stop (Z.of_nat k) a b)
  | None => no_stop
  end.
Lemma mstop_rule crit : mstop (usecrit crit) = crit_rule crit.
Proof. destruct crit as [s|]; [|reflexivity]. cbn [usecrit crit_rule]. destruct (String.eqb s ""); reflexivity. Qed.

(* the third argument: omitted (the default None applies), an explicit None, or a string *)
Inductive crit_arg : option value -> option string -> Prop :=
| crit_omitted : crit_arg None None
| crit_none : crit_arg (Some VNone) None
| crit_str s : crit_arg (Some (VStr s)) (Some s).

Theorem arburg_ir_run_arg (t : bool) (x : list F) (order : Z) (c3 : option value) (crit : option string) :
  crit_arg c3 crit ->
  run feq stop prog_arburg_ref [Some (VArr t x); Some (VI order); c3] =
  match arburg x (Z.to_nat order) (crit_rule crit) with
  | Some (a, rho, ref) => ORet [VArr false a; VF rho; VArr false ref]
  | None => OErr ValueError
  end.
Proof.
  intros Hc. destruct (bg_main_ok t x order crit) as [s' E].
  unfold run, prog_arburg_ref. cbn [p_defaults p_body p_nslots p_nparams Nat.sub].
  assert (B : bind_args feq [None; None; Some ENone] [Some (VArr t x); Some (VI order); c3]
              = inl [VArr t x; VI order; vcrit crit]) by (destruct Hc; reflexivity).
  rewrite B. cbn [app]. rewrite E. rewrite mstop_rule.
  destruct (arburg x (Z.to_nat order) (crit_rule crit)) as [[[a rho] ref]|]; reflexivity.
Qed.

(* as the tie passes the arguments: criteria omitted or a string *)
Theorem arburg_ir_run (t : bool) (x : list F) (order : Z) (crit : option string) :
  run feq stop prog_arburg_ref [Some (VArr t x); Some (VI order); option_map VStr crit] =
  match arburg x (Z.to_nat order) (crit_rule crit) with
  | Some (a, rho, ref) => ORet [VArr false a; VF rho; VArr false ref]
  | None => OErr ValueError
  end.
Proof. apply arburg_ir_run_arg. destruct crit; constructor. Qed.

(* criteria=None (omitted or given): Model.Burg.arburg without order selection *)
Theorem arburg_ir_nocrit (t : bool) (x : list F) (order : Z) (c3 : option value) :
  c3 = None \/ c3 = Some VNone ->
  run feq stop prog_arburg_ref [Some (VArr t x); Some (VI order); c3] =
  match arburg x (Z.to_nat order) no_stop with
  | Some (a, rho, ref) => ORet [VArr false a; VF rho; VArr false ref]
  | None => OErr ValueError
  end.
Proof. intros [-> | ->]; apply (arburg_ir_run_arg t x order _ None); constructor. Qed.

(* a Criteria object (any non-empty name): the abstract rule of the interpreter is the [stop] argument of the model *)
Theorem arburg_ir_crit (t : bool) (x : list F) (order : Z) (s : string) :
  s <> ""%string ->
  run feq stop prog_arburg_ref [Some (VArr t x); Some (VI order); Some (VStr s)] =
  match arburg x (Z.to_nat order) (fun k a b => stop (Z.of_nat k) a b) with
  | Some (a, rho, ref) => ORet [VArr false a; VF rho; VArr false ref]
  | None => OErr ValueError
  end.
Proof.
  intros Hs. rewrite (arburg_ir_run_arg t x order _ (Some s)) by constructor.
  cbn [crit_rule]. destruct (String.eqb_spec s ""); [congruence|reflexivity].
Qed.
End BgMain.

(* the boolean of the exact evaluation tie (Model/LoopIRTie.v) is true on its whole domain: any data, any integer order, criteria
   omitted or any NON-EMPTY string (for the empty string the code runs without a criterion, [if criteria:], whereas tie_arburg gives
   the model the rule [stop]; the generator of the tie never produces it) *)
Section BgTie.
Context {F : Type} {OF : Ops F} {L : Laws OF}.
Variable feq : F -> F -> bool.
Hypothesis feq_refl : forall a, feq a a = true.
Variable stop : Z -> F -> F -> bool.
Local Open Scope F_scope.

Lemma bg_leq_refl (l : list F) : leq feq l l = true.
Proof.
  unfold leq. rewrite Nat.eqb_refl. cbn [andb]. induction l as [|a l IH]; [reflexivity|].
  cbn [combine forallb fst snd]. rewrite feq_refl, IH. reflexivity.
Qed.

Theorem arburg_ir_tie (isreal : bool) (x : list F) (order : Z) (crit : option string) :
  crit <> Some ""%string ->
  tie_arburg feq stop prog_arburg_ref isreal x order crit = true.
Proof.
  intros Hc. unfold tie_arburg. rewrite (arburg_ir_run feq stop isreal x order crit).
  assert (E : crit_rule stop crit = match crit with None => no_stop | Some _ => fun k a b => stop (Z.of_nat k) a b end).
  { destruct crit as [s|]; [|reflexivity]. cbn [crit_rule]. destruct (String.eqb_spec s ""); [subst; congruence|reflexivity]. }
  rewrite E.
  destruct (arburg x (Z.to_nat order) _) as [[[a rho] ref]|]; [|reflexivity].
  rewrite !bg_leq_refl, feq_refl. reflexivity.
Qed.
End BgTie.

Print Assumptions arburg_ir_run_arg.
Print Assumptions arburg_ir_run.
Print Assumptions arburg_ir_nocrit.
Print Assumptions arburg_ir_crit.
Print Assumptions arburg_ir_tie.
