(* C03 — covariance / modified covariance (arcovar, modcovar, pcovar / pmodcovar's rho) are homogeneous.
   The data matrix of c*x has every row multiplied by a scalar of squared modulus |c|^2 (c for the forward rows,
   conj c for the conjugated backward rows of 'modified'), hence every inner product of two columns -- the Gram
   matrix, the right-hand side, X1^H X1, X1^H Xc -- is multiplied by |c|^2:
     * a solves the normal equations for x  <->  it solves them for c*x        (lstsq specification)
     * the executable solver returns the same vector                            (Gaussian elimination is invariant)
     * e is multiplied by |c|^2 and the RELATIVE imaginary-part assertion takes the same branch. *)
Require Import Spectrum.Theory.Ops Spectrum.Theory.Sum Spectrum.Theory.Vec Spectrum.Theory.Order
               Spectrum.Model.Corr Spectrum.Model.Ls Spectrum.Proofs.LsTheory Spectrum.Proofs.CovarTheory
               Spectrum.Proofs.ScaleUtil_C03.

Section ScaleLs.
Context {F : Type} {OF : Ops F} {L : Laws OF} {OL : OrdLaws OF}.
Local Open Scope F_scope.
Add Field FFsl : (fth (O:=OF)).

(* X' is X with row n multiplied by d n, all d n of squared modulus s *)
Definition RowScaled (s : F) (X X' : list (list F)) : Prop :=
  length X' = length X /\ exists d : nat -> F, (forall n, nrm2 (d n) = s) /\ forall n j, ent X' n j = d n * ent X n j.

Lemma ent_map_vscale a (A : list (list F)) n j : ent (map (vscale a) A) n j = a * ent A n j.
Proof. unfold ent. rewrite su_nth_map_vscale. apply nthF_vscale. Qed.
Lemma ent_app_l (A B : list (list F)) n j : (n < length A)%nat -> ent (A ++ B) n j = ent A n j.
Proof. intros H. unfold ent. rewrite app_nth1 by exact H. reflexivity. Qed.
Lemma ent_app_r (A B : list (list F)) n j : (length A <= n)%nat -> ent (A ++ B) n j = ent B (n - length A) j.
Proof. intros H. unfold ent. rewrite app_nth2 by exact H. reflexivity. Qed.
Lemma nrm2_conj_eq (c : F) : nrm2 (conj c) = nrm2 c.
Proof. unfold nrm2. rewrite conj_conj. ring. Qed.

Lemma xrow_vscale c (x : list F) m n : xrow (vscale c x) m n = vscale c (xrow x m n).
Proof.
  unfold xrow. rewrite su_vscale_mk. apply mk_ext; intros j _. rewrite nthF_vscale.
  destruct (j <=? n)%nat; ring.
Qed.
Theorem corrmtx_covariance_rowscaled c (x : list F) p :
  RowScaled (nrm2 c) (corrmtx x p MCovariance) (corrmtx (vscale c x) p MCovariance).
Proof.
  unfold corrmtx. rewrite su_vscale_length.
  assert (E : map (xrow (vscale c x) p) (seq p (length x - p)) = map (vscale c) (map (xrow x p) (seq p (length x - p)))).
  { rewrite map_map. apply map_ext; intros n. apply xrow_vscale. }
  rewrite E. split; [apply map_length|]. exists (fun _ => c). split; [reflexivity|]. intros n j. apply ent_map_vscale.
Qed.
Theorem corrmtx_modified_rowscaled c (x : list F) p :
  RowScaled (nrm2 c) (corrmtx x p MModified) (corrmtx (vscale c x) p MModified).
Proof.
  unfold corrmtx. rewrite su_vscale_length. set (K := (length x - p)%nat).
  set (A := map (xrow x p) (seq p K)).
  set (B := map (fun n => mk (S p) (fun j => conj (nthF x (n - p + j)))) (seq p K)).
  assert (EA : map (xrow (vscale c x) p) (seq p K) = map (vscale c) A).
  { unfold A. rewrite map_map. apply map_ext; intros n. apply xrow_vscale. }
  assert (EB : map (fun n => mk (S p) (fun j => conj (nthF (vscale c x) (n - p + j)))) (seq p K) = map (vscale (conj c)) B).
  { unfold B. rewrite map_map. apply map_ext; intros n. rewrite su_vscale_mk. apply mk_ext; intros j _.
    rewrite nthF_vscale. apply conj_mul. }
  rewrite EA, EB. split; [rewrite !app_length, !map_length; reflexivity|].
  exists (fun n => if (n <? length A)%nat then c else conj c). split.
  - intros n. destruct (n <? length A)%nat; [reflexivity|apply nrm2_conj_eq].
  - intros n j. destruct (Nat.ltb_spec n (length A)) as [H|H].
    + rewrite !ent_app_l by (rewrite ?map_length; exact H). apply ent_map_vscale.
    + rewrite !ent_app_r by (rewrite ?map_length; exact H). rewrite map_length. apply ent_map_vscale.
Qed.

Theorem corrmtx_rowscaled_thm c (x : list F) p meth : meth = MCovariance \/ meth = MModified ->
  RowScaled (nrm2 c) (corrmtx x p meth) (corrmtx (vscale c x) p meth).
Proof. intros [-> | ->]; [apply corrmtx_covariance_rowscaled|apply corrmtx_modified_rowscaled]. Qed.

(* inner products of columns of row-scaled matrices *)
Lemma dotc_rowscaled s (A B A' B' : list (list F)) (d : nat -> F) i j :
  length A' = length A -> (forall n, nrm2 (d n) = s) ->
  (forall n k, ent A' n k = d n * ent A n k) -> (forall n k, ent B' n k = d n * ent B n k) ->
  dotc (mcol A' i) (mcol B' j) = s * dotc (mcol A i) (mcol B j).
Proof.
  intros Hl Hd HA HB. rewrite !dotc_sumf, !mcol_length, Hl, <- sumf_scale. apply sumf_ext; intros n _.
  rewrite !nthF_mcol, HA, HB, conj_mul, <- (Hd n). unfold nrm2. ring.
Qed.

Section OneMatrix.
Variables (s : F) (X X' : list (list F)).
Hypothesis HRS : RowScaled s X X'.

Lemma rs_lengths : length X' = length X. Proof. exact (proj1 HRS). Qed.
(* the four families of inner products read by ar_ls and by the normal equations of lstsq(-Xc, X1) *)
Lemma rs_gram i j : dotc (mcol (mneg (cols1 X')) i) (mcol (mneg (cols1 X')) j)
                    = s * dotc (mcol (mneg (cols1 X)) i) (mcol (mneg (cols1 X)) j).
Proof.
  destruct HRS as (Hl & d & Hd & He).
  apply (dotc_rowscaled s _ _ _ _ d); [rewrite !mneg_length, !cols1_length; exact Hl|exact Hd| |];
    intros n k; rewrite !ent_mneg, !ent_cols1, He; ring.
Qed.
Lemma rs_rhs i : dotc (mcol (mneg (cols1 X')) i) (col0 X') = s * dotc (mcol (mneg (cols1 X)) i) (col0 X).
Proof.
  destruct HRS as (Hl & d & Hd & He). change (col0 X') with (mcol X' 0). change (col0 X) with (mcol X 0).
  apply (dotc_rowscaled s _ _ _ _ d); [rewrite !mneg_length, !cols1_length; exact Hl|exact Hd| |].
  - intros n k; rewrite !ent_mneg, !ent_cols1, He; ring.
  - intros n k; apply He.
Qed.
Lemma rs_x1x1 : dotc (col0 X') (col0 X') = s * dotc (col0 X) (col0 X).
Proof.
  destruct HRS as (Hl & d & Hd & He). change (col0 X') with (mcol X' 0). change (col0 X) with (mcol X 0).
  apply (dotc_rowscaled s _ _ _ _ d); [exact Hl|exact Hd| |]; intros n k; apply He.
Qed.
Lemma rs_x1xc j : dotc (col0 X') (mcol (cols1 X') j) = s * dotc (col0 X) (mcol (cols1 X) j).
Proof.
  destruct HRS as (Hl & d & Hd & He). change (col0 X') with (mcol X' 0). change (col0 X) with (mcol X 0).
  apply (dotc_rowscaled s _ _ _ _ d); [exact Hl|exact Hd| |]; intros n k; rewrite ?ent_cols1; apply He.
Qed.
Lemma rs_normal_lhs p a i :
  normal_lhs p (mneg (cols1 X')) a i = s * normal_lhs p (mneg (cols1 X)) a i.
Proof.
  unfold normal_lhs. rewrite !sumL_mk, <- sumf_scale. apply sumf_ext; intros j _. rewrite rs_gram. ring.
Qed.

(* the lstsq specification does not see the amplitude: same solution set *)
Theorem normal_eqs_scale p a : s <> 0 ->
  normal_eqs p (mneg (cols1 X')) (col0 X') a <-> normal_eqs p (mneg (cols1 X)) (col0 X) a.
Proof.
  intros Hs. unfold normal_eqs. split; intros [Hl H]; (split; [exact Hl|]); intros i Hi; specialize (H i Hi).
  - rewrite rs_normal_lhs, rs_rhs in H.
    set (l := normal_lhs p (mneg (cols1 X)) a i) in *. set (r := dotc (mcol (mneg (cols1 X)) i) (col0 X)) in *.
    assert (Z : s * (l - r) = 0) by (transitivity (s * l - s * r); [ring|rewrite H; ring]).
    apply mul_cancel_l in Z; [|exact Hs]. transitivity (l - r + r); [ring|rewrite Z; ring].
  - rewrite rs_normal_lhs, rs_rhs, H. reflexivity.
Qed.
End OneMatrix.

(* ---------- the executable solver: Gaussian elimination is invariant under a common factor ---------- *)
Lemma is_zero_scale s z : s <> 0 -> is_zero (s * z) = is_zero z.
Proof.
  intros Hs. unfold is_zero. rewrite nrm2_mul. apply su_le0_pos_scale; [apply su_pos_nrm2; exact Hs|apply nrm2_real].
Qed.
Lemma is_zero_false_neq z : is_zero z = false -> z <> 0.
Proof. unfold is_zero. intros H E. rewrite E in H. unfold nrm2 in H. replace (0 * conj 0) with (0 : F) in H by ring. rewrite le0_zero in H. discriminate. Qed.
Lemma gauss_scale s : s <> 0 -> forall p (rows : list (list F)), gauss p (map (vscale s) rows) = gauss p rows.
Proof.
  intros Hs. induction p as [|q IH]; intros rows; [reflexivity|].
  destruct rows as [|r rest]; [reflexivity|]. cbn [gauss map].
  rewrite nthF_vscale, is_zero_scale by exact Hs.
  destruct (is_zero (nthF r 0)) eqn:Ez; [reflexivity|].
  pose proof (is_zero_false_neq _ Ez) as Hp.
  assert (Er : map (fun v => v / (s * nthF r 0)) (tl (vscale s r)) = map (fun v => v / nthF r 0) (tl r)).
  { rewrite su_vscale_tl. unfold vscale. rewrite map_map. apply map_ext; intros v. field. split; assumption. }
  rewrite Er. set (r' := map (fun v => v / nthF r 0) (tl r)).
  assert (Erest : map (fun t => mk (S q) (fun j => nthF t (S j) - nthF t 0 * nthF r' j)) (map (vscale s) rest)
                  = map (vscale s) (map (fun t => mk (S q) (fun j => nthF t (S j) - nthF t 0 * nthF r' j)) rest)).
  { rewrite !map_map. apply map_ext; intros t. rewrite su_vscale_mk. apply mk_ext; intros j _. rewrite !nthF_vscale. ring. }
  rewrite Erest, IH. reflexivity.
Qed.

Lemma forallb_ext_c03 {A} (f g : A -> bool) l : (forall x, f x = g x) -> forallb f l = forallb g l.
Proof. intros H. induction l as [|a l IH]; [reflexivity|]. cbn. rewrite H, IH. reflexivity. Qed.

Section Solver.
Variables (s : F) (X X' : list (list F)).
Hypothesis HRS : RowScaled s X X'.
Hypothesis Hs : s <> 0.

Lemma rs_gram_ls p : gram_ls p (mneg (cols1 X')) = map (vscale s) (gram_ls p (mneg (cols1 X))).
Proof.
  unfold gram_ls. rewrite map_map. apply map_ext; intros i. rewrite su_vscale_mk. apply mk_ext; intros j _.
  apply (rs_gram s X X' HRS).
Qed.
Lemma rs_rhs_ls p : rhs_ls p (mneg (cols1 X')) (col0 X') = vscale s (rhs_ls p (mneg (cols1 X)) (col0 X)).
Proof. unfold rhs_ls. rewrite su_vscale_mk. apply mk_ext; intros i _. apply (rs_rhs s X X' HRS). Qed.
Lemma rs_normal_eqs_b p a : normal_eqs_b p (mneg (cols1 X')) (col0 X') a = normal_eqs_b p (mneg (cols1 X)) (col0 X) a.
Proof.
  unfold normal_eqs_b. apply forallb_ext_c03; intros i.
  rewrite (rs_normal_lhs s X X' HRS), (rs_rhs s X X' HRS).
  replace (s * normal_lhs p (mneg (cols1 X)) a i - s * dotc (mcol (mneg (cols1 X)) i) (col0 X))
    with (s * (normal_lhs p (mneg (cols1 X)) a i - dotc (mcol (mneg (cols1 X)) i) (col0 X))) by ring.
  apply is_zero_scale. exact Hs.
Qed.
(* ls_solve on the data matrix of c*x returns exactly what it returns on the data matrix of x *)
Theorem ls_solve_scale p : ls_solve p (mneg (cols1 X')) (col0 X') = ls_solve p (mneg (cols1 X)) (col0 X).
Proof.
  unfold ls_solve. cbv zeta. rewrite rs_gram_ls, rs_rhs_ls.
  assert (E : map (fun i => nth i (map (vscale s) (gram_ls p (mneg (cols1 X)))) [] ++ [nthF (vscale s (rhs_ls p (mneg (cols1 X)) (col0 X))) i]) (seq 0 p)
              = map (vscale s) (map (fun i => nth i (gram_ls p (mneg (cols1 X))) [] ++ [nthF (rhs_ls p (mneg (cols1 X)) (col0 X)) i]) (seq 0 p))).
  { rewrite map_map. apply map_ext; intros i. rewrite su_nth_map_vscale, nthF_vscale, su_vscale_app. reflexivity. }
  rewrite E, (gauss_scale s Hs).
  destruct (gauss p _) as [a|]; [|reflexivity]. rewrite rs_normal_eqs_b. reflexivity.
Qed.

(* ar_ls with ANY pair of solvers that agree on the two systems: same coefficients, e multiplied by s,
   same outcome of the relative imaginary-part assertion *)
Theorem ar_ls_scale (lstsq lstsq' : lstsq_t) tol p : pos s ->
  lstsq' p (mneg (cols1 X')) (col0 X') = lstsq p (mneg (cols1 X)) (col0 X) ->
  ar_ls lstsq' tol X' p = option_map (fun ae => (fst ae, s * snd ae)) (ar_ls lstsq tol X p).
Proof.
  intros Hpos Hsolve. unfold ar_ls. cbv zeta. rewrite Hsolve.
  destruct (lstsq p (mneg (cols1 X)) (col0 X)) as [a|]; [|reflexivity].
  assert (Hsr : conj s = s) by (apply pos_real; exact Hpos).
  set (e := dotc (col0 X) (col0 X) + sumL (mk p (fun j => nthF (mk p (fun j0 => dotc (col0 X) (mcol (cols1 X) j0))) j * nthF a j))).
  assert (Ee : dotc (col0 X') (col0 X') + sumL (mk p (fun j => nthF (mk p (fun j0 => dotc (col0 X') (mcol (cols1 X') j0))) j * nthF a j))
               = s * e).
  { unfold e. rewrite (rs_x1x1 s X X' HRS), !sumL_mk.
    transitivity (s * dotc (col0 X) (col0 X) + s * sumf p (fun j => nthF (mk p (fun j0 => dotc (col0 X) (mcol (cols1 X) j0))) j * nthF a j)); [|ring].
    f_equal. rewrite <- sumf_scale. apply sumf_ext; intros j Hj. rewrite !nth_mk by exact Hj. rewrite (rs_x1xc s X X' HRS). ring. }
  rewrite Ee, (rs_x1x1 s X X' HRS).
  assert (Et : nrm2 (s * e - conj (s * e)) - nrm2 (two * tol * re (s * dotc (col0 X) (col0 X)))
               = nrm2 s * (nrm2 (e - conj e) - nrm2 (two * tol * re (dotc (col0 X) (col0 X))))).
  { rewrite su_re_scale by exact Hsr. rewrite conj_mul, Hsr.
    replace (s * e - s * conj e) with (s * (e - conj e)) by ring.
    replace (two * tol * (s * re (dotc (col0 X) (col0 X)))) with (s * (two * tol * re (dotc (col0 X) (col0 X)))) by ring.
    rewrite !nrm2_mul. ring. }
  rewrite Et, su_le0_pos_scale.
  - destruct (le0 _); cbn [option_map fst snd]; [|reflexivity]. rewrite su_re_scale by exact Hsr. reflexivity.
  - apply su_pos_nrm2. exact Hs.
  - rewrite conj_sub, !nrm2_real. reflexivity.
Qed.
End Solver.

(* ---------- arcovar / modcovar and the variances pcovar / pmodcovar hand to arma2psd ---------- *)
Definition ae_scale (s : F) (r : option (list F * F)) : option (list F * F) := option_map (fun ae => (fst ae, s * snd ae)) r.

Theorem arcovar_scale_thm c tol (x : list F) p : c <> 0 ->
  arcovar tol (vscale c x) p = ae_scale (nrm2 c) (arcovar tol x p).
Proof.
  intros Hc. unfold arcovar, arcovar_with.
  pose proof (corrmtx_covariance_rowscaled c x p) as HRS. pose proof (su_nrm2_neq0 c Hc) as Hs.
  apply (ar_ls_scale _ _ _ HRS Hs); [apply su_pos_nrm2; exact Hc|apply (ls_solve_scale _ _ _ HRS Hs)].
Qed.
Theorem modcovar_scale_thm c tol (x : list F) p : c <> 0 ->
  modcovar tol (vscale c x) p = ae_scale (nrm2 c) (modcovar tol x p).
Proof.
  intros Hc. unfold modcovar, modcovar_with.
  pose proof (corrmtx_modified_rowscaled c x p) as HRS. pose proof (su_nrm2_neq0 c Hc) as Hs.
  apply (ar_ls_scale _ _ _ HRS Hs); [apply su_pos_nrm2; exact Hc|apply (ls_solve_scale _ _ _ HRS Hs)].
Qed.
(* over the lstsq SPECIFICATION: any two solvers that return the same solution of the (equivalent) normal equations *)
Theorem covar_with_scale_thm (lstsq lstsq' : lstsq_t) meth c tol (x : list F) p : c <> 0 ->
  meth = MCovariance \/ meth = MModified ->
  (let X := corrmtx x p meth in let X' := corrmtx (vscale c x) p meth in
   lstsq' p (mneg (cols1 X')) (col0 X') = lstsq p (mneg (cols1 X)) (col0 X)) ->
  ar_ls lstsq' tol (corrmtx (vscale c x) p meth) p = ae_scale (nrm2 c) (ar_ls lstsq tol (corrmtx x p meth) p).
Proof.
  intros Hc Hm Hsolve. pose proof (su_nrm2_neq0 c Hc) as Hs.
  assert (HRS : RowScaled (nrm2 c) (corrmtx x p meth) (corrmtx (vscale c x) p meth))
    by (destruct Hm as [-> | ->]; [apply corrmtx_covariance_rowscaled|apply corrmtx_modified_rowscaled]).
  apply (ar_ls_scale _ _ _ HRS Hs); [apply su_pos_nrm2; exact Hc|exact Hsolve].
Qed.
Theorem pcovar_rho_scale_thm c tol (x : list F) p : c <> 0 ->
  pcovar_rho tol (vscale c x) p = ae_scale (nrm2 c) (pcovar_rho tol x p).
Proof.
  intros Hc. unfold pcovar_rho. rewrite (arcovar_scale_thm c tol x p Hc), su_vscale_length.
  destruct (arcovar tol x p) as [[a e]|]; cbn; [|reflexivity]. rewrite su_div_scale. reflexivity.
Qed.
Theorem pmodcovar_rho_scale_thm c tol (x : list F) p : c <> 0 ->
  pmodcovar_rho tol (vscale c x) p = ae_scale (nrm2 c) (pmodcovar_rho tol x p).
Proof.
  intros Hc. unfold pmodcovar_rho. rewrite (modcovar_scale_thm c tol x p Hc), su_vscale_length.
  destruct (modcovar tol x p) as [[a e]|]; cbn; [|reflexivity]. rewrite su_div_scale. reflexivity.
Qed.
End ScaleLs.
