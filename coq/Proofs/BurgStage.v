(* One Burg stage on aligned error sequences: energy identity, the recursive denominator,
   optimality of the reflection coefficient.  Abstract *-field, axiom-free. *)
Require Import Spectrum.Theory.Ops Spectrum.Theory.Sum.
Section BurgStage.
Context {F : Type} {OF : Ops F} {L : Laws OF}.
Local Open Scope F_scope.
Add Field FFb : (fth (O:=OF)).
Local Notation "2" := (1 + 1) : F_scope.

(* One Burg stage on aligned error sequences.
   f j, b j (j < n) are the forward error ef[j+m+1] and the delayed backward error eb[j+m]
   that enter stage m (n = N - m - 1 terms).  *)
Variables (n:nat) (f b : nat -> F).
Definition stageD : F := sumf n (fun j => nrm2 (f j) + nrm2 (b j)).        (* the "den" of the stage *)
Definition stageC : F := sumf n (fun j => f j * conj (b j)).                 (* the "num" of the stage *)
Variable k : F.
Hypothesis k_def : k * stageD = - (2 * stageC).                                 (* kp = -2 num / den *)
Definition stage_f' j := f j + k * b j.                                     (* new ef[j+m+1] *)
Definition stage_b' j := b j + conj k * f j.                                  (* new eb[j+m+1] *)
Hypothesis D_real : conj stageD = stageD.

Lemma energy_pointwise j :
  nrm2 (stage_f' j) + nrm2 (stage_b' j) = (1 + k * conj k) * (nrm2 (f j) + nrm2 (b j)) + 2 * (k * conj (f j * conj (b j)) + conj k * (f j * conj (b j))).
Proof. unfold nrm2, stage_f', stage_b'. rewrite !conj_add, !conj_mul, !conj_conj. ring. Qed.

(* the energy identity behind  den <- (1 - |k|^2) * den  *)
Lemma conj_2 : conj 2 = 2. Proof. rewrite conj_add, conj_1. reflexivity. Qed.

Theorem burg_energy : sumf n (fun j => nrm2 (stage_f' j) + nrm2 (stage_b' j)) = (1 - k * conj k) * stageD.
Proof.
  rewrite (sumf_ext n _ _ (fun j _ => energy_pointwise j)).
  rewrite (sumf_add n (fun j => (1 + k * conj k) * (nrm2 (f j) + nrm2 (b j)))
                      (fun j => 2 * (k * conj (f j * conj (b j)) + conj k * (f j * conj (b j))))).
  rewrite (sumf_scale n (1 + k * conj k) (fun j => nrm2 (f j) + nrm2 (b j))). fold stageD.
  rewrite (sumf_scale n 2 (fun j => k * conj (f j * conj (b j)) + conj k * (f j * conj (b j)))).
  rewrite (sumf_add n (fun j => k * conj (f j * conj (b j))) (fun j => conj k * (f j * conj (b j)))).
  rewrite (sumf_scale n k (fun j => conj (f j * conj (b j)))), (sumf_scale n (conj k) (fun j => f j * conj (b j))).
  fold stageC. rewrite <- (sumf_conj n (fun j => f j * conj (b j))). fold stageC.
  assert (K2: conj k * stageD = - (2 * conj stageC)).
  { rewrite <- D_real at 1. rewrite <- conj_mul, k_def, conj_opp, conj_mul, conj_2. reflexivity. }
  transitivity ((1 + k * conj k) * stageD + (k * (2 * conj stageC) + conj k * (2 * stageC))); [ring|].
  replace (2 * conj stageC) with (- (conj k * stageD)) by (rewrite K2; ring).
  replace (2 * stageC) with (- (k * stageD)) by (rewrite k_def; ring).
  ring.
Qed.

(* the recursive denominator of the next stage: drop the two edge terms.
   next stage uses stage_f'' j = stage_f' (j+1) (j < n-1) and stage_b'' j = stage_b' j (j < n-1):
   D_next = sum_{j<n-1} nrm2 (stage_f' (j+1)) + nrm2 (stage_b' j) = (1-|k|^2) stageD - nrm2 (stage_f' 0) - nrm2 (stage_b' (n-1)) *)
Theorem burg_den_next : (1 <= n)%nat ->
  sumf (n - 1) (fun j => nrm2 (stage_f' (S j)) + nrm2 (stage_b' j)) = (1 - k * conj k) * stageD - nrm2 (stage_f' O) - nrm2 (stage_b' (n - 1)%nat).
Proof.
  intros Hn. rewrite <- burg_energy.
  destruct n as [|m]; [lia|]. replace (S m - 1)%nat with m by lia.
  rewrite (sumf_add (S m) (fun j => nrm2 (stage_f' j)) (fun j => nrm2 (stage_b' j))).
  rewrite (sumf_shift m (fun j => nrm2 (stage_f' j))), (sumf_S m (fun j => nrm2 (stage_b' j))).
  rewrite (sumf_add m (fun j => nrm2 (stage_f' (S j))) (fun j => nrm2 (stage_b' j))). ring.
Qed.

(* optimality of the reflection coefficient: stageE(k') - stageE(k) = stageD |k' - k|^2 *)
Definition stageE (q:F) : F := sumf n (fun j => nrm2 (f j + q * b j) + nrm2 (b j + conj q * f j)).
Theorem burg_k_optimal q : stageE q - stageE k = stageD * nrm2 (q - k).
Proof.
  assert (G: forall q0, stageE q0 = (1 + q0 * conj q0) * stageD + (q0 * (2 * conj stageC) + conj q0 * (2 * stageC))).
  { intros q0. unfold stageE.
    rewrite (sumf_ext n _ (fun j => (1 + q0 * conj q0) * (nrm2 (f j) + nrm2 (b j)) + 2 * (q0 * conj (f j * conj (b j)) + conj q0 * (f j * conj (b j))))).
    2:{ intros j _. unfold nrm2. rewrite !conj_add, !conj_mul, !conj_conj. ring. }
    rewrite (sumf_add n (fun j => (1 + q0 * conj q0) * (nrm2 (f j) + nrm2 (b j)))
                        (fun j => 2 * (q0 * conj (f j * conj (b j)) + conj q0 * (f j * conj (b j))))).
    rewrite (sumf_scale n (1 + q0 * conj q0) (fun j => nrm2 (f j) + nrm2 (b j))). fold stageD.
    rewrite (sumf_scale n 2 (fun j => q0 * conj (f j * conj (b j)) + conj q0 * (f j * conj (b j)))).
    rewrite (sumf_add n (fun j => q0 * conj (f j * conj (b j))) (fun j => conj q0 * (f j * conj (b j)))).
    rewrite (sumf_scale n q0 (fun j => conj (f j * conj (b j)))), (sumf_scale n (conj q0) (fun j => f j * conj (b j))).
    fold stageC. rewrite <- (sumf_conj n (fun j => f j * conj (b j))). fold stageC. ring. }
  rewrite !G.
  assert (K2: conj k * stageD = - (2 * conj stageC)).
  { rewrite <- D_real at 1. rewrite <- conj_mul, k_def, conj_opp, conj_mul, conj_2. reflexivity. }
  replace (2 * conj stageC) with (- (conj k * stageD)) by (rewrite K2; ring).
  replace (2 * stageC) with (- (k * stageD)) by (rewrite k_def; ring).
  unfold nrm2. replace (q - k) with (q + - k) by ring. rewrite conj_add, conj_opp. ring.
Qed.
End BurgStage.
