(* Stability of the Burg polynomial for ALL complex roots: instance of the abstract theorems at Coquelicot's
   complex numbers.  Depends on the standard-library axioms of the reals (through Instances/Cplx_C12.v);
   nothing else of C13 does. *)
From Coq Require Import Reals Lra QArith Qcanon Qreals.
From Coquelicot Require Import Complex.
Require Import Spectrum.Theory.Ops Spectrum.Theory.Sum Spectrum.Theory.Vec Spectrum.Theory.Order
               Spectrum.Model.Levinson Spectrum.Model.Burg
               Spectrum.Proofs.LevinsonTheory Spectrum.Proofs.YulePD Spectrum.Proofs.YuleExt Spectrum.Proofs.YuleComplex
               Spectrum.Proofs.BurgTheory Spectrum.Proofs.BurgStable Spectrum.Proofs.BurgStableExt
               Spectrum.Instances.QcC Spectrum.Instances.QcCOrd Spectrum.Instances.Cplx_C12.

(* the embedding of the Gaussian rationals respects the order ([qcc_ord] is opaque: go through its interface —
   a non-negative element is real, and the executed sign test [le0] of its opposite answers true) *)
Lemma qcc_to_c_nonneg (a : QcC) : nonneg (OrdLaws:=qcc_ord) a -> nonneg (OrdLaws:=c_ord) (qcc_to_c a).
Proof.
  intros Hn. pose proof (nn_real (OrdLaws:=qcc_ord) a Hn) as Hr.
  destruct a as [u v]. cbn in Hr. injection Hr as Hv.
  assert (Ev : v = 0%Qc).
  { assert (E2 : (v + v = 0)%Qc) by (rewrite <- Hv at 1; ring).
    destruct (Qc_eq_dec v 0) as [E|E]; [exact E|]. exfalso. apply E.
    transitivity ((v + v) / (1 + 1))%Qc; [field; discriminate|rewrite E2; field; discriminate]. }
  subst v.
  set (b := opp (Ops:=qcc_ops) (u, 0%Qc)).
  assert (Hbr : conj (Ops:=qcc_ops) b = b) by (unfold b; cbn; f_equal).
  assert (Hnn : nonneg (OrdLaws:=qcc_ord) (opp (Ops:=qcc_ops) b)).
  { unfold b. cbn. rewrite !Qcopp_involutive. exact Hn. }
  apply (le0_spec (OrdLaws:=qcc_ord) b Hbr) in Hnn. unfold b in Hnn.
  change (Qle_bool (this (- u)%Qc) (this 0%Qc) = true) in Hnn.
  apply Qle_bool_iff in Hnn. apply Qle_Rle in Hnn. rewrite Q2R_Qc_opp in Hnn.
  change (this 0%Qc) with 0%Q in Hnn. rewrite RMicromega.Q2R_0 in Hnn.
  split; cbn [qcc_to_c fst snd]; [apply Q2R_Qc_0|lra].
Qed.

(* data in the Gaussian rationals (the executed instance), any order-selection rule, roots anywhere in C *)
Theorem arburg_stable_complex_thm (x : list QcC) (p : nat) (stop : nat -> QcC -> QcC -> bool)
        (a : list QcC) (rho : QcC) (ks : list QcC) (z : C) :
  arburg (OF:=qcc_ops) x p stop = Some (a, rho, ks) ->
  sumf (OF:=c_ops) (S (length ks)) (fun j => Cmult (qcc_to_c (afun (OF:=qcc_ops) a j)) (fpow (OF:=c_ops) z (length ks - j))) = RtoC 0 ->
  (Cmod z < 1)%R.
Proof.
  intros Hrun Hz. apply c_lt_nrm2_1.
  exact (arburg_stable_ext_thm (L:=qcc_laws) (OL:=qcc_ord) (LK:=c_laws) (OLK:=c_ord) qcc_to_c qcc_to_c_hom qcc_to_c_nonneg
           x p stop a rho ks z Hrun Hz).
Qed.

(* data in C *)
Theorem arburg_stable_C_thm (x : list C) (p : nat) (stop : nat -> C -> C -> bool) (a : list C) (rho : C) (ks : list C) (z : C) :
  arburg (OF:=c_ops) x p stop = Some (a, rho, ks) ->
  sumf (OF:=c_ops) (S (length ks)) (fun j => Cmult (afun (OF:=c_ops) a j) (fpow (OF:=c_ops) z (length ks - j))) = RtoC 0 ->
  (Cmod z < 1)%R.
Proof.
  intros Hrun Hz. apply c_lt_nrm2_1.
  exact (arburg_stable_criteria_thm (L:=c_laws) (OL:=c_ord) x p stop a rho ks z Hrun Hz).
Qed.

(* any complex reflection coefficients of modulus < 1: the step-up (rc2poly) polynomial is stable *)
Theorem refl_lt1_stable_C_thm (ks : list C) (z : C) :
  (forall j, (j < length ks)%nat -> (Cmod (nthF (OF:=c_ops) ks j) < 1)%R) ->
  sumf (OF:=c_ops) (S (length ks)) (fun j => Cmult (afun (OF:=c_ops) (stepup_all (OF:=c_ops) ks) j) (fpow (OF:=c_ops) z (length ks - j))) = RtoC 0 ->
  (Cmod z < 1)%R.
Proof.
  intros Hk Hz. apply c_lt_nrm2_1.
  apply (refl_lt1_stable_thm (L:=c_laws) (OL:=c_ord) ks z); [|exact Hz].
  intros j Hj. specialize (Hk j Hj). destruct (nthF (OF:=c_ops) ks j) as [u v].
  unfold Cmod in Hk. cbn [fst snd] in Hk.
  assert (Hlt : (u * u + v * v < 1)%R).
  { destruct (Rlt_or_le (u * u + v * v) 1) as [Hl|Hge]; [exact Hl|]. exfalso.
    assert (E : (sqrt 1 <= sqrt (u ^ 2 + v ^ 2))%R) by (apply sqrt_le_1_alt; nra).
    rewrite sqrt_1 in E. lra. }
  unfold lt, pos, nrm2. split.
  - split; cbn; [ring|nra].
  - intros E. injection E as E1 _. cbn in E1. nra.
Qed.
