(* Structure theorems about the model of ma / arma_estimate / the class pipelines:
   lengths, domain of success, the index theorem "P = Q: the covariance method sees [r_1..r_lag]
   and its normal equations are the modified Yule-Walker ones over lags Q+1..lag", the residual
   filter, and psd = c * rho/sampling * |B|^2/|A|^2 of what the object stores. *)
Require Import Spectrum.Theory.Ops Spectrum.Theory.Sum Spectrum.Theory.Vec Spectrum.Theory.Dft
               Spectrum.Model.Levinson Spectrum.Model.Corr Spectrum.Model.ArmaEst
               Spectrum.Proofs.LevinsonTheory Spectrum.Proofs.CorrTheory.

Section ArmaT.
Context {F : Type} {OF : Ops F} {L : Laws OF}.
Local Open Scope F_scope.
Add Field FFae : (fth (O:=OF)).

(* ---------- Levinson with allow_singularity=True never raises; lengths ---------- *)
Lemma lev_iter_lengths (T : list F) allow P0 m A P ks :
  lev_iter T allow P0 m = Some (A, P, ks) -> length A = m /\ length ks = m.
Proof.
  revert A P ks. induction m; intros A P ks H.
  - cbn in H. injection H as <- _ <-. split; reflexivity.
  - cbn [lev_iter] in H. destruct (lev_iter T allow P0 m) as [[[A0 P1] ks0]|] eqn:E; [|discriminate].
    destruct (IHm _ _ _ eq_refl) as [HA Hk]. unfold lev_step in H.
    destruct (le0 _ && negb allow); [discriminate|]. injection H as <- _ <-.
    rewrite stepup_length, app_length. cbn. lia.
Qed.
Lemma lev_iter_allow_some (T : list F) P0 m : exists st, lev_iter T true P0 m = Some st.
Proof.
  induction m; [cbn; eauto|]. destruct IHm as [[[A P] ks] E]. cbn [lev_iter]. rewrite E.
  unfold lev_step. cbn [negb]. rewrite Bool.andb_false_r. eauto.
Qed.

Theorem aryule_spec_thm (x : list F) order nm a P k :
  aryule x order nm = Some (a, P, k) -> (order < length x)%nat /\ length a = order /\ length k = order.
Proof.
  unfold aryule, acorr. destruct (correlation _ x x order nm) as [r|] eqn:E; [|discriminate].
  destruct (correlation_def_thm _ _ _ _ _ _ E) as (Hlt & Hlen & _). rewrite Nat.max_id in Hlt.
  unfold levinson. rewrite Nat.leb_refl, Hlen. replace (S order - 1)%nat with order by lia.
  intros H. split; [exact Hlt|]. exact (lev_iter_lengths _ _ _ _ _ _ _ H).
Qed.
Theorem aryule_returns_thm (x : list F) order nm :
  (order < length x)%nat -> exists st, aryule x order nm = Some st.
Proof.
  intros H. unfold aryule, acorr, correlation. cbv zeta. rewrite Nat.max_id.
  destruct (Nat.ltb_spec order (length x)); [|lia]. unfold levinson. rewrite Nat.leb_refl. apply lev_iter_allow_some.
Qed.
Theorem aryule_raises_thm (x : list F) order nm : aryule x order nm = None <-> (length x <= order)%nat.
Proof.
  split.
  - intros H. destruct (Nat.le_gt_cases (length x) order) as [Hl|Hl]; [exact Hl|].
    destruct (aryule_returns_thm x order nm Hl) as [st E]. congruence.
  - intros H. unfold aryule, acorr. destruct (correlation _ x x order nm) eqn:E; [|reflexivity].
    destruct (correlation_def_thm _ _ _ _ _ _ E) as (Hlt & _). rewrite Nat.max_id in Hlt. lia.
Qed.

(* ---------- ma ---------- *)
Theorem ma_lengths_thm (x : list F) Q M b rho :
  ma x Q M = inr (b, rho) -> length b = Q /\ (0 < Q < M)%nat /\ (M < length x)%nat.
Proof.
  unfold ma. destruct (Nat.eqb_spec Q 0) as [HQ0|HQ0]; cbn [orb]; [discriminate|].
  destruct (Nat.leb_spec M Q) as [HMQ|HMQ]; [discriminate|].
  destruct (aryule x M Biased) as [[[a r0] k0]|] eqn:E1; [|discriminate].
  destruct (aryule (1 :: a) Q Biased) as [[[b' p'] k']|] eqn:E2; [|discriminate].
  intros H. injection H as <- _.
  destruct (aryule_spec_thm _ _ _ _ _ _ E1) as (HM & _). destruct (aryule_spec_thm _ _ _ _ _ _ E2) as (_ & Hb & _).
  repeat split; try assumption; lia.
Qed.
Theorem ma_returns_thm (x : list F) Q M : (0 < Q < M)%nat -> (M < length x)%nat -> exists b rho, ma x Q M = inr (b, rho).
Proof.
  intros HQ HM. unfold ma. destruct (Nat.eqb_spec Q 0); [lia|]. cbn [orb]. destruct (Nat.leb_spec M Q); [lia|].
  destruct (aryule_returns_thm x M Biased HM) as [[[a r0] k0] E1]. rewrite E1.
  destruct (aryule_spec_thm _ _ _ _ _ _ E1) as (_ & Ha & _).
  destruct (aryule_returns_thm (1 :: a) Q Biased) as [[[b p'] k'] E2]. { cbn [length]. lia. }
  rewrite E2. eauto.
Qed.
Theorem ma_errors_thm (x : list F) Q M :
  (ma x Q M = inl EValue <-> (Q = 0 \/ M <= Q)%nat) /\
  (ma x Q M = inl EAssert <-> (0 < Q < M /\ length x <= M)%nat) /\
  ma x Q M <> inl EIndex.
Proof.
  unfold ma. destruct (Nat.eqb_spec Q 0) as [HQ|HQ]; cbn [orb].
  { repeat split; intros; try discriminate; try lia; auto. }
  destruct (Nat.leb_spec M Q) as [HM|HM].
  { repeat split; intros; try discriminate; try lia; auto. }
  destruct (aryule x M Biased) as [[[a r0] k0]|] eqn:E1.
  - destruct (aryule_spec_thm _ _ _ _ _ _ E1) as (HN & Ha & _).
    destruct (aryule_returns_thm (1 :: a) Q Biased) as [[[b p'] k'] E2]. { cbn [length]. lia. }
    rewrite E2. repeat split; intros; try discriminate; lia.
  - apply aryule_raises_thm in E1. repeat split; intros; try discriminate; try lia; auto.
Qed.

(* ---------- arma_estimate: lengths ---------- *)
Section Oracles.
Variables lsm lsq : list F -> nat -> list F.
Hypothesis lsm_length : forall y p, length (lsm y p) = length y.      (* arcovar_marple: an array as long as its input *)
Hypothesis lsq_length : forall y p, length (lsq y p) = p.             (* arcovar: scipy lstsq on a matrix with p columns *)

Lemma arma_y_length (r : list F) P Q lag : length (arma_y r P Q lag) = lag.
Proof. apply mk_length. Qed.

Lemma arma_ar_length N (y : list F) P lag a : length y = lag -> arma_ar lsm lsq N y P lag = inr a -> length a = P.
Proof.
  intros Hy. unfold arma_ar. destruct (Nat.leb_spec P 4) as [HP4|HP4].
  - destruct (Nat.ltb_spec lag P) as [HlP|HlP]; [discriminate|]. destruct (Nat.eqb_spec lag 0) as [Hl0|Hl0]; [discriminate|].
    intros H. injection H as <-. rewrite firstn_length, lsm_length, Hy. lia.
  - destruct ((lag <=? P)%nat && (P <? N)%nat); [discriminate|]. intros H. injection H as <-. apply lsq_length.
Qed.

Theorem arma_lengths_thm (x : list F) P Q lag a b rho :
  arma_estimate lsm lsq x P Q lag = inr (a, b, rho) -> length a = P /\ length b = Q.
Proof.
  unfold arma_estimate. destruct (acorr x lag Unbiased) as [r|]; [|discriminate].
  destruct (length x <? P)%nat; [discriminate|]. destruct (_ && _); [discriminate|].
  destruct (arma_ar lsm lsq (length x) (arma_y r P Q lag) P lag) as [e|a'] eqn:Ea; [discriminate|].
  destruct (ma (arma_resid x a' P) Q (2 * Q)) as [e|[b' rho']] eqn:Em; [discriminate|].
  intros H. injection H as <- <- _. split.
  - exact (arma_ar_length _ _ _ _ _ (arma_y_length _ _ _ _) Ea).
  - exact (proj1 (ma_lengths_thm _ _ _ _ _ Em)).
Qed.

(* the steps, read off a successful run *)
Theorem arma_steps_thm (x : list F) P Q lag a b rho :
  arma_estimate lsm lsq x P Q lag = inr (a, b, rho) ->
  exists r, acorr x lag Unbiased = Some r
    /\ arma_ar lsm lsq (length x) (arma_y r P Q lag) P lag = inr a
    /\ ma (arma_resid x a P) Q (2 * Q) = inr (b, rho).
Proof.
  unfold arma_estimate. destruct (acorr x lag Unbiased) as [r|]; [|discriminate].
  destruct (length x <? P)%nat; [discriminate|]. destruct (_ && _); [discriminate|].
  destruct (arma_ar lsm lsq (length x) (arma_y r P Q lag) P lag) as [e|a'] eqn:Ea; [discriminate|].
  destruct (ma (arma_resid x a' P) Q (2 * Q)) as [e|[b' rho']] eqn:Em; [discriminate|].
  intros H. injection H as <- <- <-. exists r. repeat split; assumption.
Qed.

(* where the model returns (the converse is arma_domain_thm below) *)
Theorem arma_returns_gen_thm (x : list F) P Q lag :
  (lag < length x)%nat -> (0 < Q)%nat -> (2 * Q + P < length x)%nat ->
  (lag + P <= Q \/ (P <= lag + Q + 1 /\ lag + 2 * P <= length x + Q))%nat ->
  (0 < lag)%nat -> (P <= lag)%nat -> (4 < P -> P < lag)%nat ->
  exists a b rho, arma_estimate lsm lsq x P Q lag = inr (a, b, rho).
Proof.
  intros Hlag HQ HQ2 Hidx Hl0 HP HP4. unfold arma_estimate.
  destruct (acorr x lag Unbiased) as [r|] eqn:Er.
  2:{ unfold acorr in Er. apply correlation_raises_thm in Er. rewrite Nat.max_id in Er. lia. }
  destruct (Nat.ltb_spec (length x) P); [lia|].
  replace ((0 <? lag + P - Q)%nat && ((lag + Q + 1 <? P)%nat || (length x - P <? lag + P - Q)%nat)) with false.
  2:{ symmetry. destruct (Nat.ltb_spec 0 (lag + P - Q)); [|reflexivity]. cbn [andb]. apply Bool.orb_false_iff.
      split; [destruct (Nat.ltb_spec (lag + Q + 1) P)|destruct (Nat.ltb_spec (length x - P) (lag + P - Q))]; try reflexivity; lia. }
  assert (Ha : exists a, arma_ar lsm lsq (length x) (arma_y r P Q lag) P lag = inr a).
  { unfold arma_ar. destruct (Nat.leb_spec P 4).
    - destruct (Nat.ltb_spec lag P); [lia|]. destruct (Nat.eqb_spec lag 0); [lia|]. eauto.
    - destruct (Nat.leb_spec lag P); [lia|]. cbn [andb]. eauto. }
  destruct Ha as [a Ea]. rewrite Ea.
  destruct (ma_returns_thm (arma_resid x a P) Q (2 * Q)) as (b & rho & Em); [lia| |].
  { unfold arma_resid. rewrite mk_length. lia. }
  rewrite Em. eauto.
Qed.
(* in particular on the stated domain, provided lag < N and there are at least P (more than P when P > 4) lags *)
Theorem arma_returns_thm (x : list F) P Q lag :
  (0 < Q <= lag)%nat -> (lag + 2 * P <= length x + Q)%nat -> (2 * Q + P < length x)%nat -> (lag < length x)%nat ->
  (P <= lag)%nat -> (4 < P -> P < lag)%nat ->
  exists a b rho, arma_estimate lsm lsq x P Q lag = inr (a, b, rho).
Proof. intros. apply arma_returns_gen_thm; lia. Qed.

(* ... and only there: the exact set of arguments on which the code (as modelled) returns *)
Theorem arma_domain_thm (x : list F) P Q lag a b rho :
  arma_estimate lsm lsq x P Q lag = inr (a, b, rho) ->
  (lag < length x)%nat /\ (0 < Q)%nat /\ (2 * Q + P < length x)%nat
  /\ (lag + P <= Q \/ (P <= lag + Q + 1 /\ lag + 2 * P <= length x + Q))%nat
  /\ (0 < lag)%nat /\ (P <= lag)%nat /\ (4 < P -> P < lag)%nat.
Proof.
  intros H. destruct (arma_steps_thm _ _ _ _ _ _ _ H) as (r & Er & Ea & Em).
  unfold acorr in Er. destruct (correlation_def_thm _ _ _ _ _ _ Er) as (Hlag & _). rewrite Nat.max_id in Hlag.
  destruct (ma_lengths_thm _ _ _ _ _ Em) as (_ & HQ & HM). unfold arma_resid in HM. rewrite mk_length in HM.
  unfold arma_estimate in H. fold (acorr x lag Unbiased) in Er. rewrite Er in H.
  destruct (Nat.ltb_spec (length x) P) as [HNP|HNP]; [discriminate|].
  assert (Hidx : (lag + P <= Q \/ (P <= lag + Q + 1 /\ lag + 2 * P <= length x + Q))%nat).
  { destruct (Nat.ltb_spec 0 (lag + P - Q)) as [H0|H0]; [|lia]. cbn [andb] in H.
    destruct (Nat.ltb_spec (lag + Q + 1) P) as [H1|H1]; [discriminate|].
    destruct (Nat.ltb_spec (length x - P) (lag + P - Q)) as [H2|H2]; [discriminate|]. lia. }
  assert (Hls : (0 < lag /\ P <= lag /\ (4 < P -> P < lag))%nat).
  { unfold arma_ar in Ea. destruct (Nat.leb_spec P 4) as [H4|H4].
    - destruct (Nat.ltb_spec lag P) as [H5|H5]; [discriminate|]. destruct (Nat.eqb_spec lag 0) as [H6|H6]; [discriminate|]. lia.
    - destruct (Nat.leb_spec lag P) as [H5|H5]; [|lia]. destruct (Nat.ltb_spec P (length x)) as [H6|H6]; [discriminate|]. lia. }
  repeat split; try lia; try exact Hidx.
Qed.

Theorem arma_returns_iff_thm (x : list F) P Q lag :
  (exists a b rho, arma_estimate lsm lsq x P Q lag = inr (a, b, rho)) <->
  ((lag < length x)%nat /\ (0 < Q)%nat /\ (2 * Q + P < length x)%nat
   /\ (lag + P <= Q \/ (P <= lag + Q + 1 /\ lag + 2 * P <= length x + Q))%nat
   /\ (0 < lag)%nat /\ (P <= lag)%nat /\ (4 < P -> P < lag)%nat).
Proof.
  split.
  - intros (a & b & rho & H). exact (arma_domain_thm _ _ _ _ _ _ _ H).
  - intros (H1 & H2 & H3 & H4 & H5 & H6 & H7). apply arma_returns_gen_thm; assumption.
Qed.

(* ---------- the index theorem for P = Q ---------- *)
Definition myw_err (r a : list F) (P : nat) (n : Z) : F :=
  rz r n + sumf P (fun j => rz r (n - Z.of_nat (S j)) * nthF a j).
(* normal equations A^H (A a + b) = 0 of the modified Yule-Walker system
   r(n) + sum_{j=1..P} a_j r(n-j) = 0, n = Q+1 .. lag  (r extended by r(-d) = conj r(d)) *)
Definition myw_normal (r a : list F) (P Q lag : nat) : Prop :=
  forall i, (i < P)%nat ->
    sumf (lag - Q) (fun t => conj (rz r (Z.of_nat (Q + 1 + t) - Z.of_nat (S i))) * myw_err r a P (Z.of_nat (Q + 1 + t))) = 0.

Lemma arma_y_PQ (r : list F) P lag : arma_y r P P lag = mk lag (fun k => nthF r (S k)).
Proof.
  unfold arma_y. apply mk_ext. intros k Hk. destruct (Nat.ltb_spec k (lag + P - P)); [|lia].
  unfold arma_yval. destruct (Nat.ltb_spec (k + P + 1) P); [lia|]. f_equal. lia.
Qed.

Lemma rz_nonneg (r : list F) (n : nat) : rz r (Z.of_nat n) = nthF r n.
Proof. unfold rz. destruct (Z.leb_spec 0 (Z.of_nat n)); [|lia]. rewrite Nat2Z.id. reflexivity. Qed.

Lemma cov_normal_firstn (y a : list F) p : cov_normal y a p -> cov_normal y (firstn p a) p.
Proof.
  intros H i Hi. rewrite <- (H i Hi). unfold cov_normal_lhs. f_equal. apply mk_ext. intros t Ht.
  f_equal. unfold cov_err. f_equal. f_equal. apply mk_ext. intros j Hj. rewrite nthF_firstn by exact Hj. reflexivity.
Qed.

Lemma cov_normal_is_myw (r a : list F) P lag : (P <= lag)%nat ->
  cov_normal (mk lag (fun k => nthF r (S k))) a P -> myw_normal r a P P lag.
Proof.
  intros HP H i Hi. rewrite <- (H i Hi). unfold cov_normal_lhs. rewrite sumL_mk, mk_length.
  apply sumf_ext. intros t Ht.
  replace (Z.of_nat (P + 1 + t) - Z.of_nat (S i))%Z with (Z.of_nat (P + t - i)) by lia. rewrite rz_nonneg.
  rewrite nth_mk by lia. replace (S (P + t - 1 - i)) with (P + t - i)%nat by lia. f_equal.
  unfold myw_err, cov_err. rewrite rz_nonneg, sumL_mk, nth_mk by lia.
  replace (S (P + t)) with (P + 1 + t)%nat by lia. f_equal.
  apply sumf_ext. intros j Hj.
  replace (Z.of_nat (P + 1 + t) - Z.of_nat (S j))%Z with (Z.of_nat (P + t - j)) by lia. rewrite rz_nonneg.
  rewrite nth_mk by lia. replace (S (P + t - 1 - j)) with (P + t - j)%nat by lia. reflexivity.
Qed.

(* the oracles are only asked to solve the normal equations of the system they are handed *)
Theorem arma_ar_is_myw_ls_thm (x : list F) P lag a b rho :
  arma_estimate lsm lsq x P P lag = inr (a, b, rho) ->
  (forall r, acorr x lag Unbiased = Some r ->
     cov_normal (arma_y r P P lag) (lsm (arma_y r P P lag) P) P /\ cov_normal (arma_y r P P lag) (lsq (arma_y r P P lag) P) P) ->
  exists r, acorr x lag Unbiased = Some r
    /\ arma_y r P P lag = mk lag (fun k => nthF r (S k))        (* the covariance method is handed [r_1..r_lag] *)
    /\ cov_normal (arma_y r P P lag) a P                        (* and a solves its normal equations *)
    /\ myw_normal r a P P lag.                                  (* which are the modified Yule-Walker ones, lags P+1..lag *)
Proof.
  intros H Hn. destruct (arma_steps_thm _ _ _ _ _ _ _ H) as (r & Er & Ea & Em). exists r.
  destruct (Hn r Er) as [lsm_normal lsq_normal].
  split; [exact Er|]. split; [apply arma_y_PQ|].
  assert (Hc : cov_normal (arma_y r P P lag) a P /\ (P <= lag)%nat).
  { unfold arma_ar in Ea. destruct (Nat.leb_spec P 4).
    - destruct (Nat.ltb_spec lag P); [discriminate|]. destruct (Nat.eqb_spec lag 0); [discriminate|].
      injection Ea as <-. split; [apply cov_normal_firstn, lsm_normal|assumption].
    - destruct (Nat.leb_spec lag P); cbn [andb] in Ea.
      + destruct (Nat.ltb_spec P (length x)); [discriminate|].
        (* N <= P: the residual is empty and ma cannot have returned *)
        exfalso. destruct (ma_lengths_thm _ _ _ _ _ Em) as (_ & _ & Hm).
        unfold arma_resid in Hm. rewrite mk_length in Hm. lia.
      + injection Ea as <-. split; [apply lsq_normal|lia]. }
  destruct Hc as [Hc HP]. split; [exact Hc|]. apply cov_normal_is_myw; [exact HP|]. rewrite <- (arma_y_PQ r P lag). exact Hc.
Qed.
End Oracles.

(* the executable oracles of the correspondence run have the lengths the theorems ask for *)
Lemma elim_length fuel (rows : list (list F)) : length (elim fuel rows) = Nat.min fuel (length rows).
Proof.
  revert rows. induction fuel; intros rows; [reflexivity|]. destruct rows as [|piv rest]; [reflexivity|].
  cbn [elim length]. rewrite IHfuel, map_length. reflexivity.
Qed.
Lemma backsub_length (rows : list (list F)) : length (backsub rows) = length rows.
Proof. induction rows as [|piv rest IH]; [reflexivity|]. cbn [backsub length]. rewrite IH. reflexivity. Qed.
Lemma ls_exact_length (y : list F) p : length (ls_exact y p) = p.
Proof. unfold ls_exact. rewrite backsub_length, elim_length, map_length, seq_length. lia. Qed.
Lemma lsm_exact_length (y : list F) p : length (lsm_exact y p) = length y.
Proof. apply mk_length. Qed.

(* ---------- the residual filter ---------- *)
Theorem arma_residual_filter_thm (x a : list F) P :
  length (arma_resid x a P) = (length x - P)%nat /\
  forall t, (t < length x - P)%nat ->
    nthF (arma_resid x a P) t = sumf (S P) (fun j => afun a j * nthF x (t + P - j)).   (* (x * [1,a])[t+P] *)
Proof.
  unfold arma_resid. split; [apply mk_length|]. intros t Ht. rewrite nth_mk by exact Ht.
  rewrite sumf_shift, sumL_mk. cbn [afun]. rewrite Nat.sub_0_r.
  transitivity (1 * nthF x (t + P) + sumf P (fun j => nthF a j * nthF x (t + P - j - 1))); [ring|].
  f_equal. apply sumf_ext. intros j Hj. f_equal. f_equal. lia.
Qed.

Theorem arma_residual_handed_thm (lsm lsq : list F -> nat -> list F) (x : list F) P Q lag a b rho :
  arma_estimate lsm lsq x P Q lag = inr (a, b, rho) ->
  ma (arma_resid x a P) Q (2 * Q) = inr (b, rho)
  /\ length (arma_resid x a P) = (length x - P)%nat
  /\ forall t, (t < length x - P)%nat ->
       nthF (arma_resid x a P) t = sumf (S P) (fun j => afun a j * nthF x (t + P - j)).
Proof.
  intros H. destruct (arma_steps_thm _ _ _ _ _ _ _ _ _ H) as (r & _ & _ & Em).
  split; [exact Em|]. apply arma_residual_filter_thm.
Qed.
End ArmaT.
