(* C04 — MUSIC / EV (eigenfre.eigen, pmusic, pev) under modulation and conjugation of the data, over the SVD specification.

   phi a = exp(+2 pi i m a / NFFT) (a unimodular character; [sphase tw m] in the applications), x'_n = x_n phi(n):
   * forward row r of the data matrix:        FB'[r, k]      = phi(r + P - 1) * FB[r, k]      * phi(-k)
     conjugated backward row r:               FB'[NP + r, k] = phi(-(r + 1))  * FB[NP + r, k] * phi(-k)
     i.e. FB' = D_rows FB D_cols with diagonal unitary D_rows, D_cols = diag(conj phi(k))           [fb_matrix_mod_thm]
   * hence FB'^H FB' = D_cols^H (FB^H FB) D_cols: if (S, Vh) meets the specification of numpy.linalg.svd for FB(x) then
     (S, Vh') meets it for FB(x'), Vh'[I, k] = Vh[I, k] conj(phi k) (right singular vector v'_I[k] = phi(k) v_I[k])         [svd_spec_mod_thm]
   * conjugated data: FB(conj x) = conj FB(x) entrywise (forward and backward halves separately), (S, conj Vh) meets the
     specification                                                                                [fb_matrix_conj_thm, svd_spec_conj_thm]
   * the code path from (S, Vh) to the output is equivariant WITHOUT any hypothesis on (S, Vh): abs(fft(-Vh'[I, :], NFFT))**2 is
     roll(abs(fft(-Vh[I, :]))**2, -m) (resp. the mirrored vector), every accumulation step and 1./PSD are pointwise in the bin, the
     weights max(S[I], eps S[0]) and every decision on NSIG read S and the arguments only; the re-ordering of eigen()
     (PSD[nby2::-1] ++ PSD[NFFT-1:nby2:-1]) is "mirror, then roll by NFFT//2", centerdc_2_twosided is roll by -(NFFT//2):
       eigen():        roll(psd, m)                     resp.  roll(mirror(psd), 2*(NFFT//2))    (centred layout)
       pmusic / pev:   roll(psd, m)                     resp.  mirror(psd)                       (complex data, two-sided layout)
     same singular values returned, same exception raised.                                          [eigen_shift_thm ... pclass_mirror_thm]
   Abstract (ordered) *-field, every N, P, NFFT >= 1, NSIG rule, method, shift m. *)
Require Import Spectrum.Theory.Ops Spectrum.Theory.Sum Spectrum.Theory.Vec Spectrum.Theory.Dft Spectrum.Theory.Order
               Spectrum.Model.Eigen Spectrum.Proofs.EigenFB Spectrum.Proofs.EigenAxis Spectrum.Proofs.EigenTheory
               Spectrum.Proofs.ShiftTheory Spectrum.Proofs.ShiftDft_C04.

(* ====================== the data matrix ====================== *)
Section ShiftFB.
Context {F : Type} {OF : Ops F} {L : Laws OF}.
Local Open Scope F_scope.
Add Field FFsfb : (fth (O:=OF)).

Lemma fb_mat_out (x : list F) P r k : (2 * np_of (length x) P <= r \/ P <= k)%nat -> mat (fb_matrix x P) r k = 0.
Proof.
  intros H. unfold mat. destruct (Nat.lt_ge_cases r (2 * np_of (length x) P)) as [Hr|Hr].
  - apply nthF_overflow. rewrite fb_cols by exact Hr. lia.
  - unfold mrow. rewrite nth_overflow by (rewrite fb_rows; exact Hr). destruct k; reflexivity.
Qed.

Section Mod.
Variable phi : Z -> F.
Hypothesis phi_add : forall a b : Z, phi (a + b)%Z = phi a * phi b.
Hypothesis phi_0 : phi 0%Z = 1.
Hypothesis phi_cj : forall a : Z, conj (phi a) = phi (- a)%Z.

(* the conjugate character *)
Definition cphi (a : Z) : F := phi (- a)%Z.
Lemma cphi_add a b : cphi (a + b)%Z = cphi a * cphi b.
Proof. unfold cphi. rewrite <- phi_add. f_equal. lia. Qed.
Lemma cphi_0 : cphi 0%Z = 1. Proof. exact phi_0. Qed.
Lemma cphi_cj a : conj (cphi a) = cphi (- a)%Z.
Proof. unfold cphi. apply phi_cj. Qed.
Lemma phi_nrm2 a : nrm2 (phi a) = 1.
Proof. apply (phi_unit phi phi_add phi_0 phi_cj). Qed.

(* the row factors: phi(r + P - 1) on the forward half, phi(-(r' + 1)) on the conjugated backward half *)
Definition fb_rowphase (x : list F) (P r : nat) : F :=
  if (r <? np_of (length x) P)%nat then phi (Z.of_nat r + Z.of_nat P - 1)%Z
  else phi (- (Z.of_nat (r - np_of (length x) P) + 1))%Z.
Lemma fb_rowphase_nrm2 (x : list F) P r : nrm2 (fb_rowphase x P r) = 1.
Proof. unfold fb_rowphase. destruct (r <? _)%nat; apply phi_nrm2. Qed.

Theorem fb_matrix_mod_thm (x : list F) P r k :
  mat (fb_matrix (vmod phi 0 x) P) r k = fb_rowphase x P r * mat (fb_matrix x P) r k * cphi (Z.of_nat k).
Proof.
  pose proof (vmod_length phi 0 x) as El.
  destruct (Nat.lt_ge_cases k P) as [Hk|Hk].
  2:{ rewrite !fb_mat_out by (right; exact Hk). ring. }
  unfold fb_rowphase. destruct (Nat.ltb_spec r (np_of (length x) P)) as [Hr|Hr].
  - assert (Hr' : (r < np_of (length (vmod phi 0 x)) P)%nat) by (rewrite El; exact Hr).
    destruct (fb_entry_fwd (vmod phi 0 x) P r k Hr' Hk) as [-> _]. destruct (fb_entry_fwd x P r k Hr Hk) as [-> _].
    rewrite nthF_vmod. unfold cphi.
    replace (Z.of_nat (r + P - 1 - k) + 0)%Z with ((Z.of_nat r + Z.of_nat P - 1) + - Z.of_nat k)%Z by lia.
    rewrite phi_add. ring.
  - destruct (Nat.lt_ge_cases r (2 * np_of (length x) P)) as [Hr2|Hr2].
    2:{ rewrite !fb_mat_out by (left; rewrite ?El; exact Hr2). ring. }
    remember (r - np_of (length x) P)%nat as r' eqn:Er'.
    replace r with (np_of (length x) P + r')%nat by lia.
    assert (Hr' : (r' < np_of (length (vmod phi 0 x)) P)%nat) by (rewrite El; lia).
    rewrite <- El at 1.
    destruct (fb_entry_bwd (vmod phi 0 x) P r' k Hr' Hk) as [-> _]. destruct (fb_entry_bwd x P r' k ltac:(lia) Hk) as [-> _].
    rewrite nthF_vmod, conj_mul, phi_cj. unfold cphi.
    replace (- (Z.of_nat (r' + k + 1) + 0))%Z with (- (Z.of_nat r' + 1) + - Z.of_nat k)%Z by lia.
    rewrite phi_add. ring.
Qed.
End Mod.

(* conjugated data: the data matrix is conjugated entry by entry *)
Theorem fb_matrix_conj_thm (x : list F) P r k : mat (fb_matrix (vconj x) P) r k = conj (mat (fb_matrix x P) r k).
Proof.
  assert (El : length (vconj x) = length x) by apply map_length.
  destruct (Nat.lt_ge_cases k P) as [Hk|Hk].
  2:{ rewrite !fb_mat_out by (right; exact Hk). symmetry. apply conj_0. }
  destruct (Nat.lt_ge_cases r (np_of (length x) P)) as [Hr|Hr].
  - assert (Hr' : (r < np_of (length (vconj x)) P)%nat) by (rewrite El; exact Hr).
    destruct (fb_entry_fwd (vconj x) P r k Hr' Hk) as [-> _]. destruct (fb_entry_fwd x P r k Hr Hk) as [-> _].
    apply nthF_vconj.
  - destruct (Nat.lt_ge_cases r (2 * np_of (length x) P)) as [Hr2|Hr2].
    2:{ rewrite !fb_mat_out by (left; rewrite ?El; exact Hr2). symmetry. apply conj_0. }
    remember (r - np_of (length x) P)%nat as r' eqn:Er'.
    replace r with (np_of (length x) P + r')%nat by lia.
    assert (Hr' : (r' < np_of (length (vconj x)) P)%nat) by (rewrite El; lia).
    rewrite <- El at 1.
    destruct (fb_entry_bwd (vconj x) P r' k Hr' Hk) as [-> _]. destruct (fb_entry_bwd x P r' k ltac:(lia) Hk) as [-> _].
    rewrite nthF_vconj. reflexivity.
Qed.
End ShiftFB.

(* ====================== the SVD specification ====================== *)
Section ShiftSvd.
Context {F : Type} {OF : Ops F} {L : Laws OF} {OL : OrdLaws OF}.
Local Open Scope F_scope.
Add Field FFssv : (fth (O:=OF)).

Lemma mrow_map (f : list F -> list F) (Vh : list (list F)) I : f [] = [] -> mrow (map f Vh) I = f (mrow Vh I).
Proof. intros Hf. unfold mrow. rewrite <- Hf at 1. apply map_nth. Qed.

(* FB' = D_rows FB D_cols^H with unitary diagonal factors, v'_I = D_cols v_I: the same singular values *)
Theorem svd_spec_unitary_equiv (FB FB' : list (list F)) (d c : nat -> F) rows P S Vh Vh' :
  (forall r, nrm2 (d r) = 1) -> (forall k, nrm2 (c k) = 1) ->
  (forall r k, mat FB' r k = d r * mat FB r k * conj (c k)) ->
  (forall I k, rsv Vh' I k = c k * rsv Vh I k) ->
  (forall I, (I < P)%nat -> length (mrow Vh' I) = length (mrow Vh I)) ->
  svd_spec FB rows P S Vh -> svd_spec FB' rows P S Vh'.
Proof.
  intros Hd Hc HFB Hv Hlen [H1 H2 H3 H4 H5 H6 H7].
  assert (Ec : forall k, c k * conj (c k) = 1) by (intros k; exact (Hc k)).
  assert (Ed : forall r, d r * conj (d r) = 1) by (intros r; exact (Hd r)).
  constructor.
  - exact H1.
  - intros I HI. rewrite Hlen by exact HI. apply H2. exact HI.
  - exact H3.
  - exact H4.
  - intros I J HI HJ. rewrite <- (H5 I J HI HJ). apply sumf_ext; intros m _. rewrite !Hv, conj_mul.
    transitivity ((c m * conj (c m)) * (conj (rsv Vh I m) * rsv Vh J m)); [ring|]. rewrite Ec. ring.
  - intros m m' Hm Hm'.
    transitivity (c m * conj (c m') * sumf P (fun I => rsv Vh I m * conj (rsv Vh I m'))).
    + rewrite <- sumf_scale. apply sumf_ext; intros I _. rewrite !Hv, conj_mul. ring.
    + rewrite (H6 m m' Hm Hm'). destruct (Nat.eqb_spec m m') as [<-|Hne]; [rewrite Ec|]; ring.
  - intros I HI k Hk. rewrite (Hv I k).
    assert (Emv : forall r, mv FB' P (rsv Vh' I) r = d r * mv FB P (rsv Vh I) r).
    { intros r. unfold mv. rewrite <- sumf_scale. apply sumf_ext; intros k0 _. rewrite HFB, Hv.
      transitivity (d r * (mat FB r k0 * rsv Vh I k0) * (c k0 * conj (c k0))); [ring|]. rewrite Ec. ring. }
    transitivity (c k * sumf rows (fun r => conj (mat FB r k) * mv FB P (rsv Vh I) r)).
    + rewrite <- sumf_scale. apply sumf_ext; intros r _. rewrite Emv, HFB, !conj_mul, conj_conj.
      transitivity ((d r * conj (d r)) * (c k * (conj (mat FB r k) * mv FB P (rsv Vh I) r))); [ring|]. rewrite Ed. ring.
    + rewrite (H7 I HI k Hk). ring.
Qed.

(* FB' = conj FB, v'_I = conj v_I *)
Theorem svd_spec_conj_equiv (FB FB' : list (list F)) rows P S Vh Vh' :
  (forall r k, mat FB' r k = conj (mat FB r k)) ->
  (forall I k, rsv Vh' I k = conj (rsv Vh I k)) ->
  (forall I, (I < P)%nat -> length (mrow Vh' I) = length (mrow Vh I)) ->
  svd_spec FB rows P S Vh -> svd_spec FB' rows P S Vh'.
Proof.
  intros HFB Hv Hlen [H1 H2 H3 H4 H5 H6 H7].
  assert (Hdelta : forall a b : nat, conj (if (a =? b)%nat then (1 : F) else 0) = if (a =? b)%nat then 1 else 0).
  { intros a b. destruct (a =? b)%nat; [apply conj_1|apply conj_0]. }
  constructor.
  - exact H1.
  - intros I HI. rewrite Hlen by exact HI. apply H2. exact HI.
  - exact H3.
  - exact H4.
  - intros I J HI HJ. rewrite <- Hdelta, <- (H5 I J HI HJ), sumf_conj. apply sumf_ext; intros m _.
    rewrite !Hv, conj_mul. reflexivity.
  - intros m m' Hm Hm'. rewrite <- Hdelta, <- (H6 m m' Hm Hm'), sumf_conj. apply sumf_ext; intros I _.
    rewrite !Hv, conj_mul. reflexivity.
  - intros I HI k Hk. rewrite (Hv I k).
    assert (Emv : forall r, mv FB' P (rsv Vh' I) r = conj (mv FB P (rsv Vh I) r)).
    { intros r. unfold mv. rewrite sumf_conj. apply sumf_ext; intros k0 _. rewrite HFB, Hv, conj_mul. reflexivity. }
    assert (Hs : conj (nthF S I) = nthF S I) by (apply nn_real, H3; exact HI).
    transitivity (conj (sumf rows (fun r => conj (mat FB r k) * mv FB P (rsv Vh I) r))).
    + rewrite sumf_conj. apply sumf_ext; intros r _. rewrite Emv, HFB, conj_mul. reflexivity.
    + rewrite (H7 I HI k Hk), !conj_mul, Hs. reflexivity.
Qed.

Lemma vmod_nil (psi : Z -> F) off : vmod psi off [] = []. Proof. reflexivity. Qed.

Section Mod.
Variable phi : Z -> F.
Hypothesis phi_add : forall a b : Z, phi (a + b)%Z = phi a * phi b.
Hypothesis phi_0 : phi 0%Z = 1.
Hypothesis phi_cj : forall a : Z, conj (phi a) = phi (- a)%Z.

(* the rows of numpy's V^H multiplied entrywise by conj phi(k) *)
Definition vh_mod (Vh : list (list F)) : list (list F) := map (vmod (cphi phi) 0) Vh.
Lemma mat_vh_mod Vh I k : mat (vh_mod Vh) I k = mat Vh I k * cphi phi (Z.of_nat k).
Proof. unfold mat, vh_mod. rewrite mrow_map by reflexivity. rewrite nthF_vmod, Z.add_0_r. reflexivity. Qed.
Lemma rsv_vh_mod Vh I k : rsv (vh_mod Vh) I k = phi (Z.of_nat k) * rsv Vh I k.
Proof.
  unfold rsv. rewrite mat_vh_mod, conj_mul. unfold cphi. rewrite phi_cj, Z.opp_involutive. ring.
Qed.
Lemma vh_mod_row_length Vh I : length (mrow (vh_mod Vh) I) = length (mrow Vh I).
Proof. unfold vh_mod. rewrite mrow_map by reflexivity. apply vmod_length. Qed.

(* if (S, Vh) is what svd may return for FB(x) then (S, Vh . conj phi) is what it may return for FB(x . phi) *)
Theorem svd_spec_mod_thm (x : list F) rows P S Vh :
  svd_spec (fb_matrix x P) rows P S Vh -> svd_spec (fb_matrix (vmod phi 0 x) P) rows P S (vh_mod Vh).
Proof.
  apply (svd_spec_unitary_equiv _ _ (fb_rowphase phi x P) (fun k => phi (Z.of_nat k))).
  - intros r. apply (fb_rowphase_nrm2 phi phi_add phi_0 phi_cj).
  - intros k. apply (phi_nrm2 phi phi_add phi_0 phi_cj).
  - intros r k. rewrite phi_cj. apply (fb_matrix_mod_thm phi phi_add phi_cj).
  - intros I k. apply rsv_vh_mod.
  - intros I _. apply vh_mod_row_length.
Qed.
End Mod.

Definition vh_conj (Vh : list (list F)) : list (list F) := map vconj Vh.
Lemma mat_vh_conj Vh I k : mat (vh_conj Vh) I k = conj (mat Vh I k).
Proof. unfold mat, vh_conj. rewrite mrow_map by reflexivity. apply nthF_vconj. Qed.
Lemma vh_conj_row_length Vh I : length (mrow (vh_conj Vh) I) = length (mrow Vh I).
Proof. unfold vh_conj. rewrite mrow_map by reflexivity. apply map_length. Qed.
(* if (S, Vh) is what svd may return for FB(x) then (S, conj Vh) is what it may return for FB(conj x) *)
Theorem svd_spec_conj_thm (x : list F) rows P S Vh :
  svd_spec (fb_matrix x P) rows P S Vh -> svd_spec (fb_matrix (vconj x) P) rows P S (vh_conj Vh).
Proof.
  apply svd_spec_conj_equiv.
  - intros r k. apply fb_matrix_conj_thm.
  - intros I k. unfold rsv. rewrite mat_vh_conj. reflexivity.
  - intros I _. apply vh_conj_row_length.
Qed.
End ShiftSvd.

(* ====================== the code path from (S, Vh) to the stored vector ====================== *)
Section ShiftPseudo.
Context {F : Type} {OF : Ops F} {L : Laws OF}.
Local Open Scope F_scope.
Add Field FFsps : (fth (O:=OF)).

(* a re-indexing of the bins: entry k of the result is entry sg k *)
Definition gperm (sg : nat -> nat) (l : list F) : list F := mk (length l) (fun k => nthF l (sg k)).
Lemma gperm_length sg (l : list F) : length (gperm sg l) = length l. Proof. apply mk_length. Qed.
Lemma nth_gperm sg (l : list F) k : (k < length l)%nat -> nthF (gperm sg l) k = nthF l (sg k).
Proof. intros H. unfold gperm. rewrite nth_mk by exact H. reflexivity. Qed.
Lemma rot_gperm m (l : list F) : rot m l = gperm (fun k => ridx (length l) (Z.of_nat k - m)) l.
Proof. reflexivity. Qed.
Lemma mirror_gperm (l : list F) : mirror l = gperm (fun k => ridx (length l) (- Z.of_nat k)) l.
Proof. reflexivity. Qed.
Lemma map_mk (g : F -> F) n (f : nat -> F) : map g (mk n f) = mk n (fun k => g (f k)).
Proof. unfold mk. apply map_map. Qed.
Lemma gperm_map (g : F -> F) sg (l : list F) : (forall k, (k < length l)%nat -> (sg k < length l)%nat) ->
  gperm sg (map g l) = map g (gperm sg l).
Proof.
  intros Hsg. unfold gperm. rewrite map_mk, map_length. apply mk_ext; intros k Hk.
  apply ShiftDft_C04.nthF_map_lt. apply Hsg. exact Hk.
Qed.

Lemma gperm_mk sg n (f : nat -> F) : (forall k, (k < n)%nat -> (sg k < n)%nat) -> gperm sg (mk n f) = mk n (fun k => f (sg k)).
Proof. intros Hsg. unfold gperm. rewrite mk_length. apply mk_ext; intros k Hk. apply nth_mk. apply Hsg. exact Hk. Qed.

Lemma noise_fft_length (tw : Z -> F) NFFT (v : list F) : length (noise_fft tw NFFT v) = NFFT.
Proof. unfold noise_fft. rewrite map_length. apply dft_length. Qed.

Section Perm.
Variables (tw : Z -> F) (NFFT : nat) (sg : nat -> nat).
Hypothesis Hsg : forall k, (k < NFFT)%nat -> (sg k < NFFT)%nat.
Variables (meth : method_arg) (eps : F) (S : list F) (Vh Vh' : list (list F)).
Hypothesis Hrow : forall I, noise_fft tw NFFT (mrow Vh' I) = gperm sg (noise_fft tw NFFT (mrow Vh I)).

Lemma acc_step_perm acc I : length acc = NFFT ->
  acc_step meth eps tw NFFT S Vh' (gperm sg acc) I = gperm sg (acc_step meth eps tw NFFT S Vh acc I).
Proof.
  intros Hl. unfold acc_step. cbv zeta. rewrite Hrow, gperm_mk by exact Hsg.
  apply mk_ext; intros k Hk.
  rewrite !nth_gperm by (rewrite ?noise_fft_length, ?Hl; exact Hk). reflexivity.
Qed.
Lemma fold_acc_perm l : forall acc, length acc = NFFT ->
  fold_left (acc_step meth eps tw NFFT S Vh') l (gperm sg acc) = gperm sg (fold_left (acc_step meth eps tw NFFT S Vh) l acc).
Proof.
  induction l as [|I l IH]; intros acc Hl; [reflexivity|]. cbn [fold_left]. rewrite acc_step_perm by exact Hl.
  apply IH. unfold acc_step. apply mk_length.
Qed.
Lemma pseudo_den_perm P ns : pseudo_den meth eps tw NFFT P S Vh' ns = gperm sg (pseudo_den meth eps tw NFFT P S Vh ns).
Proof.
  unfold pseudo_den. rewrite <- fold_acc_perm by apply mk_length. f_equal.
  rewrite gperm_mk by exact Hsg. reflexivity.
Qed.
Lemma pseudo_perm P ns : pseudo meth eps tw NFFT P S Vh' ns = gperm sg (pseudo meth eps tw NFFT P S Vh ns).
Proof.
  unfold pseudo. rewrite pseudo_den_perm. symmetry. apply gperm_map.
  intros k Hk. rewrite (pseudo_den_length tw NFFT) in *. apply Hsg. exact Hk.
Qed.
End Perm.

(* ---------- the two re-orderings are rotations (and a mirror) ---------- *)
Lemma mirror_rot m (l : list F) : mirror (rot m l) = rot (- m) (mirror l).
Proof.
  apply list_eq_nth; [rewrite mirror_length, !rot_length, mirror_length; reflexivity|].
  intros k Hk. rewrite mirror_length, rot_length in Hk.
  rewrite nth_mirror by (rewrite rot_length; exact Hk). rewrite rot_length.
  rewrite nth_rot by (apply ridx_lt; lia).
  rewrite nth_rot by (rewrite mirror_length; exact Hk). rewrite mirror_length.
  rewrite nth_mirror by (apply ridx_lt; lia). f_equal.
  rewrite ridx_ridx_sub by lia. rewrite ridx_neg_ridx by lia. f_equal. lia.
Qed.
(* newpsd = PSD[nby2::-1] ++ PSD[NFFT-1:nby2:-1]: entry j is PSD[(nby2 - j) mod NFFT] *)
Lemma eigen_reorder_rot NFFT (l : list F) : length l = NFFT -> (0 < NFFT)%nat ->
  eigen_reorder NFFT l = rot (Z.of_nat (NFFT / 2)) (mirror l).
Proof.
  intros Hl Hpos. apply list_eq_nth; [rewrite rot_length, mirror_length, Hl; apply reorder_length; exact Hl|].
  intros j Hj. rewrite (reorder_length NFFT l Hl) in Hj.
  rewrite nth_reorder by assumption.
  rewrite nth_rot by (rewrite mirror_length, Hl; exact Hj). rewrite mirror_length, Hl.
  rewrite nth_mirror by (rewrite Hl; apply ridx_lt; exact Hpos). rewrite Hl.
  rewrite ridx_neg_ridx by exact Hpos.
  assert (Hh : (NFFT / 2 < NFFT)%nat) by (apply Nat.div_lt; lia).
  destruct (Nat.leb_spec j (NFFT / 2)) as [Hle|Hgt]; f_equal; symmetry.
  - replace (- (Z.of_nat j - Z.of_nat (NFFT / 2)))%Z with (Z.of_nat (NFFT / 2 - j)) by lia. apply ridx_small. lia.
  - transitivity (ridx NFFT (Z.of_nat (NFFT + NFFT / 2 - j))); [|apply ridx_small; lia].
    apply ridx_mod. replace (Z.of_nat (NFFT + NFFT / 2 - j)) with (- (Z.of_nat j - Z.of_nat (NFFT / 2)) + 1 * Z.of_nat NFFT)%Z by lia.
    rewrite Z_mod_plus_full. reflexivity.
Qed.
(* numpy.fft.ifftshift: entry i is l[(i + n//2) mod n] *)
Lemma ifftshift_rot (l : list F) : ifftshift l = rot (- Z.of_nat (length l / 2)) l.
Proof.
  destruct (Nat.eq_dec (length l) 0) as [E0|Hne].
  { destruct l; [reflexivity|discriminate]. }
  apply list_eq_nth; [rewrite rot_length; apply ifftshift_length|].
  intros i Hi. rewrite ifftshift_length in Hi. rewrite nth_ifftshift by exact Hi. rewrite nth_rot by exact Hi.
  set (n := length l) in *.
  assert (Hh : (n / 2 < n)%nat) by (apply Nat.div_lt; lia).
  destruct (Nat.ltb_spec i (n - n / 2)) as [Hlt|Hge]; f_equal; symmetry.
  - replace (Z.of_nat i - - Z.of_nat (n / 2))%Z with (Z.of_nat (n / 2 + i)) by lia. apply ridx_small. lia.
  - transitivity (ridx n (Z.of_nat (i - (n - n / 2)))); [|apply ridx_small; lia].
    apply ridx_mod. replace (Z.of_nat i - - Z.of_nat (n / 2))%Z with (Z.of_nat (i - (n - n / 2)) + 1 * Z.of_nat n)%Z by lia.
    apply Z_mod_plus_full.
Qed.

(* the mirror of the centred layout of eigen(): entry j (centred bin j - NFFT//2) <-> the entry of the centred bin -(j - NFFT//2) *)
Definition cmirror (NFFT : nat) (l : list F) : list F := rot (Z.of_nat (2 * (NFFT / 2))) (mirror l).

Lemma eigen_reorder_shift NFFT m (l : list F) : length l = NFFT -> (0 < NFFT)%nat ->
  eigen_reorder NFFT (rot (- m) l) = rot m (eigen_reorder NFFT l).
Proof.
  intros Hl Hpos. rewrite !eigen_reorder_rot by (rewrite ?rot_length; assumption).
  rewrite mirror_rot, !rot_rot. f_equal. lia.
Qed.
Lemma eigen_reorder_mirror NFFT (l : list F) : length l = NFFT -> (0 < NFFT)%nat ->
  eigen_reorder NFFT (mirror l) = cmirror NFFT (eigen_reorder NFFT l).
Proof.
  intros Hl Hpos. unfold cmirror. rewrite !eigen_reorder_rot by (rewrite ?mirror_length; assumption).
  rewrite mirror_rot, !mirror_mirror, rot_rot. f_equal. lia.
Qed.
Lemma ifftshift_shift m (l : list F) : ifftshift (rot m l) = rot m (ifftshift l).
Proof. rewrite !ifftshift_rot, rot_length, !rot_rot. f_equal. lia. Qed.
Lemma ifftshift_cmirror NFFT (l : list F) : length l = NFFT -> ifftshift (cmirror NFFT l) = mirror (ifftshift l).
Proof.
  intros Hl. unfold cmirror. rewrite !ifftshift_rot, rot_length, mirror_length, Hl, mirror_rot, rot_rot. f_equal. lia.
Qed.

(* ---------- with the DFT character ---------- *)
Section WithTw.
Context (NFFT : nat) (tw : Z -> F) {T : Twiddle NFFT tw} (n_pos : (0 < NFFT)%nat).

Lemma map_opp_vmod (psi : Z -> F) (v : list F) : map opp (vmod psi 0 v) = vmod psi 0 (map opp v).
Proof.
  apply list_eq_nth; [rewrite map_length, !vmod_length, map_length; reflexivity|].
  intros j _. rewrite nthF_map by ring. rewrite !nthF_vmod. rewrite nthF_map by ring. ring.
Qed.
Lemma vmod_cphi_sphase m (v : list F) : vmod (cphi (sphase tw m)) 0 v = vmod (sphase tw (- m)) 0 v.
Proof. unfold vmod. apply mk_ext; intros j _. f_equal. unfold cphi, sphase. f_equal. lia. Qed.
(* abs(fft(-Vh'[I, :], NFFT))**2 = roll(abs(fft(-Vh[I, :], NFFT))**2, -m) *)
Lemma noise_fft_mod m (v : list F) :
  noise_fft tw NFFT (vmod (cphi (sphase tw m)) 0 v) = rot (- m) (noise_fft tw NFFT v).
Proof.
  unfold noise_fft. rewrite vmod_cphi_sphase, map_opp_vmod, (dft_list_shift NFFT tw n_pos). symmetry. apply rot_map.
Qed.
Lemma noise_fft_conj (v : list F) : noise_fft tw NFFT (vconj v) = mirror (noise_fft tw NFFT v).
Proof.
  unfold noise_fft.
  assert (E : map opp (vconj v) = vconj (map opp v)).
  { unfold vconj. rewrite !map_map. apply map_ext; intros a. symmetry. apply conj_opp. }
  rewrite E, (dft_list_conj NFFT tw n_pos). unfold vconj. rewrite map_map.
  rewrite (map_ext (fun a => nrm2 (conj a)) nrm2) by (intros a; apply nrm2_conj). symmetry. apply mirror_map.
Qed.

Lemma pseudo_shift meth eps P (S : list F) Vh ns (m : Z) :
  pseudo meth eps tw NFFT P S (vh_mod (sphase tw m) Vh) ns = rot (- m) (pseudo meth eps tw NFFT P S Vh ns).
Proof.
  rewrite rot_gperm, (pseudo_length tw NFFT).
  apply (pseudo_perm tw NFFT (fun k => ridx NFFT (Z.of_nat k - - m))).
  - intros k _. apply ridx_lt. exact n_pos.
  - intros I. unfold vh_mod. rewrite mrow_map by reflexivity. rewrite noise_fft_mod, rot_gperm, noise_fft_length. reflexivity.
Qed.
Lemma pseudo_mirror meth eps P (S : list F) Vh ns :
  pseudo meth eps tw NFFT P S (vh_conj Vh) ns = mirror (pseudo meth eps tw NFFT P S Vh ns).
Proof.
  rewrite mirror_gperm, (pseudo_length tw NFFT).
  apply (pseudo_perm tw NFFT (fun k => ridx NFFT (- Z.of_nat k))).
  - intros k _. apply ridx_lt. exact n_pos.
  - intros I. unfold vh_conj. rewrite mrow_map by reflexivity. rewrite noise_fft_conj, mirror_gperm, noise_fft_length. reflexivity.
Qed.

(* what happens to a result: the pseudo-spectrum is re-indexed, the singular values and every exception are kept *)
Definition map_eig (f : list F -> list F) (r : eig_err + (list F * list F)) : eig_err + (list F * list F) :=
  match r with inl e => inl e | inr (psd, sv) => inr (f psd, sv) end.

(* eigen() / music() / ev(): centred layout *)
Theorem eigen_shift_thm meth eps nsig thr crit amin (m : Z) (x : list F) P S Vh :
  eigen meth eps nsig thr crit amin tw NFFT (vmod (sphase tw m) 0 x) P S (vh_mod (sphase tw m) Vh)
  = map_eig (rot m) (eigen meth eps nsig thr crit amin tw NFFT x P S Vh).
Proof.
  unfold eigen. rewrite vmod_length.
  destruct (eigen_nsig meth nsig thr crit amin (length x) P NFFT S) as [e|ns]; [reflexivity|].
  cbn [map_eig]. rewrite pseudo_shift. rewrite eigen_reorder_shift by (try apply pseudo_length; exact n_pos). reflexivity.
Qed.
Theorem eigen_mirror_thm meth eps nsig thr crit amin (x : list F) P S Vh :
  eigen meth eps nsig thr crit amin tw NFFT (vconj x) P S (vh_conj Vh)
  = map_eig (cmirror NFFT) (eigen meth eps nsig thr crit amin tw NFFT x P S Vh).
Proof.
  unfold eigen. unfold vconj at 1. rewrite map_length.
  destruct (eigen_nsig meth nsig thr crit amin (length x) P NFFT S) as [e|ns]; [reflexivity|].
  cbn [map_eig]. rewrite pseudo_mirror. rewrite eigen_reorder_mirror by (try apply pseudo_length; exact n_pos). reflexivity.
Qed.

(* pmusic / pev on complex data: what the object stores after __call__ (two-sided layout, optional scale()) *)
Lemma class_psd_cplx_rot NFFT' scale m (psd : list F) :
  class_psd false NFFT' scale (rot m psd) = rot m (class_psd false NFFT' scale psd).
Proof.
  unfold class_psd. cbv zeta. rewrite ifftshift_shift. destruct scale as [c|]; [|reflexivity]. symmetry. apply rot_map.
Qed.
Lemma class_psd_cplx_mirror scale (psd : list F) : length psd = NFFT ->
  class_psd false NFFT scale (cmirror NFFT psd) = mirror (class_psd false NFFT scale psd).
Proof.
  intros Hl. unfold class_psd. cbv zeta. rewrite ifftshift_cmirror by exact Hl.
  destruct scale as [c|]; [|reflexivity]. symmetry. apply mirror_map.
Qed.
Theorem pclass_shift_thm meth eps scale nsig thr crit amin (m : Z) (x : list F) P S Vh :
  pclass meth eps false scale nsig thr crit amin tw NFFT (vmod (sphase tw m) 0 x) P S (vh_mod (sphase tw m) Vh)
  = map_eig (rot m) (pclass meth eps false scale nsig thr crit amin tw NFFT x P S Vh).
Proof.
  unfold pclass. rewrite eigen_shift_thm.
  destruct (eigen meth eps nsig thr crit amin tw NFFT x P S Vh) as [e|[psd sv]]; [reflexivity|].
  cbn [map_eig]. rewrite class_psd_cplx_rot. reflexivity.
Qed.
Theorem pclass_mirror_thm meth eps scale nsig thr crit amin (x : list F) P S Vh :
  pclass meth eps false scale nsig thr crit amin tw NFFT (vconj x) P S (vh_conj Vh)
  = map_eig mirror (pclass meth eps false scale nsig thr crit amin tw NFFT x P S Vh).
Proof.
  unfold pclass. rewrite eigen_mirror_thm.
  destruct (eigen meth eps nsig thr crit amin tw NFFT x P S Vh) as [e|[psd sv]] eqn:E; [reflexivity|].
  cbn [map_eig]. rewrite class_psd_cplx_mirror; [reflexivity|].
  unfold eigen in E. destruct (eigen_nsig meth nsig thr crit amin (length x) P NFFT S) as [e|ns]; [discriminate|].
  injection E as <- _. apply reorder_length, pseudo_length.
Qed.
End WithTw.
End ShiftPseudo.
