(* The Levinson recursion solves its Hermitian Toeplitz system: invariant over the order,
   function level first (nat -> F), then transported to the executable list model. *)
Require Import Spectrum.Theory.Ops Spectrum.Theory.Sum Spectrum.Theory.Vec Spectrum.Model.Levinson.

Section Lev.
Context {F : Type} {OF : Ops F} {L : Laws OF}.
Local Open Scope F_scope.
Add Field FFl : (fth (O:=OF)).

(* Hermitian extension of a lag list to Z: r(-d) = conj r(d) *)
Definition rz (r : list F) (d : Z) : F :=
  if (0 <=? d)%Z then nthF r (Z.to_nat d) else conj (nthF r (Z.to_nat (- d))).

Section Fixed_r.
Variable r : list F.
Hypothesis r0_real : isreal (nthF r O).

Lemma rz_conj d : conj (rz r d) = rz r (- d).
Proof.
  unfold rz. destruct (Z.leb_spec 0 d), (Z.leb_spec 0 (- d)); try lia.
  - replace d with 0%Z by lia. exact r0_real.
  - do 2 f_equal. lia.
  - rewrite conj_conj. f_equal.
Qed.
Definition rr (i j : nat) : F := rz r (Z.of_nat i - Z.of_nat j).

Definition afun (A : list F) : nat -> F := fun j => match j with O => 1 | S j' => nthF A j' end.
Definition row (m : nat) (a : nat -> F) (i : nat) : F := sumf (S m) (fun j => a j * rr i j).
Definition Inv (m : nat) (a : nat -> F) (P : F) : Prop :=
  a O = 1 /\ conj P = P /\ row m a O = P /\ forall i, (1 <= i <= m)%nat -> row m a i = 0.

Definition step_a (m : nat) (a : nat -> F) (k : F) : nat -> F :=
  fun j => if (j =? O)%nat then a O
           else if (j <=? m)%nat then a j + k * conj (a (S m - j)%nat)
           else if (j =? S m)%nat then k else 0.

Lemma row_ext m a b i : (forall j, (j <= m)%nat -> a j = b j) -> row m a i = row m b i.
Proof. intros H. unfold row. apply sumf_ext; intros j Hj. rewrite H by lia. reflexivity. Qed.

Lemma row_step m a k i (Ha0 : a O = 1) : (i <= S m)%nat ->
  row (S m) (step_a m a k) i = row m a i + k * conj (row m a (S m - i)%nat).
Proof.
  intros Hi. unfold row.
  transitivity (sumf (S (S m)) (fun j => (if (j <=? m)%nat then a j else 0) * rr i j
                 + k * ((if (j =? O)%nat then 0 else conj (a (S m - j)%nat)) * rr i j))).
  { apply sumf_ext; intros j Hj. unfold step_a.
    destruct (Nat.eqb_spec j O) as [->|J0]. { cbn. ring. }
    destruct (Nat.leb_spec j m) as [Jm|Jm]. { ring. }
    destruct (Nat.eqb_spec j (S m)) as [->|JS]; [|lia].
    rewrite Nat.sub_diag, Ha0, conj_1. ring. }
  rewrite sumf_add, sumf_scale. f_equal.
  - rewrite (sumf_S (S m)). destruct (Nat.leb_spec (S m) m); [lia|].
    transitivity (sumf (S m) (fun j => a j * rr i j) + 0 * rr i (S m)); [|ring].
    f_equal. apply sumf_ext; intros j Hj. destruct (Nat.leb_spec j m); [reflexivity|lia].
  - f_equal. rewrite sumf_shift. cbn [Nat.eqb].
    transitivity (sumf (S m) (fun i0 => conj (a (S m - S i0)%nat) * rr i (S i0))); [ring|].
    rewrite (sumf_rev (S m)), sumf_conj. apply sumf_ext; intros l Hl.
    rewrite conj_mul. f_equal. { do 2 f_equal. lia. }
    unfold rr. rewrite rz_conj. f_equal. lia.
Qed.

Lemma conj_1mkk k : conj (1 - k * conj k) = 1 - k * conj k.
Proof. rewrite conj_sub, conj_mul, conj_conj, conj_1. ring. Qed.

Theorem levinson_step m a P k :
  Inv m a P -> k * P = - (row m a (S m)) ->
  Inv (S m) (step_a m a k) (P * (1 - k * conj k)).
Proof.
  intros (Ha0 & HP & H0 & Hi) Hk. unfold Inv. repeat split.
  - unfold step_a; cbn. exact Ha0.
  - rewrite conj_mul, HP, conj_1mkk. reflexivity.
  - rewrite row_step by (auto; lia). rewrite Nat.sub_0_r, H0.
    assert (E : row m a (S m) = - (k * P)) by (rewrite Hk; ring). rewrite E.
    rewrite conj_opp, conj_mul, HP. ring.
  - intros i [Hi1 Hi2]. rewrite row_step by (auto; lia).
    destruct (Nat.eq_dec i (S m)) as [->|Hne].
    + rewrite Nat.sub_diag, H0, HP.
      assert (E : row m a (S m) = - (k * P)) by (rewrite Hk; ring). rewrite E. ring.
    + rewrite (Hi i) by lia. rewrite (Hi (S m - i)%nat) by lia. rewrite conj_0. ring.
Qed.

(* ---------- transport to the list model ---------- *)
Lemma delta_is_row m A : length A = m -> lev_delta (tl r) A m = row m (afun A) (S m).
Proof.
  intros HA. unfold lev_delta, row. rewrite sumL_mk, sumf_shift. cbn [afun].
  rewrite nth_tl. unfold rr at 1. replace (Z.of_nat (S m) - Z.of_nat 0)%Z with (Z.of_nat (S m)) by lia.
  unfold rz at 1. destruct (Z.leb_spec 0 (Z.of_nat (S m))); [|lia]. rewrite Nat2Z.id.
  transitivity (1 * nthF r (S m) + sumf m (fun j => nthF A j * nthF (tl r) (m - j - 1))); [ring|].
  f_equal. apply sumf_ext; intros j Hj. f_equal. rewrite nth_tl. unfold rr, rz.
  destruct (Z.leb_spec 0 (Z.of_nat (S m) - Z.of_nat (S j))); [|lia]. f_equal. lia.
Qed.

Lemma nthF_app_last' (l : list F) x m : length l = m -> nthF (l ++ [x]) m = x.
Proof. intros <-. apply nthF_app_last. Qed.
Lemma stepup_length A k : length (stepup A k) = S (length A).
Proof. unfold stepup. rewrite app_length, mk_length. cbn. lia. Qed.

Lemma afun_stepup m A k j : length A = m -> (j <= S m)%nat ->
  afun (stepup A k) j = step_a m (afun A) k j.
Proof.
  intros HA Hj. unfold step_a, stepup. rewrite HA.
  destruct (Nat.eqb_spec j O) as [->|J0]; [reflexivity|].
  destruct j as [|j']; [lia|]. cbn [afun].
  destruct (Nat.leb_spec (S j') m) as [Jm|Jm].
  - rewrite nthF_app_l by (rewrite mk_length; lia). rewrite nth_mk by lia.
    replace (S m - S j')%nat with (S (m - 1 - j')) by lia. reflexivity.
  - destruct (Nat.eqb_spec (S j') (S m)) as [E|E]; [|lia].
    replace j' with (length (mk m (fun j => nthF A j + k * conj (nthF A (m - 1 - j))))) at 1
      by (rewrite mk_length; lia).
    apply nthF_app_last.
Qed.

(* product of (1 - |k_i|^2) *)
Fixpoint prodk (ks : list F) : F := match ks with [] => 1 | k :: t => (1 - k * conj k) * prodk t end.
Lemma prodk_app ks k : prodk (ks ++ [k]) = prodk ks * (1 - k * conj k).
Proof. induction ks; cbn; [ring|]. rewrite IHks. ring. Qed.

Definition InvL (P0 : F) (m : nat) (st : lev_state) : Prop :=
  let '(A, P, ks) := st in
  length A = m /\ length ks = m /\ P <> 0 /\ Inv m (afun A) P /\ P = P0 * prodk ks
  /\ (forall j, (j < m)%nat -> nthF ks j = nthF A j \/ True)
  /\ (m >= 1 -> nthF A (m - 1) = nthF ks (m - 1))%nat.

Lemma Inv_0 : nthF r O <> 0 -> InvL (nthF r O) O ([], nthF r O, []).
Proof.
  intros H0. cbn. repeat split; auto; try (intros; lia); try ring.
  unfold row. cbn. unfold rr, rz. cbn. ring.
Qed.

Lemma lev_step_inv P0 m st st' :
  InvL P0 m st -> lev_step (tl r) false st m = Some st' -> InvL P0 (S m) st'.
Proof.
  destruct st as [[A P] ks]. intros (HA & Hks & HP0 & HI & HPk & _ & _) Hs.
  unfold lev_step in Hs.
  set (k := - lev_delta (tl r) A m / P) in *.
  destruct (le0 (P * (1 - k * conj k))) eqn:Hle; cbn in Hs; [discriminate|].
  injection Hs as <-.
  assert (Hk : k * P = - row m (afun A) (S m)).
  { unfold k. rewrite delta_is_row by exact HA. field. exact HP0. }
  pose proof (levinson_step m (afun A) P k HI Hk) as (Ha & Hc & Hr & Hz).
  unfold InvL. split; [|split; [|split; [|split; [|split; [|split]]]]].
  - rewrite stepup_length. lia.
  - rewrite app_length. cbn. lia.
  - apply le0_false_neq. exact Hle.
  - unfold Inv. split; [|split; [|split]].
    + reflexivity.
    + exact Hc.
    + rewrite <- Hr. apply row_ext. intros j Hj. apply afun_stepup; [exact HA|lia].
    + intros i Hi. rewrite <- (Hz i Hi). apply row_ext. intros j Hj. apply afun_stepup; [exact HA|lia].
  - rewrite prodk_app, HPk. ring.
  - intros; right; exact I.
  - intros _. replace (S m - 1)%nat with m by lia.
    unfold stepup. rewrite !nthF_app_last' by (rewrite ?mk_length; assumption). reflexivity.
Qed.

Lemma lev_iter_inv P0 m st : P0 = nthF r O -> P0 <> 0 ->
  lev_iter (tl r) false P0 m = Some st -> InvL P0 m st.
Proof.
  intros HP0 Hne. revert st. induction m; intros st H.
  - cbn in H. injection H as <-. subst P0. apply Inv_0. exact Hne.
  - cbn [lev_iter] in H. destruct (lev_iter (tl r) false P0 m) as [st0|] eqn:E; [|discriminate].
    eapply lev_step_inv; [apply IHm; reflexivity|exact H].
Qed.

(* nesting: the order-q run is a prefix of the order-p run *)
Lemma lev_iter_prefix allow P0 p q st : (q <= p)%nat ->
  lev_iter (tl r) allow P0 p = Some st ->
  exists st', lev_iter (tl r) allow P0 q = Some st'.
Proof.
  intros Hq. revert st. induction p; intros st H.
  - replace q with O by lia. eauto.
  - destruct (Nat.eq_dec q (S p)) as [->|Hne]; [eauto|].
    cbn [lev_iter] in H. destruct (lev_iter (tl r) allow P0 p) as [st0|] eqn:E; [|discriminate].
    apply (IHp ltac:(lia) st0). reflexivity.
Qed.
Lemma lev_step_ks T allow A P ks m A' P' ks' :
  lev_step T allow (A, P, ks) m = Some (A', P', ks') -> exists k, ks' = ks ++ [k].
Proof.
  unfold lev_step. destruct (le0 _ && negb allow); [discriminate|]. intros H. injection H as _ _ <-. eauto.
Qed.
Lemma lev_iter_ks_length allow P0 m A P ks :
  lev_iter (tl r) allow P0 m = Some (A, P, ks) -> length ks = m.
Proof.
  revert A P ks. induction m; intros A P ks H.
  - cbn in H. injection H as _ _ <-. reflexivity.
  - cbn [lev_iter] in H. destruct (lev_iter (tl r) allow P0 m) as [[[A0 P1] ks0]|] eqn:E; [|discriminate].
    destruct (lev_step_ks _ _ _ _ _ _ _ _ _ H) as [k ->]. rewrite app_length, (IHm _ _ _ eq_refl). cbn. lia.
Qed.
Lemma lev_iter_nested allow P0 p q A P ks A' P' ks' : (q <= p)%nat ->
  lev_iter (tl r) allow P0 p = Some (A, P, ks) ->
  lev_iter (tl r) allow P0 q = Some (A', P', ks') -> ks' = firstn q ks.
Proof.
  intros Hq. revert A P ks. induction p; intros A P ks H H'.
  - replace q with O in * by lia. cbn in H, H'. injection H as _ _ <-. injection H' as _ _ <-. reflexivity.
  - destruct (Nat.eq_dec q (S p)) as [->|Hne].
    + rewrite H in H'. injection H' as _ _ <-.
      rewrite <- (lev_iter_ks_length _ _ _ _ _ _ H). symmetry. apply firstn_all.
    + cbn [lev_iter] in H. destruct (lev_iter (tl r) allow P0 p) as [[[A0 P1] ks0]|] eqn:E; [|discriminate].
      destruct (lev_step_ks _ _ _ _ _ _ _ _ _ H) as [k ->].
      rewrite (IHp ltac:(lia) _ _ _ eq_refl H').
      rewrite firstn_app. pose proof (lev_iter_ks_length _ _ _ _ _ _ E) as Hl.
      replace (q - length ks0)%nat with O by lia. cbn. rewrite app_nil_r. reflexivity.
Qed.
End Fixed_r.
End Lev.

(* ---------- statements about the executable [levinson] ---------- *)
Section Final.
Context {F : Type} {OF : Ops F} {L : Laws OF}.
Local Open Scope F_scope.
Add Field FFl2 : (fth (O:=OF)).

Definition toeplitz_row (r : list F) (p : nat) (a : list F) (i : nat) : F :=
  sumf (S p) (fun j => afun a j * rz r (Z.of_nat i - Z.of_nat j)).

Theorem levinson_solves_thm (r : list F) (p : nat) (a : list F) (P : F) (k : list F) :
  isreal (nthF r O) -> nthF r O <> 0 ->
  levinson r p false = Some (a, P, k) ->
  length a = p /\ length k = p /\ isreal P /\ P <> 0
  /\ (forall i, (i <= p)%nat -> toeplitz_row r p a i = if (i =? 0)%nat then P else 0)
  /\ P = nthF r O * prodk k
  /\ (1 <= p -> nthF a (p - 1) = nthF k (p - 1))%nat.
Proof.
  intros Hr H0 H. unfold levinson in H. destruct (p <=? length r - 1)%nat; [|discriminate].
  rewrite (re_real _ Hr) in H.
  pose proof (lev_iter_inv r Hr _ p _ eq_refl H0 H) as (HA & Hk & HP & (Ha0 & HPr & Hrow0 & Hrows) & HPk & _ & Hlast).
  repeat split; auto.
  intros i Hi. destruct (Nat.eqb_spec i O) as [->|Hne].
  - exact Hrow0.
  - apply Hrows. lia.
Qed.

Theorem levinson_nested_thm (r : list F) (p q : nat) (a : list F) (P : F) (k : list F) : (q <= p)%nat ->
  levinson r p false = Some (a, P, k) ->
  exists a' P', levinson r q false = Some (a', P', firstn q k).
Proof.
  intros Hq H. unfold levinson in *. destruct (Nat.leb_spec p (length r - 1)); [|discriminate].
  destruct (Nat.leb_spec q (length r - 1)); [|lia].
  destruct (lev_iter_prefix r _ _ p q _ Hq H) as [[[a' P'] k'] H'].
  exists a', P'. rewrite H'. rewrite (lev_iter_nested r _ _ p q _ _ _ _ _ _ Hq H H'). reflexivity.
Qed.

(* the only way to fail (besides the order assertion) is a stage whose error power is "<= 0" *)
Lemma lev_iter_raises (T : list F) P0 (p : nat) :
  lev_iter T false P0 p = None ->
  exists q A P ks, (q < p)%nat /\ lev_iter T false P0 q = Some (A, P, ks) /\
    let k := (- lev_delta T A q) / P in le0 (P * (1 - k * conj k)) = true.
Proof.
  induction p; intros H; [discriminate|].
  cbn [lev_iter] in H. destruct (lev_iter T false P0 p) as [[[A P] ks]|] eqn:E.
  - exists p, A, P, ks. split; [lia|]. split; [exact E|].
    unfold lev_step in H. cbn zeta. destruct (le0 _); [reflexivity|discriminate].
  - destruct (IHp eq_refl) as (q & A & P & ks & Hq & Hl & Hk).
    exists q, A, P, ks. split; [lia|]. split; assumption.
Qed.
Theorem levinson_raises_thm (r : list F) (p : nat) : (p <= length r - 1)%nat ->
  levinson r p false = None ->
  exists q A P ks, (q < p)%nat /\ levinson r q false = Some (A, P, ks) /\
    let k := (- lev_delta (tl r) A q) / P in le0 (P * (1 - k * conj k)) = true.
Proof.
  intros Hp H. unfold levinson in H. destruct (Nat.leb_spec p (length r - 1)); [|lia].
  destruct (lev_iter_raises _ _ _ H) as (q & A & P & ks & Hq & Hl & Hk).
  exists q, A, P, ks. split; [lia|]. split; [|exact Hk].
  unfold levinson. destruct (Nat.leb_spec q (length r - 1)); [exact Hl|lia].
Qed.
Theorem levinson_no_raise_thm (r : list F) (p : nat) A P ks A' P' ks' :
  levinson r p false = Some (A, P, ks) -> levinson r (S p) false = Some (A', P', ks') ->
  le0 P' = false.
Proof.
  unfold levinson. destruct (p <=? length r - 1)%nat; [|discriminate]. destruct (S p <=? length r - 1)%nat; [|discriminate].
  cbn [lev_iter]. intros ->. unfold lev_step. destruct (le0 _) eqn:E; cbn; [discriminate|].
  intros H. injection H as _ <- _. exact E.
Qed.
End Final.
