(* C09, order clauses in the abstract ordered *-field (Theory/Order.v; axiom-free; the Gaussian
   rationals the correspondence executes and the complex numbers are instances):
     r[0] >= 0,  |r[k]|^2 <= r[0]^2  (Cauchy-Schwarz),  the Hermitian Toeplitz matrix of the biased
     autocorrelation is positive semi-definite (and positive definite when x <> 0). *)
Require Import Spectrum.Theory.Ops Spectrum.Theory.Sum Spectrum.Theory.Vec Spectrum.Theory.Order
               Spectrum.Model.Corr Spectrum.Model.CorrC09 Spectrum.Proofs.CorrTheory
               Spectrum.Proofs.LevinsonTheory Spectrum.Proofs.CorrC09Theory.

Section CorrOrd.
Context {F : Type} {OF : Ops F} {L : Laws OF} {OL : OrdLaws OF}.
Local Open Scope F_scope.
Add Field FFco : (fth (O:=OF)).

(* ---------- small order lemmas ---------- *)
Lemma le_sumf_prefix n m (f : nat -> F) : (n <= m)%nat -> (forall i, nonneg (f i)) -> le (sumf n f) (sumf m f).
Proof.
  intros Hnm Hf. unfold le. replace m with (n + (m - n))%nat by lia. rewrite sumf_split.
  apply (nonneg_eq (sumf (m - n) (fun i => f (n + i)%nat))); [ring|]. apply nonneg_sumf; intros; apply Hf.
Qed.
Lemma le_sumf_suffix k m (f : nat -> F) : (k <= m)%nat -> (forall i, nonneg (f i)) ->
  le (sumf (m - k) (fun j => f (j + k)%nat)) (sumf m f).
Proof.
  intros Hk Hf. unfold le. replace (sumf m f) with (sumf (k + (m - k)) f) by (f_equal; lia). rewrite sumf_split.
  rewrite (sumf_ext (m - k) (fun i => f (k + i)%nat) (fun j => f (j + k)%nat)) by (intros; f_equal; lia).
  apply (nonneg_eq (sumf k f)); [ring|]. apply nonneg_sumf; intros; apply Hf.
Qed.
Lemma le_nonneg a b : nonneg a -> le a b -> nonneg b.
Proof. unfold le. intros Ha H. apply (nonneg_eq (a + (b - a))); [ring|apply nn_add; assumption]. Qed.
Lemma le_mul_mono a A b B : nonneg a -> nonneg b -> le a A -> le b B -> le (a * b) (A * B).
Proof.
  intros Ha Hb HA HB. unfold le in *.
  apply (nonneg_eq ((A - a) * (b + (B - b)) + a * (B - b))); [ring|].
  apply nn_add; [apply nn_mul; [exact HA|apply nn_add; assumption]|apply nn_mul; assumption].
Qed.
Lemma le_div_pos a b d : pos d -> le a b -> le (a / d) (b / d).
Proof.
  intros Hd H. unfold le in *. apply (nonneg_eq ((b - a) / d)); [field; apply Hd|]. apply nonneg_div; assumption.
Qed.

(* ---------- the biased autocorrelation: r[0] >= 0 and Cauchy-Schwarz ---------- *)
Definition energy (x : list F) : F := sumf (length x) (fun j => nrm2 (nthF x j)).

Lemma energy_nonneg (x : list F) : nonneg (energy x).
Proof. apply nonneg_sum_nrm2. Qed.

Lemma lagsum_cs (x : list F) k : (k <= length x)%nat ->
  le (nrm2 (lagsum (length x) x x k)) (energy x * energy x).
Proof.
  intros Hk. set (N := length x).
  apply (le_trans _ (sumf (N - k) (fun j => nrm2 (nthF x (j + k))) * sumf (N - k) (fun j => nrm2 (nthF x j)))).
  - unfold lagsum. apply (cauchy_schwarz (N - k) (fun j => nthF x (j + k)) (fun j => nthF x j)).
  - apply le_mul_mono; try apply nonneg_sum_nrm2.
    + apply (le_sumf_suffix k N (fun j => nrm2 (nthF x j))); [exact Hk|intros; apply nn_nrm2].
    + apply le_sumf_prefix; [lia|intros; apply nn_nrm2].
Qed.

Lemma acorr_c_some (x : list F) oml nm r : acorr_c x oml nm = inr r ->
  (1 <= length x)%nat /\ pos (ofnat (length x)).
Proof.
  intros H. destruct (acorr_c_def_thm _ _ _ _ H) as (H1 & _). cbv zeta in H1.
  assert (1 <= length x)%nat by lia. split; [assumption|apply pos_ofnat; assumption].
Qed.

Theorem acorr_r0_nonneg_thm (x : list F) oml nm r : (nm = Biased \/ nm = Unbiased) ->
  acorr_c x oml nm = inr r -> nthF r O = mean_pow x /\ nonneg (nthF r O).
Proof.
  intros Hn H. destruct (acorr_c_some _ _ _ _ H) as [_ HN].
  destruct (acorr_c_def_thm _ _ _ _ H) as (_ & _ & _ & H0).
  assert (E : nthF r O = mean_pow x) by (rewrite H0; destruct Hn as [-> | ->]; reflexivity).
  split; [exact E|]. rewrite E, mean_pow_sumf. apply nonneg_div; [apply nonneg_sum_nrm2|exact HN].
Qed.

Theorem acorr_bound_thm (x : list F) oml r k :
  acorr_c x oml Biased = inr r -> (k <= the_ml (length x) oml)%nat ->
  le (nrm2 (nthF r k)) (nthF r O * nthF r O).
Proof.
  intros H Hk. destruct (acorr_c_some _ _ _ _ H) as [_ HN].
  destruct (acorr_c_def_thm _ _ _ _ H) as (Hml & _ & Hr & H0). cbv zeta in *.
  assert (HN0 : ofnat (length x) <> 0) by apply HN.
  rewrite (Hr k Hk), H0, mean_pow_sumf. cbn [normalised]. fold (energy x).
  set (s := lagsum _ _ _ _). set (N := ofnat (length x)) in *.
  assert (E1 : nrm2 (s / N) = nrm2 s / (N * N)).
  { unfold nrm2. rewrite conj_div by exact HN0. unfold N at 2. rewrite conj_ofnat. fold N. field. exact HN0. }
  assert (E2 : energy x / N * (energy x / N) = energy x * energy x / (N * N)) by (field; exact HN0).
  rewrite E1, E2. apply le_div_pos; [apply pos_mul; exact HN|]. apply lagsum_cs. lia.
Qed.

(* ---------- positive semi-definiteness of the Hermitian Toeplitz matrix ---------- *)
Definition toep_form (r : list F) (m : nat) (c : nat -> F) : F :=
  sumf (S m) (fun i => sumf (S m) (fun j => conj (c i) * rz r (Z.of_nat i - Z.of_nat j) * c j)).
(* (X c)[n] = sum_j x[n-j] c_j : the filter output of the pre- and post-windowed data *)
Definition filt (x : list F) (m : nat) (c : nat -> F) (n : nat) : F := sumf (S m) (fun j => xz x n j * c j).

Theorem toeplitz_form_value_thm (x : list F) m r (c : nat -> F) :
  acorr_c x (Some m) Biased = inr r ->
  toep_form r m c = sumf (length x + m) (fun n => nrm2 (filt x m c n)) / ofnat (length x).
Proof.
  intros H. destruct (acorr_c_some _ _ _ _ H) as [_ HN]. assert (HN0 : ofnat (length x) <> 0) by apply HN.
  assert (E : ofnat (length x) * toep_form r m c = sumf (length x + m) (fun n => nrm2 (filt x m c n))).
  { unfold toep_form. rewrite <- sumf_scale.
    rewrite (sumf_ext (S m) _ (fun i => sumf (S m) (fun j => conj (c i) * gram x m i j * c j))).
    2:{ intros i Hi. rewrite <- sumf_scale. apply sumf_ext; intros j Hj.
        rewrite (corrmtx_gram_full_thm x m i j r) by (try lia; assumption). ring. }
    rewrite toeplitz_form_thm. apply sumf_ext; intros n Hn. unfold filt. f_equal.
    apply sumf_ext; intros j Hj. rewrite cm_entry_xz by lia. reflexivity. }
  rewrite <- E. field. exact HN0.
Qed.

Theorem toeplitz_psd_thm (x : list F) m r (c : nat -> F) :
  acorr_c x (Some m) Biased = inr r -> nonneg (toep_form r m c).
Proof.
  intros H. destruct (acorr_c_some _ _ _ _ H) as [_ HN].
  rewrite (toeplitz_form_value_thm x m r c H). apply nonneg_div; [apply nonneg_sum_nrm2|exact HN].
Qed.

(* the matrix is Hermitian: r[0] is real *)
Theorem toeplitz_hermitian_thm (x : list F) m r d :
  acorr_c x (Some m) Biased = inr r -> conj (rz r d) = rz r (- d).
Proof.
  intros H. apply rz_conj. destruct (acorr_r0_nonneg_thm x (Some m) Biased r (or_introl eq_refl) H) as [_ Hn].
  exact (nn_real _ Hn).
Qed.

(* ---------- positive definiteness when the data are not identically zero ----------
   if X c = 0 (the full convolution of x and c vanishes) and x <> 0 then c = 0: look at the first
   non-zero sample of x and strong induction on the coefficient index. *)
Lemma first_nonzero (x : list F) : (exists t, (t < length x)%nat /\ nthF x t <> 0) ->
  exists t0, (t0 < length x)%nat /\ nthF x t0 <> 0 /\ forall t, (t < t0)%nat -> nthF x t = 0.
Proof.
  intros [t [Ht Hx]]. revert Ht Hx. induction t as [t IH] using lt_wf_ind. intros Ht Hx.
  assert (D : (forall s, (s < t)%nat -> nthF x s = 0) \/ exists s, (s < t)%nat /\ nthF x s <> 0).
  { clear IH Hx Ht. induction t as [|t IHt]; [left; intros; lia|].
    destruct IHt as [Hall|[s [Hs Hne]]]; [|right; exists s; split; [lia|exact Hne]].
    destruct (eq0_dec (nthF x t)) as [E|E]; [left|right; exists t; split; [lia|exact E]].
    intros s Hs. destruct (Nat.eq_dec s t) as [->|]; [exact E|apply Hall; lia]. }
  destruct D as [Hall|[s [Hs Hne]]]; [exists t; auto|]. apply (IH s Hs); [lia|exact Hne].
Qed.

Lemma filt_zero_coeff_zero (x : list F) m (c : nat -> F) :
  (exists t, (t < length x)%nat /\ nthF x t <> 0) ->
  (forall n, (n < length x + m)%nat -> filt x m c n = 0) ->
  forall j, (j <= m)%nat -> c j = 0.
Proof.
  intros Hx Hf. destruct (first_nonzero x Hx) as (t0 & Ht0 & Hne & Hz).
  intros j. induction j as [j IH] using lt_wf_ind. intros Hj.
  (* output sample n = t0 + j : every term but x[t0] c_j vanishes *)
  specialize (Hf (t0 + j)%nat ltac:(lia)). unfold filt in Hf.
  rewrite (sumf_single (S m) j) in Hf; [| lia |].
  - unfold xz in Hf. destruct (Nat.leb_spec j (t0 + j)); [|lia].
    replace (t0 + j - j)%nat with t0 in Hf by lia.
    apply (mul_cancel_l (nthF x t0) (c j)); assumption.
  - intros i Hi Hij. destruct (Nat.lt_ge_cases i j) as [Hlt|Hge].
    + rewrite (IH i Hlt) by lia. ring.
    + unfold xz. destruct (Nat.leb_spec i (t0 + j)); [|ring]. rewrite (Hz (t0 + j - i)%nat) by lia. ring.
Qed.

Theorem toeplitz_pd_thm (x : list F) m r (c : nat -> F) :
  acorr_c x (Some m) Biased = inr r ->
  (exists t, (t < length x)%nat /\ nthF x t <> 0) ->
  (exists j, (j <= m)%nat /\ c j <> 0) ->
  pos (toep_form r m c).
Proof.
  intros H Hx [j [Hj Hc]]. split; [apply (toeplitz_psd_thm x m r c H)|].
  intros E. apply Hc. destruct (acorr_c_some _ _ _ _ H) as [_ HN]. assert (HN0 : ofnat (length x) <> 0) by apply HN.
  rewrite (toeplitz_form_value_thm x m r c H) in E.
  assert (E' : sumf (length x + m) (fun n => nrm2 (filt x m c n)) = 0).
  { transitivity (sumf (length x + m) (fun n => nrm2 (filt x m c n)) / ofnat (length x) * ofnat (length x)); [field; exact HN0|].
    rewrite E. ring. }
  apply (filt_zero_coeff_zero x m c Hx); [|exact Hj].
  intros n Hn. exact (sum_nrm2_zero _ _ E' n Hn).
Qed.
(* ---------- ordered field: the side conditions of the algebraic theorems are automatic ---------- *)
Lemma energy_pos (x : list F) : (exists t, (t < length x)%nat /\ nthF x t <> 0) -> pos (energy x).
Proof.
  intros [t [Ht Hx]]. split; [apply energy_nonneg|]. intros E. apply Hx.
  exact (sum_nrm2_zero (length x) (fun j => nthF x j) E t Ht).
Qed.
Lemma mean_pow_pos (x : list F) : (exists t, (t < length x)%nat /\ nthF x t <> 0) -> pos (mean_pow x).
Proof.
  intros Hx. rewrite mean_pow_sumf. apply pos_div; [exact (energy_pos x Hx)|].
  apply pos_ofnat. destruct Hx as [t [Ht _]]. lia.
Qed.

(* the coeff-normalised autocorrelation of a non-zero sequence: 1 at lag 0, lagsum / sum|x|^2 elsewhere,
   and bounded by 1 in modulus *)
Theorem acorr_coeff_bound_thm (x : list F) oml r k :
  acorr_c x oml Coeff = inr r -> (exists t, (t < length x)%nat /\ nthF x t <> 0) ->
  (k <= the_ml (length x) oml)%nat ->
  nthF r O = 1 /\ ((1 <= k)%nat -> nthF r k = lagsum (length x) x x k / energy x) /\ le (nrm2 (nthF r k)) 1.
Proof.
  intros H Hx Hk. destruct (acorr_c_some _ _ _ _ H) as [_ HN]. assert (HN0 : ofnat (length x) <> 0) by apply HN.
  pose proof (energy_pos x Hx) as HE. assert (HE0 : energy x <> 0) by apply HE.
  pose proof (mean_pow_pos x Hx) as HM. assert (HM0 : mean_pow x <> 0) by apply HM.
  destruct (acorr_c_def_thm _ _ _ _ H) as (Hml & _ & _ & H0). cbv zeta in *.
  assert (Hk1 : (1 <= k)%nat -> nthF r k = lagsum (length x) x x k / energy x).
  { intros Hk1. rewrite (acorr_c_coeff_thm x oml r k H) by (try lia; assumption).
    rewrite mean_pow_sumf. fold (energy x). field. split; assumption. }
  split; [exact H0|]. split; [exact Hk1|].
  destruct (Nat.eq_dec k 0) as [->|Hk0].
  - rewrite H0. unfold nrm2. rewrite conj_1. apply (nonneg_eq 0); [ring|apply nonneg_0].
  - rewrite Hk1 by lia. set (s := lagsum _ _ _ _).
    assert (Er : conj (energy x) = energy x) by (apply nn_real; apply energy_nonneg).
    assert (E1 : nrm2 (s / energy x) = nrm2 s / (energy x * energy x)).
    { unfold nrm2. rewrite conj_div, Er by exact HE0. field. exact HE0. }
    assert (E2 : 1 = energy x * energy x / (energy x * energy x)) by (field; exact HE0).
    assert (Hkl : (k <= length x)%nat) by lia.
    pose proof (le_div_pos _ _ (energy x * energy x) (pos_mul _ _ HE HE) (lagsum_cs x k Hkl)) as Hle.
    rewrite <- E2 in Hle. fold s in Hle. rewrite E1. exact Hle.
Qed.

(* conj(r_yx[k]) at lag -k, without the characteristic side condition *)
Theorem xcorr_neg_ord_thm rp (x y : list F) oml nm rxy lxy ryx lyx k :
  xcorr_c rp x (Some y) oml nm = inr (rxy, lxy) -> xcorr_c rp y (Some x) oml nm = inr (ryx, lyx) ->
  (k <= the_ml (length x) oml)%nat -> pos rp ->
  nthF rxy (the_ml (length x) oml - k) = conj (nthF ryx (the_ml (length x) oml + k)).
Proof.
  intros Hxy Hyx Hk Hrp. apply (xcorr_c_neg_thm rp x y oml nm rxy lxy ryx lyx k Hxy Hyx Hk).
  - exact (pos_real rp Hrp).
  - apply Hrp.
  - intros n Hn. apply (pos_ofnat n). lia.
Qed.
End CorrOrd.
