(* HERMTOEP: the IR program generated from toeplitz.py computes the hand-written model, for ALL inputs of its domain.

   [prog_HERMTOEP_ref] is the loop-IR program that tools/props/_loopir.py generates from the source of
   spectrum.toeplitz.HERMTOEP at the commit this file was written for (kept verbatim below, between the BEGIN/END
   markers, as [prog_HERMTOEP_gen0]; the two are equal by reflexivity).  The check regenerates the program on every run
   and instantiates the theorems below only when the text is identical.

   PROVED (abstract field with conjugation [Laws]; any T0, any arrays T, Z with any dtype tags):
     hermtoep_ir_run   run prog_HERMTOEP_ref [T0; T; Z] =
                         T = []                                   -> AssertionError   (assert len(T) > 0)
                         feq T0 0 = true                          -> ValueError       (P == 0)
                         otherwise, for len(Z) >= len(T) + 1:
                            Model.Levinson.hermtoep T0 T Z = None -> ValueError       (P <= 0 at some stage)
                            = Some X                              -> ORet [complex array X]
     hermtoep_ir_tie   for a reflexive [feq]: tie_hermtoep = true whenever len(Z) >= len(T) + 1
   NOT PROVED: a right-hand side Z shorter than len(T)+1 (the code raises IndexError at Z[0] or at the stage that
   reads Z[k+1], unless a ValueError comes first; the model reads 0 there): outside the model's domain, exact
   evaluation only. *)
From Coq Require Import String ZArith List Lia Bool.
Require Import Spectrum.Theory.Ops Spectrum.Theory.Sum Spectrum.Theory.Vec Spectrum.Model.LoopIR Spectrum.Model.Levinson
               Spectrum.Model.LoopIRTie Spectrum.Proofs.LoopIRLevinson.
Import ListNotations.

(* slots 0=T0 1=T 2=Z 3=M 4=X 5=A 6=P 7=k 8=save 9=beta 10=temp 11=j 12=alpha 13=khalf 14=kj *)
Definition her_acc : stmt :=
  SFor 11 (EInt 0) (EVar 7) (EInt 1)
    (SSeq (SAssign 8 (EBin BAdd (EVar 8) (EBin BMul (EIndex (EVar 5) (EVar 11)) (EIndex (EVar 1) (EBin BSub (EBin BSub (EVar 7) (EVar 11)) (EInt 1))))))
          (SAssign 9 (EBin BAdd (EVar 9) (EBin BMul (EIndex (EVar 4) (EBin BAdd (EVar 11) (EInt 1))) (EIndex (EVar 1) (EBin BSub (EBin BSub (EVar 7) (EVar 11)) (EInt 1))))))).

Definition her_sym : stmt :=
  SFor 11 (EInt 0) (EVar 13) (EInt 1)
    (SSeq (SAssign 14 (EBin BSub (EBin BSub (EVar 7) (EVar 11)) (EInt 1)))
    (SSeq (SAssign 8 (EIndex (EVar 5) (EVar 11)))
    (SSeq (SStore 5 (EVar 11) (EBin BAdd (EVar 8) (EBin BMul (EVar 10) (EConj (EIndex (EVar 5) (EVar 14))))))
    (SIf (ECmp CNe (EVar 11) (EVar 14))
       (SStore 5 (EVar 14) (EBin BAdd (EIndex (EVar 5) (EVar 14)) (EBin BMul (EVar 10) (EConj (EVar 8)))))
       SSkip)))).

Definition her_xupd : stmt :=
  SFor 11 (EInt 0) (EBin BAdd (EVar 7) (EInt 1)) (EInt 1)
    (SStore 4 (EVar 11) (EBin BAdd (EIndex (EVar 4) (EVar 11)) (EBin BMul (EVar 12) (EConj (EIndex (EVar 5) (EBin BSub (EVar 7) (EVar 11))))))).

Definition her_temp : stmt :=
  SIf (ECmp CEq (EVar 7) (EInt 0))
    (SAssign 10 (EBin BDiv (ENeg (EVar 8)) (EVar 6)))
    (SSeq her_acc (SAssign 10 (EBin BDiv (ENeg (EVar 8)) (EVar 6)))).

Definition her_Pupd : stmt :=
  SAssign 6 (EBin BMul (EVar 6) (EBin BSub (ELit 1 0) (EBin BAdd (EBin BMul (EReal (EVar 10)) (EReal (EVar 10))) (EImagSq (EVar 10))))).

Definition her_first_then : stmt := SSeq (SStore 4 (EBin BAdd (EVar 7) (EInt 1)) (EVar 12)) (SSeq her_xupd SContinue).
Definition her_first : stmt := SIf (ECmp CEq (EVar 7) (EInt 0)) her_first_then SSkip.

Definition her_body : stmt :=
  SSeq (SAssign 8 (EIndex (EVar 1) (EVar 7)))
  (SSeq (SAssign 9 (EBin BMul (EIndex (EVar 4) (EInt 0)) (EIndex (EVar 1) (EVar 7))))
  (SSeq her_temp
  (SSeq her_Pupd
  (SSeq (SIf (ELe0 (EVar 6)) (SRaise ValueError) SSkip)
  (SSeq (SStore 5 (EVar 7) (EVar 10))
  (SSeq (SAssign 12 (EBin BDiv (EBin BSub (EIndex (EVar 2) (EBin BAdd (EVar 7) (EInt 1))) (EVar 9)) (EVar 6)))
  (SSeq her_first
  (SSeq (SAssign 13 (EBin BFloorDiv (EBin BAdd (EVar 7) (EInt 1)) (EInt 2)))
  (SSeq her_sym
  (SSeq (SStore 4 (EBin BAdd (EVar 7) (EInt 1)) (EVar 12))
        her_xupd)))))))))).

Local Open Scope string_scope.
Definition her_main : stmt :=
  SSeq (SAssert (ECmp CGt (ELen (EVar 1)) (EInt 0)))
  (SSeq (SAssign 3 (ELen (EVar 1)))
  (SSeq (SAssign 4 (EZeros (EBin BAdd (EVar 3) (EInt 1)) false))
  (SSeq (SAssign 5 (EZeros (EVar 3) false))
  (SSeq (SAssign 6 (EVar 0))
  (SSeq (SIf (ECmp CEq (EVar 6) (EInt 0)) (SRaise ValueError) SSkip)
  (SSeq (SStore 4 (EInt 0) (EBin BDiv (EIndex (EVar 2) (EInt 0)) (EVar 0)))
  (SSeq (SFor 7 (EInt 0) (EVar 3) (EInt 1) her_body)
        (SReturn [(EVar 4)])))))))).
Definition prog_HERMTOEP_ref : program := mkProgram "HERMTOEP" 3 [None; None; None] 15 her_main.

Section Her.
Context {F : Type} {OF : Ops F} {L : Laws OF}.
Variable feq : F -> F -> bool.
Variable stop : Z -> F -> F -> bool.
Local Open Scope F_scope.
Local Open Scope list_scope.
Add Field FFirh : (fth (O:=OF)).
Notation value := (@value F).
Notation store := (@store F).
Notation exec := (@exec F OF feq stop).

Definition hst (T0 T Z M X A P k save beta temp j alpha khalf kj : value) : store :=
  [T0; T; Z; M; X; A; P; k; save; beta; temp; j; alpha; khalf; kj].

Ltac ev := cbn [LoopIR.exec LoopIR.eval get set nth hst bind try asZ asArr asF ok err fst snd arith arithZ fop compare cmpF cmpZ eqne truthy eval_list].

(* the two accumulations of one pass *)
Lemma her_acc_ok vT0 tT T vZ vM tX X tA A vP m s0 b0 vtemp vj valpha vkh vkj :
  (m <= length A)%nat -> (m <= length T)%nat -> (m + 1 <= length X)%nat ->
  exists vj',
    exec her_acc (hst vT0 (VArr tT T) vZ vM (VArr tX X) (VArr tA A) vP (VI (Z.of_nat m)) (VF s0) (VF b0) vtemp vj valpha vkh vkj)
    = (hst vT0 (VArr tT T) vZ vM (VArr tX X) (VArr tA A) vP (VI (Z.of_nat m))
           (VF (lsum m (fun j => nthF A j * nthF T (m - j - 1)) s0))
           (VF (lsum m (fun j => nthF X (j + 1) * nthF T (m - j - 1)) b0)) vtemp vj' valpha vkh vkj, CNormal).
Proof.
  intros HA HT HX. unfold her_acc.
  cbn [LoopIR.exec LoopIR.eval get nth hst bind try asZ ok].
  rewrite range_vals_nat. cbn [try].
  match goal with |- exists vj', (let (st', c) := for_loop ?f ?x _ ?st in _) = _ =>
    destruct (for_loop_inv f x
      (fun i s => exists vj', s = hst vT0 (VArr tT T) vZ vM (VArr tX X) (VArr tA A) vP (VI (Z.of_nat m))
                                  (VF (lsum i (fun j => nthF A j * nthF T (m - j - 1)) s0))
                                  (VF (lsum i (fun j => nthF X (j + 1) * nthF T (m - j - 1)) b0)) vtemp vj' valpha vkh vkj) m st)
      as [s' [E [vj' I']]]
  end.
  - exists vj. reflexivity.
  - intros i s Hi [vj' ->].
    cbn [hst set]. cbn [LoopIR.exec LoopIR.eval get nth bind try asZ asArr asF ok arith arithZ fop fst snd].
    rewrite norm_index_nat by lia. cbn [bind].
    rewrite norm_index_ok by lia. cbn [bind ok arith asF fop try set LoopIR.exec LoopIR.eval get nth asArr asZ arithZ fst snd].
    rewrite (norm_index_ok (length X) (Z.of_nat i + 1)) by lia. cbn [bind].
    rewrite norm_index_ok by lia. cbn [bind ok arith asF fop try set].
    eexists. split; [reflexivity|]. exists (VI (Z.of_nat i)). cbn [lsum].
    replace (Z.to_nat (Z.of_nat m - Z.of_nat i - 1)) with (m - i - 1)%nat by lia.
    replace (Z.to_nat (Z.of_nat i + 1)) with (i + 1)%nat by lia. reflexivity.
  - exists vj'. rewrite E, I'. reflexivity.
Qed.

(* the in-place symmetric update of A (as in LEVINSON, complex branch) *)
Lemma her_sym_ok vT0 vT vZ vM vX tA B vP m vsave vbeta t vj valpha h vkj :
  (m <= length B)%nat -> (2 * h <= m + 1)%nat ->
  exists arr vsave' vj' vkj',
    exec her_sym (hst vT0 vT vZ vM vX (VArr tA B) vP (VI (Z.of_nat m)) vsave vbeta (VF t) vj valpha (VI (Z.of_nat h)) vkj)
    = (hst vT0 vT vZ vM vX (VArr tA arr) vP (VI (Z.of_nat m)) vsave' vbeta (VF t) vj' valpha (VI (Z.of_nat h)) vkj', CNormal)
    /\ length arr = length B
    /\ forall q, nthF arr q = if done2 m h q then upd2 true B t m q else nthF B q.
Proof.
  intros HB Hh. unfold her_sym.
  cbn [LoopIR.exec LoopIR.eval get nth hst bind try asZ ok].
  rewrite range_vals_nat. cbn [try].
  match goal with |- exists arr vsave' vj' vkj', (let (st', c) := for_loop ?f ?x _ ?st in _) = _ /\ _ =>
    destruct (for_loop_inv f x
      (fun i s => exists arr vsave' vj' vkj',
           s = hst vT0 vT vZ vM vX (VArr tA arr) vP (VI (Z.of_nat m)) vsave' vbeta (VF t) vj' valpha (VI (Z.of_nat h)) vkj'
           /\ length arr = length B
           /\ forall q, nthF arr q = if done2 m i q then upd2 true B t m q else nthF B q) h st)
      as [s' [E [arr [vs' [vj' [vkj' [I1 [I2 I3]]]]]]]]
  end.
  - exists B, vsave, vj, vkj. split; [reflexivity|]. split; [reflexivity|].
    intros q. unfold done2. replace (q <? 0)%nat with false by reflexivity. cbn [orb].
    destruct (Nat.ltb_spec (m - 1 - 0) q); destruct (Nat.ltb_spec q m); cbn [andb]; try reflexivity. lia.
  - intros i s Hi [arr [vs' [vj' [vkj' [-> [Hl Hn]]]]]].
    assert (Hi2 : (2 * i + 1 <= m)%nat) by lia.
    assert (Eold : forall q, (i <= q <= m - 1 - i)%nat -> nthF arr q = nthF B q).
    { intros q Hq. rewrite Hn. unfold done2.
      destruct (Nat.ltb_spec q i); [lia|]. destruct (Nat.ltb_spec (m - 1 - i) q); [lia|]. reflexivity. }
    cbn [hst set]. cbn [LoopIR.exec LoopIR.eval get nth bind try asZ asArr asF ok arith arithZ fop fst snd set].
    rewrite norm_index_nat by lia. cbn [bind try ok set get nth asArr asZ asF fst snd LoopIR.exec LoopIR.eval].
    rewrite norm_index_nat by lia. cbn [bind].
    assert (Ekj : (Z.of_nat m - Z.of_nat i - 1)%Z = Z.of_nat (m - 1 - i)) by lia.
    rewrite Ekj.
    rewrite norm_index_nat by lia. cbn [bind ok arith asF fop try set get nth compare cmpZ truthy LoopIR.exec LoopIR.eval asArr asZ fst snd].
    rewrite !Eold by lia.
    destruct (Z.eqb_spec (Z.of_nat i) (Z.of_nat (m - 1 - i))) as [Eq|Ne]; cbn [negb LoopIR.exec try bind LoopIR.eval get nth set asArr asZ ok fst snd].
    all: rewrite ?updF_length; rewrite ?norm_index_nat by lia;
         cbn [bind ok arith asF fop try set get nth asArr asZ fst snd LoopIR.eval]; rewrite ?updF_length.
    all: eexists; (split; [reflexivity|]); do 4 eexists; (split; [reflexivity|]); (split; [rewrite ?updF_length; exact Hl|]).
    all: intros q; rewrite ?nthF_updF by (rewrite ?updF_length; lia).
    all: rewrite ?Hn; unfold done2, upd2, cj.
    all: repeat match goal with
           | |- context [Nat.eqb ?a ?b] => destruct (Nat.eqb_spec a b)
           | |- context [Nat.ltb ?a ?b] => destruct (Nat.ltb_spec a b)
           end; cbn [orb andb]; try lia; subst; try reflexivity.
    all: repeat (f_equal; try lia).
  - exists arr, vs', vj', vkj'. rewrite E, I1. split; [reflexivity|]. split; assumption.
Qed.

(* X[j] += alpha * conj(A[k-j]) for j = 0..k *)
Lemma her_xupd_ok vT0 vT vZ vM tX X tA A vP m vsave vbeta vtemp vj alpha vkh vkj :
  (m + 1 <= length X)%nat -> (m + 1 <= length A)%nat ->
  exists arr vj',
    exec her_xupd (hst vT0 vT vZ vM (VArr tX X) (VArr tA A) vP (VI (Z.of_nat m)) vsave vbeta vtemp vj (VF alpha) vkh vkj)
    = (hst vT0 vT vZ vM (VArr tX arr) (VArr tA A) vP (VI (Z.of_nat m)) vsave vbeta vtemp vj' (VF alpha) vkh vkj, CNormal)
    /\ length arr = length X
    /\ forall q, nthF arr q = if (q <? m + 1)%nat then nthF X q + alpha * conj (nthF A (m - q)) else nthF X q.
Proof.
  intros HX HA. unfold her_xupd.
  cbn [LoopIR.exec LoopIR.eval get nth hst bind try asZ ok arith arithZ].
  replace (Z.of_nat m + 1)%Z with (Z.of_nat (m + 1)) by lia. rewrite range_vals_nat. cbn [try].
  match goal with |- exists arr vj', (let (st', c) := for_loop ?f ?x _ ?st in _) = _ /\ _ =>
    destruct (for_loop_inv f x
      (fun i s => exists arr vj',
           s = hst vT0 vT vZ vM (VArr tX arr) (VArr tA A) vP (VI (Z.of_nat m)) vsave vbeta vtemp vj' (VF alpha) vkh vkj
           /\ length arr = length X
           /\ forall q, nthF arr q = if (q <? i)%nat then nthF X q + alpha * conj (nthF A (m - q)) else nthF X q) (m + 1)%nat st)
      as [s' [E [arr [vj' [I1 [I2 I3]]]]]]
  end.
  - exists X, vj. split; [reflexivity|]. split; [reflexivity|]. intros q. reflexivity.
  - intros i s Hi [arr [vj' [-> [Hl Hn]]]].
    cbn [hst set]. cbn [LoopIR.exec LoopIR.eval get nth bind try asZ asArr asF ok arith arithZ fop fst snd].
    rewrite norm_index_nat by lia. cbn [bind LoopIR.eval get nth asArr asZ ok fst snd arith arithZ].
    rewrite norm_index_ok by lia. cbn [bind ok arith asF fop try set].
    eexists. split; [reflexivity|]. do 2 eexists. split; [reflexivity|]. split; [rewrite updF_length; exact Hl|].
    intros q. rewrite nthF_updF by lia. rewrite !Hn.
    replace (Z.to_nat (Z.of_nat m - Z.of_nat i)) with (m - i)%nat by lia.
    replace (i <? i)%nat with false by (symmetry; apply Nat.ltb_irrefl).
    destruct (Nat.eqb_spec q i) as [->|Nq].
    + replace (i <? S i)%nat with true by (symmetry; apply Nat.ltb_lt; lia). reflexivity.
    + destruct (Nat.ltb_spec q i); destruct (Nat.ltb_spec q (S i)); try lia; reflexivity.
  - exists arr, vj'. rewrite E, I1. split; [reflexivity|]. split; assumption.
Qed.

Lemma beta_sum (X T : list F) m :
  lsum m (fun j => nthF X (j + 1) * nthF T (m - j - 1)) (nthF X 0 * nthF T m) = sumL (mk (S m) (fun j => nthF X j * nthF T (m - j))).
Proof.
  rewrite lsum_sumf, sumL_mk, sumf_shift, Nat.sub_0_r. f_equal. apply sumf_ext. intros j _.
  rewrite Nat.add_1_r. do 2 f_equal. lia.
Qed.

Lemma xupd_result (Xm A' : list F) alpha M m (arr : list F) :
  length Xm = (m + 1)%nat -> length A' = S m -> (m < M)%nat ->
  length arr = length ((Xm ++ [alpha]) ++ zeros (M - S m)) ->
  (forall q, nthF arr q = if (q <? m + 1)%nat
                          then nthF ((Xm ++ [alpha]) ++ zeros (M - S m)) q + alpha * conj (nthF (A' ++ zeros (M - S m)) (m - q))
                          else nthF ((Xm ++ [alpha]) ++ zeros (M - S m)) q) ->
  arr = (mk (S m) (fun j => nthF Xm j + alpha * conj (nthF A' (m - j))) ++ [alpha]) ++ zeros (M - S m).
Proof.
  intros HX HA Hm Hl Hn. apply list_eq_nth.
  - rewrite Hl, !app_length, mk_length. cbn [length]. lia.
  - intros q _. rewrite Hn. destruct (Nat.ltb_spec q (m + 1)) as [Hq|Hq].
    + rewrite <- !app_assoc. rewrite nthF_app_l by lia. rewrite nthF_app_zeros.
      rewrite nthF_app_l by (rewrite mk_length; lia). rewrite nth_mk by lia. reflexivity.
    + apply nthF_tail_indep; [rewrite mk_length; lia|lia].
Qed.

Lemma her_body_ok vT0 tT T tZ Z M tX Xm tA A P m vk vsave vbeta vtemp vj valpha vkh vkj :
  (m < M)%nat -> (M <= length T)%nat -> (M + 1 <= length Z)%nat -> length A = m -> length Xm = (m + 1)%nat ->
  match herm_step T Z (A, P, Xm) m with
  | None => exists s',
      exec her_body (set (hst vT0 (VArr tT T) (VArr tZ Z) (VI (Z.of_nat M)) (VArr tX (Xm ++ zeros (M - m))) (VArr tA (A ++ zeros (M - m)))
                              (VF P) vk vsave vbeta vtemp vj valpha vkh vkj) 7 (VI (Z.of_nat m)))
      = (s', CErr ValueError)
  | Some (A', P', X') => exists vsave' vbeta' vtemp' vj' valpha' vkh' vkj' ctl',
      exec her_body (set (hst vT0 (VArr tT T) (VArr tZ Z) (VI (Z.of_nat M)) (VArr tX (Xm ++ zeros (M - m))) (VArr tA (A ++ zeros (M - m)))
                              (VF P) vk vsave vbeta vtemp vj valpha vkh vkj) 7 (VI (Z.of_nat m)))
      = (hst vT0 (VArr tT T) (VArr tZ Z) (VI (Z.of_nat M)) (VArr tX (X' ++ zeros (M - S m))) (VArr tA (A' ++ zeros (M - S m)))
             (VF P') (VI (Z.of_nat m)) vsave' vbeta' vtemp' vj' valpha' vkh' vkj', ctl')
      /\ (ctl' = CNormal \/ ctl' = CContinue) /\ length A' = S m /\ length X' = (S m + 1)%nat
  end.
Proof.
  intros Hm HM HZ HA HX.
  unfold herm_step.
  set (beta := sumL (mk (S m) (fun j => nthF Xm j * nthF T (m - j)))).
  set (k := (- lev_delta T A m) / P). set (P' := P * (1 - k * conj k)).
  set (alpha := (nthF Z (S m) - beta) / P').
  pose (ST := fun (x a : list F) (p : F) (sv bt tmp j al kh kj : value) =>
     [vT0; VArr tT T; VArr tZ Z; VI (Z.of_nat M); VArr tX x; VArr tA a; VF p; VI (Z.of_nat m); sv; bt; tmp; j; al; kh; kj]).
  unfold her_body, hst. cbn [set].
  (* save = T[m]; beta = X[0]*T[m] *)
  erewrite exec_seq; [|ev; rewrite norm_index_nat by lia; ev; reflexivity].
  erewrite exec_seq.
  2:{ ev. rewrite norm_index_ok by (rewrite app_length; lia). ev. rewrite norm_index_nat by lia. ev.
      change (Z.to_nat 0) with 0%nat. rewrite nthF_app_zeros. reflexivity. }
  (* the accumulations, temp = -save/P *)
  assert (Esave : lsum m (fun j => nthF (A ++ zeros (M - m)) j * nthF T (m - j - 1)) (nthF T m) = lev_delta T A m).
  { rewrite lsum_sumf. unfold lev_delta. rewrite sumL_mk. f_equal. apply sumf_ext. intros j _. rewrite nthF_app_zeros. reflexivity. }
  assert (Ebeta : lsum m (fun j => nthF (Xm ++ zeros (M - m)) (j + 1) * nthF T (m - j - 1)) (nthF Xm 0 * nthF T m) = beta).
  { unfold beta. rewrite <- beta_sum. rewrite !lsum_sumf. f_equal. apply sumf_ext. intros j _. rewrite nthF_app_zeros. reflexivity. }
  assert (E2 : exists vj1,
     exec her_temp (ST (Xm ++ zeros (M - m)) (A ++ zeros (M - m)) P (VF (nthF T m)) (VF (nthF Xm 0 * nthF T m)) vtemp vj valpha vkh vkj)
     = (ST (Xm ++ zeros (M - m)) (A ++ zeros (M - m)) P (VF (lev_delta T A m)) (VF beta) (VF k) vj1 valpha vkh vkj, CNormal)).
  { unfold ST, her_temp. destruct (Nat.eq_dec m 0) as [E0|N0].
    - exists vj. ev. replace (Z.of_nat m =? 0)%Z with true by (symmetry; apply Z.eqb_eq; lia). ev.
      unfold k. rewrite <- Esave, <- Ebeta. rewrite E0. reflexivity.
    - ev. replace (Z.of_nat m =? 0)%Z with false by (symmetry; apply Z.eqb_neq; lia). ev.
      destruct (her_acc_ok vT0 tT T (VArr tZ Z) (VI (Z.of_nat M)) tX (Xm ++ zeros (M - m)) tA (A ++ zeros (M - m)) (VF P) m
                  (nthF T m) (nthF Xm 0 * nthF T m) vtemp vj valpha vkh vkj) as [vj1 E1].
      { rewrite app_length. lia. } { lia. } { rewrite app_length. lia. }
      unfold hst in E1. rewrite E1. ev. rewrite Esave, Ebeta. exists vj1. reflexivity. }
  destruct E2 as [vj1 E2]. unfold ST in E2. erewrite exec_seq by exact E2. clear E2.
  (* P = P * (1 - |temp|^2) *)
  erewrite exec_seq; [|unfold her_Pupd; ev; rewrite lit_1, nrm2_parts; reflexivity].
  fold k. fold P'.
  (* the singularity test *)
  assert (E4 : exec (SIf (ELe0 (EVar 6)) (SRaise ValueError) SSkip)
                 (ST (Xm ++ zeros (M - m)) (A ++ zeros (M - m)) P' (VF (lev_delta T A m)) (VF beta) (VF k) vj1 valpha vkh vkj)
               = (ST (Xm ++ zeros (M - m)) (A ++ zeros (M - m)) P' (VF (lev_delta T A m)) (VF beta) (VF k) vj1 valpha vkh vkj,
                  if le0 P' then CErr ValueError else CNormal)).
  { unfold ST. ev. destruct (le0 P'); ev; reflexivity. }
  unfold ST in E4.
  destruct (le0 P') eqn:Hs.
  { eexists. apply exec_seq_stop; [exact E4|discriminate]. }
  erewrite exec_seq by exact E4. clear E4.
  (* A[m] = temp *)
  erewrite exec_seq.
  2:{ ev. rewrite norm_index_nat by (rewrite app_length, zeros_length; lia). ev.
      rewrite (updF_app_zeros' A M m k HA Hm). reflexivity. }
  (* alpha = (Z[m+1] - beta)/P *)
  erewrite exec_seq.
  2:{ ev. rewrite norm_index_ok by lia. ev. replace (Z.to_nat (Z.of_nat m + 1)) with (S m) by lia. reflexivity. }
  fold alpha.
  assert (EX1 : forall (a : list F) sv bt tmp j kh kj,
            exec (SStore 4 (EBin BAdd (EVar 7) (EInt 1)) (EVar 12)) (ST (Xm ++ zeros (M - m)) a P' sv bt tmp j (VF alpha) kh kj)
            = (ST ((Xm ++ [alpha]) ++ zeros (M - S m)) a P' sv bt tmp j (VF alpha) kh kj, CNormal)).
  { intros. unfold ST. ev. rewrite norm_index_ok by (rewrite app_length, zeros_length; lia). ev.
    replace (Z.to_nat (Z.of_nat m + 1)) with (m + 1)%nat by lia.
    pose proof (updF_app_zeros' Xm (M + 1) (m + 1) alpha HX ltac:(lia)) as EU.
    replace (M + 1 - (m + 1))%nat with (M - m)%nat in EU by lia.
    replace (M + 1 - S (m + 1))%nat with (M - S m)%nat in EU by lia. rewrite EU. reflexivity. }
  assert (HA' : length (stepup A k) = S m) by (unfold stepup; rewrite app_length, mk_length; cbn [length]; lia).
  assert (HX' : length (mk (S m) (fun j => nthF Xm j + alpha * conj (nthF (stepup A k) (m - j))) ++ [alpha]) = (S m + 1)%nat)
    by (rewrite app_length, mk_length; reflexivity).
  destruct (Nat.eq_dec m 0) as [E0|N0].
  { (* order 1: X[1] = alpha, update of X[0], continue *)
    assert (EA0 : A = []) by (destruct A; [reflexivity|cbn [length] in HA; lia]).
    unfold her_first.
    destruct (her_xupd_ok vT0 (VArr tT T) (VArr tZ Z) (VI (Z.of_nat M)) tX ((Xm ++ [alpha]) ++ zeros (M - S m)) tA
                ((A ++ [k]) ++ zeros (M - S m)) (VF P') m (VF (lev_delta T A m)) (VF beta) (VF k) vj1 alpha vkh vkj)
      as [arr [vj2 [E [Hl Hn]]]].
    { rewrite !app_length. cbn [length]. lia. } { rewrite !app_length. cbn [length]. lia. }
    exists (VF (lev_delta T A m)), (VF beta), (VF k), vj2, (VF alpha), vkh, vkj, CContinue. split; [|split; [right; reflexivity|split; assumption]].
    erewrite exec_seq_stop; [| ev; replace (Z.of_nat m =? 0)%Z with true by (symmetry; apply Z.eqb_eq; lia); ev; unfold her_first_then;
                               (erewrite exec_seq; [|apply (EX1 ((A ++ [k]) ++ zeros (M - S m)))]);
                               unfold ST; unfold hst in E; (erewrite exec_seq by exact E); reflexivity | discriminate].
    rewrite (xupd_result Xm (stepup A k) alpha M m arr HX); try assumption.
    - rewrite EA0. reflexivity.
    - intros q. rewrite Hn. rewrite EA0. reflexivity. }
  erewrite exec_seq; [|unfold her_first; ev; replace (Z.of_nat m =? 0)%Z with false by (symmetry; apply Z.eqb_neq; lia); ev; reflexivity].
  (* khalf = (m+1)//2 *)
  erewrite exec_seq; [|ev; change (2 =? 0)%Z with false; cbv iota;
                       replace ((Z.of_nat m + 1) / 2)%Z with (Z.of_nat ((m + 1) / 2)) by (rewrite Nat2Z.inj_div, Nat2Z.inj_add; reflexivity);
                       ev; reflexivity].
  (* the in-place symmetric update of A *)
  destruct (her_sym_ok vT0 (VArr tT T) (VArr tZ Z) (VI (Z.of_nat M)) (VArr tX (Xm ++ zeros (M - m))) tA ((A ++ [k]) ++ zeros (M - S m))
              (VF P') m (VF (lev_delta T A m)) (VF beta) k vj1 (VF alpha) ((m + 1) / 2) vkj)
    as [arrA [vs' [vj' [vkj' [E [Hl Hn]]]]]].
  { rewrite !app_length. cbn [length]. lia. }
  { pose proof (Nat.mul_div_le (m + 1) 2). lia. }
  unfold hst in E. erewrite exec_seq by exact E. clear E.
  rewrite (inner2_result true A k M m arrA ((m + 1) / 2) HA Hm eq_refl Hl Hn).
  change (gstepup true A k) with (stepup A k).
  (* X[m+1] = alpha; X[j] += alpha*conj(A[m-j]) *)
  erewrite exec_seq; [|apply (EX1 (stepup A k ++ zeros (M - S m)))].
  destruct (her_xupd_ok vT0 (VArr tT T) (VArr tZ Z) (VI (Z.of_nat M)) tX ((Xm ++ [alpha]) ++ zeros (M - S m)) tA
              (stepup A k ++ zeros (M - S m)) (VF P') m vs' (VF beta) (VF k) vj' alpha (VI (Z.of_nat ((m + 1) / 2))) vkj')
    as [arr [vj2 [E [Hl2 Hn2]]]].
  { rewrite !app_length. cbn [length]. lia. } { rewrite app_length. lia. }
  unfold ST. unfold hst in E. rewrite E.
  exists vs', (VF beta), (VF k), vj2, (VF alpha), (VI (Z.of_nat ((m + 1) / 2))), vkj', CNormal. split; [|split; [left; reflexivity|split; assumption]].
  rewrite (xupd_result Xm (stepup A k) alpha M m arr HX HA' Hm Hl2 Hn2). reflexivity.
Qed.
End Her.

Section HerMain.
Context {F : Type} {OF : Ops F} {L : Laws OF}.
Variable feq : F -> F -> bool.
Variable stop : Z -> F -> F -> bool.
Local Open Scope F_scope.
Local Open Scope list_scope.
Notation value := (@value F).
Notation store := (@store F).
Notation exec := (@exec F OF feq stop).
Ltac ev := cbn [LoopIR.exec LoopIR.eval get set nth hst bind try asZ asArr asF ok err fst snd arith arithZ fop compare cmpF cmpZ eqne truthy eval_list].

Lemma her_outer_ok vT0 tT T tZ Z M tX tA T0 vk vsave vbeta vtemp vj valpha vkh vkj :
  (M <= length T)%nat -> (M + 1 <= length Z)%nat -> forall m, (m <= M)%nat ->
  match herm_iter T Z T0 m with
  | Some (A, P, Xm) => exists vk' vsave' vbeta' vtemp' vj' valpha' vkh' vkj',
      for_loop (exec her_body) 7 (range_from 0 1 m)
        (hst vT0 (VArr tT T) (VArr tZ Z) (VI (Z.of_nat M)) (VArr tX ([nthF Z 0 / T0] ++ zeros M)) (VArr tA (zeros M)) (VF T0)
             vk vsave vbeta vtemp vj valpha vkh vkj)
      = (hst vT0 (VArr tT T) (VArr tZ Z) (VI (Z.of_nat M)) (VArr tX (Xm ++ zeros (M - m))) (VArr tA (A ++ zeros (M - m))) (VF P)
             vk' vsave' vbeta' vtemp' vj' valpha' vkh' vkj', CNormal)
      /\ length A = m /\ length Xm = (m + 1)%nat
  | None => exists s',
      for_loop (exec her_body) 7 (range_from 0 1 m)
        (hst vT0 (VArr tT T) (VArr tZ Z) (VI (Z.of_nat M)) (VArr tX ([nthF Z 0 / T0] ++ zeros M)) (VArr tA (zeros M)) (VF T0)
             vk vsave vbeta vtemp vj valpha vkh vkj)
      = (s', CErr ValueError)
  end.
Proof.
  intros HM HZ m. induction m as [|m IH]; intros Hm.
  - cbn [herm_iter range_from for_loop]. exists vk, vsave, vbeta, vtemp, vj, valpha, vkh, vkj. rewrite Nat.sub_0_r. cbn [app]. repeat split.
  - rewrite range_from_S, for_loop_app. cbn [herm_iter].
    specialize (IH ltac:(lia)). destruct (herm_iter T Z T0 m) as [[[A P] Xm]|].
    + destruct IH as [vk' [vs' [vb' [vt' [vj' [va' [vkh' [vkj' [E [HA HX]]]]]]]]]]. rewrite E. cbn [for_loop].
      pose proof (her_body_ok feq stop vT0 tT T tZ Z M tX Xm tA A P m vk' vs' vb' vt' vj' va' vkh' vkj' ltac:(lia) HM HZ HA HX) as B.
      destruct (herm_step T Z (A, P, Xm) m) as [[[A' P'] X']|] eqn:Es.
      * destruct B as [vs2 [vb2 [vt2 [vj2 [va2 [vkh2 [vkj2 [ctl2 [E2 [Hc [LA LX]]]]]]]]]]]. rewrite E2.
        exists (VI (Z.of_nat m)), vs2, vb2, vt2, vj2, va2, vkh2, vkj2.
        split; [destruct Hc as [-> | ->]; reflexivity|]. lia.
      * destruct B as [s' E2]. rewrite E2. exists s'. reflexivity.
    + destruct IH as [s' E]. rewrite E. exists s'. reflexivity.
Qed.

Lemma her_main_ok (t0 : F) tT (T : list F) tZ (Z : list F) :
  (T = [] \/ feq t0 0 = true \/ (length T + 1 <= length Z)%nat) ->
  exists s',
    exec her_main [VF t0; VArr tT T; VArr tZ Z; VUnbound; VUnbound; VUnbound; VUnbound; VUnbound; VUnbound; VUnbound; VUnbound; VUnbound;
                   VUnbound; VUnbound; VUnbound]
    = (s', if Nat.eqb (length T) 0 then CErr AssertionError
           else if feq t0 0 then CErr ValueError
           else match hermtoep t0 T Z with
                | Some X => CRet [VArr false X]
                | None => CErr ValueError
                end).
Proof.
  intros Hdom. unfold her_main.
  destruct (Nat.eqb_spec (length T) 0) as [E0|N0].
  { eexists. apply exec_seq_stop; [|discriminate]. ev. rewrite E0. reflexivity. }
  erewrite exec_seq; [|ev; replace (0 <? Z.of_nat (length T))%Z with true by (symmetry; apply Z.ltb_lt; lia); reflexivity].
  erewrite exec_seq; [|ev; reflexivity].
  set (M := length T) in *.
  erewrite exec_seq.
  2:{ ev. replace (Z.of_nat M + 1 <? 0)%Z with false by (symmetry; apply Z.ltb_ge; lia).
      replace (Z.to_nat (Z.of_nat M + 1)) with (S M) by lia. reflexivity. }
  erewrite exec_seq.
  2:{ ev. replace (Z.of_nat M <? 0)%Z with false by (symmetry; apply Z.ltb_ge; lia). rewrite Nat2Z.id. reflexivity. }
  erewrite exec_seq; [|ev; reflexivity].
  destruct (feq t0 0) eqn:Et0.
  { eexists. apply exec_seq_stop; [|discriminate]. ev. change (@ofZ F OF 0) with (@zero F OF). rewrite Et0. reflexivity. }
  erewrite exec_seq; [|ev; change (@ofZ F OF 0) with (@zero F OF); rewrite Et0; reflexivity].
  assert (HZ : (M + 1 <= length Z)%nat).
  { destruct Hdom as [H|[H|H]]; [exfalso; apply N0; unfold M; rewrite H; reflexivity|discriminate|exact H]. }
  erewrite exec_seq.
  2:{ ev. rewrite norm_index_ok by (rewrite mk_length; lia). ev. rewrite norm_index_ok by lia. ev.
      change (Z.to_nat 0) with 0%nat. fold (zeros (S M)). rewrite zeros_S. cbn [updF]. reflexivity. }
  pose proof (her_outer_ok (VF t0) tT T tZ Z M false false t0 VUnbound VUnbound VUnbound VUnbound VUnbound VUnbound VUnbound VUnbound
                (le_n M) HZ M (le_n M)) as O.
  unfold hst in O. cbn [app] in O. fold (zeros M).
  unfold hermtoep. fold M.
  destruct (herm_iter T Z t0 M) as [[[A P] Xm]|].
  - destruct O as [vk' [vs' [vb' [vt' [vj' [va' [vkh' [vkj' [E [HA HX]]]]]]]]]].
    erewrite exec_seq; [|ev; rewrite range_vals_nat; cbn [try]; rewrite E; reflexivity].
    eexists. ev. rewrite Nat.sub_diag. change (@zeros F OF 0) with (@nil F). rewrite !app_nil_r. reflexivity.
  - destruct O as [s' E]. exists s'. apply exec_seq_stop; [|discriminate].
    ev. rewrite range_vals_nat. cbn [try]. rewrite E. reflexivity.
Qed.

Theorem hermtoep_ir_run (t0 : F) tT (T : list F) tZ (Z : list F) :
  (T = [] \/ feq t0 0 = true \/ (length T + 1 <= length Z)%nat) ->
  run feq stop prog_HERMTOEP_ref [Some (VF t0); Some (VArr tT T); Some (VArr tZ Z)] =
  if Nat.eqb (length T) 0 then OErr AssertionError
  else if feq t0 0 then OErr ValueError
  else match hermtoep t0 T Z with
       | Some X => ORet [VArr false X]
       | None => OErr ValueError
       end.
Proof.
  intros Hdom. destruct (her_main_ok t0 tT T tZ Z Hdom) as [s' E].
  unfold run, prog_HERMTOEP_ref. cbn [p_defaults p_body p_nslots p_nparams Nat.sub bind_args bind ok app repeat].
  rewrite E. destruct (Nat.eqb (length T) 0); [reflexivity|]. destruct (feq t0 0); [reflexivity|].
  destruct (hermtoep t0 T Z); reflexivity.
Qed.
End HerMain.

Section HerTie.
Context {F : Type} {OF : Ops F} {L : Laws OF}.
Variable feq : F -> F -> bool.
Hypothesis feq_refl : forall a, feq a a = true.
Local Open Scope F_scope.
Local Open Scope list_scope.

Lemma leq_refl_h (l : list F) : leq feq l l = true.
Proof.
  unfold leq. rewrite Nat.eqb_refl. cbn [andb]. induction l as [|a l IH]; [reflexivity|].
  cbn [combine forallb fst snd]. rewrite feq_refl, IH. reflexivity.
Qed.

Theorem hermtoep_ir_tie (t0 : F) (T Z : list F) :
  (length T + 1 <= length Z)%nat -> tie_hermtoep feq prog_HERMTOEP_ref t0 T Z = true.
Proof.
  intros HZ. unfold tie_hermtoep.
  rewrite (hermtoep_ir_run feq (@nostop F) t0 false T false Z) by (right; right; exact HZ).
  destruct (Nat.eqb (length T) 0); [reflexivity|]. destruct (feq t0 0); [reflexivity|].
  destruct (hermtoep t0 T Z) as [X|]; [apply leq_refl_h|reflexivity].
Qed.
End HerTie.

(* BEGIN GENERATED HERMTOEP (verbatim output of tools/props/_loopir.py for spectrum.toeplitz.HERMTOEP) *)
(* HERMTOEP: slots 0=T0 1=T 2=Z 3=M 4=X 5=A 6=P 7=k 8=save 9=beta 10=temp 11=j 12=alpha 13=khalf 14=kj *)
Definition prog_HERMTOEP_gen0 : program := mkProgram "HERMTOEP" 3 [None; None; None] 15
(SSeq (SAssert (ECmp CGt (ELen (EVar 1)) (EInt 0)))
(SSeq (SAssign 3 (ELen (EVar 1)))
(SSeq (SAssign 4 (EZeros (EBin BAdd (EVar 3) (EInt 1)) false))
(SSeq (SAssign 5 (EZeros (EVar 3) false))
(SSeq (SAssign 6 (EVar 0))
(SSeq (SIf (ECmp CEq (EVar 6) (EInt 0))
(SRaise ValueError)
(SSkip))
(SSeq (SStore 4 (EInt 0) (EBin BDiv (EIndex (EVar 2) (EInt 0)) (EVar 0)))
(SSeq (SFor 7 (EInt 0) (EVar 3) (EInt 1)
(SSeq (SAssign 8 (EIndex (EVar 1) (EVar 7)))
(SSeq (SAssign 9 (EBin BMul (EIndex (EVar 4) (EInt 0)) (EIndex (EVar 1) (EVar 7))))
(SSeq (SIf (ECmp CEq (EVar 7) (EInt 0))
(SAssign 10 (EBin BDiv (ENeg (EVar 8)) (EVar 6)))
(SSeq (SFor 11 (EInt 0) (EVar 7) (EInt 1)
(SSeq (SAssign 8 (EBin BAdd (EVar 8) (EBin BMul (EIndex (EVar 5) (EVar 11)) (EIndex (EVar 1) (EBin BSub (EBin BSub (EVar 7) (EVar 11)) (EInt 1))))))
(SAssign 9 (EBin BAdd (EVar 9) (EBin BMul (EIndex (EVar 4) (EBin BAdd (EVar 11) (EInt 1))) (EIndex (EVar 1) (EBin BSub (EBin BSub (EVar 7) (EVar 11)) (EInt 1))))))))
(SAssign 10 (EBin BDiv (ENeg (EVar 8)) (EVar 6)))))
(SSeq (SAssign 6 (EBin BMul (EVar 6) (EBin BSub (ELit 1 0) (EBin BAdd (EBin BMul (EReal (EVar 10)) (EReal (EVar 10))) (EImagSq (EVar 10))))))
(SSeq (SIf (ELe0 (EVar 6))
(SRaise ValueError)
(SSkip))
(SSeq (SStore 5 (EVar 7) (EVar 10))
(SSeq (SAssign 12 (EBin BDiv (EBin BSub (EIndex (EVar 2) (EBin BAdd (EVar 7) (EInt 1))) (EVar 9)) (EVar 6)))
(SSeq (SIf (ECmp CEq (EVar 7) (EInt 0))
(SSeq (SStore 4 (EBin BAdd (EVar 7) (EInt 1)) (EVar 12))
(SSeq (SFor 11 (EInt 0) (EBin BAdd (EVar 7) (EInt 1)) (EInt 1)
(SStore 4 (EVar 11) (EBin BAdd (EIndex (EVar 4) (EVar 11)) (EBin BMul (EVar 12) (EConj (EIndex (EVar 5) (EBin BSub (EVar 7) (EVar 11))))))))
(SContinue)))
(SSkip))
(SSeq (SAssign 13 (EBin BFloorDiv (EBin BAdd (EVar 7) (EInt 1)) (EInt 2)))
(SSeq (SFor 11 (EInt 0) (EVar 13) (EInt 1)
(SSeq (SAssign 14 (EBin BSub (EBin BSub (EVar 7) (EVar 11)) (EInt 1)))
(SSeq (SAssign 8 (EIndex (EVar 5) (EVar 11)))
(SSeq (SStore 5 (EVar 11) (EBin BAdd (EVar 8) (EBin BMul (EVar 10) (EConj (EIndex (EVar 5) (EVar 14))))))
(SIf (ECmp CNe (EVar 11) (EVar 14))
(SStore 5 (EVar 14) (EBin BAdd (EIndex (EVar 5) (EVar 14)) (EBin BMul (EVar 10) (EConj (EVar 8)))))
(SSkip))))))
(SSeq (SStore 4 (EBin BAdd (EVar 7) (EInt 1)) (EVar 12))
(SFor 11 (EInt 0) (EBin BAdd (EVar 7) (EInt 1)) (EInt 1)
(SStore 4 (EVar 11) (EBin BAdd (EIndex (EVar 4) (EVar 11)) (EBin BMul (EVar 12) (EConj (EIndex (EVar 5) (EBin BSub (EVar 7) (EVar 11))))))))))))))))))))
(SReturn [(EVar 4)]))))))))).

(* END GENERATED HERMTOEP *)
Example prog_HERMTOEP_ref_is_generated : prog_HERMTOEP_ref = prog_HERMTOEP_gen0.
Proof. reflexivity. Qed.
