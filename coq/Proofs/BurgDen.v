(* The recursive denominator of arburg IS the forward+backward error energy of the stage,
   and each reflection coefficient minimises that energy. *)
Require Import Spectrum.Theory.Ops Spectrum.Theory.Sum Spectrum.Theory.Vec Spectrum.Model.Levinson
               Spectrum.Model.Burg Spectrum.Proofs.BurgStage Spectrum.Proofs.BurgTheory.

Section BurgDen.
Context {F : Type} {OF : Ops F} {L : Laws OF}.
Local Open Scope F_scope.
Add Field FFbd : (fth (O:=OF)).

(* aligned stage inputs read off a state: f j = ef[j+m+1], b j = eb[j+m] *)
Definition st_f (st : burg_st) (m : nat) : nat -> F := fun j => nthF (b_ef st) (j + m + 1).
Definition st_b (st : burg_st) (m : nat) : nat -> F := fun j => nthF (b_eb st) (j + m).
Definition stage_energy (N : nat) (st : burg_st) (m : nat) : F := stageD (N - m - 1) (st_f st m) (st_b st m).

Lemma stageD_real n f b : conj (stageD n f b) = stageD n f b.
Proof.
  unfold stageD. rewrite sumf_conj. apply sumf_ext; intros j _.
  rewrite conj_add, !nrm2_real. reflexivity.
Qed.

Lemma num_is_stageC N st m : burg_num N (b_ef st) (b_eb st) m = stageC (N - m - 1) (st_f st m) (st_b st m).
Proof. unfold burg_num, stageC, st_f, st_b. rewrite sumL_mk. reflexivity. Qed.

Lemma sum_edges (n : nat) (g : nat -> F) :
  sumf n (fun j => g (S j) + g j) = (1 + 1) * sumf (S n) g - g O - g n.
Proof.
  rewrite sumf_add.
  assert (A : sumf n (fun j => g (S j)) = sumf (S n) g - g O) by (rewrite sumf_shift; ring).
  assert (B : sumf n g = sumf (S n) g - g n) by (rewrite sumf_S; ring).
  rewrite A, B. rewrite <- B. rewrite B at 1. ring.
Qed.

Lemma sumL_map_nrm2 (x : list F) : sumL (map nrm2 x) = sumf (length x) (fun j => nrm2 (nthF x j)).
Proof.
  rewrite sumL_sumf, map_length. apply sumf_ext; intros j Hj.
  apply nthF_map. unfold nrm2. ring.
Qed.

Lemma den_init (x : list F) : ofnat (length x) <> 0 -> (1 <= length x)%nat ->
  burg_den (length x) (burg_init x) O = stage_energy (length x) (burg_init x) O.
Proof.
  intros HN H1. unfold burg_den, stage_energy, stageD, st_f, st_b, burg_init; cbn [b_temp b_den b_ef b_eb].
  unfold mean_power. rewrite sumL_map_nrm2.
  rewrite (sumf_ext (length x - 0 - 1) _ (fun j => (fun i => nrm2 (nthF x i)) (S j) + (fun i => nrm2 (nthF x i)) j)).
  2:{ intros j _. cbn beta. do 2 f_equal; f_equal; lia. }
  rewrite (sum_edges (length x - 0 - 1) (fun i => nrm2 (nthF x i))). replace (S (length x - 0 - 1)) with (length x) by lia.
  replace (length x - 0 - 1)%nat with (length x - 1)%nat by lia.
  unfold two. field. exact HN.
Qed.

Lemma den_step (x : list F) m st st' : (S m < length x)%nat ->
  length (b_ef st) = length x -> length (b_eb st) = length x ->
  burg_den (length x) st m = stage_energy (length x) st m ->
  burg_den (length x) st m <> 0 ->
  burg_step no_stop (length x) st m = BCont st' ->
  burg_den (length x) st' (S m) = stage_energy (length x) st' (S m).
Proof.
  intros Hm He Hb HD Hne Hs. set (N := length x) in *.
  unfold burg_step, no_stop in Hs. destruct (le0 _); [discriminate|]. injection Hs as <-.
  set (kp := burg_kp N st m). set (n := (N - m - 1)%nat).
  assert (Kdef : kp * stageD n (st_f st m) (st_b st m) = - ((1 + 1) * stageC n (st_f st m) (st_b st m))).
  { unfold kp, burg_kp. rewrite num_is_stageC. fold n. unfold stage_energy in HD. fold n in HD. rewrite <- HD.
    unfold two. field. exact Hne. }
  pose proof (burg_den_next n (st_f st m) (st_b st m) kp Kdef (stageD_real _ _ _) ltac:(unfold n; lia)) as Hnext.
  unfold burg_den at 1. cbn [b_temp b_den b_ef b_eb].
  rewrite HD. unfold stage_energy. fold n.
  assert (Ef : forall j, (j < n)%nat ->
     nthF (mk N (fun j0 => if (m <? j0)%nat then nthF (b_ef st) j0 + kp * nthF (b_eb st) (j0 - 1) else nthF (b_ef st) j0)) (j + m + 1)
     = stage_f' (st_f st m) (st_b st m) kp j).
  { intros j Hj. rewrite nth_mk by (unfold n in Hj; lia). destruct (Nat.ltb_spec m (j + m + 1)); [|lia].
    unfold stage_f', st_f, st_b. do 3 f_equal. lia. }
  assert (Eb : forall j, (j < n)%nat ->
     nthF (mk N (fun j0 => if (m <? j0)%nat then nthF (b_eb st) (j0 - 1) + conj kp * nthF (b_ef st) j0 else nthF (b_eb st) j0)) (j + m + 1)
     = stage_b' (st_f st m) (st_b st m) kp j).
  { intros j Hj. rewrite nth_mk by (unfold n in Hj; lia). destruct (Nat.ltb_spec m (j + m + 1)); [|lia].
    unfold stage_b', st_f, st_b. f_equal. f_equal. lia. }
  transitivity ((1 - kp * conj kp) * stageD n (st_f st m) (st_b st m)
                - nrm2 (stage_f' (st_f st m) (st_b st m) kp O) - nrm2 (stage_b' (st_f st m) (st_b st m) kp (n - 1))).
  { rewrite <- (Ef O) by (unfold n; lia). rewrite <- (Eb (n - 1)%nat) by (unfold n; lia).
    replace (0 + m + 1)%nat with (S m) by lia. replace (n - 1 + m + 1)%nat with (N - 1)%nat by (unfold n; lia).
    unfold nrm2 at 1. reflexivity. }
  rewrite <- Hnext. unfold stageD. replace (N - S m - 1)%nat with (n - 1)%nat by (unfold n; lia).
  apply sumf_ext; intros j Hj.
  rewrite <- (Ef (S j)) by lia. rewrite <- (Eb j) by lia.
  unfold st_f, st_b; cbn [b_ef b_eb].
  f_equal; f_equal; f_equal; lia.
Qed.

(* "non-degenerate prediction error": no stage before m has a vanishing denominator *)
Definition burg_nondegenerate (x : list F) (m : nat) : Prop :=
  forall q st, (q < m)%nat -> burg_iter no_stop x q = BCont st -> burg_den (length x) st q <> 0.

Theorem burg_den_invariant_thm (x : list F) m st :
  ofnat (length x) <> 0 -> (m < length x)%nat -> burg_nondegenerate x m ->
  burg_iter no_stop x m = BCont st ->
  burg_den (length x) st m = stage_energy (length x) st m.
Proof.
  intros HN. revert st. induction m; intros st Hm Hnd H.
  - cbn in H. injection H as <-. apply den_init; [exact HN|lia].
  - cbn [burg_iter] in H. destruct (burg_iter no_stop x m) as [s0| |] eqn:E; try discriminate.
    destruct (burg_iter_cont_inv _ _ _ _ E) as (_ & _ & _ & He & Hb).
    apply (den_step x m s0 st Hm He Hb).
    + apply IHm; [lia| |reflexivity]. intros q s Hq. apply Hnd. lia.
    + apply (Hnd m s0); [lia|exact E].
    + exact H.
Qed.

(* each reflection coefficient minimises the summed forward+backward error energy of its stage:
   E(q) - E(k_m) = den_m * |q - k_m|^2 for every q *)
Theorem burg_k_optimal_thm (x : list F) m st q :
  ofnat (length x) <> 0 -> (m < length x)%nat -> burg_nondegenerate x (S m) ->
  burg_iter no_stop x m = BCont st ->
  let n := (length x - m - 1)%nat in
  stageE n (st_f st m) (st_b st m) q - stageE n (st_f st m) (st_b st m) (burg_kp (length x) st m)
  = burg_den (length x) st m * nrm2 (q - burg_kp (length x) st m).
Proof.
  intros HN Hm Hnd H n.
  assert (HD : burg_den (length x) st m = stage_energy (length x) st m).
  { apply burg_den_invariant_thm; auto. intros q0 s Hq. apply Hnd. lia. }
  assert (Hne : burg_den (length x) st m <> 0) by (apply (Hnd m st); [lia|exact H]).
  rewrite HD. unfold stage_energy. fold n. apply burg_k_optimal; [|apply stageD_real].
  unfold burg_kp. rewrite num_is_stageC. fold n. unfold stage_energy in HD. fold n in HD. rewrite <- HD.
  unfold two. field. exact Hne.
Qed.
End BurgDen.
