(* Non-vacuity of the CHOLESKY theorems: an oracle record that meets all four specifications (for 1 x 1 systems; it refuses
   everything else), and a concrete call that returns. *)
From Coq Require Import String List Lia.
Require Import Spectrum.Theory.Ops Spectrum.Theory.Sum Spectrum.Model.Cholesky Spectrum.Proofs.CholeskyTheory.

Section Ex.
Context {F : Type} {OF : Ops F} {L : Laws OF}.
Local Open Scope F_scope.
Add Field FFcholex : (fth (O:=OF)).
Variable eq0 : F -> bool.
Hypothesis eq0_spec : forall a, eq0 a = true <-> a = 0.
Variable r : F.                     (* the factor the 1 x 1 "Cholesky" oracle proposes *)

Definition ex_solve (n : nat) (M : matrix) (b : vector) : option vector :=
  match n with 1%nat => if eq0 (M O O) then None else Some (fun _ => b O / M O O) | _ => None end.
Definition ex_chol (n : nat) (A : matrix) : option matrix :=
  match n with 1%nat => if eq0 (A O O - r * conj r) then Some (fun _ _ => r) else None | _ => None end.
Definition ex_chol_up (n : nat) (A : matrix) : option matrix :=
  match n with 1%nat => if eq0 (A O O - conj r * r) then Some (fun _ _ => r) else None | _ => None end.
Definition ex_cho_solve (n : nat) (U : matrix) (b : vector) : option vector :=
  match n with 1%nat => if eq0 (conj (U O O) * U O O) then None else Some (fun _ => b O / (conj (U O O) * U O O)) | _ => None end.
Definition ex_oracles : oracles :=
  {| np_solve := ex_solve; np_cholesky := ex_chol; sp_cholesky := ex_chol_up; sp_cho_solve := ex_cho_solve |}.

Lemma eq0_false a : eq0 a = false -> a <> 0.
Proof. intros E H. apply eq0_spec in H. congruence. Qed.

Lemma ex_specs : solve_spec ex_oracles /\ np_chol_spec ex_oracles /\ sp_chol_spec ex_oracles /\ cho_solve_spec ex_oracles.
Proof.
  repeat split.
  - intros n M b x. cbn [np_solve ex_oracles]. unfold ex_solve. destruct n as [|[|n]]; try discriminate.
    destruct (eq0 (M O O)) eqn:E; [discriminate|]. intros [= <-] i Hi. replace i with O by lia.
    unfold mvmul. cbn [sumf]. field. exact (eq0_false _ E).
  - intros n A M. cbn [np_cholesky ex_oracles]. unfold ex_chol. destruct n as [|[|n]]; try discriminate.
    destruct (eq0 _) eqn:E; [|discriminate]. intros [= <-] i j Hi Hj. replace i with O by lia. replace j with O by lia.
    cbn [sumf]. apply eq0_spec in E. transitivity (A O O - r * conj r + r * conj r); [ring|]. rewrite E. ring.
  - intros n A U. cbn [sp_cholesky ex_oracles]. unfold ex_chol_up. destruct n as [|[|n]]; try discriminate.
    destruct (eq0 _) eqn:E; [|discriminate]. intros [= <-] i j Hi Hj. replace i with O by lia. replace j with O by lia.
    cbn [sumf]. apply eq0_spec in E. transitivity (A O O - conj r * r + conj r * r); [ring|]. rewrite E. ring.
  - intros n U b x. cbn [sp_cho_solve ex_oracles]. unfold ex_cho_solve. destruct n as [|[|n]]; try discriminate.
    destruct (eq0 _) eqn:E; [discriminate|]. intros [= <-] i Hi. replace i with O by lia.
    unfold mvmul. cbn [sumf]. pose proof (eq0_false _ E) as Hn.
    assert (H1 : U O O <> 0) by (intros H; apply Hn; rewrite H; ring).
    assert (H2 : conj (U O O) <> 0) by (intros H; apply Hn; rewrite H; ring).
    field. split; assumption.
Qed.
End Ex.
