(* Bridge between the list model of arcovar/modcovar (Model/Ls.v) and the function-level
   least-squares theory (Proofs/LsTheory.v); shape of the two data matrices; the executable
   solver meets the lstsq specification. *)
Require Import Spectrum.Theory.Ops Spectrum.Theory.Sum Spectrum.Theory.Vec Spectrum.Theory.Order
               Spectrum.Model.Corr Spectrum.Model.Ls Spectrum.Proofs.LsTheory.

Section CovarT.
Context {F : Type} {OF : Ops F} {L : Laws OF}.
Local Open Scope F_scope.
Add Field FFcv : (fth (O:=OF)).

(* ---------- matrices as lists of rows ---------- *)
Lemma nth_map_rows {B : Type} (f : list F -> B) (d : B) (A : list (list F)) n : f [] = d -> nth n (map f A) d = f (nth n A []).
Proof. intros E. rewrite <- E. apply map_nth. Qed.
Lemma nthF_nil j : nthF (@nil F) j = 0. Proof. destruct j; reflexivity. Qed.
Lemma mcol_length (A : list (list F)) j : length (mcol A j) = length A. Proof. apply map_length. Qed.
Lemma nthF_mcol (A : list (list F)) j n : nthF (mcol A j) n = ent A n j.
Proof. unfold nthF at 1, mcol, ent. apply (nth_map_rows (fun r => nthF r j)). apply nthF_nil. Qed.
Lemma col0_length (X : list (list F)) : length (col0 X) = length X. Proof. apply map_length. Qed.
Lemma nthF_col0 (X : list (list F)) n : nthF (col0 X) n = ent X n 0.
Proof. apply (nthF_mcol X 0 n). Qed.
Lemma ent_cols1 (X : list (list F)) n j : ent (cols1 X) n j = ent X n (S j).
Proof. unfold ent, cols1. rewrite (nth_map_rows (@tl F) []) by reflexivity. apply nth_tl. Qed.
Lemma cols1_length (X : list (list F)) : length (cols1 X) = length X. Proof. apply map_length. Qed.
Lemma ent_mneg (A : list (list F)) n j : ent (mneg A) n j = - ent A n j.
Proof. unfold ent, mneg. rewrite (nth_map_rows (map opp) []) by reflexivity. apply nthF_map. ring. Qed.
Lemma mneg_length (A : list (list F)) : length (mneg A) = length A. Proof. apply map_length. Qed.
Lemma dotc_sumf (u v : list F) : dotc u v = sumf (length u) (fun n => conj (nthF u n) * nthF v n).
Proof. unfold dotc. apply sumL_mk. Qed.
Lemma dotc_mcol (A B : list (list F)) i j : length A = length B ->
  dotc (mcol A i) (mcol B j) = sumf (length A) (fun n => conj (ent A n i) * ent B n j).
Proof. intros _. rewrite dotc_sumf, mcol_length. apply sumf_ext; intros n _. rewrite !nthF_mcol. reflexivity. Qed.

(* ---------- the lstsq specification and the executable solver ---------- *)
Definition normal_eqs (p : nat) (A : list (list F)) (b a : list F) : Prop :=
  length a = p /\ forall i, (i < p)%nat -> normal_lhs p A a i = dotc (mcol A i) b.
Definition lstsq_spec (lstsq : lstsq_t) : Prop :=
  forall p A b a, lstsq p A b = Some a -> normal_eqs p A b a.

Context {OL : OrdLaws OF}.

Lemma is_zero_spec z : is_zero z = true -> z = 0.
Proof.
  unfold is_zero. intros H. apply nrm2_zero. apply nn_antisym; [apply nn_nrm2|].
  apply (le0_spec (nrm2 z)); [apply nrm2_real|exact H].
Qed.

Theorem ls_solve_spec_thm : lstsq_spec ls_solve.
Proof.
  intros p A b a. unfold ls_solve. cbv zeta.
  destruct (gauss p _) as [a0|]; [|discriminate].
  destruct (Nat.eqb_spec (length a0) p) as [Hl|Hl]; [|discriminate]. cbn [andb].
  destruct (normal_eqs_b p A b a0) eqn:Hb; [|discriminate].
  intros E; injection E as <-. split; [exact Hl|].
  intros i Hi. unfold normal_eqs_b in Hb. rewrite forallb_forall in Hb.
  specialize (Hb i). cbv beta in Hb.
  assert (Z : normal_lhs p A a0 i - dotc (mcol A i) b = 0).
  { apply is_zero_spec. apply Hb. apply in_seq. lia. }
  transitivity (normal_lhs p A a0 i - dotc (mcol A i) b + dotc (mcol A i) b); [ring|rewrite Z; ring].
Qed.

(* ---------- from the list-level normal equations of lstsq(-Xc, X1) to the function level ---------- *)
Section Bridge.
Variables (X : list (list F)) (M p : nat) (Af : nat -> nat -> F) (bf : nat -> F).
Hypothesis HM : length X = M.
Hypothesis HA : forall n j, (n < M)%nat -> (j < p)%nat -> ent X n (S j) = Af n j.
Hypothesis Hb : forall n, (n < M)%nat -> ent X n 0 = bf n.

Lemma bridge_NE a : normal_eqs p (mneg (cols1 X)) (col0 X) a -> NE M p Af bf (nthF a).
Proof.
  intros [_ H] i Hi. specialize (H i Hi). unfold normal_lhs in H. rewrite sumL_mk in H.
  unfold gramf.
  rewrite (sumf_ext p _ (fun j => dotc (mcol (mneg (cols1 X)) i) (mcol (mneg (cols1 X)) j) * nthF a j)).
  2:{ intros j Hj. f_equal. rewrite dotc_mcol by reflexivity. rewrite mneg_length, cols1_length, HM.
      apply sumf_ext; intros n Hn. rewrite !ent_mneg, !ent_cols1, !HA by assumption. rewrite conj_opp. ring. }
  rewrite H. rewrite dotc_sumf, mcol_length, mneg_length, cols1_length, HM.
  rewrite <- sumf_opp. apply sumf_ext; intros n Hn.
  rewrite nthF_mcol, ent_mneg, ent_cols1, nthF_col0, HA, Hb by assumption. rewrite conj_opp. ring.
Qed.

Lemma bridge_e a :
  dotc (col0 X) (col0 X) + sumL (mk p (fun j => nthF (mk p (fun j => dotc (col0 X) (mcol (cols1 X) j))) j * nthF a j))
  = evalue M p Af bf (nthF a).
Proof.
  unfold evalue. f_equal.
  - rewrite dotc_sumf, col0_length, HM. apply sumf_ext; intros n Hn. rewrite nthF_col0, Hb by assumption. reflexivity.
  - rewrite sumL_mk. apply sumf_ext; intros j Hj. rewrite nth_mk by exact Hj. f_equal.
    rewrite dotc_sumf, col0_length, HM. apply sumf_ext; intros n Hn.
    rewrite nthF_col0, nthF_mcol, ent_cols1, HA, Hb by assumption. reflexivity.
Qed.

Lemma energy_real a : conj (energy M p Af bf a) = energy M p Af bf a.
Proof. apply nn_real. apply energy_nonneg. Qed.

(* what ar_ls returns: a solution of the normal equations, and e = the energy of its residual *)
Lemma ar_ls_sound lstsq tol a e : lstsq_spec lstsq ->
  ar_ls lstsq tol X p = Some (a, e) ->
  length a = p /\ orth M p Af bf (nthF a) /\ e = energy M p Af bf (nthF a).
Proof.
  intros Hs. unfold ar_ls. cbv zeta.
  destruct (lstsq p (mneg (cols1 X)) (col0 X)) as [a0|] eqn:El; [|discriminate].
  pose proof (Hs _ _ _ _ El) as Hn.
  assert (Ho : orth M p Af bf (nthF a0)) by (apply NE_orth, bridge_NE; exact Hn).
  rewrite bridge_e, (ls_e_is_energy_f M p Af bf (nthF a0) Ho).
  destruct (le0 _); [|discriminate]. intros E; injection E as <- <-.
  split; [apply Hn|]. split; [exact Ho|]. apply re_real. apply energy_real.
Qed.

(* the imaginary-part assertion cannot fire in exact arithmetic: raising = the solver raising *)
Lemma ar_ls_no_assert lstsq tol : lstsq_spec lstsq ->
  ar_ls lstsq tol X p = None <-> lstsq p (mneg (cols1 X)) (col0 X) = None.
Proof.
  intros Hs. unfold ar_ls. cbv zeta.
  destruct (lstsq p (mneg (cols1 X)) (col0 X)) as [a0|] eqn:El; [|split; reflexivity].
  pose proof (Hs _ _ _ _ El) as Hn.
  assert (Ho : orth M p Af bf (nthF a0)) by (apply NE_orth, bridge_NE; exact Hn).
  rewrite bridge_e, (ls_e_is_energy_f M p Af bf (nthF a0) Ho), energy_real.
  set (t := two * tol * _).
  assert (T : le0 (nrm2 (energy M p Af bf (nthF a0) - energy M p Af bf (nthF a0)) - nrm2 t) = true).
  { apply le0_spec.
    - rewrite conj_sub, !nrm2_real. reflexivity.
    - apply (nonneg_eq (nrm2 t)); [unfold nrm2; ring|apply nn_nrm2]. }
  rewrite T. split; discriminate.
Qed.
End Bridge.

(* ---------- shape of the two data matrices ---------- *)
Lemma nth_map_seq {B : Type} (f : nat -> B) (d : B) s len n : (n < len)%nat -> nth n (map f (seq s len)) d = f (s + n)%nat.
Proof.
  intros H. rewrite (nth_indep _ d (f O)) by (rewrite map_length, seq_length; exact H).
  rewrite map_nth, seq_nth by exact H. reflexivity.
Qed.
End CovarT.

Section Shapes.
Context {F : Type} {OF : Ops F}.
Local Open Scope F_scope.

(* corrmtx(x, p, 'covariance'): N-p rows n = p..N-1, p+1 columns, X[n-p][j] = x[n-j] *)
Theorem corrmtx_covariance_shape_thm (x : list F) p :
  let C := corrmtx x p MCovariance in
  length C = (length x - p)%nat /\
  forall n, (n < length x - p)%nat -> length (nth n C []) = S p /\
    forall j, (j <= p)%nat -> ent C n j = nthF x (p + n - j).
Proof.
  cbv zeta. unfold corrmtx. split; [rewrite map_length, seq_length; reflexivity|].
  intros n Hn. rewrite (nth_map_seq (xrow x p) [] p _ n Hn). split; [apply mk_length|].
  intros j Hj. unfold ent. rewrite (nth_map_seq (xrow x p) [] p _ n Hn). unfold xrow.
  rewrite nth_mk by lia. destruct (Nat.leb_spec j (p + n)); [reflexivity|lia].
Qed.

(* corrmtx(x, p, 'modified'): the covariance block followed by fliplr(conj(.)) of it:
   row N-p+n is [conj x[n], conj x[n+1], ..., conj x[n+p]] *)
Theorem corrmtx_modified_shape_thm (x : list F) p :
  let C := corrmtx x p MModified in
  length C = (2 * (length x - p))%nat /\
  forall n, (n < length x - p)%nat ->
    length (nth n C []) = S p /\ length (nth (length x - p + n) C []) = S p /\
    forall j, (j <= p)%nat ->
      ent C n j = nthF x (p + n - j) /\ ent C (length x - p + n) j = conj (nthF x (n + j)).
Proof.
  cbv zeta. unfold corrmtx. set (K := (length x - p)%nat).
  assert (L1 : length (map (xrow x p) (seq p K)) = K) by (rewrite map_length, seq_length; reflexivity).
  split; [rewrite app_length, !map_length, !seq_length; lia|].
  intros n Hn. unfold ent.
  rewrite app_nth1 by (rewrite L1; exact Hn).
  rewrite app_nth2 by (rewrite L1; lia). rewrite L1. replace (K + n - K)%nat with n by lia.
  rewrite (nth_map_seq (xrow x p) [] p _ n Hn).
  rewrite (nth_map_seq (fun n0 => mk (S p) (fun j => conj (nthF x (n0 - p + j)))) [] p _ n Hn).
  split; [apply mk_length|]. split; [apply mk_length|].
  intros j Hj. unfold xrow. rewrite !nth_mk by lia. split.
  - destruct (Nat.leb_spec j (p + n)); [reflexivity|lia].
  - do 2 f_equal. lia.
Qed.
End Shapes.
