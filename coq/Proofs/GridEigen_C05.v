(* C05 — NFFT only chooses the sampling grid: eigen() / music / ev and the pmusic / pev classes.
   The pseudo-spectrum is built from the DFT of FIXED singular vectors (svd(FB) never sees NFFT), so on the
   fine grid c*n (character tw') and the coarse grid n (character [coarsen c tw']) it agrees at common frequencies;
   the argument checks, the chosen signal-subspace dimension and the returned singular values are the same (P <= n). *)
Require Import Spectrum.Theory.Ops Spectrum.Theory.Sum Spectrum.Theory.Vec Spectrum.Theory.Dft
               Spectrum.Model.Eigen Spectrum.Proofs.GridTheory Spectrum.Proofs.EigenAxis Spectrum.Proofs.EigenTheory
               Spectrum.Proofs.GridFourier_C05.

Section GridEigen.
Context {F : Type} {OF : Ops F} {L : Laws OF}.
Local Open Scope F_scope.
Add Field FFge : (fth (O:=OF)).

Variables (n c : nat) (tw' : Z -> F).
Context {T' : Twiddle (c * n) tw'}.
Hypothesis Hc : (0 < c)%nat.
Hypothesis Hn : (0 < n)%nat.
Variables (meth : method_arg) (eps : F) (nsig : option nsig_arg) (thr : option F) (crit : crit_arg) (amin : nat)
          (x : list F) (P : nat) (S : list F) (Vh : list (list F)).
Hypothesis Hrows : forall I, (I < P)%nat -> length (mrow Vh I) = P.
Hypothesis HP : (P <= n)%nat.

Local Instance coarse_tw_eig : Twiddle n (coarsen c tw') := twiddle_coarsen n c tw' Hc Hn T'.
Let Hcn : (0 < c * n)%nat. Proof. nia. Qed.

(* every decision eigen() takes (exceptions, NSIG) is the same on the two grids *)
Lemma eigen_nsig_grid :
  eigen_nsig meth nsig thr crit amin (length x) P (c * n) S = eigen_nsig meth nsig thr crit amin (length x) P n S.
Proof.
  assert (E1 : (n <? P)%nat = false) by (apply Nat.ltb_ge; lia).
  assert (E2 : (c * n <? P)%nat = false) by (apply Nat.ltb_ge; nia).
  unfold eigen_nsig. rewrite E1, E2. reflexivity.
Qed.

(* the noise-subspace form at a common frequency *)
Lemma dform_grid ns (b : Z) :
  dform meth eps tw' P S Vh ns (Z.of_nat c * b)%Z = dform meth eps (coarsen c tw') P S Vh ns b.
Proof. unfold dform. apply sumf_ext; intros t _. rewrite dft_grid_thm. reflexivity. Qed.

(* where the coarse centred entry j sits in the fine centred vector *)
Lemma centre_off_spec j : (j < n)%nat ->
  (c * j + centre_off n c < c * n)%nat /\
  centerdc_bin (c * n) (c * j + centre_off n c) = (Z.of_nat c * centerdc_bin n j)%Z.
Proof.
  intros Hj. unfold centre_off, centerdc_bin.
  pose proof (half_grid n c (n / 2) (Nat.le_refl _)) as H1.
  pose proof (Nat.div_mod n 2 ltac:(lia)) as E. pose proof (Nat.mod_upper_bound n 2 ltac:(lia)) as B.
  pose proof (Nat.div_mod (c * n) 2 ltac:(lia)) as E'. pose proof (Nat.mod_upper_bound (c * n) 2 ltac:(lia)) as B'.
  assert (H2 : ((c * n) / 2 < c * (n / 2) + c)%nat) by nia.
  split; [nia|]. nia.
Qed.

(* ---------------- eigen(): the centred vector ---------------- *)
Theorem eigen_grid_thm :
  match eigen meth eps nsig thr crit amin (coarsen c tw') n x P S Vh, eigen meth eps nsig thr crit amin tw' (c * n) x P S Vh with
  | inr (pc, evc), inr (pf, evf) =>
      evc = evf /\ evc = S /\ length pc = n /\ length pf = (c * n)%nat /\
      forall j, (j < n)%nat -> (c * j + centre_off n c < c * n)%nat /\ nthF pf (c * j + centre_off n c) = nthF pc j
  | inl e1, inl e2 => e1 = e2
  | _, _ => False
  end.
Proof.
  destruct (eigen meth eps nsig thr crit amin (coarsen c tw') n x P S Vh) as [e1|[pc evc]] eqn:EC;
  destruct (eigen meth eps nsig thr crit amin tw' (c * n) x P S Vh) as [e2|[pf evf]] eqn:EF;
    unfold eigen in EC, EF; rewrite eigen_nsig_grid in EF;
    destruct (eigen_nsig meth nsig thr crit amin (length x) P n S) as [e|ns] eqn:E; try discriminate.
  - congruence.
  - injection EC as <- <-. injection EF as <- <-.
    destruct (signal_space_choice_thm _ _ _ _ _ _ _ _ _ _ E) as (_ & _ & HPn & _).
    split; [reflexivity|]. split; [reflexivity|].
    split; [apply reorder_length, pseudo_length|]. split; [apply reorder_length, pseudo_length|].
    intros j Hj. destruct (centre_off_spec j Hj) as [Hb Hbin]. split; [exact Hb|].
    rewrite (nth_eigen_vector tw' (c * n) Hcn meth eps P S Vh Hrows ns _ Hb) by (intros; nia).
    rewrite (nth_eigen_vector (coarsen c tw') n Hn meth eps P S Vh Hrows ns _ Hj) by exact HPn.
    rewrite Hbin, dform_grid. reflexivity.
Qed.

(* ---------------- pmusic / pev: the stored PSD (scale_by_freq off) and the stored eigenvalues ---------------- *)
Theorem music_grid_thm (isr : bool) :
  match pclass meth eps isr None nsig thr crit amin (coarsen c tw') n x P S Vh,
        pclass meth eps isr None nsig thr crit amin tw' (c * n) x P S Vh with
  | inr (pc, evc), inr (pf, evf) =>
      evc = evf /\ evc = S /\
      length pc = (if isr then n / 2 + 1 else n)%nat /\ length pf = (if isr then (c * n) / 2 + 1 else c * n)%nat /\
      forall j, (j < length pc)%nat -> (c * j < length pf)%nat /\ nthF pf (c * j) = nthF pc j
  | inl e1, inl e2 => e1 = e2
  | _, _ => False
  end.
Proof.
  destruct (pclass meth eps isr None nsig thr crit amin (coarsen c tw') n x P S Vh) as [e1|[pc evc]] eqn:EC;
  destruct (pclass meth eps isr None nsig thr crit amin tw' (c * n) x P S Vh) as [e2|[pf evf]] eqn:EF.
  - unfold pclass, eigen in EC, EF. rewrite eigen_nsig_grid in EF.
    destruct (eigen_nsig meth nsig thr crit amin (length x) P n S); [congruence|discriminate].
  - unfold pclass, eigen in EC, EF. rewrite eigen_nsig_grid in EF.
    destruct (eigen_nsig meth nsig thr crit amin (length x) P n S); discriminate.
  - unfold pclass, eigen in EC, EF. rewrite eigen_nsig_grid in EF.
    destruct (eigen_nsig meth nsig thr crit amin (length x) P n S); discriminate.
  - destruct isr.
    + destruct (music_axis_real_thm (coarsen c tw') n Hn meth eps nsig thr crit amin x P S Vh Hrows None pc evc EC)
        as (ns & E1 & -> & Lc & Vc).
      destruct (music_axis_real_thm tw' (c * n) Hcn meth eps nsig thr crit amin x P S Vh Hrows None pf evf EF)
        as (ns' & E2 & -> & Lf & Vf).
      rewrite eigen_nsig_grid, E1 in E2. injection E2 as <-.
      split; [reflexivity|]. split; [reflexivity|]. split; [exact Lc|]. split; [exact Lf|].
      intros j Hj. rewrite Lc in Hj. rewrite Lf.
      pose proof (half_grid n c j ltac:(lia)) as Hj'. split; [lia|].
      rewrite (proj1 (Vc j ltac:(lia))). rewrite (proj1 (Vf (c * j)%nat Hj')). cbn [scaled].
      replace (- Z.of_nat (c * j))%Z with (Z.of_nat c * - Z.of_nat j)%Z by lia. rewrite dform_grid. reflexivity.
    + destruct (music_axis_complex_thm (coarsen c tw') n Hn meth eps nsig thr crit amin x P S Vh Hrows None pc evc EC)
        as (ns & E1 & -> & Lc & Vc).
      destruct (music_axis_complex_thm tw' (c * n) Hcn meth eps nsig thr crit amin x P S Vh Hrows None pf evf EF)
        as (ns' & E2 & -> & Lf & Vf).
      rewrite eigen_nsig_grid, E1 in E2. injection E2 as <-.
      split; [reflexivity|]. split; [reflexivity|]. split; [exact Lc|]. split; [exact Lf|].
      intros j Hj. rewrite Lc in Hj. rewrite Lf. split; [nia|].
      rewrite (Vc j Hj). rewrite (Vf (c * j)%nat ltac:(nia)). cbn [scaled].
      replace (Z.of_nat (c * j)) with (Z.of_nat c * Z.of_nat j)%Z by lia. rewrite dform_grid. reflexivity.
Qed.
End GridEigen.
