(* C10 order clauses: for a positive-definite Hermitian Toeplitz r the Levinson recursion returns, P > 0,
   |k| < 1, and the prediction polynomial is stable (roots in the field / in any ordered extension lie in the open
   unit disc).  Corollaries of Proofs/YulePD.v. *)
Require Import Spectrum.Theory.Ops Spectrum.Theory.Sum Spectrum.Theory.Vec Spectrum.Theory.Order
               Spectrum.Model.Levinson Spectrum.Proofs.LevinsonTheory Spectrum.Proofs.YulePD.

Section LPD.
Context {F : Type} {OF : Ops F} {L : Laws OF} {OL : OrdLaws OF}.
Local Open Scope F_scope.

Theorem levinson_stable_thm (r : list F) (p : nat) (allow : bool) a P k (z : F) :
  isreal (nthF r O) -> (p <= length r - 1)%nat -> PD r p ->
  levinson r p allow = Some (a, P, k) ->
  polyval (afun a) p z = 0 -> lt (nrm2 z) 1.
Proof.
  intros Hr Hp HPD Hrun Hz.
  destruct (levinson_pd_thm r p allow Hr Hp HPD) as (a' & P' & k' & E & _ & _ & _ & _ & _ & Hrows & _).
  rewrite Hrun in E. injection E as <- <- <-.
  apply (pd_root_inside r Hr p (afun a) P z HPD); [reflexivity| |exact Hz].
  intros i Hi. apply (Hrows i Hi).
Qed.
End LPD.
