(* C06: lengths, index characterisations, inverse laws, composition law and path
   independence of the side conversions (Model/Convert.v).  Abstract field with 1+1<>0,
   every NFFT >= 1 of both parities, every vector. *)
Require Import Spectrum.Theory.Ops Spectrum.Theory.Sum Spectrum.Theory.Vec Spectrum.Model.Convert.

From Coq Require Import ZifyNat.
Ltac Zify.zify_post_hook ::= Z.to_euclidean_division_equations.

(* ---------------------------------------------------------------- arithmetic helpers *)
Lemma even_cases n :
  (Nat.even n = true /\ n = 2 * (n / 2)) \/ (Nat.even n = false /\ n = 2 * (n / 2) + 1).
Proof.
  destruct (Nat.even n) eqn:E.
  - left. split; [reflexivity|]. apply Nat.even_spec in E. destruct E as [m ->]. lia.
  - right. split; [reflexivity|].
    assert (O : Nat.odd n = true) by (rewrite <- Nat.negb_even, E; reflexivity).
    apply Nat.odd_spec in O. destruct O as [m ->]. lia.
Qed.

Lemma flen_one n : flen One n = n / 2 + 1.
Proof. unfold flen. destruct (even_cases n) as [[E H]|[E H]]; rewrite E; lia. Qed.

Lemma last_cons {A} (t : A) (r : list A) (d : A) : last (t :: r) d = last r t.
Proof.
  revert t d. induction r as [|x r IH]; intros t d; [reflexivity|].
  change (last (t :: x :: r) d) with (last (x :: r) d). rewrite (IH x d), (IH x t). reflexivity.
Qed.

Lemma side_eqb_refl s : side_eqb s s = true. Proof. destruct s; reflexivity. Qed.
Lemma side_eqb_eq s t : side_eqb s t = true <-> s = t.
Proof. destruct s, t; cbn; split; intros H; try reflexivity; try discriminate. Qed.

(* break every comparison in the goal *)
Ltac brk :=
  repeat match goal with
  | |- context [Nat.ltb ?a ?b] => destruct (Nat.ltb_spec a b)
  | |- context [Nat.eqb ?a ?b] => destruct (Nat.eqb_spec a b)
  | |- context [Nat.leb ?a ?b] => destruct (Nat.leb_spec a b)
  end.

Section ConvertTheory.
Context {F : Type} {OF : Ops F} {L : Laws OF}.
Local Open Scope F_scope.
Add Field FFconv : (fth (O:=OF)).

Lemma two_ne : two <> 0. Proof. unfold two. apply two_neq_0. Qed.
Lemma half_twice x : x / two * two = x. Proof. field. apply two_ne. Qed.
Lemma twice_half x : x * two / two = x. Proof. field. apply two_ne. Qed.
Lemma half_add x : x / two + x / two = x. Proof. unfold two. field. apply two_neq_0. Qed.

(* ---------------------------------------------------------------- lengths *)
Lemma two2one_length (t : list F) : (1 <= length t)%nat -> length (two2one t) = (length t / 2 + 1)%nat.
Proof. intros H. unfold two2one. rewrite mk_length. lia. Qed.
Lemma one2two_even_length (p : list F) : length (one2two_even p) = (length p + (length p - 2))%nat.
Proof. unfold one2two_even. apply mk_length. Qed.
Lemma one2two_odd_length (p : list F) : length (one2two_odd p) = (length p + (length p - 1))%nat.
Proof. unfold one2two_odd. apply mk_length. Qed.
Lemma two2center_length (t : list F) : length (two2center t) = length t.
Proof. unfold two2center. apply mk_length. Qed.
Lemma center2two_length (c : list F) : length (center2two c) = length c.
Proof. unfold center2two. apply mk_length. Qed.

Lemma one2two_length nfft (p : list F) : (1 <= nfft)%nat -> length p = flen One nfft ->
  length (one2two nfft p) = nfft.
Proof.
  intros Hn Hp. rewrite flen_one in Hp. unfold one2two.
  destruct (even_cases nfft) as [[E H]|[E H]]; destruct (Nat.eqb_spec (2 * length p) (nfft + 1)) as [Q|Q]; try lia.
  - rewrite one2two_even_length. lia.
  - rewrite one2two_odd_length. lia.
Qed.

Theorem conv_length_thm nfft s t (p : list F) : (1 <= nfft)%nat -> length p = flen s nfft ->
  length (conv nfft s t p) = flen t nfft.
Proof.
  intros Hn Hp.
  destruct s, t; cbn [conv]; try exact Hp; cbn [flen] in Hp |- *.
  - apply one2two_length; assumption.
  - rewrite two2center_length. apply one2two_length; assumption.
  - rewrite two2one_length by lia. rewrite Hp. symmetry. apply flen_one.
  - rewrite two2center_length. exact Hp.
  - rewrite two2one_length by (rewrite center2two_length; lia). rewrite center2two_length, Hp. symmetry. apply flen_one.
  - rewrite center2two_length. exact Hp.
Qed.

Lemma freq_bins_length s n : length (freq_bins s n) = flen s n.
Proof. unfold freq_bins. rewrite map_length, seq_length. reflexivity. Qed.

(* ---------------------------------------------------------------- entries *)
Lemma two2one_nth (t : list F) j : (1 <= length t)%nat -> (j <= length t / 2)%nat ->
  nthF (two2one t) j =
    if (j =? 0)%nat then nthF t 0
    else if (Nat.even (length t) && (j =? length t / 2)%nat)%bool then nthF t j
    else nthF t j * two.
Proof.
  intros Hn Hj. unfold two2one. rewrite nth_mk by lia. cbv zeta.
  destruct (even_cases (length t)) as [[E H]|[E H]]; rewrite E; cbn [andb]; brk; subst; try lia;
    rewrite ?twice_half; reflexivity.
Qed.

(* the entries of one2two in a form common to both parities *)
Lemma one2two_nth nfft (p : list F) j : (1 <= nfft)%nat -> length p = flen One nfft -> (j < nfft)%nat ->
  nthF (one2two nfft p) j =
    if (j =? 0)%nat then nthF p 0
    else if (Nat.even nfft && (j =? nfft / 2)%nat)%bool then nthF p j
    else if (j <=? nfft / 2)%nat then nthF p j / two
    else nthF p (nfft - j) / two.
Proof.
  intros Hn Hp Hj. rewrite flen_one in Hp. unfold one2two.
  destruct (even_cases nfft) as [[E H]|[E H]]; rewrite E; cbn [andb];
    destruct (Nat.eqb_spec (2 * length p) (nfft + 1)) as [Q|Q]; try lia.
  - unfold one2two_even. rewrite nth_mk by lia. cbv zeta.
    brk; subst; try lia; rewrite ?half_twice; try reflexivity; try (f_equal; f_equal; lia).
  - unfold one2two_odd. rewrite nth_mk by lia. cbv zeta.
    brk; subst; try lia; rewrite ?half_twice; try reflexivity; try (f_equal; f_equal; lia).
Qed.

Lemma two2center_nth (t : list F) j : (j < length t)%nat ->
  nthF (two2center t) j =
    if (j <? length t / 2)%nat then nthF t (j + (length t - length t / 2)) else nthF t (j - length t / 2).
Proof. intros Hj. unfold two2center. rewrite nth_mk by exact Hj. reflexivity. Qed.
Lemma center2two_nth (c : list F) j : (j < length c)%nat ->
  nthF (center2two c) j =
    if (j <? length c - length c / 2)%nat then nthF c (j + length c / 2) else nthF c (j - (length c - length c / 2)).
Proof. intros Hj. unfold center2two. rewrite nth_mk by exact Hj. reflexivity. Qed.

(* ---------------------------------------------------------------- inverse laws *)
Theorem center_two_center_thm (t : list F) : center2two (two2center t) = t.
Proof.
  apply list_eq_nth; [rewrite center2two_length, two2center_length; reflexivity|].
  intros j Hj. rewrite center2two_length, two2center_length in Hj.
  rewrite center2two_nth by (rewrite two2center_length; exact Hj). rewrite two2center_length.
  brk; rewrite two2center_nth by lia; brk; try lia; f_equal; lia.
Qed.
Theorem two_center_two_thm (c : list F) : two2center (center2two c) = c.
Proof.
  apply list_eq_nth; [rewrite two2center_length, center2two_length; reflexivity|].
  intros j Hj. rewrite two2center_length, center2two_length in Hj.
  rewrite two2center_nth by (rewrite center2two_length; exact Hj). rewrite center2two_length.
  brk; rewrite center2two_nth by lia; brk; try lia; f_equal; lia.
Qed.

Theorem two_one_two_thm nfft (p : list F) : (1 <= nfft)%nat -> length p = flen One nfft ->
  two2one (one2two nfft p) = p.
Proof.
  intros Hn Hp. pose proof (one2two_length nfft p Hn Hp) as HL.
  apply list_eq_nth.
  - rewrite two2one_length by lia. rewrite HL, Hp, flen_one. reflexivity.
  - intros j Hj. rewrite two2one_length, HL in Hj by lia.
    rewrite two2one_nth by lia. rewrite HL.
    destruct (even_cases nfft) as [[E H]|[E H]]; rewrite E; cbn [andb];
      brk; subst; rewrite one2two_nth by lia; rewrite E; cbn [andb]; brk; try lia;
      rewrite ?half_twice; reflexivity.
Qed.

Theorem one_two_one_thm nfft (t : list F) : (1 <= nfft)%nat -> length t = nfft -> sym2 t ->
  one2two nfft (two2one t) = t.
Proof.
  intros Hn Ht Hs.
  assert (HL : length (two2one t) = flen One nfft) by (rewrite two2one_length, flen_one, Ht by lia; reflexivity).
  apply list_eq_nth.
  - rewrite one2two_length by assumption. symmetry; exact Ht.
  - intros j Hj. rewrite one2two_length in Hj by assumption.
    rewrite one2two_nth by assumption.
    destruct (even_cases nfft) as [[E H]|[E H]]; rewrite E; cbn [andb];
      brk; subst; rewrite two2one_nth by lia; rewrite ?E; cbn [andb]; brk; try lia;
      rewrite ?twice_half; try reflexivity; symmetry; apply Hs; lia.
Qed.

(* what is produced from a one-sided vector is Hermitian symmetric *)
Theorem one2two_sym_thm nfft (p : list F) : (1 <= nfft)%nat -> length p = flen One nfft ->
  sym2 (one2two nfft p).
Proof.
  intros Hn Hp j Hj. rewrite one2two_length in * by assumption.
  rewrite !one2two_nth by (assumption || lia).
  destruct (even_cases nfft) as [[E H]|[E H]]; rewrite E; cbn [andb];
    brk; subst; try lia; try reflexivity; try (f_equal; lia); f_equal; f_equal; lia.
Qed.

(* ---------------------------------------------------------------- composition law *)
Lemma symS_conv nfft s t (p : list F) : (1 <= nfft)%nat -> length p = flen s nfft -> symS s p ->
  symS t (conv nfft s t p).
Proof.
  intros Hn Hp Hs.
  destruct s, t; cbn [conv symS] in *; try exact I; try exact Hs;
    rewrite ?center_two_center_thm; try exact Hs; apply one2two_sym_thm; assumption.
Qed.

Theorem conv_compose_thm nfft s t u (p : list F) : (1 <= nfft)%nat -> length p = flen s nfft ->
  (t = One -> symS s p) ->
  conv nfft t u (conv nfft s t p) = conv nfft s u p.
Proof.
  intros Hn Hp Hs.
  destruct s, t, u; cbn [conv symS flen] in *; try reflexivity;
    rewrite ?center_two_center_thm, ?two_center_two_thm; try reflexivity;
    try (rewrite two_one_two_thm by assumption; reflexivity).
  - (* Two -> One -> Two *) apply one_two_one_thm; auto.
  - (* Two -> One -> Center *) rewrite one_two_one_thm; auto.
  - (* Center -> One -> Two *) apply one_two_one_thm; rewrite ?center2two_length; auto.
  - (* Center -> One -> Center *) rewrite one_two_one_thm; rewrite ?center2two_length; auto.
    apply two_center_two_thm.
Qed.

(* ---------------------------------------------------------------- the object: paths *)
Lemma convert_some cplx nfft s t (p : list F) : (cplx = true -> t <> One) ->
  convert cplx nfft s t p = Some (conv nfft s t p).
Proof.
  intros H. unfold convert. destruct (side_eqb s t) eqn:E.
  - apply side_eqb_eq in E. subst t. destruct s; reflexivity.
  - destruct cplx; cbn [andb]; [|reflexivity].
    destruct t; cbn [side_eqb]; try reflexivity. exfalso. apply H; reflexivity.
Qed.
Lemma convert_none nfft s (p : list F) : s <> One -> convert true nfft s One p = None.
Proof. intros H. destruct s; try reflexivity. contradiction. Qed.

Lemma wf_conv cplx nfft s t (p : list F) : wf cplx nfft s p -> (cplx = true -> t <> One) ->
  wf cplx nfft t (conv nfft s t p).
Proof.
  intros (Hn & Hp & Hk) Ht. split; [exact Hn|]. split; [apply conv_length_thm; assumption|].
  destruct cplx; [apply Ht; reflexivity|]. apply symS_conv; assumption.
Qed.

Theorem path_independent_thm (path : list side) : forall st : pstate,
  wf_state st -> allowed (st_cplx st) path ->
  run_path path st =
    Some (mkP (st_cplx st) (st_nfft st) (last path (st_sides st))
              (conv (st_nfft st) (st_sides st) (last path (st_sides st)) (st_psd st))).
Proof.
  induction path as [|t r IH]; intros [c n s p] Hwf Hal; cbn [st_cplx st_nfft st_sides st_psd] in *.
  - cbn [run_path last]. destruct s; reflexivity.
  - assert (Ht : c = true -> t <> One).
    { intros Hc E. apply (Hal Hc). left. exact E. }
    assert (Hr : allowed c r).
    { intros Hc Hin. apply (Hal Hc). right. exact Hin. }
    cbn [run_path]. unfold set_sides. cbn [st_cplx st_nfft st_sides st_psd].
    rewrite convert_some by exact Ht.
    rewrite IH; cbn [st_cplx st_nfft st_sides st_psd].
    + rewrite last_cons. f_equal. f_equal.
      destruct Hwf as (Hn & Hp & Hk).
      apply conv_compose_thm; try assumption.
      intros ->. destruct c; [exfalso; apply Ht; reflexivity|exact Hk].
    + apply wf_conv; assumption.
    + exact Hr.
Qed.

(* stated with the query of the initial object, as in the property text *)
Theorem path_direct_thm (path : list side) (st : pstate) :
  wf_state st -> allowed (st_cplx st) path ->
  exists q, query st (last path (st_sides st)) = Some q /\
            run_path path st = Some (mkP (st_cplx st) (st_nfft st) (last path (st_sides st)) q).
Proof.
  intros Hwf Hal. eexists. split; [|apply path_independent_thm; assumption].
  unfold query. apply convert_some. intros Hc E.
  destruct path as [|t r].
  - cbn [last] in E. destruct Hwf as (_ & _ & Hk). rewrite Hc in Hk. exact (Hk E).
  - apply (Hal Hc). rewrite <- E. rewrite last_cons.
    clear. revert t. induction r as [|x r IH]; intros t; [left; reflexivity|].
    right. rewrite last_cons. apply IH.
Qed.

Theorem roundtrip_thm (path : list side) (st : pstate) :
  wf_state st -> allowed (st_cplx st) path ->
  run_path (path ++ [st_sides st]) st = Some st.
Proof.
  intros Hwf Hal.
  rewrite path_independent_thm.
  - rewrite last_last. destruct st as [c n s p]; cbn [st_cplx st_nfft st_sides st_psd].
    destruct s; reflexivity.
  - exact Hwf.
  - intros Hc Hin. apply in_app_or in Hin. destruct Hin as [Hin|[E|[]]].
    + exact (Hal Hc Hin).
    + destruct Hwf as (_ & _ & Hk). rewrite Hc in Hk. exact (Hk E).
Qed.

(* every state the object API reaches is well formed *)
Theorem wf_assign_thm cplx nfft (v : list F) : (1 <= length v)%nat ->
  (cplx = false -> (1 <= nfft)%nat /\ length v = flen One nfft) -> wf_state (assign_psd cplx nfft v).
Proof.
  intros Hv Hl. unfold assign_psd, wf_state. destruct cplx; cbn [st_cplx st_nfft st_sides st_psd].
  - split; [exact Hv|]. split; [reflexivity|discriminate].
  - destruct (Hl eq_refl) as [Hn Hlen]. split; [exact Hn|]. split; [exact Hlen|exact I].
Qed.
Theorem wf_run_thm (path : list side) (st st' : pstate) :
  wf_state st -> run_path path st = Some st' -> wf_state st'.
Proof.
  revert st. induction path as [|t r IH]; intros st Hwf H; cbn [run_path] in H.
  - injection H as <-. exact Hwf.
  - destruct (set_sides st t) as [s1|] eqn:E; [|discriminate].
    apply (IH s1); [|exact H].
    unfold set_sides in E. destruct st as [c n s p]; cbn [st_cplx st_nfft st_sides st_psd] in *.
    unfold convert in E. destruct (side_eqb s t) eqn:Est.
    + apply side_eqb_eq in Est. subst t. injection E as <-. exact Hwf.
    + destruct (c && side_eqb t One)%bool eqn:Ec; [discriminate|]. injection E as <-.
      unfold wf_state; cbn [st_cplx st_nfft st_sides st_psd]. apply wf_conv; [exact Hwf|].
      intros -> ->. discriminate.
Qed.
(* the same statement in the fold form fixed in DESIGN.md appendix C *)
Theorem path_fold_thm cplx nfft (path : list side) : forall s0 (p0 : list F),
  wf cplx nfft s0 p0 -> allowed cplx path ->
  fold_left (fun st t => (t, conv nfft (fst st) t (snd st))) path (s0, p0)
  = (last path s0, conv nfft s0 (last path s0) p0).
Proof.
  induction path as [|t r IH]; intros s0 p0 Hwf Hal.
  - cbn [fold_left last]. destruct s0; reflexivity.
  - assert (Ht : cplx = true -> t <> One).
    { intros Hc E. apply (Hal Hc). left. exact E. }
    assert (Hr : allowed cplx r).
    { intros Hc Hin. apply (Hal Hc). right. exact Hin. }
    cbn [fold_left fst snd]. rewrite IH; [|apply wf_conv; assumption|exact Hr].
    rewrite last_cons. f_equal.
    destruct Hwf as (Hn & Hp & Hk).
    apply conv_compose_thm; try assumption.
    intros ->. destruct cplx; [exfalso; apply Ht; reflexivity|exact Hk].
Qed.

(* real data, as the object API builds it: p.psd = v (one-sided), then any sequence of sides *)
Theorem path_real_thm nfft (v : list F) (path : list side) :
  (1 <= nfft)%nat -> length v = flen One nfft ->
  run_path path (assign_psd false nfft v)
  = Some (mkP false nfft (last path One) (conv nfft One (last path One) v)).
Proof.
  intros Hn Hv.
  assert (Hv1 : (1 <= length v)%nat) by (rewrite Hv, flen_one; lia).
  rewrite path_independent_thm.
  - reflexivity.
  - apply wf_assign_thm; auto.
  - unfold allowed, assign_psd; cbn [st_cplx]. intros Hc. discriminate.
Qed.
(* complex data: p.psd = v (two-sided, any values), then any sequence over twosided/centerdc *)
Theorem path_complex_thm nfft0 (v : list F) (path : list side) :
  (1 <= length v)%nat -> ~ In One path ->
  run_path path (assign_psd true nfft0 v)
  = Some (mkP true (length v) (last path Two) (conv (length v) Two (last path Two) v)).
Proof.
  intros Hv Hp.
  rewrite path_independent_thm.
  - reflexivity.
  - apply wf_assign_thm; [exact Hv|discriminate].
  - intros _. exact Hp.
Qed.
(* and asking complex data for onesided raises, leaving the object as it was *)
Theorem complex_onesided_raises_thm (st : pstate) : wf_state st -> st_cplx st = true ->
  set_sides st One = None /\ query st One = None.
Proof.
  intros (Hn & Hp & Hk) Hc. destruct st as [c n s p]; cbn [st_cplx st_nfft st_sides st_psd] in *. subst c.
  unfold set_sides, query; cbn [st_cplx st_nfft st_sides st_psd]. rewrite convert_none by exact Hk. split; reflexivity.
Qed.
(* ---------------------------------------------------------------- tools level *)
(* tools.onesided_2_twosided is the even-NFFT branch of the conversion *)
Theorem one2two_even_is_conv_thm (p : list F) : (2 <= length p)%nat ->
  conv (2 * length p - 2) One Two p = one2two_even p /\ length p = flen One (2 * length p - 2).
Proof.
  intros H. cbn [conv]. unfold one2two.
  destruct (Nat.eqb_spec (2 * length p) (2 * length p - 2 + 1)) as [Q|Q]; [lia|].
  split; [reflexivity|]. rewrite flen_one. lia.
Qed.

(* tools.cshift: a rotation; it keeps the length and the sum, and cshift(-k) undoes cshift(k) *)
Lemma rot_lr (l : list F) : rot_left1 (rot_right1 l) = l.
Proof.
  destruct l as [|x r]; [reflexivity|]. unfold rot_right1, rot_left1.
  symmetry. apply app_removelast_last. discriminate.
Qed.
Lemma rot_rl (l : list F) : rot_right1 (rot_left1 l) = l.
Proof.
  destruct l as [|x r]; [reflexivity|]. unfold rot_left1, rot_right1.
  destruct (r ++ [x]) eqn:E; [destruct r; discriminate|]. rewrite <- E.
  rewrite last_last, removelast_last. reflexivity.
Qed.
Lemma iter_shift (f : list F -> list F) n x : Nat.iter (S n) f x = Nat.iter n f (f x).
Proof. induction n as [|n IH]; [reflexivity|]. cbn [Nat.iter nat_rect] in *. rewrite IH. reflexivity. Qed.
Lemma iter_inverse (f g : list F -> list F) n x : (forall y, g (f y) = y) ->
  Nat.iter n g (Nat.iter n f x) = x.
Proof.
  intros H. induction n as [|n IH]; [reflexivity|].
  rewrite iter_shift. cbn [Nat.iter nat_rect]. rewrite H. exact IH.
Qed.
Theorem cshift_inverse_thm (l : list F) (k : Z) : cshift (cshift l k) (- k) = l.
Proof.
  destruct k as [|k|k]; cbn [cshift Z.opp]; [reflexivity| |].
  - apply iter_inverse. apply rot_lr.
  - apply iter_inverse. apply rot_rl.
Qed.
Lemma sumL_app (a b : list F) : sumL (a ++ b) = sumL a + sumL b.
Proof. induction a as [|x a IH]; cbn [app sumL]; [ring|]. rewrite IH. ring. Qed.
Lemma rot_left1_inv (l : list F) : length (rot_left1 l) = length l /\ sumL (rot_left1 l) = sumL l.
Proof.
  destruct l as [|x r]; [split; reflexivity|]. unfold rot_left1. split.
  - rewrite app_length. cbn [length]. lia.
  - rewrite sumL_app. cbn [sumL]. ring.
Qed.
Lemma rot_right1_inv (l : list F) : length (rot_right1 l) = length l /\ sumL (rot_right1 l) = sumL l.
Proof.
  destruct (rot_left1_inv (rot_right1 l)) as [H1 H2]. rewrite rot_lr in H1, H2. split; symmetry; assumption.
Qed.
Theorem cshift_invariants_thm (l : list F) (k : Z) :
  length (cshift l k) = length l /\ sumL (cshift l k) = sumL l.
Proof.
  destruct k as [|k|k]; cbn [cshift]; [split; reflexivity| |].
  - induction (Pos.to_nat k) as [|n [I1 I2]]; [split; reflexivity|]. cbn [Nat.iter nat_rect].
    destruct (rot_right1_inv (Nat.iter n rot_right1 l)) as [H1 H2].
    split; [rewrite <- I1; exact H1|rewrite <- I2; exact H2].
  - induction (Pos.to_nat k) as [|n [I1 I2]]; [split; reflexivity|]. cbn [Nat.iter nat_rect].
    destruct (rot_left1_inv (Nat.iter n rot_left1 l)) as [H1 H2].
    split; [rewrite <- I1; exact H1|rewrite <- I2; exact H2].
Qed.
End ConvertTheory.
