(* C07 — lemmas and tactics about the combinator prelude, independent of the generated machine. *)
From Coq Require Import List ZArith Bool String Lia QArith Qcanon.
Require Import Spectrum.Model.PsdMachineLib.
Import ListNotations.
Local Open Scope Z_scope.

Lemma dval_eqb_sound a b : dval_eqb a b = true -> a = b.
Proof.
  destruct a as [i l r t], b as [i' l' r' t']; unfold dval_eqb; cbn.
  rewrite !andb_true_iff. intros [[[H1 H2] H3] H4].
  apply Nat.eqb_eq in H1. apply Pos.eqb_eq in H2. apply eqb_prop in H3. apply eqb_prop in H4. congruence.
Qed.
Lemma veqb_sound a b : veqb a b = true -> a = b.
Proof.
  destruct a, b; cbn; try discriminate; intro H; try reflexivity.
  - apply eqb_prop in H; congruence.
  - apply String.eqb_eq in H; congruence.
  - apply Z.eqb_eq in H; congruence.
  - apply Qc_eq_bool_correct in H; congruence.
  - apply dval_eqb_sound in H; congruence.
  - apply String.eqb_eq in H; congruence.
Qed.
Lemma veqb_none_false c : veqb c VNone = false -> c <> VNone.
Proof. intros H E; subst; discriminate. Qed.
Lemma vin_sound x l : vin x l = true -> In x l.
Proof.
  unfold vin. intro H. apply existsb_exists in H. destruct H as [y [Hy E]]. apply veqb_sound in E. subst; exact Hy.
Qed.
Lemma vis_int_true v : vis_int v = true -> exists z, v = VInt z.
Proof. destruct v; cbn; try discriminate. eauto. Qed.
Lemma vltb_int a b : vltb (VInt a) (VInt b) = (a <? b).
Proof. reflexivity. Qed.

Lemma pow2_pos p : 0 < 2 ^ Z.log2_up (Zpos p).
Proof. apply Z.pow_pos_nonneg; [lia | apply Z.log2_up_nonneg]. Qed.

(* ---- frequency-axis lengths *)
Lemma len_one_even n : n mod 2 = 0 -> len_one n = n / 2 + 1.
Proof. intro H. unfold len_one. rewrite H. reflexivity. Qed.
Lemma len_one_odd n : n mod 2 <> 0 -> len_one n = (n + 1) / 2.
Proof. intro H. unfold len_one. destruct (Z.eqb_spec (n mod 2) 0); [contradiction | reflexivity]. Qed.
Lemma two2one_len n : n / 2 + 1 = len_one n.
Proof.
  unfold len_one. destruct (Z.eqb_spec (n mod 2) 0) as [E|E]; [reflexivity|].
  pose proof (Z.div_mod n 2 ltac:(lia)). pose proof (Z.mod_pos_bound n 2 ltac:(lia)).
  assert (R : n mod 2 = 1) by lia.
  replace (n + 1) with ((n / 2 + 1) * 2) by lia. rewrite Z.div_mul by lia. reflexivity.
Qed.
Lemma one2two_even n : n mod 2 = 0 -> (2 * len_one n - 1 =? n) = false /\ len_one n + (len_one n - 2) = n.
Proof.
  intro E. rewrite (len_one_even n E). pose proof (Z.div_mod n 2 ltac:(lia)).
  split; [apply Z.eqb_neq|]; lia.
Qed.
Lemma one2two_odd n : n mod 2 <> 0 -> (2 * len_one n - 1 =? n) = true /\ len_one n + (len_one n - 1) = n.
Proof.
  intro E. rewrite (len_one_odd n E).
  pose proof (Z.div_mod n 2 ltac:(lia)). pose proof (Z.mod_pos_bound n 2 ltac:(lia)).
  assert (R : n mod 2 = 1) by lia.
  assert (Q : (n + 1) / 2 = n / 2 + 1).
  { replace (n + 1) with ((n / 2 + 1) * 2) by lia. rewrite Z.div_mul by lia. reflexivity. }
  rewrite Q. split; [apply Z.eqb_eq|]; lia.
Qed.

(* ---- reachability: generic *)
Section Reach.
Variables (S O : Type) (P : S -> Prop) (step : S -> O -> S).
Hypothesis Hstep : forall s o, P s -> P (step s o).
Lemma reach s ops : P s -> P (fold_left step ops s).
Proof. revert s; induction ops as [|o ops IH]; cbn; intros s H; [exact H | apply IH, Hstep, H]. Qed.
End Reach.

(* ---- consequences of the invariant that do not depend on the generated machine *)
Section InvFacts.
Variable m : mask.

Lemma inv_reachable_gen (O : Type) (step : St -> O -> St) :
  (forall s o, Inv m s -> Inv m (step s o)) -> forall s ops, Inv m s -> Inv m (fold_left step ops s).
Proof. intros Hs s ops H. exact (reach St O (Inv m) step Hs s ops H). Qed.

Lemma inv_df s : Inv m s -> f_range_df s = VQuot (f_sampling s) (f_NFFT s).
Proof. intros [Ht HN HS _]. rewrite (t_df _ Ht), HN, HS. reflexivity. Qed.

Lemma inv_fresh_cache s : Inv m s -> f_cache s <> VNone -> f_modified s = VBool false -> f_cache s = target m s.
Proof.
  intros [_ _ _ [Hc|[Hc|Hc]]] Hn Hm; [contradiction | rewrite Hm in Hc; discriminate | exact Hc].
Qed.

Lemma target_len s : vlen (target m s) = VInt (flen (f_sides s) (nfft_of s)).
Proof. reflexivity. Qed.

Lemma flen_axis sd n : 0 < n ->
  flen sd n = if veqb sd S_one then (if n mod 2 =? 0 then n / 2 + 1 else (n + 1) / 2) else n.
Proof. intros _. reflexivity. Qed.

(* the state after an explicit computation satisfies the invariant with a fresh cache *)
Lemma after_call_inv s : Inv m s -> Inv m (after_call m s) /\ f_cache (after_call m s) = target m (after_call m s)
                                   /\ f_modified (after_call m s) = VBool false.
Proof.
  intros [[ [d [Hd [HN [Hdt Hdl]]]] [n [Hn Hnpos]] [b Hb] Hsd Hhr Hdf] HrN HrS Hc].
  destruct s; cbn in *; subst. unfold after_call, default_sides_of; cbn.
  assert (Hside : (if veqb (VStr (if d_real d then "real"%string else "complex"%string)) (VStr "real") then S_one else S_two) = S_one
                  \/ (if veqb (VStr (if d_real d then "real"%string else "complex"%string)) (VStr "real") then S_one else S_two) = S_two
                  \/ (if veqb (VStr (if d_real d then "real"%string else "complex"%string)) (VStr "real") then S_one else S_two) = S_cen).
  { destruct (d_real d); cbn; auto. }
  split; [|split; reflexivity].
  constructor; cbn; [constructor; cbn | reflexivity | reflexivity | right; right; reflexivity].
  - exists d. auto.
  - exists n. auto.
  - exists false. reflexivity.
  - exact Hside.
  - reflexivity.
  - reflexivity.
Qed.

(* the reference lazy getter: recompute when nothing is stored or the flag is set *)
Definition std_getPSD (call_ : St -> Res) (s : St) : Res :=
  if veqb (f_cache s) VNone || veqb (f_modified s) (VBool true)
  then bind (call_ s) (fun _ s => let s := upd_modified (VBool false) s in retv (f_cache s) s)
  else retv (f_cache s) s.

Lemma std_read_is_fresh call_ s : CallSpec m call_ -> Inv m s ->
  exists s', std_getPSD call_ s = (s', Ok (target m s')) /\ Inv m s'.
Proof.
  intros Hcall H. unfold std_getPSD.
  destruct (veqb (f_cache s) VNone || veqb (f_modified s) (VBool true)) eqn:E.
  - destruct (Hcall s (i_typ _ _ H) (i_rangeN _ _ H) (i_rangeS _ _ H)) as [r Hr]. rewrite Hr. cbn [bind].
    destruct (after_call_inv s H) as [Hi [Hc Hm]].
    assert (Eq : upd_modified (VBool false) (after_call m s) = after_call m s).
    { unfold after_call, upd_modified; cbn. reflexivity. }
    cbv zeta. rewrite Eq. exists (after_call m s). unfold retv. rewrite Hc. split; [reflexivity | exact Hi].
  - apply orb_false_iff in E. destruct E as [E1 E2].
    exists s. unfold retv. split; [|exact H]. f_equal. f_equal.
    destruct (i_cache _ _ H) as [Hc|[Hc|Hc]].
    + rewrite Hc in E1. discriminate.
    + rewrite Hc in E2. discriminate.
    + exact Hc.
Qed.

Lemma same_estimate_target s1 s2 : msnap m s1 = msnap m s2 -> scaled_of s1 = scaled_of s2 ->
  same_estimate (target m s1) (target m s2).
Proof. intros A B. unfold same_estimate, target. split; assumption. Qed.
End InvFacts.
