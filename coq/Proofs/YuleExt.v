(* Stability over field extensions: the data live in an ordered *-field F (the Gaussian rationals that
   the correspondence check executes), the roots are taken in any ordered *-field K that F maps into
   (the complex numbers).  Only "phi is a ring homomorphism commuting with conj" is used. *)
Require Import Spectrum.Theory.Ops Spectrum.Theory.Sum Spectrum.Theory.Vec Spectrum.Theory.Order
               Spectrum.Model.Levinson Spectrum.Model.Corr Spectrum.Model.Yule
               Spectrum.Proofs.LevinsonTheory Spectrum.Proofs.CorrTheory Spectrum.Proofs.YulePD Spectrum.Proofs.YuleTheory.

Section Ext.
Context {F : Type} {OF : Ops F} {L : Laws OF} {OL : OrdLaws OF}.
Context {K : Type} {OK : Ops K} {LK : Laws OK} {OLK : OrdLaws OK}.
Local Open Scope F_scope.
Add Field FFe : (fth (O:=OF)).
Add Field KKe : (fth (O:=OK)).

Record StarHom (phi : F -> K) : Prop := mkHom {
  hom_0 : phi 0 = 0;
  hom_1 : phi 1 = 1;
  hom_add : forall a b, phi (a + b) = phi a + phi b;
  hom_mul : forall a b, phi (a * b) = phi a * phi b;
  hom_conj : forall a, phi (conj a) = conj (phi a) }.

Variable phi : F -> K.
Hypothesis H : StarHom phi.

Lemma hom_opp a : phi (- a) = - phi a.
Proof.
  assert (E : phi (a + - a) = 0) by (replace (a + - a) with (0 : F) by ring; apply (hom_0 _ H)).
  rewrite (hom_add _ H) in E. transitivity (phi a + phi (- a) - phi a); [ring|rewrite E; ring].
Qed.
Lemma hom_sub a b : phi (a - b) = phi a - phi b.
Proof. replace (a - b) with (a + - b) by ring. rewrite (hom_add _ H), hom_opp. ring. Qed.
Lemma hom_nonzero a : a <> 0 -> phi a <> 0.
Proof.
  intros Ha E. assert (E1 : phi (a * inv a) = 1) by (replace (a * inv a) with (1 : F) by (field; exact Ha); apply (hom_1 _ H)).
  rewrite (hom_mul _ H), E in E1. apply (one_neq_0 (F:=K)). rewrite <- E1. ring.
Qed.
Lemma hom_div a b : b <> 0 -> phi (a / b) = phi a / phi b.
Proof.
  intros Hb. pose proof (hom_nonzero b Hb) as Hb'.
  assert (E : phi (a / b) * phi b = phi a) by (rewrite <- (hom_mul _ H); f_equal; field; exact Hb).
  rewrite <- E. field. exact Hb'.
Qed.
Lemma hom_ofnat n : phi (ofnat n) = ofnat n.
Proof. induction n; cbn; [apply (hom_0 _ H)|]. rewrite (hom_add _ H), IHn, (hom_1 _ H). reflexivity. Qed.
Lemma hom_sumf n f : phi (sumf n f) = sumf n (fun i => phi (f i)).
Proof. induction n; cbn; [apply (hom_0 _ H)|]. rewrite (hom_add _ H), IHn. reflexivity. Qed.
Lemma hom_nth (l : list F) j : nthF (map phi l) j = phi (nthF l j).
Proof.
  unfold nthF. revert j. induction l as [|a l IH]; intros j.
  - destruct j; cbn; symmetry; apply (hom_0 _ H).
  - destruct j; cbn; [reflexivity|apply IH].
Qed.
Lemma hom_raw (x : list F) d : raw (map phi x) d = phi (raw x d).
Proof.
  unfold raw. rewrite map_length, hom_sumf. apply sumf_ext; intros t _.
  rewrite !hom_nth, (hom_mul _ H), (hom_conj _ H). reflexivity.
Qed.
Lemma hom_rr (r : list F) i j : rr (map phi r) i j = phi (rr r i j).
Proof.
  unfold rr, rz. destruct (0 <=? Z.of_nat i - Z.of_nat j)%Z; rewrite hom_nth; [reflexivity|].
  rewrite (hom_conj _ H). reflexivity.
Qed.
Lemma hom_row (r : list F) p a i : row (map phi r) p (fun j => phi (a j)) i = phi (row r p a i).
Proof.
  unfold row. rewrite hom_sumf. apply sumf_ext; intros j _. rewrite hom_rr, (hom_mul _ H). reflexivity.
Qed.

Theorem aryule_stable_ext_thm (x : list F) (p : nat) (allow : bool) a P k (z : K) :
  (exists n, nthF x n <> 0) -> aryule x p Biased allow = inr (a, P, k) ->
  sumf (S p) (fun j => phi (afun a j) * fpow z (p - j)) = 0 -> lt (nrm2 z) 1.
Proof.
  intros Hx Hy Hz. destruct (aryule_inv x p allow a P k Hy) as (r & Hr & Hlev0 & Hp & Hl).
  destruct (acorr_biased_lags x p r Hr) as (_ & _ & HS).
  assert (HN : ofnat (length x) <> (0 : F)) by (apply (pos_ofnat (length x)); lia).
  destruct (scaled_lags_pd (F:=F) x r p _ (pos_inv_ofnat (F:=F) (length x) ltac:(lia)) HS Hx) as (Hr0 & HPD).
  destruct (levinson_pd_thm r p allow Hr0 ltac:(lia) HPD) as (a1 & P1 & k1 & Hlev & _ & _ & _ & _ & _ & Hrow & _).
  rewrite Hlev0 in Hlev. injection Hlev as <- <- <-.
  (* the same facts, transported to K *)
  assert (HSK : ScaledLags (map phi x) (map phi r) p (1 / ofnat (length (map phi x)))).
  { intros d Hd. rewrite hom_nth, (HS d Hd), (hom_mul _ H), hom_raw, map_length.
    f_equal. rewrite (hom_div _ _ HN), (hom_1 _ H), hom_ofnat. reflexivity. }
  assert (HxK : exists n, nthF (map phi x) n <> 0).
  { destruct Hx as [n Hn]. exists n. rewrite hom_nth. apply hom_nonzero. exact Hn. }
  destruct (scaled_lags_pd (F:=K) (map phi x) (map phi r) p _
              (pos_inv_ofnat (F:=K) (length (map phi x)) ltac:(rewrite map_length; lia)) HSK HxK) as (Hr0K & HPDK).
  apply (pd_root_inside (map phi r) Hr0K p (fun j => phi (afun a j)) (phi P) z HPDK).
  - cbn. apply (hom_1 _ H).
  - intros i Hi. rewrite hom_row. pose proof (Hrow i Hi) as E.
    change (toeplitz_row r p a i) with (row r p (afun a) i) in E. rewrite E.
    destruct (i =? 0)%nat; [reflexivity|apply (hom_0 _ H)].
  - exact Hz.
Qed.
End Ext.
