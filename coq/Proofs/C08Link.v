(* The link between the two halves of C08: for a pipeline row that feeds self.sampling to a functional estimator
   whose value is divided by it (what the translator reads off arma2psd: rho / T * ...), the interpreter's
   [fresult] applied to the arma2psd model at T = 1 IS the arma2psd model at T = sampling. *)
From Coq Require Import String.
Require Import Spectrum.Theory.Ops Spectrum.Theory.Sum Spectrum.Theory.Vec Spectrum.Theory.Dft
               Spectrum.Model.Arma2psd Spectrum.Proofs.Arma2psdTheory Spectrum.Model.PipelineLib Spectrum.Proofs.PipelineTheory.

Section C08Link.
Context {F : Type} {OF : Ops F} {L : Laws OF}.
Local Open Scope F_scope.
Add Field FFlink : (fth (O:=OF)).

Theorem fresult_arma2psd_thm (twopi : F) (tw : Z -> F) (p : pipeline) (sbf : bool) A B rho samp n S1 :
  p_fsamp p = UseDiv -> p_samp p = SampSelf -> p_fscale p = FsNone ->
  isreal samp -> samp <> 0 ->
  arma2psd tw A B rho 1 n SidesDefault false = Some S1 ->
  arma2psd tw A B rho samp n SidesDefault false = Some (fresult twopi p sbf samp n S1).
Proof.
  intros H1 H2 H3 Hr Hs HS.
  replace samp with (samp * 1) at 1 by ring.
  rewrite arma2psd_inverse_in_T_thm by (assumption || exact (F_1_neq_0 (fth (O:=OF)))).
  rewrite HS. cbn [option_map]. f_equal.
  unfold fresult, samp_arg. rewrite H1, H2, H3. apply vscale_ext. field. exact Hs.
Qed.
End C08Link.
