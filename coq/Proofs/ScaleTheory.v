(* C03 — homogeneity: multiplying the data by a non-zero scalar c multiplies correlations, error
   powers and variances by |c|^2 and leaves AR / reflection coefficients and order decisions
   unchanged.  Abstract ordered *-field (the sign tests of the code need |c|^2 > 0). *)
Require Import Spectrum.Theory.Ops Spectrum.Theory.Sum Spectrum.Theory.Vec Spectrum.Theory.Order
               Spectrum.Model.Levinson Spectrum.Model.Burg Spectrum.Model.Corr
               Spectrum.Proofs.LevinsonTheory Spectrum.Proofs.CorrTheory.

Section Scale.
Context {F : Type} {OF : Ops F} {L : Laws OF} {OL : OrdLaws OF}.
Local Open Scope F_scope.
Add Field FFsc : (fth (O:=OF)).

Lemma vscale_length c (x : list F) : length (vscale c x) = length x.
Proof. apply map_length. Qed.
Lemma vscale_mk c n (f : nat -> F) : vscale c (mk n f) = mk n (fun j => c * f j).
Proof. unfold vscale, mk. rewrite map_map. reflexivity. Qed.
Lemma div_scale (s a b : F) : (s * a) / b = s * (a / b).
Proof. rewrite !(Fdiv_def (fth (O:=OF))). ring. Qed.
Lemma pos_nrm2 c : c <> 0 -> pos (nrm2 c).
Proof. intros Hc. split; [apply nn_nrm2|apply nrm2_neq_0; exact Hc]. Qed.

(* the sign test of the code is invariant under a positive factor *)
Lemma le0_pos_scale s a : pos s -> conj a = a -> le0 (s * a) = le0 a.
Proof.
  intros Hs Ha.
  assert (Hsr : conj s = s) by (apply pos_real; exact Hs).
  assert (Hsa : conj (s * a) = s * a) by (rewrite conj_mul, Hsr, Ha; reflexivity).
  destruct (le0 a) eqn:E.
  - apply (le0_spec (s * a) Hsa). apply (le0_spec a Ha) in E.
    apply (nonneg_eq (s * - a)); [ring|]. apply nn_mul; [apply Hs|exact E].
  - destruct (le0 (s * a)) eqn:E'; [|reflexivity]. exfalso.
    apply (le0_spec (s * a) Hsa) in E'.
    assert (Hn : nonneg (- a)). { apply (nonneg_cancel _ s Hs). apply (nonneg_eq (- (s * a))); [ring|exact E']. }
    apply (le0_spec a Ha) in Hn. rewrite Hn in E. discriminate.
Qed.

(* ------------------------------------------------------------------ correlation *)
Lemma lag_sum_scale c N (x y : list F) k :
  lag_sum N (vscale c x) (vscale c y) k = nrm2 c * lag_sum N x y k.
Proof.
  rewrite !lag_sum_sumf, <- sumf_scale. apply sumf_ext; intros j _.
  rewrite !nthF_vscale, conj_mul. unfold nrm2. ring.
Qed.
Lemma mean_pow_scale c (x : list F) : mean_pow (vscale c x) = nrm2 c * mean_pow x.
Proof.
  unfold mean_pow. rewrite vscale_length, <- div_scale. f_equal.
  rewrite !sumL_map_nrm2', vscale_length, <- sumf_scale. apply sumf_ext; intros j _.
  rewrite nthF_vscale. apply nrm2_mul.
Qed.
(* biased / unbiased / unnormalised autocorrelation: every lag is multiplied by |c|^2;
   the 'coeff' normalisation is invariant (non-zero data) *)
Theorem acorr_scale_thm c (x : list F) ml nm : c <> 0 -> (nm = Coeff -> mean_pow x <> 0) ->
  acorr (vscale c x) ml nm
  = match acorr x ml nm with
    | None => None
    | Some r => Some (match nm with Coeff => r | _ => vscale (nrm2 c) r end)
    end.
Proof.
  intros Hc Hm. unfold acorr, correlation. cbv zeta. rewrite !vscale_length.
  destruct (Nat.ltb_spec ml (Nat.max (length x) (length x))) as [Hl|Hl]; [|reflexivity].
  f_equal. set (N := Nat.max (length x) (length x)).
  assert (Hs : nrm2 c <> 0) by (apply nrm2_neq_0; exact Hc).
  destruct nm; rewrite ?vscale_mk; apply mk_ext; intros k Hk; rewrite ?lag_sum_scale; destruct k;
    rewrite ?div_scale; try reflexivity.
  rewrite mean_pow_scale. field. repeat split; first [exact Hs | apply Hm; reflexivity | apply pos_ofnat; unfold N; lia].
Qed.

(* ------------------------------------------------------------------ Levinson *)
Definition scaleP (s : F) (st : lev_state) : lev_state := let '(A, P, ks) := st in (A, s * P, ks).
Lemma lev_delta_scale s (T A : list F) m : lev_delta (vscale s T) A m = s * lev_delta T A m.
Proof.
  unfold lev_delta. rewrite !sumL_mk, nthF_vscale.
  rewrite (sumf_ext m _ (fun j => s * (nthF A j * nthF T (m - j - 1)))).
  - rewrite sumf_scale. ring.
  - intros j _. rewrite nthF_vscale. ring.
Qed.
Lemma lev_step_scale s T allow A P ks m : pos s -> conj P = P -> P <> 0 ->
  lev_step (vscale s T) allow (A, s * P, ks) m = option_map (scaleP s) (lev_step T allow (A, P, ks) m).
Proof.
  intros Hs HPr HP0. unfold lev_step. rewrite lev_delta_scale.
  assert (Hs0 : s <> 0) by apply Hs.
  assert (Ek : - (s * lev_delta T A m) / (s * P) = - lev_delta T A m / P) by (field; split; assumption).
  rewrite Ek. set (k := - lev_delta T A m / P).
  assert (EP : s * P * (1 - k * conj k) = s * (P * (1 - k * conj k))) by ring. rewrite EP.
  rewrite le0_pos_scale; [|exact Hs|rewrite conj_mul, HPr, conj_1mkk; reflexivity].
  destruct (le0 (P * (1 - k * conj k)) && negb allow); reflexivity.
Qed.
Definition lev_nonsingular (T : list F) allow P0 (m : nat) : Prop :=
  forall q A P ks, (q < m)%nat -> lev_iter T allow P0 q = Some (A, P, ks) -> P <> 0.
Lemma lev_iter_real T allow P0 m A P ks : conj P0 = P0 -> lev_iter T allow P0 m = Some (A, P, ks) -> conj P = P.
Proof.
  intros H0. revert A P ks. induction m; intros A P ks H.
  - cbn in H. injection H as _ <- _. exact H0.
  - cbn [lev_iter] in H. destruct (lev_iter T allow P0 m) as [[[A0 P1] ks0]|] eqn:E; [|discriminate].
    unfold lev_step in H. destruct (le0 _ && negb allow); [discriminate|]. injection H as _ <- _.
    rewrite conj_mul, (IHm _ _ _ eq_refl), conj_1mkk. reflexivity.
Qed.
Lemma lev_iter_scale s T allow P0 m : pos s -> conj P0 = P0 -> lev_nonsingular T allow P0 m ->
  lev_iter (vscale s T) allow (s * P0) m = option_map (scaleP s) (lev_iter T allow P0 m).
Proof.
  intros Hs H0. induction m; intros Hns; [reflexivity|].
  cbn [lev_iter]. rewrite IHm by (intros q A P ks Hq; apply Hns; lia).
  destruct (lev_iter T allow P0 m) as [[[A P] ks]|] eqn:E; [|reflexivity]. cbn [option_map scaleP].
  apply lev_step_scale; [exact Hs|apply (lev_iter_real T allow P0 m A P ks H0 E)|apply (Hns m A P ks); [lia|exact E]].
Qed.
(* LEVINSON(s*r) = (a, s*P, k) for every positive real s: coefficients and reflection coefficients
   do not depend on the scale of the lags, the error power is proportional to it *)
Theorem levinson_scale_thm s (r : list F) p allow : pos s ->
  lev_nonsingular (tl r) allow (re (nthF r O)) p ->
  levinson (vscale s r) p allow = option_map (scaleP s) (levinson r p allow).
Proof.
  intros Hs Hns. unfold levinson. rewrite vscale_length.
  destruct (p <=? length r - 1)%nat; [|reflexivity].
  assert (Hsr : conj s = s) by (apply pos_real; exact Hs).
  assert (E1 : tl (vscale s r) = vscale s (tl r)) by (destruct r; reflexivity).
  assert (E2 : re (nthF (vscale s r) O) = s * re (nthF r O)).
  { rewrite nthF_vscale. unfold re. rewrite conj_mul, Hsr. rewrite !(Fdiv_def (fth (O:=OF))). ring. }
  rewrite E1, E2. apply lev_iter_scale; [exact Hs| |exact Hns].
  unfold re. rewrite conj_div by apply two_neq_0. rewrite conj_add, conj_conj. unfold two. rewrite conj_add, conj_1.
  f_equal. ring.
Qed.

(* ------------------------------------------------------------------ Burg *)
Definition BRel (c : F) (st st' : burg_st) : Prop :=
  b_a st' = b_a st /\ b_ref st' = b_ref st /\ b_rho st' = nrm2 c * b_rho st /\
  b_ef st' = vscale c (b_ef st) /\ b_eb st' = vscale c (b_eb st) /\
  b_den st' = nrm2 c * b_den st /\ b_temp st' = b_temp st.
Definition stop_homogeneous (stop : nat -> F -> F -> bool) : Prop :=
  forall s k r1 r2, pos s -> stop k (s * r1) (s * r2) = stop k r1 r2.

Lemma burg_num_scale c N (ef eb : list F) k :
  burg_num N (vscale c ef) (vscale c eb) k = nrm2 c * burg_num N ef eb k.
Proof.
  unfold burg_num. rewrite !sumL_mk, <- sumf_scale. apply sumf_ext; intros j _.
  rewrite !nthF_vscale, conj_mul. unfold nrm2. ring.
Qed.
Lemma burg_den_scale c N st st' k : BRel c st st' -> burg_den N st' k = nrm2 c * burg_den N st k.
Proof.
  intros (_ & _ & _ & Hef & Heb & Hden & Htemp). unfold burg_den.
  rewrite Hef, Heb, Hden, Htemp, !nthF_vscale, !nrm2_mul. ring.
Qed.
Lemma burg_kp_scale c N st st' k : c <> 0 -> BRel c st st' -> burg_den N st k <> 0 ->
  burg_kp N st' k = burg_kp N st k.
Proof.
  intros Hc HR Hd. unfold burg_kp. rewrite (burg_den_scale c N st st' k HR).
  destruct HR as (_ & _ & _ & Hef & Heb & _ & _). rewrite Hef, Heb, burg_num_scale.
  field. split; [exact Hd|apply nrm2_neq_0; exact Hc].
Qed.

Definition out_rel (c : F) (o o' : burg_out) : Prop :=
  match o, o' with
  | BCont s, BCont s' => BRel c s s' /\ conj (b_rho s) = b_rho s
  | BStop s, BStop s' => BRel c s s' /\ conj (b_rho s) = b_rho s
  | BRaise, BRaise => True
  | _, _ => False
  end.

Lemma burg_step_scale c stop N st st' k : c <> 0 -> stop_homogeneous stop ->
  BRel c st st' -> conj (b_rho st) = b_rho st -> burg_den N st k <> 0 ->
  out_rel c (burg_step stop N st k) (burg_step stop N st' k).
Proof.
  intros Hc Hst HR Hrr Hd. pose proof (pos_nrm2 c Hc) as Hs.
  unfold burg_step. rewrite (burg_kp_scale c N st st' k Hc HR Hd), (burg_den_scale c N st st' k HR).
  set (kp := burg_kp N st k).
  destruct HR as (Ha & Href & Hrho & Hef & Heb & Hden & Htemp). rewrite Hrho.
  assert (E : (1 - nrm2 kp) * (nrm2 c * b_rho st) = nrm2 c * ((1 - nrm2 kp) * b_rho st)) by ring. rewrite E.
  rewrite (Hst (nrm2 c) (S k) (b_rho st) ((1 - nrm2 kp) * b_rho st) Hs).
  assert (Hnr : conj ((1 - nrm2 kp) * b_rho st) = (1 - nrm2 kp) * b_rho st).
  { rewrite conj_mul, conj_sub, conj_1, nrm2_real, Hrr. reflexivity. }
  rewrite (le0_pos_scale _ _ Hs Hnr).
  destruct (stop (S k) (b_rho st) ((1 - nrm2 kp) * b_rho st)).
  - cbn [out_rel]. split; [|exact Hrr]. repeat split; assumption.
  - destruct (le0 ((1 - nrm2 kp) * b_rho st)); [exact I|]. cbn [out_rel]. split; [|exact Hnr].
    unfold BRel; cbn [b_a b_ref b_rho b_ef b_eb b_den b_temp]. rewrite Ha, Href, Hef, Heb.
    repeat split; try reflexivity.
    + rewrite vscale_mk. apply mk_ext; intros j Hj. rewrite !nthF_vscale. destruct (k <? j)%nat; ring.
    + rewrite vscale_mk. apply mk_ext; intros j Hj. rewrite !nthF_vscale. destruct (k <? j)%nat; ring.
Qed.

Lemma mean_power_scale c (x : list F) : mean_power (vscale c x) = nrm2 c * mean_power x.
Proof. exact (mean_pow_scale c x). Qed.
Lemma mean_power_real (x : list F) : conj (mean_power x) = mean_power x.
Proof.
  unfold mean_power. rewrite (Fdiv_def (fth (O:=OF))), conj_mul.
  destruct (eq0_dec (ofnat (length x))) as [E|E].
  - (* length 0 *) destruct x; [|exfalso; revert E; apply pos_ofnat; cbn; lia]. cbn. rewrite conj_0. ring.
  - rewrite conj_inv by exact E. rewrite conj_ofnat. f_equal.
    rewrite sumL_map_nrm2', sumf_conj. apply sumf_ext; intros j _. apply nrm2_real.
Qed.
Lemma burg_init_rel c (x : list F) : BRel c (burg_init x) (burg_init (vscale c x)).
Proof.
  unfold BRel, burg_init; cbn [b_a b_ref b_rho b_ef b_eb b_den b_temp]. rewrite mean_power_scale, vscale_length.
  repeat split; try reflexivity. ring.
Qed.

Definition burg_nondeg (stop : nat -> F -> F -> bool) (x : list F) (m : nat) : Prop :=
  forall q st, (q < m)%nat -> burg_iter stop x q = BCont st -> burg_den (length x) st q <> 0.

Lemma burg_iter_scale c stop (x : list F) m : c <> 0 -> stop_homogeneous stop -> burg_nondeg stop x m ->
  out_rel c (burg_iter stop x m) (burg_iter stop (vscale c x) m).
Proof.
  intros Hc Hst. induction m; intros Hnd.
  - cbn. split; [apply burg_init_rel|apply mean_power_real].
  - cbn [burg_iter]. assert (IH : out_rel c (burg_iter stop x m) (burg_iter stop (vscale c x) m)).
    { apply IHm. intros q st Hq. apply Hnd. lia. }
    destruct (burg_iter stop x m) as [s0|s0|] eqn:E, (burg_iter stop (vscale c x) m) as [s1|s1|] eqn:E';
      cbn in IH; try contradiction; try exact IH.
    destruct IH as [HR Hr]. rewrite vscale_length. apply burg_step_scale; [exact Hc|exact Hst|exact HR|exact Hr|apply (Hnd m s0); [lia|exact E]].
Qed.

(* arburg(c*x) = (a, |c|^2 rho, k): same AR vector, same reflection coefficients, same selected order *)
Theorem arburg_scale_thm c stop (x : list F) p : c <> 0 -> stop_homogeneous stop -> burg_nondeg stop x p ->
  arburg (vscale c x) p stop
  = match arburg x p stop with None => None | Some (a, rho, k) => Some (a, nrm2 c * rho, k) end.
Proof.
  intros Hc Hst Hnd. unfold arburg. rewrite vscale_length.
  destruct ((p =? 0)%nat || (length x <? p)%nat); [reflexivity|].
  pose proof (burg_iter_scale c stop x p Hc Hst Hnd) as H.
  destruct (burg_iter stop x p) as [s0|s0|], (burg_iter stop (vscale c x) p) as [s1|s1|]; cbn in H; try contradiction; try reflexivity;
    destruct H as [(Ha & Href & Hrho & _) _]; unfold burg_result; rewrite Ha, Href, Hrho; reflexivity.
Qed.

(* the FPE rule is homogeneous, for every comparison that is invariant under positive scaling *)
Theorem fpe_stop_homogeneous N (gt : F -> F -> bool) :
  (forall s a b, pos s -> gt (s * a) (s * b) = gt a b) -> stop_homogeneous (fpe_stop N gt).
Proof.
  intros Hgt s k r1 r2 Hs. unfold fpe_stop, fpe.
  rewrite <- (Hgt s (r2 * ofnat (N + k + 1) / ofnat (N - k - 1)) (r1 * ofnat (N + (k - 1) + 1) / ofnat (N - (k - 1) - 1)) Hs).
  f_equal; rewrite !(Fdiv_def (fth (O:=OF))); ring.
Qed.
End Scale.
