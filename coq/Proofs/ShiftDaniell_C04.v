(* C04 — DaniellPeriodogram: the smoother is applied to the rolled / mirrored periodogram.  Nothing more is true: the smoother averages
   blocks of 2P+1 bins without wrap-around, never averages bin 0 in, and returns about NFFT/(2P+1) values, so its output is not a
   re-indexing of the output for the original data (Properties/C04.v: Example daniell_not_a_rotation). *)
Require Import Spectrum.Theory.Ops Spectrum.Theory.Sum Spectrum.Theory.Vec Spectrum.Theory.Dft
               Spectrum.Model.Periodogram Spectrum.Model.Daniell Spectrum.Proofs.ShiftTheory Spectrum.Proofs.ShiftDft_C04
               Spectrum.Proofs.ShiftPeriodogram_C04.

Section ShiftDaniell.
Context {F : Type} {OF : Ops F} {L : Laws OF}.
Context (n : nat) (tw : Z -> F) {T : Twiddle n tw} (n_pos : (0 < n)%nat).
Local Open Scope F_scope.

Theorem daniell_shift_thm twopi (x w : list F) P NFFT dt sbf fs (m : Z) :
  resolve NFFT (length x) = n -> py_eq_true dt = false ->
  daniell tw twopi (vmod (sphase tw m) 0 x) w P NFFT false dt sbf fs
  = daniell_smooth (rot m (speriodogram tw twopi x w NFFT false dt sbf fs)) P.
Proof. intros H1 H2. unfold daniell. rewrite (periodogram_shift_thm n tw n_pos twopi x w NFFT dt sbf fs m H1 H2). reflexivity. Qed.

Theorem daniell_mirror_thm twopi (x w : list F) P NFFT dt sbf fs :
  resolve NFFT (length x) = n -> (forall j, isreal (nthF w j)) -> (py_eq_true dt = true -> ofnat (length x) <> 0) ->
  daniell tw twopi (vconj x) w P NFFT false dt sbf fs
  = daniell_smooth (mirror (speriodogram tw twopi x w NFFT false dt sbf fs)) P.
Proof. intros H1 H2 H3. unfold daniell. rewrite (periodogram_mirror_thm n tw n_pos twopi x w NFFT dt sbf fs H1 H2 H3). reflexivity. Qed.
End ShiftDaniell.
