(* C03 — class level.  For EVERY pipeline table of the interpreter Model/PipelineLib.v (functional estimator ->
   store (slice, doubling, flips) -> scale() calls) the stored PSD is linear in what the functional estimator
   returns:  stored(k * Sp) = k * stored(Sp).  So a class whose functional estimator is homogeneous of degree 2
   (|c|^2) has a PSD that is homogeneous of degree 2, with every sampling / scale_by_freq / NFFT / datatype.
   For the AR / MA / ARMA classes the functional estimator is arma2psd and the amplitude enters through its rho
   argument only (C08 arma2psd_linear_in_rho): the composition is [class_arma_scale_thm].
   The table itself is GENERATED from the source on every run; the instance for that table, the routing of each
   class to its functional estimator and of the estimated variance to arma2psd's rho argument are the generated
   theorems of tools/props/_c03_theorems.v.in. *)
From Coq Require Import String.
Require Import Spectrum.Theory.Ops Spectrum.Theory.Sum Spectrum.Theory.Vec Spectrum.Theory.Dft
               Spectrum.Model.Arma2psd Spectrum.Proofs.Arma2psdTheory Spectrum.Model.PipelineLib
               Spectrum.Proofs.PipelineTheory Spectrum.Proofs.C08Link.

Section ScaleClass.
Context {F : Type} {OF : Ops F} {L : Laws OF}.
Local Open Scope F_scope.
Add Field FFsc3 : (fth (O:=OF)).

Theorem stored_homogeneous_thm (twopi : F) m p real sbf (st : sstate) (k : F) (Sp : list F) :
  stored twopi m p real sbf st (vscale k Sp) = vscale k (stored twopi m p real sbf st Sp).
Proof.
  rewrite !stored_coef. unfold layout. rewrite do_store_vscale, vscale_length, !vscale_vscale.
  apply vscale_ext. ring.
Qed.

(* the AR / MA / ARMA classes: rows with (UseDiv, SampSelf, FsNone) -- generated theorem model_classes_arma2psd (C08) shows these
   are exactly the rows of pburg pyule pcovar pmodcovar parma pma.  With the same coefficients and a variance multiplied by the
   real s, what arma2psd returns at T = sampling and what the class stores are both multiplied by s *)
Theorem class_arma_scale_thm (twopi : F) (tw : Z -> F) m (p : pipeline) real sbf (st : sstate) A B rho s S1 :
  p_fsamp p = UseDiv -> p_samp p = SampSelf -> p_fscale p = FsNone ->
  isreal (st_sampling st) -> st_sampling st <> 0 -> isreal s ->
  arma2psd tw A B rho 1 (st_NFFT st) SidesDefault false = Some S1 ->
  arma2psd tw A B (s * rho) (st_sampling st) (st_NFFT st) SidesDefault false
    = Some (fresult twopi p sbf (st_sampling st) (st_NFFT st) (vscale s S1))
  /\ stored twopi m p real sbf st (vscale s S1) = vscale s (stored twopi m p real sbf st S1).
Proof.
  intros H1 H2 H3 Hr H0 Hs HS. split; [|apply stored_homogeneous_thm].
  apply (fresult_arma2psd_thm twopi tw p sbf A B (s * rho) (st_sampling st) (st_NFFT st) (vscale s S1) H1 H2 H3 Hr H0).
  rewrite (arma2psd_linear_in_rho_thm tw A B rho 1 (st_NFFT st) SidesDefault s Hs), HS. reflexivity.
Qed.

(* association lists of the table (parameter <- source expression) *)
Fixpoint assoc (k : string) (l : list (string * string)) : option string :=
  match l with [] => None | (a, b) :: r => if String.eqb k a then Some b else assoc k r end.
(* the rho argument of the functional estimator is the estimated variance: either the local name bound by the
   estimator call, or the attribute self.rho which __call__ stores from a non-constant expression *)
Definition rho_routed (p : pipeline) : bool :=
  match assoc "rho" (p_est_args p) with
  | Some src =>
      if String.eqb src "rho" then negb (String.eqb (p_param_est p) "")
      else if String.eqb src "self.rho" then
        match assoc "rho" (p_stores p) with Some e => negb (String.eqb e "") && negb (String.eqb (p_param_est p) "") | None => false end
      else false
  | None => false
  end.
End ScaleClass.
