(* C05 — NFFT only chooses the sampling grid: the character of the fine grid restricted to multiples of c
   is the character of the coarse grid, and the DFT of the same samples agrees at common frequencies. *)
Require Import Spectrum.Theory.Ops Spectrum.Theory.Sum Spectrum.Theory.Vec Spectrum.Theory.Dft.

Section Grid.
Context {F : Type} {OF : Ops F} {L : Laws OF}.
Local Open Scope F_scope.

(* coarse character from a fine one *)
Definition coarsen (c : nat) (tw' : Z -> F) : Z -> F := fun a => tw' (Z.of_nat c * a)%Z.

Theorem twiddle_coarsen (n c : nat) (tw' : Z -> F) : (0 < c)%nat -> (0 < n)%nat ->
  Twiddle (c * n) tw' -> Twiddle n (coarsen c tw').
Proof.
  intros Hc Hn T. unfold coarsen. constructor.
  - intros a b. rewrite <- tw_add. f_equal. lia.
  - rewrite Z.mul_0_r. apply tw_0.
  - replace (Z.of_nat c * Z.of_nat n)%Z with (Z.of_nat (c * n)) by lia. apply tw_n.
  - intros a. rewrite tw_cj. f_equal. lia.
  - intros j Hj. apply (tw_prim (n:=c * n)). nia.
Qed.

(* the DFT of the first N samples, on the fine grid at bin c*k, equals the DFT on the coarse grid at bin k *)
Theorem dft_grid_thm (c : nat) (tw' : Z -> F) (N : nat) (x : nat -> F) (k : Z) :
  dftN tw' N x (Z.of_nat c * k)%Z = dftN (coarsen c tw') N x k.
Proof. apply (dft_grid_refine N c (coarsen c tw') tw' N x k). intros a. reflexivity. Qed.

(* list level: numpy.fft.fft(x, c*n)[c*k] = numpy.fft.fft(x, n)[k] whenever len(x) <= n *)
Theorem fft_grid_thm (n c : nat) (tw' : Z -> F) (x : list F) (k : nat) :
  (0 < c)%nat -> (k < n)%nat -> (length x <= n)%nat ->
  nthF (dft tw' (c * n) x) (c * k) = nthF (dft (coarsen c tw') n x) k.
Proof.
  intros Hc Hk Hx. rewrite !nth_dft by nia. rewrite <- dft_grid_thm. f_equal. lia.
Qed.
End Grid.
