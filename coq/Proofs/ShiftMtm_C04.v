(* C04 — multitaper (pmtm + MultiTapering.__call__), complex data, all three weighting methods.

   Generic part: [sigma] is a permutation of the NFFT bins under which the sum over all bins is invariant.  If the
   eigenspectra of the transformed data are the eigenspectra with every row permuted by sigma (and sig2 is the same),
   then the unity / eigen weights are unchanged, the adaptive iteration runs in lock step (the update is pointwise in
   the bin, the stopping test is a sum over all bins), its weight rows are permuted, and the class PSD is permuted.
   Instances: rotation by m bins (modulated data), mirror (conjugated data, real tapers); conj(reversed) data with
   real symmetric / antisymmetric tapers leave |eigenspectra|^2 and hence everything unchanged. *)
Require Import Spectrum.Theory.Ops Spectrum.Theory.Sum Spectrum.Theory.Vec Spectrum.Theory.Dft
               Spectrum.Model.Levinson Spectrum.Model.Corr Spectrum.Model.Mtm
               Spectrum.Proofs.CorrTheory Spectrum.Proofs.ShiftTheory Spectrum.Proofs.MtmTheory
               Spectrum.Model.Arma2psd Spectrum.Proofs.Arma2psdTheory Spectrum.Model.Burg
               Spectrum.Proofs.ShiftDft_C04 Spectrum.Proofs.ShiftPeriodogram_C04 Spectrum.Proofs.ShiftArma_C04 Spectrum.Proofs.ShiftBurg_C04.

Section MtmPerm.
Context {F : Type} {OF : Ops F} {L : Laws OF}.
Local Open Scope F_scope.
Add Field FFsmt : (fth (O:=OF)).

Variable n : nat.
Variable sigma : nat -> nat.
Hypothesis sigma_lt : forall k, (k < n)%nat -> (sigma k < n)%nat.
Hypothesis sigma_sum : forall f : nat -> F, sumf n (fun k => f (sigma k)) = sumf n f.

Definition permL (l : list F) : list F := mk (length l) (fun k => nthF l (sigma k)).
Definition permM (M : list (list F)) : list (list F) := map permL M.                        (* every row permuted *)
Definition permR (M : list (list F)) : list (list F) := mkr (length M) (fun k => row (sigma k) M).   (* the rows permuted *)
(* rows are either of length n or absent *)
Definition RowsN (M : list (list F)) : Prop := forall j, length (row j M) = n \/ row j M = [].

Lemma permL_length l : length (permL l) = length l. Proof. apply mk_length. Qed.
Lemma permL_nil : permL [] = []. Proof. reflexivity. Qed.
Lemma nth_permL l k : length l = n -> (k < n)%nat -> nthF (permL l) k = nthF l (sigma k).
Proof. intros Hl Hk. unfold permL. rewrite Hl, nth_mk by exact Hk. reflexivity. Qed.
Lemma permL_mk (f : nat -> F) : permL (mk n f) = mk n (fun k => f (sigma k)).
Proof. unfold permL. rewrite mk_length. apply mk_ext; intros k Hk. rewrite nth_mk by (apply sigma_lt; exact Hk). reflexivity. Qed.
Lemma permL_map (g : F -> F) l : length l = n -> permL (map g l) = map g (permL l).
Proof.
  intros Hl. apply list_eq_nth; [rewrite permL_length, !map_length, permL_length; reflexivity|].
  intros k Hk. rewrite permL_length, map_length, Hl in Hk.
  rewrite nth_permL by (rewrite ?map_length; assumption).
  rewrite !nthF_map_lt by (rewrite ?permL_length, Hl; try apply sigma_lt; exact Hk).
  rewrite nth_permL by assumption. reflexivity.
Qed.
Lemma row_permM j M : row j (permM M) = permL (row j M).
Proof. unfold row, permM. rewrite <- permL_nil at 1. apply map_nth. Qed.
Lemma at2_permM M j k : RowsN M -> (k < n)%nat -> at2 (permM M) j k = at2 M j (sigma k).
Proof.
  intros HM Hk. unfold at2. rewrite row_permM. destruct (HM j) as [Hl|Hl].
  - apply nth_permL; assumption.
  - rewrite Hl, permL_nil. rewrite !nthF_overflow by (cbn [length]; lia). reflexivity.
Qed.
Lemma RowsN_powspec M : RowsN M -> RowsN (powspec M).
Proof.
  intros HM j. unfold powspec, row. change (@nil F) with (map nrm2 (@nil F)). rewrite map_nth.
  destruct (HM j) as [Hl|Hl]; unfold row in Hl; [left; rewrite map_length; exact Hl|right; rewrite Hl; reflexivity].
Qed.
Lemma powspec_permM M : RowsN M -> powspec (permM M) = permM (powspec M).
Proof.
  intros HM. unfold powspec, permM. rewrite !map_map. apply map_ext_in. intros r Hr.
  destruct (In_nth M r [] Hr) as (j & Hj & Ej). destruct (HM j) as [Hl|Hl]; unfold row in Hl; rewrite Ej in Hl.
  - symmetry. apply permL_map. exact Hl.
  - rewrite Hl. reflexivity.
Qed.
Lemma at2_permR M k j : length M = n -> (k < n)%nat -> at2 (permR M) k j = at2 M (sigma k) j.
Proof. intros Hl Hk. unfold permR. rewrite Hl. rewrite at2_mkr by exact Hk. reflexivity. Qed.
Lemma permR_mkr (g : nat -> list F) : permR (mkr n g) = mkr n (fun k => g (sigma k)).
Proof.
  unfold permR. rewrite mkr_length. unfold mkr. apply map_ext_in. intros k Hk. apply in_seq in Hk.
  apply row_mkr. apply sigma_lt. lia.
Qed.

(* ---------------- the adaptive iteration ---------------- *)
Definition permst (st : @ad_st F) : ad_st :=
  {| ad_S := permL (ad_S st); ad_S1 := permL (ad_S1 st); ad_wk := permR (ad_wk st); ad_i := ad_i st |}.

Lemma ad_S0_perm Sk nwin : RowsN Sk -> ad_S0 (permM Sk) nwin n = permL (ad_S0 Sk nwin n).
Proof.
  intros HS. unfold ad_S0. rewrite permL_mk. apply mk_ext; intros k Hk. f_equal.
  apply sumf_ext; intros j _. apply at2_permM; assumption.
Qed.
Lemma ad_init_perm Sk ev : RowsN Sk -> ad_init (permM Sk) ev n = permst (ad_init Sk ev n).
Proof.
  intros HS. unfold ad_init, permst. cbn [ad_S ad_S1 ad_wk ad_i]. f_equal.
  - apply ad_S0_perm. exact HS.
  - rewrite permL_mk. reflexivity.
  - rewrite permR_mkr. reflexivity.
Qed.
Lemma ad_step_perm Sk ev s2 st : RowsN Sk -> length (ad_S st) = n ->
  ad_step (permM Sk) ev s2 n (permst st) = permst (ad_step Sk ev s2 n st).
Proof.
  intros HS Hl. unfold ad_step, permst. cbn [ad_S ad_S1 ad_wk ad_i]. f_equal.
  - rewrite permL_mk. apply mk_ext; intros k Hk.
    rewrite !(sumf_ext (length ev) (fun j => at2 (mkr n (fun k0 => mk (length ev) (fun j0 => thomson (nthF ev j0) s2 (nthF (permL (ad_S st)) k0)))) k j * _)
                       (fun j => at2 (mkr n (fun k0 => mk (length ev) (fun j0 => thomson (nthF ev j0) s2 (nthF (ad_S st) k0)))) (sigma k) j * at2 Sk j (sigma k))).
    2:{ intros j Hj. rewrite at2_permM by assumption. f_equal.
        rewrite !at2_mkr by (try apply sigma_lt; exact Hk). rewrite nth_permL by assumption. reflexivity. }
    f_equal. apply sumf_ext; intros j Hj.
    rewrite !at2_mkr by (try apply sigma_lt; exact Hk). rewrite nth_permL by assumption. reflexivity.
  - rewrite permR_mkr. unfold mkr. apply map_ext_in. intros k Hk. apply in_seq in Hk.
    apply mk_ext; intros j Hj. rewrite nth_permL by (try assumption; lia). reflexivity.
Qed.
Lemma ad_err_perm st : length (ad_S st) = n -> length (ad_S1 st) = n -> ad_err n (permst st) = ad_err n st.
Proof.
  intros H1 H2. unfold ad_err. f_equal. cbn [permst ad_S ad_S1].
  rewrite <- (sigma_sum (fun k => absF (nthF (ad_S st) k - nthF (ad_S1 st) k))).
  apply sumf_ext; intros k Hk. rewrite !nth_permL by assumption. reflexivity.
Qed.
Lemma ad_loop_perm fuel Sk ev s2 tol st : RowsN Sk -> length (ad_S st) = n -> length (ad_S1 st) = n ->
  ad_loop fuel (permM Sk) ev s2 tol n (permst st) = permst (ad_loop fuel Sk ev s2 tol n st).
Proof.
  intros HS. revert st. induction fuel; intros st H1 H2; [reflexivity|].
  cbn [ad_loop]. unfold ad_continue. rewrite ad_err_perm by assumption.
  destruct (negb (le0 (ad_err n st - tol))); [|reflexivity].
  rewrite ad_step_perm by assumption. apply IHfuel; [apply mk_length|exact H1].
Qed.
Lemma ad_loop_wk_length fuel Sk ev s2 tol st : length (ad_wk st) = n -> length (ad_wk (ad_loop fuel Sk ev s2 tol n st)) = n.
Proof.
  revert st. induction fuel; intros st H; [exact H|]. cbn [ad_loop].
  destruct (ad_continue n tol st); [|exact H]. apply IHfuel. apply mkr_length.
Qed.

(* ---------------- the weighted mean of the class ---------------- *)
Lemma mt_mean_perm_fixed m Skc w nwin : m <> Adapt -> RowsN Skc ->
  mt_mean m (permM Skc) w nwin n = permL (mt_mean m Skc w nwin n).
Proof.
  intros Hm HS. unfold mt_mean. rewrite permL_mk. apply mk_ext; intros k Hk. f_equal.
  apply sumf_ext; intros j _. rewrite at2_permM by assumption. destruct m; try congruence; reflexivity.
Qed.
Lemma mt_mean_perm_adapt Skc w nwin : RowsN Skc -> length w = n ->
  mt_mean Adapt (permM Skc) (permR w) nwin n = permL (mt_mean Adapt Skc w nwin n).
Proof.
  intros HS Hw. unfold mt_mean. rewrite permL_mk. apply mk_ext; intros k Hk. f_equal.
  apply sumf_ext; intros j _. rewrite at2_permM by assumption. cbn [wt]. rewrite at2_permR by assumption. reflexivity.
Qed.

(* the class PSD from the eigenspectra, the eigenvalues and sig2 (what pmtm_core + __call__ compute for complex data) *)
Definition mt_psd (fuel : nat) (Skc : list (list F)) (ev : list F) (s2 : F) (m : mt_method) : list F :=
  let w := match m with
           | Unity => w_unity (length ev)
           | Eigen => w_eigen ev
           | Adapt => ad_wk (ad_loop fuel (powspec Skc) ev s2 (ad_tol s2 n) n (ad_init (powspec Skc) ev n))
           end in
  mt_mean m Skc w (length ev) n.
Theorem mt_psd_perm fuel Skc ev s2 m : RowsN Skc -> mt_psd fuel (permM Skc) ev s2 m = permL (mt_psd fuel Skc ev s2 m).
Proof.
  intros HS. unfold mt_psd. destruct m.
  - apply mt_mean_perm_fixed; [discriminate|exact HS].
  - apply mt_mean_perm_fixed; [discriminate|exact HS].
  - rewrite powspec_permM by exact HS. pose proof (RowsN_powspec _ HS) as HP.
    rewrite ad_init_perm by exact HP. rewrite ad_loop_perm by (try exact HP; apply mk_length).
    cbn [permst ad_wk]. apply mt_mean_perm_adapt; [exact HS|]. apply ad_loop_wk_length. apply mkr_length.
Qed.
(* only |eigenspectra|^2 is read *)
Theorem mt_psd_powspec fuel Skc Skc' ev s2 m : powspec Skc' = powspec Skc -> length Skc' = length Skc ->
  mt_psd fuel Skc' ev s2 m = mt_psd fuel Skc ev s2 m.
Proof.
  intros HP HL. unfold mt_psd. rewrite HP. set (w := match m with Unity => _ | Eigen => _ | Adapt => _ end).
  unfold mt_mean. apply mk_ext; intros k Hk. f_equal. apply sumf_ext; intros j _. f_equal.
  destruct (Nat.lt_ge_cases j (length Skc)) as [Hj|Hj].
  - rewrite <- !at2_powspec by (rewrite ?HL; exact Hj). rewrite HP. reflexivity.
  - unfold at2, row. rewrite !nth_overflow by (rewrite ?HL; exact Hj). reflexivity.
Qed.
End MtmPerm.

(* ---------------- the class in terms of mt_psd ---------------- *)
Section MtmClass.
Context {F : Type} {OF : Ops F} {L : Laws OF}.
Local Open Scope F_scope.
Add Field FFsmt2 : (fth (O:=OF)).

Lemma mt_call_unfold {NWT : Type} (dpss : nat -> NWT -> option nat -> list (list F) * list F) fuel tw (x : list F) NW k nfft e v m sbf scale :
  mt_call dpss fuel tw false x NW k nfft e v m sbf scale
  = let n := match nfft with Some n => n | None => length x end in
    match pmtm_inputs dpss (length x) NW k e v with
    | Some tv => Some (mt_scale sbf scale (mt_psd n fuel (eigenspectra tw (fst tv) x n) (snd tv) (sig2 x) m))
    | None => None
    end.
Proof.
  unfold mt_call. rewrite pmtm_unfold. cbv zeta. destruct (pmtm_inputs dpss (length x) NW k e v) as [tv|]; [|reflexivity].
  unfold pmtm_core, mt_psd, adapt_run, mt_fold. cbv zeta. destruct m; reflexivity.
Qed.
Lemma sig2_eq_mean_pow (x : list F) : sig2 x = mean_pow x. Proof. reflexivity. Qed.

Lemma RowsN_eigenspectra tw tapers (x : list F) n : RowsN n (eigenspectra tw tapers x n).
Proof.
  intros j. destruct (Nat.lt_ge_cases j (length tapers)) as [Hj|Hj].
  - left. rewrite eigenspectra_row by exact Hj. apply dft_length.
  - right. unfold row. apply nth_overflow. rewrite eigenspectra_length. exact Hj.
Qed.

Lemma sumf_mirror N (f : nat -> F) : (0 < N)%nat -> sumf N (fun k => f (ridx N (- Z.of_nat k))) = sumf N f.
Proof.
  intros HN. destruct N as [|n']; [lia|]. rewrite !sumf_shift. f_equal.
  rewrite (sumf_rev n' (fun i => f (S i))). apply sumf_ext; intros i Hi. f_equal.
    unfold ridx. replace (- Z.of_nat (S i))%Z with (Z.of_nat (S (n' - 1 - i)) + (-1) * Z.of_nat (S n'))%Z by lia.
    rewrite Z_mod_plus_full, Z.mod_small by lia. apply Nat2Z.id.
Qed.

Section Grid.
Context (n : nat) (tw : Z -> F) {Tw : Twiddle n tw} (n_pos : (0 < n)%nat).

Definition sig_rot (m : Z) : nat -> nat := fun k => ridx n (Z.of_nat k - m).
Definition sig_mir : nat -> nat := fun k => ridx n (- Z.of_nat k).
Lemma permL_rot m (l : list F) : length l = n -> permL (sig_rot m) l = rot m l.
Proof. intros Hl. unfold permL, rot, sig_rot. rewrite Hl. reflexivity. Qed.
Lemma permL_mirror (l : list F) : length l = n -> permL sig_mir l = mirror l.
Proof. intros Hl. unfold permL, mirror, sig_mir. rewrite Hl. reflexivity. Qed.
Lemma sig_rot_lt m k : (k < n)%nat -> (sig_rot m k < n)%nat. Proof. intros _. apply ridx_lt. exact n_pos. Qed.
Lemma sig_mir_lt k : (k < n)%nat -> (sig_mir k < n)%nat. Proof. intros _. apply ridx_lt. exact n_pos. Qed.
Lemma sig_rot_sum m (f : nat -> F) : sumf n (fun k => f (sig_rot m k)) = sumf n f.
Proof. apply sumf_rot. exact n_pos. Qed.
Lemma sig_mir_sum (f : nat -> F) : sumf n (fun k => f (sig_mir k)) = sumf n f.
Proof. apply sumf_mirror. exact n_pos. Qed.

Lemma tapered_vmod phi t (x : list F) : tapered t (vmod phi 0 x) = vmod phi 0 (tapered t x).
Proof.
  apply list_eq_nth; [rewrite vmod_length, !tapered_length, vmod_length; reflexivity|].
  intros j Hj. rewrite tapered_length, vmod_length in Hj. unfold tapered at 1. rewrite vmod_length, nth_mk by exact Hj.
  rewrite !nthF_vmod. unfold tapered. rewrite nth_mk by exact Hj. ring.
Qed.
Lemma eigenspectra_shift m tapers (x : list F) :
  eigenspectra tw tapers (vmod (sphase tw m) 0 x) n = permM (sig_rot m) (eigenspectra tw tapers x n).
Proof.
  unfold eigenspectra, permM. rewrite map_map. apply map_ext. intros t.
  rewrite tapered_vmod, (dft_list_shift n tw n_pos). symmetry. apply permL_rot. apply dft_length.
Qed.
Lemma tapered_conj t (x : list F) : (forall j, isreal (nthF t j)) -> tapered t (vconj x) = vconj (tapered t x).
Proof.
  intros Ht. apply list_eq_nth; [rewrite vconj_length, !tapered_length, vconj_length; reflexivity|].
  intros j Hj. rewrite tapered_length, vconj_length in Hj. unfold tapered at 1. rewrite vconj_length, nth_mk by exact Hj.
  rewrite !nthF_vconj. unfold tapered. rewrite nth_mk by exact Hj. rewrite conj_mul, (Ht j). reflexivity.
Qed.

(* ---- modulated data: the class PSD (all three methods, scale_by_freq on or off) is rotated by m bins ---- *)
Theorem mt_call_shift_thm {NWT : Type} (dpss : nat -> NWT -> option nat -> list (list F) * list F) fuel (x : list F) NW k nfft e v mth sbf scale (m : Z) :
  (match nfft with Some n' => n' | None => length x end) = n ->
  mt_call dpss fuel tw false (vmod (sphase tw m) 0 x) NW k nfft e v mth sbf scale
  = option_map (rot m) (mt_call dpss fuel tw false x NW k nfft e v mth sbf scale).
Proof.
  intros Hn. rewrite !mt_call_unfold. cbv zeta. rewrite vmod_length, Hn.
  destruct (pmtm_inputs dpss (length x) NW k e v) as [tv|]; [|reflexivity]. cbn [option_map]. f_equal.
  rewrite !sig2_eq_mean_pow, (mean_pow_mod (sphase tw m) (sphase_add n tw n_pos m) (sphase_0 n tw m) (sphase_cj n tw n_pos m)).
  rewrite eigenspectra_shift.
  rewrite (mt_psd_perm n (sig_rot m) (sig_rot_lt m) (sig_rot_sum m)) by apply RowsN_eigenspectra.
  rewrite permL_rot by (unfold mt_psd; apply mt_mean_length).
  unfold mt_scale. destruct sbf; [symmetry; apply rot_map|reflexivity].
Qed.

(* ---- conjugated data, real tapers: mirrored ---- *)
Lemma eigenspectra_conj_pow tapers (x : list F) : (forall t, In t tapers -> forall j, isreal (nthF t j)) ->
  powspec (eigenspectra tw tapers (vconj x) n) = powspec (permM sig_mir (eigenspectra tw tapers x n)).
Proof.
  intros Ht. unfold powspec, eigenspectra, permM. rewrite !map_map. apply map_ext_in. intros t Hin.
  rewrite tapered_conj by (apply Ht; exact Hin). rewrite (dft_list_conj n tw n_pos).
  rewrite permL_mirror by apply dft_length. unfold vconj. rewrite map_map. apply map_ext. intros a. apply nrm2_conj'.
Qed.
Theorem mt_call_mirror_thm {NWT : Type} (dpss : nat -> NWT -> option nat -> list (list F) * list F) fuel (x : list F) NW k nfft e v mth sbf scale :
  (match nfft with Some n' => n' | None => length x end) = n ->
  (forall tv, pmtm_inputs dpss (length x) NW k e v = Some tv -> forall t, In t (fst tv) -> forall j, isreal (nthF t j)) ->
  mt_call dpss fuel tw false (vconj x) NW k nfft e v mth sbf scale
  = option_map mirror (mt_call dpss fuel tw false x NW k nfft e v mth sbf scale).
Proof.
  intros Hn Ht. rewrite !mt_call_unfold. cbv zeta. rewrite vconj_length, Hn.
  destruct (pmtm_inputs dpss (length x) NW k e v) as [tv|] eqn:E; [|reflexivity]. cbn [option_map]. f_equal.
  rewrite !sig2_eq_mean_pow, mean_pow_conj.
  rewrite (mt_psd_powspec n fuel (permM sig_mir (eigenspectra tw (fst tv) x n)) (eigenspectra tw (fst tv) (vconj x) n)).
  2:{ apply eigenspectra_conj_pow. apply (Ht tv eq_refl). }
  2:{ unfold permM. rewrite map_length, !eigenspectra_length. reflexivity. }
  rewrite (mt_psd_perm n sig_mir sig_mir_lt sig_mir_sum) by apply RowsN_eigenspectra.
  rewrite permL_mirror by (unfold mt_psd; apply mt_mean_length).
  unfold mt_scale. destruct sbf; [symmetry; apply mirror_map|reflexivity].
Qed.

(* ---- conj(reversed) data, tapers real and symmetric or antisymmetric (the Slepian sequences), N <= NFFT ---- *)
Definition sym_taper (N : nat) (t : list F) : Prop :=
  (forall j, isreal (nthF t j)) /\
  ((forall j, (j < N)%nat -> nthF t (N - 1 - j) = nthF t j) \/ (forall j, (j < N)%nat -> nthF t (N - 1 - j) = - nthF t j)).
Lemma nrm2_opp' (a : F) : nrm2 (- a) = nrm2 a.
Proof. unfold nrm2. rewrite conj_opp. ring. Qed.
Lemma eigenspectra_revconj_pow tapers (x : list F) : (length x <= n)%nat -> (forall t, In t tapers -> sym_taper (length x) t) ->
  powspec (eigenspectra tw tapers (vrevconj x) n) = powspec (eigenspectra tw tapers x n).
Proof.
  intros HN Ht. unfold powspec, eigenspectra. rewrite !map_map. apply map_ext_in. intros t Hin.
  destruct (Ht t Hin) as [Hr Hs].
  apply list_eq_nth; [rewrite !map_length, !dft_length; reflexivity|].
  intros k Hk. rewrite map_length, dft_length in Hk.
  rewrite !nthF_map_lt by (rewrite dft_length; exact Hk).
  assert (E : forall s : F, (s = 1 \/ s = - (1)) -> (forall j, (j < length x)%nat -> nthF t (length x - 1 - j) = s * nthF t j) ->
              nrm2 (nthF (dft tw n (tapered t (vrevconj x))) k) = nrm2 (nthF (dft tw n (tapered t x)) k)).
  { intros s Hs1 Hsym.
    assert (Et : tapered t (vrevconj x) = vscale s (vrevconj (tapered t x))).
    { apply list_eq_nth; [unfold vscale; rewrite map_length, vrevconj_length, !tapered_length, vrevconj_length; reflexivity|].
      intros j Hj. rewrite tapered_length, vrevconj_length in Hj. rewrite nthF_vscale.
      unfold tapered at 1. rewrite vrevconj_length, nth_mk by exact Hj.
      unfold vrevconj. rewrite tapered_length, !nth_mk by lia. unfold tapered. rewrite nth_mk by lia.
      rewrite conj_mul, (Hr (length x - 1 - j)%nat), Hsym by exact Hj.
      destruct Hs1 as [-> | ->]; ring. }
    rewrite Et. rewrite !nth_dft_crop by exact Hk.
    replace (dftN tw n (nthF (vscale s (vrevconj (tapered t x)))) (Z.of_nat k))
      with (s * dftN tw n (nthF (vrevconj (tapered t x))) (Z.of_nat k)).
    2:{ rewrite <- (dft_scale tw). unfold dftN. apply sumf_ext; intros j _. rewrite nthF_vscale. reflexivity. }
    rewrite <- !nth_dft_crop by exact Hk.
    rewrite (dft_list_revconj n tw n_pos) by (rewrite ?tapered_length; assumption).
    rewrite nrm2_mul, (nrm2_conj_tw_mul n tw n_pos). destruct Hs1 as [-> | ->]; [rewrite nrm2_one|rewrite nrm2_opp', nrm2_one]; ring. }
  destruct Hs as [Hs|Hs].
  - apply (E 1); [left; reflexivity|]. intros j Hj. rewrite Hs by exact Hj. ring.
  - apply (E (- (1))); [right; reflexivity|]. intros j Hj. rewrite Hs by exact Hj. ring.
Qed.
Theorem mt_call_reversal_thm {NWT : Type} (dpss : nat -> NWT -> option nat -> list (list F) * list F) fuel (x : list F) NW k nfft e v mth sbf scale :
  (match nfft with Some n' => n' | None => length x end) = n -> (length x <= n)%nat ->
  (forall tv, pmtm_inputs dpss (length x) NW k e v = Some tv -> forall t, In t (fst tv) -> sym_taper (length x) t) ->
  mt_call dpss fuel tw false (vrevconj x) NW k nfft e v mth sbf scale
  = mt_call dpss fuel tw false x NW k nfft e v mth sbf scale.
Proof.
  intros Hn HN Ht. rewrite !mt_call_unfold. cbv zeta. rewrite vrevconj_length, Hn.
  destruct (pmtm_inputs dpss (length x) NW k e v) as [tv|] eqn:E; [|reflexivity]. f_equal. f_equal.
  rewrite !sig2_eq_mean_pow.
  assert (Em : mean_pow (vrevconj x) = mean_pow x) by apply mean_power_revconj.
  rewrite Em. apply mt_psd_powspec; [|rewrite !eigenspectra_length; reflexivity].
  apply eigenspectra_revconj_pow; [exact HN|apply (Ht tv eq_refl)].
Qed.
End Grid.
End MtmClass.
