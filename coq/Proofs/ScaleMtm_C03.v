(* C03 — multitaper: pmtm(c*x) = (c * eigenspectra, SAME weights, same eigenvalues) and the class PSD is
   multiplied by |c|^2.  For the adaptive method: one pass b = S/(lam S + (1-lam) sig2), wk = b^2 lam,
   S1 = sum wk Sk / sum wk is invariant under (Sk, S, sig2) -> s*(Sk, S, sig2), the stopping test
   sum|S - S1|/NFFT > 0.0005 sig2/NFFT is homogeneous, hence for EVERY pass bound (fuel) the loop makes the same
   number of passes and ends with identical weights. *)
Require Import Spectrum.Theory.Ops Spectrum.Theory.Sum Spectrum.Theory.Vec Spectrum.Theory.Dft Spectrum.Theory.Order
               Spectrum.Model.Mtm Spectrum.Proofs.MtmTheory Spectrum.Proofs.MtmOrder Spectrum.Proofs.ScaleUtil_C03.

Section ScaleMtm.
Context {F : Type} {OF : Ops F} {L : Laws OF} {OL : OrdLaws OF}.
Local Open Scope F_scope.
Add Field FFmt : (fth (O:=OF)).

(* ---------- eigenspectra, power spectra, data power, tolerance ---------- *)
Lemma at2_map_vscale s (M : list (list F)) i j : at2 (map (vscale s) M) i j = s * at2 M i j.
Proof. unfold at2, row. rewrite su_nth_map_vscale. apply nthF_vscale. Qed.
Lemma tapered_vscale c (t x : list F) : tapered t (vscale c x) = vscale c (tapered t x).
Proof.
  unfold tapered. rewrite su_vscale_length, su_vscale_mk. apply mk_ext; intros m _. rewrite nthF_vscale. ring.
Qed.
Theorem eigenspectra_scale_thm tw tapers c (x : list F) nfft :
  eigenspectra tw tapers (vscale c x) nfft = map (vscale c) (eigenspectra tw tapers x nfft).
Proof.
  unfold eigenspectra. rewrite map_map. apply map_ext; intros t. rewrite tapered_vscale. apply su_dft_vscale.
Qed.
Lemma powspec_vscale c (M : list (list F)) : powspec (map (vscale c) M) = map (vscale (nrm2 c)) (powspec M).
Proof.
  unfold powspec. rewrite !map_map. apply map_ext; intros r. apply su_map_vscale. intros a. apply nrm2_mul.
Qed.
Lemma sig2_vscale c (x : list F) : sig2 (vscale c x) = nrm2 c * sig2 x.
Proof.
  unfold sig2. rewrite su_vscale_length, <- su_div_scale. f_equal.
  unfold vscale. rewrite map_map. rewrite (map_ext (fun a => nrm2 (c * a)) (fun a => nrm2 c * nrm2 a)) by (intros; apply nrm2_mul).
  change (map (fun a => nrm2 c * nrm2 a) x) with (map (fun a => (fun b => nrm2 c * b) (nrm2 a)) x).
  rewrite <- (map_map nrm2 (fun b => nrm2 c * b)). apply (su_sumL_vscale (nrm2 c)).
Qed.
Lemma ad_tol_scale s s2 nfft : ad_tol (s * s2) nfft = s * ad_tol s2 nfft.
Proof. unfold ad_tol. rewrite !(Fdiv_def (fth (O:=OF)) _ (ofnat nfft)). ring. Qed.

(* ---------- one adaptive pass ---------- *)
Lemma thomson_scale s lam s2 S : s <> 0 -> S * lam + s2 * (1 - lam) <> 0 ->
  thomson lam (s * s2) (s * S) = thomson lam s2 S.
Proof.
  intros Hs Hd.
  assert (Hd' : s * S * lam + s * s2 * (1 - lam) <> 0).
  { intros E. apply Hd. apply (mul_cancel_l s); [|exact Hs]. etransitivity; [|exact E]. ring. }
  unfold thomson. cbv zeta. field. split; [exact Hd|exact Hd'].
Qed.

Definition ad_scale (s : F) (st : @ad_st F) : @ad_st F :=
  {| ad_S := vscale s (ad_S st); ad_S1 := vscale s (ad_S1 st); ad_wk := ad_wk st; ad_i := ad_i st |}.
(* what the unscaled state must satisfy for the pass and the test to be well defined:
   no 0 denominator in Thomson's weight, and a real difference S - S1 (the code takes its absolute value) *)
Definition ad_regular (ev : list F) (s2 : F) (nfft : nat) (st : @ad_st F) : Prop :=
  (forall k j, (k < nfft)%nat -> (j < length ev)%nat -> nthF (ad_S st) k * nthF ev j + s2 * (1 - nthF ev j) <> 0)
  /\ (forall k, (k < nfft)%nat -> conj (nthF (ad_S st) k - nthF (ad_S1 st) k) = nthF (ad_S st) k - nthF (ad_S1 st) k).

Lemma ad_init_scale s (Sk : list (list F)) ev nfft :
  ad_init (map (vscale s) Sk) ev nfft = ad_scale s (ad_init Sk ev nfft).
Proof.
  unfold ad_init, ad_scale; cbn [ad_S ad_S1 ad_wk ad_i]. f_equal.
  - unfold ad_S0. cbv zeta. rewrite su_vscale_mk. apply mk_ext; intros k _.
    rewrite <- su_div_scale. f_equal. rewrite <- sumf_scale. apply sumf_ext; intros j _. apply at2_map_vscale.
  - rewrite su_vscale_mk. apply mk_ext; intros; ring.
Qed.
Lemma mkr_ext n (f g : nat -> list F) : (forall k, (k < n)%nat -> f k = g k) -> mkr n f = mkr n g.
Proof. intros H. unfold mkr. apply map_ext_in. intros k Hk. apply in_seq in Hk. apply H. lia. Qed.
Theorem ad_step_scale_thm s (Sk : list (list F)) ev s2 nfft st : s <> 0 -> ad_regular ev s2 nfft st ->
  ad_step (map (vscale s) Sk) ev (s * s2) nfft (ad_scale s st) = ad_scale s (ad_step Sk ev s2 nfft st).
Proof.
  intros Hs [Hd _]. unfold ad_step. cbv zeta. cbn [ad_scale ad_S ad_S1 ad_wk ad_i].
  set (wk := mkr nfft (fun k => mk (length ev) (fun j => thomson (nthF ev j) s2 (nthF (ad_S st) k)))).
  assert (Ewk : mkr nfft (fun k => mk (length ev) (fun j => thomson (nthF ev j) (s * s2) (nthF (vscale s (ad_S st)) k))) = wk).
  { unfold wk. apply mkr_ext; intros k Hk. apply mk_ext; intros j Hj. rewrite nthF_vscale.
    apply thomson_scale; [exact Hs|apply Hd; assumption]. }
  rewrite Ewk. unfold ad_scale; cbn [ad_S ad_S1 ad_wk ad_i]. f_equal.
  rewrite su_vscale_mk. apply mk_ext; intros k _. rewrite <- su_div_scale. f_equal.
  rewrite <- sumf_scale. apply sumf_ext; intros j _. rewrite at2_map_vscale. ring.
Qed.

(* ---------- the stopping test ---------- *)
Lemma absF_scale s a : pos s -> conj a = a -> absF (s * a) = s * absF a.
Proof. intros Hs Ha. unfold absF. rewrite su_le0_pos_scale by assumption. destruct (le0 a); ring. Qed.
Lemma absF_real a : conj a = a -> conj (absF a) = absF a.
Proof. intros H. unfold absF. destruct (le0 a); [rewrite conj_opp, H; reflexivity|exact H]. Qed.
Lemma ad_err_scale s nfft st : pos s ->
  (forall k, (k < nfft)%nat -> conj (nthF (ad_S st) k - nthF (ad_S1 st) k) = nthF (ad_S st) k - nthF (ad_S1 st) k) ->
  ad_err nfft (ad_scale s st) = s * ad_err nfft st.
Proof.
  intros Hs Hr. unfold ad_err. cbn [ad_scale ad_S ad_S1]. rewrite <- su_div_scale. f_equal.
  rewrite <- sumf_scale. apply sumf_ext; intros k Hk. rewrite !nthF_vscale.
  replace (s * nthF (ad_S st) k - s * nthF (ad_S1 st) k) with (s * (nthF (ad_S st) k - nthF (ad_S1 st) k)) by ring.
  apply absF_scale; [exact Hs|apply Hr; exact Hk].
Qed.
Lemma ad_err_real nfft st :
  (forall k, (k < nfft)%nat -> conj (nthF (ad_S st) k - nthF (ad_S1 st) k) = nthF (ad_S st) k - nthF (ad_S1 st) k) ->
  conj (ad_err nfft st) = ad_err nfft st.
Proof.
  intros Hr. unfold ad_err. destruct nfft as [|n].
  - cbn [sumf]. rewrite (Fdiv_def (fth (O:=OF))). replace (0 * inv (ofnat 0)) with (0 : F) by ring. apply conj_0.
  - rewrite conj_div by (apply (pos_ofnat (S n)); lia). rewrite conj_ofnat. f_equal.
    rewrite sumf_conj. apply sumf_ext; intros k Hk. apply absF_real. apply Hr. exact Hk.
Qed.
Theorem ad_continue_scale_thm s nfft tol st : pos s -> conj tol = tol ->
  (forall k, (k < nfft)%nat -> conj (nthF (ad_S st) k - nthF (ad_S1 st) k) = nthF (ad_S st) k - nthF (ad_S1 st) k) ->
  ad_continue nfft (s * tol) (ad_scale s st) = ad_continue nfft tol st.
Proof.
  intros Hs Ht Hr. unfold ad_continue. f_equal. rewrite ad_err_scale by assumption.
  replace (s * ad_err nfft st - s * tol) with (s * (ad_err nfft st - tol)) by ring.
  apply su_le0_pos_scale; [exact Hs|]. rewrite conj_sub, Ht, ad_err_real by exact Hr. reflexivity.
Qed.

(* ---------- the loop, for every pass bound ---------- *)
Section Loop.
Variables (s : F) (Sk : list (list F)) (ev : list F) (s2 tol : F) (nfft : nat).
Hypothesis Hs : pos s.
Hypothesis Htol : conj tol = tol.
Hypothesis Hreg : forall n, ad_regular ev s2 nfft (ad_iter n Sk ev s2 nfft).

Lemma ad_loop_scale_from fuel : forall n,
  ad_loop fuel (map (vscale s) Sk) ev (s * s2) (s * tol) nfft (ad_scale s (ad_iter n Sk ev s2 nfft))
  = ad_scale s (ad_loop fuel Sk ev s2 tol nfft (ad_iter n Sk ev s2 nfft)).
Proof.
  induction fuel as [|f IH]; intros n; [reflexivity|]. cbn [ad_loop].
  rewrite (ad_continue_scale_thm s nfft tol _ Hs Htol (proj2 (Hreg n))).
  destruct (ad_continue nfft tol (ad_iter n Sk ev s2 nfft)); [|reflexivity].
  rewrite (ad_step_scale_thm s Sk ev s2 nfft _ (proj2 Hs) (Hreg n)). apply (IH (S n)).
Qed.
Theorem ad_loop_scale_thm fuel :
  ad_loop fuel (map (vscale s) Sk) ev (s * s2) (s * tol) nfft (ad_init (map (vscale s) Sk) ev nfft)
  = ad_scale s (ad_loop fuel Sk ev s2 tol nfft (ad_init Sk ev nfft)).
Proof. rewrite ad_init_scale. apply (ad_loop_scale_from fuel O). Qed.
End Loop.

(* regularity of every state of the unscaled run *)
Definition adapt_regular (tw : Z -> F) (tapers : list (list F)) (ev x : list F) (nfft : nat) : Prop :=
  conj (ad_tol (sig2 x) nfft) = ad_tol (sig2 x) nfft /\
  forall n, ad_regular ev (sig2 x) nfft (ad_iter n (powspec (eigenspectra tw tapers x nfft)) ev (sig2 x) nfft).

Theorem adapt_run_scale_thm fuel tw tapers c (ev x : list F) nfft : c <> 0 -> adapt_regular tw tapers ev x nfft ->
  adapt_run fuel (eigenspectra tw tapers (vscale c x) nfft) ev (vscale c x) nfft
  = ad_scale (nrm2 c) (adapt_run fuel (eigenspectra tw tapers x nfft) ev x nfft).
Proof.
  intros Hc [Ht Hreg]. unfold adapt_run. cbv zeta.
  rewrite eigenspectra_scale_thm, powspec_vscale, sig2_vscale, ad_tol_scale.
  apply ad_loop_scale_thm; [apply su_pos_nrm2; exact Hc|exact Ht|exact Hreg].
Qed.

(* pmtm once tapers and eigenvalues are known: eigenspectra times c, identical weights (all three methods) and eigenvalues.
   'unity' and 'eigen' need no hypothesis at all *)
Definition method_regular (tw : Z -> F) (tapers : list (list F)) (ev x : list F) (nfft : nat) (m : mt_method) : Prop :=
  match m with Adapt => adapt_regular tw tapers ev x nfft | _ => True end.
Definition pm_scale (c : F) (r : list (list F) * list (list F) * list F) : list (list F) * list (list F) * list F :=
  let '(Skc, w, ev) := r in (map (vscale c) Skc, w, ev).
Theorem pmtm_core_scale_thm fuel tw tapers c (ev x : list F) nfft m : c <> 0 -> method_regular tw tapers ev x nfft m ->
  pmtm_core fuel tw tapers ev (vscale c x) nfft m = pm_scale c (pmtm_core fuel tw tapers ev x nfft m).
Proof.
  intros Hc Hm. unfold pmtm_core, pm_scale. cbv zeta. rewrite eigenspectra_scale_thm.
  destruct m; try reflexivity.
  rewrite <- eigenspectra_scale_thm, (adapt_run_scale_thm fuel tw tapers c ev x nfft Hc Hm). reflexivity.
Qed.

(* the pass count of the adaptive loop is the same *)
Theorem adapt_passes_scale_thm fuel tw tapers c (ev x : list F) nfft : c <> 0 -> adapt_regular tw tapers ev x nfft ->
  ad_i (adapt_run fuel (eigenspectra tw tapers (vscale c x) nfft) ev (vscale c x) nfft)
  = ad_i (adapt_run fuel (eigenspectra tw tapers x nfft) ev x nfft).
Proof. intros Hc Hr. rewrite (adapt_run_scale_thm fuel tw tapers c ev x nfft Hc Hr). reflexivity. Qed.

(* ---------- pmtm with the taper oracle, and the class ---------- *)
Definition pmtm_regular {NWT : Type} (dpss : nat -> NWT -> option nat -> list (list F) * list F)
  (tw : Z -> F) (x : list F) (NW : option NWT) (k : option nat) (n : nat) (e : option (list F)) (v : option (list (list F))) (m : mt_method) : Prop :=
  match e, v with
  | None, None => match NW with Some nw => let tv := dpss (length x) nw k in method_regular tw (fst tv) (snd tv) x n m | None => True end
  | Some e', Some v' => method_regular tw v' e' x n m
  | _, _ => True
  end.
Theorem pmtm_scale_thm {NWT : Type} (dpss : nat -> NWT -> option nat -> list (list F) * list F)
  fuel tw c (x : list F) NW k nfft e v m : c <> 0 ->
  pmtm_regular dpss tw x NW k (match nfft with Some n => n | None => pmtm_default_nfft (length x) end) e v m ->
  pmtm dpss fuel tw (vscale c x) NW k nfft e v m = option_map (pm_scale c) (pmtm dpss fuel tw x NW k nfft e v m).
Proof.
  intros Hc Hr. unfold pmtm, pmtm_regular in *. cbv zeta in *. rewrite su_vscale_length.
  destruct e as [e'|], v as [v'|]; try reflexivity.
  - cbn [option_map]. f_equal. apply pmtm_core_scale_thm; assumption.
  - destruct NW as [nw|]; [|reflexivity]. cbn [option_map]. f_equal. apply pmtm_core_scale_thm; assumption.
Qed.

Lemma mt_mean_scale m c (Skc w : list (list F)) nwin nfft :
  mt_mean m (map (vscale c) Skc) w nwin nfft = vscale (nrm2 c) (mt_mean m Skc w nwin nfft).
Proof.
  unfold mt_mean. rewrite su_vscale_mk. apply mk_ext; intros k _. rewrite <- su_div_scale. f_equal.
  rewrite <- sumf_scale. apply sumf_ext; intros j _. rewrite at2_map_vscale, nrm2_mul. ring.
Qed.
Lemma mt_fold_scale isr nfft s (Sv : list F) : mt_fold isr nfft (vscale s Sv) = vscale s (mt_fold isr nfft Sv).
Proof.
  unfold mt_fold. destruct isr; [|reflexivity]. rewrite su_vscale_firstn. apply su_map_vscale. intros a. ring.
Qed.
Lemma mt_scale_scale sbf sc s (psd : list F) : mt_scale sbf sc (vscale s psd) = vscale s (mt_scale sbf sc psd).
Proof. unfold mt_scale. destruct sbf; [|reflexivity]. apply su_map_vscale. intros a. ring. Qed.
(* MultiTapering(c*x).psd = |c|^2 MultiTapering(x).psd: every method, real/complex layout, scale_by_freq on or off *)
Theorem mt_call_scale_thm {NWT : Type} (dpss : nat -> NWT -> option nat -> list (list F) * list F)
  fuel tw isr c (x : list F) NW k nfft e v m sbf sc : c <> 0 ->
  pmtm_regular dpss tw x NW k (match nfft with Some n => n | None => length x end) e v m ->
  mt_call dpss fuel tw isr (vscale c x) NW k nfft e v m sbf sc
  = option_map (vscale (nrm2 c)) (mt_call dpss fuel tw isr x NW k nfft e v m sbf sc).
Proof.
  intros Hc Hr. unfold mt_call. cbv zeta. rewrite su_vscale_length.
  set (n := match nfft with Some n => n | None => length x end) in *.
  rewrite (pmtm_scale_thm dpss fuel tw c x NW k (Some n) e v m Hc Hr).
  destruct (pmtm dpss fuel tw x NW k (Some n) e v m) as [[[Skc w] ev]|]; [|reflexivity].
  cbn [option_map pm_scale]. f_equal. rewrite mt_mean_scale, mt_fold_scale. apply mt_scale_scale.
Qed.

(* ---------- the regularity hypothesis holds by itself under the natural conditions of the method ---------- *)
Lemma at2_powspec_nonneg (M : list (list F)) j k : nonneg (at2 (powspec M) j k).
Proof.
  destruct (Nat.ltb_spec j (length M)) as [H|H].
  - rewrite at2_powspec by exact H. apply nn_nrm2.
  - unfold at2, row, powspec. rewrite nth_overflow by (rewrite map_length; exact H).
    destruct k; apply nonneg_0.
Qed.
Theorem adapt_regular_natural_thm tw tapers (ev x : list F) nfft :
  (1 <= nfft)%nat -> (1 <= length ev)%nat -> pos (sig2 x) ->
  (forall j, (j < length ev)%nat -> pos (nthF ev j) /\ le (nthF ev j) 1) ->
  (forall k, (k < nfft)%nat -> nthF (ad_S0 (powspec (eigenspectra tw tapers x nfft)) (length ev) nfft) k <> 0) ->
  adapt_regular tw tapers ev x nfft.
Proof.
  intros Hnf Hn Hs2 Hlam HS0. set (Sk := powspec (eigenspectra tw tapers x nfft)) in *.
  assert (HSk : forall j k, (j < length ev)%nat -> (k < nfft)%nat -> nonneg (at2 Sk j k))
    by (intros; apply at2_powspec_nonneg).
  split; [apply (isreal_tol ev (sig2 x) nfft Hn Hs2 Hnf)|].
  intros n. split.
  - intros k j Hk Hj. destruct (Hlam j Hj) as [Hl1 Hl2].
    apply (thomson_den_pos (nthF ev j) (sig2 x)); [|assumption..].
    apply (iter_good Sk ev (sig2 x) nfft Hn Hs2 Hlam HSk HS0 n k Hk).
  - intros k Hk. rewrite conj_sub. f_equal.
    + apply pos_real. apply (iter_good Sk ev (sig2 x) nfft Hn Hs2 Hlam HSk HS0 n k Hk).
    + destruct n.
      * cbn [ad_iter ad_init ad_S1]. rewrite nth_mk by exact Hk. apply conj_0.
      * rewrite ad_iter_S, ad_step_S1. apply pos_real. apply (iter_good Sk ev (sig2 x) nfft Hn Hs2 Hlam HSk HS0 n k Hk).
Qed.
End ScaleMtm.
