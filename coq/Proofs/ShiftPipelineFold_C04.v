(* C04 — real data, classes that fold with tools.twosided_2_onesided (pcorrelogram): what the object stores for real data is
   twosided_2_onesided of what it stores for the same spectrum declared complex: bins 1 .. ceil(NFFT/2)-1 doubled, bin 0 and (NFFT even)
   bin NFFT/2 kept.  ("Twice the first half" is therefore false for this class at bins 0 and NFFT/2: it is not one of the classes
   the one-sided clause of the property names.)  Used over the GENERATED pipeline table. *)
From Coq Require Import String.
Require Import Spectrum.Theory.Ops Spectrum.Theory.Sum Spectrum.Theory.Vec Spectrum.Theory.Dft
               Spectrum.Model.PipelineLib Spectrum.Proofs.PipelineTheory.

Section PipeFold.
Context {F : Type} {OF : Ops F} {L : Laws OF}.
Local Open Scope F_scope.
Add Field FFspf : (fth (O:=OF)).
Variable twopi : F.

Lemma two2one_vscale c (v : list F) : two2one (vscale c v) = vscale c (two2one v).
Proof.
  unfold two2one. cbv zeta. rewrite vscale_length, vscale_mk. apply mk_ext; intros j _. rewrite nthF_vscale.
  pose proof (two_neq_0 (O:=OF)) as H2.
  destruct (j =? 0)%nat; destruct (Nat.even (length v) && (j =? length v / 2)%nat)%bool; field; exact H2.
Qed.
(* entry by entry *)
Lemma nth_two2one (v : list F) j : (j <= length v / 2)%nat ->
  nthF (two2one v) j = if ((j =? 0)%nat || (Nat.even (length v) && (j =? length v / 2)%nat))%bool then nthF v j else two * nthF v j.
Proof.
  intros Hj. unfold two2one. cbv zeta. rewrite nth_mk by lia.
  pose proof (two_neq_0 (O:=OF)) as H2.
  destruct (Nat.eqb_spec j 0) as [E0|N0]; destruct (Nat.even (length v) && (j =? length v / 2)%nat)%bool eqn:Ee; cbn [orb]; try (field; exact H2).
  (* j = 0 and the Nyquist test true: only for the empty list *)
  apply andb_prop in Ee. destruct Ee as [Ev En]. apply Nat.eqb_eq in En. subst j.
  assert (Hl : (length v < 2)%nat).
  { destruct (Nat.lt_ge_cases (length v) 2) as [H|H]; [exact H|]. pose proof (Nat.div_le_lower_bound (length v) 2 1 ltac:(lia) ltac:(lia)). lia. }
  destruct v as [|a [|b v]]; cbn [length] in *; [|discriminate Ev|lia]. cbn. field. exact H2.
Qed.

Lemma stored_two2one m p sbf (s : sstate) (Sp : list F) :
  p_real p = STwo2One -> p_cplx p = SAsIs -> p_scale_real p = p_scale_cplx p ->
  st_range_N s = st_NFFT s -> length Sp = st_NFFT s ->
  stored twopi m p true sbf s Sp = two2one (stored twopi m p false sbf s Sp).
Proof.
  intros Hr Hc Hs HN Hl. unfold stored. rewrite Hr, Hc, Hs. cbn [do_store].
  assert (El : length (fresult twopi p sbf (st_sampling s) (st_NFFT s) Sp) = st_range_N s).
  { rewrite fresult_coef, vscale_length, Hl, HN. reflexivity. }
  rewrite El. replace (if m_psdset_cplx_nfft_len m then st_range_N s else st_range_N s) with (st_range_N s) by (destruct (m_psdset_cplx_nfft_len m); reflexivity).
  rewrite !run_scales_coef. symmetry. apply two2one_vscale.
Qed.
End PipeFold.
