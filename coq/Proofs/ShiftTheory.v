(* C04 — frequency-shift covariance, conjugation and time reversal for the correlation /
   Levinson family.  Modulating sample j by phi(j) = tw(-(m*j)) (i.e. exp(+2 pi i m j / n))
   multiplies lag k by phi(k), the AR and reflection coefficient of index j by phi(j+1), and leaves
   every error power unchanged.  Abstract *-field + a twiddle character. *)
Require Import Spectrum.Theory.Ops Spectrum.Theory.Sum Spectrum.Theory.Vec Spectrum.Theory.Dft
               Spectrum.Model.Levinson Spectrum.Model.Corr Spectrum.Proofs.LevinsonTheory Spectrum.Proofs.CorrTheory.

Section Shift.
Context {F : Type} {OF : Ops F} {L : Laws OF}.
Local Open Scope F_scope.
Add Field FFsh : (fth (O:=OF)).

(* a unimodular phase sequence: phi(a+b) = phi a * phi b, conj (phi a) = phi (-a) *)
Variable phi : Z -> F.
Hypothesis phi_add : forall a b : Z, phi (a + b)%Z = phi a * phi b.
Hypothesis phi_0 : phi 0%Z = 1.
Hypothesis phi_cj : forall a : Z, conj (phi a) = phi (- a)%Z.

Lemma phi_unit a : phi a * conj (phi a) = 1.
Proof. rewrite phi_cj, <- phi_add. replace (a + - a)%Z with 0%Z by lia. exact phi_0. Qed.
Lemma phi_shift a b : phi (a + b)%Z * conj (phi a) = phi b.
Proof. rewrite phi_cj, <- phi_add. f_equal. lia. Qed.

Definition vmod (off : Z) (x : list F) : list F := mk (length x) (fun j => nthF x j * phi (Z.of_nat j + off)%Z).
Lemma vmod_length off x : length (vmod off x) = length x. Proof. apply mk_length. Qed.
Lemma nthF_vmod off x j : nthF (vmod off x) j = nthF x j * phi (Z.of_nat j + off)%Z.
Proof.
  unfold vmod. destruct (Nat.lt_ge_cases j (length x)) as [H|H].
  - rewrite nth_mk by exact H. reflexivity.
  - rewrite nth_mk_ge by exact H. rewrite nthF_overflow by exact H. ring.
Qed.

(* ---------------- correlation *)
Lemma lag_sum_mod N (x y : list F) k :
  lag_sum N (vmod 0 x) (vmod 0 y) k = phi (Z.of_nat k) * lag_sum N x y k.
Proof.
  rewrite !lag_sum_sumf, <- sumf_scale. apply sumf_ext; intros j _.
  rewrite !nthF_vmod, conj_mul, !Z.add_0_r.
  replace (Z.of_nat (j + k)) with (Z.of_nat j + Z.of_nat k)%Z by lia.
  transitivity (nthF x (j + k) * conj (nthF y j) * (phi (Z.of_nat j + Z.of_nat k) * conj (phi (Z.of_nat j)))); [ring|].
  rewrite phi_shift. ring.
Qed.
Lemma div_scale' (s a b : F) : (s * a) / b = s * (a / b).
Proof. rewrite !(Fdiv_def (fth (O:=OF))). ring. Qed.
Lemma mean_pow_mod (x : list F) : mean_pow (vmod 0 x) = mean_pow x.
Proof.
  unfold mean_pow. rewrite vmod_length. f_equal.
  rewrite !sumL_map_nrm2', vmod_length. apply sumf_ext; intros j _.
  rewrite nthF_vmod. unfold nrm2. rewrite conj_mul.
  transitivity (nthF x j * conj (nthF x j) * (phi (Z.of_nat j + 0) * conj (phi (Z.of_nat j + 0)))); [ring|]. rewrite phi_unit. ring.
Qed.
(* autocorrelation of the modulated data: lag k is multiplied by phi(k), for every normalisation *)
Theorem acorr_modulation_thm (x : list F) ml nm :
  acorr (vmod 0 x) ml nm = option_map (vmod 0) (acorr x ml nm).
Proof.
  unfold acorr, correlation. cbv zeta. rewrite !vmod_length, mean_pow_mod.
  destruct (Nat.ltb_spec ml (Nat.max (length x) (length x))) as [Hl|Hl]; [|reflexivity].
  cbn [option_map]. f_equal. apply list_eq_nth; [rewrite vmod_length, !mk_length; reflexivity|].
  intros k Hk. rewrite mk_length in Hk. rewrite nthF_vmod, !nth_mk by exact Hk. rewrite lag_sum_mod, Z.add_0_r.
  destruct k, nm; rewrite ?div_scale'; try (cbn; rewrite phi_0); try ring.
Qed.

(* time reversal with conjugation leaves the autocorrelation unchanged *)
Definition vrevconj (x : list F) : list F := mk (length x) (fun j => conj (nthF x (length x - 1 - j))).
Lemma vrevconj_length (x : list F) : length (vrevconj x) = length x. Proof. apply mk_length. Qed.
Theorem acorr_time_reversal_thm (x : list F) ml nm : acorr (vrevconj x) ml nm = acorr x ml nm.
Proof.
  unfold acorr, correlation. cbv zeta. rewrite !vrevconj_length.
  assert (Em : mean_pow (vrevconj x) = mean_pow x).
  { unfold mean_pow, vrevconj. rewrite mk_length. f_equal. rewrite !sumL_map_nrm2', mk_length.
    rewrite (sumf_rev (length x)). apply sumf_ext; intros j Hj. rewrite nth_mk by lia.
    unfold nrm2. rewrite conj_conj. replace (length x - 1 - (length x - 1 - j))%nat with j by lia.
    replace (length x - 1 - j)%nat with (length x - 1 - j)%nat by lia. ring_simplify.
    rewrite (Rmul_comm (F_R (fth (O:=OF)))). f_equal. }
  rewrite Em. set (N := Nat.max (length x) (length x)). assert (HN : N = length x) by (unfold N; lia).
  destruct (Nat.ltb_spec ml N) as [Hl|Hl]; [|reflexivity]. f_equal. apply mk_ext; intros k Hk.
  assert (El : lag_sum N (vrevconj x) (vrevconj x) k = lag_sum N x x k).
  { rewrite !lag_sum_sumf. rewrite (sumf_rev (N - k)). apply sumf_ext; intros j Hj.
    unfold vrevconj. rewrite !nth_mk by lia. rewrite conj_conj.
    rewrite (Rmul_comm (F_R (fth (O:=OF)))). f_equal; [f_equal; lia|f_equal; f_equal; lia]. }
  rewrite El. reflexivity.
Qed.

(* ---------------- Levinson on modulated lags *)
Definition modA (A : list F) : list F := vmod 1 A.       (* coefficient j (0-based, a_{j+1}) gets phi(j+1) *)
Definition modst (st : lev_state) : lev_state := let '(A, P, ks) := st in (modA A, P, modA ks).

Lemma lev_delta_mod (T A : list F) m : length A = m ->
  lev_delta (vmod 1 T) (modA A) m = phi (Z.of_nat m + 1) * lev_delta T A m.
Proof.
  intros HA. unfold lev_delta, modA. rewrite !sumL_mk, nthF_vmod.
  rewrite (sumf_ext m _ (fun j => phi (Z.of_nat m + 1) * (nthF A j * nthF T (m - j - 1)))).
  - rewrite sumf_scale. ring.
  - intros j Hj. rewrite !nthF_vmod.
    replace (Z.of_nat m + 1)%Z with ((Z.of_nat j + 1) + (Z.of_nat (m - j - 1) + 1))%Z by lia.
    rewrite (phi_add (Z.of_nat j + 1) (Z.of_nat (m - j - 1) + 1)). ring.
Qed.
Lemma stepup_mod (A : list F) k m : length A = m ->
  stepup (modA A) (phi (Z.of_nat m + 1) * k) = modA (stepup A k).
Proof.
  intros HA. apply list_eq_nth.
  - unfold modA. rewrite stepup_length, !vmod_length, stepup_length. reflexivity.
  - intros j Hj. unfold modA in *. rewrite stepup_length, vmod_length, HA in Hj.
    rewrite nthF_vmod. unfold stepup. rewrite vmod_length, HA.
    destruct (Nat.eq_dec j m) as [->|Hne].
    + rewrite !nthF_app_last' by (apply mk_length). ring.
    + rewrite !nthF_app_l by (rewrite mk_length; lia). rewrite !nth_mk by lia. rewrite !nthF_vmod.
      rewrite conj_mul.
      assert (E : phi (Z.of_nat m + 1) * conj (phi (Z.of_nat (m - 1 - j) + 1)) = phi (Z.of_nat j + 1)).
      { replace (Z.of_nat m + 1)%Z with ((Z.of_nat (m - 1 - j) + 1) + (Z.of_nat j + 1))%Z by lia. apply phi_shift. }
      transitivity (nthF A j * phi (Z.of_nat j + 1)
                    + k * conj (nthF A (m - 1 - j)) * (phi (Z.of_nat m + 1) * conj (phi (Z.of_nat (m - 1 - j) + 1)))); [ring|].
      rewrite E. ring.
Qed.
Lemma modA_app (A : list F) k : modA (A ++ [k]) = modA A ++ [k * phi (Z.of_nat (length A) + 1)].
Proof.
  unfold modA. apply list_eq_nth.
  - rewrite vmod_length, !app_length, vmod_length. reflexivity.
  - intros j Hj. rewrite vmod_length, app_length in Hj. cbn in Hj. rewrite nthF_vmod.
    destruct (Nat.eq_dec j (length A)) as [->|Hne].
    + rewrite nthF_app_last. rewrite (nthF_app_last' (vmod 1 A)) by apply vmod_length. reflexivity.
    + rewrite !nthF_app_l by (rewrite ?vmod_length; lia). rewrite nthF_vmod. reflexivity.
Qed.
Lemma lev_step_mod T allow A P ks m : length A = m -> length ks = m ->
  lev_step (vmod 1 T) allow (modst (A, P, ks)) m = option_map modst (lev_step T allow (A, P, ks) m).
Proof.
  intros HA Hk. unfold modst, lev_step. rewrite lev_delta_mod by exact HA.
  set (k := - lev_delta T A m / P).
  assert (Ek : - (phi (Z.of_nat m + 1) * lev_delta T A m) / P = phi (Z.of_nat m + 1) * k).
  { unfold k. rewrite !(Fdiv_def (fth (O:=OF))). ring. }
  rewrite Ek.
  assert (EP : P * (1 - phi (Z.of_nat m + 1) * k * conj (phi (Z.of_nat m + 1) * k)) = P * (1 - k * conj k)).
  { rewrite conj_mul.
    transitivity (P * (1 - k * conj k * (phi (Z.of_nat m + 1) * conj (phi (Z.of_nat m + 1))))); [ring|]. rewrite phi_unit. ring. }
  rewrite EP. destruct (le0 (P * (1 - k * conj k)) && negb allow); [reflexivity|]. cbn [option_map].
  rewrite stepup_mod by exact HA. rewrite modA_app, Hk.
  replace (phi (Z.of_nat m + 1) * k) with (k * phi (Z.of_nat m + 1)) by ring. reflexivity.
Qed.
Lemma lev_iter_lengths T allow P0 m A P ks : lev_iter T allow P0 m = Some (A, P, ks) -> length A = m /\ length ks = m.
Proof.
  revert A P ks. induction m; intros A P ks H.
  - cbn in H. injection H as <- _ <-. split; reflexivity.
  - cbn [lev_iter] in H. destruct (lev_iter T allow P0 m) as [[[A0 P1] ks0]|] eqn:E; [|discriminate].
    destruct (IHm _ _ _ eq_refl) as [HA Hk]. unfold lev_step in H.
    destruct (le0 _ && negb allow); [discriminate|]. injection H as <- _ <-.
    rewrite stepup_length, app_length. cbn. lia.
Qed.
Lemma lev_iter_mod T allow P0 m :
  lev_iter (vmod 1 T) allow P0 m = option_map modst (lev_iter T allow P0 m).
Proof.
  induction m; [reflexivity|]. cbn [lev_iter]. rewrite IHm.
  destruct (lev_iter T allow P0 m) as [[[A P] ks]|] eqn:E; [|reflexivity]. cbn [option_map].
  destruct (lev_iter_lengths T allow P0 m A P ks E) as [HA Hk]. apply lev_step_mod; assumption.
Qed.
(* LEVINSON on the lags of the modulated data: coefficient j is multiplied by phi(j+1), the error power is unchanged *)
Theorem levinson_modulation_thm (r : list F) p allow :
  levinson (vmod 0 r) p allow = option_map modst (levinson r p allow).
Proof.
  unfold levinson. rewrite vmod_length. destruct (p <=? length r - 1)%nat; [|reflexivity].
  assert (E1 : tl (vmod 0 r) = vmod 1 (tl r)).
  { apply list_eq_nth.
    - destruct r; [reflexivity|]. unfold vmod. cbn [tl length]. rewrite mk_length. cbn [seq map tl mk]. rewrite map_length, seq_length. reflexivity.
    - intros j Hj. rewrite nth_tl, !nthF_vmod, nth_tl. f_equal. f_equal. lia. }
  assert (E2 : re (nthF (vmod 0 r) O) = re (nthF r O)).
  { rewrite nthF_vmod. cbn. rewrite phi_0. f_equal. ring. }
  rewrite E1, E2. apply lev_iter_mod.
Qed.
End Shift.
