(* C04 — arma.arma_estimate, arma.ma (the model of C15: Model/ArmaEst.v) and parma.__call__ / pma.__call__ under
   modulation and conjugation.

   x_n -> x_n phi(n)  (phi a unimodular character, phi = sphase tw m: a shift by m bins):
     unbiased lags            r_k -> r_k phi(k)
     covariance-method input  y_k -> y_k phi(k + Q + 1 - P)        (the conjugated entries R[-KPQ].conjugate() too)
     AR coefficients          a_j -> a_j phi(j+1)                   HYPOTHESIS on the two oracles (equivariance on the system
                                                                    they are handed); proved for the executable solver of
                                                                    Model/Ls.v, any offset, no side condition
     residual                 e_t -> e_t phi(t + P)
     ma (aryule twice)        b_j -> b_j phi(j+1), rho unchanged    (aryule does not see a constant phase phi(P))
   hence the two-sided spectrum parma stores is rolled by m bins.  Conjugation: everything is conjugated, rho is
   unchanged, the stored spectrum is mirrored; the divisions by N-k and by the Levinson error powers need them
   nonzero: characteristic 0 and a residual that is not identically zero (ordered *-field). *)
Require Import Spectrum.Theory.Ops Spectrum.Theory.Sum Spectrum.Theory.Vec Spectrum.Theory.Order Spectrum.Theory.Dft
               Spectrum.Model.Levinson Spectrum.Model.Corr Spectrum.Model.Ls Spectrum.Model.ArmaEst Spectrum.Model.ArmaCall
               Spectrum.Proofs.LevinsonTheory Spectrum.Proofs.CorrTheory Spectrum.Proofs.ShiftTheory
               Spectrum.Proofs.ShiftDft_C04 Spectrum.Proofs.ShiftPeriodogram_C04 Spectrum.Proofs.ShiftArma_C04
               Spectrum.Proofs.ShiftMinvar_C04 Spectrum.Proofs.ShiftLs_C04
               Spectrum.Proofs.ArmaEstTheory Spectrum.Proofs.ArmaEstPos Spectrum.Proofs.ArmaEstNondeg.

Section ShiftArmaEst.
Context {F : Type} {OF : Ops F} {L : Laws OF}.
Local Open Scope F_scope.
Add Field FFsae : (fth (O:=OF)).

Definition map_mae (g : list F -> list F) (r : aerr + (list F * F)) : aerr + (list F * F) :=
  match r with inl e => inl e | inr (b, rho) => inr (g b, rho) end.
Definition map_arma (g : list F -> list F) (r : aerr + (list F * list F * F)) : aerr + (list F * list F * F) :=
  match r with inl e => inl e | inr (a, b, rho) => inr (g a, g b, rho) end.
(* stored object: coefficients through g, PSD through h, rho unchanged *)
Definition exposed_map (g h : list F -> list F) (e : @exposed F) : @exposed F :=
  mkExposed (option_map g (x_ar e)) (option_map g (x_ma e)) (x_rho e) (h (x_psd e)).
Definition map_call (g h : list F -> list F) (r : aerr + @exposed F) : aerr + @exposed F :=
  match r with inl e => inl e | inr e => inr (exposed_map g h e) end.

(* ================= modulation ================= *)
Section Mod.
Variable phi : Z -> F.
Hypothesis phi_add : forall a b : Z, phi (a + b)%Z = phi a * phi b.
Hypothesis phi_0 : phi 0%Z = 1.
Hypothesis phi_cj : forall a : Z, conj (phi a) = phi (- a)%Z.

(* a constant phase in front of the data is not seen by the autocorrelation *)
Lemma lag_sum_mod_off off N (x y : list F) k :
  lag_sum N (vmod phi off x) (vmod phi off y) k = phi (Z.of_nat k) * lag_sum N x y k.
Proof.
  rewrite !lag_sum_sumf, <- sumf_scale. apply sumf_ext; intros j _.
  rewrite !nthF_vmod, conj_mul.
  replace (Z.of_nat (j + k) + off)%Z with ((Z.of_nat j + off) + Z.of_nat k)%Z by lia.
  transitivity (nthF x (j + k) * conj (nthF y j) * (phi ((Z.of_nat j + off) + Z.of_nat k) * conj (phi (Z.of_nat j + off)))); [ring|].
  rewrite (phi_shift phi phi_add phi_cj). ring.
Qed.
Lemma mean_pow_mod_off off (x : list F) : mean_pow (vmod phi off x) = mean_pow x.
Proof.
  unfold mean_pow. rewrite vmod_length. f_equal.
  rewrite !sumL_map_nrm2', vmod_length. apply sumf_ext; intros j _.
  rewrite nthF_vmod. unfold nrm2. rewrite conj_mul.
  transitivity (nthF x j * conj (nthF x j) * (phi (Z.of_nat j + off) * conj (phi (Z.of_nat j + off)))); [ring|].
  rewrite (phi_unit phi phi_add phi_0 phi_cj). ring.
Qed.
Theorem acorr_modulation_off_thm off (x : list F) ml nm :
  acorr (vmod phi off x) ml nm = option_map (vmod phi 0) (acorr x ml nm).
Proof.
  unfold acorr, correlation. cbv zeta. rewrite !vmod_length, mean_pow_mod_off.
  destruct (Nat.ltb_spec ml (Nat.max (length x) (length x))) as [Hl|Hl]; [|reflexivity].
  cbn [option_map]. f_equal. apply list_eq_nth; [rewrite vmod_length, !mk_length; reflexivity|].
  intros k Hk. rewrite mk_length in Hk. rewrite nthF_vmod, !nth_mk by exact Hk. rewrite lag_sum_mod_off, Z.add_0_r.
  destruct k, nm; rewrite ?div_scale'; try (cbn; rewrite phi_0); try ring.
Qed.

Lemma aryule_est_mod off (x : list F) order nm :
  ArmaEst.aryule (vmod phi off x) order nm = option_map (modst phi) (ArmaEst.aryule x order nm).
Proof.
  unfold ArmaEst.aryule. rewrite acorr_modulation_off_thm.
  destruct (acorr x order nm) as [r|]; [|reflexivity]. cbn [option_map].
  rewrite vmod_length. apply (levinson_modulation_thm phi phi_add phi_0 phi_cj).
Qed.

Theorem ma_est_modulation_thm off (x : list F) Q M : ma (vmod phi off x) Q M = map_mae (modA phi) (ma x Q M).
Proof.
  unfold ma. destruct ((Q =? 0)%nat || (M <=? Q)%nat); [reflexivity|].
  rewrite aryule_est_mod. destruct (ArmaEst.aryule x M Biased) as [[[a rho] k]|]; [|reflexivity]. cbn [option_map modst].
  rewrite (cons1_modA phi phi_0), aryule_est_mod.
  destruct (ArmaEst.aryule (1 :: a) Q Biased) as [[[b rho'] k']|]; reflexivity.
Qed.

(* the sequence handed to the covariance method: phase offset Q + 1 - P *)
Definition yoff (P Q : nat) : Z := (Z.of_nat Q + 1 - Z.of_nat P)%Z.
Lemma arma_y_mod (r : list F) P Q lag : arma_y (vmod phi 0 r) P Q lag = vmod phi (yoff P Q) (arma_y r P Q lag).
Proof.
  unfold arma_y, yoff. apply list_eq_nth; [rewrite vmod_length, !mk_length; reflexivity|].
  intros k Hk. rewrite mk_length in Hk. rewrite nthF_vmod, !nth_mk by exact Hk.
  destruct (k <? lag + P - Q)%nat; [|ring]. unfold arma_yval.
  destruct (Nat.ltb_spec (k + Q + 1) P) as [H|H]; rewrite nthF_vmod.
  - rewrite conj_mul, phi_cj. f_equal. f_equal. lia.
  - f_equal. f_equal. lia.
Qed.
(* the residual filter: phase offset P *)
Lemma arma_resid_mod (x a : list F) P :
  arma_resid (vmod phi 0 x) (modA phi a) P = vmod phi (Z.of_nat P) (arma_resid x a P).
Proof.
  unfold arma_resid. apply list_eq_nth; [rewrite !vmod_length, !mk_length; reflexivity|].
  intros t Ht. rewrite vmod_length, mk_length in Ht. rewrite nthF_vmod, !nth_mk by (rewrite ?vmod_length; exact Ht).
  rewrite !sumL_mk, nthF_vmod.
  replace (Z.of_nat (t + P) + 0)%Z with (Z.of_nat t + Z.of_nat P)%Z by lia.
  transitivity (nthF x (t + P) * phi (Z.of_nat t + Z.of_nat P)
                + phi (Z.of_nat t + Z.of_nat P) * sumf P (fun j => nthF a j * nthF x (t + P - j - 1))); [|ring].
  f_equal. rewrite <- sumf_scale. apply sumf_ext; intros j Hj. unfold modA. rewrite !nthF_vmod.
  replace (Z.of_nat t + Z.of_nat P)%Z with ((Z.of_nat j + 1) + (Z.of_nat (t + P - j - 1) + 0))%Z by lia.
  rewrite (phi_add (Z.of_nat j + 1)). ring.
Qed.

(* what the theorem asks of the covariance-method oracles: equivariance on the one system they are handed *)
Definition ls_agree_mod (lsm lsq lsm' lsq' : list F -> nat -> list F) (x : list F) (P Q lag : nat) : Prop :=
  forall r, acorr x lag Unbiased = Some r ->
    firstn P (lsm' (vmod phi (yoff P Q) (arma_y r P Q lag)) P) = modA phi (firstn P (lsm (arma_y r P Q lag) P))
    /\ lsq' (vmod phi (yoff P Q) (arma_y r P Q lag)) P = modA phi (lsq (arma_y r P Q lag) P).

Theorem arma_estimate_modulation_gen (lsm lsq lsm' lsq' : list F -> nat -> list F) (x : list F) P Q lag :
  ls_agree_mod lsm lsq lsm' lsq' x P Q lag ->
  arma_estimate lsm' lsq' (vmod phi 0 x) P Q lag = map_arma (modA phi) (arma_estimate lsm lsq x P Q lag).
Proof.
  intros Hls. unfold arma_estimate. cbv zeta. rewrite (acorr_modulation_thm phi phi_add phi_0 phi_cj), vmod_length.
  destruct (acorr x lag Unbiased) as [r|] eqn:Er; [|reflexivity]. cbn [option_map].
  destruct (length x <? P)%nat; [reflexivity|].
  destruct ((0 <? lag + P - Q)%nat && ((lag + Q + 1 <? P)%nat || (length x - P <? lag + P - Q)%nat)); [reflexivity|].
  rewrite arma_y_mod. destruct (Hls r Er) as [Hm Hq].
  assert (Ear : arma_ar lsm' lsq' (length x) (vmod phi (yoff P Q) (arma_y r P Q lag)) P lag
                = match arma_ar lsm lsq (length x) (arma_y r P Q lag) P lag with inl e => inl e | inr a => inr (modA phi a) end).
  { unfold arma_ar. rewrite Hm, Hq. destruct (P <=? 4)%nat.
    - destruct (lag <? P)%nat; [reflexivity|]. destruct (lag =? 0)%nat; reflexivity.
    - destruct ((lag <=? P)%nat && (P <? length x)%nat); reflexivity. }
  rewrite Ear. destruct (arma_ar lsm lsq (length x) (arma_y r P Q lag) P lag) as [e|a]; [reflexivity|].
  rewrite arma_resid_mod, ma_est_modulation_thm.
  destruct (ma (arma_resid x a P) Q (2 * Q)) as [e|[b rho]]; reflexivity.
Qed.

(* one pair of oracles, equivariant under every phase offset *)
Definition ls_mod_equivariant (lsm lsq : list F -> nat -> list F) : Prop :=
  forall off y p, firstn p (lsm (vmod phi off y) p) = modA phi (firstn p (lsm y p)) /\ lsq (vmod phi off y) p = modA phi (lsq y p).
Theorem arma_estimate_modulation_thm (lsm lsq : list F -> nat -> list F) (x : list F) P Q lag :
  ls_mod_equivariant lsm lsq ->
  arma_estimate lsm lsq (vmod phi 0 x) P Q lag = map_arma (modA phi) (arma_estimate lsm lsq x P Q lag).
Proof. intros H. apply arma_estimate_modulation_gen. intros r _. apply H. Qed.

(* ---- instance: the executable solver of Model/Ls.v; the Gram function only sees phase differences ---- *)
Lemma gfwd_mod_off off (x : list F) p i j : (i <= p)%nat -> (j <= p)%nat ->
  gfwd (vmod phi off x) p i j = um phi i * gfwd x p i j * vm phi j.
Proof.
  intros Hi Hj. unfold gfwd. rewrite vmod_length, <- sumf_scale, <- sumf_scale_r. apply sumf_ext; intros n Hn.
  rewrite !nthF_vmod, conj_mul.
  transitivity (conj (nthF x (p + n - i)) * nthF x (p + n - j) * (conj (phi (Z.of_nat (p + n - i) + off)) * phi (Z.of_nat (p + n - j) + off))); [ring|].
  rewrite (phase_pair phi phi_add phi_cj _ _ i j) by lia. ring.
Qed.
Theorem arcovar_modulation_off_thm off tol (x : list F) p :
  arcovar tol (vmod phi off x) p = map_ae (modA phi) (arcovar tol x p).
Proof.
  unfold arcovar, arcovar_with. rewrite !ar_ls_is_G. apply (ar_ls_G_mod phi phi_add phi_0 phi_cj). intros i j Hi Hj.
  rewrite !FG_covariance by assumption. apply gfwd_mod_off; assumption.
Qed.
Lemma firstn_pad_modA p n (a : list F) : firstn p (pad n (modA phi a)) = modA phi (firstn p (pad n a)).
Proof.
  apply list_eq_nth.
  - unfold modA. rewrite vmod_length, !firstn_length. unfold pad. rewrite !mk_length. reflexivity.
  - intros j Hj. rewrite firstn_length in Hj. unfold pad in Hj. rewrite mk_length in Hj.
    unfold modA. rewrite nthF_vmod, !nthF_firstn by lia. unfold pad. rewrite !nth_mk by lia. apply nthF_vmod.
Qed.
Theorem ls_cov_mod_equivariant tol : ls_mod_equivariant (lsm_cov tol) (lsq_cov tol).
Proof.
  intros off y p.
  assert (E : lsq_cov tol (vmod phi off y) p = modA phi (lsq_cov tol y p)).
  { unfold lsq_cov. rewrite arcovar_modulation_off_thm. unfold map_ae.
    destruct (arcovar tol y p) as [[a e]|]; reflexivity. }
  split; [|exact E]. unfold lsm_cov. rewrite E, vmod_length. apply firstn_pad_modA.
Qed.
End Mod.

(* ================= the stored two-sided spectrum on the grid of n bins ================= *)
Section Grid.
Context (n : nat) (tw : Z -> F) {Tw : Twiddle n tw} (n_pos : (0 < n)%nat).

Lemma fits_omap (g : list F -> list F) (c : option (list F)) : (forall l, length (g l) = length l) ->
  fits n (option_map g c) = fits n c.
Proof. intros Hg. destruct c as [c|]; [|reflexivity]. cbn [option_map fits]. rewrite Hg. reflexivity. Qed.
Lemma modA_length phi (a : list F) : length (modA phi a) = length a.
Proof. apply vmod_length. Qed.

Lemma polyfft_mod (m : Z) (c : option (list F)) k : (k < n)%nat ->
  polyfft tw n (option_map (modA (sphase tw m)) c) k = polyfft tw n c (ridx n (Z.of_nat k - m)).
Proof.
  intros Hk. destruct c as [c|]; [|reflexivity]. cbn [option_map polyfft].
  rewrite (cons1_modA (sphase tw m) (sphase_0 n tw m)), (dft_list_shift n tw n_pos).
  rewrite nth_rot by (rewrite dft_length; exact Hk). rewrite dft_length. reflexivity.
Qed.
Lemma polyfft_conj (c : option (list F)) k : (k < n)%nat ->
  polyfft tw n (option_map vconj c) k = conj (polyfft tw n c (ridx n (- Z.of_nat k))).
Proof.
  intros Hk. destruct c as [c|]; [cbn [option_map polyfft]|symmetry; apply conj_1].
  assert (E : 1 :: vconj c = vconj (1 :: c)) by (unfold vconj; cbn [map]; rewrite conj_1; reflexivity).
  rewrite E, (dft_list_conj n tw n_pos), nthF_vconj.
  rewrite nth_mirror by (rewrite dft_length; exact Hk). rewrite dft_length. reflexivity.
Qed.

Definition map_psd (h : list F -> list F) (r : aerr + list F) : aerr + list F :=
  match r with inl e => inl e | inr psd => inr (h psd) end.

Theorem arma2psd_est_rotation (m : Z) (A B : option (list F)) rho T :
  ArmaEst.arma2psd tw (option_map (modA (sphase tw m)) A) (option_map (modA (sphase tw m)) B) rho T n
  = map_psd (rot m) (ArmaEst.arma2psd tw A B rho T n).
Proof.
  unfold ArmaEst.arma2psd. rewrite !(fits_omap _ _ (modA_length (sphase tw m))).
  destruct A as [A|], B as [B|]; cbn [option_map]; try reflexivity;
    (destruct (fits n _ && fits n _); [|reflexivity]); cbn [map_psd]; f_equal; rewrite rot_mk; apply mk_ext; intros k Hk;
    try (pose proof (polyfft_mod m (Some A) k Hk) as EA; cbn [option_map] in EA; rewrite EA);
    try (pose proof (polyfft_mod m (Some B) k Hk) as EB; cbn [option_map] in EB; rewrite EB); reflexivity.
Qed.
Theorem arma2psd_est_mirror (A B : option (list F)) rho T :
  ArmaEst.arma2psd tw (option_map vconj A) (option_map vconj B) rho T n
  = map_psd mirror (ArmaEst.arma2psd tw A B rho T n).
Proof.
  unfold ArmaEst.arma2psd. rewrite !(fits_omap _ _ vconj_length).
  destruct A as [A|], B as [B|]; cbn [option_map]; try reflexivity;
    (destruct (fits n _ && fits n _); [|reflexivity]); cbn [map_psd]; f_equal; rewrite mirror_mk; apply mk_ext; intros k Hk;
    try (pose proof (polyfft_conj (Some A) k Hk) as EA; cbn [option_map] in EA; rewrite EA);
    try (pose proof (polyfft_conj (Some B) k Hk) as EB; cbn [option_map] in EB; rewrite EB); rewrite ?nrm2_conj'; reflexivity.
Qed.

Lemma class_finish_perm (h : list F -> list F) sbf twopi sampling (psd : list F) :
  (forall (g : F -> F) l, h (map g l) = map g (h l)) ->
  class_finish false sbf twopi sampling n (h psd) = h (class_finish false sbf twopi sampling n psd).
Proof. intros Hh. unfold class_finish. destruct sbf; [symmetry; apply Hh|reflexivity]. Qed.
Lemma class_A_omap (g : list F -> list F) cl ar : class_A cl (g ar) = option_map g (class_A cl ar).
Proof. destruct cl; reflexivity. Qed.
Lemma class_B_omap (g : list F -> list F) cl ma : class_B cl (g ma) = option_map g (class_B cl ma).
Proof. destruct cl; reflexivity. Qed.

(* every AR / MA / ARMA class, complex data: coefficient j times tw(-m(j+1)) => the stored PSD rolled by m bins *)
Theorem class_call_rotation (m : Z) cl (ar ma : list F) v N order twopi sampling sbf :
  class_call tw cl (modA (sphase tw m) ar) (modA (sphase tw m) ma) v N order twopi sampling n false sbf
  = map_call (modA (sphase tw m)) (rot m) (class_call tw cl ar ma v N order twopi sampling n false sbf).
Proof.
  unfold class_call. cbv zeta. rewrite class_A_omap, class_B_omap, arma2psd_est_rotation.
  destruct (ArmaEst.arma2psd tw (class_A cl ar) (class_B cl ma) (class_rho cl v N order) sampling n) as [e|psd]; [reflexivity|].
  cbn [map_psd map_call]. unfold exposed_map. cbn [x_ar x_ma x_rho x_psd].
  rewrite (class_finish_perm (rot m)) by (intros g l; apply rot_map). reflexivity.
Qed.
Theorem class_call_mirror cl (ar ma : list F) v N order twopi sampling sbf :
  class_call tw cl (vconj ar) (vconj ma) v N order twopi sampling n false sbf
  = map_call vconj mirror (class_call tw cl ar ma v N order twopi sampling n false sbf).
Proof.
  unfold class_call. cbv zeta. rewrite class_A_omap, class_B_omap, arma2psd_est_mirror.
  destruct (ArmaEst.arma2psd tw (class_A cl ar) (class_B cl ma) (class_rho cl v N order) sampling n) as [e|psd]; [reflexivity|].
  cbn [map_psd map_call]. unfold exposed_map. cbn [x_ar x_ma x_rho x_psd].
  rewrite (class_finish_perm mirror) by (intros g l; apply mirror_map). reflexivity.
Qed.

(* parma / pma on complex data: the stored spectrum of the modulated data is the stored spectrum rolled by m bins *)
Theorem parma_shift_gen (m : Z) (lsm lsq lsm' lsq' : list F -> nat -> list F) (x : list F) P Q lag twopi sampling sbf :
  ls_agree_mod (sphase tw m) lsm lsq lsm' lsq' x P Q lag ->
  parma_call tw lsm' lsq' (vmod (sphase tw m) 0 x) P Q lag twopi sampling n false sbf
  = map_call (modA (sphase tw m)) (rot m) (parma_call tw lsm lsq x P Q lag twopi sampling n false sbf).
Proof.
  intros Hls. unfold parma_call.
  rewrite (arma_estimate_modulation_gen (sphase tw m) (sphase_add n tw n_pos m) (sphase_0 n tw m) (sphase_cj n tw n_pos m) lsm lsq lsm' lsq' x P Q lag Hls).
  destruct (arma_estimate lsm lsq x P Q lag) as [e|[[a b] rho]]; [reflexivity|]. cbn [map_arma].
  rewrite vmod_length. apply class_call_rotation.
Qed.
Theorem parma_shift_thm (m : Z) (lsm lsq : list F -> nat -> list F) (x : list F) P Q lag twopi sampling sbf :
  ls_mod_equivariant (sphase tw m) lsm lsq ->
  parma_call tw lsm lsq (vmod (sphase tw m) 0 x) P Q lag twopi sampling n false sbf
  = map_call (modA (sphase tw m)) (rot m) (parma_call tw lsm lsq x P Q lag twopi sampling n false sbf).
Proof. intros H. apply parma_shift_gen. intros r _. apply H. Qed.
Theorem pma_call_shift_thm (m : Z) (x : list F) Q M twopi sampling sbf :
  pma_call tw (vmod (sphase tw m) 0 x) Q M twopi sampling n false sbf
  = map_call (modA (sphase tw m)) (rot m) (pma_call tw x Q M twopi sampling n false sbf).
Proof.
  unfold pma_call.
  rewrite (ma_est_modulation_thm (sphase tw m) (sphase_add n tw n_pos m) (sphase_0 n tw m) (sphase_cj n tw n_pos m)).
  destruct (ma x Q M) as [e|[b rho]]; [reflexivity|]. cbn [map_mae]. rewrite vmod_length.
  assert (E : @nil F = modA (sphase tw m) []) by reflexivity. rewrite E at 1. apply class_call_rotation.
Qed.
End Grid.
End ShiftArmaEst.

(* ================= conjugation (ordered *-field: characteristic 0, positive Levinson powers) ================= *)
Section ConjArmaEst.
Context {F : Type} {OF : Ops F} {L : Laws OF} {OL : OrdLaws OF}.
Local Open Scope F_scope.
Add Field FFsaec : (fth (O:=OF)).

Lemma aryule_est_conj (x : list F) order : nonzero_data x ->
  ArmaEst.aryule (vconj x) order Biased = option_map conjst (ArmaEst.aryule x order Biased).
Proof.
  intros Hx. unfold ArmaEst.aryule. rewrite acorr_conj_thm by (try exact char0; discriminate).
  destruct (acorr x order Biased) as [r|] eqn:Er; [|reflexivity]. cbn [option_map].
  rewrite vconj_length. apply levinson_conj_thm.
  destruct (yule_stages_nonzero x r order Hx Er) as (Hlen & Hre & Hst).
  intros q A P ks Hq H. unfold levinson in H. destruct (q <=? length r - 1)%nat; [|discriminate].
  rewrite Hre in H. apply (Hst q A P ks); [lia|exact H].
Qed.

Theorem ma_est_conj_thm (x : list F) Q M : (forall b rho, ma x Q M = inr (b, rho) -> nonzero_data x) ->
  ma (vconj x) Q M = map_mae vconj (ma x Q M).
Proof.
  intros Hx. destruct (ma x Q M) as [e|[b rho]] eqn:E.
  - cbn [map_mae]. apply (ma_error_length x); [apply vconj_length|exact E].
  - specialize (Hx b rho eq_refl). unfold ma in *. destruct ((Q =? 0)%nat || (M <=? Q)%nat); [discriminate|].
    rewrite (aryule_est_conj x M Hx).
    destruct (ArmaEst.aryule x M Biased) as [[[a r0] k0]|]; [|discriminate]. cbn [option_map conjst].
    assert (Ea : 1 :: vconj a = vconj (1 :: a)) by (unfold vconj; cbn [map]; rewrite conj_1; reflexivity).
    rewrite Ea, (aryule_est_conj (1 :: a) Q (one_cons_nonzero_data a)).
    destruct (ArmaEst.aryule (1 :: a) Q Biased) as [[[b' p'] k']|]; [|discriminate].
    injection E as <- <-. reflexivity.
Qed.

Lemma vconj_mk n (f : nat -> F) : vconj (mk n f) = mk n (fun j => conj (f j)).
Proof. unfold vconj, mk. apply map_map. Qed.
Lemma arma_y_conj (r : list F) P Q lag : arma_y (vconj r) P Q lag = vconj (arma_y r P Q lag).
Proof.
  unfold arma_y. rewrite vconj_mk. apply mk_ext; intros k _.
  destruct (k <? lag + P - Q)%nat; [|symmetry; apply conj_0]. unfold arma_yval.
  destruct (k + Q + 1 <? P)%nat; rewrite nthF_vconj; reflexivity.
Qed.
Lemma arma_resid_conj (x a : list F) P : arma_resid (vconj x) (vconj a) P = vconj (arma_resid x a P).
Proof.
  unfold arma_resid. rewrite vconj_length, vconj_mk. apply mk_ext; intros t _.
  rewrite !sumL_mk, conj_add, sumf_conj, nthF_vconj. f_equal. apply sumf_ext; intros j _.
  rewrite !nthF_vconj, conj_mul. reflexivity.
Qed.

Definition ls_agree_conj (lsm lsq lsm' lsq' : list F -> nat -> list F) (x : list F) (P Q lag : nat) : Prop :=
  forall r, acorr x lag Unbiased = Some r ->
    firstn P (lsm' (vconj (arma_y r P Q lag)) P) = vconj (firstn P (lsm (arma_y r P Q lag) P))
    /\ lsq' (vconj (arma_y r P Q lag)) P = vconj (lsq (arma_y r P Q lag) P).

Theorem arma_estimate_conj_gen (lsm lsq lsm' lsq' : list F -> nat -> list F) (x : list F) P Q lag :
  ls_agree_conj lsm lsq lsm' lsq' x P Q lag -> arma_nondeg lsm lsq x P Q lag ->
  arma_estimate lsm' lsq' (vconj x) P Q lag = map_arma vconj (arma_estimate lsm lsq x P Q lag).
Proof.
  intros Hls Hnd. unfold arma_nondeg in Hnd. unfold arma_estimate in *. cbv zeta in *.
  rewrite acorr_conj_thm by (try exact char0; discriminate). rewrite vconj_length.
  destruct (acorr x lag Unbiased) as [r|] eqn:Er; [|reflexivity]. cbn [option_map].
  destruct (length x <? P)%nat; [reflexivity|].
  destruct ((0 <? lag + P - Q)%nat && ((lag + Q + 1 <? P)%nat || (length x - P <? lag + P - Q)%nat)); [reflexivity|].
  rewrite arma_y_conj. destruct (Hls r Er) as [Hm Hq].
  assert (Ear : arma_ar lsm' lsq' (length x) (vconj (arma_y r P Q lag)) P lag
                = match arma_ar lsm lsq (length x) (arma_y r P Q lag) P lag with inl e => inl e | inr a => inr (vconj a) end).
  { unfold arma_ar. rewrite Hm, Hq. destruct (P <=? 4)%nat.
    - destruct (lag <? P)%nat; [reflexivity|]. destruct (lag =? 0)%nat; reflexivity.
    - destruct ((lag <=? P)%nat && (P <? length x)%nat); reflexivity. }
  rewrite Ear. destruct (arma_ar lsm lsq (length x) (arma_y r P Q lag) P lag) as [e|a]; [reflexivity|].
  rewrite arma_resid_conj, ma_est_conj_thm.
  - destruct (ma (arma_resid x a P) Q (2 * Q)) as [e|[b rho]]; reflexivity.
  - intros b rho Em. apply (Hnd a b rho). rewrite Em. reflexivity.
Qed.

Definition ls_conj_equivariant (lsm lsq : list F -> nat -> list F) : Prop :=
  forall y p, firstn p (lsm (vconj y) p) = vconj (firstn p (lsm y p)) /\ lsq (vconj y) p = vconj (lsq y p).
Theorem arma_estimate_conj_thm (lsm lsq : list F -> nat -> list F) (x : list F) P Q lag :
  ls_conj_equivariant lsm lsq -> arma_nondeg lsm lsq x P Q lag ->
  arma_estimate lsm lsq (vconj x) P Q lag = map_arma vconj (arma_estimate lsm lsq x P Q lag).
Proof. intros H. apply arma_estimate_conj_gen. intros r _. apply H. Qed.

Lemma firstn_pad_vconj p n (a : list F) : firstn p (pad n (vconj a)) = vconj (firstn p (pad n a)).
Proof.
  unfold vconj at 2. rewrite <- firstn_map. f_equal. unfold pad. fold (vconj (mk n (nthF a))). rewrite vconj_mk.
  apply mk_ext; intros j _. apply nthF_vconj.
Qed.
Theorem ls_cov_conj_equivariant tol : ls_conj_equivariant (lsm_cov tol) (lsq_cov tol).
Proof.
  intros y p.
  assert (E : lsq_cov tol (vconj y) p = vconj (lsq_cov tol y p)).
  { unfold lsq_cov. rewrite arcovar_conj_thm. unfold map_ae. destruct (arcovar tol y p) as [[a e]|]; reflexivity. }
  split; [|exact E]. unfold lsm_cov. rewrite E, vconj_length. apply firstn_pad_vconj.
Qed.

Section GridC.
Context (n : nat) (tw : Z -> F) {Tw : Twiddle n tw} (n_pos : (0 < n)%nat).
Theorem parma_mirror_gen (lsm lsq lsm' lsq' : list F -> nat -> list F) (x : list F) P Q lag twopi sampling sbf :
  ls_agree_conj lsm lsq lsm' lsq' x P Q lag -> arma_nondeg lsm lsq x P Q lag ->
  parma_call tw lsm' lsq' (vconj x) P Q lag twopi sampling n false sbf
  = map_call vconj mirror (parma_call tw lsm lsq x P Q lag twopi sampling n false sbf).
Proof.
  intros Hls Hnd. unfold parma_call. rewrite (arma_estimate_conj_gen lsm lsq lsm' lsq' x P Q lag Hls Hnd).
  destruct (arma_estimate lsm lsq x P Q lag) as [e|[[a b] rho]]; [reflexivity|]. cbn [map_arma].
  rewrite vconj_length. apply (class_call_mirror n tw n_pos).
Qed.
Theorem parma_mirror_thm (lsm lsq : list F -> nat -> list F) (x : list F) P Q lag twopi sampling sbf :
  ls_conj_equivariant lsm lsq -> arma_nondeg lsm lsq x P Q lag ->
  parma_call tw lsm lsq (vconj x) P Q lag twopi sampling n false sbf
  = map_call vconj mirror (parma_call tw lsm lsq x P Q lag twopi sampling n false sbf).
Proof. intros H. apply parma_mirror_gen. intros r _. apply H. Qed.
Theorem pma_call_mirror_thm (x : list F) Q M twopi sampling sbf :
  (forall b rho, ma x Q M = inr (b, rho) -> nonzero_data x) ->
  pma_call tw (vconj x) Q M twopi sampling n false sbf = map_call vconj mirror (pma_call tw x Q M twopi sampling n false sbf).
Proof.
  intros Hx. unfold pma_call. rewrite (ma_est_conj_thm x Q M Hx).
  destruct (ma x Q M) as [e|[b rho]]; [reflexivity|]. cbn [map_mae]. rewrite vconj_length.
  assert (E : @nil F = vconj []) by reflexivity. rewrite E at 1. apply (class_call_mirror n tw n_pos).
Qed.
End GridC.
End ConjArmaEst.
