(* minvar: what the psi loop stores (NFFT >= 2*order-1), Hermitian symmetry of psi, realness of its DFT,
   and the DFT of psi as a weighted double sum  (1/P) sum_{i,j<m} (m-i-j) a_i conj(a_j) w^(i-j). *)
Require Import Spectrum.Theory.Ops Spectrum.Theory.Sum Spectrum.Theory.Vec Spectrum.Theory.Dft
               Spectrum.Model.Levinson Spectrum.Model.Burg Spectrum.Model.Minvar.

Section MinvarT.
Context {F : Type} {OF : Ops F} {L : Laws OF}.
Local Open Scope F_scope.
Add Field FFmv : (fth (O:=OF)).

Lemma ofnat_sub a b : (b <= a)%nat -> ofnat (a - b) = ofnat a - ofnat b.
Proof.
  intros H. replace a with (b + (a - b))%nat at 2 by lia. rewrite ofnat_add. ring.
Qed.
Lemma ofdiff_sub a b : ofdiff a b = ofnat a - ofnat b.
Proof.
  unfold ofdiff. destruct (Nat.leb_spec b a) as [H|H].
  - apply ofnat_sub. exact H.
  - rewrite ofnat_sub by lia. ring.
Qed.

(* ---------------- list update ---------------- *)
Lemma upd_length (l : list F) i v : length (upd l i v) = length l.
Proof. revert i; induction l; intros [|i]; cbn; auto. Qed.
Lemma nth_upd (l : list F) i v j : (i < length l)%nat ->
  nthF (upd l i v) j = if (j =? i)%nat then v else nthF l j.
Proof.
  revert i j; induction l as [|x t IH]; intros i j Hi; [cbn in Hi; lia|].
  destruct i as [|i]; destruct j as [|j]; cbn [upd Nat.eqb]; try reflexivity.
  rewrite !nthF_consS. apply IH. cbn in Hi. lia.
Qed.

(* ---------------- the psi loop ---------------- *)
Definition psiK (m : nat) (A : list F) (P : F) (K : nat) : F := mv_sum m A K / P.
(* content of psi after the passes K = 0..t-1 *)
Definition psi_fun (m nfft : nat) (A : list F) (P : F) (t : nat) (j : nat) : F :=
  if (j <? t)%nat then psiK m A P j
  else if (nfft - t <? j)%nat && (j <? nfft)%nat then conj (psiK m A P (nfft - j))
  else 0.

Lemma psi_prefix m nfft A P t : (t <= m)%nat -> (2 * m - 1 <= nfft)%nat ->
  let psi := fold_left (psi_step m nfft A P) (seq 0 t) (mk nfft (fun _ => 0)) in
  length psi = nfft /\ forall j, nthF psi j = psi_fun m nfft A P t j.
Proof.
  intros Ht Hn. induction t as [|t IH]; cbn zeta.
  - cbn [seq fold_left]. split; [apply mk_length|]. intros j. unfold psi_fun.
    destruct (Nat.ltb_spec j 0); [lia|].
    destruct (Nat.ltb_spec (nfft - 0) j); destruct (Nat.ltb_spec j nfft); cbn [andb]; try lia.
    all: destruct (Nat.lt_ge_cases j nfft); [rewrite nth_mk by assumption; reflexivity|apply nth_mk_ge; assumption].
  - destruct (IH ltac:(lia)) as [Hl Hj]. rewrite seq_S, fold_left_app. cbn [fold_left Nat.add].
    set (psi := fold_left (psi_step m nfft A P) (seq 0 t) (mk nfft (fun _ => 0))) in *.
    unfold psi_step. fold (psiK m A P t).
    destruct (Nat.eqb_spec t 0) as [->|T0].
    + split; [rewrite upd_length; exact Hl|]. intros j. rewrite nth_upd by lia. rewrite Hj. unfold psi_fun.
      destruct (Nat.eqb_spec j 0) as [->|J0]; [reflexivity|].
      destruct (Nat.ltb_spec j 0); [lia|]. destruct (Nat.ltb_spec j 1); [lia|].
      destruct (Nat.ltb_spec (nfft - 0) j); destruct (Nat.ltb_spec (nfft - 1) j); destruct (Nat.ltb_spec j nfft);
        cbn [andb]; try lia; reflexivity.
    + split; [rewrite !upd_length; exact Hl|]. intros j.
      rewrite nth_upd by (rewrite upd_length; lia). rewrite nth_upd by lia. rewrite Hj. unfold psi_fun.
      destruct (Nat.eqb_spec j t) as [->|Jt].
      { destruct (Nat.ltb_spec t (S t)); [reflexivity|lia]. }
      destruct (Nat.eqb_spec j (nfft - t)) as [->|Jn].
      { destruct (Nat.ltb_spec (nfft - t) (S t)); [lia|].
        destruct (Nat.ltb_spec (nfft - S t) (nfft - t)); [|lia].
        destruct (Nat.ltb_spec (nfft - t) nfft); [|lia]. cbn [andb].
        replace (nfft - (nfft - t))%nat with t by lia. reflexivity. }
      destruct (Nat.ltb_spec j t); destruct (Nat.ltb_spec j (S t)); try lia; [reflexivity|].
      destruct (Nat.ltb_spec (nfft - t) j); destruct (Nat.ltb_spec (nfft - S t) j); destruct (Nat.ltb_spec j nfft);
        cbn [andb]; try lia; reflexivity.
Qed.

Lemma psi_loop_length m nfft A P : (2 * m - 1 <= nfft)%nat -> length (psi_loop m nfft A P) = nfft.
Proof. intros Hn. apply (psi_prefix m nfft A P m (Nat.le_refl m) Hn). Qed.
Lemma psi_loop_nth m nfft A P j : (2 * m - 1 <= nfft)%nat ->
  nthF (psi_loop m nfft A P) j = psi_fun m nfft A P m j.
Proof. intros Hn. apply (psi_prefix m nfft A P m (Nat.le_refl m) Hn). Qed.

Lemma mv_sum_real m A : conj (mv_sum m A 0) = mv_sum m A 0.
Proof.
  unfold mv_sum. rewrite sumL_mk, sumf_conj. apply sumf_ext; intros I _.
  rewrite !conj_mul, conj_conj, ofdiff_sub, conj_sub, !conj_ofnat. rewrite Nat.add_0_r. ring.
Qed.

(* psi is conjugate-symmetric on the NFFT grid: psi[NFFT-K] = conj psi[K] (1 <= K < NFFT), psi[0] real *)
Theorem psi_hermitian_thm m nfft A P : (1 <= m)%nat -> (2 * m - 1 <= nfft)%nat -> conj P = P -> P <> 0 ->
  let psi := psi_loop m nfft A P in
  conj (nthF psi 0) = nthF psi 0 /\
  forall K, (1 <= K < nfft)%nat -> nthF psi (nfft - K) = conj (nthF psi K).
Proof.
  intros Hm Hn HP HP0. cbn zeta. split.
  - rewrite psi_loop_nth by exact Hn. unfold psi_fun. destruct (Nat.ltb_spec 0 m); [|lia].
    unfold psiK. rewrite conj_div by exact HP0. rewrite mv_sum_real, HP. reflexivity.
  - intros K HK. rewrite !psi_loop_nth by exact Hn. unfold psi_fun.
    destruct (Nat.ltb_spec K m) as [Km|Km].
    + destruct (Nat.ltb_spec (nfft - K) m); [lia|].
      destruct (Nat.ltb_spec (nfft - m) (nfft - K)); [|lia]. destruct (Nat.ltb_spec (nfft - K) nfft); [|lia].
      cbn [andb]. replace (nfft - (nfft - K))%nat with K by lia. reflexivity.
    + destruct (Nat.ltb_spec (nfft - m) K) as [Kh|Kh]; destruct (Nat.ltb_spec K nfft); try lia; cbn [andb].
      * destruct (Nat.ltb_spec (nfft - K) m); [|lia]. rewrite conj_conj. reflexivity.
      * destruct (Nat.ltb_spec (nfft - K) m); [lia|].
        destruct (Nat.ltb_spec (nfft - m) (nfft - K)); [lia|]. cbn [andb]. symmetry; apply conj_0.
Qed.

(* ---------------- a conjugate-symmetric sequence has a real DFT ---------------- *)
Section Herm.
Context (n : nat) (tw : Z -> F) {T : Twiddle n tw}.
Hypothesis n_pos : (0 < n)%nat.

Theorem dft_hermitian_real (x : nat -> F) (k : Z) :
  conj (x O) = x O -> (forall j, (1 <= j < n)%nat -> x (n - j)%nat = conj (x j)) ->
  conj (dftN tw n x k) = dftN tw n x k.
Proof.
  intros H0 Hs. destruct n as [|n'] eqn:En; [lia|]. unfold dftN.
  rewrite sumf_conj. rewrite !sumf_shift. f_equal.
  - rewrite conj_mul, H0. cbn [Z.of_nat Z.mul]. rewrite tw_0, conj_1. reflexivity.
  - rewrite (sumf_rev n' (fun i => x (S i) * tw (Z.of_nat (S i) * k)%Z)).
    apply sumf_ext; intros i Hi. rewrite conj_mul, tw_cj.
    rewrite <- (Hs (S i)) by lia. replace (S n' - S i)%nat with (S (n' - 1 - i)) by lia. f_equal.
    replace (Z.of_nat (S (n' - 1 - i))) with (Z.of_nat (S n') - Z.of_nat (S i))%Z by lia.
    replace (- (Z.of_nat (S i) * k))%Z with ((Z.of_nat (S n') - Z.of_nat (S i)) * k + (- k) * Z.of_nat (S n'))%Z by ring.
    subst n. apply (tw_period (S n') tw); lia.
Qed.
End Herm.

(* ---------------- the DFT of psi as a double sum ---------------- *)
Section Double.
Context (nfft : nat) (tw : Z -> F) {T : Twiddle nfft tw}.
Variables (m : nat) (A : list F) (P : F).
Hypothesis Hm : (1 <= m)%nat.
Hypothesis Hn : (2 * m - 1 <= nfft)%nat.
Hypothesis HP : conj P = P.
Hypothesis HP0 : P <> 0.
Let a := nthF A.

Definition mv_g (f : Z) (i j : nat) : F :=
  (ofnat m - ofnat i - ofnat j) * a i * conj (a j) * tw ((Z.of_nat i - Z.of_nat j) * f)%Z.

Lemma psiK_lag f K : (K < m)%nat ->
  P * (psiK m A P K * tw (Z.of_nat K * f)%Z) = sumf (m - K) (fun I => mv_g f (I + K)%nat I).
Proof.
  intros HK. unfold psiK, mv_sum. rewrite sumL_mk.
  transitivity (sumf (m - K) (fun I => ofdiff (m - K) (2 * I) * conj (nthF A I) * nthF A (I + K)) * tw (Z.of_nat K * f)%Z).
  { field. exact HP0. }
  rewrite <- sumf_scale_r. apply sumf_ext; intros I HI. unfold mv_g, a.
  rewrite ofdiff_sub, ofnat_sub by lia. replace (2 * I)%nat with (I + I)%nat by lia. rewrite !ofnat_add.
  replace ((Z.of_nat (I + K) - Z.of_nat I) * f)%Z with (Z.of_nat K * f)%Z by lia. ring.
Qed.

Lemma mv_g_conj f i j : conj (mv_g f i j) = mv_g f j i.
Proof.
  unfold mv_g. rewrite !conj_mul, !conj_sub, !conj_ofnat, conj_conj, tw_cj.
  replace (- ((Z.of_nat i - Z.of_nat j) * f))%Z with ((Z.of_nat j - Z.of_nat i) * f)%Z by lia. ring.
Qed.

Theorem psi_dft_double_sum (f : Z) :
  P * dftN tw nfft (nthF (psi_loop m nfft A P)) f = sumf m (fun i => sumf m (fun j => mv_g f i j)).
Proof.
  assert (Hpos : (0 < nfft)%nat) by lia.
  unfold dftN.
  rewrite (sumf_ext nfft _ (fun j => psi_fun m nfft A P m j * tw (Z.of_nat j * f)%Z))
    by (intros j _; rewrite psi_loop_nth by exact Hn; reflexivity).
  replace nfft with (m + ((nfft - (2 * m - 1)) + (m - 1)))%nat at 1 by lia.
  rewrite !sumf_split.
  (* middle block is zero *)
  rewrite (sumf_zero_ext (nfft - (2 * m - 1))).
  2:{ intros i Hi. unfold psi_fun. destruct (Nat.ltb_spec (m + i) m); [lia|].
      destruct (Nat.ltb_spec (nfft - m) (m + i)); [lia|]. cbn [andb]. ring. }
  rewrite square_split.
  transitivity (P * sumf m (fun j => psi_fun m nfft A P m j * tw (Z.of_nat j * f)%Z)
                + P * sumf (m - 1) (fun i => psi_fun m nfft A P m (m + (nfft - (2 * m - 1) + i))
                                             * tw (Z.of_nat (m + (nfft - (2 * m - 1) + i)) * f)%Z)); [ring|].
  f_equal.
  - (* lower triangle incl. diagonal: lags K >= 0 *)
    rewrite (sumf_ext m (fun i => sumf (S i) (fun j => mv_g f i j)) (fun i => sumf (S i) (fun d => mv_g f i (i - d)%nat))).
    2:{ intros i _. rewrite (sumf_rev (S i)). apply sumf_ext; intros d Hd. f_equal. lia. }
    rewrite (tri_exch m (fun i d => mv_g f i (i - d)%nat)).
    rewrite <- sumf_scale. apply sumf_ext; intros K HK.
    unfold psi_fun. destruct (Nat.ltb_spec K m); [|lia]. rewrite psiK_lag by exact HK.
    apply sumf_ext; intros I HI. f_equal. lia.
  - (* strict upper triangle: lags -(d+1), stored at NFFT-(d+1) *)
    rewrite upper_diag. rewrite <- sumf_scale.
    rewrite (sumf_rev (m - 1)). apply sumf_ext; intros d Hd.
    set (jj := (m + (nfft - (2 * m - 1) + (m - 1 - 1 - d)))%nat).
    assert (Ej : jj = (nfft - (d + 1))%nat) by (unfold jj; lia).
    unfold psi_fun. destruct (Nat.ltb_spec jj m); [lia|].
    destruct (Nat.ltb_spec (nfft - m) jj); [|lia]. destruct (Nat.ltb_spec jj nfft); [|lia]. cbn [andb].
    replace (nfft - jj)%nat with (d + 1)%nat by lia.
    replace (tw (Z.of_nat jj * f)%Z) with (conj (tw (Z.of_nat (d + 1) * f)%Z)).
    2:{ rewrite tw_cj. rewrite Ej.
        replace (Z.of_nat (nfft - (d + 1)) * f)%Z with (- (Z.of_nat (d + 1) * f) + f * Z.of_nat nfft)%Z by lia.
        symmetry. apply (tw_period nfft tw); exact Hpos. }
    rewrite <- conj_mul. rewrite <- HP at 1. rewrite <- conj_mul.
    rewrite psiK_lag by lia. rewrite sumf_conj.
    replace (m - (d + 1))%nat with (m - 1 - d)%nat by lia.
    apply sumf_ext; intros j Hj. rewrite mv_g_conj. f_equal; lia.
Qed.
End Double.
End MinvarT.
