(* A concrete exact run of the adaptive multitaper model over the Gaussian rationals, and the proof that it meets
   the hypotheses of the adaptive theorems (non-vacuity).  [qcc_ord] is opaque, so positivity of a concrete rational is
   derived through the interface: a = ofnat p / ofnat q. *)
Require Import Spectrum.Theory.Ops Spectrum.Theory.Sum Spectrum.Theory.Vec Spectrum.Theory.Order Spectrum.Theory.Dft
               Spectrum.Model.Mtm Spectrum.Instances.QcC Spectrum.Instances.QcCOrd Spectrum.Instances.QcCTw.
From Coq Require Import QArith Qcanon.
Local Open Scope Z_scope.

Definition ex_x : list QcC := [cz (1,0) (1,-1); cz (2,0) (0,0); cz (-1,0) (1,0); cz (1,-1) (-1,-2)].
Definition ex_tapers : list (list QcC) :=
  [[cz (1,-2) (0,0); cz (3,-2) (0,0); cz (3,-2) (0,0); cz (1,-2) (0,0)];
   [cz (-3,-2) (0,0); cz (-1,-2) (0,0); cz (1,-2) (0,0); cz (3,-2) (0,0)]].
Definition ex_ev : list QcC := [cz (15,-4) (0,0); cz (3,-2) (0,0)].
Definition ex_run := @pmtm_core _ qcc_ops 2 tw4 ex_tapers ex_ev ex_x 4 Adapt.

Lemma qcc_pos_frac (a : QcC) (p q : nat) : (1 <= p)%nat -> (1 <= q)%nat ->
  a = @div _ qcc_ops (@ofnat _ qcc_ops p) (@ofnat _ qcc_ops q) -> @pos _ qcc_ops qcc_ord a.
Proof.
  intros Hp Hq ->. apply (@pos_div _ qcc_ops qcc_laws qcc_ord); apply (@pos_ofnat _ qcc_ops qcc_laws qcc_ord); assumption.
Qed.
Lemma qcc_le_frac (a b : QcC) (p q : nat) : (1 <= q)%nat ->
  @sub _ qcc_ops b a = @div _ qcc_ops (@ofnat _ qcc_ops p) (@ofnat _ qcc_ops q) -> @le _ qcc_ops qcc_ord a b.
Proof.
  intros Hq E. unfold le. rewrite E. apply (@nonneg_div _ qcc_ops qcc_laws qcc_ord).
  - apply (@nonneg_ofnat _ qcc_ops qcc_laws qcc_ord).
  - apply (@pos_ofnat _ qcc_ops qcc_laws qcc_ord). exact Hq.
Qed.

Lemma adapt_example_hypotheses_thm :
  @pos _ qcc_ops qcc_ord (@sig2 _ qcc_ops ex_x) /\
  (forall j, (j < length ex_ev)%nat -> @pos _ qcc_ops qcc_ord (nthF (OF:=qcc_ops) ex_ev j) /\ @le _ qcc_ops qcc_ord (nthF (OF:=qcc_ops) ex_ev j) (@one _ qcc_ops)) /\
  (forall k, (k < 4)%nat -> nthF (OF:=qcc_ops) (@ad_S0 _ qcc_ops (@powspec _ qcc_ops (fst (fst ex_run))) (length ex_ev) 4) k <> @zero _ qcc_ops).
Proof.
  split; [|split].
  - apply (qcc_pos_frac _ 121 64); [lia|lia|]. apply qcc_eq_canon; vm_compute; reflexivity.
  - intros j Hj. cbn [length ex_ev] in Hj. destruct j as [|[|j]]; [| |lia].
    + split; [apply (qcc_pos_frac _ 15 16); [lia|lia|]|apply (qcc_le_frac _ _ 1 16); [lia|]]; apply qcc_eq_canon; vm_compute; reflexivity.
    + split; [apply (qcc_pos_frac _ 3 4); [lia|lia|]|apply (qcc_le_frac _ _ 1 4); [lia|]]; apply qcc_eq_canon; vm_compute; reflexivity.
  - intros k Hk. destruct k as [|[|[|[|k]]]]; [| | | |lia]; vm_compute; intro H; inversion H.
Qed.
