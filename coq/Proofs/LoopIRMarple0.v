(* Marple's fast recursions under the loop-IR tie: the order-0 branches, the argument check, and order 1 (one full pass
   of the main loop) of both routines, for ALL inputs.

   [prog_arcovar_marple_gen0] / [prog_modcovar_marple_gen0] are, verbatim (between the BEGIN/END markers), the loop-IR
   programs that tools/props/_loopir.py generates from spectrum.covar.arcovar_marple and spectrum.modcovar.modcovar_marple
   at the commit this file was written for.  On every run of C14 the programs are regenerated; when their text is the
   one below, the generated file proves [prog_<fn> = prog_<fn>_gen0] by reflexivity and instantiates the theorems of this
   file for the regenerated programs.  When the text differs the theorems are not claimed and the exact evaluation tie
   (Model/LoopIRMarple.v) decides alone.

   PROVED (abstract field with conjugation [Laws], every comparison [feq], every [stop], every dtype tag, every
   non-empty record x):
     arcovar_marple_ir_assert   order > len(x): the run raises AssertionError, exactly where the model returns None
     arcovar_marple_ir_order0   order = 0: the run returns (zeros(N), r0/N, zeros(N), r0/N, 0) = Model.CovarMarple.arcovar_marple x 0
                                (and the int 0 the code returns in place of the list pbv)
     modcovar_marple_ir_order0  IP = 0: the run returns ([], P, []) with P = Model.CovarMarple.modcovar_marple x 0
                                (the accumulation loop over K = 1..N-2, x.real**2 + x.imag**2 = |x|^2, .5*R1 = R1/2)
     modcovar_marple_ir_order1  IP = 1: the run returns (A, P, [P]) with (A, P) = Model.CovarMarple.modcovar_marple x 1: one full pass of
                                the main loop (the lag-1 accumulation loop, the stores into R, A, the order update of P, the early
                                return with its normalisation .5*P/float(N-1) and the appended list), against the model's
                                simultaneous-update reading; closed form [mod1_model]
     arcovar_marple_ir_order1   order = 1: the run returns (af, pf, ab, pb, []) with (af, pf, ab, pb) = Model.CovarMarple.arcovar_marple x 1:
                                the pass m = 0 of the main loop up to its break (lag-1 accumulation loop, stores into r, af, ab, c, d,
                                the updates of pf, pb, delta, gamma, the normalisation by float(N-1)); closed form [cov1_model]
   NOT PROVED: orders >= 2 of either routine (the time-update blocks, the in-place loops over k, the sign checks); they stay with
   the exact evaluation tie, zero tolerance, on every run.  Neither is "Marple = least squares" proved at any order >= 1 (exact test). *)
From Coq Require Import String ZArith List Lia Bool.
Require Import Spectrum.Theory.Ops Spectrum.Theory.Sum Spectrum.Theory.Vec Spectrum.Model.LoopIR Spectrum.Model.CovarMarple
               Spectrum.Proofs.LoopIRLevinson.
Import ListNotations.
Local Open Scope string_scope.

(* BEGIN GENERATED arcovar_marple (verbatim output of tools/props/_loopir.py for spectrum.covar.arcovar_marple) *)
(* arcovar_marple: slots 0=x 1=order 2=N 3=r0 4=r1 5=rN 6=pf 7=pb 8=delta 9=gamma 10=c 11=d 12=r 13=af 14=ab 15=pbv 16=m 17=r2 18=r3 19=r4 20=temp 21=k 22=theta 23=c1 24=c2 25=c3 26=c4 27=save 28=r5 29=ef 30=eb *)
Definition prog_arcovar_marple_gen0 : program := mkProgram "arcovar_marple" 2 [None; None] 31
(SSeq (SAssert (ECmp CGe (ELen (EVar 0)) (EVar 1)))
(SSeq (SAssign 0 (ECopy (EVar 0)))
(SSeq (SAssign 2 (ELen (EVar 0)))
(SSeq (SAssign 3 (ESum (ENrm2 (EVar 0))))
(SSeq (SAssign 4 (ENrm2 (EIndex (EVar 0) (EInt 0))))
(SSeq (SAssign 5 (ENrm2 (EIndex (EVar 0) (EBin BSub (EVar 2) (EInt 1)))))
(SSeq (SAssign 6 (EBin BSub (EVar 3) (EVar 4)))
(SSeq (SAssign 7 (EBin BSub (EVar 3) (EVar 5)))
(SSeq (SAssign 8 (EBin BSub (ELit 1 0) (EBin BDiv (EVar 4) (EVar 3))))
(SSeq (SAssign 9 (EBin BSub (ELit 1 0) (EBin BDiv (EVar 5) (EVar 3))))
(SSeq (SAssign 10 (EZeros (EVar 2) false))
(SSeq (SAssign 11 (EZeros (EVar 2) false))
(SSeq (SAssign 12 (EZeros (EVar 2) false))
(SSeq (SAssign 13 (EZeros (EVar 2) false))
(SSeq (SAssign 14 (EZeros (EVar 2) false))
(SSeq (SStore 10 (EInt 0) (EBin BDiv (EConj (EIndex (EVar 0) (EBin BSub (EVar 2) (EInt 1)))) (EVar 3)))
(SSeq (SStore 11 (EInt 0) (EBin BDiv (EConj (EIndex (EVar 0) (EInt 0))) (EVar 3)))
(SSeq (SIf (ECmp CEq (EVar 1) (EInt 0))
(SSeq (SAssign 6 (EBin BDiv (EVar 3) (EFloat (EVar 2))))
(SSeq (SAssign 7 (EVar 6))
(SReturn [(EVar 13); (EVar 6); (EVar 14); (EVar 7); (EInt 0)])))
(SSkip))
(SSeq (SAssign 15 EArrNil)
(SSeq (SFor 16 (EInt 0) (EBin BAdd (EVar 1) (EInt 1)) (EInt 1)
(SSeq (SAssign 4 (EBin BDiv (ELit 1 0) (EVar 6)))
(SSeq (SAssign 17 (EBin BDiv (ELit 1 0) (EVar 7)))
(SSeq (SAssign 18 (EBin BDiv (ELit 1 0) (EVar 8)))
(SSeq (SAssign 19 (EBin BDiv (ELit 1 0) (EVar 9)))
(SSeq (SAssign 20 (EBin BAdd (ELit 0 0) (ELit 0 0)))
(SSeq (SFor 21 (EBin BAdd (EVar 16) (EInt 1)) (EVar 2) (EInt 1)
(SAssign 20 (EBin BAdd (EVar 20) (EBin BMul (EIndex (EVar 0) (EVar 21)) (EConj (EIndex (EVar 0) (EBin BSub (EBin BSub (EVar 21) (EVar 16)) (EInt 1))))))))
(SSeq (SStore 12 (EVar 16) (EConj (EVar 20)))
(SSeq (SAssign 22 (EBin BMul (EIndex (EVar 0) (EInt 0)) (EIndex (EVar 10) (EVar 16))))
(SSeq (SIf (ECmp CEq (EVar 16) (EInt 0))
(SSkip)
(SFor 21 (EInt 0) (EVar 16) (EInt 1)
(SSeq (SAssign 22 (EBin BAdd (EVar 22) (EBin BMul (EIndex (EVar 0) (EBin BSub (EVar 16) (EVar 21))) (EIndex (EVar 10) (EVar 21)))))
(SSeq (SStore 12 (EVar 21) (EBin BSub (EIndex (EVar 12) (EVar 21)) (EBin BMul (EIndex (EVar 0) (EBin BSub (EBin BSub (EVar 2) (EVar 16)) (EInt 1))) (EConj (EIndex (EVar 0) (EBin BAdd (EBin BSub (EVar 2) (EVar 16)) (EVar 21)))))))
(SAssign 20 (EBin BAdd (EVar 20) (EBin BMul (EIndex (EVar 13) (EBin BSub (EBin BSub (EVar 16) (EVar 21)) (EInt 1))) (EConj (EIndex (EVar 12) (EVar 21))))))))))
(SSeq (SAssign 23 (EBin BMul (ENeg (EVar 20)) (EVar 17)))
(SSeq (SAssign 24 (EBin BMul (ENeg (EVar 4)) (EConj (EVar 20))))
(SSeq (SAssign 25 (EBin BMul (EVar 22) (EVar 18)))
(SSeq (SAssign 26 (EBin BMul (EVar 19) (EConj (EVar 22))))
(SSeq (SStore 13 (EVar 16) (EVar 23))
(SSeq (SStore 14 (EVar 16) (EVar 24))
(SSeq (SAssign 27 (EIndex (EVar 10) (EVar 16)))
(SSeq (SStore 10 (EVar 16) (EBin BAdd (EVar 27) (EBin BMul (EVar 25) (EIndex (EVar 11) (EVar 16)))))
(SSeq (SStore 11 (EVar 16) (EBin BAdd (EIndex (EVar 11) (EVar 16)) (EBin BMul (EVar 26) (EVar 27))))
(SSeq (SIf (ECmp CEq (EVar 16) (EInt 0))
(SSkip)
(SFor 21 (EInt 0) (EVar 16) (EInt 1)
(SSeq (SAssign 27 (EIndex (EVar 13) (EVar 21)))
(SSeq (SStore 13 (EVar 21) (EBin BAdd (EVar 27) (EBin BMul (EVar 23) (EIndex (EVar 14) (EBin BSub (EBin BSub (EVar 16) (EVar 21)) (EInt 1))))))
(SSeq (SStore 14 (EBin BSub (EBin BSub (EVar 16) (EVar 21)) (EInt 1)) (EBin BAdd (EIndex (EVar 14) (EBin BSub (EBin BSub (EVar 16) (EVar 21)) (EInt 1))) (EBin BMul (EVar 24) (EVar 27))))
(SSeq (SAssign 27 (EIndex (EVar 10) (EVar 21)))
(SSeq (SStore 10 (EVar 21) (EBin BAdd (EVar 27) (EBin BMul (EVar 25) (EIndex (EVar 11) (EVar 21)))))
(SStore 11 (EVar 21) (EBin BAdd (EIndex (EVar 11) (EVar 21)) (EBin BMul (EVar 26) (EVar 27)))))))))))
(SSeq (SAssign 28 (EBin BAdd (EBin BMul (EReal (EVar 20)) (EReal (EVar 20))) (EImagSq (EVar 20))))
(SSeq (SAssign 6 (EBin BSub (EVar 6) (EBin BMul (EVar 28) (EVar 17))))
(SSeq (SAssign 7 (EBin BSub (EVar 7) (EBin BMul (EVar 28) (EVar 4))))
(SSeq (SAssign 28 (EBin BAdd (EBin BMul (EReal (EVar 22)) (EReal (EVar 22))) (EImagSq (EVar 22))))
(SSeq (SAssign 8 (EBin BSub (EVar 8) (EBin BMul (EVar 28) (EVar 19))))
(SSeq (SAssign 9 (EBin BSub (EVar 9) (EBin BMul (EVar 28) (EVar 18))))
(SSeq (SIf (ECmp CNe (EVar 16) (EBin BSub (EVar 1) (EInt 1)))
(SSkip)
(SSeq (SAssign 6 (EBin BDiv (EVar 6) (EFloat (EBin BSub (EBin BSub (EVar 2) (EVar 16)) (EInt 1)))))
(SSeq (SAssign 7 (EBin BDiv (EVar 7) (EFloat (EBin BSub (EBin BSub (EVar 2) (EVar 16)) (EInt 1)))))
(SBreak))))
(SSeq (SIf (EAnd (ECmp CGt (EVar 6) (EInt 0)) (ECmp CGt (EVar 7) (EInt 0)))
(SSkip)
(SSkip))
(SSeq (SIf (EAnd (ECmp CGt (EVar 8) (ELit 0 0)) (EAnd (ECmp CLe (EVar 8) (EInt 1)) (EAnd (ECmp CGt (EVar 9) (ELit 0 0)) (ECmp CLe (EVar 9) (EInt 1)))))
(SSkip)
(SSkip))
(SSeq (SAssign 4 (EBin BDiv (ELit 1 0) (EVar 6)))
(SSeq (SAssign 17 (EBin BDiv (ELit 1 0) (EVar 7)))
(SSeq (SAssign 18 (EBin BDiv (ELit 1 0) (EVar 8)))
(SSeq (SAssign 19 (EBin BDiv (ELit 1 0) (EVar 9)))
(SSeq (SAssign 29 (EIndex (EVar 0) (EBin BAdd (EVar 16) (EInt 1))))
(SSeq (SAssign 30 (EIndex (EVar 0) (EBin BSub (EBin BSub (EBin BSub (EVar 2) (EInt 1)) (EVar 16)) (EInt 1))))
(SSeq (SFor 21 (EInt 0) (EBin BAdd (EVar 16) (EInt 1)) (EInt 1)
(SSeq (SAssign 29 (EBin BAdd (EVar 29) (EBin BMul (EIndex (EVar 13) (EVar 21)) (EIndex (EVar 0) (EBin BSub (EVar 16) (EVar 21))))))
(SAssign 30 (EBin BAdd (EVar 30) (EBin BMul (EIndex (EVar 14) (EVar 21)) (EIndex (EVar 0) (EBin BSub (EBin BAdd (EBin BSub (EVar 2) (EVar 16)) (EVar 21)) (EInt 1))))))))
(SSeq (SAssign 23 (EBin BMul (EVar 29) (EVar 18)))
(SSeq (SAssign 24 (EBin BMul (EVar 30) (EVar 19)))
(SSeq (SAssign 25 (EBin BMul (EConj (EVar 30)) (EVar 17)))
(SSeq (SAssign 26 (EBin BMul (EConj (EVar 29)) (EVar 4)))
(SSeq (SFor 21 (EVar 16) (ENeg (EInt 1)) (ENeg (EInt 1))
(SSeq (SAssign 27 (EIndex (EVar 13) (EVar 21)))
(SSeq (SStore 13 (EVar 21) (EBin BAdd (EVar 27) (EBin BMul (EVar 23) (EIndex (EVar 11) (EVar 21)))))
(SSeq (SStore 11 (EBin BAdd (EVar 21) (EInt 1)) (EBin BAdd (EIndex (EVar 11) (EVar 21)) (EBin BMul (EVar 26) (EVar 27))))
(SSeq (SAssign 27 (EIndex (EVar 14) (EVar 21)))
(SSeq (SStore 14 (EVar 21) (EBin BAdd (EVar 27) (EBin BMul (EVar 24) (EIndex (EVar 10) (EBin BSub (EVar 16) (EVar 21))))))
(SStore 10 (EBin BSub (EVar 16) (EVar 21)) (EBin BAdd (EIndex (EVar 10) (EBin BSub (EVar 16) (EVar 21))) (EBin BMul (EVar 25) (EVar 27))))))))))
(SSeq (SStore 10 (EBin BAdd (EVar 16) (EInt 1)) (EVar 25))
(SSeq (SStore 11 (EInt 0) (EVar 26))
(SSeq (SAssign 28 (EBin BAdd (EBin BMul (EReal (EVar 29)) (EReal (EVar 29))) (EImagSq (EVar 29))))
(SSeq (SAssign 6 (EBin BSub (EVar 6) (EBin BMul (EVar 28) (EVar 18))))
(SSeq (SAssign 8 (EBin BSub (EVar 8) (EBin BMul (EVar 28) (EVar 4))))
(SSeq (SAssign 28 (EBin BAdd (EBin BMul (EReal (EVar 30)) (EReal (EVar 30))) (EImagSq (EVar 30))))
(SSeq (SAssign 7 (EBin BSub (EVar 7) (EBin BMul (EVar 28) (EVar 19))))
(SSeq (SAssign 9 (EBin BSub (EVar 9) (EBin BMul (EVar 28) (EVar 17))))
(SSeq (SAppend 15 (EVar 7))
(SSeq (SIf (EAnd (ECmp CGt (EVar 6) (ELit 0 0)) (ECmp CGt (EVar 7) (ELit 0 0)))
(SSkip)
(SSkip))
(SIf (EAnd (EAnd (ECmp CGt (EVar 8) (ELit 0 0)) (ECmp CLe (EVar 8) (ELit 1 0))) (EAnd (ECmp CGt (EVar 9) (ELit 0 0)) (ECmp CLe (EVar 9) (ELit 1 0))))
(SSkip)
(SSkip)))))))))))))))))))))))))))))))))))))))))))))))))))))
(SReturn [(EVar 13); (EVar 6); (EVar 14); (EVar 7); (EVar 15)]))))))))))))))))))))).
(* END GENERATED arcovar_marple *)

(* BEGIN GENERATED modcovar_marple (verbatim output of tools/props/_loopir.py for spectrum.modcovar.modcovar_marple) *)
(* modcovar_marple: slots 0=X 1=IP 2=Pv 3=N 4=A 5=D 6=C 7=R 8=R1 9=K 10=R2 11=R3 12=R4 13=P 14=DELTA 15=GAMMA 16=LAMBDA 17=M 18=SAVE1 19=THETA 20=PSI 21=XI 22=C1 23=MK 24=C2 25=C3 26=C4 27=SAVE2 28=SAVE3 29=SAVE4 30=R5 31=EF 32=EB *)
Definition prog_modcovar_marple_gen0 : program := mkProgram "modcovar_marple" 2 [None; None] 33
(SSeq (SAssign 2 EArrNil)
(SSeq (SAssign 0 (ECopy (EVar 0)))
(SSeq (SAssign 3 (ELen (EVar 0)))
(SSeq (SAssign 4 (EZeros (EVar 3) false))
(SSeq (SAssign 5 (EZeros (EVar 3) false))
(SSeq (SAssign 6 (EZeros (EVar 3) false))
(SSeq (SAssign 7 (EZeros (EVar 3) false))
(SSeq (SAssign 8 (ELit 0 0))
(SSeq (SFor 9 (EInt 1) (EBin BSub (EVar 3) (EInt 1)) (EInt 1)
(SAssign 8 (EBin BAdd (EVar 8) (EBin BMul (ELit 2 0) (EBin BAdd (EBin BMul (EReal (EIndex (EVar 0) (EVar 9))) (EReal (EIndex (EVar 0) (EVar 9)))) (EImagSq (EIndex (EVar 0) (EVar 9))))))))
(SSeq (SAssign 10 (EBin BAdd (EBin BMul (EReal (EIndex (EVar 0) (EInt 0))) (EReal (EIndex (EVar 0) (EInt 0)))) (EImagSq (EIndex (EVar 0) (EInt 0)))))
(SSeq (SAssign 11 (EBin BAdd (EBin BMul (EReal (EIndex (EVar 0) (EBin BSub (EVar 3) (EInt 1)))) (EReal (EIndex (EVar 0) (EBin BSub (EVar 3) (EInt 1))))) (EImagSq (EIndex (EVar 0) (EBin BSub (EVar 3) (EInt 1))))))
(SSeq (SAssign 12 (EBin BDiv (ELit 1 0) (EBin BAdd (EVar 8) (EBin BMul (ELit 2 0) (EBin BAdd (EVar 10) (EVar 11))))))
(SSeq (SAssign 13 (EBin BAdd (EBin BAdd (EVar 8) (EVar 10)) (EVar 11)))
(SSeq (SAssign 14 (EBin BSub (ELit 1 0) (EBin BMul (EVar 10) (EVar 12))))
(SSeq (SAssign 15 (EBin BSub (ELit 1 0) (EBin BMul (EVar 11) (EVar 12))))
(SSeq (SAssign 16 (EBin BMul (EConj (EBin BMul (EIndex (EVar 0) (EInt 0)) (EIndex (EVar 0) (EBin BSub (EVar 3) (EInt 1))))) (EVar 12)))
(SSeq (SStore 6 (EInt 0) (EBin BMul (EIndex (EVar 0) (EBin BSub (EVar 3) (EInt 1))) (EVar 12)))
(SSeq (SStore 5 (EInt 0) (EBin BMul (EConj (EIndex (EVar 0) (EInt 0))) (EVar 12)))
(SSeq (SAssign 17 (EInt 0))
(SSeq (SIf (ECmp CEq (EVar 1) (EInt 0))
(SSeq (SAssign 13 (EBin BDiv (EBin BAdd (EBin BAdd (EBin BMul (ELit 1 1) (EVar 8)) (EVar 10)) (EVar 11)) (EFloat (EVar 3))))
(SReturn [EArrNil; (EVar 13); EArrNil]))
(SSkip))
(SFor 17 (EInt 0) (EVar 1) (EInt 1)
(SSeq (SAssign 18 (EBin BAdd (EInt 0) (ELit 0 0)))
(SSeq (SFor 9 (EBin BAdd (EVar 17) (EInt 1)) (EVar 3) (EInt 1)
(SAssign 18 (EBin BAdd (EVar 18) (EBin BMul (EIndex (EVar 0) (EVar 9)) (EConj (EIndex (EVar 0) (EBin BSub (EBin BSub (EVar 9) (EVar 17)) (EInt 1))))))))
(SSeq (SAssign 18 (EBin BMul (EVar 18) (ELit 2 0)))
(SSeq (SStore 7 (EVar 17) (EConj (EVar 18)))
(SSeq (SAssign 19 (EBin BMul (EIndex (EVar 0) (EBin BSub (EVar 3) (EInt 1))) (EIndex (EVar 5) (EInt 0))))
(SSeq (SAssign 20 (EBin BMul (EIndex (EVar 0) (EBin BSub (EVar 3) (EInt 1))) (EIndex (EVar 6) (EInt 0))))
(SSeq (SAssign 21 (EBin BMul (EConj (EIndex (EVar 0) (EInt 0))) (EIndex (EVar 5) (EInt 0))))
(SSeq (SIf (ECmp CEq (EVar 17) (EInt 0))
(SSkip)
(SFor 9 (EInt 0) (EVar 17) (EInt 1)
(SSeq (SAssign 19 (EBin BAdd (EVar 19) (EBin BMul (EIndex (EVar 0) (EBin BSub (EBin BSub (EVar 3) (EVar 9)) (EInt 2))) (EIndex (EVar 5) (EBin BAdd (EVar 9) (EInt 1))))))
(SSeq (SAssign 20 (EBin BAdd (EVar 20) (EBin BMul (EIndex (EVar 0) (EBin BSub (EBin BSub (EVar 3) (EVar 9)) (EInt 2))) (EIndex (EVar 6) (EBin BAdd (EVar 9) (EInt 1))))))
(SSeq (SAssign 21 (EBin BAdd (EVar 21) (EBin BMul (EConj (EIndex (EVar 0) (EBin BAdd (EVar 9) (EInt 1)))) (EIndex (EVar 5) (EBin BAdd (EVar 9) (EInt 1))))))
(SSeq (SStore 7 (EVar 9) (EBin BSub (EBin BSub (EIndex (EVar 7) (EVar 9)) (EBin BMul (EIndex (EVar 0) (EBin BSub (EBin BSub (EVar 3) (EVar 17)) (EInt 1))) (EConj (EIndex (EVar 0) (EBin BSub (EBin BAdd (EBin BSub (EBin BAdd (EVar 3) (EInt 1)) (EVar 17)) (EVar 9)) (EInt 1)))))) (EBin BMul (EConj (EIndex (EVar 0) (EVar 17))) (EIndex (EVar 0) (EBin BSub (EBin BSub (EVar 17) (EVar 9)) (EInt 1))))))
(SAssign 18 (EBin BAdd (EVar 18) (EBin BMul (EConj (EIndex (EVar 7) (EVar 9))) (EIndex (EVar 4) (EBin BSub (EBin BSub (EVar 17) (EVar 9)) (EInt 1))))))))))))
(SSeq (SAssign 22 (EBin BDiv (ENeg (EVar 18)) (EVar 13)))
(SSeq (SStore 4 (EVar 17) (EVar 22))
(SSeq (SAssign 13 (EBin BMul (EVar 13) (EBin BSub (EBin BSub (ELit 1 0) (EBin BMul (EReal (EVar 22)) (EReal (EVar 22)))) (EImagSq (EVar 22)))))
(SSeq (SIf (ECmp CEq (EVar 17) (EInt 0))
(SSkip)
(SFor 9 (EInt 0) (EBin BFloorDiv (EBin BAdd (EVar 17) (EInt 1)) (EInt 2)) (EInt 1)
(SSeq (SAssign 23 (EBin BSub (EBin BSub (EVar 17) (EVar 9)) (EInt 1)))
(SSeq (SAssign 18 (EIndex (EVar 4) (EVar 9)))
(SSeq (SStore 4 (EVar 9) (EBin BAdd (EVar 18) (EBin BMul (EVar 22) (EConj (EIndex (EVar 4) (EVar 23))))))
(SIf (ECmp CNe (EVar 9) (EVar 23))
(SStore 4 (EVar 23) (EBin BAdd (EIndex (EVar 4) (EVar 23)) (EBin BMul (EVar 22) (EConj (EVar 18)))))
(SSkip)))))))
(SSeq (SIf (ECmp CEq (EBin BAdd (EVar 17) (EInt 1)) (EVar 1))
(SSeq (SAssign 13 (EBin BDiv (EBin BMul (ELit 1 1) (EVar 13)) (EFloat (EBin BSub (EBin BSub (EVar 3) (EVar 17)) (EInt 1)))))
(SSeq (SAppend 2 (EVar 13))
(SReturn [(EVar 4); (EVar 13); (EVar 2)])))
(SAppend 2 (EBin BDiv (EBin BMul (ELit 1 1) (EVar 13)) (EFloat (EBin BSub (EBin BSub (EVar 3) (EVar 17)) (EInt 1))))))
(SSeq (SAssign 8 (EBin BDiv (ELit 1 0) (EBin BSub (EBin BSub (EBin BMul (EVar 14) (EVar 15)) (EBin BMul (EReal (EVar 16)) (EReal (EVar 16)))) (EImagSq (EVar 16)))))
(SSeq (SAssign 22 (EBin BMul (EBin BAdd (EBin BMul (EVar 19) (EConj (EVar 16))) (EBin BMul (EVar 20) (EVar 14))) (EVar 8)))
(SSeq (SAssign 24 (EBin BMul (EBin BAdd (EBin BMul (EVar 20) (EVar 16)) (EBin BMul (EVar 19) (EVar 15))) (EVar 8)))
(SSeq (SAssign 25 (EBin BMul (EBin BAdd (EBin BMul (EVar 21) (EConj (EVar 16))) (EBin BMul (EVar 19) (EVar 14))) (EVar 8)))
(SSeq (SAssign 26 (EBin BMul (EBin BAdd (EBin BMul (EVar 19) (EVar 16)) (EBin BMul (EVar 21) (EVar 15))) (EVar 8)))
(SSeq (SFor 9 (EInt 0) (EBin BAdd (EBin BFloorDiv (EVar 17) (EInt 2)) (EInt 1)) (EInt 1)
(SSeq (SAssign 23 (EBin BSub (EVar 17) (EVar 9)))
(SSeq (SAssign 18 (EConj (EIndex (EVar 6) (EVar 9))))
(SSeq (SAssign 27 (EConj (EIndex (EVar 5) (EVar 9))))
(SSeq (SAssign 28 (EConj (EIndex (EVar 6) (EVar 23))))
(SSeq (SAssign 29 (EConj (EIndex (EVar 5) (EVar 23))))
(SSeq (SStore 6 (EVar 9) (EBin BAdd (EBin BAdd (EIndex (EVar 6) (EVar 9)) (EBin BMul (EVar 22) (EVar 28))) (EBin BMul (EVar 24) (EVar 29))))
(SSeq (SStore 5 (EVar 9) (EBin BAdd (EBin BAdd (EIndex (EVar 5) (EVar 9)) (EBin BMul (EVar 25) (EVar 28))) (EBin BMul (EVar 26) (EVar 29))))
(SIf (ECmp CNe (EVar 9) (EVar 23))
(SSeq (SStore 6 (EVar 23) (EBin BAdd (EBin BAdd (EIndex (EVar 6) (EVar 23)) (EBin BMul (EVar 22) (EVar 18))) (EBin BMul (EVar 24) (EVar 27))))
(SStore 5 (EVar 23) (EBin BAdd (EBin BAdd (EIndex (EVar 5) (EVar 23)) (EBin BMul (EVar 25) (EVar 18))) (EBin BMul (EVar 26) (EVar 27)))))
(SSkip))))))))))
(SSeq (SAssign 10 (EBin BAdd (EBin BMul (EReal (EVar 20)) (EReal (EVar 20))) (EImagSq (EVar 20))))
(SSeq (SAssign 11 (EBin BAdd (EBin BMul (EReal (EVar 19)) (EReal (EVar 19))) (EImagSq (EVar 19))))
(SSeq (SAssign 12 (EBin BAdd (EBin BMul (EReal (EVar 21)) (EReal (EVar 21))) (EImagSq (EVar 21))))
(SSeq (SAssign 30 (EBin BSub (EVar 15) (EBin BMul (EBin BAdd (EBin BAdd (EBin BMul (EVar 10) (EVar 14)) (EBin BMul (EVar 11) (EVar 15))) (EBin BMul (ELit 2 0) (EReal (EBin BMul (EBin BMul (EVar 20) (EVar 16)) (EConj (EVar 19)))))) (EVar 8))))
(SSeq (SAssign 10 (EBin BSub (EVar 14) (EBin BMul (EBin BAdd (EBin BAdd (EBin BMul (EVar 11) (EVar 14)) (EBin BMul (EVar 12) (EVar 15))) (EBin BMul (ELit 2 0) (EReal (EBin BMul (EBin BMul (EVar 19) (EVar 16)) (EConj (EVar 21)))))) (EVar 8))))
(SSeq (SAssign 15 (EVar 30))
(SSeq (SAssign 14 (EVar 10))
(SSeq (SAssign 16 (EBin BAdd (EBin BAdd (EVar 16) (EBin BMul (EVar 25) (EConj (EVar 20)))) (EBin BMul (EVar 26) (EConj (EVar 19)))))
(SSeq (SIf (ELe0 (EVar 13))
(SRaise ValueError)
(SSkip))
(SSeq (SIf (EAnd (ECmp CGt (EVar 14) (ELit 0 0)) (EAnd (ECmp CLe (EVar 14) (ELit 1 0)) (EAnd (ECmp CGt (EVar 15) (ELit 0 0)) (ECmp CLe (EVar 15) (ELit 1 0)))))
(SSkip)
(SRaise ValueError))
(SSeq (SAssign 8 (EBin BDiv (ELit 1 0) (EVar 13)))
(SSeq (SAssign 10 (EBin BDiv (ELit 1 0) (EBin BSub (EBin BSub (EBin BMul (EVar 14) (EVar 15)) (EBin BMul (EReal (EVar 16)) (EReal (EVar 16)))) (EImagSq (EVar 16)))))
(SSeq (SAssign 31 (EIndex (EVar 0) (EBin BAdd (EVar 17) (EInt 1))))
(SSeq (SAssign 32 (EIndex (EVar 0) (EBin BSub (EBin BSub (EVar 3) (EVar 17)) (EInt 2))))
(SSeq (SFor 9 (EInt 0) (EBin BAdd (EVar 17) (EInt 1)) (EInt 1)
(SSeq (SAssign 31 (EBin BAdd (EVar 31) (EBin BMul (EIndex (EVar 4) (EVar 9)) (EIndex (EVar 0) (EBin BSub (EVar 17) (EVar 9))))))
(SAssign 32 (EBin BAdd (EVar 32) (EBin BMul (EConj (EIndex (EVar 4) (EVar 9))) (EIndex (EVar 0) (EBin BSub (EBin BAdd (EBin BSub (EVar 3) (EVar 17)) (EVar 9)) (EInt 1))))))))
(SSeq (SAssign 22 (EBin BMul (EVar 32) (EVar 8)))
(SSeq (SAssign 24 (EBin BMul (EConj (EVar 31)) (EVar 8)))
(SSeq (SAssign 25 (EBin BMul (EBin BAdd (EBin BMul (EConj (EVar 32)) (EVar 14)) (EBin BMul (EVar 31) (EVar 16))) (EVar 10)))
(SSeq (SAssign 26 (EBin BMul (EBin BAdd (EBin BMul (EVar 31) (EVar 15)) (EConj (EBin BMul (EVar 32) (EVar 16)))) (EVar 10)))
(SSeq (SFor 9 (EVar 17) (ENeg (EInt 1)) (ENeg (EInt 1))
(SSeq (SAssign 18 (EIndex (EVar 4) (EVar 9)))
(SSeq (SStore 4 (EVar 9) (EBin BAdd (EBin BAdd (EVar 18) (EBin BMul (EVar 25) (EIndex (EVar 6) (EVar 9)))) (EBin BMul (EVar 26) (EIndex (EVar 5) (EVar 9)))))
(SSeq (SStore 6 (EBin BAdd (EVar 9) (EInt 1)) (EBin BAdd (EIndex (EVar 6) (EVar 9)) (EBin BMul (EVar 22) (EVar 18))))
(SStore 5 (EBin BAdd (EVar 9) (EInt 1)) (EBin BAdd (EIndex (EVar 5) (EVar 9)) (EBin BMul (EVar 24) (EVar 18))))))))
(SSeq (SStore 6 (EInt 0) (EVar 22))
(SSeq (SStore 5 (EInt 0) (EVar 24))
(SSeq (SAssign 11 (EBin BAdd (EBin BMul (EReal (EVar 32)) (EReal (EVar 32))) (EImagSq (EVar 32))))
(SSeq (SAssign 12 (EBin BAdd (EBin BMul (EReal (EVar 31)) (EReal (EVar 31))) (EImagSq (EVar 31))))
(SSeq (SAssign 13 (EBin BSub (EVar 13) (EBin BMul (EBin BAdd (EBin BAdd (EBin BMul (EVar 11) (EVar 14)) (EBin BMul (EVar 12) (EVar 15))) (EBin BMul (ELit 2 0) (EReal (EBin BMul (EBin BMul (EVar 31) (EVar 32)) (EVar 16))))) (EVar 10))))
(SSeq (SAssign 14 (EBin BSub (EVar 14) (EBin BMul (EVar 12) (EVar 8))))
(SSeq (SAssign 15 (EBin BSub (EVar 15) (EBin BMul (EVar 11) (EVar 8))))
(SSeq (SAssign 16 (EBin BAdd (EVar 16) (EBin BMul (EConj (EBin BMul (EVar 31) (EVar 32))) (EVar 8))))
(SSeq (SIf (ECmp CGt (EVar 13) (ELit 0 0))
(SSkip)
(SRaise ValueError))
(SIf (EAnd (ECmp CGt (EVar 14) (ELit 0 0)) (EAnd (ECmp CLe (EVar 14) (ELit 1 0)) (EAnd (ECmp CGt (EVar 15) (ELit 0 0)) (ECmp CLe (EVar 15) (ELit 1 0)))))
(SSkip)
(SRaise ValueError))))))))))))))))))))))))))))))))))))))))))))))))))))))))))))))))))))))).
(* END GENERATED modcovar_marple *)

Section Order0.
Context {F : Type} {OF : Ops F} {L : Laws OF}.
Variable feq : F -> F -> bool.
Variable stop : Z -> F -> F -> bool.
Local Open Scope F_scope.
Add Field FFm0 : (fth (O:=OF)).
Notation value := (@value F).
Notation store := (@store F).
Notation exec := (@exec F OF feq stop).
Ltac ev := cbn [LoopIR.exec eval get set nth bind try asZ asArr asF ok err fst snd arith arithZ fop compare cmpF cmpZ eqne truthy eval_list].

Lemma xseq a b (st st' : store) : exec a st = (st', CNormal) -> exec (SSeq a b) st = exec b st'.
Proof. intros E. cbn [LoopIR.exec]. rewrite E. reflexivity. Qed.
Lemma xstop a b (st st' : store) c : exec a st = (st', c) -> c <> CNormal -> exec (SSeq a b) st = (st', c).
Proof. intros E Hc. cbn [LoopIR.exec]. rewrite E. destruct c; try reflexivity. congruence. Qed.

Lemma sum_left_sumL (l : list F) : sum_left l = sumL l.
Proof.
  unfold sum_left. assert (G : forall a, fold_left add l a = a + sumL l).
  { induction l as [|v t IH]; intros a; cbn [fold_left sumL]; [ring|]. rewrite IH. ring. }
  rewrite G. ring.
Qed.
Lemma ofZ_of_nat n : @ofZ F OF (Z.of_nat n) = ofnat n.
Proof. destruct n; [reflexivity|]. cbn [Z.of_nat ofZ]. rewrite SuccNat2Pos.id_succ. reflexivity. Qed.
Lemma zlt0 n : (Z.of_nat n <? 0)%Z = false. Proof. apply Z.ltb_ge. lia. Qed.

Lemma len_pos (x : list F) : x <> [] -> (0 < length x)%nat.
Proof. destruct x; [congruence|cbn [length]; lia]. Qed.

(* ---------------- arcovar_marple ---------------- *)
Theorem arcovar_marple_ir_assert (t : bool) (x : list F) (order : nat) :
  (length x < order)%nat ->
  run feq stop prog_arcovar_marple_gen0 [Some (VArr t x); Some (VI (Z.of_nat order))] = OErr AssertionError
  /\ arcovar_marple x order = None.
Proof.
  intros H. split.
  - unfold run, prog_arcovar_marple_gen0. cbn [p_defaults p_body p_nslots p_nparams bind_args bind ok Nat.sub app repeat].
    erewrite xstop; cycle 1.
    { ev. replace (Z.of_nat order <=? Z.of_nat (length x))%Z with false by (symmetry; apply Z.leb_gt; lia). reflexivity. }
    { discriminate. }
    reflexivity.
  - unfold arcovar_marple. replace (length x <? order)%nat with true by (symmetry; apply Nat.ltb_lt; exact H). reflexivity.
Qed.

Theorem arcovar_marple_ir_order0 (t : bool) (x : list F) :
  x <> [] ->
  run feq stop prog_arcovar_marple_gen0 [Some (VArr t x); Some (VI 0)] =
  match arcovar_marple x 0 with
  | Some (af, pf, ab, pb) => ORet [VArr false af; VF pf; VArr false ab; VF pb; VI 0]
  | None => OErr AssertionError
  end.
Proof.
  intros Hx. pose proof (len_pos x Hx) as HN.
  set (N := length x) in *.
  assert (I0 : norm_index N 0 = inl 0%nat) by (apply (norm_index_ok N 0); lia).
  assert (I1 : norm_index N (Z.of_nat N - 1) = inl (N - 1)%nat).
  { rewrite norm_index_ok by lia. f_equal. lia. }
  unfold run, prog_arcovar_marple_gen0. cbn [p_defaults p_body p_nslots p_nparams bind_args bind ok Nat.sub app repeat].
  erewrite xseq; [|ev; fold N; replace (0 <=? Z.of_nat N)%Z with true by (symmetry; apply Z.leb_le; lia); reflexivity].
  erewrite xseq; [|ev; reflexivity].
  erewrite xseq; [|ev; fold N; reflexivity].
  erewrite xseq; [|ev; reflexivity].
  erewrite xseq; [|ev; fold N; rewrite I0; ev; reflexivity].
  erewrite xseq; [|ev; fold N; rewrite I1; ev; reflexivity].
  erewrite xseq; [|ev; reflexivity].
  erewrite xseq; [|ev; reflexivity].
  erewrite xseq; [|ev; reflexivity].
  erewrite xseq; [|ev; reflexivity].
  do 5 (erewrite xseq; [|ev; rewrite zlt0, Nat2Z.id; reflexivity]).
  erewrite xseq; [|ev; rewrite mk_length, I0; ev; fold N; rewrite I1; ev; reflexivity].
  erewrite xseq; [|ev; rewrite mk_length, I0; ev; fold N; rewrite I0; ev; reflexivity].
  erewrite xstop; cycle 1.
  { ev. change (0 =? 0)%Z with true. cbv iota. reflexivity. }
  { discriminate. }
  unfold arcovar_marple. fold N. replace (N <? 0)%nat with false by reflexivity.
  rewrite sum_left_sumL, ofZ_of_nat. reflexivity.
Qed.

(* ---------------- modcovar_marple ---------------- *)
Lemma range_len_1 (a b : Z) : range_len a b 1 = Z.to_nat (b - a).
Proof. unfold range_len. change (0 <? 1)%Z with true. cbv iota. rewrite Z.div_1_r. f_equal. lia. Qed.

(* invariant rule for a loop over range(lo, lo+n) whose body always completes normally *)
Lemma for_loop_inv_from (f : store -> store * ctl) v (I : nat -> store -> Prop) lo n st :
  I O st ->
  (forall i s, (i < n)%nat -> I i s -> exists s', f (set s v (VI (lo + Z.of_nat i))) = (s', CNormal) /\ I (S i) s') ->
  exists s', for_loop f v (range_from lo 1 n) st = (s', CNormal) /\ I n s'.
Proof.
  intros H0 Hs. induction n.
  - exists st. split; [reflexivity|exact H0].
  - destruct IHn as [s1 [E1 I1]]. { intros i s Hi. apply Hs. lia. }
    destruct (Hs n s1 (Nat.lt_succ_diag_r n) I1) as [s2 [E2 I2]].
    exists s2. split; [|exact I2].
    replace (S n) with (n + 1)%nat by lia. rewrite range_from_app, for_loop_app, E1. cbn [range_from for_loop]. rewrite E2. reflexivity.
Qed.

Lemma two_nz : (two : F) <> 0. Proof. unfold two. apply two_neq_0. Qed.
Lemma lit_0 : @lit F OF 0 0 = 0. Proof. reflexivity. Qed.
Lemma lit_2 : @lit F OF 2 0 = two.
Proof. unfold two. cbv [lit ofZ ofnat Pos.to_nat Pos.iter_op Nat.add]. ring. Qed.
Lemma lit_half : @lit F OF 1 1 = 1 / two.
Proof. unfold two. cbv [lit ofZ ofnat Pos.to_nat Pos.iter_op Nat.add Nat.pow Nat.mul]. field. apply two_neq_0. Qed.

Definition mst (t : bool) (x : list F) (ip : Z) (v8 v9 : value) : store :=
  let Zr := VArr false (mk (length x) (fun _ => 0)) in
  [VArr t x; VI ip; VArr true []; VI (Z.of_nat (length x)); Zr; Zr; Zr; Zr; v8; v9;
   VUnbound; VUnbound; VUnbound; VUnbound; VUnbound; VUnbound; VUnbound; VUnbound; VUnbound; VUnbound; VUnbound; VUnbound;
   VUnbound; VUnbound; VUnbound; VUnbound; VUnbound; VUnbound; VUnbound; VUnbound; VUnbound; VUnbound; VUnbound].

Definition sqparts (z : F) : F := re z * re z + imagsq z.       (* z.real**2 + z.imag**2 *)

Definition mod_init_body : stmt :=
  SAssign 8 (EBin BAdd (EVar 8) (EBin BMul (ELit 2 0) (EBin BAdd (EBin BMul (EReal (EIndex (EVar 0) (EVar 9))) (EReal (EIndex (EVar 0) (EVar 9)))) (EImagSq (EIndex (EVar 0) (EVar 9)))))).
Definition mod_init_loop : stmt := SFor 9 (EInt 1) (EBin BSub (EVar 3) (EInt 1)) (EInt 1) mod_init_body.

Lemma mod_init_loop_ok t (x : list F) ip s0 v9 :
  exists v9',
  exec mod_init_loop (mst t x ip (VF s0) v9) =
  (mst t x ip (VF (lsum (length x - 2) (fun k => lit 2 0 * sqparts (nthF x (k + 1))) s0)) v9', CNormal).
Proof.
  set (N := length x).
  unfold mod_init_loop, mst. ev. fold N. unfold range_vals. change (1 =? 0)%Z with false. cbv iota.
  rewrite range_len_1. replace (Z.to_nat (Z.of_nat N - 1 - 1)) with (N - 2)%nat by lia. cbn [try].
  destruct (for_loop_inv_from (exec mod_init_body) 9%nat
              (fun i s => exists w, s = mst t x ip (VF (lsum i (fun k => lit 2 0 * sqparts (nthF x (k + 1))) s0)) w)
              1%Z (N - 2)%nat (mst t x ip (VF s0) v9)) as [s' [E [w Hw]]].
  - exists v9. reflexivity.
  - intros i s Hi [w ->]. eexists. split; [|eexists; reflexivity].
    unfold mst, mod_init_body. ev. fold N.
    rewrite (norm_index_ok N (1 + Z.of_nat i)) by lia. ev.
    replace (Z.to_nat (1 + Z.of_nat i)) with (i + 1)%nat by lia.
    reflexivity.
  - subst s'. exists w. unfold mst in E. fold N in E. cbn [try ok]. rewrite E. reflexivity.
Qed.

Theorem modcovar_marple_ir_order0 (t : bool) (x : list F) :
  x <> [] ->
  run feq stop prog_modcovar_marple_gen0 [Some (VArr t x); Some (VI 0)] =
  match modcovar_marple x 0 with
  | Some (a, p) => ORet [VArr true a; VF p; VArr true []]
  | None => OErr ValueError
  end.
Proof.
  intros Hx. pose proof (len_pos x Hx) as HN.
  set (N := length x) in *.
  assert (I0 : norm_index N 0 = inl 0%nat) by (apply (norm_index_ok N 0); lia).
  assert (I1 : norm_index N (Z.of_nat N - 1) = inl (N - 1)%nat).
  { rewrite norm_index_ok by lia. f_equal. lia. }
  unfold run, prog_modcovar_marple_gen0. cbn [p_defaults p_body p_nslots p_nparams bind_args bind ok Nat.sub app repeat].
  erewrite xseq; [|ev; reflexivity].
  erewrite xseq; [|ev; reflexivity].
  erewrite xseq; [|ev; fold N; reflexivity].
  do 4 (erewrite xseq; [|ev; rewrite zlt0, Nat2Z.id; reflexivity]).
  erewrite xseq; [|ev; reflexivity].
  destruct (mod_init_loop_ok t x 0%Z (lit 0 0) VUnbound) as [v9 EL]. unfold mst, mod_init_loop, mod_init_body in EL. fold N in EL.
  erewrite xseq; [|exact EL].
  erewrite xseq; [|ev; fold N; rewrite I0; ev; reflexivity].
  erewrite xseq; [|ev; fold N; rewrite I1; ev; reflexivity].
  do 4 (erewrite xseq; [|ev; reflexivity]).
  erewrite xseq; [|ev; fold N; rewrite I0, I1; ev; reflexivity].
  erewrite xseq; [|ev; rewrite mk_length, I0; ev; fold N; rewrite I1; ev; reflexivity].
  erewrite xseq; [|ev; rewrite mk_length, I0; ev; fold N; rewrite I0; ev; reflexivity].
  erewrite xseq; [|ev; reflexivity].
  erewrite xstop; cycle 1.
  { ev. change (0 =? 0)%Z with true. cbv iota. reflexivity. }
  { discriminate. }
  unfold modcovar_marple. fold N. rewrite ofZ_of_nat.
  match goal with |- ORet [_; VF (?a / _); _] = ORet [_; VF (?b / _); _] => assert (E : a = b); [|rewrite E; reflexivity] end.
  rewrite lsum_sumf, sumL_mk, lit_0, lit_half.
  fold (sqparts (nthF x 0)). fold (sqparts (nthF x (N - 1))).
  unfold sqparts. rewrite !nrm2_parts.
  rewrite (sumf_ext (N - 2) (fun k => lit 2 0 * (re (nthF x (k + 1)) * re (nthF x (k + 1)) + imagsq (nthF x (k + 1)))) (fun k => two * nrm2 (nthF x (k + 1)))).
  2:{ intros i _. rewrite nrm2_parts, lit_2. reflexivity. }
  rewrite (sumf_ext (N - 2) (fun k => twice (nrm2 (nthF x (k + 1)))) (fun k => two * nrm2 (nthF x (k + 1)))).
  2:{ intros i _. unfold twice, two. ring. }
  rewrite sumf_scale. unfold nrm2.
  field. apply two_nz.
Qed.

(* ---------------- modcovar_marple, IP = 1: the first pass of the main loop ---------------- *)
Lemma exec_for v lo hi step body (st : store) vals :
  bind (eval feq st lo) (fun vl => bind (eval feq st hi) (fun vh => bind (eval feq st step) (fun vs =>
    bind (asZ vl) (fun l => bind (asZ vh) (fun h => bind (asZ vs) (fun s => range_vals l h s)))))) = inl vals ->
  exec (SFor v lo hi step body) st =
  match for_loop (exec body) v vals st with (st', CBreak) => (st', CNormal) | other => other end.
Proof. intros E. cbn [LoopIR.exec]. rewrite E. reflexivity. Qed.

Definition mod_save_body : stmt :=
  SAssign 18 (EBin BAdd (EVar 18) (EBin BMul (EIndex (EVar 0) (EVar 9)) (EConj (EIndex (EVar 0) (EBin BSub (EBin BSub (EVar 9) (EVar 17)) (EInt 1)))))).

(* the accumulation SAVE1 = sum_{K=1}^{N-1} X[K] conj X[K-1] of pass M = 0, on any store whose slots 0, 9, 17, 18 are as stated *)
Lemma mod_save_loop_ok (mid1 : list value) (mid2 : list value) (post : list value) tx (x : list F) s0 v9 :
  forall (Hm1 : length mid1 = 8%nat) (Hm2 : length mid2 = 7%nat),
  exists v9',
  for_loop (exec mod_save_body) 9 (range_from 1 1 (length x - 1))
    (VArr tx x :: mid1 ++ v9 :: mid2 ++ VI 0 :: VF s0 :: post) =
  (VArr tx x :: mid1 ++ v9' :: mid2 ++ VI 0 :: VF (lsum (length x - 1) (fun i => nthF x (i + 1) * conj (nthF x i)) s0) :: post, CNormal).
Proof.
  intros Hm1 Hm2. set (N := length x).
  destruct mid1 as [|a1 [|a2 [|a3 [|a4 [|a5 [|a6 [|a7 [|a8 [|]]]]]]]]]; try discriminate Hm1.
  destruct mid2 as [|b1 [|b2 [|b3 [|b4 [|b5 [|b6 [|b7 [|]]]]]]]]; try discriminate Hm2.
  cbn [app].
  destruct (for_loop_inv_from (exec mod_save_body) 9%nat
              (fun i s => exists w, s = VArr tx x :: [a1; a2; a3; a4; a5; a6; a7; a8] ++ w :: [b1; b2; b3; b4; b5; b6; b7] ++
                                        VI 0 :: VF (lsum i (fun i => nthF x (i + 1) * conj (nthF x i)) s0) :: post)
              1%Z (N - 1)%nat
              (VArr tx x :: [a1; a2; a3; a4; a5; a6; a7; a8] ++ v9 :: [b1; b2; b3; b4; b5; b6; b7] ++ VI 0 :: VF s0 :: post)) as [s' [E [w Hw]]].
  - exists v9. reflexivity.
  - intros i s Hi [w ->]. eexists. split; [|eexists; reflexivity].
    cbn [app]. unfold mod_save_body. ev. fold N.
    rewrite (norm_index_ok N (1 + Z.of_nat i)) by lia. ev. fold N.
    rewrite (norm_index_ok N (1 + Z.of_nat i - 0 - 1)) by lia. ev.
    replace (Z.to_nat (1 + Z.of_nat i)) with (i + 1)%nat by lia.
    replace (Z.to_nat (1 + Z.of_nat i - 0 - 1)) with i by lia.
    reflexivity.
  - subst s'. exists w. cbn [app] in E. exact E.
Qed.

Ltac evx := cbn [LoopIR.exec eval get set nth bind try asZ asArr asF ok err fst snd arith arithZ fop compare cmpZ eqne truthy eval_list app].


(* closed form of the model at IP = 1 *)
Definition m1_P0 (x : list F) : F :=
  sumf (length x - 2) (fun k => twice (nrm2 (nthF x (k + 1)))) + nrm2 (nthF x 0) + nrm2 (nthF x (length x - 1)).
Definition m1_S (x : list F) : F := twice (sumf (length x - 1) (fun i => nthF x (i + 1) * conj (nthF x i))).
Definition m1_C1 (x : list F) : F := - m1_S x / m1_P0 x.

Lemma mod1_model (x : list F) :
  modcovar_marple x 1 =
  Some (mk (length x) (fun k => if (k =? 0)%nat then m1_C1 x else 0),
        m1_P0 x * (1 - nrm2 (m1_C1 x)) / two / ofnat (length x - 1)).
Proof.
  set (N := length x).
  unfold modcovar_marple. cbn [mm_iter]. unfold mm_order. cbn [mm_a mm_p]. unfold mm_init. cbn [mm_p mm_a mm_c mm_d mm_r mm_de mm_ga mm_la]. fold N.
  assert (EC : - (twice (sumL (mk (N - (0 + 1)) (fun i => nthF x (i + 0 + 1) * conj (nthF x i)))) +
                  sumL (mk 0 (fun k0 => conj (nthF (mk N (fun k1 => if (k1 <? 0)%nat
                          then nthF (mk N (fun _ => 0)) k1 - nthF x (N - 0 - 1) * conj (nthF x (N - 0 + k1)) - conj (nthF x 0) * nthF x (0 - k1 - 1)
                          else if (k1 =? 0)%nat then conj (twice (sumL (mk (N - (0 + 1)) (fun i => nthF x (i + 0 + 1) * conj (nthF x i)))))
                               else nthF (mk N (fun _ => 0)) k1)) k0) * nthF (mk N (fun _ => 0)) (0 - k0 - 1)))) /
               (sumL (mk (N - 2) (fun k0 => twice (nrm2 (nthF x (k0 + 1))))) + nrm2 (nthF x 0) + nrm2 (nthF x (N - 1)))
               = m1_C1 x).
  { unfold m1_C1, m1_S, m1_P0. fold N. rewrite !sumL_mk. cbn [sumf].
    replace (N - (0 + 1))%nat with (N - 1)%nat by lia.
    rewrite (sumf_ext (N - 1) (fun i => nthF x (i + 0 + 1) * conj (nthF x i)) (fun i => nthF x (i + 1) * conj (nthF x i)))
      by (intros i _; do 2 f_equal; lia).
    match goal with |- - (?a + 0) / ?d = - ?a / ?d => replace (a + 0) with a by ring end. reflexivity. }
  rewrite EC.
  replace (N - 0 - 1)%nat with (N - 1)%nat by lia.
  do 2 f_equal.
  - apply mk_ext. intros k Hk. change (k <? 0)%nat with false. cbv iota.
    destruct (k =? 0)%nat; [reflexivity|]. rewrite nth_mk by exact Hk. reflexivity.
  - unfold m1_P0. fold N. rewrite sumL_mk. reflexivity.
Qed.

Lemma updF_zeros_0 n (c : F) : (0 < n)%nat -> updF (mk n (fun _ => 0)) 0 c = mk n (fun k => if (k =? 0)%nat then c else 0).
Proof. destruct n; [lia|]. intros _. rewrite !mk_S. reflexivity. Qed.

Theorem modcovar_marple_ir_order1 (t : bool) (x : list F) :
  x <> [] ->
  run feq stop prog_modcovar_marple_gen0 [Some (VArr t x); Some (VI 1)] =
  match modcovar_marple x 1 with
  | Some (a, p) => ORet [VArr false a; VF p; VArr false [p]]
  | None => OErr ValueError
  end.
Proof.
  intros Hx. pose proof (len_pos x Hx) as HN.
  set (N := length x) in *.
  assert (I0 : norm_index N 0 = inl 0%nat) by (apply (norm_index_ok N 0); lia).
  assert (I1 : norm_index N (Z.of_nat N - 1) = inl (N - 1)%nat).
  { rewrite norm_index_ok by lia. f_equal. lia. }
  unfold run, prog_modcovar_marple_gen0. cbn [p_defaults p_body p_nslots p_nparams bind_args bind ok Nat.sub app repeat].
  (* the initialisation, as for IP = 0 *)
  erewrite xseq; [|ev; reflexivity].
  erewrite xseq; [|ev; reflexivity].
  erewrite xseq; [|ev; fold N; reflexivity].
  do 4 (erewrite xseq; [|ev; rewrite zlt0, Nat2Z.id; reflexivity]).
  erewrite xseq; [|ev; reflexivity].
  destruct (mod_init_loop_ok t x 1%Z (lit 0 0) VUnbound) as [v9 EL]. unfold mst, mod_init_loop, mod_init_body in EL. fold N in EL.
  erewrite xseq; [|exact EL].
  erewrite xseq; [|ev; fold N; rewrite I0; ev; reflexivity].
  erewrite xseq; [|ev; fold N; rewrite I1; ev; reflexivity].
  do 4 (erewrite xseq; [|ev; reflexivity]).
  erewrite xseq; [|ev; fold N; rewrite I0, I1; ev; reflexivity].
  erewrite xseq; [|ev; rewrite mk_length, I0; ev; fold N; rewrite I1; ev; reflexivity].
  erewrite xseq; [|ev; rewrite mk_length, I0; ev; fold N; rewrite I0; ev; reflexivity].
  erewrite xseq; [|ev; reflexivity].
  erewrite xseq; [|ev; change (1 =? 0)%Z with false; cbv iota; reflexivity].
  (* the main loop: one pass, M = 0 *)
  rewrite (exec_for _ _ _ _ _ _ [0%Z]) by reflexivity.
  cbn [for_loop set].
  erewrite xseq; [|ev; reflexivity].
  match goal with |- context [LoopIR.exec _ _ (SSeq (SFor 9 _ _ _ _) _) (_ :: ?a1 :: ?a2 :: ?a3 :: ?a4 :: ?a5 :: ?a6 :: ?a7 :: ?a8 :: ?w9 :: ?b1 :: ?b2 :: ?b3 :: ?b4 :: ?b5 :: ?b6 :: ?b7 :: VI 0 :: VF ?s0 :: ?post)] =>
    destruct (mod_save_loop_ok [a1;a2;a3;a4;a5;a6;a7;a8] [b1;b2;b3;b4;b5;b6;b7] post t x s0 w9 eq_refl eq_refl) as [w ES] end.
  unfold mod_save_body in ES. cbn [app] in ES. fold N in ES.
  erewrite xseq.
  2:{ erewrite exec_for; cycle 1.
      { ev. fold N. unfold range_vals. change (1 =? 0)%Z with false. cbv iota. rewrite range_len_1.
        replace (Z.to_nat (Z.of_nat N - (0 + 1))) with (N - 1)%nat by lia. change (0 + 1)%Z with 1%Z. reflexivity. }
      rewrite ES. reflexivity. }
  erewrite xseq; [|ev; reflexivity].
  erewrite xseq; [|ev; rewrite mk_length, I0; ev; reflexivity].
  erewrite xseq; [|ev; fold N; rewrite I1; ev; rewrite updF_length, mk_length, I0; ev; reflexivity].
  erewrite xseq; [|ev; fold N; rewrite I1; ev; rewrite updF_length, mk_length, I0; ev; reflexivity].
  erewrite xseq; [|ev; fold N; rewrite I0; ev; rewrite updF_length, mk_length, I0; ev; reflexivity].
  erewrite xseq; [|ev; change (0 =? 0)%Z with true; cbv iota; reflexivity].
  erewrite xseq; [|ev; reflexivity].
  erewrite xseq; [|ev; rewrite mk_length, I0; ev; reflexivity].
  erewrite xseq; [|ev; reflexivity].
  erewrite xseq; [|ev; change (0 =? 0)%Z with true; cbv iota; reflexivity].
  erewrite xstop; cycle 1.
  { evx. change (0 + 1 =? 1)%Z with true. cbv iota. reflexivity. }
  { discriminate. }
  cbv iota beta.
  rewrite mod1_model. fold N. cbn [andb].
  set (S := lsum (N - 1) (fun i => nthF x (i + 1) * conj (nthF x i)) (ofZ 0 + lit 0 0)).
  set (P0 := lsum (N - 2) (fun k => lit 2 0 * sqparts (nthF x (k + 1))) (lit 0 0) + (re (nthF x 0) * re (nthF x 0) + imagsq (nthF x 0))
             + (re (nthF x (N - 1)) * re (nthF x (N - 1)) + imagsq (nthF x (N - 1)))).
  set (C1 := - (S * lit 2 0) / P0).
  assert (ESs : S = sumf (N - 1) (fun i => nthF x (i + 1) * conj (nthF x i))).
  { unfold S. rewrite lsum_sumf, lit_0. change (@ofZ F OF 0) with (0 : F). ring. }
  assert (EP0 : P0 = m1_P0 x).
  { unfold P0, m1_P0. fold N. rewrite lsum_sumf, lit_0, !nrm2_parts.
    rewrite (sumf_ext (N - 2) (fun k => lit 2 0 * sqparts (nthF x (k + 1))) (fun k => twice (nrm2 (nthF x (k + 1))))).
    2:{ intros i _. unfold sqparts. rewrite nrm2_parts, lit_2. unfold twice, two, nrm2. ring. }
    unfold nrm2. ring. }
  assert (EC1 : C1 = m1_C1 x).
  { unfold C1, m1_C1, m1_S. fold N. rewrite ESs, EP0, lit_2. unfold twice, two.
    match goal with |- - (?a * (1 + 1)) / _ = _ => replace (a * (1 + 1)) with (a + a) by ring end. reflexivity. }
  rewrite updF_zeros_0 by exact HN.
  replace (Z.of_nat N - 0 - 1)%Z with (Z.of_nat (N - 1)) by lia. rewrite ofZ_of_nat.
  rewrite lit_half, lit_1.
  replace (1 - re C1 * re C1 - imagsq C1) with (1 - nrm2 C1) by (unfold nrm2; rewrite <- (nrm2_parts C1); ring).
  replace (1 / two * (P0 * (1 - nrm2 C1))) with (P0 * (1 - nrm2 C1) / two) by (field; apply two_nz).
  rewrite EC1, EP0. reflexivity.
Qed.

(* ---------------- arcovar_marple, order = 1: the first pass of the main loop (ends with the break) ---------------- *)
Definition cov_temp_body : stmt :=
  SAssign 20 (EBin BAdd (EVar 20) (EBin BMul (EIndex (EVar 0) (EVar 21)) (EConj (EIndex (EVar 0) (EBin BSub (EBin BSub (EVar 21) (EVar 16)) (EInt 1)))))).

Definition loopvar (v : value) (lo : Z) (i : nat) : value := match i with O => v | S j => VI (lo + Z.of_nat j) end.

Lemma cov_temp_loop_ok (mid1 : list value) (mid2 : list value) (post : list value) tx (x : list F) s0 v21 :
  forall (Hm1 : length mid1 = 15%nat) (Hm2 : length mid2 = 3%nat),
  for_loop (exec cov_temp_body) 21 (range_from 1 1 (length x - 1))
    (VArr tx x :: mid1 ++ VI 0 :: mid2 ++ VF s0 :: v21 :: post) =
  (VArr tx x :: mid1 ++ VI 0 :: mid2 ++ VF (lsum (length x - 1) (fun i => nthF x (i + 1) * conj (nthF x i)) s0) :: loopvar v21 1 (length x - 1) :: post, CNormal).
Proof.
  intros Hm1 Hm2. set (N := length x).
  destruct mid1 as [|a1 [|a2 [|a3 [|a4 [|a5 [|a6 [|a7 [|a8 [|a9 [|a10 [|a11 [|a12 [|a13 [|a14 [|a15 [|]]]]]]]]]]]]]]]]; try discriminate Hm1.
  destruct mid2 as [|b1 [|b2 [|b3 [|]]]]; try discriminate Hm2.
  cbn [app].
  destruct (for_loop_inv_from (exec cov_temp_body) 21%nat
              (fun i s => s = VArr tx x :: [a1; a2; a3; a4; a5; a6; a7; a8; a9; a10; a11; a12; a13; a14; a15] ++ VI 0 :: [b1; b2; b3] ++
                              VF (lsum i (fun i => nthF x (i + 1) * conj (nthF x i)) s0) :: loopvar v21 1 i :: post)
              1%Z (N - 1)%nat
              (VArr tx x :: [a1; a2; a3; a4; a5; a6; a7; a8; a9; a10; a11; a12; a13; a14; a15] ++ VI 0 :: [b1; b2; b3] ++ VF s0 :: v21 :: post)) as [s' [E Hw]].
  - reflexivity.
  - intros i s Hi ->. eexists. split; [|reflexivity].
    cbn [app]. unfold cov_temp_body. ev. fold N.
    rewrite (norm_index_ok N (1 + Z.of_nat i)) by lia. ev. fold N.
    rewrite (norm_index_ok N (1 + Z.of_nat i - 0 - 1)) by lia. ev.
    replace (Z.to_nat (1 + Z.of_nat i)) with (i + 1)%nat by lia.
    replace (Z.to_nat (1 + Z.of_nat i - 0 - 1)) with i by lia.
    reflexivity.
  - subst s'. cbn [app] in E. exact E.
Qed.

Lemma sumL_mk0 (f : nat -> F) : sumL (mk 0 f) = 0. Proof. reflexivity. Qed.

(* closed form of the model at order 1 *)
Definition c1_T (x : list F) : F := sumf (length x - 1) (fun i => nthF x (i + 1) * conj (nthF x i)).
Definition c1_pf0 (x : list F) : F := sumL (map nrm2 x) - nrm2 (nthF x 0).
Definition c1_pb0 (x : list F) : F := sumL (map nrm2 x) - nrm2 (nthF x (length x - 1)).

Lemma cov1_model (x : list F) :
  x <> [] ->
  arcovar_marple x 1 =
  Some (mk (length x) (fun k => if (k =? 0)%nat then - c1_T x * (1 / c1_pb0 x) else 0),
        (c1_pf0 x - nrm2 (c1_T x) * (1 / c1_pb0 x)) / ofnat (length x - 1),
        mk (length x) (fun k => if (k =? 0)%nat then - (1 / c1_pf0 x) * conj (c1_T x) else 0),
        (c1_pb0 x - nrm2 (c1_T x) * (1 / c1_pf0 x)) / ofnat (length x - 1)).
Proof.
  intros Hx. pose proof (len_pos x Hx) as HN. unfold c1_T, c1_pf0, c1_pb0. set (N := length x) in *.
  unfold arcovar_marple. fold N. replace (N <? 1)%nat with false by (symmetry; apply Nat.ltb_ge; lia).
  cbn [cm_iter]. unfold cm_part1. cbn [cm_af cm_pf cm_ab cm_pb]. unfold cm_init. cbn [cm_af cm_pf cm_ab cm_pb cm_c cm_d cm_r cm_de cm_ga]. fold N.
  rewrite !sumL_mk0, !sumL_mk.
  replace (N - (0 + 1))%nat with (N - 1)%nat by lia. replace (N - 0 - 1)%nat with (N - 1)%nat by lia.
  rewrite (sumf_ext (N - 1) (fun i => nthF x (i + 0 + 1) * conj (nthF x i)) (fun i => nthF x (i + 1) * conj (nthF x i)))
    by (intros i _; do 2 f_equal; lia).
  set (T := sumf (N - 1) (fun i => nthF x (i + 1) * conj (nthF x i))).
  replace (T + 0) with T by ring.
  match goal with |- Some (?a, ?b, ?c, ?d) = Some (?a', ?b', ?c', ?d') =>
    assert (a = a') as ->; [|assert (c = c') as ->; [|reflexivity]] end.
  - apply mk_ext. intros k Hk. change (k <? 0)%nat with false. cbv iota.
    destruct (k =? 0)%nat; [reflexivity|]. rewrite nth_mk by exact Hk. reflexivity.
  - apply mk_ext. intros k Hk. change (k <? 0)%nat with false. cbv iota.
    destruct (k =? 0)%nat; [reflexivity|]. rewrite nth_mk by exact Hk. reflexivity.
Qed.

Ltac ixs := repeat (progress (rewrite ?updF_length, ?mk_length; ev)).

Theorem arcovar_marple_ir_order1 (t : bool) (x : list F) :
  x <> [] ->
  run feq stop prog_arcovar_marple_gen0 [Some (VArr t x); Some (VI 1)] =
  match arcovar_marple x 1 with
  | Some (af, pf, ab, pb) => ORet [VArr false af; VF pf; VArr false ab; VF pb; VArr true []]
  | None => OErr AssertionError
  end.
Proof.
  intros Hx. pose proof (len_pos x Hx) as HN.
  set (N := length x) in *.
  assert (I0 : norm_index N 0 = inl 0%nat) by (apply (norm_index_ok N 0); lia).
  assert (I1 : norm_index N (Z.of_nat N - 1) = inl (N - 1)%nat).
  { rewrite norm_index_ok by lia. f_equal. lia. }
  unfold run, prog_arcovar_marple_gen0. cbn [p_defaults p_body p_nslots p_nparams bind_args bind ok Nat.sub app repeat].
  erewrite xseq; [|ev; fold N; replace (1 <=? Z.of_nat N)%Z with true by (symmetry; apply Z.leb_le; lia); reflexivity].
  erewrite xseq; [|ev; reflexivity].
  erewrite xseq; [|ev; fold N; reflexivity].
  erewrite xseq; [|ev; reflexivity].
  erewrite xseq; [|ev; fold N; rewrite I0; ev; reflexivity].
  erewrite xseq; [|ev; fold N; rewrite I1; ev; reflexivity].
  do 4 (erewrite xseq; [|ev; reflexivity]).
  do 5 (erewrite xseq; [|ev; rewrite zlt0, Nat2Z.id; reflexivity]).
  erewrite xseq; [|ev; rewrite mk_length, I0; ev; fold N; rewrite I1; ev; reflexivity].
  erewrite xseq; [|ev; rewrite mk_length, I0; ev; fold N; rewrite I0; ev; reflexivity].
  erewrite xseq; [|ev; change (1 =? 0)%Z with false; cbv iota; reflexivity].
  erewrite xseq; [|ev; reflexivity].
  (* the main loop: pass m = 0 ends with the break *)
  erewrite xseq.
  2:{ rewrite (exec_for _ _ _ _ _ _ [0%Z; 1%Z]) by reflexivity.
      cbn [for_loop set].
      do 5 (erewrite xseq; [|ev; reflexivity]).
      erewrite xseq.
      2:{ erewrite exec_for; cycle 1.
          { ev. fold N. unfold range_vals. change (1 =? 0)%Z with false. cbv iota. rewrite range_len_1.
            replace (Z.to_nat (Z.of_nat N - (0 + 1))) with (N - 1)%nat by lia. change (0 + 1)%Z with 1%Z. reflexivity. }
          match goal with |- context [for_loop _ 21%nat _ (_ :: ?a1 :: ?a2 :: ?a3 :: ?a4 :: ?a5 :: ?a6 :: ?a7 :: ?a8 :: ?a9 :: ?a10 :: ?a11 :: ?a12 :: ?a13 :: ?a14 :: ?a15 :: VI 0 :: ?b1 :: ?b2 :: ?b3 :: VF ?s0 :: ?w21 :: ?post)] =>
            pose proof (cov_temp_loop_ok [a1;a2;a3;a4;a5;a6;a7;a8;a9;a10;a11;a12;a13;a14;a15] [b1;b2;b3] post t x s0 w21 eq_refl eq_refl) as ES end.
          unfold cov_temp_body in ES. cbn [app] in ES. fold N in ES. rewrite ES. reflexivity. }
      erewrite xseq; [|ev; rewrite mk_length, I0; ev; reflexivity].
      erewrite xseq; [|ev; fold N; rewrite I0; ev; rewrite updF_length, mk_length, I0; ev; reflexivity].
      erewrite xseq; [|ev; change (0 =? 0)%Z with true; cbv iota; reflexivity].
      do 4 (erewrite xseq; [|ev; reflexivity]).
      erewrite xseq; [|ev; ixs; rewrite ?I0; ev; ixs; rewrite ?I0; ev; reflexivity].
      erewrite xseq; [|ev; ixs; rewrite ?I0; ev; ixs; rewrite ?I0; ev; reflexivity].
      erewrite xseq; [|ev; ixs; rewrite ?I0; ev; ixs; rewrite ?I0; ev; reflexivity].
      erewrite xseq; [|ev; ixs; rewrite ?I0; ev; ixs; rewrite ?I0; ev; reflexivity].
      erewrite xseq; [|ev; ixs; rewrite ?I0; ev; ixs; rewrite ?I0; ev; reflexivity].
      erewrite xseq; [|ev; change (0 =? 0)%Z with true; cbv iota; reflexivity].
      do 6 (erewrite xseq; [|ev; reflexivity]).
      erewrite xstop; cycle 1.
      { ev. change (0 =? 1 - 1)%Z with true. cbn [negb]. cbv iota. reflexivity. }
      { discriminate. }
      cbv iota beta. reflexivity. }
  ev. cbv iota beta.
  rewrite (cov1_model x Hx). unfold c1_T, c1_pf0, c1_pb0. fold N.
  set (S := lsum (N - 1) (fun i => nthF x (i + 1) * conj (nthF x i)) (lit 0 0 + lit 0 0)).
  assert (ESs : S = sumf (N - 1) (fun i => nthF x (i + 1) * conj (nthF x i))).
  { unfold S. rewrite lsum_sumf, lit_0. ring. }
  rewrite (nrm2_parts S), !updF_zeros_0 by exact HN.
  replace (Z.of_nat N - 0 - 1)%Z with (Z.of_nat (N - 1)) by lia. rewrite ofZ_of_nat.
  rewrite lit_1, sum_left_sumL, ESs. reflexivity.
Qed.
End Order0.

Print Assumptions arcovar_marple_ir_assert.
Print Assumptions arcovar_marple_ir_order0.
Print Assumptions arcovar_marple_ir_order1.
Print Assumptions modcovar_marple_ir_order0.
Print Assumptions modcovar_marple_ir_order1.
