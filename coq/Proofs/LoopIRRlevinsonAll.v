(* rlevinson, ALL orders: the IR program generated from levinson.py (rlevinson, with its callee levdown embedded as an [SCall]) computes the
   hand-written model Model.LinPred.rlevinson for EVERY input.

   [prog_rlevinson_ref] is a hand-decomposed copy (loops and blocks named) of the program [prog_rlevinson_gen0] kept verbatim in
   Proofs/LoopIRRlevinson.v between the BEGIN/END GENERATED markers; the two are equal by reflexivity, and the embedded callee body IS
   [p_body prog_levdown_ref] (Proofs/LoopIRLevdown.v), so that [levdown_ir_chk] applies through the call lemma [scall_run].

   PROVED (abstract field with conjugation [Laws]; EVERY equality test [feq] - it is the model's [Eqb] instance -, every [stop], every array a of any
   length with either dtype tag t, every efinal; no hypothesis):
     rlevinson_ir_run   run prog_rlevinson_ref [a; efinal] =
                           a = []                                  -> IndexError      (a[0])
                           feq a[0] 1 = false                      -> AssertionError  (assert a[0] == 1)
                           Model.LinPred.rlevinson a efinal = None -> ValueError      (len(a) < 2, or the embedded levdown raises in the step-down
                                                                                       sweep: a reflection coefficient equal to one / a leading
                                                                                       coefficient that is not one for the code's ==)
                           = Some (R, stages, kr, es)              -> ORet [VArr false R; VMat t n (Umatrix n stages); VArr t kr; VArr true es]
                                                                      n = len(a), Umatrix n stages = the n x n matrix of entries [Umat stages i m]
                                                                      (every entry, the zeros below the diagonal included), the dtype tags numpy
                                                                      gives (R complex, U and kr the dtype of a, e float)
     rlevinson_ir_tie   for every reflexive [feq]: the boolean [tie_rlevinson] of the exact evaluation tie is true for EVERY input
   NOT PROVED: nothing within the IR semantics (arguments of other Python types than the tie passes are not quantified over).

   Proof: the effect of the step-down loop on (a, e, U) is the Gallina function [sweep] (one [levdown_chk] per pass, the entry e[k-1] and the
   column k of U rewritten); [loop1_ok] shows by induction over the range that the interpreter computes [sweep] (each pass: [scall_run] +
   [levdown_ir_chk], the column store [mset_col] on a matrix kept in the normal form [mkmat n m f]); [sweep_spec] relates [sweep] to the model's
   [stepdown] (entrywise: e_j = stage_e, U[i, c] = Umat stages i c); the R recursion is the invariant "R = tl (rlev_R stages e0 i)" over
   [for_loop_from] (column slice of U reversed * R reversed, left fold = sumL). *)
From Coq Require Import String ZArith List Lia Bool.
Require Import Spectrum.Theory.Ops Spectrum.Theory.Sum Spectrum.Theory.Vec Spectrum.Model.LoopIR Spectrum.Model.Levinson
               Spectrum.Model.LinPred Spectrum.Model.LoopIRTie Spectrum.Model.LoopIRRlev Spectrum.Proofs.LoopIRLevinson
               Spectrum.Proofs.LoopIRLevup Spectrum.Proofs.LoopIRLevdown Spectrum.Proofs.LoopIRAryule Spectrum.Proofs.LoopIRRlevinson.
Import ListNotations.
Local Open Scope string_scope.

(* ---------------------------------------------------------------- the program, decomposed *)
(* slots 0=a 1=efinal 2=realdata 3=p 4=U 5=e 6=k 7=levdown@ret0 8=levdown@ret1 9=e0 10=kr 11=R 12=R0 13=r *)
Definition rl_call : stmt :=
  SCall [7%nat; 8%nat] (p_nparams prog_levdown_ref) (p_defaults prog_levdown_ref) (p_nslots prog_levdown_ref) (p_body prog_levdown_ref)
        [(Some (EVar 0)); (Some (EIndex (EVar 5) (EVar 6)))].
Definition rl_colk : stmt :=
  SStoreCol 4 (EVar 6) (EConcat (EConj (ESlice (EVar 0) (Some (ENeg (EInt 1))) None (Some (ENeg (EInt 1)))))
                                (EZeros (EMax (EInt 0) (EBin BSub (EVar 3) (EVar 6))) true)).
Definition rl_bind : stmt := SSeq (SAssign 0 (EVar 7)) (SStore 5 (EBin BSub (EVar 6) (EInt 1)) (EVar 8)).
Definition rl_body1 : stmt := SSeq (SSeq rl_call rl_bind) rl_colk.
Definition rl_loop1 : stmt := SFor 6 (EBin BSub (EVar 3) (EInt 1)) (EInt 0) (ENeg (EInt 1)) rl_body1.
Definition rl_r : stmt :=
  SAssign 13 (EBin BSub (ENeg (ESum (EBin BMul (EConj (EColSlice (EVar 4) (Some (EBin BSub (EVar 6) (EInt 1))) None (Some (ENeg (EInt 1))) (EVar 6)))
                                               (ESlice (EVar 11) (Some (ENeg (EInt 1))) None (Some (ENeg (EInt 1)))))))
                        (EBin BMul (EIndex (EVar 10) (EVar 6)) (EIndex (EVar 5) (EBin BSub (EVar 6) (EInt 1))))).
Definition rl_body2 : stmt := SSeq rl_r (SAssign 11 (EInsert (EVar 11) (ELen (EVar 11)) (EVar 13))).
Definition rl_loop2 : stmt := SFor 6 (EInt 1) (EVar 3) (EInt 1) rl_body2.
Definition rl_ret : stmt := SSeq (SAssign 11 (EInsert (EVar 11) (EInt 0) (EVar 9))) (SReturn [(EVar 11); (EVar 4); (EVar 10); (EVar 5)]).
Definition rl_e0 : stmt := SAssign 9 (EBin BDiv (EIndex (EVar 5) (EInt 0)) (EBin BSub (ELit 1 0) (ENrm2 (EIndex (EVar 0) (EInt 1))))).
Definition rl_u00 : stmt := SStore2 4 (EInt 0) (EInt 0) (EInt 1).
Definition rl_kr : stmt := SAssign 10 (EConj (ERowSlice (EVar 4) (EInt 0) (Some (EInt 1)) None None)).
Definition rl_r0 : stmt := SStore 11 (EInt 0) (EBin BMul (ENeg (EConj (EIndex2 (EVar 4) (EInt 0) (EInt 1)))) (EVar 12)).
(* from kr = conj(U[0,1:]) to the end *)
Definition rl_tail2 : stmt :=
  SSeq rl_kr
  (SSeq (SAssign 10 (EVar 10))
  (SSeq (SAssign 11 (EZeros (EInt 1) false))
  (SSeq (SAssign 6 (EInt 1))
  (SSeq (SAssign 12 (EVar 9))
  (SSeq rl_r0
  (SSeq rl_loop2 rl_ret)))))).
(* from the step-down loop to the end *)
Definition rl_tail1 : stmt := SSeq rl_loop1 (SSeq rl_e0 (SSeq rl_u00 rl_tail2)).
Definition rl_ucol : stmt :=
  SStoreCol 4 (EBin BSub (EVar 3) (EInt 1)) (EConj (ESlice (EVar 0) (Some (ENeg (EInt 1))) None (Some (ENeg (EInt 1))))).
Definition rl_uzeros : stmt :=
  SIf (EIsBool true (EVar 2)) (SAssign 4 (EZeros2 (EVar 3) (EVar 3) true)) (SAssign 4 (EZeros2 (EVar 3) (EVar 3) false)).
Definition rl_main : stmt :=
  SSeq (SAssign 0 (ECopy (EVar 0)))
  (SSeq (SAssign 2 (EIsRealObj (EVar 0)))
  (SSeq (SAssert (ECmp CEq (EIndex (EVar 0) (EInt 0)) (EInt 1)))
  (SSeq (SAssign 3 (ELen (EVar 0)))
  (SSeq (SIf (ECmp CLt (EVar 3) (EInt 2)) (SRaise ValueError) SSkip)
  (SSeq rl_uzeros
  (SSeq rl_ucol
  (SSeq (SAssign 3 (EBin BSub (EVar 3) (EInt 1)))
  (SSeq (SAssign 5 (EZeros (EVar 3) true))
  (SSeq (SStore 5 (ENeg (EInt 1)) (EVar 1))
        rl_tail1))))))))).
Definition prog_rlevinson_ref : program := mkProgram "rlevinson" 2 [None; None] 14 rl_main.

Example prog_rlevinson_ref_is_generated : prog_rlevinson_ref = prog_rlevinson_gen0.
Proof. reflexivity. Qed.

(* ---------------------------------------------------------------- matrices in normal form *)
Section Mat.
Context {F : Type} {OF : Ops F}.
Local Open Scope F_scope.
Local Open Scope list_scope.

(* the n x m matrix of entries f i j *)
Definition mkmat (n m : nat) (f : nat -> nat -> F) : list (list F) := map (fun i => mk m (f i)) (seq 0 n).

Lemma mkmat_length n m f : length (mkmat n m f) = n.
Proof. unfold mkmat. rewrite map_length, seq_length. reflexivity. Qed.
Lemma nth_mkmat n m f i : (i < n)%nat -> nth i (mkmat n m f) [] = mk m (f i).
Proof.
  intros H. unfold mkmat.
  rewrite (nth_indep _ [] (mk m (f O))) by (rewrite map_length, seq_length; exact H).
  rewrite (map_nth (fun i => mk m (f i))), seq_nth by exact H. reflexivity.
Qed.
Lemma mkmat_ext n m f g : (forall i j, (i < n)%nat -> (j < m)%nat -> f i j = g i j) -> mkmat n m f = mkmat n m g.
Proof.
  intros H. unfold mkmat. apply map_ext_in. intros i Hi. apply in_seq in Hi. apply mk_ext. intros j Hj. apply H; lia.
Qed.
Lemma mat_ext (A B : list (list F)) : length A = length B -> (forall i, (i < length A)%nat -> nth i A [] = nth i B []) -> A = B.
Proof. intros Hl H. apply (nth_ext _ _ [] []); [exact Hl|exact H]. Qed.
Lemma mzeros_mkmat n m : mzeros n m = mkmat n m (fun _ _ => 0).
Proof. reflexivity. Qed.
Lemma mrow_mkmat n m f i : (i < n)%nat -> mrow (mkmat n m f) i = mk m (f i).
Proof. apply nth_mkmat. Qed.
Lemma mcol_mkmat n m f j : (j < m)%nat -> mcol (mkmat n m f) j = mk n (fun i => f i j).
Proof.
  intros H. unfold mcol, mkmat, mk. rewrite map_map. apply map_ext. intros i.
  change (map (f i) (seq 0 m)) with (mk m (f i)). apply nth_mk. exact H.
Qed.

Lemma mset_col_length (rows : list (list F)) j vs : length vs = length rows -> length (mset_col rows j vs) = length rows.
Proof.
  revert vs. induction rows as [|r rows IH]; intros vs H; [reflexivity|].
  destruct vs as [|v vs]; [cbn [length] in H; lia|]. cbn [mset_col length]. f_equal. apply IH. cbn [length] in H. lia.
Qed.
Lemma nth_mset_col (rows : list (list F)) j vs i : length vs = length rows -> (i < length rows)%nat ->
  nth i (mset_col rows j vs) [] = updF (nth i rows []) j (nthF vs i).
Proof.
  revert vs i. induction rows as [|r rows IH]; intros vs i H Hi; [cbn [length] in Hi; lia|].
  destruct vs as [|v vs]; [cbn [length] in H; lia|]. cbn [mset_col].
  destruct i; [reflexivity|]. cbn [nth]. rewrite nthF_consS. apply IH; cbn [length] in *; lia.
Qed.
Lemma updF_mk' n (h : nat -> F) j v : (j < n)%nat -> updF (mk n h) j v = mk n (fun c => if Nat.eqb c j then v else h c).
Proof.
  intros H. apply list_eq_nth.
  - rewrite updF_length, !mk_length. reflexivity.
  - intros c Hc. rewrite updF_length, mk_length in Hc. rewrite nthF_updF by (rewrite mk_length; exact H).
    rewrite !nth_mk by exact Hc. reflexivity.
Qed.
Lemma mset_col_mkmat n m f j vs : length vs = n -> (j < m)%nat ->
  mset_col (mkmat n m f) j vs = mkmat n m (fun i c => if Nat.eqb c j then nthF vs i else f i c).
Proof.
  intros Hv Hj. apply mat_ext.
  - rewrite mset_col_length by (rewrite mkmat_length; exact Hv). rewrite !mkmat_length. reflexivity.
  - intros i Hi. rewrite mset_col_length in Hi by (rewrite mkmat_length; exact Hv). rewrite mkmat_length in Hi.
    rewrite nth_mset_col by (rewrite mkmat_length; assumption). rewrite !nth_mkmat by exact Hi.
    apply updF_mk'. exact Hj.
Qed.

Lemma mupd_row_length (rows : list (list F)) i g : length (mupd_row rows i g) = length rows.
Proof. revert i. induction rows as [|r rows IH]; intros [|i]; cbn [mupd_row length]; auto. Qed.
Lemma nth_mupd_row (rows : list (list F)) i g i' : (i < length rows)%nat ->
  nth i' (mupd_row rows i g) [] = if Nat.eqb i' i then g (nth i' rows []) else nth i' rows [].
Proof.
  revert i i'. induction rows as [|r rows IH]; intros i i' H; [cbn [length] in H; lia|].
  destruct i, i'; cbn [mupd_row nth Nat.eqb]; try reflexivity. apply IH. cbn [length] in H. lia.
Qed.
Lemma mupd_row_mkmat n m f i j z : (i < n)%nat -> (j < m)%nat ->
  mupd_row (mkmat n m f) i (fun row => updF row j z) = mkmat n m (fun i' j' => if (Nat.eqb i' i && Nat.eqb j' j)%bool then z else f i' j').
Proof.
  intros Hi Hj. apply mat_ext.
  - rewrite mupd_row_length, !mkmat_length. reflexivity.
  - intros i' Hi'. rewrite mupd_row_length, mkmat_length in Hi'.
    rewrite nth_mupd_row by (rewrite mkmat_length; exact Hi). rewrite !nth_mkmat by exact Hi'.
    destruct (Nat.eqb i' i); cbn [andb]; [apply updF_mk'; exact Hj|reflexivity].
Qed.
End Mat.

(* ---------------------------------------------------------------- the step-down sweep as a function on (a, e, U) and the model's [stepdown] *)
Section Sweep.
Context {F : Type} {OF : Ops F}.
Variable feq : F -> F -> bool.
Local Open Scope F_scope.
Local Open Scope list_scope.

(* e[j0] = e' ;  U[:, k] = concatenate((conj(a'[-1::-1]), [0]*(p-k))) with len(a') = k+1 *)
Definition efun (e' : F) (j0 : nat) (g : nat -> F) : nat -> F := fun j => if Nat.eqb j j0 then e' else g j.
Definition colfun (a' : list F) (k : nat) (f : nat -> nat -> F) : nat -> nat -> F :=
  fun i c => if Nat.eqb c k then (if (i <=? k)%nat then conj (nthF a' (k - i)) else 0) else f i c.

(* n passes k = n, n-1, .., 1 of the loop body on (a, e = mk P g, U = mkmat (S P) (S P) f) *)
Fixpoint sweep (n : nat) (a : list F) (g : nat -> F) (f : nat -> nat -> F) : option (list F * (nat -> F) * (nat -> nat -> F)) :=
  match n with
  | O => Some (a, g, f)
  | S n' => match @levdown_chk F OF feq a (g (S n')) with
            | None => None
            | Some (a', e') => sweep n' a' (efun e' n' g) (colfun a' (S n') f)
            end
  end.

Lemma levdown_chk_length (a : list F) e a' e' : @levdown_chk F OF feq a e = Some (a', e') -> length a' = S (length (tl a) - 1).
Proof.
  unfold levdown_chk. destruct (negb (eqb (nthF a 0) 1)); [discriminate|]. destruct (eqb (lastc (tl a)) 1); [discriminate|].
  unfold levdown. intros H. inversion H. cbn [length]. rewrite mk_length. reflexivity.
Qed.

Lemma sweep_length n : forall a g f a' g' f', sweep n a g f = Some (a', g', f') -> length a = (n + 2)%nat -> length a' = 2%nat.
Proof.
  induction n; intros a g f a' g' f' H Hl.
  - cbn [sweep] in H. inversion H. subst. exact Hl.
  - cbn [sweep] in H. destruct (levdown_chk a (g (S n))) as [[a1 e1]|] eqn:E; [|discriminate].
    apply (IHn _ _ _ _ _ _ H). rewrite (levdown_chk_length _ _ _ _ E). destruct a; cbn [length tl] in *; lia.
Qed.

Definition stage_nth (stages : list (list F * F)) (k : nat) : list F * F := nth k stages ([], 0).
Lemma stage_a_nth stages m : stage_a stages (S m) = fst (stage_nth stages m).
Proof. unfold stage_a, stage_nth. replace (S m - 1)%nat with m by lia. reflexivity. Qed.
Lemma stage_e_nth stages m : stage_e stages (S m) = snd (stage_nth stages m).
Proof. unfold stage_e, stage_nth. replace (S m - 1)%nat with m by lia. reflexivity. Qed.
Lemma stage_nth_app_l (s1 s2 : list (list F * F)) k : (k < length s1)%nat -> stage_nth (s1 ++ s2) k = stage_nth s1 k.
Proof. intros H. unfold stage_nth. apply app_nth1. exact H. Qed.
Lemma stage_nth_app_last (s1 : list (list F * F)) x : stage_nth (s1 ++ [x]) (length s1) = x.
Proof. unfold stage_nth. rewrite app_nth2 by lia. rewrite Nat.sub_diag. reflexivity. Qed.
Lemma Umat_S stages i c : Umat stages i (S c) = if (i <=? S c)%nat then conj (nthF (fst (stage_nth stages c)) (S c - i)) else 0.
Proof. unfold Umat. cbn [Nat.eqb]. rewrite stage_a_nth. reflexivity. Qed.

(* [sweep] against the model's [stepdown]: same failures; on success the stages (from order 1 up: rev l) are what e and U hold *)
Lemma sweep_spec n : forall a g f,
  match @stepdown F OF feq n a (g n), sweep n a g f with
  | None, None => True
  | Some l, Some (a', g', f') =>
      length l = S n /\
      a' = fst (stage_nth (rev l) 0) /\
      (forall j, g' j = if (j <? n)%nat then snd (stage_nth (rev l) j) else g j) /\
      (forall i c, f' i c = if ((1 <=? c) && (c <=? n))%nat then Umat (rev l) i c else f i c) /\
      stage_nth (rev l) n = (a, g n)
  | _, _ => False
  end.
Proof.
  induction n; intros a g f.
  - cbn [stepdown sweep rev app length]. repeat split; intros; try reflexivity.
    destruct c; [reflexivity|]. cbn [Nat.leb andb]. reflexivity.
  - cbn [stepdown sweep]. destruct (levdown_chk a (g (S n))) as [[a1 e1]|] eqn:E; [|exact Logic.I].
    specialize (IHn a1 (efun e1 n g) (colfun a1 (S n) f)).
    assert (Eg : efun e1 n g n = e1) by (unfold efun; rewrite Nat.eqb_refl; reflexivity).
    rewrite Eg in IHn.
    destruct (@stepdown F OF feq n a1 e1) as [l|]; destruct (sweep n a1 (efun e1 n g) (colfun a1 (S n) f)) as [[[a' g'] f']|]; try exact IHn.
    destruct IHn as [Hl [Ha [Hg [Hf Hn]]]].
    assert (Hrl : length (rev l) = S n) by (rewrite rev_length; exact Hl).
    cbn [rev length]. repeat split.
    + rewrite Hl. reflexivity.
    + rewrite stage_nth_app_l by lia. exact Ha.
    + intros j. rewrite Hg. unfold efun.
      destruct (Nat.ltb_spec j n); destruct (Nat.ltb_spec j (S n)); try lia.
      * rewrite stage_nth_app_l by lia. reflexivity.
      * replace j with n by lia. rewrite Nat.eqb_refl. rewrite stage_nth_app_l by lia. rewrite Hn. reflexivity.
      * replace (Nat.eqb j n) with false by (symmetry; apply Nat.eqb_neq; lia). reflexivity.
    + intros i c. rewrite Hf. unfold colfun.
      destruct c as [|c]; [reflexivity|]. change (1 <=? S c)%nat with true. cbn [andb].
      destruct (Nat.leb_spec (S c) n); destruct (Nat.leb_spec (S c) (S n)); try lia.
      * rewrite !Umat_S. rewrite stage_nth_app_l by lia. reflexivity.
      * replace c with n by lia. rewrite Nat.eqb_refl. rewrite Umat_S. rewrite stage_nth_app_l by lia. rewrite Hn. reflexivity.
      * replace (Nat.eqb (S c) (S n)) with false by (symmetry; apply Nat.eqb_neq; lia). reflexivity.
    + rewrite <- Hrl. apply stage_nth_app_last.
Qed.
End Sweep.

(* ---------------------------------------------------------------- a [for] whose bounds evaluate to integers *)
Section ForRule.
Context {F : Type} {OF : Ops F}.
Variable feq : F -> F -> bool.
Variable stop : Z -> F -> F -> bool.
Notation store := (@store F).
Notation exec := (@exec F OF feq stop).

Lemma exec_for x lo hi step body (st : store) l h s :
  eval feq st lo = inl (VI l) -> eval feq st hi = inl (VI h) -> eval feq st step = inl (VI s) -> s <> 0%Z ->
  exec (SFor x lo hi step body) st =
  match for_loop (exec body) x (range_from l s (range_len l h s)) st with (st', CBreak) => (st', CNormal) | other => other end.
Proof.
  intros Hlo Hhi Hs Hn. cbn [LoopIR.exec]. rewrite Hlo, Hhi, Hs. cbn [bind asZ ok]. unfold range_vals.
  replace (s =? 0)%Z with false by (symmetry; apply Z.eqb_neq; exact Hn). reflexivity.
Qed.

Lemma for_loop_from' (f : store -> store * ctl) v (I : nat -> store -> Prop) lo n st :
  I O st ->
  (forall i s, (i < n)%nat -> I i s -> exists s', f (set s v (VI (lo + Z.of_nat i))) = (s', CNormal) /\ I (S i) s') ->
  exists s', for_loop f v (range_from lo 1 n) st = (s', CNormal) /\ I n s'.
Proof.
  intros H0 Hs. induction n.
  - exists st. split; [reflexivity|exact H0].
  - destruct IHn as [s1 [E1 I1]]. { intros i s Hi. apply Hs. lia. }
    destruct (Hs n s1 (Nat.lt_succ_diag_r n) I1) as [s2 [E2 I2]].
    exists s2. split; [|exact I2].
    replace (S n) with (n + 1)%nat by lia. rewrite range_from_app, for_loop_app, E1. cbn [range_from for_loop]. rewrite E2. reflexivity.
Qed.
End ForRule.

(* ---------------------------------------------------------------- the step-down loop of the program computes [sweep] *)
Section Loop1.
Context {F : Type} {OF : Ops F} {L : Laws OF}.
Variable feq : F -> F -> bool.
Variable stop : Z -> F -> F -> bool.
Local Open Scope F_scope.
Local Open Scope list_scope.
Notation value := (@value F).
Notation store := (@store F).
Notation exec := (@exec F OF feq stop).
Variables (t : bool) (ef : F) (P : nat).
Hypothesis P_pos : (1 <= P)%nat.

Ltac ev := cbn [LoopIR.exec LoopIR.eval eval_opt get set nth bind try asZ asArr asF asMat ok err fst snd arith arithZ fop compare cmpF cmpZ eqne truthy
                eval_list Z.opp].

(* the store during the step-down loop: p = P, U = mkmat f ((P+1) x (P+1)), e = mk P g *)
Definition st1 (ta : bool) (a : list F) (g : nat -> F) (f : nat -> nat -> F) (v6 v7 v8 : value) : store :=
  [VArr ta a; VF ef; VB t; VI (Z.of_nat P); VMat t (S P) (mkmat (S P) (S P) f); VArr true (mk P g); v6; v7; v8;
   VUnbound; VUnbound; VUnbound; VUnbound; VUnbound].

(* the column  concatenate((conj(a'[-1::-1]), [0]*(p-k))) *)
Definition colk (a' : list F) (k : nat) : list F :=
  map conj (mk (length a') (fun j => nthF a' (length a' - 1 - j))) ++ mk (Z.to_nat (Z.max 0 (Z.of_nat P - Z.of_nat k))) (fun _ => 0).
Lemma colk_length a' k : length a' = S k -> (k <= P)%nat -> length (colk a' k) = S P.
Proof. intros Hl Hk. unfold colk. rewrite app_length, map_length, !mk_length, Hl. lia. Qed.
Lemma colk_entry a' k i : length a' = S k -> (k <= P)%nat -> (i < S P)%nat ->
  nthF (colk a' k) i = if (i <=? k)%nat then conj (nthF a' (k - i)) else 0.
Proof.
  intros Hl Hk Hi. unfold colk. rewrite map_mk. destruct (Nat.leb_spec i k).
  - rewrite nthF_app_l by (rewrite mk_length; lia). rewrite nth_mk by lia. do 2 f_equal. lia.
  - rewrite nthF_app_r by (rewrite mk_length; lia). rewrite mk_length. rewrite nth_mk by lia. reflexivity.
Qed.

Lemma colk_ok ta a' g f k v7 v8 : length a' = S k -> (k <= P)%nat ->
  exec rl_colk (st1 ta a' g f (VI (Z.of_nat k)) v7 v8) = (st1 ta a' g (colfun a' k f) (VI (Z.of_nat k)) v7 v8, CNormal).
Proof.
  intros Hl Hk. unfold rl_colk, st1. ev.
  rewrite (norm_index_nat (S P) k) by lia. ev.
  change (-1 =? 0)%Z with false. cbv iota. rewrite slice_rev_all. ev.
  replace (Z.max 0 (Z.of_nat P - Z.of_nat k) <? 0)%Z with false by (symmetry; apply Z.ltb_ge; lia). ev.
  fold (colk a' k). rewrite colk_length, mkmat_length, Nat.eqb_refl by assumption. ev.
  rewrite mset_col_mkmat by (try apply colk_length; try assumption; lia).
  do 2 f_equal. unfold st1. do 4 f_equal. f_equal. apply mkmat_ext. intros i c Hi Hc. unfold colfun.
  destruct (Nat.eqb c k); [|reflexivity]. apply colk_entry; assumption.
Qed.

(* one pass of the step-down loop at k (1 <= k < P), a of order k+1 *)
Lemma body1_ok ta a g f k v7 v8 : length a = (k + 2)%nat -> (1 <= k)%nat -> (k < P)%nat ->
  exec rl_body1 (st1 ta a g f (VI (Z.of_nat k)) v7 v8) =
  match @levdown_chk F OF feq a (g k) with
  | None => (st1 ta a g f (VI (Z.of_nat k)) v7 v8, CErr ValueError)
  | Some (a', e') => (st1 false a' (efun e' (k - 1) g) (colfun a' k f) (VI (Z.of_nat k)) (VArr false a') (VF e'), CNormal)
  end.
Proof.
  intros Hl Hk1 HkP.
  assert (Ea : eval_oargs feq (st1 ta a g f (VI (Z.of_nat k)) v7 v8) [Some (EVar 0); Some (EIndex (EVar 5) (EVar 6))]
               = inl [Some (VArr ta a); Some (VF (g k))]).
  { unfold st1. cbn [eval_oargs eval get nth bind ok asArr asZ fst snd]. rewrite mk_length. rewrite norm_index_nat by lia.
    cbn [bind ok]. rewrite nth_mk by lia. reflexivity. }
  pose proof (scall_run feq stop [7%nat; 8%nat] prog_levdown_ref _ _ _ Ea (le_n 2)) as H. fold rl_call in H.
  pose proof (levdown_ir_chk feq stop ta a (Some (g k))) as HL. cbn [option_map] in HL. rewrite HL in H by lia. clear HL.
  destruct (levdown_chk a (g k)) as [[a' e']|] eqn:E.
  - specialize (H eq_refl).
    assert (Hl' : length a' = S k).
    { rewrite (levdown_chk_length feq _ _ _ _ E). destruct a; cbn [length tl] in *; lia. }
    unfold rl_body1.
    assert (H2 : exec (SSeq rl_call rl_bind) (st1 ta a g f (VI (Z.of_nat k)) v7 v8) =
                 (st1 false a' (efun e' (k - 1) g) f (VI (Z.of_nat k)) (VArr false a') (VF e'), CNormal)).
    { rewrite (exec_seq feq stop _ _ _ _ H). unfold rl_bind, st1. cbn [set_all set]. ev.
      rewrite mk_length. replace (Z.of_nat k - 1)%Z with (Z.of_nat (k - 1)) by lia. rewrite norm_index_nat by lia. ev.
      rewrite updF_mk' by lia. reflexivity. }
    rewrite (exec_seq feq stop _ _ _ _ H2). apply colk_ok; [exact Hl'|lia].
  - unfold rl_body1. apply exec_seq_stop; [|discriminate]. apply exec_seq_stop; [|discriminate]. exact H.
Qed.

(* the iterations k = n, n-1, .., 1 *)
Lemma loop1_ok n : forall ta a g f v6 v7 v8, length a = (n + 2)%nat -> (n < P)%nat ->
  exists s',
    for_loop (exec rl_body1) 6 (range_from (Z.of_nat n) (-1) n) (st1 ta a g f v6 v7 v8) =
      (s', match sweep feq n a g f with None => CErr ValueError | Some _ => CNormal end)
    /\ match sweep feq n a g f with
       | None => True
       | Some (a', g', f') => exists ta' v6' v7' v8', s' = st1 ta' a' g' f' v6' v7' v8'
       end.
Proof.
  induction n; intros ta a g f v6 v7 v8 Hl Hn.
  - cbn [range_from for_loop sweep]. eexists; split; [reflexivity|]. exists ta, v6, v7, v8; reflexivity.
  - cbn [range_from for_loop sweep].
    replace (set (st1 ta a g f v6 v7 v8) 6 (VI (Z.of_nat (S n)))) with (st1 ta a g f (VI (Z.of_nat (S n))) v7 v8) by reflexivity.
    rewrite body1_ok by lia.
    destruct (levdown_chk a (g (S n))) as [[a' e']|] eqn:E.
    + replace (S n - 1)%nat with n by lia. replace (Z.of_nat (S n) + -1)%Z with (Z.of_nat n) by lia.
      apply IHn; [|lia]. rewrite (levdown_chk_length feq _ _ _ _ E). destruct a; cbn [length tl] in *; lia.
    + eexists; split; [reflexivity|exact Logic.I].
Qed.

Lemma for1_ok ta a g f v6 v7 v8 : length a = S P ->
  exists s',
    exec rl_loop1 (st1 ta a g f v6 v7 v8) =
      (s', match sweep feq (P - 1) a g f with None => CErr ValueError | Some _ => CNormal end)
    /\ match sweep feq (P - 1) a g f with
       | None => True
       | Some (a', g', f') => exists ta' v6' v7' v8', s' = st1 ta' a' g' f' v6' v7' v8'
       end.
Proof.
  intros Hl.
  destruct (loop1_ok (P - 1) ta a g f v6 v7 v8) as [s' [E HS]]; [lia|lia|].
  exists s'. split; [|exact HS].
  unfold rl_loop1. rewrite (exec_for feq stop _ _ _ _ _ _ (Z.of_nat P - 1) 0 (-1)); try reflexivity; [|discriminate].
  rewrite range_len_down by lia.
  replace (Z.to_nat (Z.of_nat P - 1 - 0)) with (P - 1)%nat by lia. replace (Z.of_nat P - 1)%Z with (Z.of_nat (P - 1)) by lia.
  rewrite E. destruct (sweep feq (P - 1) a g f); reflexivity.
Qed.

(* ---- the statements before the step-down loop *)
Lemma norm_index_m1 n : (0 < n)%nat -> norm_index n (-1) = inl (n - 1)%nat.
Proof.
  intros H. unfold norm_index. change (-1 <? 0)%Z with true. cbv iota.
  replace ((0 <=? -1 + Z.of_nat n) && (-1 + Z.of_nat n <? Z.of_nat n))%Z with true
    by (symmetry; apply andb_true_iff; split; [apply Z.leb_le|apply Z.ltb_lt]; lia).
  unfold ok. f_equal. lia.
Qed.

Definition st0 (a : list F) (v2 v3 v4 v5 : value) : store :=
  [VArr t a; VF ef; v2; v3; v4; v5; VUnbound; VUnbound; VUnbound; VUnbound; VUnbound; VUnbound; VUnbound; VUnbound].

Lemma uzeros_ok a : 
  exec rl_uzeros (st0 a (VB t) (VI (Z.of_nat (S P))) VUnbound VUnbound) =
  (st0 a (VB t) (VI (Z.of_nat (S P))) (VMat t (S P) (mkmat (S P) (S P) (fun _ _ => 0))) VUnbound, CNormal).
Proof.
  assert (E : ((Z.of_nat (S P) <? 0) || (Z.of_nat (S P) <? 0))%Z = false) by (apply orb_false_iff; split; apply Z.ltb_ge; lia).
  destruct t; unfold rl_uzeros, st0; cbn [LoopIR.exec eval get set nth bind try ok truthy Bool.eqb asZ]; rewrite E, Nat2Z.id; reflexivity.
Qed.

Lemma ucol_ok a : length a = S P ->
  exec rl_ucol (st0 a (VB t) (VI (Z.of_nat (S P))) (VMat t (S P) (mkmat (S P) (S P) (fun _ _ => 0))) VUnbound) =
  (st0 a (VB t) (VI (Z.of_nat (S P))) (VMat t (S P) (mkmat (S P) (S P) (colfun a P (fun _ _ => 0)))) VUnbound, CNormal).
Proof.
  intros Hl. unfold rl_ucol, st0. ev.
  rewrite (norm_index_ok (S P) (Z.of_nat (S P) - 1)) by lia. ev.
  change (-1 =? 0)%Z with false. cbv iota. rewrite slice_rev_all. ev.
  rewrite map_length, mk_length, mkmat_length, Hl, Nat.eqb_refl. ev.
  rewrite mset_col_mkmat by (rewrite ?map_length, ?mk_length; lia).
  do 2 f_equal. do 4 f_equal. f_equal. apply mkmat_ext. intros i c Hi Hc. unfold colfun.
  replace (Z.to_nat (Z.of_nat (S P) - 1)) with P by lia. destruct (Nat.eqb c P); [|reflexivity].
  rewrite map_mk, nth_mk by lia. replace (i <=? P)%nat with true by (symmetry; apply Nat.leb_le; lia). do 2 f_equal. lia.
Qed.

Lemma pre_ok a : length a = S P -> feq (nthF a 0) 1 = true ->
  exec rl_main (st0 a VUnbound VUnbound VUnbound VUnbound) =
  exec rl_tail1 (st1 t a (efun ef (P - 1) (fun _ => 0)) (colfun a P (fun _ _ => 0)) VUnbound VUnbound VUnbound).
Proof.
  intros Hl H1. unfold rl_main.
  erewrite exec_seq; [|unfold st0; ev; reflexivity].
  erewrite exec_seq; [|ev; reflexivity].
  erewrite exec_seq; [|ev; rewrite Hl, (norm_index_ok (S P) 0) by lia; ev; change (Z.to_nat 0) with 0%nat; rewrite ofZ_1, H1; reflexivity].
  erewrite exec_seq; [|ev; rewrite Hl; reflexivity].
  erewrite exec_seq; [|ev; replace (Z.of_nat (S P) <? 2)%Z with false by (symmetry; apply Z.ltb_ge; lia); reflexivity].
  fold (st0 a (VB t) (VI (Z.of_nat (S P))) VUnbound VUnbound).
  rewrite (exec_seq feq stop _ _ _ _ (uzeros_ok a)).
  rewrite (exec_seq feq stop _ _ _ _ (ucol_ok a Hl)).
  unfold st0.
  erewrite exec_seq; [|ev; replace (Z.of_nat (S P) - 1)%Z with (Z.of_nat P) by lia; reflexivity].
  erewrite exec_seq; [|ev; replace (Z.of_nat P <? 0)%Z with false by (symmetry; apply Z.ltb_ge; lia); rewrite Nat2Z.id; reflexivity].
  erewrite exec_seq; [|ev; rewrite mk_length, norm_index_m1 by lia; ev; rewrite updF_mk' by lia; reflexivity].
  reflexivity.
Qed.

(* ---- after the step-down loop: e0 and U[0, 0] = 1 *)
Definition st2 (ta : bool) (a E : list F) (M : list (list F)) (v6 v7 v8 v9 v10 v11 v12 v13 : value) : store :=
  [VArr ta a; VF ef; VB t; VI (Z.of_nat P); VMat t (S P) M; VArr true E; v6; v7; v8; v9; v10; v11; v12; v13].

Lemma mid_ok ta a g f v6 v7 v8 rest : length a = 2%nat ->
  exec (SSeq rl_e0 (SSeq rl_u00 rest)) (st1 ta a g f v6 v7 v8) =
  exec rest (st2 ta a (mk P g) (mkmat (S P) (S P) (fun i j => if (Nat.eqb i 0 && Nat.eqb j 0)%bool then 1 else f i j)) v6 v7 v8
                 (VF (g O / (1 - nrm2 (nthF a 1)))) VUnbound VUnbound VUnbound VUnbound).
Proof.
  intros Hl. unfold st1.
  erewrite exec_seq.
  2:{ unfold rl_e0. ev. rewrite mk_length, Hl. rewrite (norm_index_ok P 0), (norm_index_ok 2 1) by lia. ev.
      change (Z.to_nat 0) with 0%nat. change (Z.to_nat 1) with 1%nat. rewrite nth_mk by lia. rewrite lit_1. reflexivity. }
  erewrite exec_seq.
  2:{ unfold rl_u00. ev. rewrite mkmat_length. rewrite (norm_index_ok (S P) 0) by lia. ev. change (Z.to_nat 0) with 0%nat.
      rewrite mupd_row_mkmat by lia. rewrite ofZ_1. reflexivity. }
  reflexivity.
Qed.
End Loop1.

(* ---------------------------------------------------------------- the R recursion: the store holds the model's U, e, kr *)
Section Loop2.
Context {F : Type} {OF : Ops F} {L : Laws OF}.
Variable feq : F -> F -> bool.
Variable stop : Z -> F -> F -> bool.
Local Open Scope F_scope.
Local Open Scope list_scope.
Add Field FFrlall : (fth (O:=OF)).
Notation value := (@value F).
Notation store := (@store F).
Notation exec := (@exec F OF feq stop).
Variables (t : bool) (ef : F) (P : nat).
Hypothesis P_pos : (1 <= P)%nat.
Variable stages : list (list F * F).
Hypothesis Hst : length stages = P.
Variables (ta : bool) (a1 : list F) (v7 v8 : value) (e0 : F).

Ltac ev := cbn [LoopIR.exec LoopIR.eval eval_opt get set nth bind try asZ asArr asF asMat ok err fst snd arith arithZ fop compare cmpF cmpZ eqne truthy
                eval_list Z.opp].

Lemma sum_left_sumL' (l : list F) : sum_left l = sumL l.
Proof.
  unfold sum_left. assert (G : forall a, fold_left add l a = a + sumL l).
  { induction l as [|x l IH]; intros a; cbn [fold_left sumL]; [ring|]. rewrite IH. ring. }
  rewrite G. ring.
Qed.

Lemma nthF_map_snd (l : list (list F * F)) j : nthF (map snd l) j = stage_e l (S j).
Proof.
  unfold nthF, stage_e. replace (S j - 1)%nat with j by lia.
  change (@zero F OF) with (snd (@nil F, @zero F OF)) at 1. apply map_nth.
Qed.

(* U[k-1::-1, k] on n rows (1 <= k <= n): the entries k-1, .., 0 *)
Lemma colslice_rev (h : nat -> F) n k : (1 <= k)%nat -> (k <= n)%nat ->
  map (fun p => h (Z.to_nat p)) (slice_positions n (Some (Z.of_nat k - 1)%Z) None (-1)) = mk k (fun j => h (k - 1 - j)%nat).
Proof.
  intros H1 H2. unfold slice_positions. change (0 <? -1)%Z with false. cbv iota.
  replace (Z.of_nat k - 1 <? 0)%Z with false by (symmetry; apply Z.ltb_ge; lia).
  assert (E : Z.max (-1) (Z.min (Z.of_nat k - 1) (Z.of_nat n - 1)) = (Z.of_nat (0 + k) - 1)%Z) by lia. rewrite E.
  rewrite range_len_down by lia. replace (Z.to_nat (Z.of_nat (0 + k) - 1 - -1)) with k by lia.
  rewrite (map_range_from_down h 0 k). apply mk_ext. intros j _. f_equal.
Qed.

Definition stR (Rv : list F) (v6 v13 : value) : store :=
  st2 t ef P ta a1 (map snd stages) (mkmat (S P) (S P) (Umat stages)) v6 v7 v8 (VF e0) (VArr t (rlev_kr stages)) (VArr false Rv) (VF e0) v13.

(* one pass at k = S i, R = [R_1 .. R_k] *)
Lemma body2_ok i Rp v13 : length Rp = S i -> (S i < P)%nat ->
  exec rl_body2 (stR Rp (VI (1 + Z.of_nat i)) v13) =
  (stR (Rp ++ [rlev_next stages (e0 :: Rp) (S i)]) (VI (1 + Z.of_nat i)) (VF (rlev_next stages (e0 :: Rp) (S i))), CNormal).
Proof.
  intros Hl Hi. replace (1 + Z.of_nat i)%Z with (Z.of_nat (S i)) by lia. set (k := S i) in *.
  unfold rl_body2.
  assert (Hr : exec rl_r (stR Rp (VI (Z.of_nat k)) v13) = (stR Rp (VI (Z.of_nat k)) (VF (rlev_next stages (e0 :: Rp) k)), CNormal)).
  { unfold rl_r, stR, st2. ev.
    rewrite (norm_index_nat (S P) k) by lia. ev.
    change (-1 =? 0)%Z with false. cbv iota. rewrite mkmat_length.
    rewrite (colslice_rev (nthF (mcol (mkmat (S P) (S P) (Umat stages)) k)) (S P) k) by lia.
    rewrite slice_rev_all. ev. rewrite map_length, !mk_length, Hl. fold k. rewrite Nat.eqb_refl. ev.
    unfold rlev_kr at 2. rewrite mk_length, map_length, Hst.
    rewrite (norm_index_nat P k) by lia. ev.
    replace (Z.of_nat k - 1)%Z with (Z.of_nat i) by lia. rewrite (norm_index_nat P i) by lia. ev.
    rewrite nthF_map_snd. fold k.
    do 2 f_equal. unfold stR, st2. do 13 f_equal. f_equal. unfold rlev_next.
    rewrite sum_left_sumL'. f_equal. do 2 f_equal.
    rewrite map_mk, map2_mk. apply mk_ext. intros j Hj.
    rewrite mcol_mkmat by lia. rewrite nth_mk by lia.
    replace (k - j)%nat with (S (k - 1 - j)) by lia. rewrite nthF_consS. reflexivity. }
  rewrite (exec_seq feq stop _ _ _ _ Hr). unfold stR, st2. ev.
  replace (Z.of_nat (length Rp) <? 0)%Z with false by (symmetry; apply Z.ltb_ge; lia).
  replace ((0 <=? Z.of_nat (length Rp)) && (Z.of_nat (length Rp) <=? Z.of_nat (length Rp)))%Z with true
    by (symmetry; apply andb_true_iff; split; apply Z.leb_le; lia).
  ev. rewrite Nat2Z.id, firstn_all, skipn_all. reflexivity.
Qed.

Lemma rlev_R_length n : length (rlev_R stages e0 n) = (n + 2)%nat.
Proof. induction n; cbn [rlev_R]; [reflexivity|]. rewrite app_length, IHn. cbn [length]. lia. Qed.
Lemma rlev_R_head n : rlev_R stages e0 n = e0 :: tl (rlev_R stages e0 n).
Proof.
  induction n; cbn [rlev_R]; [reflexivity|]. rewrite IHn at 1. cbn [app tl]. f_equal.
  pose proof (rlev_R_length n) as Hl. destruct (rlev_R stages e0 n); [cbn [length] in Hl; lia|reflexivity].
Qed.
Lemma rlev_R_tl_S n : tl (rlev_R stages e0 (S n)) = tl (rlev_R stages e0 n) ++ [rlev_next stages (e0 :: tl (rlev_R stages e0 n)) (S n)].
Proof.
  cbn [rlev_R]. rewrite <- rlev_R_head.
  pose proof (rlev_R_length n) as Hl. destruct (rlev_R stages e0 n); [cbn [length] in Hl; lia|reflexivity].
Qed.

(* kr = conj(U[0, 1:]) ... the recursion ... return R, U, kr, e *)
Lemma tail2_ok v6 :
  exists s',
  exec rl_tail2 (st2 t ef P ta a1 (map snd stages) (mkmat (S P) (S P) (Umat stages)) v6 v7 v8 (VF e0) VUnbound VUnbound VUnbound VUnbound) =
  (s', CRet [VArr false (rlev_R stages e0 (P - 1)); VMat t (S P) (mkmat (S P) (S P) (Umat stages)); VArr t (rlev_kr stages); VArr true (map snd stages)]).
Proof.
  unfold rl_tail2, st2.
  erewrite exec_seq.
  2:{ unfold rl_kr. ev. rewrite mkmat_length. rewrite (norm_index_ok (S P) 0) by lia. ev.
      change (1 =? 0)%Z with false. cbv iota. change (Z.to_nat 0) with 0%nat. rewrite mrow_mkmat by lia.
      pose proof (tl_slice (mk (S P) (Umat stages 0))) as T. rewrite mk_length in T. rewrite T by (rewrite mk_S; discriminate).
      rewrite mk_S. cbn [tl]. ev. rewrite map_mk.
      replace (mk P (fun j => conj (Umat stages 0 (S j)))) with (rlev_kr stages) by (unfold rlev_kr; rewrite Hst; reflexivity).
      reflexivity. }
  erewrite exec_seq; [|ev; reflexivity].
  erewrite exec_seq; [|ev; change (1 <? 0)%Z with false; cbv iota; change (mk (Z.to_nat 1) (fun _ : nat => 0)) with [@zero F OF]; reflexivity].
  erewrite exec_seq; [|ev; reflexivity].
  erewrite exec_seq; [|ev; reflexivity].
  erewrite exec_seq.
  2:{ unfold rl_r0. ev. cbn [length]. rewrite (norm_index_ok 1 0) by lia. ev. rewrite mkmat_length.
      rewrite (norm_index_ok (S P) 0), (norm_index_ok (S P) 1) by lia. ev.
      change (Z.to_nat 0) with 0%nat. change (Z.to_nat 1) with 1%nat. rewrite mrow_mkmat by lia. rewrite nth_mk by lia.
      cbn [updF]. reflexivity. }
  fold (st2 t ef P ta a1 (map snd stages) (mkmat (S P) (S P) (Umat stages)) (VI 1) v7 v8 (VF e0) (VArr t (rlev_kr stages))
            (VArr false [- conj (Umat stages 0 1) * e0]) (VF e0) VUnbound).
  change [- conj (Umat stages 0 1) * e0] with (tl (rlev_R stages e0 0)).
  fold (stR (tl (rlev_R stages e0 0)) (VI 1) VUnbound).
  (* the loop *)
  destruct (for_loop_from' (LoopIR.exec feq stop rl_body2) 6
              (fun i s => exists v6 v13, s = stR (tl (rlev_R stages e0 i)) v6 v13) 1 (P - 1) (stR (tl (rlev_R stages e0 0)) (VI 1) VUnbound))
    as [s' [El [v6' [v13' Es]]]].
  { exists (VI 1), VUnbound. reflexivity. }
  { intros i s Hi [v6' [v13' ->]].
    replace (set (stR (tl (rlev_R stages e0 i)) v6' v13') 6 (VI (1 + Z.of_nat i))) with (stR (tl (rlev_R stages e0 i)) (VI (1 + Z.of_nat i)) v13') by reflexivity.
    rewrite body2_ok.
    - eexists. split; [reflexivity|]. rewrite <- rlev_R_tl_S. eexists. eexists. reflexivity.
    - pose proof (rlev_R_length i) as Hl. destruct (rlev_R stages e0 i); cbn [length tl] in *; lia.
    - lia. }
  subst s'.
  erewrite exec_seq.
  2:{ unfold rl_loop2. rewrite (exec_for feq stop _ _ _ _ _ _ 1 (Z.of_nat P) 1); try reflexivity; [|discriminate].
      rewrite range_len_up by lia. replace (Z.to_nat (Z.of_nat P - 1)) with (P - 1)%nat by lia. rewrite El. reflexivity. }
  unfold rl_ret, stR, st2.
  erewrite exec_seq.
  2:{ ev. change (0 <? 0)%Z with false. cbv iota. change (0 <=? 0)%Z with true. cbn [andb].
      match goal with |- context [(0 <=? ?n)%Z] => replace (0 <=? n)%Z with true by (symmetry; apply Z.leb_le; lia) end.
      change (Z.to_nat 0) with 0%nat. cbn [firstn skipn app]. rewrite <- rlev_R_head. reflexivity. }
  eexists. ev. reflexivity.
Qed.
End Loop2.

(* ---------------------------------------------------------------- the whole sweep from the initial e and U: the model's stages *)
Section Final.
Context {F : Type} {OF : Ops F}.
Variable feq : F -> F -> bool.
Local Open Scope F_scope.
Local Open Scope list_scope.

Lemma final_spec (P : nat) (a : list F) (ef : F) : (1 <= P)%nat ->
  match @stepdown F OF feq (P - 1) a ef, sweep feq (P - 1) a (efun ef (P - 1) (fun _ => 0)) (colfun a P (fun _ _ => 0)) with
  | None, None => True
  | Some l, Some (a', g', f') =>
      length (rev l) = P /\
      a' = stage_a (rev l) 1 /\
      g' O = stage_e (rev l) 1 /\
      mk P g' = map snd (rev l) /\
      mkmat (S P) (S P) (fun i j => if (Nat.eqb i 0 && Nat.eqb j 0)%bool then 1 else f' i j) = mkmat (S P) (S P) (Umat (rev l))
  | _, _ => False
  end.
Proof.
  intros HP.
  pose proof (sweep_spec feq (P - 1) a (efun ef (P - 1) (fun _ => 0)) (colfun a P (fun _ _ => 0))) as H.
  assert (Eg : efun ef (P - 1) (fun _ => 0) (P - 1)%nat = ef) by (unfold efun; rewrite Nat.eqb_refl; reflexivity).
  rewrite Eg in H.
  destruct (@stepdown F OF feq (P - 1) a ef) as [l|];
    destruct (sweep feq (P - 1) a (efun ef (P - 1) (fun _ => 0)) (colfun a P (fun _ _ => 0))) as [[[a' g'] f']|]; try exact H.
  destruct H as [Hl [Ha [Hg [Hf Hn]]]].
  assert (Hrl : length (rev l) = P) by (rewrite rev_length, Hl; lia).
  assert (Hgj : forall j, (j < P)%nat -> g' j = snd (stage_nth (rev l) j)).
  { intros j Hj. rewrite Hg. destruct (Nat.ltb_spec j (P - 1)); [reflexivity|].
    replace j with (P - 1)%nat by lia. rewrite Hn, Eg. reflexivity. }
  repeat split.
  - exact Hrl.
  - rewrite stage_a_nth. exact Ha.
  - rewrite stage_e_nth. apply Hgj. lia.
  - apply list_eq_nth.
    + rewrite mk_length, map_length, Hrl. reflexivity.
    + intros j Hj. rewrite mk_length in Hj. rewrite nth_mk by exact Hj. rewrite Hgj by exact Hj.
      unfold nthF, stage_nth. exact (eq_sym (map_nth snd (rev l) ([], 0) j)).
  - apply mkmat_ext. intros i c Hi Hc. rewrite Hf. destruct c as [|c].
    + rewrite Nat.eqb_refl, andb_true_r. cbn [Nat.leb andb]. unfold Umat, colfun.
      replace (Nat.eqb 0 P) with false by (symmetry; apply Nat.eqb_neq; lia). change (Nat.eqb 0 0) with true. cbv iota.
      destruct (Nat.eqb i 0); reflexivity.
    + rewrite andb_false_r. change (1 <=? S c)%nat with true. cbn [andb].
      destruct (Nat.leb_spec (S c) (P - 1)); [reflexivity|].
      assert (c = (P - 1)%nat) by lia. subst c. unfold colfun. replace (S (P - 1)) with P by lia. rewrite Nat.eqb_refl.
      replace P with (S (P - 1)) at 3 by lia. rewrite Umat_S, Hn. cbn [fst]. replace (S (P - 1)) with P by lia. reflexivity.
Qed.
End Final.

(* ---------------------------------------------------------------- run = model, all inputs *)
Section Main.
Context {F : Type} {OF : Ops F} {L : Laws OF}.
Variable feq : F -> F -> bool.
Variable stop : Z -> F -> F -> bool.
Local Open Scope F_scope.
Local Open Scope list_scope.
Notation value := (@value F).
Notation store := (@store F).
Notation exec := (@exec F OF feq stop).

(* the n x n matrix U of the code: every entry [Umat stages i m] *)
Definition Umatrix (n : nat) (stages : list (list F * F)) : list (list F) := mkmat n n (Umat stages).

(* what rlevinson(a, efinal) does, in terms of the hand model (its [Eqb] instance is the code's ==) *)
Definition rlev_outcome (t : bool) (a : list F) (ef : F) : @outcome F :=
  match a with
  | [] => OErr IndexError
  | a0 :: _ =>
      if negb (feq a0 1) then OErr AssertionError
      else match @rlevinson F OF feq a ef with
           | None => OErr ValueError
           | Some (R, stages, kr, es) =>
               ORet [VArr false R; VMat t (length a) (Umatrix (length a) stages); VArr t kr; VArr true es]
           end
  end.

Lemma rlevinson_ir_long t (a0 a1 : F) (r : list F) (ef : F) : feq a0 1 = true ->
  run feq stop prog_rlevinson_ref [Some (VArr t (a0 :: a1 :: r)); Some (VF ef)] = rlev_outcome t (a0 :: a1 :: r) ef.
Proof.
  intros H1. set (P := S (length r)).
  assert (HP : (1 <= P)%nat) by (unfold P; lia).
  remember (a0 :: a1 :: r) as a eqn:Ea.
  assert (Hl : length a = S P) by (subst a; reflexivity).
  assert (H0 : nthF a 0 = a0) by (subst a; reflexivity).
  assert (Hout : rlev_outcome t a ef =
                 match @stepdown F OF feq (P - 1) a ef with
                 | None => OErr ValueError
                 | Some l => let stages := rev l in
                             let e0 := stage_e stages 1 / (1 - nrm2 (nthF (stage_a stages 1) 1)) in
                             ORet [VArr false (rlev_R stages e0 (P - 1)); VMat t (S P) (Umatrix (S P) stages); VArr t (rlev_kr stages);
                                   VArr true (map snd stages)]
                 end).
  { unfold rlev_outcome. rewrite Ea. cbv iota. rewrite <- Ea. rewrite H1. cbn [negb]. unfold rlevinson.
    change (eqb (nthF a 0) 1) with (feq (nthF a 0) 1). rewrite H0, H1. cbn [negb].
    replace (length a <? 2)%nat with false by (symmetry; apply Nat.ltb_ge; lia).
    rewrite Hl. replace (S P - 1)%nat with P by lia.
    destruct (@stepdown F OF feq (P - 1) a ef) as [l|]; reflexivity. }
  rewrite Hout. clear Hout.
  unfold run, prog_rlevinson_ref. cbn [p_defaults p_body p_nslots p_nparams Nat.sub bind_args bind ok app repeat].
  fold (st0 t ef a VUnbound VUnbound VUnbound VUnbound).
  rewrite (pre_ok feq stop t ef P HP a Hl); [|rewrite H0; exact H1].
  unfold rl_tail1.
  destruct (for1_ok feq stop t ef P HP t a (efun ef (P - 1) (fun _ => 0)) (colfun a P (fun _ _ => 0)) VUnbound VUnbound VUnbound Hl) as [s' [E HS]].
  pose proof (final_spec feq P a ef HP) as HF.
  pose proof (sweep_length feq (P - 1) a (efun ef (P - 1) (fun _ => 0)) (colfun a P (fun _ _ => 0))) as HL2.
  destruct (@stepdown F OF feq (P - 1) a ef) as [l|];
    destruct (sweep feq (P - 1) a (efun ef (P - 1) (fun _ => 0)) (colfun a P (fun _ _ => 0))) as [[[a' g'] f']|]; try contradiction.
  - destruct HS as [ta' [v6' [v7' [v8' ->]]]]. destruct HF as [Hrl [Ha [Hg [HE HM]]]].
    specialize (HL2 _ _ _ eq_refl). 
    rewrite (exec_seq feq stop _ _ _ _ E).
    rewrite (mid_ok feq stop t ef P HP) by (apply HL2; lia).
    rewrite HE, HM, Hg, Ha.
    destruct (tail2_ok feq stop t ef P HP (rev l) Hrl ta' (stage_a (rev l) 1) v7' v8'
                (stage_e (rev l) 1 / (1 - nrm2 (nthF (stage_a (rev l) 1) 1))) v6') as [s2 E2].
    rewrite E2. reflexivity.
  - rewrite (exec_seq_stop feq stop _ _ _ _ _ E) by discriminate. reflexivity.
Qed.

Theorem rlevinson_ir_run t (a : list F) (ef : F) :
  run feq stop prog_rlevinson_ref [Some (VArr t a); Some (VF ef)] = rlev_outcome t a ef.
Proof.
  destruct a as [|a0 [|a1 r]].
  - rewrite prog_rlevinson_ref_is_generated. apply rlevinson_ir_empty.
  - rewrite prog_rlevinson_ref_is_generated. unfold rlev_outcome. destruct (feq a0 1) eqn:H1; cbn [negb].
    + destruct (rlevinson_ir_short feq stop t a0 ef H1) as [-> ->]. reflexivity.
    + destruct (rlevinson_ir_assert feq stop t a0 [] ef H1) as [-> _]. reflexivity.
  - destruct (feq a0 1) eqn:H1.
    + apply rlevinson_ir_long. exact H1.
    + rewrite prog_rlevinson_ref_is_generated. unfold rlev_outcome. rewrite H1. cbn [negb].
      destruct (rlevinson_ir_assert feq stop t a0 (a1 :: r) ef H1) as [-> _]. reflexivity.
Qed.
End Main.

(* ---------------------------------------------------------------- the boolean of the exact evaluation tie is true on every input *)
Section TieAll.
Context {F : Type} {OF : Ops F} {L : Laws OF}.
Variable feq : F -> F -> bool.
Hypothesis feq_refl : forall a, feq a a = true.
Local Open Scope F_scope.
Local Open Scope list_scope.

Lemma meq_mkmat n m (f : nat -> nat -> F) : meq feq n m (mkmat n m f) f = true.
Proof.
  unfold meq. rewrite mkmat_length, Nat.eqb_refl. cbn [andb]. apply forallb_forall. intros i Hi. apply in_seq in Hi.
  cbv zeta. rewrite nth_mkmat by lia. rewrite mk_length, Nat.eqb_refl. cbn [andb]. apply forallb_forall. intros j Hj. apply in_seq in Hj.
  rewrite nth_mk by lia. apply feq_refl.
Qed.

Theorem rlevinson_ir_tie (t : bool) (a : list F) (ef : F) : tie_rlevinson feq prog_rlevinson_ref t a ef = true.
Proof.
  unfold tie_rlevinson. rewrite (rlevinson_ir_run feq (@nostop F)). unfold rlev_outcome.
  destruct a as [|a0 r].
  - unfold rlevinson. destruct (negb (eqb (nthF [] 0) 1)); reflexivity.
  - destruct (feq a0 1) eqn:H1; cbn [negb].
    + destruct (@rlevinson F OF feq (a0 :: r) ef) as [[[[R st] kr] es]|]; [|reflexivity].
      unfold Umatrix. rewrite !(leq_refl' feq feq_refl), Nat.eqb_refl, meq_mkmat. destruct t; reflexivity.
    + unfold rlevinson. change (eqb (nthF (a0 :: r) 0) 1) with (feq a0 1). rewrite H1. reflexivity.
Qed.
End TieAll.

(* ---------------------------------------------------------------- the program text the theorems of this file are about *)
(* The same verbatim translator output as in Proofs/LoopIRRlevinson.v, kept here too so that this file is the proof file the check compares the
   regenerated text with (tools/props/_loopir.py, THEOREMS['rlevinson']); inside a module: the short name [prog_rlevinson_gen0] keeps
   denoting the definition of Proofs/LoopIRRlevinson.v, and the two are equal by reflexivity. *)
Module Gen.
(* BEGIN GENERATED rlevinson (verbatim output of tools/props/_loopir.py for spectrum.levinson.rlevinson) *)
(* rlevinson: slots 0=a 1=efinal 2=realdata 3=p 4=U 5=e 6=k 7=levdown@ret0#7 8=levdown@ret1#8 9=e0 10=kr 11=R 12=R0 13=r *)
Definition prog_rlevinson_gen0 : program := mkProgram "rlevinson" 2 [None; None] 14
(SSeq (SAssign 0 (ECopy (EVar 0)))
(SSeq (SAssign 2 (EIsRealObj (EVar 0)))
(SSeq (SAssert (ECmp CEq (EIndex (EVar 0) (EInt 0)) (EInt 1)))
(SSeq (SAssign 3 (ELen (EVar 0)))
(SSeq (SIf (ECmp CLt (EVar 3) (EInt 2))
(SRaise ValueError)
(SSkip))
(SSeq (SIf (EIsBool true (EVar 2))
(SAssign 4 (EZeros2 (EVar 3) (EVar 3) true))
(SAssign 4 (EZeros2 (EVar 3) (EVar 3) false)))
(SSeq (SStoreCol 4 (EBin BSub (EVar 3) (EInt 1)) (EConj (ESlice (EVar 0) (Some (ENeg (EInt 1))) None (Some (ENeg (EInt 1))))))
(SSeq (SAssign 3 (EBin BSub (EVar 3) (EInt 1)))
(SSeq (SAssign 5 (EZeros (EVar 3) true))
(SSeq (SStore 5 (ENeg (EInt 1)) (EVar 1))
(SSeq (SFor 6 (EBin BSub (EVar 3) (EInt 1)) (EInt 0) (ENeg (EInt 1))
(SSeq (SSeq (SCall [7%nat; 8%nat] 2 [None; (Some ENone)] 5
(SSeq (SIf (ECmp CNe (EIndex (EVar 0) (EInt 0)) (EInt 1))
(SRaise ValueError)
(SSkip))
(SSeq (SAssign 0 (ESlice (EVar 0) (Some (EInt 1)) None None))
(SSeq (SAssign 2 (EIndex (EVar 0) (ENeg (EInt 1))))
(SSeq (SIf (ECmp CEq (EVar 2) (ELit 1 0))
(SRaise ValueError)
(SSkip))
(SSeq (SAssign 3 (EBin BDiv (EBin BSub (ESlice (EVar 0) (Some (EInt 0)) (Some (ENeg (EInt 1))) None) (EBin BMul (EVar 2) (EConj (ESlice (EVar 0) (Some (ENeg (EInt 2))) None (Some (ENeg (EInt 1))))))) (EBin BSub (ELit 1 0) (ENrm2 (EVar 2)))))
(SSeq (SAssign 4 ENone)
(SSeq (SIf (ENot (EIsNone (EVar 1)))
(SAssign 4 (EBin BDiv (EVar 1) (EBin BSub (ELit 1 0) (EDot (EConj (EVar 2)) (EVar 2)))))
(SSkip))
(SSeq (SAssign 3 (EInsert (EVar 3) (EInt 0) (EInt 1)))
(SReturn [(EVar 3); (EVar 4)])))))))))
[(Some (EVar 0)); (Some (EIndex (EVar 5) (EVar 6)))])
(SSeq (SAssign 0 (EVar 7))
(SStore 5 (EBin BSub (EVar 6) (EInt 1)) (EVar 8))))
(SStoreCol 4 (EVar 6) (EConcat (EConj (ESlice (EVar 0) (Some (ENeg (EInt 1))) None (Some (ENeg (EInt 1))))) (EZeros (EMax (EInt 0) (EBin BSub (EVar 3) (EVar 6))) true)))))
(SSeq (SAssign 9 (EBin BDiv (EIndex (EVar 5) (EInt 0)) (EBin BSub (ELit 1 0) (ENrm2 (EIndex (EVar 0) (EInt 1))))))
(SSeq (SStore2 4 (EInt 0) (EInt 0) (EInt 1))
(SSeq (SAssign 10 (EConj (ERowSlice (EVar 4) (EInt 0) (Some (EInt 1)) None None)))
(SSeq (SAssign 10 (EVar 10))
(SSeq (SAssign 11 (EZeros (EInt 1) false))
(SSeq (SAssign 6 (EInt 1))
(SSeq (SAssign 12 (EVar 9))
(SSeq (SStore 11 (EInt 0) (EBin BMul (ENeg (EConj (EIndex2 (EVar 4) (EInt 0) (EInt 1)))) (EVar 12)))
(SSeq (SFor 6 (EInt 1) (EVar 3) (EInt 1)
(SSeq (SAssign 13 (EBin BSub (ENeg (ESum (EBin BMul (EConj (EColSlice (EVar 4) (Some (EBin BSub (EVar 6) (EInt 1))) None (Some (ENeg (EInt 1))) (EVar 6))) (ESlice (EVar 11) (Some (ENeg (EInt 1))) None (Some (ENeg (EInt 1))))))) (EBin BMul (EIndex (EVar 10) (EVar 6)) (EIndex (EVar 5) (EBin BSub (EVar 6) (EInt 1))))))
(SAssign 11 (EInsert (EVar 11) (ELen (EVar 11)) (EVar 13)))))
(SSeq (SAssign 11 (EInsert (EVar 11) (EInt 0) (EVar 9)))
(SReturn [(EVar 11); (EVar 4); (EVar 10); (EVar 5)])))))))))))))))))))))).
(* END GENERATED rlevinson *)
End Gen.
Example prog_rlevinson_gen_same : Gen.prog_rlevinson_gen0 = prog_rlevinson_gen0.
Proof. reflexivity. Qed.
Example prog_rlevinson_ref_is_generated' : prog_rlevinson_ref = Gen.prog_rlevinson_gen0.
Proof. reflexivity. Qed.

Print Assumptions rlevinson_ir_run.
Print Assumptions rlevinson_ir_tie.
