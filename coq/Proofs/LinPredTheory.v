(* C11: the step-up and step-down recursions are mutually inverse, one step and every order;
   rc2poly / poly2rc round trips, final errors, ac2poly = rc2poly o ac2rc. *)
Require Import Spectrum.Theory.Ops Spectrum.Theory.Sum Spectrum.Theory.Vec Spectrum.Theory.Order
               Spectrum.Model.Levinson Spectrum.Model.LinPred
               Spectrum.Proofs.LevinsonTheory Spectrum.Proofs.BurgTheory.

Class EqbLaws {F : Type} (E : Eqb F) : Prop := eqb_spec : forall a b : F, eqb a b = true <-> a = b.

Section OneStep.
Context {F : Type} {OF : Ops F} {L : Laws OF}.
Local Open Scope F_scope.
Add Field FFlp : (fth (O:=OF)).

Lemma nrm2_1 : nrm2 (1 : F) = 1.
Proof. unfold nrm2. rewrite conj_1. ring. Qed.
Lemma nrm2_neq1_sub k : nrm2 k <> 1 -> 1 - nrm2 k <> 0.
Proof. intros H E. apply H. transitivity (1 - (1 - nrm2 k)); [ring|rewrite E; ring]. Qed.
Lemma nrm2_neq1_sub' k : nrm2 k <> 1 -> 1 - conj k * k <> 0.
Proof. intros H E. apply (nrm2_neq1_sub k H). unfold nrm2. rewrite <- E. ring. Qed.
Lemma nrm2_neq1_neq1 k : nrm2 k <> 1 -> k <> 1.
Proof. intros H E. apply H. rewrite E. apply nrm2_1. Qed.

Lemma nth_stepup_lt (A : list F) k j : (j < length A)%nat ->
  nthF (stepup A k) j = nthF A j + k * conj (nthF A (length A - 1 - j)).
Proof. intros H. unfold stepup. rewrite nthF_app_l by (rewrite mk_length; exact H). rewrite nth_mk by exact H. reflexivity. Qed.
Lemma nth_stepup_last (A : list F) k : nthF (stepup A k) (length A) = k.
Proof. unfold stepup. apply nthF_app_last'. apply mk_length. Qed.
Lemma nth_stepup_last' (A : list F) k m : length A = m -> nthF (stepup A k) m = k.
Proof. intros <-. apply nth_stepup_last. Qed.
Lemma lastc_stepup (A : list F) k : lastc (stepup A k) = k.
Proof. unfold lastc. rewrite stepup_length. replace (S (length A) - 1)%nat with (length A) by lia. apply nth_stepup_last. Qed.

(* one step down undoes one step up *)
Theorem levdown_levup_thm (acur : list F) (k e : F) : nrm2 k <> 1 ->
  levdown (fst (levup acur k e)) (snd (levup acur k e)) = (1 :: tl acur, e).
Proof.
  intros Hk. unfold levup. cbn [fst snd]. unfold levdown. cbn [tl]. cbv zeta.
  set (A := tl acur). rewrite stepup_length.
  replace (S (length A) - 1)%nat with (length A) by lia. rewrite nth_stepup_last.
  f_equal.
  - f_equal. apply list_eq_nth; [apply mk_length|].
    intros j Hj. rewrite mk_length in Hj. rewrite nth_mk by exact Hj.
    rewrite !nth_stepup_lt by lia. rewrite conj_add, conj_mul, conj_conj.
    replace (length A - 1 - (length A - 1 - j))%nat with j by lia.
    unfold nrm2. field. exact (nrm2_neq1_sub k Hk).
  - field. exact (nrm2_neq1_sub' k Hk).
Qed.

(* one step up (with the coefficient that was removed) undoes one step down *)
Theorem levup_levdown_thm (anxt : list F) (e : F) : (2 <= length anxt)%nat ->
  nrm2 (lastc (tl anxt)) <> 1 ->
  levup (fst (levdown anxt e)) (lastc (tl anxt)) (snd (levdown anxt e)) = (1 :: tl anxt, e).
Proof.
  intros Hlen Hk. unfold levdown. cbv zeta. cbn [fst snd]. unfold levup. cbn [tl].
  set (B := tl anxt) in *. assert (HB : (1 <= length B)%nat).
  { unfold B. destruct anxt; cbn in *; lia. }
  unfold lastc in *. set (n := (length B - 1)%nat) in *. set (k := nthF B n) in *.
  assert (Hd : 1 - nrm2 k <> 0) by exact (nrm2_neq1_sub k Hk).
  assert (Hdc : conj (1 - nrm2 k) = 1 - nrm2 k) by (rewrite conj_sub, conj_1, nrm2_real; reflexivity).
  f_equal.
  - f_equal. apply list_eq_nth.
    + rewrite stepup_length, mk_length. lia.
    + intros j Hj. rewrite stepup_length, mk_length in Hj.
      destruct (Nat.eq_dec j n) as [->|Hne].
      * rewrite nth_stepup_last' by apply mk_length. reflexivity.
      * rewrite nth_stepup_lt by (rewrite mk_length; lia). rewrite mk_length.
        rewrite !nth_mk by lia. rewrite conj_div by exact Hd. rewrite Hdc.
        rewrite conj_sub, conj_mul, conj_conj.
        replace (n - 1 - (n - 1 - j))%nat with j by lia.
        unfold nrm2. unfold nrm2 in Hd. field. exact Hd.
  - field. exact (nrm2_neq1_sub' k Hk).
Qed.

Lemma levdown_length (anxt : list F) e : (2 <= length anxt)%nat -> length (fst (levdown anxt e)) = (length anxt - 1)%nat.
Proof.
  intros H. unfold levdown. cbv zeta. cbn [fst length]. rewrite mk_length.
  destruct anxt; cbn in *; lia.
Qed.
Lemma levdown_head (anxt : list F) e : nthF (fst (levdown anxt e)) 0 = 1.
Proof. reflexivity. Qed.
End OneStep.

Section Lift.
Context {F : Type} {OF : Ops F} {L : Laws OF} {EF : Eqb F} {EL : EqbLaws EF}.
Local Open Scope F_scope.
Add Field FFlp2 : (fth (O:=OF)).

Lemma Some_inj {A : Type} (x y : A) : Some x = Some y -> x = y.
Proof. intros H. injection H as H. exact H. Qed.
Lemma eqb_refl (a : F) : eqb a a = true. Proof. apply eqb_spec. reflexivity. Qed.
Lemma eqb_neq (a b : F) : a <> b -> eqb a b = false.
Proof. intros H. destruct (eqb a b) eqn:E; [|reflexivity]. exfalso. apply H. apply eqb_spec. exact E. Qed.
Lemma eqb_false_neq (a b : F) : eqb a b = false -> a <> b.
Proof. intros H E. apply eqb_spec in E. rewrite E in H. discriminate. Qed.

(* ---------- the step-up sweep: rc2poly_iter and the list of all its stages ---------- *)
Fixpoint upstages (A : list F) (e : F) (ks : list F) : list (list F * F) :=
  match ks with
  | [] => [(1 :: A, e)]
  | k :: t => (1 :: A, e) :: upstages (stepup A k) ((1 - conj k * k) * e) t
  end.

Lemma rc2poly_iter_form ks : forall A e,
  rc2poly_iter ks (1 :: A) e = (1 :: fold_left stepup ks A, e * prodk ks).
Proof.
  induction ks as [|k t IH]; intros A e; cbn [rc2poly_iter fold_left prodk].
  - f_equal. ring.
  - unfold levup. cbn [tl]. rewrite IH. f_equal. ring.
Qed.
Lemma rc2poly_iter_app t k a e :
  rc2poly_iter (t ++ [k]) a e = levup (fst (rc2poly_iter t a e)) k (snd (rc2poly_iter t a e)).
Proof.
  revert a e. induction t as [|k' t IH]; intros a e; cbn [app rc2poly_iter fst snd].
  - destruct (levup a k e). reflexivity.
  - destruct (levup a k' e) as [a' e']. apply IH.
Qed.
Lemma upstages_app t k : forall A e,
  upstages A e (t ++ [k]) = upstages A e t ++ [levup (fst (rc2poly_iter t (1 :: A) e)) k (snd (rc2poly_iter t (1 :: A) e))].
Proof.
  induction t as [|k' t IH]; intros A e; cbn [app upstages rc2poly_iter].
  - reflexivity.
  - unfold levup at 3. cbn [tl]. rewrite IH. reflexivity.
Qed.
Lemma upstages_length ks : forall A e, length (upstages A e ks) = S (length ks).
Proof. induction ks as [|k t IH]; intros A e; cbn; [reflexivity|rewrite IH; reflexivity]. Qed.
Lemma nth_upstages ks : forall A e j d, (j <= length ks)%nat ->
  nth j (upstages A e ks) d = (1 :: fold_left stepup (firstn j ks) A, e * prodk (firstn j ks)).
Proof.
  induction ks as [|k t IH]; intros A e j d Hj.
  - cbn in Hj. replace j with O by lia. cbn. f_equal. ring.
  - destruct j as [|j]; cbn [upstages nth firstn fold_left prodk].
    + f_equal. ring.
    + rewrite IH by (cbn in Hj; lia). f_equal. ring.
Qed.

Lemma fold_stepup_length ks : forall A : list F, length (fold_left stepup ks A) = (length A + length ks)%nat.
Proof. induction ks as [|k t IH]; intros A; cbn; [lia|]. rewrite IH, stepup_length. lia. Qed.
Lemma fold_stepup_snoc t k (A : list F) : fold_left stepup (t ++ [k]) A = stepup (fold_left stepup t A) k.
Proof. rewrite fold_left_app. reflexivity. Qed.

(* rc2poly in closed form: the step-up polynomial of the coefficients and r0 * prod(1 - |k_i|^2) *)
Theorem rc2poly_form_thm (ks : list F) (r0 : F) : ks <> [] ->
  rc2poly ks r0 = Some (1 :: stepup_all ks, r0 * prodk ks).
Proof.
  destruct ks as [|k0 t]; [intros H; exfalso; apply H; reflexivity|intros _].
  unfold rc2poly. rewrite rc2poly_iter_form. unfold stepup_all. cbn [fold_left prodk].
  f_equal. f_equal. rewrite conj_mul, conj_conj. ring.
Qed.

(* ---------- the step-down sweep undoes the step-up sweep ---------- *)
Definition dom (ks : list F) : Prop := forall j, (j < length ks)%nat -> nrm2 (nthF ks j) <> 1.
Lemma dom_app t k : dom (t ++ [k]) -> dom t /\ nrm2 k <> 1.
Proof.
  intros H. split.
  - intros j Hj. rewrite <- (nthF_app_l t [k]) by exact Hj. apply H. rewrite app_length. cbn. lia.
  - rewrite <- (nthF_app_last t k). apply H. rewrite app_length. cbn. lia.
Qed.

Lemma stepdown_up ks : forall A e, dom ks ->
  stepdown (length ks) (fst (rc2poly_iter ks (1 :: A) e)) (snd (rc2poly_iter ks (1 :: A) e))
  = Some (rev (upstages A e ks)).
Proof.
  induction ks as [|k t IH] using rev_ind; intros A e Hd.
  - reflexivity.
  - destruct (dom_app _ _ Hd) as [Hdt Hk].
    rewrite app_length. cbn [length]. replace (length t + 1)%nat with (S (length t)) by lia.
    rewrite upstages_app, rev_app_distr. cbn [rev app].
    rewrite rc2poly_iter_app.
    set (a' := fst (rc2poly_iter t (1 :: A) e)) in *. set (e' := snd (rc2poly_iter t (1 :: A) e)) in *.
    assert (Ha' : a' = 1 :: tl a'). { unfold a'. rewrite rc2poly_iter_form. reflexivity. }
    cbn [stepdown]. unfold levdown_chk.
    assert (H0 : nthF (fst (levup a' k e')) 0 = 1) by reflexivity. rewrite H0, eqb_refl. cbn [negb].
    assert (Hl : lastc (tl (fst (levup a' k e'))) = k) by (unfold levup; cbn [fst tl]; apply lastc_stepup).
    rewrite Hl, (eqb_neq k 1) by (apply nrm2_neq1_neq1; exact Hk).
    pose proof (levdown_levup_thm a' k e' Hk) as E. rewrite <- Ha' in E.
    rewrite E. rewrite <- surjective_pairing.
    unfold a', e'. rewrite (IH A e Hdt). reflexivity.
Qed.

(* shape of a successful step-down sweep *)
Lemma stepdown_shape n : forall a e l, stepdown n a e = Some l -> (n + 2 <= length a)%nat ->
  length l = S n /\ nth 0 l ([], 0) = (a, e) /\
  forall i, (i <= n)%nat -> length (fst (nth i l ([], 0))) = (length a - i)%nat.
Proof.
  induction n as [|n IH]; intros a e l H Hlen.
  - cbn in H. injection H as <-. cbn. repeat split. intros i Hi. replace i with O by lia. cbn. lia.
  - cbn [stepdown] in H. destruct (levdown_chk a e) as [[a' e']|] eqn:Ec; [|discriminate].
    destruct (stepdown n a' e') as [l'|] eqn:Es; [|discriminate]. injection H as <-.
    unfold levdown_chk in Ec. destruct (negb _); [discriminate|]. destruct (eqb _ _); [discriminate|].
    apply Some_inj in Ec.
    assert (Ea : fst (levdown a e) = a') by (rewrite Ec; reflexivity).
    assert (Ee : snd (levdown a e) = e') by (rewrite Ec; reflexivity).
    assert (Hl' : length a' = (length a - 1)%nat) by (rewrite <- Ea; apply (levdown_length a e); lia).
    destruct (IH a' e' l' Es ltac:(lia)) as (Hl & H0 & Hi).
    cbn [length nth]. repeat split; [lia|].
    intros i Hile. destruct i as [|i]; [cbn; lia|]. cbn [nth]. rewrite Hi by lia. lia.
Qed.

Lemma stepdown_sound n : forall a e l, stepdown n a e = Some l -> nthF a 0 = 1 -> length a = (n + 2)%nat ->
  (forall i, (i < n)%nat -> nrm2 (lastc (tl (fst (nth i l ([], 0))))) <> 1) ->
  exists k0 e1 ks, length ks = n /\ l = rev (upstages [k0] e1 ks) /\ (a, e) = rc2poly_iter ks [1; k0] e1.
Proof.
  induction n as [|n IH]; intros a e l H Ha0 Hlen Hdom.
  - cbn in H. injection H as <-.
    destruct a as [|x [|k0 [|? ?]]]; cbn in Hlen; try lia. unfold nthF in Ha0; cbn in Ha0. subst x.
    exists k0, e, []. repeat split.
  - cbn [stepdown] in H. destruct (levdown_chk a e) as [[a' e']|] eqn:Ec; [|discriminate].
    destruct (stepdown n a' e') as [l'|] eqn:Es; [|discriminate]. injection H as <-.
    unfold levdown_chk in Ec. destruct (negb _); [discriminate|]. destruct (eqb _ _); [discriminate|].
    apply Some_inj in Ec.
    assert (Ea : fst (levdown a e) = a') by (rewrite Ec; reflexivity).
    assert (Ee : snd (levdown a e) = e') by (rewrite Ec; reflexivity).
    assert (Hk : nrm2 (lastc (tl a)) <> 1) by (apply (Hdom O); lia).
    assert (Hl' : length a' = (n + 2)%nat) by (rewrite <- Ea, levdown_length; lia).
    destruct (IH a' e' l' Es ltac:(rewrite <- Ea; reflexivity) Hl') as (k0 & e1 & ks & Hks & Hl & Hup).
    { intros i Hi. apply (Hdom (S i)). lia. }
    exists k0, e1, (ks ++ [lastc (tl a)]). split; [rewrite app_length; cbn; lia|]. split.
    + rewrite upstages_app, rev_app_distr. cbn [rev app]. rewrite <- Hl. f_equal.
      rewrite <- Hup. cbn [fst snd]. rewrite <- Ea, <- Ee. rewrite levup_levdown_thm by (lia || exact Hk).
      f_equal. destruct a as [|x t]; [cbn in Hlen; lia|]. unfold nthF in Ha0; cbn in Ha0. subst x. reflexivity.
    + rewrite rc2poly_iter_app. change [1; k0] with (1 :: [k0]) in Hup. rewrite <- Hup. cbn [fst snd].
      rewrite <- Ea, <- Ee. rewrite levup_levdown_thm by (lia || exact Hk).
      f_equal. destruct a as [|x t]; [cbn in Hlen; lia|]. unfold nthF in Ha0; cbn in Ha0. subst x. reflexivity.
Qed.
End Lift.

Section RoundTrips.
Context {F : Type} {OF : Ops F} {L : Laws OF} {EF : Eqb F} {EL : EqbLaws EF}.
Local Open Scope F_scope.
Add Field FFlp3 : (fth (O:=OF)).

Lemma lastc_snoc (l : list F) k : lastc (l ++ [k]) = k.
Proof. unfold lastc. rewrite app_length. cbn [length]. replace (length l + 1 - 1)%nat with (length l) by lia. apply nthF_app_last. Qed.
Lemma lastc_firstn (l : list F) j : (j < length l)%nat -> lastc (firstn (S j) l) = nthF l j.
Proof.
  intros H. unfold lastc. rewrite firstn_length_le by lia. replace (S j - 1)%nat with j by lia.
  apply nthF_firstn. lia.
Qed.
Lemma fold_stepup_lastc ks k0 : lastc (fold_left stepup ks [k0]) = lastc (k0 :: ks).
Proof.
  destruct ks as [|k t] using rev_ind; [reflexivity|].
  rewrite fold_stepup_snoc, lastc_stepup. change (k0 :: t ++ [k]) with ((k0 :: t) ++ [k]). rewrite lastc_snoc. reflexivity.
Qed.

(* the reflection coefficients read back from the first row of U are the ones the stages were built from *)
Lemma rlev_kr_upstages k0 e1 t : rlev_kr (upstages [k0] e1 t) = k0 :: t.
Proof.
  unfold rlev_kr. rewrite upstages_length. apply list_eq_nth; [rewrite mk_length; reflexivity|].
  intros j Hj. rewrite mk_length in Hj. rewrite nth_mk by exact Hj.
  unfold Umat. cbn [Nat.eqb Nat.leb]. rewrite conj_conj. unfold stage_a.
  replace (S j - 1)%nat with j by lia. rewrite nth_upstages by lia. cbn [fst]. rewrite Nat.sub_0_r, nthF_consS.
  transitivity (lastc (fold_left stepup (firstn j t) [k0])).
  - unfold lastc. rewrite fold_stepup_length, firstn_length_le by lia. cbn [length]. f_equal. lia.
  - rewrite fold_stepup_lastc. change (k0 :: firstn j t) with (firstn (S j) (k0 :: t)).
    apply lastc_firstn. cbn [length]. lia.
Qed.

Lemma prodk_neq0 ks : dom ks -> prodk ks <> 0.
Proof.
  induction ks as [|k t IH]; intros Hd; cbn [prodk].
  - exact (F_1_neq_0 (fth (O:=OF))).
  - assert (Hk : nrm2 k <> 1) by (apply (Hd O); cbn; lia).
    assert (Ht : dom t) by (intros j Hj; apply (Hd (S j)); cbn; lia).
    intros E. apply (IH Ht). apply (mul_cancel_l (1 - k * conj k)); [exact E|exact (nrm2_neq1_sub k Hk)].
Qed.
Definition dom_tail (ks : list F) : Prop := forall j, (1 <= j < length ks)%nat -> nrm2 (nthF ks j) <> 1.
Lemma dom_tail_cons k0 t : dom_tail (k0 :: t) -> dom t.
Proof. intros H j Hj. apply (H (S j)). cbn [length]. lia. Qed.

(* what rlevinson computes on a step-up polynomial *)
Lemma rlevinson_stepup k0 t e1 : dom t ->
  rlevinson (fst (rc2poly_iter t [1; k0] e1)) (snd (rc2poly_iter t [1; k0] e1))
  = let st := upstages [k0] e1 t in
    Some (rlev_R st (e1 / (1 - nrm2 k0)) (length t), st, k0 :: t, map snd st).
Proof.
  intros Hd. unfold rlevinson.
  assert (Ef : fst (rc2poly_iter t (1 :: [k0]) e1) = 1 :: fold_left stepup t [k0]) by (rewrite rc2poly_iter_form; reflexivity).
  assert (H0 : nthF (fst (rc2poly_iter t [1; k0] e1)) 0 = 1) by (rewrite Ef; reflexivity).
  assert (Hlen : length (fst (rc2poly_iter t [1; k0] e1)) = (length t + 2)%nat).
  { rewrite Ef. cbn [length]. rewrite fold_stepup_length. cbn [length]. lia. }
  rewrite H0, eqb_refl, Hlen. cbn [negb].
  destruct (Nat.ltb_spec (length t + 2) 2); [lia|].
  replace (length t + 2 - 1 - 1)%nat with (length t) by lia.
  rewrite (stepdown_up t [k0] e1 Hd). rewrite rev_involutive. cbv zeta.
  rewrite rlev_kr_upstages. f_equal. f_equal. f_equal. f_equal. f_equal.
  unfold stage_e, stage_a. cbn [Nat.sub]. rewrite nth_upstages by lia. cbn [firstn fold_left prodk fst snd].
  change (nthF [1; k0] 1) with k0. f_equal. ring.
Qed.

(* poly2rc o rc2poly = id *)
Theorem poly2rc_rc2poly_thm (ks : list F) (r0 ef : F) (a : list F) (e : F) :
  dom_tail ks -> rc2poly ks r0 = Some (a, e) -> poly2rc a ef = Some ks.
Proof.
  intros Hd H. destruct ks as [|k0 t]; [discriminate|]. unfold rc2poly in H. apply Some_inj in H.
  pose proof (dom_tail_cons _ _ Hd) as Hdt.
  set (e1 := ef / prodk t).
  assert (Ea : a = fst (rc2poly_iter t [1; k0] e1)).
  { change [1; k0] with (1 :: [k0]) in *. rewrite rc2poly_iter_form in *. injection H as <- _. reflexivity. }
  assert (Ee : ef = snd (rc2poly_iter t [1; k0] e1)).
  { change [1; k0] with (1 :: [k0]). rewrite rc2poly_iter_form. cbn [snd]. unfold e1. field. apply prodk_neq0. exact Hdt. }
  unfold poly2rc. rewrite Ea, Ee at 1. rewrite rlevinson_stepup by exact Hdt. reflexivity.
Qed.
End RoundTrips.

Section RoundTrips2.
Context {F : Type} {OF : Ops F} {L : Laws OF} {EF : Eqb F} {EL : EqbLaws EF}.
Local Open Scope F_scope.
Add Field FFlp4 : (fth (O:=OF)).

(* rc2poly o poly2rc = id (the error is then r0 * prod(1-|k|^2) by rc2poly_form_thm) *)
Theorem rc2poly_poly2rc_thm (a : list F) (ef r0 : F) (ks : list F) :
  poly2rc a ef = Some ks -> dom_tail ks ->
  rc2poly ks r0 = Some (a, r0 * prodk ks).
Proof.
  unfold poly2rc, rlevinson. intros H Hd.
  destruct (eqb (nthF a 0) 1) eqn:E0; [|discriminate]. cbn [negb] in H. apply eqb_spec in E0.
  destruct (Nat.ltb_spec (length a) 2) as [|Hlen]; [discriminate|].
  destruct (stepdown (length a - 1 - 1) a ef) as [l|] eqn:Es; [|discriminate].
  apply Some_inj in H. set (n := (length a - 1 - 1)%nat) in *.
  destruct (stepdown_shape n a ef l Es ltac:(lia)) as (Hll & Hl0 & Hli).
  assert (Hdom : forall i, (i < n)%nat -> nrm2 (lastc (tl (fst (nth i l ([], 0))))) <> 1).
  { intros i Hi.
    assert (E : lastc (tl (fst (nth i l ([], 0)))) = nthF ks (n - i)).
    { rewrite <- H. unfold rlev_kr. rewrite rev_length, Hll, nth_mk by lia.
      unfold Umat. cbn [Nat.eqb Nat.leb]. rewrite conj_conj. unfold stage_a.
      replace (S (n - i) - 1)%nat with (n - i)%nat by lia.
      rewrite rev_nth by lia. rewrite Hll. replace (S n - S (n - i))%nat with i by lia.
      rewrite Nat.sub_0_r. unfold lastc. rewrite nth_tl.
      f_equal. pose proof (Hli i ltac:(lia)) as Hlen_i.
      destruct (fst (nth i l ([], 0))) as [|x tlx]; cbn [length tl] in *; lia. }
    rewrite E. apply Hd. rewrite <- H. unfold rlev_kr. rewrite mk_length, rev_length, Hll. lia. }
  destruct (stepdown_sound n a ef l Es E0 ltac:(lia) Hdom) as (k0 & e1 & t & Ht & Hl & Hup).
  rewrite Hl, rev_involutive, rlev_kr_upstages in H. subst ks.
  rewrite rc2poly_form_thm by discriminate. f_equal. f_equal.
  change [1; k0] with (1 :: [k0]) in Hup. rewrite rc2poly_iter_form in Hup. injection Hup as -> _. reflexivity.
Qed.

(* ---------- ac2poly = rc2poly o ac2rc ---------- *)
Lemma lev_iter_form T allow P0 m : forall A P ks,
  lev_iter T allow P0 m = Some (A, P, ks) -> A = stepup_all ks /\ P = P0 * prodk ks /\ length ks = m.
Proof.
  induction m as [|m IH]; intros A P ks H.
  - cbn in H. injection H as <- <- <-. cbn. repeat split. ring.
  - cbn [lev_iter] in H. destruct (lev_iter T allow P0 m) as [[[A0 P1] ks0]|] eqn:E; [|discriminate].
    destruct (IH _ _ _ eq_refl) as (HA & HP & Hk). unfold lev_step in H.
    destruct (le0 _ && negb allow); [discriminate|]. injection H as <- <- <-.
    rewrite stepup_all_app, prodk_app, app_length, HA, HP, Hk. cbn [length]. repeat split; [ring|lia].
Qed.

Theorem ac2poly_commutes_thm (r : list F) (a : list F) (e : F) (ks : list F) (r0 : F) :
  isreal (nthF r 0) -> (2 <= length r)%nat ->
  ac2poly r = Some (a, e) -> ac2rc r = Some (ks, r0) -> rc2poly ks r0 = Some (a, e).
Proof.
  intros Hr Hlen Hp Hc. unfold ac2poly, ac2rc in *. destruct r as [|x r']; [discriminate|].
  destruct (levinson (x :: r') (length (x :: r') - 1) false) as [[[A P] ks']|] eqn:E; [|discriminate].
  injection Hp as <- <-. injection Hc as <- <-.
  unfold levinson in E. destruct (_ <=? _)%nat; [|discriminate].
  destruct (lev_iter_form _ _ _ _ _ _ _ E) as (HA & HP & Hk).
  rewrite rc2poly_form_thm.
  - rewrite HA, HP, (re_real _ Hr). reflexivity.
  - intros E0. rewrite E0 in Hk. cbn [length] in *. lia.
Qed.

(* a returned Levinson run has |k_i|^2 <> 1 at every stage, and non-zero error powers *)
Lemma dom_snoc (t : list F) k : dom t -> nrm2 k <> 1 -> dom (t ++ [k]).
Proof.
  intros Ht Hk j Hj. rewrite app_length in Hj. cbn [length] in Hj.
  destruct (Nat.eq_dec j (length t)) as [->|Hne].
  - rewrite nthF_app_last. exact Hk.
  - rewrite nthF_app_l by lia. apply Ht. lia.
Qed.
Lemma lev_iter_dom T P0 m : forall A P ks, lev_iter T false P0 m = Some (A, P, ks) ->
  dom ks /\ ((1 <= m)%nat -> P <> 0 /\ P0 <> 0).
Proof.
  induction m as [|m IH]; intros A P ks H.
  - cbn in H. injection H as <- <- <-. split; [intros j Hj; cbn in Hj; lia|intros; lia].
  - cbn [lev_iter] in H. destruct (lev_iter T false P0 m) as [[[A0 P1] ks0]|] eqn:E; [|discriminate].
    destruct (IH _ _ _ eq_refl) as (Hd & HP). unfold lev_step in H.
    set (k := - lev_delta T A0 m / P1) in *.
    destruct (le0 (P1 * (1 - k * conj k))) eqn:Hle; cbn in H; [discriminate|]. injection H as <- <- <-.
    pose proof (le0_false_neq _ Hle) as Hne.
    assert (HP1 : P1 <> 0). { intros E1. apply Hne. rewrite E1. ring. }
    assert (Hk : nrm2 k <> 1). { intros E1. apply Hne. unfold nrm2 in E1. rewrite E1. ring. }
    split; [apply dom_snoc; assumption|]. intros _. split; [exact Hne|].
    destruct m as [|m']; [|apply HP; lia]. cbn in E. injection E as _ <- _. exact HP1.
Qed.

(* every intermediate stage of a returned run: the state and the equation that defined k *)
Lemma lev_stage T P0 p : forall A P ks, lev_iter T false P0 p = Some (A, P, ks) ->
  forall k, (k < p)%nat -> exists Ak Pk, lev_iter T false P0 k = Some (Ak, Pk, firstn k ks) /\ Pk <> 0 /\
    nthF ks k * Pk = - lev_delta T Ak k.
Proof.
  induction p as [|p IH]; intros A P ks H k Hk; [lia|].
  cbn [lev_iter] in H. destruct (lev_iter T false P0 p) as [[[A0 P1] ks0]|] eqn:E; [|discriminate].
  destruct (lev_iter_form _ _ _ _ _ _ _ E) as (_ & _ & Hlen).
  unfold lev_step in H. set (kk := - lev_delta T A0 p / P1) in *.
  destruct (le0 (P1 * (1 - kk * conj kk))) eqn:Hle; cbn in H; [discriminate|]. injection H as <- <- <-.
  assert (HP1 : P1 <> 0). { intros E1. apply (le0_false_neq _ Hle). rewrite E1. ring. }
  destruct (Nat.eq_dec k p) as [->|Hne].
  - exists A0, P1. subst p. rewrite firstn_app, Nat.sub_diag. cbn [firstn]. rewrite app_nil_r.
    rewrite firstn_all. split; [exact E|]. split; [exact HP1|].
    rewrite nthF_app_last. unfold kk. field. exact HP1.
  - destruct (IH _ _ _ eq_refl k ltac:(lia)) as (Ak & Pk & H1 & H2 & H3).
    exists Ak, Pk. rewrite firstn_app. replace (k - length ks0)%nat with O by lia. cbn [firstn]. rewrite app_nil_r.
    rewrite nthF_app_l by lia. auto.
Qed.

(* ---------- rlevinson inverts levinson ---------- *)
Lemma rlev_R_length st e0 n : length (rlev_R (F:=F) st e0 n) = (n + 2)%nat.
Proof. induction n; cbn [rlev_R]; [reflexivity|]. rewrite app_length, IHn. cbn. lia. Qed.

Lemma stage_up k0 e1 t m : (1 <= m <= S (length t))%nat ->
  stage_a (upstages [k0] e1 t) m = 1 :: stepup_all (firstn m (k0 :: t)) /\
  stage_e (upstages [k0] e1 t) m = e1 * prodk (firstn (m - 1) t).
Proof.
  intros Hm. unfold stage_a, stage_e. rewrite nth_upstages by lia. cbn [fst snd]. split; [|reflexivity].
  destruct m as [|m]; [lia|]. replace (S m - 1)%nat with m by lia. reflexivity.
Qed.

Lemma rlev_next_levinson (r : list F) k0 t e1 A P (R : list F) k : let ks := k0 :: t in
  lev_iter (tl r) false (nthF r 0) (S (length t)) = Some (A, P, ks) ->
  e1 = nthF r 0 * (1 - k0 * conj k0) ->
  (1 <= k <= length t)%nat -> (forall j, (j <= k)%nat -> nthF R j = nthF r j) ->
  rlev_next (upstages [k0] e1 t) R k = nthF r (S k).
Proof.
  intros ks H He1 Hk HR.
  destruct (lev_stage _ _ _ _ _ _ H k ltac:(lia)) as (Ak & Pk & Hs & HPk & Hkk).
  destruct (lev_iter_form _ _ _ _ _ _ _ Hs) as (HAk & HPkf & _).
  destruct (stage_up k0 e1 t k ltac:(lia)) as (Ha & He). fold ks in Ha.
  unfold rlev_next. rewrite rlev_kr_upstages, He, sumL_mk. fold ks.
  assert (Epk : e1 * prodk (firstn (k - 1) t) = Pk).
  { rewrite HPkf, He1. unfold ks. destruct k as [|k']; [lia|]. cbn [firstn prodk]. replace (S k' - 1)%nat with k' by lia. ring. }
  rewrite Epk.
  rewrite (sumf_ext k _ (fun i => nthF Ak i * nthF r (k - i))).
  2:{ intros i Hi. unfold Umat. destruct (Nat.eqb_spec k 0); [lia|]. destruct (Nat.leb_spec (k - 1 - i) k); [|lia].
      rewrite conj_conj, Ha, <- HAk. replace (k - (k - 1 - i))%nat with (S i) by lia. rewrite nthF_consS.
      rewrite HR by lia. reflexivity. }
  unfold lev_delta in Hkk. rewrite sumL_mk, nth_tl in Hkk.
  rewrite (sumf_ext k _ (fun i => nthF Ak i * nthF r (k - i))) in Hkk.
  2:{ intros i Hi. rewrite nth_tl. do 2 f_equal. lia. }
  transitivity (- sumf k (fun i => nthF Ak i * nthF r (k - i)) + - (nthF ks k * Pk)); [ring|].
  rewrite Hkk. ring.
Qed.

Lemma rlev_R_levinson (r : list F) k0 t e1 A P : let ks := k0 :: t in
  lev_iter (tl r) false (nthF r 0) (S (length t)) = Some (A, P, ks) ->
  e1 = nthF r 0 * (1 - k0 * conj k0) ->
  forall n, (n <= length t)%nat -> forall j, (j <= S n)%nat ->
  nthF (rlev_R (upstages [k0] e1 t) (nthF r 0) n) j = nthF r j.
Proof.
  intros ks H He1. induction n as [|n IH]; intros Hn j Hj.
  - cbn [rlev_R]. destruct j as [|[|j]]; [reflexivity| |lia].
    cbn [nthF nth]. fold (nthF r 1).
    destruct (lev_stage _ _ _ _ _ _ H O ltac:(lia)) as (A0 & P0' & Hs & HP0 & Hk0).
    cbn in Hs. injection Hs as <- <-. unfold lev_delta in Hk0. cbn [mk seq map sumL] in Hk0.
    rewrite nth_tl in Hk0. unfold ks in Hk0. rewrite nthF_cons0 in Hk0.
    unfold Umat. cbn [Nat.eqb Nat.leb]. rewrite conj_conj.
    destruct (stage_up k0 e1 t 1 ltac:(lia)) as (Ha & _). rewrite Ha. cbn [firstn]. unfold stepup_all. cbn [fold_left].
    change (nthF (1 :: stepup [] k0) (1 - 0)) with k0.
    transitivity (- (k0 * nthF r 0)); [ring|]. rewrite Hk0. ring.
  - cbn [rlev_R]. destruct (Nat.eq_dec j (S (S n))) as [->|Hne].
    + pose proof (rlev_R_length (upstages [k0] e1 t) (nthF r 0) n) as Hl.
      replace (S (S n)) with (length (rlev_R (upstages [k0] e1 t) (nthF r 0) n)) at 1 by lia.
      rewrite nthF_app_last. apply (rlev_next_levinson r k0 t e1 A P); auto; [lia|].
      intros j Hj'. apply IH; lia.
    + rewrite nthF_app_l by (rewrite rlev_R_length; lia). apply IH; lia.
Qed.

Lemma ac2poly_cons (x : F) r' : ac2poly (x :: r') =
  match levinson (x :: r') (length (x :: r') - 1) false with None => None | Some (a, P, _) => Some (1 :: a, P) end.
Proof. reflexivity. Qed.
Theorem poly2ac_ac2poly_thm (r : list F) (a : list F) (e : F) :
  isreal (nthF r 0) -> (2 <= length r)%nat ->
  ac2poly r = Some (a, e) -> poly2ac a e = Some r.
Proof.
  intros Hr Hlen Hp. destruct r as [|x r']; [discriminate|]. rewrite ac2poly_cons in Hp.
  remember (x :: r') as r eqn:Er. clear Er x r'.
  destruct (levinson r (length r - 1) false) as [[[A P] ks]|] eqn:E; [|discriminate].
  injection Hp as <- <-.
  unfold levinson in E. destruct (_ <=? _)%nat; [|discriminate]. rewrite (re_real _ Hr) in E.
  destruct (lev_iter_form _ _ _ _ _ _ _ E) as (HA & HP & Hk).
  destruct (lev_iter_dom _ _ _ _ _ _ E) as (Hd & HP0). destruct (HP0 ltac:(lia)) as (HPne & H0ne).
  destruct ks as [|k0 t]; [cbn [length] in Hk; lia|]. cbn [length] in Hk.
  assert (Hdt : dom t) by (intros j Hj; apply (Hd (S j)); cbn [length]; lia).
  assert (Hk0 : nrm2 k0 <> 1) by (apply (Hd O); cbn [length]; lia).
  set (e1 := nthF r 0 * (1 - k0 * conj k0)).
  assert (E1 : 1 :: A = fst (rc2poly_iter t [1; k0] e1)).
  { change [1; k0] with (1 :: [k0]). rewrite rc2poly_iter_form, HA. reflexivity. }
  assert (E2 : P = snd (rc2poly_iter t [1; k0] e1)).
  { change [1; k0] with (1 :: [k0]). rewrite rc2poly_iter_form, HP. unfold e1. cbn [snd prodk]. ring. }
  unfold poly2ac. rewrite E1, E2 at 1. rewrite rlevinson_stepup by exact Hdt. cbv zeta. f_equal.
  assert (E0 : e1 / (1 - nrm2 k0) = nthF r 0).
  { unfold e1, nrm2. field. exact (nrm2_neq1_sub k0 Hk0). }
  rewrite E0. replace (length r - 1)%nat with (S (length t)) in E by lia.
  f_equal. apply list_eq_nth; [rewrite rlev_R_length; lia|].
  intros j Hj. rewrite rlev_R_length in Hj.
  apply (rlev_R_levinson r k0 t e1 A P E eq_refl); lia.
Qed.
End RoundTrips2.
