(* minvar: the assembled statements about the executable model.
     minvar_returns_burg_thm   returned A = 1 :: a, k with (a, rho, k) = arburg x (m-1)
     minvar_psd_musicus_thm    PSD_f = sampling / sum_{k<m} |A_k(f)|^2 / P_k
     minvar_capon_thm          PSD_f = sampling / (e(f)^H y) for every y with R y = e(f), R the Hermitian Toeplitz matrix
                               of any lag sequence r with r0 = mean power whose Levinson recursion has the Burg reflection coefficients
     minvar_positive_thm       PSD_f is real and > 0 (ordered *-field) *)
Require Import Spectrum.Theory.Ops Spectrum.Theory.Sum Spectrum.Theory.Vec Spectrum.Theory.Dft Spectrum.Theory.Order
               Spectrum.Model.Levinson Spectrum.Model.Burg Spectrum.Model.Minvar
               Spectrum.Proofs.LevinsonTheory Spectrum.Proofs.BurgTheory
               Spectrum.Proofs.MinvarTheory Spectrum.Proofs.MinvarMusicus Spectrum.Proofs.MinvarCapon.

Section Final.
Context {F : Type} {OF : Ops F} {L : Laws OF}.
Local Open Scope F_scope.
Add Field FFmf : (fth (O:=OF)).

Lemma stepup_all_length (ks : list F) : length (stepup_all ks) = length ks.
Proof.
  induction ks as [|k ks IH] using rev_ind; [reflexivity|].
  rewrite stepup_all_app, stepup_length, IH, app_length. cbn. lia.
Qed.
Lemma prodk_real (ks : list F) : conj (prodk ks) = prodk ks.
Proof. induction ks as [|k ks IH]; cbn; [apply conj_1|]. rewrite conj_mul, conj_1mkk, IH. reflexivity. Qed.
Lemma sumL_nrm2_real (x : list F) : conj (sumL (map nrm2 x)) = sumL (map nrm2 x).
Proof. induction x as [|a x IH]; cbn; [apply conj_0|]. rewrite conj_add, nrm2_real, IH. reflexivity. Qed.
Lemma mean_power_real (x : list F) : ofnat (length x) <> 0 -> conj (mean_power x) = mean_power x.
Proof. intros H. unfold mean_power. rewrite conj_div by exact H. rewrite sumL_nrm2_real, conj_ofnat. reflexivity. Qed.
Lemma nthF_map_lt (g : F -> F) (l : list F) j : (j < length l)%nat -> nthF (map g l) j = g (nthF l j).
Proof.
  intros H. unfold nthF. rewrite (nth_indep _ 0 (g 0)) by (rewrite map_length; exact H). apply map_nth.
Qed.
Lemma arburg_some_order (x : list F) p stop res : arburg x p stop = Some res -> (1 <= p <= length x)%nat.
Proof.
  unfold arburg. destruct (Nat.eqb_spec p 0); cbn [orb]; [discriminate|].
  destruct (Nat.ltb_spec (length x) p); [discriminate|]. intros _. lia.
Qed.

(* ---------------- what minvar returns besides the PSD ---------------- *)
Theorem minvar_returns_burg_thm tw (x : list F) m s nfft psd A ks :
  minvar tw x m s nfft = Some (psd, A, ks) ->
  exists a rho, arburg x (m - 1) no_stop = Some (a, rho, ks) /\ A = 1 :: a
    /\ a = stepup_all ks /\ length ks = (m - 1)%nat /\ rho = mean_power x * prodk ks /\ le0 rho = false
    /\ length psd = nfft /\ (2 <= m <= nfft)%nat.
Proof.
  unfold minvar. destruct (arburg x (m - 1) no_stop) as [[[a rho] k]|] eqn:E; [|discriminate].
  destruct (Nat.ltb_spec nfft m) as [G|G]; [discriminate|]. intros H. injection H as <- <- <-.
  destruct (arburg_shape_thm x (m - 1) a rho k E) as (Hl & Ha & Hr & Hle).
  pose proof (arburg_some_order _ _ _ _ E) as Ho.
  exists a, rho. repeat split; auto; try lia. rewrite map_length. apply dft_length.
Qed.

(* ---------------- Levinson: every intermediate order satisfies the invariant ---------------- *)
Lemma lev_iter_stepup T allow P0 m (A : list F) P ks :
  lev_iter T allow P0 m = Some (A, P, ks) -> A = stepup_all ks.
Proof.
  revert A P ks. induction m; intros A P ks H.
  - cbn in H. injection H as <- _ <-. reflexivity.
  - cbn [lev_iter] in H. destruct (lev_iter T allow P0 m) as [[[A0 P1] ks0]|] eqn:E; [|discriminate].
    unfold lev_step in H. destruct (le0 _ && negb allow); [discriminate|]. injection H as <- _ <-.
    rewrite stepup_all_app, (IHm A0 P1 ks0 eq_refl). reflexivity.
Qed.

Lemma levinson_predictors (r : list F) p a P ks : isreal (nthF r O) -> nthF r O <> 0 ->
  levinson r p false = Some (a, P, ks) ->
  forall k, (k <= p)%nat ->
    Inv r k (afun (stepup_all (firstn k ks))) (nthF r O * prodk (firstn k ks))
    /\ nthF r O * prodk (firstn k ks) <> 0.
Proof.
  intros Hr H0 H k Hk. unfold levinson in H. destruct (p <=? length r - 1)%nat; [|discriminate].
  rewrite (re_real _ Hr) in H.
  destruct (lev_iter_prefix r false (nthF r O) p k _ Hk H) as [[[A' P'] ks'] H'].
  pose proof (lev_iter_nested r false (nthF r O) p k _ _ _ _ _ _ Hk H H') as Hks.
  pose proof (lev_iter_stepup _ _ _ _ _ _ _ H') as HA.
  destruct (lev_iter_inv r Hr _ k _ eq_refl H0 H') as (_ & _ & HP0 & HI & HPk & _).
  subst ks' A'. rewrite <- HPk. split; assumption.
Qed.

(* ---------------- the PSD through Musicus' closed form ---------------- *)
Section Grid.
Context (nfft : nat) (tw : Z -> F) {T : Twiddle nfft tw}.

(* real() discards nothing: every bin of fft(psi) is real *)
Theorem psi_dft_real_thm m (A : list F) P : (1 <= m)%nat -> (2 * m - 1 <= nfft)%nat -> conj P = P -> P <> 0 ->
  forall f, (f < nfft)%nat ->
    conj (nthF (dft tw nfft (psi_loop m nfft A P)) f) = nthF (dft tw nfft (psi_loop m nfft A P)) f.
Proof.
  intros Hm Hn HP HP0 f Hf. rewrite nth_dft_crop by exact Hf.
  destruct (psi_hermitian_thm m nfft A P Hm Hn HP HP0) as [P0r Psym].
  apply (dft_hermitian_real nfft tw ltac:(lia)); assumption.
Qed.

(* sum_{k<m} |A_k(f)|^2 / P_k,  A_k the step-up polynomial of the first k reflection coefficients *)
Definition capon_sum (P0 : F) (ks : list F) (f : Z) : F :=
  sumf (S (length ks)) (fun k => nrm2 (ev tw f (1 :: stepup_all (firstn k ks))) / (P0 * prodk (firstn k ks))).

Theorem minvar_psd_musicus_thm (x : list F) m s psd A ks :
  ofnat (length x) <> 0 -> (2 * m - 1 <= nfft)%nat ->
  minvar tw x m s nfft = Some (psd, A, ks) ->
  forall f, (f < nfft)%nat ->
    nthF psd f = s / capon_sum (mean_power x) ks (Z.of_nat f)
    /\ nthF (dft tw nfft (psi_loop m nfft A (mean_power x * prodk ks))) f = capon_sum (mean_power x) ks (Z.of_nat f)
    /\ conj (capon_sum (mean_power x) ks (Z.of_nat f)) = capon_sum (mean_power x) ks (Z.of_nat f).
Proof.
  intros HN Hn H f Hf.
  destruct (minvar_returns_burg_thm _ _ _ _ _ _ _ _ H) as (a & rho & E & HA & Ha & Hl & Hr & Hle & _ & Hm).
  unfold minvar in H. rewrite E in H. destruct (Nat.ltb_spec nfft m) as [G|G]; [discriminate|].
  injection H as Hpsd _. subst A.
  assert (Hpos : (0 < nfft)%nat) by lia.
  assert (Hrho0 : rho <> 0) by (apply le0_false_neq; exact Hle).
  assert (Hrhor : conj rho = rho) by (rewrite Hr, conj_mul, mean_power_real, prodk_real by exact HN; reflexivity).
  set (psi := psi_loop m nfft (1 :: a) rho) in *.
  set (D := dftN tw nfft (nthF psi) (Z.of_nat f)).
  assert (HD : nthF (dft tw nfft psi) f = D) by (apply nth_dft_crop; exact Hf).
  assert (Hlen : length (1 :: a) = m) by (cbn; rewrite Ha, stepup_all_length, Hl; lia).
  assert (HDs : D = capon_sum (mean_power x) ks (Z.of_nat f)).
  { unfold capon_sum. rewrite <- (musicus_closed_form_thm nfft tw Hpos) by (rewrite <- Hr; exact Hrho0).
    rewrite <- Ha, <- Hr. rewrite <- (double_sum_Qv nfft tw). rewrite Hlen.
    rewrite <- (psi_dft_double_sum nfft tw m (1 :: a) rho ltac:(lia) Hn Hrhor Hrho0). fold psi. fold D.
    field. exact Hrho0. }
  assert (HDr : conj D = D).
  { destruct (psi_hermitian_thm m nfft (1 :: a) rho ltac:(lia) Hn Hrhor Hrho0) as [P0r Psym].
    apply (dft_hermitian_real nfft tw Hpos); assumption. }
  split; [|split].
  - rewrite <- Hpsd. rewrite nthF_map_lt by (rewrite dft_length; exact Hf). rewrite HD.
    rewrite (re_real D HDr), HDs. reflexivity.
  - rewrite <- Hr. fold psi. rewrite HD. exact HDs.
  - rewrite <- HDs. exact HDr.
Qed.

(* ---------------- ... and as the Capon quadratic form ---------------- *)
Theorem minvar_capon_thm (x : list F) m s psd A ks (r : list F) a' P' :
  ofnat (length x) <> 0 -> (2 * m - 1 <= nfft)%nat ->
  minvar tw x m s nfft = Some (psd, A, ks) ->
  isreal (nthF r O) -> nthF r O = mean_power x ->
  levinson r (m - 1) false = Some (a', P', ks) ->
  forall f (y : nat -> F), (f < nfft)%nat ->
    (forall i, (i < m)%nat -> sumf m (fun j => rr r i j * y j) = tw (- (Z.of_nat i * Z.of_nat f))%Z) ->
    nthF psd f = s / sumf m (fun i => tw (Z.of_nat i * Z.of_nat f)%Z * y i).
Proof.
  intros HN Hn H Hr Hr0 HL f y Hf Hy.
  destruct (minvar_returns_burg_thm _ _ _ _ _ _ _ _ H) as (a & rho & E & HA & Ha & Hl & Hrho & Hle & _ & Hm).
  destruct (minvar_psd_musicus_thm x m s psd A ks HN Hn H f Hf) as (Hp & _ & _).
  assert (Hpos : (0 < nfft)%nat) by lia.
  assert (Hrho0 : rho <> 0) by (apply le0_false_neq; exact Hle).
  assert (H0 : nthF r O <> 0).
  { intros E0. apply Hrho0. rewrite Hrho, <- Hr0, E0. ring. }
  set (ak := fun k => afun (stepup_all (firstn k ks))).
  set (Pk := fun k => nthF r O * prodk (firstn k ks)).
  assert (HI : forall k, (k < m)%nat -> Inv r k (ak k) (Pk k))
    by (intros k Hk; apply (levinson_predictors r (m - 1) a' P' ks Hr H0 HL k); lia).
  assert (HP : forall k, (k < m)%nat -> Pk k <> 0)
    by (intros k Hk; apply (levinson_predictors r (m - 1) a' P' ks Hr H0 HL k); lia).
  rewrite Hp. f_equal.
  pose proof (quadform_predictors_thm r Hr m ak Pk HI (fun i => tw (- (Z.of_nat i * Z.of_nat f))%Z) y HP Hy) as Q.
  rewrite (sumf_ext m _ (fun i => conj (tw (- (Z.of_nat i * Z.of_nat f))%Z) * y i)).
  2:{ intros i _. rewrite tw_cj. do 2 f_equal. lia. }
  rewrite Q. unfold capon_sum. rewrite Hl. replace (S (m - 1)) with m by lia.
  apply sumf_ext; intros k Hk. rewrite (upred_steering_nrm2 nfft tw Hpos) by exact Hk.
  unfold Pk. rewrite Hr0. f_equal. f_equal. unfold ev, ak. cbn [length].
  rewrite stepup_all_length, firstn_length_le by lia.
  unfold dftN. apply sumf_ext; intros t _. rewrite nth_cons_afun. reflexivity.
Qed.
End Grid.
End Final.

(* ---------------- order clauses ---------------- *)
Section Positive.
Context {F : Type} {OF : Ops F} {L : Laws OF} {OL : OrdLaws OF}.
Local Open Scope F_scope.
Add Field FFmp : (fth (O:=OF)).

Lemma sumL_nrm2_nonneg (x : list F) : nonneg (sumL (map nrm2 x)).
Proof. induction x as [|a x IH]; cbn; [apply nonneg_0|]. apply nn_add; [apply nn_nrm2|exact IH]. Qed.
Lemma mean_power_nonneg (x : list F) : (1 <= length x)%nat -> nonneg (mean_power x).
Proof. intros H. unfold mean_power. apply nonneg_div; [apply sumL_nrm2_nonneg|apply pos_ofnat; exact H]. Qed.

(* a sum of |.|^2 / P_k with all P_k > 0 whose first numerator is 1 *)
Lemma capon_sum_pos nfft (tw : Z -> F) {T : Twiddle nfft tw} (P0 : F) (ks : list F) f :
  (0 < nfft)%nat -> (forall k, (k <= length ks)%nat -> pos (P0 * prodk (firstn k ks))) ->
  pos (capon_sum tw P0 ks f).
Proof.
  intros Hpos HP. unfold capon_sum. rewrite sumf_shift. apply pos_add_nonneg.
  - cbn [firstn stepup_all fold_left]. rewrite (ev_one nfft tw). unfold nrm2. rewrite conj_1.
    apply pos_div; [|apply (HP O); lia].
    replace (1 * 1) with 1 by ring. apply pos_1.
  - apply nonneg_sumf. intros i Hi. apply nonneg_div; [apply nn_nrm2|apply HP; lia].
Qed.

Theorem minvar_positive_thm nfft (tw : Z -> F) {T : Twiddle nfft tw} (x : list F) m s psd A ks :
  (2 * m - 1 <= nfft)%nat -> pos s ->
  minvar tw x m s nfft = Some (psd, A, ks) ->
  (forall k, (k < m)%nat -> pos (mean_power x * prodk (firstn k ks)))
  /\ forall f, (f < nfft)%nat -> pos (nthF psd f) /\ conj (nthF psd f) = nthF psd f.
Proof.
  intros Hn Hs H.
  destruct (minvar_returns_burg_thm _ _ _ _ _ _ _ _ H) as (a & rho & E & HA & Ha & Hl & Hrho & Hle & _ & Hm).
  pose proof (arburg_some_order _ _ _ _ E) as Ho.
  assert (HN : ofnat (length x) <> 0) by (apply (pos_ofnat (length x)); lia).
  assert (Hmr : conj (mean_power x) = mean_power x) by (apply mean_power_real; exact HN).
  (* every intermediate error power is > 0: the code's rho <= 0 test at each Burg stage *)
  assert (Hq : forall q, (1 <= q <= m - 1)%nat -> pos (mean_power x * prodk (firstn q ks))).
  { intros q Hq. destruct (arburg_nested_thm x (m - 1) q a rho ks Hq E) as (a' & rho' & E').
    destruct (arburg_shape_thm x q a' rho' _ E') as (_ & _ & Hr' & Hle').
    rewrite <- Hr'. apply le0_false_pos; [|exact Hle'].
    rewrite Hr', conj_mul, Hmr, prodk_real. reflexivity. }
  assert (HPk : forall k, (k < m)%nat -> pos (mean_power x * prodk (firstn k ks))).
  { intros k Hk. destruct k as [|k]; [|apply Hq; lia].
    cbn [firstn prodk]. destruct (Hq 1%nat ltac:(lia)) as [_ H1].
    destruct (pos_nonneg_cases (mean_power x) (mean_power_nonneg x ltac:(lia))) as [E0|Hp].
    - exfalso. apply H1. rewrite E0. ring.
    - destruct Hp as [Hp1 Hp2]. split; [apply (nonneg_eq (mean_power x)); [ring|exact Hp1]|].
      intros E0. apply Hp2. rewrite <- E0. ring. }
  split; [exact HPk|]. intros f Hf.
  destruct (minvar_psd_musicus_thm nfft tw x m s psd A ks HN Hn H f Hf) as (Hp & _ & _).
  assert (Hc : pos (capon_sum tw (mean_power x) ks (Z.of_nat f))).
  { apply (capon_sum_pos nfft tw); [lia|]. intros k Hk. apply HPk. lia. }
  assert (Hpp : pos (nthF psd f)) by (rewrite Hp; apply pos_div; assumption).
  split; [exact Hpp|apply pos_real; exact Hpp].
Qed.
End Positive.
