(* Theory of the arma2psd model: the closed form on the grid k/NFFT, (anti)linearity in rho and T,
   lengths, the raise conditions, centerdc layout, normalisation, symmetry for real coefficients. *)
Require Import Spectrum.Theory.Ops Spectrum.Theory.Sum Spectrum.Theory.Vec Spectrum.Theory.Dft
               Spectrum.Theory.Order Spectrum.Model.Arma2psd.

Section Arma2psdTheory.
Context {F : Type} {OF : Ops F} {L : Laws OF}.
Local Open Scope F_scope.
Add Field FFarma : (fth (O:=OF)).

(* ---------------- small algebra ---------------- *)
Lemma div_mul_inv (a b : F) : a / b = a * inv b.
Proof. apply (Fdiv_def (fth (O:=OF))). Qed.
Lemma conj_neq0 (a : F) : a <> 0 -> conj a <> 0.
Proof. intros Ha Hc. apply Ha. rewrite <- (conj_conj a), Hc. apply conj_0. Qed.
Lemma nrm2_neq0 (a : F) : a <> 0 -> nrm2 a <> 0.
Proof. intros Ha E. apply (conj_neq0 a Ha). apply (mul_cancel_l a (conj a)); [exact E|exact Ha]. Qed.
Lemma nrm2_one : nrm2 (1 : F) = 1.
Proof. unfold nrm2. rewrite conj_1. ring. Qed.
Lemma nrm2_conj (a : F) : nrm2 (conj a) = nrm2 a.
Proof. unfold nrm2. rewrite conj_conj. ring. Qed.
Lemma isreal_inv (a : F) : isreal a -> a <> 0 -> isreal (inv a).
Proof. unfold isreal. intros Hr Ha. rewrite conj_inv, Hr by exact Ha. reflexivity. Qed.
Lemma isreal_div (a b : F) : isreal a -> isreal b -> b <> 0 -> isreal (a / b).
Proof. unfold isreal. intros Ha Hb Hn. rewrite conj_div, Ha, Hb by exact Hn. reflexivity. Qed.
Lemma re_scale (c z : F) : isreal c -> re (c * z) = c * re z.
Proof. unfold isreal, re. intros Hc. rewrite conj_mul, Hc, !div_mul_inv. ring. Qed.
Lemma re_0 : re (0 : F) = 0.
Proof. unfold re. rewrite conj_0, div_mul_inv. ring. Qed.

(* ---------------- the FFT of the padded coefficient array is the polynomial on the grid ---------------- *)
Section Grid.
Context (n : nat) (tw : Z -> F) {T : Twiddle n tw}.

Lemma dft_coeffs (c : list F) (k : nat) : (length c < n)%nat -> (k < n)%nat ->
  nthF (dft tw n (pad n (1 :: c))) k = polyz tw c (Z.of_nat k).
Proof.
  intros Hc Hk. rewrite nth_dft_crop by exact Hk. unfold dftN, polyz.
  rewrite (sumf_le_ext (S (length c)) n).
  - rewrite sumf_shift. f_equal.
    + unfold pad. rewrite nth_mk by lia. rewrite nthF_cons0. cbn [Z.of_nat Z.mul]. rewrite tw_0. ring.
    + apply sumf_ext; intros j Hj. unfold pad. rewrite nth_mk by lia. rewrite nthF_consS.
      f_equal. f_equal. f_equal. lia.
  - lia.
  - intros i Hi. unfold pad. rewrite nth_mk by lia.
    rewrite (nthF_overflow (1 :: c)) by (cbn [length]; lia). ring.
Qed.

Lemma polyz_conj (c : list F) (k : Z) : conj (polyz tw c k) = polyz tw (vconj c) (- k)%Z.
Proof.
  unfold polyz, vconj. rewrite conj_add, conj_1, sumf_conj, map_length. f_equal.
  apply sumf_ext; intros j Hj. rewrite conj_mul, tw_cj. fold (vconj c). rewrite nthF_vconj.
  f_equal. f_equal. lia.
Qed.
Lemma polyz_periodic (c : list F) (k j : Z) : (0 < n)%nat -> polyz tw c (k + j * Z.of_nat n)%Z = polyz tw c k.
Proof.
  intros Hn. unfold polyz. f_equal. apply sumf_ext; intros i Hi. f_equal.
  replace (Z.of_nat (i + 1) * (k + j * Z.of_nat n))%Z with (Z.of_nat (i + 1) * k + (Z.of_nat (i + 1) * j) * Z.of_nat n)%Z by lia.
  apply (tw_period n tw Hn).
Qed.
End Grid.

(* ---------------- structure of the model ---------------- *)
Definition olen (c : option (list F)) : nat := match c with None => O | Some l => S (length l) end.
Definition admissible (A B : option (list F)) (n : nat) : Prop :=
  (A <> None \/ B <> None) /\ (olen A <= n)%nat /\ (olen B <= n)%nat.

(* value of the un-normalised default-sides spectrum before real(), bin k *)
Definition rawbin (tw : Z -> F) (A B : option (list F)) (rho T : F) (n k : nat) : F :=
  match A, B with
  | Some a, Some b => (rho / T * nrm2 (nthF (dft tw n (pad n (1 :: b))) k)) / nrm2 (nthF (dft tw n (pad n (1 :: a))) k)
  | Some a, None => (rho / T) / nrm2 (nthF (dft tw n (pad n (1 :: a))) k)
  | None, Some b => rho / T * nrm2 (nthF (dft tw n (pad n (1 :: b))) k)
  | None, None => 0
  end.

Lemma nthF_vnrm2 (l : list F) k : nthF (vnrm2 l) k = nrm2 (nthF l k).
Proof. unfold vnrm2. apply nthF_map. unfold nrm2. ring. Qed.

Lemma arma_coeffs_some (n : nat) (c : list F) : (length c < n)%nat -> arma_coeffs n c = Some (pad n (1 :: c)).
Proof. intros H. unfold arma_coeffs. destruct (Nat.ltb_spec (length c) n); [reflexivity|lia]. Qed.
Lemma arma_coeffs_none (n : nat) (c : list F) : (n <= length c)%nat -> arma_coeffs n c = None.
Proof. intros H. unfold arma_coeffs. destruct (Nat.ltb_spec (length c) n); [lia|reflexivity]. Qed.

Notation post := arma_post.

Lemma arma2psd_unfold tw A B rho T n sides norm : admissible A B n ->
  arma2psd tw A B rho T n sides norm = Some (post sides norm (mk n (fun k => re (rawbin tw A B rho T n k)))).
Proof.
  intros [Hab [HA HB]]. unfold arma2psd.
  destruct A as [a|], B as [b|]; cbn [olen] in HA, HB.
  - rewrite !arma_coeffs_some by lia. do 2 f_equal.
    unfold mk. rewrite map_map. apply map_ext_in. intros k Hk. unfold rawbin. rewrite !nthF_vnrm2. reflexivity.
  - rewrite !arma_coeffs_some by lia. do 2 f_equal.
    unfold mk. rewrite map_map. apply map_ext_in. intros k Hk. unfold rawbin. rewrite !nthF_vnrm2. reflexivity.
  - rewrite !arma_coeffs_some by lia. do 2 f_equal.
    unfold mk. rewrite map_map. apply map_ext_in. intros k Hk. unfold rawbin. rewrite !nthF_vnrm2. reflexivity.
  - destruct Hab as [H|H]; congruence.
Qed.

(* exactly the three raise conditions of the code *)
Theorem arma2psd_raises_thm tw A B rho T n sides norm :
  arma2psd tw A B rho T n sides norm = None <->
  ((A = None /\ B = None) \/ (n < olen A)%nat \/ (n < olen B)%nat).
Proof.
  split.
  - intros H.
    destruct (Nat.le_gt_cases (olen A) n) as [HA|HA]; [|right; left; exact HA].
    destruct (Nat.le_gt_cases (olen B) n) as [HB|HB]; [|right; right; exact HB].
    destruct A as [a|]; [|destruct B as [b|]; [|left; split; reflexivity]];
      rewrite arma2psd_unfold in H by (repeat split; try assumption; left + right; discriminate); discriminate.
  - intros [[-> ->]|[H|H]].
    + reflexivity.
    + destruct A as [a|]; cbn [olen] in H; [|lia]. unfold arma2psd. rewrite arma_coeffs_none by lia. reflexivity.
    + destruct B as [b|]; cbn [olen] in H; [|lia]. unfold arma2psd. rewrite (arma_coeffs_none n b) by lia.
      destruct A as [a|]; [destruct (arma_coeffs n a)|]; reflexivity.
Qed.

Lemma arma2psd_some_adm tw A B rho T n sides norm psd :
  arma2psd tw A B rho T n sides norm = Some psd -> admissible A B n.
Proof.
  intros H.
  destruct (Nat.le_gt_cases (olen A) n) as [HA|HA].
  2:{ assert (E : arma2psd tw A B rho T n sides norm = None) by (apply arma2psd_raises_thm; right; left; exact HA). congruence. }
  destruct (Nat.le_gt_cases (olen B) n) as [HB|HB].
  2:{ assert (E : arma2psd tw A B rho T n sides norm = None) by (apply arma2psd_raises_thm; right; right; exact HB). congruence. }
  repeat split; try assumption.
  destruct A as [a|]; [left; discriminate|]. destruct B as [b|]; [right; discriminate|].
  assert (E : arma2psd tw None None rho T n sides norm = None) by (apply arma2psd_raises_thm; left; split; reflexivity). congruence.
Qed.

Lemma fftshift_length (l : list F) : length (fftshift l) = length l.
Proof. unfold fftshift. apply mk_length. Qed.
Lemma post_length sides norm (l : list F) : length (post sides norm l) = length l.
Proof.
  unfold arma_post. destruct sides, norm; rewrite ?map_length, ?fftshift_length; reflexivity.
Qed.

Theorem arma2psd_length_thm tw A B rho T n sides norm psd :
  arma2psd tw A B rho T n sides norm = Some psd -> length psd = n.
Proof.
  intros H.
  pose proof (arma2psd_some_adm _ _ _ _ _ _ _ _ _ H) as Hadm.
  rewrite arma2psd_unfold in H by exact Hadm. injection H as <-. rewrite post_length. apply mk_length.
Qed.

(* ---------------- the closed form ---------------- *)
Theorem arma2psd_formula_thm (n : nat) (tw : Z -> F) {Tw : Twiddle n tw} (A B : option (list F)) (rho T : F) :
  admissible A B n -> isreal rho -> isreal T -> T <> 0 ->
  exists psd, arma2psd tw A B rho T n SidesDefault false = Some psd /\ length psd = n /\
    forall k, (k < n)%nat -> polyz_opt tw A (Z.of_nat k) <> 0 ->
      nthF psd k = (rho / T) * nrm2 (polyz_opt tw B (Z.of_nat k)) / nrm2 (polyz_opt tw A (Z.of_nat k)).
Proof.
  intros Hadm Hrho HT HT0. eexists. split; [apply arma2psd_unfold; exact Hadm|]. split; [cbn [arma_post]; apply mk_length|].
  intros k Hk HA0. cbn [arma_post]. rewrite nth_mk by exact Hk.
  destruct Hadm as [Hab [HA HB]].
  assert (HrT : isreal (rho / T)) by (apply isreal_div; assumption).
  destruct A as [a|], B as [b|]; cbn [olen] in HA, HB; cbn [rawbin polyz_opt] in *.
  - rewrite !(dft_coeffs n tw) by (assumption || lia).
    apply re_real. apply isreal_div; [apply isreal_mul; [exact HrT|apply isreal_nrm2]|apply isreal_nrm2|apply nrm2_neq0; exact HA0].
  - rewrite !(dft_coeffs n tw) by (assumption || lia). rewrite nrm2_one.
    rewrite re_real by (apply isreal_div; [exact HrT|apply isreal_nrm2|apply nrm2_neq0; exact HA0]).
    field; repeat split; first [exact HT0 | apply nrm2_neq0; exact HA0].
  - rewrite !(dft_coeffs n tw) by (assumption || lia). rewrite nrm2_one.
    rewrite re_real by (apply isreal_mul; [exact HrT|apply isreal_nrm2]).
    field; repeat split; first [exact HT0 | exact HA0].
  - destruct Hab as [H|H]; congruence.
Qed.

(* ---------------- rho enters linearly, T inversely (any sides, no normalisation) ---------------- *)
Lemma rawbin_rho tw A B rho T n k c : rawbin tw A B (c * rho) T n k = c * rawbin tw A B rho T n k.
Proof. unfold rawbin. destruct A, B; rewrite ?div_mul_inv; ring. Qed.
Lemma rawbin_T tw A B rho T n k c : c <> 0 -> T <> 0 -> rawbin tw A B rho (c * T) n k = inv c * rawbin tw A B rho T n k.
Proof.
  intros Hc HT. unfold rawbin.
  assert (E : rho / (c * T) = inv c * (rho / T)) by (field; split; assumption).
  destruct A, B; rewrite ?E, ?div_mul_inv; ring.
Qed.

Lemma fftshift_map (g : F -> F) (l : list F) : g 0 = 0 -> fftshift (map g l) = map g (fftshift l).
Proof.
  intros Hg. apply list_eq_nth.
  - rewrite fftshift_length, !map_length, fftshift_length. reflexivity.
  - intros j Hj. rewrite fftshift_length, map_length in Hj.
    rewrite (nthF_map g (fftshift l)) by exact Hg. unfold fftshift. rewrite map_length.
    rewrite !nth_mk by exact Hj. destruct (j <? length l / 2)%nat; apply nthF_map; exact Hg.
Qed.
Lemma mk_map n (g : F -> F) (f : nat -> F) : mk n (fun k => g (f k)) = map g (mk n f).
Proof. unfold mk. rewrite map_map. reflexivity. Qed.

Lemma post_vscale sides c (l : list F) : post sides false (vscale c l) = vscale c (post sides false l).
Proof.
  unfold arma_post. destruct sides; [reflexivity|]. unfold vscale. apply fftshift_map. ring.
Qed.

Theorem arma2psd_linear_in_rho_thm tw A B rho T n sides c : isreal c ->
  arma2psd tw A B (c * rho) T n sides false = option_map (vscale c) (arma2psd tw A B rho T n sides false).
Proof.
  intros Hc.
  destruct (arma2psd tw A B rho T n sides false) as [psd|] eqn:E.
  - pose proof (arma2psd_some_adm _ _ _ _ _ _ _ _ _ E) as Hadm.
    rewrite arma2psd_unfold in E by exact Hadm. injection E as <-.
    rewrite arma2psd_unfold by exact Hadm. cbn [option_map]. f_equal.
    transitivity (post sides false (vscale c (mk n (fun k => re (rawbin tw A B rho T n k))))); [|exact (post_vscale sides c _)].
    f_equal. unfold vscale. rewrite <- mk_map. apply mk_ext; intros k Hk.
    rewrite rawbin_rho. apply re_scale. exact Hc.
  - cbn [option_map]. apply arma2psd_raises_thm. apply arma2psd_raises_thm in E. exact E.
Qed.

Theorem arma2psd_inverse_in_T_thm tw A B rho T n sides c : isreal c -> c <> 0 -> T <> 0 ->
  arma2psd tw A B rho (c * T) n sides false = option_map (vscale (inv c)) (arma2psd tw A B rho T n sides false).
Proof.
  intros Hc Hc0 HT0.
  destruct (arma2psd tw A B rho T n sides false) as [psd|] eqn:E.
  - pose proof (arma2psd_some_adm _ _ _ _ _ _ _ _ _ E) as Hadm.
    rewrite arma2psd_unfold in E by exact Hadm. injection E as <-.
    rewrite arma2psd_unfold by exact Hadm. cbn [option_map]. f_equal.
    transitivity (post sides false (vscale (inv c) (mk n (fun k => re (rawbin tw A B rho T n k))))); [|exact (post_vscale sides (inv c) _)].
    f_equal. unfold vscale. rewrite <- mk_map. apply mk_ext; intros k Hk.
    rewrite rawbin_T by assumption. apply re_scale. apply isreal_inv; assumption.
  - cbn [option_map]. apply arma2psd_raises_thm. apply arma2psd_raises_thm in E. exact E.
Qed.

(* ---------------- centerdc = fftshift of the default layout ---------------- *)
Theorem arma2psd_centerdc_thm tw A B rho T n psd :
  arma2psd tw A B rho T n SidesDefault false = Some psd ->
  exists psd', arma2psd tw A B rho T n SidesCenterdc false = Some psd' /\ length psd' = n /\
    forall j, (j < n)%nat ->
      nthF psd' j = nthF psd (if (j <? n / 2)%nat then j + (n - n / 2) else j - n / 2).
Proof.
  intros H. pose proof (arma2psd_length_thm _ _ _ _ _ _ _ _ _ H) as Hlen.
  exists (fftshift psd). split; [|split].
  - unfold arma2psd in *. destruct A as [a|], B as [b|];
      repeat match goal with |- context [arma_coeffs ?n ?c] => destruct (arma_coeffs n c) end;
      try discriminate; injection H as <-; reflexivity.
  - rewrite fftshift_length. exact Hlen.
  - intros j Hj. unfold fftshift. rewrite Hlen. rewrite nth_mk by exact Hj. destruct (j <? n / 2)%nat; reflexivity.
Qed.

(* ---------------- normalisation: division by the (first) largest entry ---------------- *)
Theorem arma2psd_norm_thm tw A B rho T n sides psd :
  arma2psd tw A B rho T n sides false = Some psd ->
  arma2psd tw A B rho T n sides true = Some (map (fun x => x / vmax psd) psd).
Proof.
  intros H. unfold arma2psd in *. destruct A as [a|], B as [b|];
    repeat match goal with |- context [arma_coeffs ?n ?c] => destruct (arma_coeffs n c) end;
    try discriminate; injection H as <-; reflexivity.
Qed.

Lemma vmax_fold_in (t : list F) (x : F) :
  In (fold_left (fun m y => if le0 (y - m) then m else y) t x) (x :: t).
Proof.
  revert x; induction t as [|y t IH]; intros x; [left; reflexivity|].
  cbn [fold_left]. destruct (le0 (y - x)).
  - destruct (IH x) as [E|E]; [left; exact E|right; right; exact E].
  - right. apply IH.
Qed.
Lemma vmax_in (l : list F) : l <> [] -> In (vmax l) l.
Proof. destruct l as [|x t]; [congruence|]. intros _. apply vmax_fold_in. Qed.

(* ---------------- real coefficients: the two-sided spectrum is even ---------------- *)
Lemma vconj_real (c : list F) : (forall j, (j < length c)%nat -> isreal (nthF c j)) -> vconj c = c.
Proof.
  intros H. apply list_eq_nth; [unfold vconj; apply map_length|].
  intros j Hj. unfold vconj in Hj. rewrite map_length in Hj. rewrite nthF_vconj. apply H. exact Hj.
Qed.
Definition oreal (c : option (list F)) : Prop :=
  match c with None => True | Some l => forall j, (j < length l)%nat -> isreal (nthF l j) end.
Lemma polyz_opt_mirror (n : nat) (tw : Z -> F) {Tw : Twiddle n tw} (c : option (list F)) (k : nat) :
  oreal c -> (0 < k < n)%nat -> polyz_opt tw c (Z.of_nat (n - k)) = conj (polyz_opt tw c (Z.of_nat k)).
Proof.
  intros Hr Hk. destruct c as [l|]; cbn [polyz_opt oreal] in *; [|symmetry; apply conj_1].
  rewrite (polyz_conj n tw), (vconj_real l Hr).
  replace (Z.of_nat (n - k)) with (- Z.of_nat k + 1 * Z.of_nat n)%Z by lia.
  apply (polyz_periodic n tw); lia.
Qed.
Theorem arma2psd_real_symmetric_thm (n : nat) (tw : Z -> F) {Tw : Twiddle n tw} A B rho T psd :
  oreal A -> oreal B ->
  arma2psd tw A B rho T n SidesDefault false = Some psd ->
  forall k, (0 < k < n)%nat -> nthF psd (n - k) = nthF psd k.
Proof.
  intros HrA HrB H k Hk.
  pose proof (arma2psd_some_adm _ _ _ _ _ _ _ _ _ H) as Hadm.
  rewrite arma2psd_unfold in H by exact Hadm. injection H as <-. cbn [arma_post].
  rewrite !nth_mk by lia. f_equal.
  destruct Hadm as [_ [HA HB]].
  assert (EA : forall a, A = Some a -> nrm2 (nthF (dft tw n (pad n (1 :: a))) (n - k)) = nrm2 (nthF (dft tw n (pad n (1 :: a))) k)).
  { intros a ->. cbn [olen] in HA. rewrite !(dft_coeffs n tw) by lia.
    pose proof (polyz_opt_mirror n tw (Some a) k HrA Hk) as E; cbn [polyz_opt] in E; rewrite E. apply nrm2_conj. }
  assert (EB : forall b, B = Some b -> nrm2 (nthF (dft tw n (pad n (1 :: b))) (n - k)) = nrm2 (nthF (dft tw n (pad n (1 :: b))) k)).
  { intros b ->. cbn [olen] in HB. rewrite !(dft_coeffs n tw) by lia.
    pose proof (polyz_opt_mirror n tw (Some b) k HrB Hk) as E; cbn [polyz_opt] in E; rewrite E. apply nrm2_conj. }
  unfold rawbin. destruct A as [a|], B as [b|]; rewrite ?(EA a eq_refl), ?(EB b eq_refl); reflexivity.
Qed.

(* ---------------- order: the model spectrum is non-negative; the maximum bounds every entry ---------------- *)
Section Ordered.
Context {OL : OrdLaws OF}.
Theorem arma2psd_nonneg_thm (n : nat) (tw : Z -> F) {Tw : Twiddle n tw} A B rho T psd :
  pos rho -> pos T ->
  arma2psd tw A B rho T n SidesDefault false = Some psd ->
  forall k, (k < n)%nat -> polyz_opt tw A (Z.of_nat k) <> 0 -> nonneg (nthF psd k).
Proof.
  intros Hrho HT H k Hk HA0.
  pose proof (arma2psd_some_adm _ _ _ _ _ _ _ _ _ H) as Hadm.
  destruct (arma2psd_formula_thm n tw A B rho T Hadm (pos_real _ Hrho) (pos_real _ HT) (proj2 HT)) as [psd' [E [_ Hf]]].
  rewrite E in H. injection H as ->. rewrite (Hf k Hk HA0).
  apply nonneg_div.
  - apply nn_mul; [apply nonneg_div; [apply Hrho|exact HT]|apply nn_nrm2].
  - split; [apply nn_nrm2|apply nrm2_neq0; exact HA0].
Qed.
(* the entry the normalisation divides by bounds every (real) entry from above *)
Lemma vmax_fold_ub (t : list F) : forall m, isreal m -> (forall y, In y t -> isreal y) ->
  let r := fold_left (fun m y => if le0 (y - m) then m else y) t m in
  le m r /\ forall y, In y t -> le y r.
Proof.
  induction t as [|y t IH]; intros m Hm Ht; cbn [fold_left].
  - split; [apply le_refl|intros y []].
  - assert (Hy : isreal y) by (apply Ht; left; reflexivity).
    assert (Hd : conj (y - m) = y - m) by (apply isreal_sub; assumption).
    destruct (le0 (y - m)) eqn:E.
    + destruct (IH m Hm (fun z Hz => Ht z (or_intror Hz))) as [H1 H2].
      split; [exact H1|]. intros z [<-|Hz]; [|apply H2; exact Hz].
      apply (le_trans y m); [|exact H1]. unfold le. apply (nonneg_eq (- (y - m))); [ring|].
      apply le0_true_nonpos; assumption.
    + destruct (IH y Hy (fun z Hz => Ht z (or_intror Hz))) as [H1 H2].
      assert (Hmy : le m y) by (unfold le; apply (le0_false_pos _ Hd E)).
      split; [apply (le_trans m y); assumption|].
      intros z [<-|Hz]; [exact H1|apply H2; exact Hz].
Qed.
Theorem vmax_ub (l : list F) : (forall y, In y l -> isreal y) -> forall y, In y l -> le y (vmax l).
Proof.
  destruct l as [|x t]; [intros _ y []|]. intros Hl y Hy. unfold vmax.
  destruct (vmax_fold_ub t x (Hl x (or_introl eq_refl)) (fun z Hz => Hl z (or_intror Hz))) as [H1 H2].
  destruct Hy as [<-|Hy]; [exact H1|apply H2; exact Hy].
Qed.
End Ordered.
End Arma2psdTheory.
