(* Musicus' closed form, by induction over the step-up recursion:
     (1/P_p) sum_{i,j<=p} (p+1-i-j) a_i conj(a_j) w^(i-j)  =  sum_{k<=p} |A_k(w)|^2 / P_k      (|w| = 1)
   where a = a^(p) is the step-up polynomial of the reflection coefficients k_1..k_p, A_k its order-k
   truncation (step-up of k_1..k_k) and P_k = P_0 prod_{i<=k} (1-|k_i|^2).
   The key step is  Q_{p+1} = (1-|k|^2) Q_p + |A_{p+1}|^2  with  Q = n|A|^2 - conj(A')A - conj(A)A',
   A' the index-weighted polynomial (a Christoffel-Darboux type identity). *)
Require Import Spectrum.Theory.Ops Spectrum.Theory.Sum Spectrum.Theory.Vec Spectrum.Theory.Dft
               Spectrum.Model.Levinson Spectrum.Model.Burg Spectrum.Model.Minvar
               Spectrum.Proofs.LevinsonTheory Spectrum.Proofs.BurgTheory Spectrum.Proofs.MinvarTheory.

Section Musicus.
Context {F : Type} {OF : Ops F} {L : Laws OF}.
Local Open Scope F_scope.
Add Field FFmu : (fth (O:=OF)).

Lemma sumf_prod n m (c d : nat -> F) :
  sumf n (fun i => sumf m (fun j => c i * d j)) = sumf n c * sumf m d.
Proof.
  rewrite <- sumf_scale_r. apply sumf_ext; intros i _. apply sumf_scale.
Qed.

(* sum against the stepped-up coefficients *)
Lemma stepsum p (a : nat -> F) k (c : nat -> F) : a O = 1 ->
  sumf (S (S p)) (fun j => step_a p a k j * c j)
  = sumf (S p) (fun j => a j * c j) + k * sumf (S p) (fun i => conj (a i) * c (S p - i)%nat).
Proof.
  intros Ha0.
  transitivity (sumf (S (S p)) (fun j => (if (j <=? p)%nat then a j else 0) * c j
                 + k * ((if (j =? O)%nat then 0 else conj (a (S p - j)%nat)) * c j))).
  { apply sumf_ext; intros j Hj. unfold step_a.
    destruct (Nat.eqb_spec j O) as [->|J0]. { cbn. ring. }
    destruct (Nat.leb_spec j p) as [Jm|Jm]. { ring. }
    destruct (Nat.eqb_spec j (S p)) as [->|JS]; [|lia].
    rewrite Nat.sub_diag, Ha0, conj_1. ring. }
  rewrite sumf_add, sumf_scale. f_equal.
  - rewrite (sumf_S (S p)). destruct (Nat.leb_spec (S p) p); [lia|].
    transitivity (sumf (S p) (fun j => a j * c j) + 0 * c (S p)); [|ring].
    f_equal. apply sumf_ext; intros j Hj. destruct (Nat.leb_spec j p); [reflexivity|lia].
  - f_equal. rewrite sumf_shift. cbn [Nat.eqb].
    transitivity (sumf (S p) (fun i0 => conj (a (S p - S i0)%nat) * c (S i0))); [ring|].
    rewrite (sumf_rev (S p)). apply sumf_ext; intros l Hl.
    f_equal; [do 2 f_equal; lia|f_equal; lia].
Qed.

Section Freq.
Context (nfft : nat) (tw : Z -> F) {T : Twiddle nfft tw}.
Hypothesis n_pos : (0 < nfft)%nat.
Variable f : Z.

(* A(f) = sum_i l_i w^i and the index-weighted A'(f) = sum_i i l_i w^i, w^i = tw(i f) *)
Definition ev (l : list F) : F := dftN tw (length l) (nthF l) f.
Definition ev1 (l : list F) : F := sumf (length l) (fun i => ofnat i * nthF l i * tw (Z.of_nat i * f)%Z).
Definition Qv (l : list F) : F :=
  ofnat (length l) * ev l * conj (ev l) - ev1 l * conj (ev l) - ev l * conj (ev1 l).

Lemma tw_split i j : tw ((Z.of_nat i - Z.of_nat j) * f)%Z = tw (Z.of_nat i * f)%Z * conj (tw (Z.of_nat j * f)%Z).
Proof.
  rewrite tw_cj, <- tw_add. f_equal. ring.
Qed.

(* the weighted double sum is Q *)
Lemma double_sum_Qv (l : list F) :
  sumf (length l) (fun i => sumf (length l) (fun j => mv_g tw (length l) l f i j)) = Qv l.
Proof.
  set (m := length l).
  set (x := fun i => nthF l i * tw (Z.of_nat i * f)%Z).
  set (y := fun i => ofnat i * nthF l i * tw (Z.of_nat i * f)%Z).
  transitivity (sumf m (fun i => sumf m (fun j => (ofnat m * x i) * conj (x j)))
                - sumf m (fun i => sumf m (fun j => y i * conj (x j)))
                - sumf m (fun i => sumf m (fun j => x i * conj (y j)))).
  { rewrite <- !sumf_sub. apply sumf_ext; intros i _. rewrite <- !sumf_sub. apply sumf_ext; intros j _.
    unfold mv_g, x, y. rewrite tw_split, !conj_mul, conj_ofnat. ring. }
  rewrite !sumf_prod. unfold Qv, ev, ev1, dftN. fold m. rewrite !sumf_conj, sumf_scale. fold x. fold y. reflexivity.
Qed.

Lemma nth_cons_afun (a : list F) j : nthF (1 :: a) j = afun a j.
Proof. destruct j; reflexivity. Qed.

Lemma ev_stepup (a : list F) k :
  ev (1 :: stepup a k) = ev (1 :: a) + k * (tw (Z.of_nat (S (length a)) * f)%Z * conj (ev (1 :: a))).
Proof.
  unfold ev, dftN. cbn [length]. rewrite stepup_length.
  rewrite (sumf_ext (S (S (length a))) _ (fun j => step_a (length a) (afun a) k j * tw (Z.of_nat j * f)%Z)).
  2:{ intros j Hj. rewrite nth_cons_afun, (afun_stepup (length a)) by (auto; lia). reflexivity. }
  rewrite (stepsum (length a) (afun a) k (fun j => tw (Z.of_nat j * f)%Z)) by reflexivity.
  apply f_equal2.
  - apply sumf_ext; intros j _. rewrite nth_cons_afun. reflexivity.
  - f_equal. rewrite sumf_conj, <- sumf_scale. apply sumf_ext; intros i Hi.
    rewrite nth_cons_afun, conj_mul, tw_cj.
    replace (Z.of_nat (S (length a) - i) * f)%Z with (Z.of_nat (S (length a)) * f + - (Z.of_nat i * f))%Z
      by (rewrite Nat2Z.inj_sub by lia; ring).
    rewrite tw_add. ring.
Qed.

Lemma ev1_stepup (a : list F) k :
  ev1 (1 :: stepup a k)
  = ev1 (1 :: a) + k * (tw (Z.of_nat (S (length a)) * f)%Z
                         * (ofnat (S (length a)) * conj (ev (1 :: a)) - conj (ev1 (1 :: a)))).
Proof.
  unfold ev1, ev, dftN. cbn [length]. rewrite stepup_length.
  rewrite (sumf_ext (S (S (length a))) _
            (fun j => step_a (length a) (afun a) k j * (ofnat j * tw (Z.of_nat j * f)%Z))).
  2:{ intros j Hj. rewrite nth_cons_afun, (afun_stepup (length a)) by (auto; lia). ring. }
  rewrite (stepsum (length a) (afun a) k (fun j => ofnat j * tw (Z.of_nat j * f)%Z)) by reflexivity.
  apply f_equal2.
  - apply sumf_ext; intros j _. rewrite nth_cons_afun. ring.
  - f_equal. rewrite !sumf_conj, <- sumf_scale, <- sumf_sub, <- sumf_scale. apply sumf_ext; intros i Hi.
    rewrite nth_cons_afun, !conj_mul, conj_ofnat, tw_cj. rewrite ofnat_sub by lia.
    replace (Z.of_nat (S (length a) - i) * f)%Z with (Z.of_nat (S (length a)) * f + - (Z.of_nat i * f))%Z
      by (rewrite Nat2Z.inj_sub by lia; ring).
    rewrite tw_add. ring.
Qed.

(* pure algebra of one step (w = tw((p+1) f), conj w = 1/w on the unit circle) *)
Lemma musicus_alg (A cA A1 cA1 k ck n w : F) : w <> 0 ->
  let B := w * cA in let cB := (1 / w) * A in
  let B1 := w * (n * cA - cA1) in let cB1 := (1 / w) * (n * A - A1) in
  (n + 1) * (A + k * B) * (cA + ck * cB) - (A1 + k * B1) * (cA + ck * cB) - (A + k * B) * (cA1 + ck * cB1)
  = (1 - k * ck) * (n * A * cA - A1 * cA - A * cA1) + (A + k * B) * (cA + ck * cB).
Proof. intros Hw. cbn zeta. field. exact Hw. Qed.

Lemma Qv_step (a : list F) k :
  Qv (1 :: stepup a k) = (1 - k * conj k) * Qv (1 :: a) + nrm2 (ev (1 :: stepup a k)).
Proof.
  unfold Qv, nrm2. rewrite ev_stepup, ev1_stepup. cbn [length]. rewrite stepup_length.
  set (w := tw (Z.of_nat (S (length a)) * f)%Z).
  assert (Hw : w <> 0) by (apply (tw_neq_0 nfft tw n_pos)).
  assert (Hcw : conj w = 1 / w).
  { pose proof (tw_nrm2 nfft tw n_pos (Z.of_nat (S (length a)) * f)%Z) as E. fold w in E. unfold nrm2 in E.
    transitivity ((w * conj w) / w); [field; exact Hw|rewrite E; reflexivity]. }
  set (A := ev (1 :: a)). set (A1 := ev1 (1 :: a)).
  rewrite !conj_add, !conj_mul, !conj_sub, !conj_mul, !conj_conj, conj_ofnat, Hcw.
  change (ofnat (S (S (length a)))) with (ofnat (S (length a)) + 1).
  apply (musicus_alg A (conj A) A1 (conj A1) k (conj k) (ofnat (S (length a))) w Hw).
Qed.

Lemma ev_one : ev [1] = 1.
Proof. unfold ev, dftN. cbn. rewrite tw_0. ring. Qed.
Lemma ev1_one : ev1 [1] = 0.
Proof. unfold ev1. cbn. ring. Qed.

Lemma firstn_snoc_le (ks : list F) k j : (j <= length ks)%nat -> firstn j (ks ++ [k]) = firstn j ks.
Proof.
  intros H. rewrite firstn_app. replace (j - length ks)%nat with O by lia. cbn. apply app_nil_r.
Qed.
Lemma firstn_snoc_all (ks : list F) k : firstn (S (length ks)) (ks ++ [k]) = ks ++ [k].
Proof.
  rewrite <- (firstn_all (ks ++ [k])) at 2. f_equal. rewrite app_length. cbn. lia.
Qed.

(* Musicus' closed form *)
Theorem musicus_closed_form_thm (P0 : F) (ks : list F) : P0 * prodk ks <> 0 ->
  Qv (1 :: stepup_all ks) / (P0 * prodk ks)
  = sumf (S (length ks)) (fun k => nrm2 (ev (1 :: stepup_all (firstn k ks))) / (P0 * prodk (firstn k ks))).
Proof.
  induction ks as [|k ks IH] using rev_ind; intros HP.
  - cbn [length sumf firstn stepup_all fold_left prodk] in *. unfold Qv. rewrite ev_one, ev1_one. cbn [length ofnat].
    unfold nrm2. rewrite conj_1, conj_0. field. intros E. apply HP. rewrite E. ring.
  - rewrite prodk_app in HP.
    assert (HP1 : P0 * prodk ks <> 0) by (intros E; apply HP; transitivity ((P0 * prodk ks) * (1 - k * conj k)); [ring|rewrite E; ring]).
    assert (Hk : 1 - k * conj k <> 0) by (intros E; apply HP; rewrite E; ring).
    rewrite app_length. cbn [length]. replace (length ks + 1)%nat with (S (length ks)) by lia.
    rewrite (sumf_S (S (length ks))). rewrite firstn_snoc_all.
    rewrite (sumf_ext (S (length ks)) _ (fun j => nrm2 (ev (1 :: stepup_all (firstn j ks))) / (P0 * prodk (firstn j ks)))).
    2:{ intros j Hj. rewrite firstn_snoc_le by lia. reflexivity. }
    rewrite <- (IH HP1). rewrite stepup_all_app, prodk_app, Qv_step.
    field. split; [exact Hk|]. split; intros E; apply HP1; rewrite E; ring.
Qed.
End Freq.
End Musicus.
