(* max <= 1 for the closed-form generators, over R.  The cosine-sum windows are handled by ONE
   polynomial identity in c = cos x:
     (a0+a1+a2+a3+a4) - w = (1+c) (a1 + 2 a2 (1-c) + a3 (2c-1)^2 + 8 a4 c^2 (1-c))
   so that w <= sum of the coefficients whenever a1..a4 >= 0 — exact (attained at c = -1), no interval
   arithmetic needed; the flat-top bound 1+4e-9 and the refutation of "<= 1" follow from the sum. *)
From Coq Require Import Reals Lra Lia.
Require Import Spectrum.Theory.Ops Spectrum.Theory.Vec Spectrum.Model.Window Spectrum.Instances.RWin
               Spectrum.Proofs.WindowBridge Spectrum.Proofs.WindowReal Spectrum.Proofs.WindowGen
               Spectrum.Proofs.WindowSym Spectrum.Proofs.WindowPiecewise Spectrum.Proofs.WindowShape.
Local Open Scope R_scope.
Notation length := List.length.

Lemma div_le_1 a b : 0 < b -> a <= b -> a / b <= 1.
Proof. intros Hb H. apply (Rmult_le_reg_r b); [exact Hb|]. unfold Rdiv. rewrite Rmult_assoc, Rinv_l by lra. lra. Qed.
Lemma div_ge a b c : 0 < b -> c * b <= a -> c <= a / b.
Proof. intros Hb H. apply (Rmult_le_reg_r b); [exact Hb|]. unfold Rdiv. rewrite Rmult_assoc, Rinv_l by lra. lra. Qed.

Lemma cosine_sum_le (a0 a1 a2 a3 a4 x : R) : 0 <= a1 -> 0 <= a2 -> 0 <= a3 -> 0 <= a4 ->
  a0 - a1 * cos x + a2 * cos (2 * x) - a3 * cos (3 * x) + a4 * cos (4 * x) <= a0 + a1 + a2 + a3 + a4.
Proof.
  intros H1 H2 H3 H4. rewrite cos_2a_cos, cos_3a, cos_4a. pose proof (COS_bound x) as [Hl Hu].
  set (c := cos x) in *.
  assert (E : a0 + a1 + a2 + a3 + a4 - (a0 - a1 * c + a2 * (2 * c * c - 1) - a3 * (4 * c * c * c - 3 * c)
              + a4 * (8 * (c * c) * (c * c) - 8 * (c * c) + 1))
            = (1 + c) * (a1 + 2 * a2 * (1 - c) + a3 * ((2 * c - 1) * (2 * c - 1)) + 8 * a4 * (c * c) * (1 - c))) by ring.
  assert (P : 0 <= (1 + c) * (a1 + 2 * a2 * (1 - c) + a3 * ((2 * c - 1) * (2 * c - 1)) + 8 * a4 * (c * c) * (1 - c))).
  { apply Rmult_le_pos; [lra|].
    assert (0 <= 2 * a2 * (1 - c)) by (apply Rmult_le_pos; lra).
    assert (0 <= a3 * ((2 * c - 1) * (2 * c - 1))) by (apply Rmult_le_pos; [lra|apply Rle_0_sqr]).
    assert (0 <= 8 * a4 * (c * c) * (1 - c)).
    { apply Rmult_le_pos; [|lra]. apply Rmult_le_pos; [lra|apply Rle_0_sqr]. }
    lra. }
  lra.
Qed.

Section Max.
Variables (I0 : R -> R) (cheb : nat -> R -> list R).
#[local] Hint Extern 0 (TOps R) => exact (rT I0 cheb) : typeclass_instances.
Ltac tsimp := cbn [tcos tsin texp tln tsqrt tabs tpi tI0 tltb tleb teqb tcheb r_tops rT] in *; rsimp.

Definition le1 (l : list R) : Prop := forall n, (n < length l)%nat -> nthF l n <= 1.

Lemma le1_mkz N (f : Z -> R) : (forall i, (0 <= i < Z.of_nat N)%Z -> f i <= 1) -> le1 (mkz N f).
Proof. intros H n Hn. rewrite mkz_length in Hn. rewrite nth_mkz by exact Hn. apply H. lia. Qed.
Lemma le1_unless1 N (f : Z -> R) : ((2 <= N)%nat -> forall i, (0 <= i < Z.of_nat N)%Z -> f i <= 1) -> le1 (unless1 N f).
Proof.
  intros H. unfold unless1. destruct (Nat.eqb_spec N 1) as [->|HN].
  - intros n Hn. cbn in Hn. assert (n = 0)%nat by lia. subst. unfold nthF; cbn [nth]; rsimp; lra.
  - apply le1_mkz. intros i Hi. apply H; lia.
Qed.
Lemma le1_Forall l : le1 l <-> Forall (fun x => x <= 1) l.
Proof.
  split.
  - intros H. apply Forall_forall. intros x Hx. apply (In_nth _ _ 0) in Hx. destruct Hx as [n [Hn <-]]. apply H. exact Hn.
  - intros H n Hn. rewrite Forall_forall in H. apply H. apply nth_In. exact Hn.
Qed.

(* m = N-1 > 0, x = i in [0, m] *)
Ltac idx_setup N HN i Hi m x Hm Hx :=
  pose proof (IZR_pred_pos N HN) as Hm;
  assert (Hx : 0 <= IZR i <= IZR (Z.of_nat N - 1)) by (split; apply IZR_le; lia);
  rewrite ?ofZ_IZR, ?two_R, ?half_R, ?lit_IZR;
  set (m := IZR (Z.of_nat N - 1)) in *; set (x := IZR i) in *; tsimp.

Lemma rectangle_le1 N : le1 (window_rectangle N).
Proof. apply le1_mkz. intros; rsimp; lra. Qed.
Lemma hann_le1 N : le1 (window_hann N).
Proof.
  unfold window_hann. apply le1_unless1. intros HN i Hi. cbv zeta. rewrite half_R. tsimp.
  match goal with |- context [cos ?a] => pose proof (COS_bound a) end. lra.
Qed.
Lemma hann_ge0 N n : (n < N)%nat -> 0 <= nthF (window_hann N) n.
Proof.
  intros Hn. unfold window_hann, unless1. destruct (Nat.eqb_spec N 1) as [->|HN].
  - assert (n = 0)%nat by lia. subst. unfold nthF; cbn [nth]; rsimp; lra.
  - rewrite nth_mkz by exact Hn. cbv zeta. rewrite half_R. tsimp.
    match goal with |- context [cos ?a] => pose proof (COS_bound a) end. lra.
Qed.
Lemma hamming_le1 N : le1 (window_hamming N).
Proof.
  unfold window_hamming. apply le1_unless1. intros HN i Hi. cbv zeta. rewrite !lit_IZR. tsimp.
  match goal with |- context [cos ?a] => pose proof (COS_bound a) end. lra.
Qed.
Lemma bartlett_le1 N : le1 (window_bartlett N).
Proof.
  unfold window_bartlett. apply le1_unless1. intros HN i Hi. cbv zeta.
  generalize (np_n (Z.of_nat N) i). intros y. idx_setup N HN i Hi m x Hm Hx. unfold Rleb.
  destruct (Rle_dec y 0).
  - assert (0 <= (- y) * / m) by (apply Rle_mult_inv_pos; lra). unfold Rdiv. lra.
  - assert (0 <= y * / m) by (apply Rle_mult_inv_pos; lra). unfold Rdiv. lra.
Qed.
Definition I0_ok : Prop := (forall x, 0 <= x -> 0 < I0 x) /\ (forall x y, 0 <= x <= y -> I0 x <= I0 y).
Lemma kaiser_le1 N beta : I0_ok -> 0 <= beta -> le1 (window_kaiser N beta).
Proof.
  intros [Hpos Hmono] Hb. unfold window_kaiser. apply le1_unless1. intros HN i Hi. cbv zeta.
  idx_setup N HN i Hi m x Hm Hx. rewrite sq_R.
  set (s := (x - m / 2) / (m / 2)).
  assert (Hs : -1 <= s <= 1).
  { unfold s. replace ((x - m / 2) / (m / 2)) with (x * / (m / 2) - 1) by (field; lra).
    assert (0 <= x * / (m / 2)) by (apply Rle_mult_inv_pos; lra).
    assert (x * / (m / 2) <= 2).
    { apply (Rmult_le_reg_r (m / 2)); [lra|]. rewrite Rmult_assoc, Rinv_l by lra. lra. }
    lra. }
  assert (Ht : 0 <= 1 - s * s <= 1) by nra.
  assert (Hq : 0 <= sqrt (1 - s * s) <= 1).
  { split; [apply sqrt_pos|]. assert (H1 : sqrt (1 - s * s) <= sqrt 1) by (apply sqrt_le_1; lra). rewrite sqrt_1 in H1. exact H1. }
  assert (Ha : 0 <= beta * sqrt (1 - s * s) <= beta) by nra.
  pose proof (Hpos beta Hb) as Hp. pose proof (Hmono _ _ Ha) as Hle.
  apply (Rmult_le_reg_r (I0 beta)); [exact Hp|]. unfold Rdiv. rewrite Rmult_assoc, Rinv_l by lra. lra.
Qed.
Lemma blackman_le1 N alpha : 0 <= alpha -> le1 (window_blackman N alpha).
Proof.
  intros Ha. unfold window_blackman. apply le1_unless1. intros HN i Hi. cbv zeta.
  idx_setup N HN i Hi m x Hm Hx.
  replace (4 * PI * (x / m)) with (2 * (2 * PI * (x / m))) by ring. rewrite cos_2a_cos.
  pose proof (COS_bound (2 * PI * (x / m))) as [Hl Hu]. set (c := cos (2 * PI * (x / m))) in *.
  assert (0 <= alpha * ((1 - c) * (1 + c))) by (apply Rmult_le_pos; [lra|apply Rmult_le_pos; lra]).
  nra.
Qed.
Lemma cosine_le1 N : le1 (window_cosine N).
Proof.
  unfold window_cosine. apply le1_unless1. intros HN i Hi. cbv zeta. tsimp.
  match goal with |- sin ?a <= 1 => pose proof (SIN_bound a) end. lra.
Qed.
Lemma lanczos_le1 N : le1 (window_lanczos N).
Proof. unfold window_lanczos. apply le1_unless1. intros HN i Hi. cbv zeta. apply sinc_le_1. Qed.
Lemma bartlett_hann_le1 N : le1 (window_bartlett_hann N).
Proof.
  unfold window_bartlett_hann, bh_a0, bh_a1, bh_a2. apply le1_unless1. intros HN i Hi. cbv zeta.
  rewrite !lit_IZR. tsimp.
  match goal with |- context [cos ?a] => pose proof (COS_bound a) end.
  match goal with |- context [Rabs ?a] => pose proof (Rabs_pos a) end. lra.
Qed.
Lemma coeff4_le N a0 a1 a2 a3 n : 0 <= a1 -> 0 <= a2 -> 0 <= a3 -> 1 <= a0 + a1 + a2 + a3 ->
  (n < N)%nat -> nthF (coeff4 N a0 a1 a2 a3) n <= a0 + a1 + a2 + a3.
Proof.
  intros H1 H2 H3 Hs Hn. unfold coeff4, unless1. destruct (Nat.eqb_spec N 1) as [->|HN].
  - assert (n = 0)%nat by lia. subst. unfold nthF; cbn [nth]; rsimp; lra.
  - rewrite nth_mkz by exact Hn. cbv zeta. rewrite !ofZ_IZR, two_R. tsimp.
    set (y := 2 * PI * IZR (Z.of_nat n) / IZR (Z.of_nat N - 1)).
    replace (4 * PI * IZR (Z.of_nat n) / IZR (Z.of_nat N - 1)) with (2 * y) by (unfold y, Rdiv; ring).
    replace (6 * PI * IZR (Z.of_nat n) / IZR (Z.of_nat N - 1)) with (3 * y) by (unfold y, Rdiv; ring).
    pose proof (cosine_sum_le a0 a1 a2 a3 0 y H1 H2 H3 (Rle_refl 0)) as H. lra.
Qed.
Lemma nuttall_le1 N : le1 (window_nuttall N).
Proof.
  intros n Hn. unfold window_nuttall in *. unfold coeff4 in Hn. rewrite unless1_length in Hn.
  eapply Rle_trans; [apply coeff4_le; rewrite ?lit_IZR; try lra; exact Hn|]. rewrite !lit_IZR. lra.
Qed.
Lemma blackman_nuttall_le1 N : le1 (window_blackman_nuttall N).
Proof.
  intros n Hn. unfold window_blackman_nuttall in *. unfold coeff4 in Hn. rewrite unless1_length in Hn.
  eapply Rle_trans; [apply coeff4_le; rewrite ?lit_IZR; try lra; exact Hn|]. rewrite !lit_IZR. lra.
Qed.
Lemma blackman_harris_le1 N : le1 (window_blackman_harris N).
Proof.
  intros n Hn. unfold window_blackman_harris in *. unfold coeff4 in Hn. rewrite unless1_length in Hn.
  eapply Rle_trans; [apply coeff4_le; rewrite ?lit_IZR; try lra; exact Hn|]. rewrite !lit_IZR. lra.
Qed.

(* flat-top: every sample (both modes) is <= the coefficient sum 1.000000003 <= 1 + 4e-9 *)
Lemma flattop_f_le y : flattop_f y <= 1000000003 / 1000000000.
Proof.
  unfold flattop_f, ft_a0, ft_a1, ft_a2, ft_a3, ft_a4. rewrite !lit_IZR, !ofZ_IZR, two_R. tsimp.
  eapply Rle_trans; [apply cosine_sum_le; lra|]. lra.
Qed.
Lemma flattop_le N p n : (n < N)%nat -> nthF (window_flattop N p) n <= 1 + 4 / 1000000000.
Proof.
  intros Hn. unfold window_flattop. cbv zeta. destruct p.
  - rewrite nth_mkz by exact Hn. apply Rle_trans with (1000000003 / 1000000000); [apply flattop_f_le|lra].
  - unfold unless1. destruct (Nat.eqb_spec N 1) as [->|HN].
    + assert (n = 0)%nat by lia. subst. unfold nthF; cbn [nth]; rsimp; lra.
    + rewrite nth_mkz by exact Hn. apply Rle_trans with (1000000003 / 1000000000); [apply flattop_f_le|lra].
Qed.

Lemma gaussian_le1 N alpha : le1 (window_gaussian N alpha).
Proof.
  unfold window_gaussian. cbv zeta. apply le1_mkz. intros i Hi. rewrite half_R. tsimp. rewrite sq_R.
  apply exp_le_1. match goal with |- - / 2 * (?a * ?a) <= 0 => pose proof (Rle_0_sqr a) as H; unfold Rsqr in H end. lra.
Qed.
Lemma IZR_N_pos N i : (0 <= i < Z.of_nat N)%Z -> 0 < IZR (Z.of_nat N).
Proof. intros. apply IZR_lt. lia. Qed.
Lemma poisson_le1 N alpha : 0 <= alpha -> le1 (window_poisson N alpha).
Proof.
  intros Ha. unfold window_poisson. cbv zeta. apply le1_mkz. intros i Hi. pose proof (IZR_N_pos N i Hi) as HN.
  rewrite ofZ_IZR, two_R. tsimp. apply exp_le_1.
  pose proof (Rabs_pos (nhalf (Z.of_nat N) i)) as Hp.
  assert (0 <= alpha * Rabs (nhalf (Z.of_nat N) i) * / (IZR (Z.of_nat N) / 2)).
  { apply Rle_mult_inv_pos; [apply Rmult_le_pos; assumption|lra]. }
  unfold Rdiv at 1. lra.
Qed.
Lemma poisson_ge0 N alpha n : (n < N)%nat -> 0 <= nthF (window_poisson N alpha) n.
Proof. intros Hn. unfold window_poisson. cbv zeta. rewrite nth_mkz by exact Hn. tsimp. left. apply exp_pos. Qed.
Lemma cauchy_le1 N alpha : le1 (window_cauchy N alpha).
Proof.
  unfold window_cauchy. cbv zeta. apply le1_mkz. intros i Hi. tsimp. rewrite sq_R.
  match goal with |- 1 / (1 + ?a * ?a) <= 1 => pose proof (Rle_0_sqr a) as H; unfold Rsqr in H; set (d := a * a) in * end.
  unfold Rdiv. rewrite Rmult_1_l. rewrite <- Rinv_1 at 2. apply Rinv_le_contravar; lra.
Qed.
Lemma riesz_le1 N : le1 (window_riesz N).
Proof.
  unfold window_riesz. cbv zeta. apply le1_mkz. intros i Hi. tsimp. rewrite sq_R.
  match goal with |- 1 - ?a * ?a <= 1 => pose proof (Rle_0_sqr a) as H; unfold Rsqr in H end. lra.
Qed.
Lemma riemann_le1 N : le1 (window_riemann N).
Proof. unfold window_riemann. cbv zeta. apply le1_mkz. intros i Hi. apply sinc_le_1. Qed.
Lemma bohman_f_le1 y : -1 <= y <= 1 -> bohman_f y <= 1.
Proof.
  intros Hy. unfold bohman_f. tsimp. assert (Ha : 0 <= Rabs y <= 1) by (split; [apply Rabs_pos|apply Rabs_le; lra]).
  set (a := Rabs y) in *. assert (HP := PI_RGT_0).
  pose proof (COS_bound (PI * a)) as [_ Hc]. assert (Hs : sin (PI * a) <= PI * a) by (apply sin_le_x; nra).
  assert (H1 : (1 - a) * cos (PI * a) <= (1 - a) * 1) by (apply Rmult_le_compat_l; lra).
  assert (H2 : 1 / PI * sin (PI * a) <= 1 / PI * (PI * a)).
  { apply Rmult_le_compat_l; [|exact Hs]. unfold Rdiv. rewrite Rmult_1_l. left. apply Rinv_0_lt_compat. exact HP. }
  replace (1 / PI * (PI * a)) with a in H2 by (field; lra). lra.
Qed.
Lemma linspace_pm1 N i : (0 <= i < Z.of_nat N)%Z -> -1 <= linspace (- (1)) 1 (Z.of_nat N) i <= 1.
Proof.
  intros Hi. destruct (Nat.lt_ge_cases N 2) as [Hs|HN].
  - assert (N = 1)%nat by lia. subst N. rewrite linspace_1. rsimp. lra.
  - rewrite linspace_R by assumption. pose proof (IZR_pred_pos N HN) as Hm.
    assert (Hx : 0 <= IZR i <= IZR (Z.of_nat N - 1)) by (split; apply IZR_le; lia). rsimp.
    set (m := IZR (Z.of_nat N - 1)) in *. set (x := IZR i) in *.
    replace (x * ((1 - - (1)) / m) + - (1)) with (2 * (x * / m) - 1) by (field; lra).
    assert (0 <= x * / m) by (apply Rle_mult_inv_pos; lra).
    assert (x * / m <= 1) by (apply (Rmult_le_reg_r m); [lra|]; rewrite Rmult_assoc, Rinv_l by lra; lra).
    lra.
Qed.
Lemma bohman_le1 N : le1 (window_bohman N).
Proof. unfold window_bohman. cbv zeta. apply le1_mkz. intros i Hi. apply bohman_f_le1. apply linspace_pm1. exact Hi. Qed.

Lemma poisson_hanning_le1 N alpha : 0 <= alpha -> le1 (window_poisson_hanning N alpha).
Proof.
  intros Ha n Hn. rewrite poisson_hanning_length in Hn. rewrite poisson_hanning_nth by exact Hn.
  pose proof (hann_le1 N n) as H1. rewrite hann_length in H1. specialize (H1 Hn).
  pose proof (poisson_le1 N alpha Ha n) as H2. rewrite poisson_length in H2. specialize (H2 Hn).
  pose proof (hann_ge0 N n Hn) as H3. pose proof (poisson_ge0 N alpha n Hn) as H4. nra.
Qed.

Lemma tukey_le1 N r : le1 (window_tukey N r).
Proof.
  unfold window_tukey. destruct (Nat.eqb_spec N 1) as [->|HN].
  - intros n Hn. cbn in Hn. assert (n = 0)%nat by lia. subst. unfold nthF; cbn [nth]; rsimp; lra.
  - match goal with |- le1 (if ?c then _ else _) => destruct c end; [apply rectangle_le1|].
    match goal with |- le1 (if ?c then _ else _) => destruct c end; [apply hann_le1|].
    cbv zeta. apply le1_Forall.
    assert (Hh : Forall (fun x => x <= 1) (tukey_head N r)).
    { unfold tukey_head. cbv zeta. apply Forall_forall. intros y Hy. apply in_map_iff in Hy. destruct Hy as [x [<- _]].
      rewrite half_R. tsimp. match goal with |- context [cos ?a] => pose proof (COS_bound a) end. lra. }
    apply Forall_app. split; [exact Hh|]. apply Forall_app. split.
    + apply le1_Forall. apply rectangle_le1.
    + apply Forall_rev. exact Hh.
Qed.

Lemma parzen_le1 N : le1 (window_parzen N).
Proof.
  rewrite parzen_pointwise. apply le1_mkz. intros i Hi. unfold parzen_pw. cbv zeta.
  pose proof (IZR_N_pos N i Hi) as HNp.
  assert (Hm0 : 0 <= IZR (Z.of_nat N - 1)) by (apply IZR_le; lia).
  assert (Hy : Rabs (pz_t N i) <= IZR (Z.of_nat N - 1) / 2).
  { destruct (Nat.lt_ge_cases N 2) as [Hs|HN].
    - assert (N = 1)%nat by lia. subst N. unfold pz_t. rewrite linspace_1. rewrite ofZ_IZR, two_R. rsimp.
      replace (- (IZR (Z.of_nat 1 - 1) / 2)) with 0 by (simpl; lra). rewrite Rabs_R0. simpl. lra.
    - rewrite pz_t_R by assumption. assert (Hx : 0 <= IZR i <= IZR (Z.of_nat N - 1)) by (split; apply IZR_le; lia).
      apply Rabs_le. lra. }
  assert (Emn : IZR (Z.of_nat N - 1) = IZR (Z.of_nat N) - 1) by (rewrite minus_IZR; reflexivity).
  set (y := pz_t N i) in *. set (m := IZR (Z.of_nat N - 1)) in *. set (nn := IZR (Z.of_nat N)) in *.
  pose proof (Rabs_pos y) as Hy0.
  assert (Hu : 0 <= Rabs y / (nn / 2) <= 1).
  { split; [apply Rle_mult_inv_pos; lra|]. apply div_le_1; lra. }
  unfold Rleb. destruct (Rle_dec (Rabs y) (m / 4)) as [Hin|Hout].
  - unfold parzen_in. rewrite !ofZ_IZR, two_R. tsimp. rewrite sq_R. unfold cube. tsimp.
    fold nn. set (u := Rabs y / (nn / 2)) in *.
    assert (0 <= u * u * (1 - u)) by (apply Rmult_le_pos; [apply Rle_0_sqr|lra]). lra.
  - unfold parzen_out. rewrite !ofZ_IZR, two_R. unfold cube. tsimp. fold nn. set (u := Rabs y / (nn / 2)) in *.
    assert (Hm1 : 1 <= m).
    { destruct (Rle_lt_dec 1 m) as [H|H]; [exact H|]. exfalso.
      assert (Z.of_nat N - 1 < 1)%Z by (apply lt_IZR; exact H). assert (m = 0) by (unfold m; replace (Z.of_nat N - 1)%Z with 0%Z by lia; reflexivity).
      apply Hout. lra. }
    assert (Hu2 : / 4 <= u).
    { unfold u. apply div_ge; lra. }
    set (v := 1 - u) in *. assert (Hv : 0 <= v <= 3 / 4) by (unfold v; lra).
    assert (H2 : v * v <= 9 / 16) by nra. assert (H3 : v * v * v <= 27 / 64) by nra. lra.
Qed.

(* ---- the family *)
Definition cheb_le1_ok : Prop := forall N a, le1 (cheb N a).
Definition max_dom (g : wgen) : Prop :=
  match g with
  | GKaiser b => 0 <= b | GBlackman a => 0 <= a | GPoisson a => 0 <= a | GPoissonHanning a => 0 <= a
  | GTaylor _ _ => False | GFlattop _ => False | _ => True
  end.
Theorem gen_max_le_1_thm (g : wgen) (N : nat) : I0_ok -> cheb_le1_ok -> max_dom g -> le1 (gen_window I0 cheb g N).
Proof.
  intros HI Hc Hd. destruct g; cbn [gen_window max_dom] in *; try contradiction.
  - apply rectangle_le1. - apply bartlett_le1. - apply hamming_le1. - apply hann_le1. - apply kaiser_le1; assumption.
  - apply blackman_le1; assumption. - apply gaussian_le1. - apply Hc. - apply cosine_le1. - apply lanczos_le1.
  - apply bartlett_hann_le1. - apply nuttall_le1. - apply blackman_nuttall_le1. - apply blackman_harris_le1.
  - apply bohman_le1. - apply tukey_le1. - apply parzen_le1. - apply riesz_le1. - apply riemann_le1.
  - apply poisson_le1; assumption. - apply poisson_hanning_le1; assumption. - apply cauchy_le1.
Qed.
End Max.
