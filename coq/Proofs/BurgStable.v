(* C13, last clause: the Burg polynomial is stable.  Abstract ordered *-field, axiom-free.
   Route: the returned AR vector is the step-up polynomial of the reflection coefficients ks and every stage
   variance rho_m = mean|x|^2 * prod_(i<m)(1-|k_i|^2) passed the code's "rho <= 0" test, so each rho_m > 0.
   The inverse-Levinson lags acf_of_refl rho_0 ks (Proofs/MinvarAcf.v) are a Hermitian sequence on which LEVINSON
   returns exactly (stepup_all ks, rho_p, ks); its stage errors are the rho_m > 0, hence the sequence is positive
   definite (Proofs/LevinsonPDConverse.v), hence every root of the polynomial has |z|^2 < 1 (pd_root_inside).
     stepup_stable_thm      r0 * prod_(i<q)(1-|k_i|^2) > 0 for q = 0..n   =>  every root of the step-up polynomial
                            of k_0..k_(n-1) lies in the open unit disc      (the Schur-Cohn / Levinson criterion)
     refl_lt1_stable_thm    all |k_i|^2 < 1  =>  the step-up polynomial is stable
     burg_state_stable_thm  every state reached by the Burg recursion carries a stable polynomial
     arburg_stable_thm      arburg x p (no criterion) = (a, rho, ks)  =>  roots of z^p + a_1 z^(p-1) + .. + a_p inside
     arburg_stable_criteria_thm   the same with ANY order-selection rule (degree = number of returned coefficients)
     arburg_k_lt_1_thm      returned models have |k_j|^2 < 1 STRICTLY (the property asks for <= 1) and rho_m > 0 *)
Require Import Spectrum.Theory.Ops Spectrum.Theory.Sum Spectrum.Theory.Vec Spectrum.Theory.Dft Spectrum.Theory.Order
               Spectrum.Model.Levinson Spectrum.Model.Burg Spectrum.Model.Minvar
               Spectrum.Proofs.LevinsonTheory Spectrum.Proofs.YulePD Spectrum.Proofs.LevinsonPD
               Spectrum.Proofs.LevinsonPDConverse
               Spectrum.Proofs.BurgStage Spectrum.Proofs.BurgTheory Spectrum.Proofs.BurgDen Spectrum.Proofs.BurgOrder
               Spectrum.Proofs.MinvarFinal Spectrum.Proofs.MinvarAcf.

Section BurgStable.
Context {F : Type} {OF : Ops F} {L : Laws OF} {OL : OrdLaws OF}.
Local Open Scope F_scope.
Add Field FFbs : (fth (O:=OF)).

(* ---------- reflection coefficients with positive stage errors give a stable step-up polynomial ---------- *)
Theorem stepup_stable_thm (r0 : F) (ks : list F) (z : F) :
  (forall q, (q <= length ks)%nat -> pos (r0 * prodk (firstn q ks))) ->
  polyval (afun (stepup_all ks)) (length ks) z = 0 -> lt (nrm2 z) 1.
Proof.
  intros Hpos Hz.
  assert (Hr0p : pos r0). { apply (pos_eq (r0 * prodk (firstn 0 ks))); [cbn; ring|apply Hpos; lia]. }
  assert (Hr0 : conj r0 = r0) by (apply pos_real; exact Hr0p).
  destruct (levinson_acf_thm r0 ks Hr0) as (Hlen & H0 & P & Hrun & HP).
  { intros q Hq. apply pos_not_le0. apply Hpos. lia. }
  set (r := acf_of_refl r0 ks) in *.
  assert (Hr : isreal (nthF r O)) by (unfold isreal; rewrite H0; exact Hr0).
  assert (HPD : PD r (length ks)).
  { apply (levinson_pd_converse_thm r (length ks) false (stepup_all ks) P ks Hr Hrun).
    intros q Hq. rewrite H0. apply Hpos. exact Hq. }
  apply (levinson_stable_thm r (length ks) false (stepup_all ks) P ks z Hr ltac:(lia) HPD Hrun Hz).
Qed.

(* non-vacuity helper: the order-1 polynomial z + a_1 has the root -a_1 *)
Lemma polyval_order1 (a : list F) : polyval (afun a) 1 (- nthF a O) = 0.
Proof. unfold polyval. cbn. ring. Qed.

Lemma prodk_lt1_pos (ks : list F) : (forall j, (j < length ks)%nat -> lt (nrm2 (nthF ks j)) 1) -> pos (prodk ks).
Proof.
  induction ks as [|k ks IH]; intros H; cbn [prodk]; [apply pos_1|].
  apply pos_mul.
  - apply (H O). cbn. lia.
  - apply IH. intros j Hj. apply (H (S j)). cbn. lia.
Qed.

Theorem refl_lt1_stable_thm (ks : list F) (z : F) :
  (forall j, (j < length ks)%nat -> lt (nrm2 (nthF ks j)) 1) ->
  polyval (afun (stepup_all ks)) (length ks) z = 0 -> lt (nrm2 z) 1.
Proof.
  intros Hk. apply (stepup_stable_thm 1 ks z). intros q Hq.
  apply (pos_eq (prodk (firstn q ks))); [ring|]. apply prodk_lt1_pos.
  intros j Hj. rewrite firstn_length in Hj. rewrite nthF_firstn by lia. apply Hk. lia.
Qed.

(* ---------- what the Burg run knows about its variances ---------- *)
Lemma burg_iter_S_le0 stop (x : list F) m st : burg_iter stop x (S m) = BCont st -> le0 (b_rho st) = false.
Proof.
  cbn [burg_iter]. destruct (burg_iter stop x m) as [s0| |]; try discriminate.
  unfold burg_step. destruct (stop _ _ _); [discriminate|]. destruct (le0 _) eqn:E; [discriminate|].
  intros H. injection H as <-. exact E.
Qed.

(* every stage variance of a run that reached order m >= 1 is positive *)
Lemma burg_rho_stages_pos (x : list F) m st : (1 <= length x)%nat -> (1 <= m)%nat ->
  burg_iter no_stop x m = BCont st ->
  forall q, (q <= m)%nat -> pos (mean_power x * prodk (firstn q (b_ref st))).
Proof.
  intros HN Hm H.
  assert (HNz : ofnat (length x) <> 0) by (apply pos_ofnat; exact HN).
  assert (Hmr : conj (mean_power x) = mean_power x) by (apply mean_power_real; exact HNz).
  assert (Hq1 : forall q, (1 <= q <= m)%nat -> pos (mean_power x * prodk (firstn q (b_ref st)))).
  { intros q Hq. destruct (burg_iter_prefix no_stop x m q st ltac:(lia) H) as (st' & Hc & Hf).
    destruct (burg_iter_cont_inv _ _ _ _ Hc) as (_ & _ & Hrho & _).
    rewrite <- Hf, <- Hrho. destruct q as [|q]; [lia|].
    apply le0_false_pos; [|exact (burg_iter_S_le0 no_stop x q st' Hc)].
    rewrite Hrho, conj_mul, Hmr, prodk_real. reflexivity. }
  intros q Hq. destruct q as [|q]; [|apply Hq1; lia].
  cbn [firstn prodk]. apply (pos_eq (mean_power x)); [ring|].
  split; [apply mean_power_nonneg; exact HN|].
  intros E. destruct (Hq1 1%nat ltac:(lia)) as [_ Hne]. apply Hne. rewrite E. ring.
Qed.

Theorem burg_state_stable_thm (x : list F) m st (z : F) : (1 <= length x)%nat ->
  burg_iter no_stop x m = BCont st ->
  polyval (afun (b_a st)) m z = 0 -> lt (nrm2 z) 1.
Proof.
  intros HN H Hz. destruct (burg_iter_cont_inv _ _ _ _ H) as (Hl & Ha & _).
  destruct m as [|m].
  { exfalso. unfold polyval in Hz. cbn in Hz. apply (one_neq_0 (F:=F)). rewrite <- Hz. ring. }
  apply (stepup_stable_thm (mean_power x) (b_ref st) z).
  - rewrite Hl. apply (burg_rho_stages_pos x (S m) st HN ltac:(lia) H).
  - rewrite Hl, <- Ha. exact Hz.
Qed.

Theorem arburg_stable_thm (x : list F) p a rho ks (z : F) :
  arburg x p no_stop = Some (a, rho, ks) ->
  polyval (afun a) p z = 0 -> lt (nrm2 z) 1.
Proof.
  intros H Hz. pose proof (arburg_some_order x p no_stop _ H) as Hp.
  destruct (arburg_criteria_thm x p no_stop _ H) as (q & st & Hq & Hc & Hres).
  unfold burg_result in Hres. injection Hres as -> -> ->.
  destruct (arburg_shape_thm x p _ _ _ H) as (Hl & _).
  destruct (burg_iter_cont_inv _ _ _ _ Hc) as (Hl' & _).
  assert (Eq : q = p) by lia. rewrite Eq in Hc.
  apply (burg_state_stable_thm x p st z ltac:(lia) Hc Hz).
Qed.

(* with an order-selection rule: the returned polynomial (degree = number of returned coefficients) is stable *)
Theorem arburg_stable_criteria_thm (x : list F) p stop a rho ks (z : F) :
  arburg x p stop = Some (a, rho, ks) ->
  polyval (afun a) (length ks) z = 0 -> lt (nrm2 z) 1.
Proof.
  intros H Hz. pose proof (arburg_some_order x p stop _ H) as Hp.
  destruct (arburg_criteria_thm x p stop _ H) as (q & st & Hq & Hc & Hres).
  unfold burg_result in Hres. injection Hres as -> -> ->.
  destruct (burg_iter_cont_inv _ _ _ _ Hc) as (Hl' & _). rewrite Hl' in Hz.
  apply (burg_state_stable_thm x q st z ltac:(lia) Hc Hz).
Qed.

(* returned models: every stage variance is positive and every reflection coefficient has modulus < 1 strictly
   (with a criterion that stops before the first stage the model is empty: nothing to claim) *)
Theorem arburg_k_lt_1_thm (x : list F) p stop a rho ks :
  arburg x p stop = Some (a, rho, ks) -> (1 <= length ks)%nat ->
  (forall q, (q <= length ks)%nat -> pos (mean_power x * prodk (firstn q ks)))
  /\ pos rho
  /\ forall j, (j < length ks)%nat -> lt (nrm2 (nthF ks j)) 1.
Proof.
  intros H Hk1. pose proof (arburg_some_order x p stop _ H) as Hp.
  destruct (arburg_criteria_thm x p stop _ H) as (q & st & Hq & Hc & Hres).
  unfold burg_result in Hres. injection Hres as -> -> ->.
  destruct (burg_iter_cont_inv _ _ _ _ Hc) as (Hl & _ & Hrho & _).
  assert (HN : (1 <= length x)%nat) by lia.
  assert (Hall : forall m, (m <= length (b_ref st))%nat -> pos (mean_power x * prodk (firstn m (b_ref st)))).
  { intros m Hm. apply (burg_rho_stages_pos x q st HN ltac:(lia) Hc). lia. }
  split; [exact Hall|]. split.
  - rewrite Hrho. rewrite <- (firstn_all (b_ref st)) at 1. apply Hall. lia.
  - intros j Hj.
    pose proof (Hall j ltac:(lia)) as Pj. pose proof (Hall (S j) ltac:(lia)) as PSj.
    rewrite (firstn_S_snoc (b_ref st) j Hj), prodk_app in PSj.
    unfold lt. set (k := nthF (b_ref st) j) in *.
    apply (pos_eq (mean_power x * (prodk (firstn j (b_ref st)) * (1 - k * conj k)) / (mean_power x * prodk (firstn j (b_ref st))))).
    + unfold nrm2. field. split.
      * intros E. apply (proj2 Pj). rewrite E. ring.
      * intros E. apply (proj2 Pj). rewrite E. ring.
    + apply pos_div; assumption.
Qed.
End BurgStable.
