(* rlevinson: the IR program generated from levinson.py (rlevinson, with its callee levdown embedded as an [SCall]) computes the
   hand-written model Model.LinPred.rlevinson on the argument checks and at order 1, for ALL such inputs.

   [prog_rlevinson_gen0] is, verbatim (between the BEGIN/END markers), the loop-IR program that tools/props/_loopir.py generates from
   the source of spectrum.levinson.rlevinson / levdown at the commit this file was written for.  The check regenerates the program on
   every run of C11 and instantiates the theorems below only when the text is identical.

   PROVED (abstract field with conjugation [Laws]; any dtype tag t, any efinal; the model's equality test [Eqb] is the code's [feq]):
     rlevinson_ir_empty    a = []                          -> IndexError      (a[0])
     rlevinson_ir_assert   a = a0 :: _, feq a0 1 = false   -> AssertionError  (assert a[0] == 1)       and the model returns None
     rlevinson_ir_short    a = [a0],   feq a0 1 = true     -> ValueError      (fewer than two coefficients) and the model returns None
     rlevinson_ir_order1   a = [a0; a1], feq a0 1 = true   -> run = ORet [R; U; kr; e] with exactly the model's R (both lags), the
                           2 x 2 matrix [Umat stages i m], kr, e, and the dtype tags numpy gives them (R complex, U and kr the
                           dtype of a, e float): neither loop of the code is entered at this order
     rlevinson_ir_tie_le1  hence, for a reflexive [feq], the boolean [tie_rlevinson] of the exact tie is true on every input of
                           length <= 2
   NOT PROVED IN THIS FILE: orders >= 2 (the step-down loop with the embedded levdown, the column stores U[:, k] and the R recursion over the
   columns of U).  T9: they ARE proved, for all inputs, in Proofs/LoopIRRlevinsonAll.v (rlevinson_ir_run, rlevinson_ir_tie), which imports this
   file, reuses the three short-input theorems below and decomposes the same program text [prog_rlevinson_gen0]. *)
From Coq Require Import String ZArith List Lia Bool.
Require Import Spectrum.Theory.Ops Spectrum.Theory.Sum Spectrum.Theory.Vec Spectrum.Model.LoopIR Spectrum.Model.Levinson
               Spectrum.Model.LinPred Spectrum.Model.LoopIRTie Spectrum.Model.LoopIRRlev Spectrum.Proofs.LoopIRLevinson.
Import ListNotations.
Local Open Scope string_scope.

(* BEGIN GENERATED rlevinson (verbatim output of tools/props/_loopir.py for spectrum.levinson.rlevinson) *)
(* rlevinson: slots 0=a 1=efinal 2=realdata 3=p 4=U 5=e 6=k 7=levdown@ret0#7 8=levdown@ret1#8 9=e0 10=kr 11=R 12=R0 13=r *)
Definition prog_rlevinson_gen0 : program := mkProgram "rlevinson" 2 [None; None] 14
(SSeq (SAssign 0 (ECopy (EVar 0)))
(SSeq (SAssign 2 (EIsRealObj (EVar 0)))
(SSeq (SAssert (ECmp CEq (EIndex (EVar 0) (EInt 0)) (EInt 1)))
(SSeq (SAssign 3 (ELen (EVar 0)))
(SSeq (SIf (ECmp CLt (EVar 3) (EInt 2))
(SRaise ValueError)
(SSkip))
(SSeq (SIf (EIsBool true (EVar 2))
(SAssign 4 (EZeros2 (EVar 3) (EVar 3) true))
(SAssign 4 (EZeros2 (EVar 3) (EVar 3) false)))
(SSeq (SStoreCol 4 (EBin BSub (EVar 3) (EInt 1)) (EConj (ESlice (EVar 0) (Some (ENeg (EInt 1))) None (Some (ENeg (EInt 1))))))
(SSeq (SAssign 3 (EBin BSub (EVar 3) (EInt 1)))
(SSeq (SAssign 5 (EZeros (EVar 3) true))
(SSeq (SStore 5 (ENeg (EInt 1)) (EVar 1))
(SSeq (SFor 6 (EBin BSub (EVar 3) (EInt 1)) (EInt 0) (ENeg (EInt 1))
(SSeq (SSeq (SCall [7%nat; 8%nat] 2 [None; (Some ENone)] 5
(SSeq (SIf (ECmp CNe (EIndex (EVar 0) (EInt 0)) (EInt 1))
(SRaise ValueError)
(SSkip))
(SSeq (SAssign 0 (ESlice (EVar 0) (Some (EInt 1)) None None))
(SSeq (SAssign 2 (EIndex (EVar 0) (ENeg (EInt 1))))
(SSeq (SIf (ECmp CEq (EVar 2) (ELit 1 0))
(SRaise ValueError)
(SSkip))
(SSeq (SAssign 3 (EBin BDiv (EBin BSub (ESlice (EVar 0) (Some (EInt 0)) (Some (ENeg (EInt 1))) None) (EBin BMul (EVar 2) (EConj (ESlice (EVar 0) (Some (ENeg (EInt 2))) None (Some (ENeg (EInt 1))))))) (EBin BSub (ELit 1 0) (ENrm2 (EVar 2)))))
(SSeq (SAssign 4 ENone)
(SSeq (SIf (ENot (EIsNone (EVar 1)))
(SAssign 4 (EBin BDiv (EVar 1) (EBin BSub (ELit 1 0) (EDot (EConj (EVar 2)) (EVar 2)))))
(SSkip))
(SSeq (SAssign 3 (EInsert (EVar 3) (EInt 0) (EInt 1)))
(SReturn [(EVar 3); (EVar 4)])))))))))
[(Some (EVar 0)); (Some (EIndex (EVar 5) (EVar 6)))])
(SSeq (SAssign 0 (EVar 7))
(SStore 5 (EBin BSub (EVar 6) (EInt 1)) (EVar 8))))
(SStoreCol 4 (EVar 6) (EConcat (EConj (ESlice (EVar 0) (Some (ENeg (EInt 1))) None (Some (ENeg (EInt 1))))) (EZeros (EMax (EInt 0) (EBin BSub (EVar 3) (EVar 6))) true)))))
(SSeq (SAssign 9 (EBin BDiv (EIndex (EVar 5) (EInt 0)) (EBin BSub (ELit 1 0) (ENrm2 (EIndex (EVar 0) (EInt 1))))))
(SSeq (SStore2 4 (EInt 0) (EInt 0) (EInt 1))
(SSeq (SAssign 10 (EConj (ERowSlice (EVar 4) (EInt 0) (Some (EInt 1)) None None)))
(SSeq (SAssign 10 (EVar 10))
(SSeq (SAssign 11 (EZeros (EInt 1) false))
(SSeq (SAssign 6 (EInt 1))
(SSeq (SAssign 12 (EVar 9))
(SSeq (SStore 11 (EInt 0) (EBin BMul (ENeg (EConj (EIndex2 (EVar 4) (EInt 0) (EInt 1)))) (EVar 12)))
(SSeq (SFor 6 (EInt 1) (EVar 3) (EInt 1)
(SSeq (SAssign 13 (EBin BSub (ENeg (ESum (EBin BMul (EConj (EColSlice (EVar 4) (Some (EBin BSub (EVar 6) (EInt 1))) None (Some (ENeg (EInt 1))) (EVar 6))) (ESlice (EVar 11) (Some (ENeg (EInt 1))) None (Some (ENeg (EInt 1))))))) (EBin BMul (EIndex (EVar 10) (EVar 6)) (EIndex (EVar 5) (EBin BSub (EVar 6) (EInt 1))))))
(SAssign 11 (EInsert (EVar 11) (ELen (EVar 11)) (EVar 13)))))
(SSeq (SAssign 11 (EInsert (EVar 11) (EInt 0) (EVar 9)))
(SReturn [(EVar 11); (EVar 4); (EVar 10); (EVar 5)])))))))))))))))))))))).

(* END GENERATED rlevinson *)

Section Rlev.
Context {F : Type} {OF : Ops F} {L : Laws OF}.
Variable feq : F -> F -> bool.
Variable stop : Z -> F -> F -> bool.
Local Open Scope F_scope.
Local Open Scope list_scope.
Add Field FFirr : (fth (O:=OF)).

Lemma ofZ_1r : @ofZ F OF 1 = 1.
Proof. unfold ofZ. change (Pos.to_nat 1) with 1%nat. cbn [ofnat]. ring. Qed.

(* evaluation of everything but the field operations and the code's equality test *)
Ltac crunch := cbv -[zero one add mul sub opp div inv conj le0 nrm2 ofZ lit].

Theorem rlevinson_ir_empty (t : bool) (ef : F) :
  run feq stop prog_rlevinson_gen0 [Some (VArr t []); Some (VF ef)] = OErr IndexError.
Proof. reflexivity. Qed.

Theorem rlevinson_ir_assert (t : bool) (a0 : F) (a : list F) (ef : F) :
  feq a0 1 = false ->
  run feq stop prog_rlevinson_gen0 [Some (VArr t (a0 :: a)); Some (VF ef)] = OErr AssertionError
  /\ @rlevinson F OF feq (a0 :: a) ef = None.
Proof.
  intros H. split.
  - unfold run, prog_rlevinson_gen0. cbn [p_defaults p_body p_nslots p_nparams Nat.sub bind_args bind ok app repeat].
    cbn [LoopIR.exec LoopIR.eval get set nth bind try asZ asArr asF ok err fst snd compare cmpF eqne truthy length].
    assert (E : norm_index (S (length a)) 0 = inl 0%nat) by (apply norm_index_ok; lia).
    change (length (a0 :: a)) with (S (length a)). rewrite E.
    cbn [bind ok asF compare cmpF eqne truthy try nthF nth]. rewrite ofZ_1r, H. reflexivity.
  - unfold rlevinson. change (eqb (nthF (a0 :: a) 0) 1) with (feq a0 1). rewrite H. reflexivity.
Qed.

Theorem rlevinson_ir_short (t : bool) (a0 : F) (ef : F) :
  feq a0 1 = true ->
  run feq stop prog_rlevinson_gen0 [Some (VArr t [a0]); Some (VF ef)] = OErr ValueError
  /\ @rlevinson F OF feq [a0] ef = None.
Proof.
  intros H. assert (E1 : feq a0 (ofZ 1) = true) by (rewrite ofZ_1r; exact H).
  split.
  - crunch. rewrite E1. reflexivity.
  - unfold rlevinson. change (eqb (nthF [a0] 0) 1) with (feq a0 1). rewrite H. reflexivity.
Qed.

Theorem rlevinson_ir_order1 (t : bool) (a0 a1 : F) (ef : F) :
  feq a0 1 = true ->
  run feq stop prog_rlevinson_gen0 [Some (VArr t [a0; a1]); Some (VF ef)] =
  match @rlevinson F OF feq [a0; a1] ef with
  | Some (R, st, kr, es) =>
      ORet [VArr false R; VMat t 2 [[Umat st 0 0; Umat st 0 1]; [Umat st 1 0; Umat st 1 1]]; VArr t kr; VArr true es]
  | None => OErr ValueError
  end.
Proof.
  intros H. assert (E1 : feq a0 (ofZ 1) = true) by (rewrite ofZ_1r; exact H).
  unfold rlevinson. change (eqb (nthF [a0; a1] 0) 1) with (feq a0 1). rewrite H.
  destruct t; crunch; rewrite E1; crunch; rewrite ?ofZ_1r, ?lit_1; reflexivity.
Qed.
End Rlev.

Section RlevTie.
Context {F : Type} {OF : Ops F} {L : Laws OF}.
Variable feq : F -> F -> bool.
Hypothesis feq_refl : forall a, feq a a = true.
Local Open Scope F_scope.
Local Open Scope list_scope.

Theorem rlevinson_ir_tie_le1 (t : bool) (a : list F) (ef : F) :
  (length a <= 2)%nat -> tie_rlevinson feq prog_rlevinson_gen0 t a ef = true.
Proof.
  intros Hl. unfold tie_rlevinson.
  destruct a as [|a0 [|a1 [|a2 a]]]; [| | |cbn [length] in Hl; lia].
  - rewrite rlevinson_ir_empty. unfold rlevinson. destruct (negb (eqb (nthF [] 0) 1)); reflexivity.
  - destruct (feq a0 1) eqn:H.
    + destruct (rlevinson_ir_short feq (@nostop F) t a0 ef H) as [-> ->]. rewrite ?H. reflexivity.
    + destruct (rlevinson_ir_assert feq (@nostop F) t a0 [] ef H) as [-> ->]. rewrite ?H. reflexivity.
  - destruct (feq a0 1) eqn:H.
    + rewrite (rlevinson_ir_order1 feq (@nostop F) t a0 a1 ef H).
      unfold rlevinson. change (eqb (nthF [a0; a1] 0) 1) with (feq a0 1). rewrite H.
      cbv -[zero one add mul sub opp div inv conj le0 nrm2 ofZ lit]. rewrite !feq_refl. destruct t; reflexivity.
    + destruct (rlevinson_ir_assert feq (@nostop F) t a0 [a1] ef H) as [-> ->]. rewrite ?H. reflexivity.
Qed.
End RlevTie.
