(* C05 — NFFT only chooses the sampling grid: the Fourier estimators (speriodogram, the Periodogram class,
   CORRELOGRAMPSD).  Fine grid c*n with character tw', coarse grid n with character [coarsen c tw'];
   entry k of the coarse result = entry c*k of the fine one. *)
Require Import Spectrum.Theory.Ops Spectrum.Theory.Sum Spectrum.Theory.Vec Spectrum.Theory.Dft
               Spectrum.Model.Corr Spectrum.Model.Periodogram
               Spectrum.Proofs.GridTheory Spectrum.Proofs.PeriodogramTheory Spectrum.Proofs.PeriodogramClassTheory Spectrum.Proofs.CorrelogramTheory.

Section GridIndex.
(* one-sided index bound: a returned coarse bin is a returned fine bin, for both parities of n and c*n *)
Lemma half_grid (n c k : nat) : (k <= n / 2)%nat -> (c * k <= (c * n) / 2)%nat.
Proof.
  intros H. apply Nat.div_le_lower_bound; [lia|].
  assert (2 * k <= n)%nat. { pose proof (Nat.div_mod n 2 ltac:(lia)). pose proof (Nat.mod_upper_bound n 2 ltac:(lia)). nia. }
  nia.
Qed.
Lemma half_grid_conv (n c k : nat) : (0 < c)%nat -> (k < n)%nat -> (c * k <= (c * n) / 2)%nat -> (k <= n / 2)%nat.
Proof.
  intros Hc Hk H. apply Nat.div_le_lower_bound; [lia|].
  assert (2 * (c * k) <= c * n)%nat.
  { pose proof (Nat.div_mod (c * n) 2 ltac:(lia)). pose proof (Nat.mod_upper_bound (c * n) 2 ltac:(lia)). nia. }
  nia.
Qed.

(* the number of one-sided entries the classes keep for real data: NFFT/2+1 (NFFT even), (NFFT+1)/2 (NFFT odd) *)
Definition keep (n : nat) : nat := if Nat.even n then (n / 2 + 1)%nat else ((n + 1) / 2)%nat.
Lemma keep_spec n : (1 <= n)%nat -> exists h, keep n = (h + 1)%nat /\ (n = 2 * h \/ n = 2 * h + 1)%nat /\ h = (n / 2)%nat /\ (keep n <= n)%nat.
Proof.
  intros Hn. unfold keep. exists (n / 2)%nat.
  pose proof (Nat.div_mod n 2 ltac:(lia)) as E. pose proof (Nat.mod_upper_bound n 2 ltac:(lia)) as B.
  destruct (Nat.even n) eqn:He.
  - apply Nat.even_spec in He. destruct He as [q ->].
    rewrite (Nat.mul_comm 2 q), Nat.div_mul by lia. repeat split; lia.
  - assert (Ho : Nat.odd n = true) by (rewrite <- Nat.negb_even, He; reflexivity).
    apply Nat.odd_spec in Ho. destruct Ho as [q ->].
    replace (2 * q + 1 + 1)%nat with ((q + 1) * 2)%nat by lia. rewrite Nat.div_mul by lia.
    replace ((2 * q + 1) / 2)%nat with q.
    + repeat split; lia.
    + apply (Nat.div_unique (2 * q + 1) 2 q 1); lia.
Qed.
Lemma keep_grid (n c b : nat) : (0 < c)%nat -> (1 <= n)%nat -> (b < keep n)%nat -> (c * b < keep (c * n))%nat.
Proof.
  intros Hc Hn Hb.
  destruct (keep_spec n Hn) as (h & Kn & Pn & _ & _).
  destruct (keep_spec (c * n) ltac:(nia)) as (H & Kc & Pc & _ & _).
  rewrite Kc. rewrite Kn in Hb.
  assert (Hq : (c * b <= c * h)%nat) by (apply Nat.mul_le_mono_l; lia).
  assert (Hp : (c * n = 2 * (c * h) \/ c * n = 2 * (c * h) + c)%nat) by (destruct Pn as [->| ->]; [left|right]; ring).
  generalize dependent (c * b)%nat. generalize dependent (c * h)%nat. generalize dependent (c * n)%nat. intros; lia.
Qed.
(* where entry j of a centred coarse vector (bin j - n/2) sits in the centred fine vector (bin c*(j - n/2)) *)
Definition centre_off (n c : nat) : nat := ((c * n) / 2 - c * (n / 2))%nat.
Lemma keep_le n : (1 <= n)%nat -> (keep n <= n)%nat.
Proof. intros Hn. destruct (keep_spec n Hn) as (h & _ & _ & _ & H). exact H. Qed.
End GridIndex.

Section GridFourier.
Context {F : Type} {OF : Ops F} {L : Laws OF}.
Local Open Scope F_scope.
Add Field FFgf : (fth (O:=OF)).

Lemma nbins_grid (isreal : bool) (n c k : nat) : (0 < c)%nat -> (k < nbins isreal n)%nat -> (c * k < nbins isreal (c * n))%nat.
Proof.
  intros Hc Hk. unfold nbins in *. destruct isreal.
  - pose proof (half_grid n c k ltac:(lia)). lia.
  - nia.
Qed.

(* ---------------- speriodogram: every window, real and complex data, every detrend value; scale_by_freq off ---------------- *)
Theorem periodogram_grid_thm (n c : nat) (tw' : Z -> F) twopi (x w : list F) isreal dt sbf fs (k : nat) :
  (0 < c)%nat -> (1 <= n)%nat -> (length x <= n)%nat -> py_is_true sbf = false -> (k < nbins isreal n)%nat ->
  (c * k < nbins isreal (c * n))%nat /\
  nthF (speriodogram tw' twopi x w (Some (c * n)%nat) isreal dt sbf fs) (c * k)%nat
  = nthF (speriodogram (coarsen c tw') twopi x w (Some n) isreal dt sbf fs) k.
Proof.
  intros Hc Hn HN Hsbf Hk. pose proof (nbins_grid isreal n c k Hc Hk) as Hk'. split; [exact Hk'|].
  rewrite (periodogram_general_thm tw' twopi x w (Some (c * n)%nat) isreal dt sbf fs (c * k)%nat) by (cbn [resolve]; first [exact Hk' | nia]).
  rewrite (periodogram_general_thm (coarsen c tw') twopi x w (Some n) isreal dt sbf fs k) by (cbn [resolve]; first [exact Hk | lia]).
  cbn [resolve]. unfold scale_of. rewrite Hsbf.
  assert (HN' : (length x <= c * n)%nat) by (destruct c; [lia|nia]).
  rewrite (Nat.min_l _ _ HN), (Nat.min_l _ _ HN').
  rewrite <- dft_grid_thm. replace (Z.of_nat c * Z.of_nat k)%Z with (Z.of_nat (c * k)) by lia. reflexivity.
Qed.

(* lengths of the two results (numpy: NFFT bins, or NFFT//2+1 for real data) *)
Lemma periodogram_grid_lengths (n c : nat) (tw tw' : Z -> F) twopi (x w : list F) isreal dt sbf fs :
  (0 < c)%nat -> (1 <= n)%nat ->
  length (speriodogram tw twopi x w (Some n) isreal dt sbf fs) = nbins isreal n /\
  length (speriodogram tw' twopi x w (Some (c * n)%nat) isreal dt sbf fs) = nbins isreal (c * n).
Proof. intros Hc Hn. split; apply periodogram_length_thm; cbn [resolve]; nia. Qed.

(* ---------------- Periodogram class: construct with NFFT, any history of calls / reads / window changes, read psd ---------------- *)
Lemma call_win tw twopi (s : pstate) : p_window (p_call tw twopi s) = p_window s /\ p_wname (p_call tw twopi s) = p_wname s.
Proof.
  destruct s as [d ir wn w fs' nf rn dt' sbf' psd' md]. unfold p_call, p_store.
  cbn [p_data p_isreal p_sampling p_NFFT p_rangeN p_detrend p_sbf p_modified p_psd p_window p_wname].
  destruct ir; cbn [p_data p_isreal p_sampling p_NFFT p_rangeN p_detrend p_sbf p_modified p_psd p_window p_wname];
    destruct (py_is_true sbf'); cbn [p_data p_isreal p_sampling p_NFFT p_rangeN p_detrend p_sbf p_modified p_psd p_window p_wname];
    split; reflexivity.
Qed.
Lemma step_win tw1 tw2 twopi (s1 s2 : pstate) o : p_window s1 = p_window s2 -> p_wname s1 = p_wname s2 ->
  p_window (p_step tw1 twopi s1 o) = p_window (p_step tw2 twopi s2 o) /\ p_wname (p_step tw1 twopi s1 o) = p_wname (p_step tw2 twopi s2 o).
Proof.
  intros Hw Hn. destruct o as [| |nm w]; cbn [p_step].
  - destruct (call_win tw1 twopi s1) as [-> ->], (call_win tw2 twopi s2) as [-> ->]. split; assumption.
  - unfold p_read.
    destruct (p_psd s1), (p_psd s2); try destruct (p_modified s1); try destruct (p_modified s2);
      try destruct (call_win tw1 twopi s1) as [-> ->]; try destruct (call_win tw2 twopi s2) as [-> ->]; split; assumption.
  - unfold p_set_window. rewrite Hn. destruct (nm =? p_wname s2)%nat; [split; assumption|]. split; reflexivity.
Qed.
Lemma fold_win tw1 tw2 twopi ops : forall (s1 s2 : pstate), p_window s1 = p_window s2 -> p_wname s1 = p_wname s2 ->
  p_window (fold_left (p_step tw1 twopi) ops s1) = p_window (fold_left (p_step tw2 twopi) ops s2)
  /\ p_wname (fold_left (p_step tw1 twopi) ops s1) = p_wname (fold_left (p_step tw2 twopi) ops s2).
Proof.
  induction ops as [|o ops IH]; intros s1 s2 Hw Hn; [split; assumption|]. cbn [fold_left].
  destruct (step_win tw1 tw2 twopi s1 s2 o Hw Hn) as [Hw' Hn']. apply IH; assumption.
Qed.

Theorem periodogram_class_grid_thm (n c : nat) (tw' : Z -> F) twopi (data : list F) isreal wn (w : list F) fs dt sbf (ops : list pop) :
  (0 < c)%nat -> (1 <= n)%nat -> (length data <= n)%nat -> py_is_true sbf = false ->
  let sc := p_read (coarsen c tw') twopi (fold_left (p_step (coarsen c tw') twopi) ops (p_init data isreal wn w fs (NfInt n) dt sbf)) in
  let sf := p_read tw' twopi (fold_left (p_step tw' twopi) ops (p_init data isreal wn w fs (NfInt (c * n)%nat) dt sbf)) in
  p_NFFT sc = n /\ p_NFFT sf = (c * n)%nat /\
  exists pc pf, p_psd sc = Some pc /\ p_psd sf = Some pf /\ length pc = nbins isreal n /\ length pf = nbins isreal (c * n) /\
    forall k, (k < nbins isreal n)%nat -> (c * k < nbins isreal (c * n))%nat /\ nthF pf (c * k)%nat = nthF pc k.
Proof.
  intros Hc Hn HN Hsbf sc sf.
  destruct (periodogram_class_thm (coarsen c tw') twopi data isreal wn w fs (NfInt n) dt sbf ops) as (N1 & _ & P1).
  destruct (periodogram_class_thm tw' twopi data isreal wn w fs (NfInt (c * n)%nat) dt sbf ops) as (N2 & _ & P2).
  cbn [init_nfft] in N1, N2, P1, P2. fold sc in N1, P1. fold sf in N2, P2.
  split; [exact N1|]. split; [exact N2|].
  assert (Hwin : p_window sf = p_window sc).
  { unfold sf, sc, p_read.
    destruct (fold_win tw' (coarsen c tw') twopi ops (p_init data isreal wn w fs (NfInt (c * n)%nat) dt sbf)
                (p_init data isreal wn w fs (NfInt n) dt sbf) eq_refl eq_refl) as [Hw _].
    repeat match goal with
           | |- context [match p_psd ?s with _ => _ end] => destruct (p_psd s)
           | |- context [if p_modified ?s then _ else _] => destruct (p_modified s)
           end;
      rewrite ?(proj1 (call_win _ _ _)); exact Hw. }
  rewrite Hwin in P2.
  destruct (periodogram_grid_lengths n c (coarsen c tw') tw' twopi data (p_window sc) isreal dt sbf fs Hc Hn) as [L1 L2].
  eexists; eexists. split; [exact P1|]. split; [exact P2|]. split; [exact L1|]. split; [exact L2|].
  intros k Hk. apply periodogram_grid_thm; assumption.
Qed.

(* ---------------- CORRELOGRAMPSD, NFFT >= 2*lag+1: same exception behaviour, same values at common frequencies ---------------- *)
Lemma bt_grid (c : nat) (tw' : Z -> F) (a b : nat -> F) lag (k : nat) :
  sumf (lag + 1) (fun d => a d * tw' (Z.of_nat d * Z.of_nat (c * k))%Z)
  + sumf lag (fun d => b (d + 1)%nat * tw' (- (Z.of_nat (d + 1) * Z.of_nat (c * k)))%Z)
  = sumf (lag + 1) (fun d => a d * coarsen c tw' (Z.of_nat d * Z.of_nat k)%Z)
    + sumf lag (fun d => b (d + 1)%nat * coarsen c tw' (- (Z.of_nat (d + 1) * Z.of_nat k))%Z).
Proof.
  unfold coarsen. f_equal; apply sumf_ext; intros d _; do 2 f_equal; lia.
Qed.

Theorem correlogram_grid_thm (n c : nat) (tw' : Z -> F) {T' : Twiddle (c * n) tw'} rp (x : list F) y lag wfull nm be :
  (0 < c)%nat -> (2 * lag + 1 <= n)%nat ->
  match correlogram (coarsen c tw') rp x y lag wfull (Some n) nm be, correlogram tw' rp x y lag wfull (Some (c * n)%nat) nm be with
  | Some lc, Some lf => length lc = n /\ length lf = (c * n)%nat /\ forall k, (k < n)%nat -> nthF lf (c * k)%nat = nthF lc k
  | None, None => True
  | _, _ => False
  end.
Proof.
  intros Hc Hn.
  assert (Hn0 : (0 < n)%nat) by lia.
  pose proof (twiddle_coarsen n c tw' Hc Hn0 T') as T.
  destruct (Nat.lt_ge_cases lag (length x)) as [Hlag|Hlag].
  2:{ unfold correlogram. destruct (Nat.ltb_spec lag (length x)); [lia|]. cbn [negb]. exact I. }
  destruct (corr_pos be rp x (match y with None => x | Some v => v end) lag nm) as [rxy|] eqn:Exy.
  2:{ unfold correlogram. cbn [resolve].
      destruct (Nat.ltb_spec lag (length x)); [|lia]. cbn [negb].
      destruct (Nat.eqb_spec n 0); [lia|]. destruct (Nat.eqb_spec (c * n) 0); [nia|].
      destruct (Nat.ltb_spec n (lag + 1)); [lia|]. destruct (Nat.ltb_spec (c * n) (lag + 1)); [nia|]. cbn [andb].
      rewrite Exy. exact I. }
  destruct (match y with None => Some rxy | Some v => corr_pos be rp v x lag nm end) as [ryx|] eqn:Eyx.
  2:{ unfold correlogram. cbn [resolve].
      destruct (Nat.ltb_spec lag (length x)); [|lia]. cbn [negb].
      destruct (Nat.eqb_spec n 0); [lia|]. destruct (Nat.eqb_spec (c * n) 0); [nia|].
      destruct (Nat.ltb_spec n (lag + 1)); [lia|]. destruct (Nat.ltb_spec (c * n) (lag + 1)); [nia|]. cbn [andb].
      rewrite Exy, Eyx. exact I. }
  destruct (correlogram_bins_thm n (coarsen c tw') rp x y lag wfull (Some n) nm be rxy ryx eq_refl Hlag Hn Exy Eyx)
    as (lc & Ec & Lc & Vc).
  destruct (correlogram_bins_thm (c * n) tw' rp x y lag wfull (Some (c * n)%nat) nm be rxy ryx eq_refl Hlag ltac:(nia) Exy Eyx)
    as (lf & Ef & Lf & Vf).
  rewrite Ec, Ef. split; [exact Lc|]. split; [exact Lf|].
  intros k Hk. rewrite Vc by exact Hk. rewrite Vf by nia. f_equal. apply bt_grid.
Qed.
End GridFourier.
