(* C03 — list-level facts about multiplying a vector by a scalar, shared by the Scale*_C03 files. *)
Require Import Spectrum.Theory.Ops Spectrum.Theory.Sum Spectrum.Theory.Vec Spectrum.Theory.Dft Spectrum.Theory.Order.

Section ScaleUtil.
Context {F : Type} {OF : Ops F} {L : Laws OF}.
Local Open Scope F_scope.
Add Field FFsu : (fth (O:=OF)).

Lemma su_div_scale (s a b : F) : (s * a) / b = s * (a / b).
Proof. rewrite !(Fdiv_def (fth (O:=OF))). ring. Qed.
Lemma su_vscale_length c (x : list F) : length (vscale c x) = length x.
Proof. apply map_length. Qed.
Lemma su_vscale_mk c n (f : nat -> F) : vscale c (mk n f) = mk n (fun j => c * f j).
Proof. unfold vscale, mk. rewrite map_map. reflexivity. Qed.
Lemma su_vscale_vscale a b (l : list F) : vscale a (vscale b l) = vscale (a * b) l.
Proof. unfold vscale. rewrite map_map. apply map_ext; intros; ring. Qed.
Lemma su_vscale_1 (l : list F) : vscale 1 l = l.
Proof. unfold vscale. rewrite <- (map_id l) at 2. apply map_ext; intros; ring. Qed.
Lemma su_vscale_firstn c n (l : list F) : firstn n (vscale c l) = vscale c (firstn n l).
Proof. unfold vscale. apply firstn_map. Qed.
Lemma su_vscale_skipn c n (l : list F) : skipn n (vscale c l) = vscale c (skipn n l).
Proof. unfold vscale. apply skipn_map. Qed.
Lemma su_vscale_rev c (l : list F) : rev (vscale c l) = vscale c (rev l).
Proof. unfold vscale. symmetry. apply map_rev. Qed.
Lemma su_vscale_app c (l1 l2 : list F) : vscale c (l1 ++ l2) = vscale c l1 ++ vscale c l2.
Proof. unfold vscale. apply map_app. Qed.
Lemma su_vscale_tl c (l : list F) : tl (vscale c l) = vscale c (tl l).
Proof. destruct l; reflexivity. Qed.
(* a map that commutes with the multiplication commutes with vscale *)
Lemma su_map_vscale (g : F -> F) c d (l : list F) : (forall a, g (c * a) = d * g a) ->
  map g (vscale c l) = vscale d (map g l).
Proof. intros H. unfold vscale. rewrite !map_map. apply map_ext. exact H. Qed.
Lemma su_sumL_vscale c (l : list F) : sumL (vscale c l) = c * sumL l.
Proof. induction l as [|a l IH]; cbn; [ring|]. fold (vscale c l). rewrite IH. ring. Qed.
(* rows of a matrix *)
Lemma su_nth_map_vscale c (M : list (list F)) i : nth i (map (vscale c) M) [] = vscale c (nth i M []).
Proof. change (@nil F) with (vscale c []) at 1. apply map_nth. Qed.

(* the transforms are linear *)
Lemma su_dft_vscale tw n c (x : list F) : dft tw n (vscale c x) = vscale c (dft tw n x).
Proof.
  unfold dft. rewrite su_vscale_mk. apply mk_ext; intros k _.
  rewrite !sumL_mk, <- sumf_scale. apply sumf_ext; intros m _. rewrite nthF_vscale. ring.
Qed.
Lemma su_rdft_vscale tw n c (x : list F) : rdft tw n (vscale c x) = vscale c (rdft tw n x).
Proof. unfold rdft. rewrite su_dft_vscale. apply su_vscale_firstn. Qed.
Lemma su_dftN_scale tw N (x : nat -> F) c k : dftN tw N (fun m => c * x m) k = c * dftN tw N x k.
Proof. unfold dftN. rewrite <- sumf_scale. apply sumf_ext; intros; ring. Qed.

Lemma su_re_scale (s z : F) : conj s = s -> re (s * z) = s * re z.
Proof. intros Hs. unfold re. rewrite conj_mul, Hs, <- su_div_scale. f_equal. ring. Qed.
Lemma su_conj_neq0 (a : F) : a <> 0 -> conj a <> 0.
Proof. intros Ha Hc. apply Ha. rewrite <- (conj_conj a), Hc. apply conj_0. Qed.
Lemma su_nrm2_neq0 (a : F) : a <> 0 -> nrm2 a <> 0.
Proof. intros Ha E. apply (su_conj_neq0 a Ha). apply (mul_cancel_l a (conj a)); [exact E|exact Ha]. Qed.
Lemma su_nrm2_real (c : F) : conj (nrm2 c) = nrm2 c.
Proof. apply nrm2_real. Qed.
End ScaleUtil.

Section ScaleUtilOrd.
Context {F : Type} {OF : Ops F} {L : Laws OF} {OL : OrdLaws OF}.
Local Open Scope F_scope.
Add Field FFsuo : (fth (O:=OF)).
Lemma su_pos_nrm2 c : c <> 0 -> pos (nrm2 c).
Proof. intros Hc. split; [apply nn_nrm2|apply nrm2_neq_0; exact Hc]. Qed.
(* the sign test of the code is invariant under a positive factor *)
Lemma su_le0_pos_scale s a : pos s -> conj a = a -> le0 (s * a) = le0 a.
Proof.
  intros Hs Ha.
  assert (Hsr : conj s = s) by (apply pos_real; exact Hs).
  assert (Hsa : conj (s * a) = s * a) by (rewrite conj_mul, Hsr, Ha; reflexivity).
  destruct (le0 a) eqn:E.
  - apply (le0_spec (s * a) Hsa). apply (le0_spec a Ha) in E.
    apply (nonneg_eq (s * - a)); [ring|]. apply nn_mul; [apply Hs|exact E].
  - destruct (le0 (s * a)) eqn:E'; [|reflexivity]. exfalso.
    apply (le0_spec (s * a) Hsa) in E'.
    assert (Hn : nonneg (- a)). { apply (nonneg_cancel _ s Hs). apply (nonneg_eq (- (s * a))); [ring|exact E']. }
    apply (le0_spec a Ha) in Hn. rewrite Hn in E. discriminate.
Qed.
End ScaleUtilOrd.
