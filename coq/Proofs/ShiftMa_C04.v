(* C04 — arma.ma (long AR fit by aryule, then aryule on [1, a]) and the pma class spectrum under modulation,
   conjugation and conjugated time reversal. *)
Require Import Spectrum.Theory.Ops Spectrum.Theory.Sum Spectrum.Theory.Vec Spectrum.Theory.Dft
               Spectrum.Model.Levinson Spectrum.Model.Corr Spectrum.Model.Yule Spectrum.Model.Arma2psd Spectrum.Model.MaEst
               Spectrum.Proofs.ShiftTheory Spectrum.Proofs.Arma2psdTheory
               Spectrum.Proofs.ShiftDft_C04 Spectrum.Proofs.ShiftPeriodogram_C04 Spectrum.Proofs.ShiftArma_C04
               Spectrum.Proofs.ShiftMinvar_C04.

Section MaShift.
Context {F : Type} {OF : Ops F} {L : Laws OF}.
Local Open Scope F_scope.

Definition map_ma (g : list F -> list F) (r : ma_err + (list F * F)) : ma_err + (list F * F) :=
  match r with inl e => inl e | inr (b, rho) => inr (g b, rho) end.

Section Mod.
Variable phi : Z -> F.
Hypothesis phi_add : forall a b : Z, phi (a + b)%Z = phi a * phi b.
Hypothesis phi_0 : phi 0%Z = 1.
Hypothesis phi_cj : forall a : Z, conj (phi a) = phi (- a)%Z.
Theorem ma_modulation_thm (x : list F) Q M : ma_est (vmod phi 0 x) Q M = map_ma (modA phi) (ma_est x Q M).
Proof.
  unfold ma_est. destruct ((Q =? 0)%nat || (M <=? Q)%nat); [reflexivity|].
  rewrite (aryule_modulation_thm phi phi_add phi_0 phi_cj).
  destruct (aryule x M Biased true) as [e|[[a rho] k]]; [reflexivity|]. cbn [map_yw modst].
  rewrite (cons1_modA phi phi_0), (aryule_modulation_thm phi phi_add phi_0 phi_cj).
  destruct (aryule (1 :: a) Q Biased true) as [e|[[b rho'] k']]; reflexivity.
Qed.
End Mod.

(* the divisors of both Levinson runs are nonzero *)
Definition yw_regular (x : list F) (order : nat) : Prop :=
  forall r q A P ks, acorr x order Biased = Some r -> (q < length r - 1)%nat -> levinson r q true = Some (A, P, ks) -> P <> 0.
Theorem ma_conj_thm (x : list F) Q M : (forall k, (1 <= k)%nat -> ofnat k <> 0) -> yw_regular x M ->
  (forall a rho k, aryule x M Biased true = inr (a, rho, k) -> yw_regular (1 :: a) Q) ->
  ma_est (vconj x) Q M = map_ma vconj (ma_est x Q M).
Proof.
  intros Hch H1 H2. unfold ma_est. destruct ((Q =? 0)%nat || (M <=? Q)%nat); [reflexivity|].
  rewrite aryule_conj_thm by assumption.
  destruct (aryule x M Biased true) as [e|[[a rho] k]] eqn:E; [reflexivity|]. cbn [map_yw conjst].
  assert (Ea : 1 :: vconj a = vconj (1 :: a)) by (unfold vconj; cbn [map]; rewrite conj_1; reflexivity).
  rewrite Ea, aryule_conj_thm by (try exact Hch; apply (H2 a rho k eq_refl)).
  destruct (aryule (1 :: a) Q Biased true) as [e|[[b rho'] k']]; reflexivity.
Qed.
Theorem ma_time_reversal_thm (x : list F) Q M : ma_est (vrevconj x) Q M = ma_est x Q M.
Proof. unfold ma_est. rewrite aryule_time_reversal_thm. reflexivity. Qed.

Section Grid.
Context (n : nat) (tw : Z -> F) {Tw : Twiddle n tw} (n_pos : (0 < n)%nat).
Theorem pma_S_shift (x : list F) Q M (m : Z) :
  pma_S tw (vmod (sphase tw m) 0 x) Q M n = option_map (rot m) (pma_S tw x Q M n).
Proof.
  unfold pma_S. rewrite (ma_modulation_thm (sphase tw m) (sphase_add n tw n_pos m) (sphase_0 n tw m) (sphase_cj n tw n_pos m)).
  destruct (ma_est x Q M) as [e|[b rho]]; [reflexivity|]. cbn [map_ma].
  apply (arma2psd_rotation_thm n tw n_pos m None (Some b) rho 1 SidesDefault).
Qed.
Theorem pma_S_mirror (x : list F) Q M : (forall k, (1 <= k)%nat -> ofnat k <> 0) -> yw_regular x M ->
  (forall a rho k, aryule x M Biased true = inr (a, rho, k) -> yw_regular (1 :: a) Q) ->
  pma_S tw (vconj x) Q M n = option_map mirror (pma_S tw x Q M n).
Proof.
  intros Hch H1 H2. unfold pma_S. rewrite ma_conj_thm by assumption.
  destruct (ma_est x Q M) as [e|[b rho]]; [reflexivity|]. cbn [map_ma].
  apply (arma2psd_mirror_thm n tw n_pos None (Some b) rho 1).
Qed.
Theorem pma_S_reversal (x : list F) Q M : pma_S tw (vrevconj x) Q M n = pma_S tw x Q M n.
Proof. unfold pma_S. rewrite ma_time_reversal_thm. reflexivity. Qed.
End Grid.
End MaShift.
