(* Burg stability over field extensions: data in an ordered *-field F (the Gaussian rationals the correspondence
   check executes), roots in any ordered *-field K that F maps into by a conj-compatible ring homomorphism phi
   that PRESERVES THE ORDER (nonneg a -> nonneg (phi a)).  Unlike the Yule-Walker case (Proofs/YuleExt.v), where
   positivity in K comes from a Gram form, here the positivity of the stage variances is a fact about the order
   of F (it is what the code's "rho <= 0" test decided), so phi has to respect it.  No axioms. *)
Require Import Spectrum.Theory.Ops Spectrum.Theory.Sum Spectrum.Theory.Vec Spectrum.Theory.Order
               Spectrum.Model.Levinson Spectrum.Model.Burg
               Spectrum.Proofs.LevinsonTheory Spectrum.Proofs.YulePD Spectrum.Proofs.YuleExt
               Spectrum.Proofs.BurgTheory Spectrum.Proofs.MinvarFinal Spectrum.Proofs.BurgStable.

Section Ext.
Context {F : Type} {OF : Ops F} {L : Laws OF} {OL : OrdLaws OF}.
Context {K : Type} {OK : Ops K} {LK : Laws OK} {OLK : OrdLaws OK}.
Local Open Scope F_scope.
Add Field FFbe : (fth (O:=OF)).
Add Field KKbe : (fth (O:=OK)).

Variable phi : F -> K.
Hypothesis H : StarHom phi.
Hypothesis Hord : forall a : F, nonneg a -> nonneg (phi a).

Lemma hom_pos a : pos a -> pos (phi a).
Proof. intros [Hn Hne]. split; [apply Hord; exact Hn|apply (hom_nonzero phi H); exact Hne]. Qed.

Lemma map_mk n (f : nat -> F) : map phi (mk n f) = mk n (fun j => phi (f j)).
Proof. unfold mk. rewrite map_map. reflexivity. Qed.

Lemma hom_stepup (A : list F) k : stepup (map phi A) (phi k) = map phi (stepup A k).
Proof.
  unfold stepup. rewrite map_app, map_mk, map_length. cbn [map]. f_equal.
  apply mk_ext. intros j Hj. rewrite !(hom_nth phi H), (hom_add _ H), (hom_mul _ H), (hom_conj _ H). reflexivity.
Qed.
Lemma hom_stepup_all (ks : list F) : stepup_all (map phi ks) = map phi (stepup_all ks).
Proof.
  induction ks as [|k ks IH] using rev_ind; [reflexivity|].
  rewrite map_app. cbn [map]. rewrite !stepup_all_app, IH. apply hom_stepup.
Qed.
Lemma hom_prodk (ks : list F) : prodk (map phi ks) = phi (prodk ks).
Proof.
  induction ks as [|k ks IH]; cbn [map prodk]; [symmetry; apply (hom_1 _ H)|].
  rewrite IH, (hom_mul _ H), (hom_sub phi H), (hom_mul _ H), (hom_conj _ H), (hom_1 _ H). reflexivity.
Qed.
Lemma hom_afun (A : list F) j : afun (map phi A) j = phi (afun A j).
Proof. destruct j as [|j]; cbn [afun]; [symmetry; apply (hom_1 _ H)|apply (hom_nth phi H)]. Qed.

Theorem stepup_stable_ext_thm (r0 : F) (ks : list F) (z : K) :
  (forall q, (q <= length ks)%nat -> pos (r0 * prodk (firstn q ks))) ->
  sumf (S (length ks)) (fun j => phi (afun (stepup_all ks) j) * fpow z (length ks - j)) = 0 -> lt (nrm2 z) 1.
Proof.
  intros Hpos Hz.
  apply (stepup_stable_thm (phi r0) (map phi ks) z).
  - rewrite map_length. intros q Hq. rewrite firstn_map, hom_prodk, <- (hom_mul _ H). apply hom_pos. apply Hpos. exact Hq.
  - rewrite map_length. unfold polyval. rewrite <- Hz. apply sumf_ext; intros j _.
    rewrite hom_stepup_all, hom_afun. reflexivity.
Qed.

(* data in F, any stop rule, roots in K *)
Theorem arburg_stable_ext_thm (x : list F) p stop a rho ks (z : K) :
  arburg x p stop = Some (a, rho, ks) ->
  sumf (S (length ks)) (fun j => phi (afun a j) * fpow z (length ks - j)) = 0 -> lt (nrm2 z) 1.
Proof.
  intros Hrun Hz.
  destruct (length ks) as [|n] eqn:En.
  { exfalso. cbn in Hz. rewrite (hom_1 _ H) in Hz. apply (one_neq_0 (F:=K)). rewrite <- Hz. ring. }
  destruct (arburg_k_lt_1_thm x p stop a rho ks Hrun ltac:(lia)) as (Hpos & _ & _).
  destruct (arburg_criteria_thm x p stop _ Hrun) as (q & st & _ & Hc & Hres).
  unfold burg_result in Hres. injection Hres as -> -> ->.
  destruct (burg_iter_cont_inv _ _ _ _ Hc) as (_ & Ha & _).
  rewrite <- En in Hz. rewrite Ha in Hz.
  exact (stepup_stable_ext_thm (mean_power x) (b_ref st) z Hpos Hz).
Qed.
End Ext.
