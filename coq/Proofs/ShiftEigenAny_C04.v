(* C04 — MUSIC / EV under modulation / conjugation for ANY factorisation svd may return on the transformed data.
   ShiftEigen_C04.v exhibits ONE pair meeting the SVD specification for the transformed data matrix (same singular values, phase-
   ramped / conjugated singular vectors) and proves the roll / mirror for it, with no hypothesis on the pair.  numpy's svd of the
   transformed matrix need not return that pair (singular vectors are unique only up to a unitary change of basis inside each
   eigenspace of FB^H FB).  EigenUnique_C04.v shows that the output of eigen() does not depend on the pair as soon as the noise
   subspace is determined (S_(NSIG-1) > S_NSIG, or NSIG = 0, or NSIG >= P).  Together:
     (S, Vh)  meets the specification for FB(x),  (S', Vh') meets it for FB(x')  (x' = modulated or conjugated x),  gap at the chosen NSIG
       ==>  eigen / pmusic / pev on (x', S', Vh') = roll / mirror of eigen / pmusic / pev on (x, S, Vh);  S' = S.
   What remains outside: that numpy's floating-point svd meets the specification (C17's correspondence checks it on the inputs it
   runs), and the degenerate case S_(NSIG-1) = S_NSIG where the noise subspace itself is a choice of the SVD routine. *)
Require Import Spectrum.Theory.Ops Spectrum.Theory.Sum Spectrum.Theory.Vec Spectrum.Theory.Dft Spectrum.Theory.Order
               Spectrum.Model.Eigen Spectrum.Proofs.EigenFB Spectrum.Proofs.EigenAxis Spectrum.Proofs.EigenTheory
               Spectrum.Proofs.ShiftTheory Spectrum.Proofs.ShiftDft_C04 Spectrum.Proofs.ShiftEigen_C04 Spectrum.Proofs.EigenUnique_C04.

Section Any.
Context {F : Type} {OF : Ops F} {L : Laws OF} {OL : OrdLaws OF}.
Local Open Scope F_scope.
Context (NFFT : nat) (tw : Z -> F) {T : Twiddle NFFT tw} (n_pos : (0 < NFFT)%nat).

Theorem svd_spec_shift_thm (m : Z) (x : list F) rows P S Vh :
  svd_spec (fb_matrix x P) rows P S Vh -> svd_spec (fb_matrix (vmod (sphase tw m) 0 x) P) rows P S (vh_mod (sphase tw m) Vh).
Proof. apply (svd_spec_mod_thm (sphase tw m) (sphase_add NFFT tw n_pos m) (sphase_0 NFFT tw m) (sphase_cj NFFT tw n_pos m)). Qed.

(* the singular values of the data matrix are invariant *)
Theorem singular_values_shift_thm (m : Z) (x : list F) rows P S Vh S' Vh' :
  svd_spec (fb_matrix x P) rows P S Vh -> svd_spec (fb_matrix (vmod (sphase tw m) 0 x) P) rows P S' Vh' -> S' = S.
Proof.
  intros H1 H2. apply (svd_values_list_unique_thm _ rows P S' S Vh' (vh_mod (sphase tw m) Vh) H2). apply svd_spec_shift_thm. exact H1.
Qed.
Theorem singular_values_conj_thm (x : list F) rows P S Vh S' Vh' :
  svd_spec (fb_matrix x P) rows P S Vh -> svd_spec (fb_matrix (vconj x) P) rows P S' Vh' -> S' = S.
Proof.
  intros H1 H2. apply (svd_values_list_unique_thm _ rows P S' S Vh' (vh_conj Vh) H2). apply svd_spec_conj_thm. exact H1.
Qed.

Theorem eigen_shift_any_svd_thm meth eps nsig thr crit amin (m : Z) (x : list F) rows P S Vh S' Vh' :
  svd_spec (fb_matrix x P) rows P S Vh -> svd_spec (fb_matrix (vmod (sphase tw m) 0 x) P) rows P S' Vh' ->
  gap_at_choice NFFT meth nsig thr crit amin (length x) P S ->
  eigen meth eps nsig thr crit amin tw NFFT (vmod (sphase tw m) 0 x) P S' Vh'
  = map_eig (rot m) (eigen meth eps nsig thr crit amin tw NFFT x P S Vh).
Proof.
  intros H1 H2 Hgap. rewrite <- (eigen_shift_thm NFFT tw n_pos). symmetry.
  apply (eigen_unique_thm tw NFFT n_pos (fb_matrix (vmod (sphase tw m) 0 x) P) rows); [apply svd_spec_shift_thm; exact H1|exact H2|].
  rewrite vmod_length. exact Hgap.
Qed.
Theorem eigen_mirror_any_svd_thm meth eps nsig thr crit amin (x : list F) rows P S Vh S' Vh' :
  svd_spec (fb_matrix x P) rows P S Vh -> svd_spec (fb_matrix (vconj x) P) rows P S' Vh' ->
  gap_at_choice NFFT meth nsig thr crit amin (length x) P S ->
  eigen meth eps nsig thr crit amin tw NFFT (vconj x) P S' Vh'
  = map_eig (cmirror NFFT) (eigen meth eps nsig thr crit amin tw NFFT x P S Vh).
Proof.
  intros H1 H2 Hgap. rewrite <- (eigen_mirror_thm NFFT tw n_pos). symmetry.
  apply (eigen_unique_thm tw NFFT n_pos (fb_matrix (vconj x) P) rows); [apply svd_spec_conj_thm; exact H1|exact H2|].
  unfold vconj. rewrite map_length. exact Hgap.
Qed.
Theorem pclass_shift_any_svd_thm meth eps scale nsig thr crit amin (m : Z) (x : list F) rows P S Vh S' Vh' :
  svd_spec (fb_matrix x P) rows P S Vh -> svd_spec (fb_matrix (vmod (sphase tw m) 0 x) P) rows P S' Vh' ->
  gap_at_choice NFFT meth nsig thr crit amin (length x) P S ->
  pclass meth eps false scale nsig thr crit amin tw NFFT (vmod (sphase tw m) 0 x) P S' Vh'
  = map_eig (rot m) (pclass meth eps false scale nsig thr crit amin tw NFFT x P S Vh).
Proof.
  intros H1 H2 Hgap. rewrite <- (pclass_shift_thm NFFT tw n_pos). symmetry.
  apply (pclass_unique_thm tw NFFT n_pos (fb_matrix (vmod (sphase tw m) 0 x) P) rows); [apply svd_spec_shift_thm; exact H1|exact H2|].
  rewrite vmod_length. exact Hgap.
Qed.
Theorem pclass_mirror_any_svd_thm meth eps scale nsig thr crit amin (x : list F) rows P S Vh S' Vh' :
  svd_spec (fb_matrix x P) rows P S Vh -> svd_spec (fb_matrix (vconj x) P) rows P S' Vh' ->
  gap_at_choice NFFT meth nsig thr crit amin (length x) P S ->
  pclass meth eps false scale nsig thr crit amin tw NFFT (vconj x) P S' Vh'
  = map_eig mirror (pclass meth eps false scale nsig thr crit amin tw NFFT x P S Vh).
Proof.
  intros H1 H2 Hgap. rewrite <- (pclass_mirror_thm NFFT tw n_pos). symmetry.
  apply (pclass_unique_thm tw NFFT n_pos (fb_matrix (vconj x) P) rows); [apply svd_spec_conj_thm; exact H1|exact H2|].
  unfold vconj. rewrite map_length. exact Hgap.
Qed.
End Any.
