(* The certificate is evaluated over the rationals, but cos(2 pi W) is a real number.  This file
   transfers the checker's verdict along ANY order-preserving ring homomorphism phi : A -> B of
   ordered fields with trivial conjugation (e.g. Q -> R): if the checker accepts over A, the bounds
   hold over B for the images of the data and for EVERY c of B between the images of clo and chi. *)
Require Import Spectrum.Theory.Ops Spectrum.Theory.Sum Spectrum.Theory.Vec Spectrum.Theory.Order
               Spectrum.Model.Dpss Spectrum.Proofs.DpssTheory Spectrum.Proofs.DpssCertTheory.

Section Transfer.
Context {A : Type} {OA : Ops A} {LA : Laws OA} {OLA : OrdLaws OA}.
Context {B : Type} {OB : Ops B} {LB : Laws OB} {OLB : OrdLaws OB}.
Local Open Scope F_scope.
Add Field FFta : (fth (O:=OA)).
Add Field FFtb : (fth (O:=OB)).

Variable phi : A -> B.
Hypothesis realA : forall a : A, conj a = a.
Hypothesis realB : forall b : B, conj b = b.
Hypothesis phi_1 : phi 1 = 1.
Hypothesis phi_add : forall a b, phi (a + b) = phi a + phi b.
Hypothesis phi_mul : forall a b, phi (a * b) = phi a * phi b.
Hypothesis phi_nonneg : forall a, nonneg a -> nonneg (phi a).

Lemma phi_0 : phi 0 = 0.
Proof.
  assert (E : phi 0 = phi 0 + phi 0) by (rewrite <- phi_add; f_equal; ring).
  transitivity (phi 0 + phi 0 - phi 0); [ring|]. rewrite <- E. ring.
Qed.
Lemma phi_opp a : phi (- a) = - phi a.
Proof.
  assert (E : phi (- a) + phi a = 0) by (rewrite <- phi_add, <- phi_0; f_equal; ring).
  transitivity (phi (- a) + phi a - phi a); [ring|]. rewrite E. ring.
Qed.
Lemma phi_sub a b : phi (a - b) = phi a - phi b.
Proof. replace (a - b) with (a + - b) by ring. rewrite phi_add, phi_opp. ring. Qed.
Lemma phi_two : phi two = two. Proof. unfold two. rewrite phi_add, phi_1. reflexivity. Qed.
Lemma phi_div_two a : phi (a / two) = phi a / two.
Proof.
  assert (E : phi (a / two) * two = phi a).
  { rewrite <- phi_two, <- phi_mul. f_equal. unfold two. field. apply two_neq_0. }
  rewrite <- E. unfold two. field. apply two_neq_0.
Qed.
Lemma phi_ofnat n : phi (ofnat n) = ofnat n.
Proof. induction n; cbn [ofnat]; [apply phi_0|rewrite phi_add, IHn, phi_1; reflexivity]. Qed.
Lemma phi_sumf n f : phi (sumf n f) = sumf n (fun i => phi (f i)).
Proof. induction n; [apply phi_0|]. rewrite !sumf_S, phi_add, IHn. reflexivity. Qed.
Lemma phi_le a b : le a b -> le (phi a) (phi b).
Proof. unfold le. intros H. rewrite <- phi_sub. apply phi_nonneg. exact H. Qed.

Lemma phi_sl_diag N c i : phi (sl_diag N c i) = sl_diag N (phi c) i.
Proof. unfold sl_diag. rewrite !phi_mul, phi_div_two, phi_sub, phi_mul, phi_two, !phi_ofnat. reflexivity. Qed.
Lemma phi_sl_off N i : phi (sl_off N i) = sl_off N i.
Proof. unfold sl_off. rewrite phi_div_two, phi_mul, !phi_ofnat. reflexivity. Qed.
Lemma phi_tmul N c (v : nat -> A) i : phi (tmul N c v i) = tmul N (phi c) (fun m => phi (v m)) i.
Proof.
  unfold tmul. rewrite !phi_add, phi_mul, phi_sl_diag.
  destruct (0 <? i)%nat, (i + 1 <? N)%nat; rewrite ?phi_mul, ?phi_sl_off, ?phi_0; reflexivity.
Qed.
Lemma phi_resid N c (v : nat -> A) th i : phi (resid N c v th i) = resid N (phi c) (fun m => phi (v m)) (phi th) i.
Proof. unfold resid. rewrite phi_sub, phi_tmul, phi_mul. reflexivity. Qed.
Lemma phi_dot N (u v : nat -> A) : phi (dot N u v) = dot N (fun m => phi (u m)) (fun m => phi (v m)).
Proof. unfold dot. rewrite phi_sumf. apply sumf_ext; intros i _. apply phi_mul. Qed.
Lemma phi_delta j l : phi (delta j l) = delta j l.
Proof. unfold delta. destruct (j =? l)%nat; [apply phi_1|apply phi_0]. Qed.

Theorem cert_transfer_thm N k (clo chi : A) Vl thetal eo er :
  cert_check N k clo chi Vl thetal eo er = true ->
  let V := fun j m => phi (nthF (nth j Vl []) m) in
  let th := fun j => phi (nthF thetal j) in
  (forall j l, (j < k)%nat -> (l < k)%nat ->
      le (dot N (V j) (V l) - delta j l) (phi eo) /\ le (- (dot N (V j) (V l) - delta j l)) (phi eo))
  /\ (forall c : B, le (phi clo) c -> le c (phi chi) -> forall j i, (j < k)%nat -> (i < N)%nat ->
      le (resid N c (V j) (th j) i) (phi er) /\ le (- resid N c (V j) (th j) i) (phi er)).
Proof.
  intros H. destruct (cert_check_parts realA N k clo chi Vl thetal eo er H) as [_ [_ [_ [HG HR]]]]. cbv zeta in *.
  split.
  - intros j l Hj Hl. destruct (HG j l Hj Hl) as [H1 H2].
    apply phi_le in H1. apply phi_le in H2. rewrite phi_opp in H2. rewrite phi_sub, phi_dot, phi_delta in H1, H2.
    split; assumption.
  - intros c Hc1 Hc2 j i Hj Hi. destruct (HR j i Hj Hi) as [[L1 L2] [H1 H2]].
    apply phi_le in L1. apply phi_le in L2. apply phi_le in H1. apply phi_le in H2.
    rewrite phi_opp in L2, H2. rewrite phi_resid in L1, L2, H1, H2.
    apply (bounds_between N (phi clo) (phi chi) c); try assumption; split; assumption.
Qed.

(* ... and the eigenvalue statement over B, for the true c and a spectral decomposition of T(c) over B *)
Theorem cert_eigenvalue_transfer_thm N k (clo chi : A) (c : B) Vl thetal eo er (U : nat -> nat -> B) (mu : nat -> B) :
  cert_check N k clo chi Vl thetal eo er = true -> le (phi clo) c -> le c (phi chi) -> lt eo 1 ->
  (forall m i, (m < N)%nat -> (i < N)%nat -> tmul N c (U m) i = mu m * U m i) ->
  (forall x : nat -> B, dot N x x = sumf N (fun m => dot N (U m) x * dot N (U m) x)) ->
  forall j, (j < k)%nat -> exists m, (m < N)%nat /\
    le ((mu m - phi (nthF thetal j)) * (mu m - phi (nthF thetal j)) * (1 - phi eo)) (ofnat N * (phi er * phi er)).
Proof.
  intros Hc Hc1 Hc2 Heo HU HP j Hj.
  destruct (cert_transfer_thm N k clo chi Vl thetal eo er Hc) as [HG HR]. cbv zeta in HG, HR.
  apply (eigenvalue_from_bounds_thm realB N c (phi (nthF thetal j)) (phi eo) (phi er)
           (fun m => phi (nthF (nth j Vl []) m)) U mu); try assumption.
  - destruct (HG j j Hj Hj) as [_ H2]. unfold delta in H2. rewrite Nat.eqb_refl in H2. exact H2.
  - (* lt (phi eo) 1: phi is injective on the order *)
    destruct Heo as [Hn Hne]. split.
    + rewrite <- phi_1, <- phi_sub. apply phi_nonneg. exact Hn.
    + intros E. apply Hne.
      assert (Ei : phi ((1 - eo) * inv (1 - eo)) = 1) by (rewrite <- phi_1; f_equal; field; exact Hne).
      rewrite phi_mul, phi_sub, phi_1, E in Ei.
      exfalso. apply (one_neq_0 (OF:=OB)). rewrite <- Ei. ring.
  - intros i Hi. apply (HR c Hc1 Hc2 j i Hj Hi).
Qed.
End Transfer.
