(* levdown: the IR program generated from levinson.py (function levdown) computes the hand-written model, for ALL inputs.

   [prog_levdown_ref] is the loop-IR program that tools/props/_loopir.py generates from the source of
   spectrum.levinson.levdown at the commit this file was written for (kept verbatim below, between the BEGIN/END markers,
   as [prog_levdown_gen0]; the two are equal by reflexivity).  The check regenerates the program on every run and
   instantiates the theorems below only when the text is identical.

   PROVED (abstract field with conjugation [Laws]; any array anxt with any dtype tag, enxt given or omitted):
     levdown_ir_run   run prog_levdown_ref [anxt; enxt] =
                        anxt = []                         -> IndexError     (anxt[0])
                        feq anxt[0] 1 = false             -> ValueError     (the code's  anxt[0] != 1)
                        anxt = [a0]                       -> IndexError     (anxt[1:][-1] on an empty array)
                        feq anxt[-1] 1 = true             -> ValueError     (the code's  knxt == 1.0)
                        otherwise                         -> ORet [complex array  fst (levdown anxt _);
                                                                   snd (levdown anxt enxt)  |  None when enxt is omitted]
     levdown_ir_chk   the same as Model.LinPred.levdown_chk (the model with its two ValueError branches) for length anxt >= 2
     levdown_ir_tie   for a reflexive [feq]: tie_levdown = true for every anxt of length >= 2
   NOT PROVED: nothing within the IR semantics.  Outside the tie's domain: anxt = [] and anxt = [1] (the tie expects
   ValueError, the program -- like numpy -- raises IndexError). *)
From Coq Require Import String ZArith List Lia Bool.
Require Import Spectrum.Theory.Ops Spectrum.Theory.Sum Spectrum.Theory.Vec Spectrum.Model.LoopIR Spectrum.Model.Levinson
               Spectrum.Model.LinPred Spectrum.Model.LoopIRTie Spectrum.Proofs.LoopIRLevinson Spectrum.Proofs.LoopIRLevup.
Import ListNotations.
Local Open Scope string_scope.

Definition levdown_main : stmt :=
  SSeq (SIf (ECmp CNe (EIndex (EVar 0) (EInt 0)) (EInt 1)) (SRaise ValueError) SSkip)
  (SSeq (SAssign 0 (ESlice (EVar 0) (Some (EInt 1)) None None))
  (SSeq (SAssign 2 (EIndex (EVar 0) (ENeg (EInt 1))))
  (SSeq (SIf (ECmp CEq (EVar 2) (ELit 1 0)) (SRaise ValueError) SSkip)
  (SSeq (SAssign 3 (EBin BDiv (EBin BSub (ESlice (EVar 0) (Some (EInt 0)) (Some (ENeg (EInt 1))) None)
                                         (EBin BMul (EVar 2) (EConj (ESlice (EVar 0) (Some (ENeg (EInt 2))) None (Some (ENeg (EInt 1)))))))
                              (EBin BSub (ELit 1 0) (ENrm2 (EVar 2)))))
  (SSeq (SAssign 4 ENone)
  (SSeq (SIf (ENot (EIsNone (EVar 1)))
           (SAssign 4 (EBin BDiv (EVar 1) (EBin BSub (ELit 1 0) (EDot (EConj (EVar 2)) (EVar 2)))))
           SSkip)
  (SSeq (SAssign 3 (EInsert (EVar 3) (EInt 0) (EInt 1)))
        (SReturn [(EVar 3); (EVar 4)])))))))).
Definition prog_levdown_ref : program := mkProgram "levdown" 2 [None; (Some ENone)] 5 levdown_main.

Section Levdown.
Context {F : Type} {OF : Ops F} {L : Laws OF}.
Variable feq : F -> F -> bool.
Variable stop : Z -> F -> F -> bool.
Local Open Scope F_scope.
Local Open Scope list_scope.
Add Field FFirdn : (fth (O:=OF)).
Notation value := (@value F).
Notation store := (@store F).
Notation exec := (@exec F OF feq stop).

Ltac ev := cbn [LoopIR.exec LoopIR.eval eval_opt get set nth bind try asZ asArr asF ok err fst snd arith arithZ fop compare cmpF cmpZ eqne truthy
                eval_list Z.opp].

(* the array part of the result; a = anxt[1:] (non-empty), m = len a - 1, k = a[m] *)
Lemma levdown_array (a : list F) : a <> [] ->
  let m := (length a - 1)%nat in
  let k := nthF a m in
  ofZ 1 :: map (fun x => x / (lit 1 0 - nrm2 k))
             (map2 sub (mk m (nthF a)) (map (fun x => k * x) (map conj (mk m (fun j => nthF a (length a - 1 - 1 - j))))))
  = 1 :: mk m (fun j => (nthF a j - k * conj (nthF a (m - 1 - j))) / (1 - nrm2 k)).
Proof.
  intros Ha m k. rewrite ofZ_1, lit_1. f_equal.
  rewrite !map_mk, map2_mk, map_mk. apply mk_ext. intros j _. reflexivity.
Qed.

Lemma levdown_main_ok t (a0 : F) (a : list F) (e : option F) :
  let m := (length a - 1)%nat in
  let k := nthF a m in
  exists s',
    exec levdown_main [VArr t (a0 :: a); ve_arg e; VUnbound; VUnbound; VUnbound]
    = (s', if negb (feq a0 1) then CErr ValueError
           else match a with
                | [] => CErr IndexError
                | _ :: _ =>
                    if feq k 1 then CErr ValueError
                    else CRet [VArr false (1 :: mk m (fun j => (nthF a j - k * conj (nthF a (m - 1 - j))) / (1 - nrm2 k)));
                               match e with Some z => VF (z / (1 - conj k * k)) | None => VNone end]
                end).
Proof.
  cbv zeta. unfold levdown_main.
  destruct (feq a0 1) eqn:E1; cbn [negb].
  2:{ eexists. apply exec_seq_stop; [|discriminate].
      ev. rewrite norm_index_ok by (cbn [length]; lia). ev. change (Z.to_nat 0) with 0%nat. rewrite nthF_cons0, ofZ_1, E1. reflexivity. }
  erewrite exec_seq.
  2:{ ev. rewrite norm_index_ok by (cbn [length]; lia). ev. change (Z.to_nat 0) with 0%nat. rewrite nthF_cons0, ofZ_1, E1. reflexivity. }
  erewrite exec_seq.
  2:{ ev. change (1 =? 0)%Z with false. cbv iota. rewrite (tl_slice (a0 :: a)) by discriminate. cbn [tl]. reflexivity. }
  destruct a as [|a1 a'].
  { eexists. apply exec_seq_stop; [|discriminate]. ev. reflexivity. }
  cbv iota.
  assert (Hne : a1 :: a' <> []) by discriminate.
  assert (Hlen : (0 < length (a1 :: a'))%nat) by (cbn [length]; lia).
  remember (a1 :: a') as a eqn:Ea. clear Ea a1 a'.
  set (m := (length a - 1)%nat). set (k := nthF a m).
  assert (Ek : norm_index (length a) (-1) = inl m).
  { unfold norm_index. change (-1 <? 0)%Z with true. cbv iota.
    replace ((0 <=? -1 + Z.of_nat (length a)) && (-1 + Z.of_nat (length a) <? Z.of_nat (length a)))%Z with true
      by (symmetry; apply andb_true_iff; split; [apply Z.leb_le|apply Z.ltb_lt]; lia).
    unfold m, ok. f_equal. lia. }
  erewrite exec_seq; [|ev; rewrite Ek; ev; reflexivity].
  fold k.
  destruct (feq k 1) eqn:E2.
  { eexists. apply exec_seq_stop; [|discriminate]. ev. rewrite lit_1, E2. reflexivity. }
  erewrite exec_seq; [|ev; rewrite lit_1, E2; reflexivity].
  erewrite exec_seq.
  2:{ ev. change (1 =? 0)%Z with false. change (-1 =? 0)%Z with false. cbv iota.
      rewrite (slice_front a Hne), (slice_rev_front a Hne). ev.
      repeat rewrite ?map_length, ?mk_length. rewrite Nat.eqb_refl. cbn [andb try]. rewrite andb_false_r. reflexivity. }
  erewrite exec_seq; [|ev; reflexivity].
  destruct e as [z|]; cbn [ve_arg]; eexists.
  - erewrite exec_seq; [|ev; cbn [negb]; ev; reflexivity].
    erewrite exec_seq.
    2:{ ev. change (0 <? 0)%Z with false. cbv iota. change (0 <=? 0)%Z with true. cbn [andb].
        match goal with |- context [(0 <=? ?n)%Z] => replace (0 <=? n)%Z with true by (symmetry; apply Z.leb_le; lia) end.
        change (Z.to_nat 0) with 0%nat. cbn [firstn skipn app].
        pose proof (levdown_array a Hne) as EA. cbv zeta in EA. fold m k in EA. fold m. rewrite EA. reflexivity. }
    ev. rewrite lit_1. reflexivity.
  - erewrite exec_seq; [|ev; cbn [negb]; ev; reflexivity].
    erewrite exec_seq.
    2:{ ev. change (0 <? 0)%Z with false. cbv iota. change (0 <=? 0)%Z with true. cbn [andb].
        match goal with |- context [(0 <=? ?n)%Z] => replace (0 <=? n)%Z with true by (symmetry; apply Z.leb_le; lia) end.
        change (Z.to_nat 0) with 0%nat. cbn [firstn skipn app].
        pose proof (levdown_array a Hne) as EA. cbv zeta in EA. fold m k in EA. fold m. rewrite EA. reflexivity. }
    ev. reflexivity.
Qed.

Theorem levdown_ir_run t (anxt : list F) (e : option F) :
  run feq stop prog_levdown_ref [Some (VArr t anxt); option_map VF e] =
  match anxt with
  | [] => OErr IndexError
  | a0 :: a =>
      if negb (feq a0 1) then OErr ValueError
      else match a with
           | [] => OErr IndexError
           | _ :: _ =>
               if feq (nthF anxt (length anxt - 1)) 1 then OErr ValueError
               else ORet [VArr false (fst (levdown anxt 0));
                          match e with Some z => VF (snd (levdown anxt z)) | None => VNone end]
           end
  end.
Proof.
  unfold run, prog_levdown_ref. cbn [p_defaults p_body p_nslots p_nparams Nat.sub].
  assert (B : bind_args feq [None; Some ENone] [Some (VArr t anxt); option_map VF e]
              = inl [VArr t anxt; ve_arg e]) by (destruct e; reflexivity).
  rewrite B. cbn [app repeat].
  destruct anxt as [|a0 a].
  - unfold levdown_main.
    rewrite (exec_seq_stop feq stop _ _ _ [VArr t []; ve_arg e; VUnbound; VUnbound; VUnbound] (CErr IndexError)); [reflexivity| |discriminate].
    ev. reflexivity.
  - destruct (levdown_main_ok t a0 a e) as [s' E]. cbv zeta in E. rewrite E.
    destruct (feq a0 1); cbn [negb]; [|reflexivity].
    destruct a as [|a1 a']; [reflexivity|].
    replace (nthF (a0 :: a1 :: a') (length (a0 :: a1 :: a') - 1)) with (nthF (a1 :: a') (length (a1 :: a') - 1))
      by (cbn [length Nat.sub]; rewrite ?Nat.sub_0_r; reflexivity).
    destruct (feq (nthF (a1 :: a') (length (a1 :: a') - 1)) 1); [reflexivity|].
    unfold levdown. cbn [fst snd tl]. reflexivity.
Qed.

(* in terms of the model that has the two ValueError branches (Model/LinPred.v), its equality test being the code's [feq] *)
Theorem levdown_ir_chk t (anxt : list F) (e : option F) :
  (2 <= length anxt)%nat ->
  run feq stop prog_levdown_ref [Some (VArr t anxt); option_map VF e] =
  match @levdown_chk F OF feq anxt (match e with Some z => z | None => 0 end) with
  | None => OErr ValueError
  | Some (a', e') => ORet [VArr false a'; match e with Some _ => VF e' | None => VNone end]
  end.
Proof.
  intros Hl. rewrite levdown_ir_run.
  destruct anxt as [|a0 [|a1 a']]; cbn [length] in Hl; try lia.
  unfold levdown_chk, lastc, eqb. rewrite nthF_cons0.
  destruct (feq a0 1); cbn [negb]; [|reflexivity].
  replace (nthF (tl (a0 :: a1 :: a')) (length (tl (a0 :: a1 :: a')) - 1))
    with (nthF (a0 :: a1 :: a') (length (a0 :: a1 :: a') - 1)) by (cbn [tl length Nat.sub]; rewrite ?Nat.sub_0_r; reflexivity).
  destruct (feq (nthF (a0 :: a1 :: a') (length (a0 :: a1 :: a') - 1)) 1); [reflexivity|].
  destruct e as [z|]; unfold levdown; cbn [fst snd]; reflexivity.
Qed.
End Levdown.

Section LevdownTie.
Context {F : Type} {OF : Ops F} {L : Laws OF}.
Variable feq : F -> F -> bool.
Hypothesis feq_refl : forall a, feq a a = true.
Local Open Scope F_scope.
Local Open Scope list_scope.

Theorem levdown_ir_tie (anxt : list F) (e : option F) :
  (2 <= length anxt)%nat -> tie_levdown feq prog_levdown_ref anxt e = true.
Proof.
  intros Hl. unfold tie_levdown. rewrite (levdown_ir_run feq (@nostop F) false anxt e).
  destruct anxt as [|a0 [|a1 a']]; cbn [length] in Hl; try lia. rewrite nthF_cons0.
  destruct (feq a0 1); cbn [negb orb]; [|reflexivity].
  destruct (feq (nthF (a0 :: a1 :: a') (length (a0 :: a1 :: a') - 1)) 1); [reflexivity|].
  destruct e as [z|].
  - destruct (levdown (a0 :: a1 :: a') z) as [x e'] eqn:E. cbn [fst snd].
    replace (fst (levdown (a0 :: a1 :: a') 0)) with x by (unfold levdown in *; inversion E; reflexivity).
    rewrite (leq_refl' feq feq_refl), feq_refl. reflexivity.
  - destruct (levdown (a0 :: a1 :: a') 0) as [x e'] eqn:E. cbn [fst snd]. apply (leq_refl' feq feq_refl).
Qed.
End LevdownTie.

(* BEGIN GENERATED levdown (verbatim output of tools/props/_loopir.py for spectrum.levinson.levdown) *)
(* levdown: slots 0=anxt 1=enxt 2=knxt 3=acur 4=ecur *)
Definition prog_levdown_gen0 : program := mkProgram "levdown" 2 [None; (Some ENone)] 5
(SSeq (SIf (ECmp CNe (EIndex (EVar 0) (EInt 0)) (EInt 1))
(SRaise ValueError)
(SSkip))
(SSeq (SAssign 0 (ESlice (EVar 0) (Some (EInt 1)) None None))
(SSeq (SAssign 2 (EIndex (EVar 0) (ENeg (EInt 1))))
(SSeq (SIf (ECmp CEq (EVar 2) (ELit 1 0))
(SRaise ValueError)
(SSkip))
(SSeq (SAssign 3 (EBin BDiv (EBin BSub (ESlice (EVar 0) (Some (EInt 0)) (Some (ENeg (EInt 1))) None) (EBin BMul (EVar 2) (EConj (ESlice (EVar 0) (Some (ENeg (EInt 2))) None (Some (ENeg (EInt 1))))))) (EBin BSub (ELit 1 0) (ENrm2 (EVar 2)))))
(SSeq (SAssign 4 ENone)
(SSeq (SIf (ENot (EIsNone (EVar 1)))
(SAssign 4 (EBin BDiv (EVar 1) (EBin BSub (ELit 1 0) (EDot (EConj (EVar 2)) (EVar 2)))))
(SSkip))
(SSeq (SAssign 3 (EInsert (EVar 3) (EInt 0) (EInt 1)))
(SReturn [(EVar 3); (EVar 4)]))))))))).

(* END GENERATED levdown *)
Example prog_levdown_ref_is_generated : prog_levdown_ref = prog_levdown_gen0.
Proof. reflexivity. Qed.
