(* Order clauses of C13 in the abstract ordered *-field (axiom-free):
   |k_m|^2 <= 1 at every non-degenerate stage (Cauchy–Schwarz), rho >= 0 and rho does not
   increase with the order. *)
Require Import Spectrum.Theory.Ops Spectrum.Theory.Sum Spectrum.Theory.Vec Spectrum.Theory.Order
               Spectrum.Model.Levinson Spectrum.Model.Burg Spectrum.Proofs.LevinsonTheory
               Spectrum.Proofs.BurgStage Spectrum.Proofs.BurgTheory Spectrum.Proofs.BurgDen.

Section BurgOrder.
Context {F : Type} {OF : Ops F} {L : Laws OF} {OL : OrdLaws OF}.
Local Open Scope F_scope.
Add Field FFbo : (fth (O:=OF)).

(* one stage: k D = -2 c with D = sum(|f|^2+|b|^2) <> 0  ==>  |k|^2 <= 1 *)
Lemma stage_k_le_1 n (f b : nat -> F) (k : F) :
  k * stageD n f b = - ((1 + 1) * stageC n f b) -> stageD n f b <> 0 -> le (nrm2 k) 1.
Proof.
  intros Hk HD0.
  set (A := sumf n (fun j => nrm2 (f j))). set (B := sumf n (fun j => nrm2 (b j))).
  set (c := stageC n f b).
  assert (HD : stageD n f b = A + B) by (unfold stageD, A, B; apply sumf_add).
  assert (HA : nonneg A) by apply nonneg_sum_nrm2. assert (HB : nonneg B) by apply nonneg_sum_nrm2.
  assert (HAr : conj A = A) by (apply nn_real; exact HA). assert (HBr : conj B = B) by (apply nn_real; exact HB).
  assert (HDn : nonneg (A + B)) by (apply nn_add; assumption).
  assert (HDp : pos (A + B)) by (split; [exact HDn|rewrite <- HD; exact HD0]).
  assert (HCS : nonneg (A * B - nrm2 c)) by (apply (cauchy_schwarz n f b)).
  (* (A+B)^2 (1 - |k|^2) = (A-B)^2 + 4 (AB - |c|^2) *)
  assert (Key : (A + B) * ((A + B) * (1 - nrm2 k)) = nrm2 (A - B) + (1 + 1) * (1 + 1) * (A * B - nrm2 c)).
  { assert (E : nrm2 (k * (A + B)) = nrm2 ((1 + 1) * c)).
    { rewrite <- HD, Hk. fold c. unfold nrm2. rewrite conj_opp. ring. }
    rewrite !nrm2_mul in E.
    assert (E1 : nrm2 (A + B) = (A + B) * (A + B)) by (unfold nrm2; rewrite conj_add, HAr, HBr; ring).
    assert (E2 : nrm2 (1 + 1) = (1 + 1) * (1 + 1)) by (unfold nrm2; rewrite conj_add, conj_1; ring).
    assert (E3 : nrm2 (A - B) = (A - B) * (A - B)) by (unfold nrm2; rewrite conj_sub, HAr, HBr; ring).
    rewrite E1, E2 in E. rewrite E3.
    transitivity ((A + B) * (A + B) - nrm2 k * ((A + B) * (A + B))); [ring|]. rewrite E. ring. }
  unfold le. apply (nonneg_cancel _ (A + B) HDp). apply (nonneg_cancel _ (A + B) HDp). rewrite Key.
  apply nn_add; [apply nn_nrm2|]. apply nn_mul; [|exact HCS].
  apply nn_mul; apply nn_add; apply nonneg_1.
Qed.

Theorem burg_k_le_1_thm (x : list F) m st :
  (m < length x)%nat -> burg_nondegenerate x (S m) ->
  burg_iter no_stop x m = BCont st ->
  le (nrm2 (burg_kp (length x) st m)) 1.
Proof.
  intros Hm Hnd H.
  assert (HN : ofnat (length x) <> 0) by (apply pos_ofnat; lia).
  assert (HD : burg_den (length x) st m = stage_energy (length x) st m).
  { apply burg_den_invariant_thm; auto. intros q0 s Hq. apply Hnd. lia. }
  assert (Hne : burg_den (length x) st m <> 0) by (apply (Hnd m st); [lia|exact H]).
  apply (stage_k_le_1 (length x - m - 1) (st_f st m) (st_b st m)).
  - unfold burg_kp. rewrite num_is_stageC. unfold stage_energy in HD. rewrite <- HD. unfold two. field. exact Hne.
  - unfold stage_energy in HD. rewrite <- HD. exact Hne.
Qed.

Lemma mean_power_nonneg (x : list F) : (1 <= length x)%nat -> nonneg (mean_power x).
Proof.
  intros H. unfold mean_power. apply nonneg_div; [|apply pos_ofnat; exact H].
  rewrite sumL_map_nrm2. apply nonneg_sum_nrm2.
Qed.

(* rho is non-negative at every order and does not increase from one order to the next *)
Theorem burg_rho_monotone_thm (x : list F) m st st' :
  (S m < length x)%nat -> burg_nondegenerate x (S m) ->
  burg_iter no_stop x m = BCont st -> burg_iter no_stop x (S m) = BCont st' ->
  nonneg (b_rho st) -> nonneg (b_rho st') /\ le (b_rho st') (b_rho st).
Proof.
  intros Hm Hnd H H' Hr.
  pose proof (burg_k_le_1_thm x m st ltac:(lia) Hnd H) as Hk. unfold le in Hk.
  cbn [burg_iter] in H'. rewrite H in H'. unfold burg_step, no_stop in H'.
  destruct (le0 _); [discriminate|]. injection H' as <-. cbn [b_rho].
  split.
  - apply nn_mul; [exact Hk|exact Hr].
  - unfold le. apply (nonneg_eq (nrm2 (burg_kp (length x) st m) * b_rho st)); [ring|].
    apply nn_mul; [apply nn_nrm2|exact Hr].
Qed.

Theorem burg_rho_nonneg_thm (x : list F) m st :
  (m < length x)%nat -> burg_nondegenerate x m ->
  burg_iter no_stop x m = BCont st -> nonneg (b_rho st).
Proof.
  revert st. induction m; intros st Hm Hnd H.
  - cbn in H. injection H as <-. cbn [burg_init b_rho]. apply mean_power_nonneg. lia.
  - pose proof H as H'. cbn [burg_iter] in H. destruct (burg_iter no_stop x m) as [s0| |] eqn:E; try discriminate.
    assert (Hr0 : nonneg (b_rho s0)).
    { apply IHm; [lia| |reflexivity]. intros q s Hq. apply Hnd. lia. }
    apply (burg_rho_monotone_thm x m s0 st Hm Hnd E H' Hr0).
Qed.
End BurgOrder.
