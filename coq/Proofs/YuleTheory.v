(* Yule-Walker: the biased autocorrelation is positive definite for non-zero data, hence aryule
   returns a valid model; least squares on the 'autocorrelation' data matrix and lpc give the same
   coefficients.  Abstract ordered *-field (Laws + OrdLaws), every length, every order. *)
Require Import Spectrum.Theory.Ops Spectrum.Theory.Sum Spectrum.Theory.Vec Spectrum.Theory.Order
               Spectrum.Model.Levinson Spectrum.Model.Corr Spectrum.Model.Yule
               Spectrum.Proofs.LevinsonTheory Spectrum.Proofs.CorrTheory Spectrum.Proofs.YulePD.

Section YW.
Context {F : Type} {OF : Ops F} {L : Laws OF} {OL : OrdLaws OF}.
Local Open Scope F_scope.
Add Field FFyw : (fth (O:=OF)).

(* raw lag sum  sum_{t < N-d} x[t+d] conj(x[t]) *)
Definition raw (x : list F) (d : nat) : F :=
  sumf (length x - d) (fun t => nthF x (t + d) * conj (nthF x t)).
(* r[d] = c * raw lag sum, d = 0..p   (c = 1/N : biased CORRELATION;  c = 1/(N-1) : lpc) *)
Definition ScaledLags (x r : list F) (p : nat) (c : F) : Prop :=
  forall d, (d <= p)%nat -> nthF r d = c * raw x d.

Lemma first_nonzero n (f : nat -> F) :
  (forall i, (i < n)%nat -> f i = 0) \/ (exists i0, (i0 < n)%nat /\ f i0 <> 0 /\ forall i, (i < i0)%nat -> f i = 0).
Proof.
  induction n as [|n IH]; [left; intros; lia|].
  destruct IH as [Hz|(i0 & Hi0 & Hne & Hlow)].
  - destruct (eq0_dec (f n)) as [E|E].
    + left. intros i Hi. destruct (Nat.eq_dec i n) as [->|]; [exact E|apply Hz; lia].
    + right. exists n. split; [lia|]. split; [exact E|exact Hz].
  - right. exists i0. split; [lia|]. split; assumption.
Qed.

Lemma gram_is_raw (x : list F) m i j : (j <= i <= m)%nat -> gram x m i j = raw x (i - j).
Proof.
  intros Hij. unfold gram.
  rewrite (sumf_ext _ _ (fun n => conj (xz x n i) * xz x n j)).
  2:{ intros n Hn. rewrite !cm_entry_xz by lia. reflexivity. }
  apply (gram_raw x m i j Hij).
Qed.

Lemma rz_scaled (x r : list F) p c i j : ScaledLags x r p c -> isreal c -> (i <= p)%nat -> (j <= p)%nat ->
  rr r i j = c * gram x p i j.
Proof.
  intros HS Hc Hi Hj. unfold rr, rz. destruct (Z.leb_spec 0 (Z.of_nat i - Z.of_nat j)) as [H|H].
  - rewrite HS by lia. rewrite gram_is_raw by lia. do 2 f_equal. lia.
  - rewrite HS by lia. rewrite (gram_hermitian_thm x p i j), gram_is_raw by lia.
    rewrite conj_mul, Hc. do 3 f_equal. lia.
Qed.

(* the quadratic form is c * sum_n |(c' * x)[n]|^2 *)
Lemma tform_scaled (x r : list F) p c (v : nat -> F) : ScaledLags x r p c -> isreal c ->
  tform r p v = c * sumf (length x + p) (fun n => nrm2 (sumf (S p) (fun j => cm_entry x p n j * v j))).
Proof.
  intros HS Hc. rewrite <- (toeplitz_form_thm x p v). unfold tform, herm.
  rewrite <- sumf_scale. apply sumf_ext; intros i Hi. rewrite <- sumf_scale. apply sumf_ext; intros j Hj.
  rewrite (rz_scaled x r p c i j HS Hc) by lia. ring.
Qed.

(* the convolution of a non-zero signal with a non-zero vector does not vanish *)
Lemma conv_nonzero (x : list F) p (v : nat -> F) :
  (exists n, nthF x n <> 0) -> (exists i, (i <= p)%nat /\ v i <> 0) ->
  sumf (length x + p) (fun n => nrm2 (sumf (S p) (fun j => cm_entry x p n j * v j))) <> 0.
Proof.
  intros (n1 & Hn1) (i1 & Hi1 & Hv1) E.
  assert (Hn1' : (n1 < length x)%nat).
  { destruct (Nat.lt_ge_cases n1 (length x)) as [H|H]; [exact H|]. exfalso. apply Hn1. apply nthF_overflow. exact H. }
  destruct (first_nonzero (length x) (nthF x)) as [Hz|(n0 & Hn0 & Hx0 & Hxlow)]; [exfalso; apply Hn1; apply Hz; exact Hn1'|].
  destruct (first_nonzero (S p) v) as [Hz|(j0 & Hj0 & Hv0 & Hvlow)]; [exfalso; apply Hv1; apply Hz; lia|].
  pose proof (sum_nrm2_zero _ _ E (n0 + j0)%nat ltac:(lia)) as Y. cbv beta in Y.
  rewrite (sumf_single (S p) j0) in Y; [|exact Hj0|].
  - rewrite cm_entry_xz in Y by lia. unfold xz in Y. destruct (Nat.leb_spec j0 (n0 + j0)); [|lia].
    replace (n0 + j0 - j0)%nat with n0 in Y by lia.
    apply Hv0. apply (mul_cancel_l (nthF x n0)); assumption.
  - intros j Hj Hne. rewrite cm_entry_xz by lia.
    destruct (Nat.lt_ge_cases j j0) as [Hlt|Hge].
    + rewrite (Hvlow j Hlt). ring.
    + unfold xz. destruct (Nat.leb_spec j (n0 + j0)); [|ring]. rewrite Hxlow by lia. ring.
Qed.

Lemma raw0_nonneg (x : list F) : nonneg (raw x O).
Proof.
  unfold raw. apply nonneg_sumf. intros t _. rewrite Nat.add_0_r. apply nn_nrm2.
Qed.

Theorem scaled_lags_pd (x r : list F) p c : pos c -> ScaledLags x r p c -> (exists n, nthF x n <> 0) ->
  isreal (nthF r O) /\ PD r p.
Proof.
  intros Hc HS Hx. assert (Hcr : isreal c) by (apply pos_real; exact Hc). split.
  - unfold isreal. rewrite (HS O) by lia. rewrite conj_mul, Hcr. f_equal. apply nn_real. apply raw0_nonneg.
  - intros v Hv. rewrite (tform_scaled x r p c v HS Hcr).
    apply pos_mul; [exact Hc|]. split; [apply nonneg_sum_nrm2|apply conv_nonzero; assumption].
Qed.

(* ---------- the biased autocorrelation ---------- *)
Lemma acorr_biased_lags (x : list F) p r : acorr x p Biased = Some r ->
  (p < length x)%nat /\ length r = S p /\ ScaledLags x r p (1 / ofnat (length x)).
Proof.
  intros H. unfold acorr in H. destruct (correlation_def_thm _ _ _ _ _ _ H) as (Hp & Hl & Hk).
  cbv zeta in Hp, Hk. rewrite Nat.max_id in Hp, Hk. split; [exact Hp|]. split; [exact Hl|].
  intros d Hd. rewrite (Hk d Hd). unfold raw.
  assert (HN : ofnat (length x) <> 0) by (apply (pos_ofnat (length x)); lia).
  unfold norm_factor. destruct d; field; exact HN.
Qed.
Lemma acorr_returns (x : list F) p nm : (p < length x)%nat -> exists r, acorr x p nm = Some r.
Proof.
  intros Hp. unfold acorr, correlation. rewrite Nat.max_id. destruct (Nat.ltb_spec p (length x)); [eauto|lia].
Qed.
Lemma pos_inv_ofnat n : (1 <= n)%nat -> pos (1 / ofnat n).
Proof. intros H. apply pos_div; [apply pos_1|apply pos_ofnat; exact H]. Qed.

Theorem biased_acorr_pd_thm (x : list F) p r :
  (exists n, nthF x n <> 0) -> acorr x p Biased = Some r ->
  isreal (nthF r O) /\
  forall c : nat -> F, (exists i, (i <= p)%nat /\ c i <> 0) ->
    pos (sumf (S p) (fun i => sumf (S p) (fun j => conj (c i) * rz r (Z.of_nat i - Z.of_nat j) * c j))).
Proof.
  intros Hx Hr. destruct (acorr_biased_lags x p r Hr) as (Hp & _ & HS).
  exact (scaled_lags_pd x r p _ (pos_inv_ofnat (length x) ltac:(lia)) HS Hx).
Qed.

(* ---------- aryule ---------- *)
Definition valid_model (x : list F) (p : nat) (r a : list F) (P : F) (k : list F) : Prop :=
  length a = p /\ length k = p /\ pos P /\ le0 P = false
  /\ (forall j, (j < p)%nat -> lt (nrm2 (nthF k j)) 1)
  /\ (forall i, (i <= p)%nat -> toeplitz_row r p a i = if (i =? 0)%nat then P else 0)
  /\ P = nthF r O * prodk k
  /\ (1 <= p -> nthF a (p - 1) = nthF k (p - 1))%nat.

Theorem aryule_valid_thm (x : list F) (p : nat) (allow : bool) :
  (exists n, nthF x n <> 0) -> (p < length x)%nat ->
  exists r a P k,
    acorr x p Biased = Some r
    /\ (forall d, (d <= p)%nat -> nthF r d = raw x d / ofnat (length x))
    /\ aryule x p Biased allow = inr (a, P, k)
    /\ valid_model x p r a P k.
Proof.
  intros Hx Hp. destruct (acorr_returns x p Biased Hp) as [r Hr].
  destruct (acorr_biased_lags x p r Hr) as (_ & Hl & HS).
  destruct (scaled_lags_pd x r p _ (pos_inv_ofnat (length x) ltac:(lia)) HS Hx) as (Hr0 & HPD).
  destruct (levinson_pd_thm r p allow Hr0 ltac:(lia) HPD) as (a & P & k & Hlev & Ha & Hk & HP & Hle & Hkk & Hrow & HPk & Hlast & _).
  exists r, a, P, k. split; [exact Hr|]. split.
  { intros d Hd. rewrite (HS d Hd). field. apply (pos_ofnat (length x)). lia. }
  split.
  { unfold aryule. rewrite Hr. replace (length r - 1)%nat with p by lia. rewrite Hlev. reflexivity. }
  unfold valid_model. do 7 (split; [assumption|]). assumption.
Qed.

(* every stage of the recursion has positive error: the orders q <= p are valid too (nesting) *)
Theorem aryule_stages_thm (x : list F) (p : nat) (allow : bool) r a P k :
  (exists n, nthF x n <> 0) -> acorr x p Biased = Some r -> aryule x p Biased allow = inr (a, P, k) ->
  forall q, (q <= p)%nat -> exists a' P', levinson r q allow = Some (a', P', firstn q k) /\ pos P'.
Proof.
  intros Hx Hr Hy. destruct (acorr_biased_lags x p r Hr) as (Hp & Hl & HS).
  destruct (scaled_lags_pd x r p _ (pos_inv_ofnat (length x) ltac:(lia)) HS Hx) as (Hr0 & HPD).
  destruct (levinson_pd_thm r p allow Hr0 ltac:(lia) HPD) as (a1 & P1 & k1 & Hlev & _ & _ & _ & _ & _ & _ & _ & _ & Hst & _).
  unfold aryule in Hy. rewrite Hr in Hy. replace (length r - 1)%nat with p in Hy by lia. rewrite Hlev in Hy.
  injection Hy as <- <- <-. exact Hst.
Qed.

Lemma aryule_inv (x : list F) p allow a P k :
  aryule x p Biased allow = inr (a, P, k) ->
  exists r, acorr x p Biased = Some r /\ levinson r p allow = Some (a, P, k) /\ (p < length x)%nat /\ length r = S p.
Proof.
  intros Hy. unfold aryule in Hy. destruct (acorr x p Biased) as [r|] eqn:Hr; [|discriminate].
  destruct (acorr_biased_lags x p r Hr) as (Hp & Hl & _).
  replace (length r - 1)%nat with p in Hy by lia.
  destruct (levinson r p allow) as [st|] eqn:E; [|discriminate]. injection Hy as ->. eauto.
Qed.

(* the lag sequence implied by the model is the biased sample autocorrelation: any Hermitian lag
   sequence whose Yule-Walker equations are solved by the returned (a, P) has the data's lags 0..p *)
Theorem aryule_matches_acorr_thm (x : list F) (p : nat) (allow : bool) a P k (rho : list F) :
  (exists n, nthF x n <> 0) -> aryule x p Biased allow = inr (a, P, k) ->
  isreal (nthF rho O) ->
  (forall i, (i <= p)%nat -> toeplitz_row rho p a i = if (i =? 0)%nat then P else 0) ->
  forall d, (d <= p)%nat -> nthF rho d = raw x d / ofnat (length x).
Proof.
  intros Hx Hy Hrho Hrows d Hd. destruct (aryule_inv x p allow a P k Hy) as (r & Hr & Hlev0 & Hp & Hl).
  destruct (acorr_biased_lags x p r Hr) as (_ & _ & HS).
  destruct (scaled_lags_pd x r p _ (pos_inv_ofnat (length x) ltac:(lia)) HS Hx) as (Hr0 & HPD).
  destruct (levinson_pd_thm r p allow Hr0 ltac:(lia) HPD) as (a1 & P1 & k1 & Hlev & _ & _ & _ & _ & _ & _ & _ & _ & _ & Hm).
  rewrite Hlev0 in Hlev. injection Hlev as <- <- <-.
  rewrite (Hm rho Hrho Hrows d Hd), (HS d Hd). field. apply (pos_ofnat (length x)). lia.
Qed.

(* stability: every root, in the field, of z^p + a_1 z^(p-1) + ... + a_p lies strictly inside the unit circle *)
Theorem aryule_stable_thm (x : list F) (p : nat) (allow : bool) a P k (z : F) :
  (exists n, nthF x n <> 0) -> aryule x p Biased allow = inr (a, P, k) ->
  sumf (S p) (fun j => afun a j * fpow z (p - j)) = 0 -> lt (nrm2 z) 1.
Proof.
  intros Hx Hy Hz. destruct (aryule_inv x p allow a P k Hy) as (r & Hr & Hlev0 & Hp & Hl).
  destruct (acorr_biased_lags x p r Hr) as (_ & _ & HS).
  destruct (scaled_lags_pd x r p _ (pos_inv_ofnat (length x) ltac:(lia)) HS Hx) as (Hr0 & HPD).
  destruct (levinson_pd_thm r p allow Hr0 ltac:(lia) HPD) as (a1 & P1 & k1 & Hlev & _ & _ & _ & _ & _ & Hrow & _).
  rewrite Hlev0 in Hlev. injection Hlev as <- <- <-.
  apply (pd_root_inside r Hr0 p (afun a) P z HPD eq_refl); [|exact Hz].
  intros i Hi. exact (Hrow i Hi).
Qed.

(* ---------- least squares on the 'autocorrelation' data matrix ---------- *)
(* i-th normal equation of  min_b || X [1, b_1 .. b_p]^T ||^2 :  (X^H X b)_i  *)
Definition ls_normal (x : list F) (p : nat) (b : nat -> F) (i : nat) : F :=
  sumf (length x + p) (fun n => conj (cm_entry x p n i) * sumf (S p) (fun j => cm_entry x p n j * b j)).
Definition ls_resid (x : list F) (p : nat) (b : nat -> F) : F :=
  sumf (length x + p) (fun n => nrm2 (sumf (S p) (fun j => cm_entry x p n j * b j))).

Lemma ls_normal_gram (x : list F) p b i : ls_normal x p b i = sumf (S p) (fun j => gram x p i j * b j).
Proof.
  unfold ls_normal, gram.
  rewrite (sumf_ext _ _ (fun n => sumf (S p) (fun j => conj (cm_entry x p n i) * cm_entry x p n j * b j))).
  2:{ intros n _. rewrite <- sumf_scale. apply sumf_ext; intros j _. ring. }
  rewrite sumf_exch. apply sumf_ext; intros j _. rewrite sumf_scale_r. reflexivity.
Qed.
Lemma ls_normal_row (x r : list F) p c b i : ScaledLags x r p c -> isreal c -> (i <= p)%nat ->
  c * ls_normal x p b i = row r p b i.
Proof.
  intros HS Hc Hi. rewrite ls_normal_gram. unfold row. rewrite <- sumf_scale. apply sumf_ext; intros j Hj.
  rewrite (rz_scaled x r p c i j HS Hc) by lia. ring.
Qed.

Theorem aryule_is_ls_thm (x : list F) (p : nat) (allow : bool) a P k :
  (exists n, nthF x n <> 0) -> aryule x p Biased allow = inr (a, P, k) ->
  (* the Yule-Walker solution satisfies the least-squares normal equations *)
  (forall i, (1 <= i <= p)%nat -> ls_normal x p (afun a) i = 0)
  (* and is their only monic solution *)
  /\ (forall b : nat -> F, b O = 1 -> (forall i, (1 <= i <= p)%nat -> ls_normal x p b i = 0) ->
        forall j, (j <= p)%nat -> b j = afun a j)
  (* it attains the minimum of the residual energy, which is N * P *)
  /\ ls_resid x p (afun a) = ofnat (length x) * P
  /\ (forall b : nat -> F, b O = 1 -> le (ls_resid x p (afun a)) (ls_resid x p b)).
Proof.
  intros Hx Hy. destruct (aryule_inv x p allow a P k Hy) as (r & Hr & Hlev0 & Hp & Hl).
  destruct (acorr_biased_lags x p r Hr) as (_ & _ & HS).
  set (c := 1 / ofnat (length x)) in *.
  assert (Hcp : pos c) by (apply pos_inv_ofnat; lia).
  assert (Hc : isreal c) by (apply pos_real; exact Hcp).
  assert (HN : ofnat (length x) <> 0) by (apply (pos_ofnat (length x)); lia).
  destruct (scaled_lags_pd x r p c Hcp HS Hx) as (Hr0 & HPD).
  destruct (levinson_pd_thm r p allow Hr0 ltac:(lia) HPD) as (a1 & P1 & k1 & Hlev & _ & _ & _ & _ & _ & Hrow & _).
  rewrite Hlev0 in Hlev. injection Hlev as <- <- <-.
  assert (HNE : NormalEq r p (afun a) P) by (intros i Hi; exact (Hrow i Hi)).
  assert (Hres : forall b, ls_resid x p b = ofnat (length x) * tform r p b).
  { intros b. rewrite (tform_scaled x r p c b HS Hc). unfold ls_resid, c. field. exact HN. }
  split; [|split; [|split]].
  - intros i Hi. apply (mul_cancel_l c); [|apply Hcp].
    rewrite (ls_normal_row x r p c (afun a) i HS Hc) by lia. rewrite (HNE i) by lia.
    destruct (Nat.eqb_spec i O); [lia|reflexivity].
  - intros b Hb0 Hb j Hj.
    assert (HNb : NormalEq r p b (row r p b O)).
    { intros i Hi. destruct (Nat.eqb_spec i O) as [->|Hne]; [reflexivity|].
      rewrite <- (ls_normal_row x r p c b i HS Hc) by lia. rewrite Hb by lia. ring. }
    destruct (pd_unique_solution r p b _ (afun a) P HPD Hb0 eq_refl HNb HNE) as [E _]. apply E. exact Hj.
  - rewrite Hres. rewrite (tform_inv r p (afun a) P eq_refl HNE). reflexivity.
  - intros b Hb0. unfold le. rewrite !Hres.
    rewrite (pd_minimum r Hr0 p (afun a) P b eq_refl Hb0 HNE), (tform_inv r p (afun a) P eq_refl HNE).
    apply (nonneg_eq (ofnat (length x) * tform r p (fun j => b j - afun a j))); [ring|].
    apply nn_mul; [apply nonneg_ofnat|].
    rewrite (tform_scaled x r p c _ HS Hc). apply nn_mul; [apply Hcp|apply nonneg_sum_nrm2].
Qed.

(* ---------- lpc ---------- *)
Lemma pow2_ge_aux_ge fuel : forall acc n, (n <= acc * 2 ^ fuel)%nat -> (n <= pow2_ge_aux fuel acc n)%nat.
Proof.
  induction fuel as [|f IH]; intros acc n H; cbn [pow2_ge_aux].
  - cbn in H. lia.
  - destruct (Nat.leb_spec n acc); [assumption|]. apply IH. cbn [Nat.pow] in H. lia.
Qed.
Lemma pow2_ge_ge n : (n <= pow2_ge n)%nat.
Proof. unfold pow2_ge. apply pow2_ge_aux_ge. pose proof (Nat.pow_gt_lin_r 2 n ltac:(lia)). lia. Qed.

Lemma raw_real (x : list F) d : (forall j, isreal (nthF x j)) -> isreal (raw x d).
Proof.
  intros Hx. unfold isreal, raw. rewrite sumf_conj. apply sumf_ext; intros t _.
  rewrite conj_mul, conj_conj, !Hx. reflexivity.
Qed.

Lemma lpc_R_lags (x : list F) p : (forall j, isreal (nthF x j)) -> (2 <= length x)%nat -> (p <= length x - 1)%nat ->
  (p <= length (lpc_R x (length x) (length x)) - 1)%nat
  /\ ScaledLags x (lpc_R x (length x) (length x)) p (1 / ofnat (length x - 1)).
Proof.
  intros Hx Hm Hp.
  pose proof (pow2_ge_ge (2 * length x - 1)) as Hn.
  unfold lpc_R. rewrite mk_length. split; [lia|].
  intros d Hd. rewrite nth_mk by lia. destruct (Nat.ltb_spec d (length x)); [|lia].
  rewrite lag_sum_sumf. fold (raw x d). rewrite (re_real _ (raw_real x d Hx)).
  field. apply (pos_ofnat (length x - 1)). lia.
Qed.

Theorem lpc_same_coefficients_thm (x : list F) (p : nat) (allow : bool) :
  (forall j, isreal (nthF x j)) -> (exists n, nthF x n <> 0) -> (2 <= length x)%nat -> (p <= length x - 1)%nat ->
  exists a P k,
    aryule x p Biased allow = inr (a, P, k)
    /\ lpc x (Some p) = Some (a, P * ofnat (length x) / ofnat (length x - 1)).
Proof.
  intros Hreal Hx Hm Hp.
  destruct (aryule_valid_thm x p allow Hx ltac:(lia)) as (r & a & P & k & Hr & _ & Hy & (Ha & _ & _ & _ & _ & Hrow & _)).
  exists a, P, k. split; [exact Hy|].
  destruct (acorr_biased_lags x p r Hr) as (_ & _ & HS).
  set (c1 := 1 / ofnat (length x)) in *.
  assert (Hc1p : pos c1) by (apply pos_inv_ofnat; lia).
  assert (Hc1 : isreal c1) by (apply pos_real; exact Hc1p).
  destruct (scaled_lags_pd x r p c1 Hc1p HS Hx) as (Hr0 & HPD).
  destruct (lpc_R_lags x p Hreal Hm Hp) as (HpR & HSR).
  set (R := lpc_R x (length x) (length x)) in *. set (c2 := 1 / ofnat (length x - 1)) in *.
  assert (Hc2p : pos c2) by (apply pos_inv_ofnat; lia).
  assert (Hc2 : isreal c2) by (apply pos_real; exact Hc2p).
  destruct (scaled_lags_pd x R p c2 Hc2p HSR Hx) as (HR0 & HPDR).
  destruct (levinson_pd_thm R p false HR0 HpR HPDR) as (a2 & P2 & k2 & Hlev & Ha2 & _ & _ & _ & _ & Hrow2 & _).
  assert (HN : ofnat (length x) <> 0) by (apply (pos_ofnat (length x)); lia).
  assert (HN1 : ofnat (length x - 1) <> 0) by (apply (pos_ofnat (length x - 1)); lia).
  (* the lpc solution solves the biased normal equations with error P2 * c1 / c2 *)
  assert (HNE2 : NormalEq r p (afun a2) (P2 * c1 / c2)).
  { intros i Hi. rewrite <- (ls_normal_row x r p c1 (afun a2) i HS Hc1 Hi).
    pose proof (Hrow2 i Hi) as H2. change (toeplitz_row R p a2 i) with (row R p (afun a2) i) in H2.
    rewrite <- (ls_normal_row x R p c2 (afun a2) i HSR Hc2 Hi) in H2.
    assert (E : ls_normal x p (afun a2) i = (if (i =? 0)%nat then P2 else 0) / c2).
    { rewrite <- H2. field. apply Hc2p. }
    rewrite E. destruct (i =? 0)%nat; field; apply Hc2p. }
  assert (HNE : NormalEq r p (afun a) P) by (intros i Hi; exact (Hrow i Hi)).
  destruct (pd_unique_solution r p (afun a2) _ (afun a) P HPD eq_refl eq_refl HNE2 HNE) as [Eall EP].
  assert (Ea : a2 = a).
  { apply list_eq_nth; [lia|]. intros j Hj. apply (Eall (S j)). lia. }
  unfold lpc. destruct (Nat.ltb_spec (length x - 1) p); [lia|]. fold R. rewrite Hlev, Ea.
  do 2 f_equal. rewrite <- EP. unfold c1, c2. field. split; [exact HN1|]. split; [exact HN|apply one_neq_0].
Qed.

(* N = None is N = len(x) - 1 *)
Theorem lpc_default_thm (x : list F) : lpc x None = lpc x (Some (length x - 1)%nat).
Proof. unfold lpc. rewrite Nat.ltb_irrefl. reflexivity. Qed.

(* ---------- error branches ---------- *)
Theorem aryule_errors_thm (x : list F) (p : nat) (nm : cnorm) (allow : bool) :
  ((nm = Coeff \/ nm = NoNorm) -> aryule x p nm allow = inl YAssert)
  /\ ((length x <= p)%nat -> aryule x p nm allow = inl YAssert).
Proof.
  split.
  - intros [-> | ->]; reflexivity.
  - intros Hp. unfold aryule, acorr, correlation. rewrite Nat.max_id.
    destruct (Nat.ltb_spec p (length x)); [lia|]. destruct nm; reflexivity.
Qed.
End YW.
