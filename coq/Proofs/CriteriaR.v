(* The logarithmic order-selection criteria (AIC, AICc, KIC, AKICc, MDL) all have the form
   crit(N, rho, k) = alpha(N) * ln rho + beta(N, k).  Comparing the criterion values of two orders is
   therefore invariant under rho |-> s * rho (s > 0): the selected order does not depend on the
   amplitude of the data — provided the comparison at order 0 also uses the criterion's own value.
   Real numbers of the standard library (this file is the only place C03 uses them). *)
From Coq Require Import Reals Lra.
Local Open Scope R_scope.

Lemma log_criterion_homogeneous (alpha b1 b2 s r1 r2 : R) : 0 < s -> 0 < r1 -> 0 < r2 ->
  (alpha * ln (s * r2) + b2 > alpha * ln (s * r1) + b1 <-> alpha * ln r2 + b2 > alpha * ln r1 + b1).
Proof.
  intros Hs H1 H2. rewrite !ln_mult by assumption.
  split; intros H; lra.
Qed.

Definition AIC (N rho k : R) := N * ln rho + 2 * (k + 1).
Definition AICc (N rho k : R) := ln rho + 2 * (k + 1) / (N - k - 2).
Definition KIC (N rho k : R) := ln rho + 3 * (k + 1) / N.
Definition AKICc (N rho k : R) := ln rho + k / N / (N - k) + (3 - (k + 2) / N) * (k + 1) / (N - k - 2).
Definition MDL (N rho k : R) := N * ln rho + k * ln N.

(* "the criterion increased from order k1 to order k2" does not depend on a common positive factor of rho *)
Theorem log_criteria_scale_invariant (N s r1 r2 k1 k2 : R) : 0 < s -> 0 < r1 -> 0 < r2 ->
  (AIC N (s * r2) k2 > AIC N (s * r1) k1 <-> AIC N r2 k2 > AIC N r1 k1) /\
  (AICc N (s * r2) k2 > AICc N (s * r1) k1 <-> AICc N r2 k2 > AICc N r1 k1) /\
  (KIC N (s * r2) k2 > KIC N (s * r1) k1 <-> KIC N r2 k2 > KIC N r1 k1) /\
  (AKICc N (s * r2) k2 > AKICc N (s * r1) k1 <-> AKICc N r2 k2 > AKICc N r1 k1) /\
  (MDL N (s * r2) k2 > MDL N (s * r1) k1 <-> MDL N r2 k2 > MDL N r1 k1).
Proof.
  intros Hs H1 H2. unfold AIC, AICc, KIC, AKICc, MDL.
  repeat split; intros H;
    first [ apply (log_criterion_homogeneous N _ _ s r1 r2 Hs H1 H2); exact H
          | apply (log_criterion_homogeneous N _ _ s r1 r2 Hs H1 H2) in H; exact H
          | (assert (E := log_criterion_homogeneous 1 (k1 * 0) (k2 * 0) s r1 r2 Hs H1 H2); rewrite !ln_mult in * by assumption; lra) ].
Qed.
