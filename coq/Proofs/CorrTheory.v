(* Correlation estimates: definition, two-sided consistency, Gram matrix of the data matrix,
   the Toeplitz quadratic form is a sum of squared moduli. *)
Require Import Spectrum.Theory.Ops Spectrum.Theory.Sum Spectrum.Theory.Vec Spectrum.Model.Corr.

Section CorrT.
Context {F : Type} {OF : Ops F} {L : Laws OF}.
Local Open Scope F_scope.
Add Field FFc : (fth (O:=OF)).

Lemma lag_sum_sumf N (x y : list F) k :
  lag_sum N x y k = sumf (N - k) (fun j => nthF x (j + k) * conj (nthF y j)).
Proof. unfold lag_sum. apply sumL_mk. Qed.

Definition norm_factor (rmsprod : F) (N k : nat) (nm : cnorm) (s : F) : F :=
  match k, nm with
  | O, Biased | O, Unbiased => s / ofnat N
  | O, NoNorm => s
  | O, Coeff => 1
  | S _, Unbiased => s / ofnat (N - k)
  | S _, Biased => s / ofnat N
  | S _, NoNorm => s
  | S _, Coeff => s / rmsprod / ofnat N
  end.

Theorem correlation_def_thm rp (x y : list F) ml nm r :
  correlation rp x y ml nm = Some r ->
  let N := Nat.max (length x) (length y) in
  (ml < N)%nat /\ length r = S ml /\
  forall k, (k <= ml)%nat ->
    nthF r k = norm_factor rp N k nm (sumf (N - k) (fun j => nthF x (j + k) * conj (nthF y j))).
Proof.
  unfold correlation. cbv zeta. intros H. set (N := Nat.max (length x) (length y)) in *.
  destruct (Nat.ltb_spec ml N) as [Hl|Hl]; [|discriminate]. injection H as <-.
  split; [exact Hl|]. split; [apply mk_length|].
  intros k Hk. rewrite nth_mk by lia. rewrite lag_sum_sumf. unfold norm_factor.
  destruct k, nm; reflexivity.
Qed.
Theorem correlation_raises_thm rp (x y : list F) ml nm :
  correlation rp x y ml nm = None <-> (Nat.max (length x) (length y) <= ml)%nat.
Proof.
  unfold correlation. destruct (Nat.ltb_spec ml (Nat.max (length x) (length y))); split; intros; try discriminate; try lia; reflexivity.
Qed.

Lemma sumL_map_nrm2' (x : list F) : sumL (map nrm2 x) = sumf (length x) (fun j => nrm2 (nthF x j)).
Proof.
  rewrite sumL_sumf, map_length. apply sumf_ext; intros j Hj.
  apply nthF_map. unfold nrm2. ring.
Qed.

(* the biased / unbiased autocorrelation at lag 0 is the mean power *)
Theorem acorr_r0_thm (x : list F) ml nm r : (nm = Biased \/ nm = Unbiased) ->
  acorr x ml nm = Some r -> nthF r O = mean_pow x.
Proof.
  intros Hn H. unfold acorr in H. destruct (correlation_def_thm _ _ _ _ _ _ H) as (_ & _ & Hk).
  rewrite (Hk O) by lia. rewrite Nat.max_id, Nat.sub_0_r. unfold mean_pow. rewrite sumL_map_nrm2'.
  replace (norm_factor (mean_pow x) (length x) 0 nm) with (fun s : F => s / ofnat (length x)).
  2:{ destruct Hn as [-> | ->]; reflexivity. }
  cbn beta. f_equal. apply sumf_ext; intros j _. rewrite Nat.add_0_r. reflexivity.
Qed.
Theorem acorr_coeff_r0_thm (x : list F) ml r : acorr x ml Coeff = Some r -> nthF r O = 1.
Proof.
  intros H. unfold acorr in H. destruct (correlation_def_thm _ _ _ _ _ _ H) as (_ & _ & Hk).
  rewrite (Hk O) by lia. reflexivity.
Qed.

(* ---------- two-sided variant ---------- *)
Theorem xcorr_nonneg_thm rp (x y : list F) ml nm r rx k :
  length y = length x -> (ml < length x)%nat -> (k <= ml)%nat -> (nm <> Coeff \/ (1 <= k)%nat) ->
  correlation rp x y ml nm = Some r -> xcorr rp x y ml nm = Some rx ->
  nthF rx (ml + k) = nthF r k.
Proof.
  intros Hy Hml Hk Hc Hr Hx.
  destruct (correlation_def_thm _ _ _ _ _ _ Hr) as (_ & _ & Hrk). rewrite (Hrk k Hk).
  rewrite Hy, Nat.max_id. unfold xcorr in Hx. rewrite Hy, Nat.eqb_refl in Hx. cbn [negb orb] in Hx.
  destruct (Nat.ltb_spec (length x) ml); [lia|]. injection Hx as <-.
  rewrite nth_mk by lia. unfold xlag.
  replace (Z.of_nat (ml + k) - Z.of_nat ml)%Z with (Z.of_nat k) by lia.
  destruct (Z.leb_spec 0 (Z.of_nat k)); [|lia]. rewrite Nat2Z.id, lag_sum_sumf.
  rewrite Z.abs_eq, Nat2Z.id by lia.
  unfold norm_factor. destruct k, nm; try reflexivity; try (rewrite Nat.sub_0_r; reflexivity).
  destruct Hc as [Hc|Hc]; [congruence|lia].
Qed.

(* value at lag -k is conj of r_yx[k] *)
Theorem xcorr_neg_thm rp (x y : list F) ml nm rxy ryx k :
  length y = length x -> (ml < length x)%nat -> (1 <= k <= ml)%nat ->
  isreal rp -> rp <> 0 -> (forall n, (1 <= n <= length x)%nat -> ofnat n <> 0) ->
  xcorr rp x y ml nm = Some rxy -> xcorr rp y x ml nm = Some ryx ->
  nthF rxy (ml - k) = conj (nthF ryx (ml + k)).
Proof.
  intros Hy Hml Hk Hrp Hrp0 Hchar Hxy Hyx.
  unfold xcorr in Hxy, Hyx. rewrite Hy, Nat.eqb_refl in Hxy. rewrite Hy, Nat.eqb_refl in Hyx. cbn [negb orb] in *.
  destruct (Nat.ltb_spec (length x) ml); [lia|]. injection Hxy as <-. injection Hyx as <-.
  rewrite !nth_mk by lia. unfold xlag.
  replace (Z.of_nat (ml - k) - Z.of_nat ml)%Z with (- Z.of_nat k)%Z by lia.
  replace (Z.of_nat (ml + k) - Z.of_nat ml)%Z with (Z.of_nat k) by lia.
  destruct (Z.leb_spec 0 (- Z.of_nat k)); [lia|]. destruct (Z.leb_spec 0 (Z.of_nat k)); [|lia].
  rewrite Z.opp_involutive, Nat2Z.id, lag_sum_sumf, sumL_mk.
  rewrite Z.abs_neq, Z.opp_involutive, Z.abs_eq, Nat2Z.id by lia.
  assert (S : sumf (length x - k) (fun j => nthF x j * conj (nthF y (j + k)))
              = conj (sumf (length x - k) (fun j => nthF y (j + k) * conj (nthF x j)))).
  { rewrite sumf_conj. apply sumf_ext; intros j _. rewrite conj_mul, conj_conj. ring. }
  rewrite S. set (s := sumf _ _).
  assert (HN : ofnat (length x) <> 0) by (apply Hchar; lia).
  assert (HNk : ofnat (length x - k) <> 0) by (apply Hchar; lia).
  destruct nm.
  - rewrite conj_div, conj_ofnat by exact HN. reflexivity.
  - rewrite conj_div, conj_ofnat by exact HNk. reflexivity.
  - rewrite conj_div, conj_ofnat by exact HN. rewrite conj_div by exact Hrp0. rewrite Hrp. reflexivity.
  - reflexivity.
Qed.

(* ---------- Gram matrix of the 'autocorrelation' data matrix ---------- *)
Definition xz (x : list F) (n j : nat) : F := if (j <=? n)%nat then nthF x (n - j) else 0.
Lemma xz_zero (x : list F) n j : (n < j \/ length x <= n - j)%nat -> xz x n j = 0.
Proof. unfold xz. intros [H|H]; destruct (Nat.leb_spec j n); try lia; try reflexivity. apply nthF_overflow. exact H. Qed.

(* sum_n conj(X[n][i]) X[n][j] = raw lag sum at lag i-j (i >= j) *)
Lemma gram_raw (x : list F) (m i j : nat) : (j <= i <= m)%nat ->
  sumf (length x + m) (fun n => conj (xz x n i) * xz x n j)
  = sumf (length x - (i - j)) (fun t => nthF x (t + (i - j)) * conj (nthF x t)).
Proof.
  intros Hij. set (N := length x). set (d := (i - j)%nat).
  replace (N + m)%nat with (i + (N + m - i))%nat by lia. rewrite sumf_split.
  rewrite sumf_zero_ext.
  2:{ intros n Hn. rewrite (xz_zero x n i) by lia. rewrite conj_0. ring. }
  transitivity (sumf (N + m - i) (fun t => conj (nthF x t) * nthF x (t + d))).
  { transitivity (0 + sumf (N + m - i) (fun t => conj (nthF x t) * nthF x (t + d))); [f_equal|ring].
    apply sumf_ext; intros t Ht. unfold xz.
    destruct (Nat.leb_spec i (i + t)); [|lia]. destruct (Nat.leb_spec j (i + t)); [|lia].
    f_equal; [f_equal|]; f_equal; unfold d; lia. }
  destruct (Nat.le_gt_cases (N - d) (N + m - i)) as [Hle|Hgt].
  - rewrite (sumf_le_ext (N - d) (N + m - i)) by
      (try exact Hle; intros t Ht; rewrite (nthF_overflow x (t + d)) by (fold N; lia); ring).
    apply sumf_ext; intros t _. ring.
  - symmetry. rewrite (sumf_le_ext (N + m - i) (N - d)) by
      (try lia; intros t Ht; rewrite (nthF_overflow x (t + d)) by (fold N; unfold d in *; lia); ring).
    apply sumf_ext; intros t _. ring.
Qed.

Definition cm_entry (x : list F) (m n j : nat) : F := nthF (nth n (corrmtx x m MAutocorrelation) []) j.
Lemma cm_entry_xz (x : list F) m n j : (n < length x + m)%nat -> (j <= m)%nat -> cm_entry x m n j = xz x n j.
Proof.
  intros Hn Hj. unfold cm_entry, corrmtx.
  rewrite (nth_indep _ [] (xrow x m O)) by (rewrite map_length, seq_length; exact Hn).
  rewrite map_nth, seq_nth by exact Hn. unfold xrow. rewrite nth_mk by lia. reflexivity.
Qed.
Definition gram (x : list F) (m i j : nat) : F :=
  sumf (length x + m) (fun n => conj (cm_entry x m n i) * cm_entry x m n j).

Theorem corrmtx_gram_thm (x : list F) m i j r : (j <= i <= m)%nat -> (m < length x)%nat ->
  ofnat (length x) <> 0 -> acorr x m Biased = Some r ->
  gram x m i j = ofnat (length x) * nthF r (i - j).
Proof.
  intros Hij Hm HN Hr. unfold gram.
  rewrite (sumf_ext _ _ (fun n => conj (xz x n i) * xz x n j)).
  2:{ intros n Hn. rewrite !cm_entry_xz by lia. reflexivity. }
  rewrite (gram_raw x m i j Hij).
  unfold acorr in Hr. destruct (correlation_def_thm _ _ _ _ _ _ Hr) as (_ & _ & Hk).
  rewrite (Hk (i - j)%nat) by lia. rewrite Nat.max_id.
  set (s := sumf _ _). unfold norm_factor. destruct (i - j)%nat; field; exact HN.
Qed.
Theorem gram_hermitian_thm (x : list F) m i j : gram x m i j = conj (gram x m j i).
Proof.
  unfold gram. rewrite sumf_conj. apply sumf_ext; intros n _. rewrite conj_mul, conj_conj. ring.
Qed.

(* c^H (X^H X) c = sum_n |sum_j X[n][j] c_j|^2 : the Toeplitz form is a sum of squared moduli *)
Theorem toeplitz_form_thm (x : list F) m (c : nat -> F) :
  sumf (S m) (fun i => sumf (S m) (fun j => conj (c i) * gram x m i j * c j))
  = sumf (length x + m) (fun n => nrm2 (sumf (S m) (fun j => cm_entry x m n j * c j))).
Proof.
  unfold gram, nrm2.
  transitivity (sumf (S m) (fun i => sumf (S m) (fun j => sumf (length x + m)
                 (fun n => (cm_entry x m n j * c j) * conj (cm_entry x m n i * c i))))).
  { apply sumf_ext; intros i _. apply sumf_ext; intros j _.
    rewrite <- sumf_scale, <- sumf_scale_r. apply sumf_ext; intros n _. rewrite conj_mul. ring. }
  rewrite (sumf_ext (S m) _ (fun i => sumf (length x + m) (fun n => sumf (S m)
            (fun j => cm_entry x m n j * c j * conj (cm_entry x m n i * c i))))).
  2:{ intros i _. apply sumf_exch. }
  rewrite sumf_exch. apply sumf_ext; intros n _.
  rewrite sumf_conj, <- sumf_scale. apply sumf_ext; intros i _.
  rewrite sumf_scale_r. reflexivity.
Qed.
End CorrT.
