(* C04 — speriodogram (complex data, every window, every N / NFFT incl. cropping for the shift and mirror clauses):
     modulated data  => bins rotated by m        (detrend off: subtracting the mean is not covariant)
     conjugated data => bins mirrored            (real window)
     conj(reversed)  => same bins                (real symmetric window, N <= NFFT)  *)
Require Import Spectrum.Theory.Ops Spectrum.Theory.Sum Spectrum.Theory.Vec Spectrum.Theory.Dft
               Spectrum.Model.Levinson Spectrum.Model.Corr Spectrum.Model.Periodogram
               Spectrum.Proofs.ShiftTheory Spectrum.Proofs.PeriodogramTheory Spectrum.Proofs.ShiftDft_C04.

Section ShiftPer.
Context {F : Type} {OF : Ops F} {L : Laws OF}.
Context (n : nat) (tw : Z -> F) {T : Twiddle n tw} (n_pos : (0 < n)%nat).
Local Open Scope F_scope.
Add Field FFsp : (fth (O:=OF)).

Lemma vconj_length (x : list F) : length (vconj x) = length x. Proof. apply map_length. Qed.

Lemma mean_conj (x : list F) : ofnat (length x) <> 0 -> mean (vconj x) = conj (mean x).
Proof.
  intros H. unfold mean. rewrite vconj_length, conj_div, conj_ofnat by exact H. f_equal.
  rewrite !sumL_sumf, vconj_length, sumf_conj. apply sumf_ext; intros j _. apply nthF_vconj.
Qed.

Theorem periodogram_shift_thm twopi (x w : list F) NFFT dt sbf fs (m : Z) :
  resolve NFFT (length x) = n -> py_eq_true dt = false ->
  speriodogram tw twopi (vmod (sphase tw m) 0 x) w NFFT false dt sbf fs
  = rot m (speriodogram tw twopi x w NFFT false dt sbf fs).
Proof.
  intros Hres Hdt.
  assert (Hl : forall y : list F, length y = length x -> length (speriodogram tw twopi y w NFFT false dt sbf fs) = n).
  { intros y Hy. rewrite periodogram_length_thm by (rewrite Hy, Hres; lia). rewrite Hy, Hres. reflexivity. }
  apply list_eq_nth; [rewrite rot_length, !Hl by (rewrite ?vmod_length; reflexivity); reflexivity|].
  intros k Hk. rewrite Hl in Hk by apply vmod_length.
  rewrite nth_rot by (rewrite Hl by reflexivity; exact Hk). rewrite Hl by reflexivity.
  rewrite !periodogram_general_thm by (rewrite ?vmod_length, Hres; cbn [nbins]; try apply ridx_lt; lia).
  rewrite !vmod_length, Hres. unfold detrend_mean. rewrite Hdt.
  f_equal. f_equal. f_equal. rewrite (dftN_ridx n tw n_pos).
  rewrite <- (dft_modulation n tw n_pos). unfold dftN. apply sumf_ext; intros j _.
  rewrite nthF_vmod. unfold sphase. replace (- (m * (Z.of_nat j + 0)))%Z with (- (m * Z.of_nat j))%Z by lia. ring.
Qed.

Theorem periodogram_mirror_thm twopi (x w : list F) NFFT dt sbf fs :
  resolve NFFT (length x) = n -> (forall j, isreal (nthF w j)) -> (py_eq_true dt = true -> ofnat (length x) <> 0) ->
  speriodogram tw twopi (vconj x) w NFFT false dt sbf fs = mirror (speriodogram tw twopi x w NFFT false dt sbf fs).
Proof.
  intros Hres Hw Hdt.
  assert (Hl : forall y : list F, length y = length x -> length (speriodogram tw twopi y w NFFT false dt sbf fs) = n).
  { intros y Hy. rewrite periodogram_length_thm by (rewrite Hy, Hres; lia). rewrite Hy, Hres. reflexivity. }
  apply list_eq_nth; [rewrite mirror_length, !Hl by (rewrite ?vconj_length; reflexivity); reflexivity|].
  intros k Hk. rewrite Hl in Hk by apply vconj_length.
  rewrite nth_mirror by (rewrite Hl by reflexivity; exact Hk). rewrite Hl by reflexivity.
  rewrite !periodogram_general_thm by (rewrite ?vconj_length, Hres; cbn [nbins]; try apply ridx_lt; lia).
  rewrite !vconj_length, Hres. f_equal. f_equal. rewrite (dftN_ridx n tw n_pos).
  transitivity (nrm2 (conj (dftN tw (Nat.min (length x) n) (fun i => nthF x i * nthF w i - detrend_mean dt x) (- Z.of_nat k)))).
  - f_equal. rewrite <- (dft_conj n tw n_pos). unfold dftN. apply sumf_ext; intros j _. f_equal.
    rewrite conj_sub, conj_mul, (Hw j), nthF_vconj. f_equal.
    unfold detrend_mean. destruct (py_eq_true dt) eqn:E; [apply mean_conj; apply Hdt; reflexivity|symmetry; apply conj_0].
  - unfold nrm2. rewrite conj_conj. ring.
Qed.

Theorem periodogram_reversal_thm twopi (x w : list F) NFFT dt sbf fs :
  resolve NFFT (length x) = n -> (length x <= n)%nat -> py_eq_true dt = false ->
  (forall j, isreal (nthF w j)) -> (forall j, (j < length x)%nat -> nthF w (length x - 1 - j) = nthF w j) ->
  speriodogram tw twopi (vrevconj x) w NFFT false dt sbf fs = speriodogram tw twopi x w NFFT false dt sbf fs.
Proof.
  intros Hres HN Hdt Hw Hsym.
  assert (Hl : forall y : list F, length y = length x -> length (speriodogram tw twopi y w NFFT false dt sbf fs) = n).
  { intros y Hy. rewrite periodogram_length_thm by (rewrite Hy, Hres; lia). rewrite Hy, Hres. reflexivity. }
  apply list_eq_nth; [rewrite !Hl by (rewrite ?vrevconj_length; reflexivity); reflexivity|].
  intros k Hk. rewrite Hl in Hk by apply vrevconj_length.
  rewrite !periodogram_general_thm by (rewrite ?vrevconj_length, Hres; cbn [nbins]; lia).
  rewrite !vrevconj_length, Hres, Nat.min_l by exact HN. unfold detrend_mean. rewrite Hdt.
  f_equal. f_equal.
  set (v := fun i => nthF x i * nthF w i - 0).
  transitivity (nrm2 (conj (tw ((Z.of_nat (length x) - 1) * (- Z.of_nat k))%Z * dftN tw (length x) v (Z.of_nat k)))).
  - f_equal. rewrite <- (Z.opp_involutive (Z.of_nat k)) at 3.
    rewrite <- (dft_reverse n tw n_pos). rewrite <- (dft_conj n tw n_pos).
    unfold dftN. apply sumf_ext; intros j Hj. f_equal. unfold v, vrevconj. rewrite nth_mk by exact Hj.
    rewrite conj_sub, conj_mul, conj_0, (Hw (length x - 1 - j)%nat), Hsym by exact Hj. reflexivity.
  - apply (nrm2_conj_tw_mul n tw n_pos).
Qed.
End ShiftPer.
